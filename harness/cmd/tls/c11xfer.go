package main

// C11 part 4: the hot-upgrade path as far as it can be done in ONE process.  An "old" server (the in-process MOSN of part
// 3) and a "new" connection handler (server.NewHandler) whose listener INHERITS the old listening socket (a dup of the old
// listener's file, the way the new process gets it over listen.sock), joined by the real connection-transfer code:
// network.TransferServer(newHandler) on the real unix socket, and on the old side the real read loop -> transfer() ->
// transferRead / transferWrite once StopConnection() has fired.  No hook is used.
//
//   * a bolt connection whose request has been received only up to byte offset k - for EVERY k of the frame - is handed
//     over; the rest is then sent; the request must be answered exactly once (the real-code tie of c11_handover_stream);
//   * connections whose request is waiting for the upstream at hand-over: the reply reaches the old process and must be
//     forwarded through the write-path messages, exactly once;
//   * a new connection made after the switch is accepted by the new handler (inherited socket) and served.

import (
	"bytes"
	"context"
	"encoding/json"
	"fmt"
	"io"
	"net"
	"os"
	"strconv"
	"strings"
	"sync"
	"syscall"
	"time"

	"mosn.io/api"
	v2 "mosn.io/mosn/pkg/config/v2"
	"mosn.io/mosn/pkg/configmanager"
	"mosn.io/mosn/pkg/log"
	"mosn.io/mosn/pkg/network"
	"mosn.io/mosn/pkg/server"
	"mosn.io/mosn/pkg/stagemanager"
	"mosn.io/mosn/pkg/types"
	"mosn.io/pkg/utils"

	. "vh/vhlib"
)

func numConns(h types.ConnectionHandler) uint64 {
	if n, ok := h.(interface{ NumConnections() uint64 }); ok {
		return n.NumConnections()
	}
	return 0
}

type noopCMF struct{}

func (noopCMF) OnCreated(types.ClusterConfigFactoryCb, types.ClusterHostFactoryCb) {}

const xferListener = "vh-xfer"

type xferConn struct {
	Kind    string `json:"kind"`   // partial | in-flight | new-after-switch
	Offset  int    `json:"offset"` // bytes of the request sent before the hand-over
	Frame   int    `json:"frame_bytes"`
	Replies int    `json:"replies"`
	Err     string `json:"error,omitempty"`
	c       net.Conn
	frame   []byte
	id      uint32
}

// fixedBody is the upstream script as JSON padded with spaces to a fixed length, so that every frame has the same size.
func fixedBody(up int) []byte {
	b, _ := json.Marshal(script{Up: up})
	for len(b) < 40 {
		b = append(b, ' ')
	}
	return b
}

// readReplies counts the responses with the given id that arrive within the window.
func readReplies(c net.Conn, id uint32, first, extra time.Duration) (int, string) {
	n := 0
	c.SetReadDeadline(time.Now().Add(first))
	for {
		typ, _, rid, content, err := readBoltFrame(c)
		if err != nil {
			if ne, ok := err.(net.Error); ok && ne.Timeout() {
				return n, ""
			}
			if n > 0 {
				return n, ""
			}
			return n, err.Error()
		}
		if typ == 0 && rid == id && string(content) == "ok" {
			n++
			c.SetReadDeadline(time.Now().Add(extra)) // a duplicate would follow shortly
		}
	}
}

func c11Transfer(run *Run, mu *mosnUnderTest, xl v2.Listener) int {
	oldH := mu.handler
	addr := xl.AddrConfig
	// shorter timers for this part only: a read loop notices StopConnection at its next read timeout, then waits
	// TransferTimeout + rand(TransferTimeout) before it hands the connection over
	types.DefaultConnReadTimeout = 150 * time.Millisecond
	network.SetTransferTimeout(60 * time.Millisecond)

	sample := boltRequest(1, fixedBody(20))
	var conns []*xferConn
	for k := 0; k <= len(sample)-1; k++ {
		conns = append(conns, &xferConn{Kind: "partial", Offset: k, Frame: len(sample)})
	}
	// a large request (6 kB of content): hand-over with the buffered byte count around the sizes of the buffer pool
	bigOffsets := []int{127, 128, 129, 255, 256, 257, 511, 512, 513, 1023, 1024, 1025, 2047, 2048, 2049, 4095, 4096, 4097}
	for _, k := range bigOffsets {
		conns = append(conns, &xferConn{Kind: "partial-large", Offset: k})
	}
	// connections that are IDLE at hand-over (empty read buffer): right after the warm-up, and after one more complete
	// request/reply exchange (the buffer was filled and drained exactly)
	for i := 0; i < 3; i++ {
		conns = append(conns, &xferConn{Kind: "idle"}, &xferConn{Kind: "idle-after-complete-frame"})
	}
	nIn := run.N(4, 12)
	for i := 0; i < nIn; i++ {
		conns = append(conns, &xferConn{Kind: "in-flight", Frame: len(sample)})
	}
	// connect + warm up (an xprotocol connection supports transfer once its stream connection exists), send the prefix
	var wg sync.WaitGroup
	for i, xc := range conns {
		wg.Add(1)
		go func(i int, xc *xferConn) {
			defer wg.Done()
			var c net.Conn
			var err error
			for try := 0; try < 3; try++ { // an overloaded machine may need more than one attempt
				if c, err = dialLocal(addr, 2*time.Second); err != nil {
					continue
				}
				if err = (&boltClient{c: c}).warmup(); err == nil {
					break
				}
				c.Close()
			}
			if err != nil {
				xc.Err = "set-up: " + err.Error()
				return
			}
			xc.c = c
			xc.id = uint32(xferIDBase() + i)
			up := 20
			if xc.Kind == "in-flight" {
				up = 1300 // longer than drain + hand-over: the reply arrives at the old process after the transfer
				xc.Offset = len(sample)
			}
			xc.frame = boltRequest(xc.id, fixedBody(up))
			if xc.Kind == "partial-large" {
				big := fixedBody(up)
				for len(big) < 6000 {
					big = append(big, ' ')
				}
				xc.frame = boltRequest(xc.id, big)
			}
			xc.Frame = len(xc.frame)
			if xc.Offset > len(xc.frame) {
				xc.Offset = len(xc.frame)
			}
			c.SetWriteDeadline(time.Now().Add(2 * time.Second))
			if xc.Kind == "idle-after-complete-frame" {
				pre := uint32(xferIDBase() + 50000 + i)
				c.Write(boltRequest(pre, fixedBody(5)))
				if n, e := readReplies(c, pre, generous, 0); n != 1 {
					xc.Err = "set-up: no reply to the request before the hand-over: " + e
					return
				}
			}
			if xc.Offset > 0 {
				c.Write(xc.frame[:xc.Offset])
			}
		}(i, xc)
	}
	wg.Wait()
	for _, xc := range conns {
		if xc.Err != "" {
			// not an observation of the hand-over: the part is skipped and says so
			fmt.Fprintln(os.Stderr, "transfer part could not set up its connections:", xc.Err)
			run.Count("xfer|skipped", false, "upgrade-part-skipped-setup-failed")
			return 0
		}
	}
	// ---- the half-WRITTEN response: reference streams first (an ordinary connection, no hand-over), then a slow reader
	hw := setupHalfWritten(addr, run.N(12, 16)<<20)
	time.Sleep(60 * time.Millisecond)
	oldBefore := numConns(oldH)

	// ---- the "new process": a second connection handler whose listener inherits the old listening socket
	ol := oldH.FindListenerByName(xferListener)
	if ol == nil {
		fmt.Println("old listener not found")
		return 2
	}
	lf, err := ol.ListenerFile()
	if err != nil {
		fmt.Println("ListenerFile:", err)
		return 2
	}
	inherited, err := net.FileListener(lf)
	lf.Close()
	if err != nil {
		fmt.Println("FileListener:", err)
		return 2
	}
	newH := server.NewHandler(noopCMF{}, mu.m.Clustermanager)
	nlc := xl
	nlc.Addr = nil
	lc := configmanager.ParseListenerConfig(&nlc, []net.Listener{inherited}, nil)
	if lc.InheritListener == nil {
		fmt.Println("the new listener did not inherit the socket")
		return 2
	}
	if _, err := newH.AddOrUpdateListener(lc); err != nil {
		fmt.Println("new handler AddOrUpdateListener:", err)
		return 2
	}
	// the new side reports every handed-over connection at INFO: the hand-over runs with the default logger at INFO or at
	// DEBUG (by seed; the direct hand-overs below use the other level); output goes to the configured path (/dev/null)
	mainLevel, otherLevel := log.INFO, log.DEBUG
	if run.Seed%2 == 1 {
		mainLevel, otherLevel = log.DEBUG, log.INFO
	}
	log.DefaultLogger.SetLogLevel(mainLevel)
	defer log.DefaultLogger.SetLogLevel(log.FATAL)
	go network.TransferServer(newH)
	time.Sleep(80 * time.Millisecond)
	newH.StartListeners(context.Background())

	// ---- the old process: what ReconfigureHandler does after the new one is up
	stagemanager.SetState(stagemanager.Upgrading)
	oldH.GracefulStopListener(context.Background(), xferListener) // stopAccept + drain
	stagemanager.SetState(stagemanager.Running)
	oldH.StopConnection() // every read loop of the old handler now hands its connection over

	// wait until the new handler owns the connections
	want := uint64(len(conns))
	deadline := time.Now().Add(generous)
	for numConns(newH) < want && time.Now().Before(deadline) {
		time.Sleep(20 * time.Millisecond)
	}
	transferred := numConns(newH)
	time.Sleep(100 * time.Millisecond)
	// the slow reader: the transfer timers have fired by now; a second, pipelined request, then read everything
	var hwWG sync.WaitGroup
	hwWG.Add(1)
	go func() { defer hwWG.Done(); hw.finish() }()

	// ---- the clients go on: rest of the request, then count the replies
	for _, xc := range conns {
		wg.Add(1)
		go func(xc *xferConn) {
			defer wg.Done()
			xc.c.SetWriteDeadline(time.Now().Add(2 * time.Second))
			if xc.Offset < len(xc.frame) {
				if _, err := xc.c.Write(xc.frame[xc.Offset:]); err != nil {
					xc.Err = "write after hand-over: " + err.Error()
				}
			}
			xc.Replies, xc.Err = readReplies(xc.c, xc.id, generous, 600*time.Millisecond)
			xc.c.Close()
		}(xc)
	}
	// a new connection after the switch: accepted through the inherited socket by the new handler
	nx := &xferConn{Kind: "new-after-switch", Frame: len(sample), id: 9000}
	if c, err := dialLocal(addr, time.Second); err != nil {
		nx.Err = "dial: " + err.Error()
	} else {
		c.SetWriteDeadline(time.Now().Add(2 * time.Second))
		c.Write(boltRequest(nx.id, fixedBody(10)))
		nx.Replies, nx.Err = readReplies(c, nx.id, generous, 400*time.Millisecond)
		c.Close()
	}
	wg.Wait()
	conns = append(conns, nx)
	// ---- direct hand-overs at the other log level: the new side of transferNewConn (listener callbacks' OnAccept with the
	// accept channel and the transferred bytes, in a recovered goroutine), for nothing / an empty buffer / a prefix buffered
	log.DefaultLogger.SetLogLevel(otherLevel)
	dBufs, dKs := [][]byte{nil, {}, nil}, []int{0, 0, 7}
	if n, _ := strconv.Atoi(os.Getenv("VH_DIRECT_N")); n > 0 {
		for i := 0; i < n; i++ {
			dBufs, dKs = append(dBufs, []byte{}), append(dKs, 0)
		}
	}
	direct := directHandOvers(newH, dBufs, dKs)
	log.DefaultLogger.SetLogLevel(log.FATAL)

	hwWG.Wait()
	hw.report(run)

	// ---- evaluate
	run.Sum.Extra["in_process_upgrade"] = map[string]interface{}{"connections_on_old_before": oldBefore, "connections_to_hand_over": len(conns) - 1, "connections_owned_by_new_handler_after": transferred}
	if transferred < want {
		run.Fail("upgrade:connections-not-handed-over", fmt.Sprintf("only %d of %d xprotocol connections reached the new handler through the transfer socket", transferred, want),
			map[string]interface{}{"part": "transfer", "handed_over": transferred, "expected": want})
	}
	run.Sum.Extra["hand_over_log_levels"] = map[string]interface{}{"transfer": fmt.Sprint(mainLevel), "direct": fmt.Sprint(otherLevel)}
	sh := run.NewShard(inlineGen(genTransferTokens)+c11Header, "xfer_case", "xfer_mismatches transfer_buffer_has_room transfer_buffer_always_published")
	for _, d := range direct {
		rep := map[string]interface{}{"part": "transfer-direct", "connection": d, "log_level": fmt.Sprint(otherLevel)}
		if d.Err != "" && strings.HasPrefix(d.Err, "set-up") {
			run.Count(fmt.Sprintf("xfer-direct|%d|skip", d.Offset), false, "upgrade-direct-skipped-setup-failed")
			continue
		}
		run.Count(fmt.Sprintf("xfer-direct|%s|%d", d.Kind, d.Offset), true, "upgrade-direct-"+d.Kind)
		if d.Replies == 0 {
			sig := "upgrade:request-on-handed-over-connection-lost:direct"
			if d.Offset == 0 {
				sig = "transfer:handed-over-idle-connection-never-served"
			}
			run.Fail(sig, fmt.Sprintf("direct hand-over (%s, %d bytes buffered, logger at %v): the new side accepted the connection but never answered the request sent on it (%s)", d.Kind, d.Offset, otherLevel, d.Err), rep)
		}
		sh.Add(fmt.Sprintf("(%s, %d%%nat, %d%%nat)", CoqBytes(d.frame), d.Offset, d.Replies), rep)
	}
	for _, xc := range conns {
		rep := map[string]interface{}{"part": "transfer", "connection": xc}
		run.Count(fmt.Sprintf("xfer|%s|%d", xc.Kind, xc.Offset), true, "upgrade-"+xc.Kind)
		switch {
		case xc.Replies == 0 && xc.Offset == 0 && xc.Kind != "new-after-switch":
			run.Fail("transfer:handed-over-idle-connection-never-served", fmt.Sprintf("%s connection (nothing buffered at hand-over, logger at %v): the request sent after the hand-over got no reply (%s)", xc.Kind, mainLevel, xc.Err), rep)
		case xc.Replies == 0:
			run.Fail("upgrade:request-on-handed-over-connection-lost:"+xc.Kind, fmt.Sprintf("%s connection (request received up to byte %d of %d at hand-over): no reply (%s)", xc.Kind, xc.Offset, xc.Frame, xc.Err), rep)
		case xc.Replies > 1:
			run.Fail("upgrade:request-on-handed-over-connection-answered-twice:"+xc.Kind, fmt.Sprintf("%s connection (offset %d of %d): %d replies", xc.Kind, xc.Offset, xc.Frame, xc.Replies), rep)
		}
		if xc.Kind == "partial" || xc.Kind == "partial-large" || strings.HasPrefix(xc.Kind, "idle") {
			// model: old process fed the first k bytes, hand-over, new process fed the rest: number of frames extracted
			sh.Add(fmt.Sprintf("(%s, %d%%nat, %d%%nat)", CoqBytes(xc.frame), xc.Offset, xc.Replies), rep)
		}
	}
	sh.Close()
	run.Sample(map[string]interface{}{"part": "transfer", "offsets": len(sample), "handed_over": transferred})
	return 0
}

func xferIDBase() int {
	if v := os.Getenv("VH_XFER_IDBASE"); v != "" {
		n, _ := strconv.Atoi(v)
		return n
	}
	return 100
}

// ---------------------------------------------------------------------------------------------
// Hand-over while the old process has a response HALF WRITTEN.  A client with a tiny receive buffer asks for a multi-MiB
// response and reads only its beginning, so the old process blocks in doWrite holding the connection's write lock; the
// hand-over is triggered; the client sends a second, pipelined request and then reads everything.  The property: the
// client sees response 1 intact and complete, then response 2 - decided by comparing the whole client stream byte for byte
// with reference streams recorded on an ordinary connection (no wall-clock judgement; 60 s deadlines).

type halfWritten struct {
	Size     int    `json:"response_1_content_bytes"`
	RefLen1  int    `json:"response_1_stream_bytes"`
	RefLen2  int    `json:"response_2_stream_bytes"`
	Got      int    `json:"client_stream_bytes"`
	Resp2At  int    `json:"offset_of_response_2_in_client_stream"` // -1: not found
	Intact   bool   `json:"stream_equals_response_1_then_response_2"`
	FirstBad int    `json:"first_differing_offset"`
	Err      string `json:"error,omitempty"`
	Skipped  string `json:"skipped,omitempty"`
	c        net.Conn
	ref      []byte
	ref2     []byte
	head     []byte
}

func hwRequest(id uint32, size int) []byte {
	b, _ := json.Marshal(script{Size: size})
	return boltRequest(id, b)
}

func readExactly(c net.Conn, n int, d time.Duration) ([]byte, error) {
	c.SetReadDeadline(time.Now().Add(d))
	b := make([]byte, n)
	_, err := io.ReadFull(c, b)
	return b, err
}

func setupHalfWritten(addr string, size int) *halfWritten {
	hw := &halfWritten{Size: size, Resp2At: -1, FirstBad: -1}
	types.DefaultConnWriteTimeout = 90 * time.Second // the slow reader must not run into the old side's write deadline
	// reference: the two responses as the old process writes them on an ordinary connection
	rc, err := dialLocal(addr, 2*time.Second)
	if err != nil {
		hw.Skipped = "reference connection: " + err.Error()
		return hw
	}
	defer rc.Close()
	if err := (&boltClient{c: rc}).warmup(); err != nil {
		hw.Skipped = "reference warm-up: " + err.Error()
		return hw
	}
	rc.SetWriteDeadline(time.Now().Add(generous))
	rc.Write(hwRequest(501, size))
	ref1, err := readExactly(rc, 20+size, 60*time.Second)
	if err != nil {
		hw.Skipped = "reference response 1: " + err.Error()
		return hw
	}
	rc.Write(boltRequest(502, fixedBody(0)))
	ref2, err := readExactly(rc, 20+2, 60*time.Second)
	if err != nil {
		hw.Skipped = "reference response 2: " + err.Error()
		return hw
	}
	hw.ref, hw.ref2 = append(ref1, ref2...), ref2
	hw.RefLen1, hw.RefLen2 = len(ref1), len(ref2)
	// the slow reader: tiny receive buffer, reads only the beginning of response 1
	d := net.Dialer{Timeout: 2 * time.Second, Control: func(network, address string, c syscall.RawConn) error {
		return c.Control(func(fd uintptr) { syscall.SetsockoptInt(int(fd), syscall.SOL_SOCKET, syscall.SO_RCVBUF, 4096) })
	}}
	c, err := d.Dial("tcp", addr)
	if err != nil {
		hw.Skipped = "slow connection: " + err.Error()
		return hw
	}
	hw.c = c
	if err := (&boltClient{c: c}).warmup(); err != nil {
		hw.Skipped = "slow connection warm-up: " + err.Error()
		return hw
	}
	c.SetWriteDeadline(time.Now().Add(generous))
	c.Write(hwRequest(501, size))
	head, err := readExactly(c, 32<<10, 60*time.Second)
	if err != nil {
		hw.Skipped = "beginning of response 1: " + err.Error()
		return hw
	}
	hw.head = head
	return hw
}

// finish: after the hand-over was triggered - pipeline request 2, then drain the connection (throttled).
func (hw *halfWritten) finish() {
	if hw.Skipped != "" || hw.c == nil {
		return
	}
	defer hw.c.Close()
	time.Sleep(600 * time.Millisecond)
	hw.c.SetWriteDeadline(time.Now().Add(generous))
	hw.c.Write(boltRequest(502, fixedBody(0)))
	time.Sleep(300 * time.Millisecond) // whoever owns the read side answers request 2 now
	got := append([]byte{}, hw.head...)
	buf := make([]byte, 64<<10)
	want := len(hw.ref)
	deadline := time.Now().Add(60 * time.Second)
	for len(got) < want && time.Now().Before(deadline) {
		hw.c.SetReadDeadline(time.Now().Add(10 * time.Second))
		n, err := hw.c.Read(buf)
		got = append(got, buf[:n]...)
		if err != nil {
			hw.Err = err.Error()
			break
		}
		if len(got)%(1<<20) < len(buf) {
			time.Sleep(2 * time.Millisecond) // a slow reader
		}
	}
	// anything after the expected end?
	if len(got) >= want {
		hw.c.SetReadDeadline(time.Now().Add(500 * time.Millisecond))
		if n, _ := hw.c.Read(buf); n > 0 {
			got = append(got, buf[:n]...)
		}
	}
	hw.Got = len(got)
	hw.Intact = bytes.Equal(got, hw.ref)
	if !hw.Intact {
		for i := 0; i < len(got) && i < len(hw.ref); i++ {
			if got[i] != hw.ref[i] {
				hw.FirstBad = i
				break
			}
		}
		if hw.FirstBad < 0 {
			hw.FirstBad = min(len(got), len(hw.ref))
		}
	}
	hw.Resp2At = bytes.Index(got, hw.ref2)
}

func (hw *halfWritten) report(run *Run) {
	rep := map[string]interface{}{"part": "transfer", "kind": "half-written-response", "observation": hw}
	if hw.Skipped != "" {
		fmt.Fprintln(os.Stderr, "half-written-response case skipped:", hw.Skipped)
		run.Count("xfer|half-written|skipped", false, "upgrade-half-written-response-skipped")
		return
	}
	run.Count(fmt.Sprintf("xfer|half-written|%d", hw.Size), true, "upgrade-half-written-response")
	if !hw.Intact {
		what := fmt.Sprintf("a connection was handed over while a %d-byte response was half written to a slow reader; the client stream (%d bytes) differs from response 1 followed by response 2 (%d bytes) at offset %d; response 2 starts at offset %d of the client stream (response 1 is %d bytes long)", hw.Size, hw.Got, len(hw.ref), hw.FirstBad, hw.Resp2At, hw.RefLen1)
		run.Fail("transfer:handed-over-while-response-half-written:stream-corrupted", what, rep)
	}
	sh := run.NewShard(inlineGen(genTransferTokens)+"From Coq Require Import ZArith.\n"+c11Header, "hw_case", "hw_mismatches transfer_takes_write_lock_first")
	sh.Add(fmt.Sprintf("(%s, %s, %s, %s)", CoqN(uint64(hw.RefLen1)), CoqN(uint64(hw.RefLen2)), CoqBool(hw.Intact), CoqZ(int64(hw.Resp2At))), rep)
	sh.Close()
	run.Sample(rep)
}

// directHandOvers plays the new side of network.transferNewConn on the real listener callbacks: a TCP connection accepted
// by the harness is given to OnAccept with the accept channel and the transferred bytes (nil, empty or the first k bytes of
// the request), in a recovered goroutine; the client then sends the rest of its request and waits for the reply.
func directHandOvers(newH types.ConnectionHandler, bufs [][]byte, ks []int) []*xferConn {
	var out []*xferConn
	l := newH.FindListenerByName(xferListener)
	if l == nil {
		return nil
	}
	ln := listenLocal()
	defer ln.Close()
	for i, k := range ks {
		xc := &xferConn{Kind: "direct-prefix", Offset: k, id: uint32(xferIDBase() + 70000 + i)}
		out = append(out, xc)
		// a hand-over that is not served is played again (twice) on a fresh connection: a defect of the new side is
		// deterministic, a disturbance of the harness' own socket pair is not; the last attempt is the one reported
		for attempt := 0; attempt < 3; attempt++ {
			directHandOver(l, ln, xc, bufs[i], attempt)
			if xc.Replies > 0 || strings.HasPrefix(xc.Err, "set-up") {
				break
			}
		}
	}
	return out
}

func directHandOver(l types.Listener, ln net.Listener, xc *xferConn, buf []byte, attempt int) {
	k := xc.Offset
	xc.Err, xc.Replies = "", 0
	xc.id += uint32(1000 * attempt)
	for once := true; once; once = false {
		switch {
		case k == 0 && buf == nil:
			xc.Kind = "direct-idle-nil-buffer"
		case k == 0:
			xc.Kind = "direct-idle-empty-buffer"
		}
		xc.frame = boltRequest(xc.id, fixedBody(20))
		xc.Frame = len(xc.frame)
		c, err := dialLocal(ln.Addr().String(), 2*time.Second)
		if err != nil {
			xc.Err = "set-up: " + err.Error()
			continue
		}
		var rawc net.Conn
		for { // the accepted connection must be the one just dialled (a stray connect from elsewhere is dropped)
			if rawc, err = ln.Accept(); err != nil || rawc.RemoteAddr().String() == c.LocalAddr().String() {
				break
			}
			rawc.Close()
		}
		if err != nil {
			xc.Err = "set-up: " + err.Error()
			c.Close()
			continue
		}
		data := buf
		if k > 0 {
			data = append([]byte{}, xc.frame[:k]...)
		}
		ch := make(chan api.Connection, 1)
		panicked := make(chan string, 1)
		utils.GoWithRecover(func() {
			l.GetListenerCallbacks().OnAccept(rawc, l.IsOriginalDst(), nil, ch, data, nil)
		}, func(r interface{}) { panicked <- fmt.Sprint("panic on the new side: ", r) })
		select {
		case <-ch:
		case <-time.After(generous):
			xc.Err = "the new side did not pass the connection back"
		}
		c.SetWriteDeadline(time.Now().Add(2 * time.Second))
		c.Write(xc.frame[k:])
		n, e := readReplies(c, xc.id, 6*time.Second, 300*time.Millisecond) // three attempts: 18 s in all before "never served"
		xc.Replies = n
		if xc.Err == "" {
			xc.Err = e
		}
		select {
		case p := <-panicked:
			xc.Err = p
		default:
		}
		c.Close()
	}
}
