package main

// Timing robustness of the C11 harness.
//
// Wall-clock time enters C11 in two places: the listener histories (has the accept loop taken / not taken a connection
// "by now"?) and the drain sweep (when did Shutdown return relative to the observed request events?).  A check must never
// alarm on an unchanged tree because a machine is slow or loaded, so:
//   * every comparison is made on OBSERVED timestamps, with margins scaled by the scheduling jitter MEASURED while the
//     scenario ran (a monitor goroutine sleeps 2 ms at a time and records by how much each sleep overshoots);
//   * events closer together than the margin have unknown order: the scenario is not compared (counted in the distribution);
//   * a Go mirror of the (small) Coq model predicts the outcome; a scenario that disagrees - or yields an unlisted
//     timing-based finder verdict - is RE-RUN on a fresh listener, up to three times with growing waits, and only a scenario
//     that disagrees every time is handed to Coq / the finder.  The Coq shard stays the judge: the mirror only triggers
//     re-runs (a wrong mirror costs time or misses a re-run; it cannot hide a persistent disagreement);
//   * absolute deadlines are generous (15 s): slowness must not turn "reply arrived" into "no reply".

import (
	"sync"
	"time"
)

const generous = 15 * time.Second

// ---------------------------------------------------------------- jitter monitor
type jsample struct {
	at   time.Time
	over int // ms by which a 2 ms sleep overshot
}

type jitterMon struct {
	mu      sync.Mutex
	samples []jsample
	stop    chan struct{}
}

func startJitter() *jitterMon {
	j := &jitterMon{stop: make(chan struct{})}
	go func() {
		for {
			select {
			case <-j.stop:
				return
			default:
			}
			t0 := time.Now()
			time.Sleep(2 * time.Millisecond)
			over := int((time.Since(t0) - 2*time.Millisecond) / time.Millisecond)
			j.mu.Lock()
			j.samples = append(j.samples, jsample{t0, over})
			if len(j.samples) > 200000 {
				j.samples = j.samples[100000:]
			}
			j.mu.Unlock()
		}
	}()
	return j
}

// max returns the largest overshoot (ms) observed in [from, to]; a monitor that did not get to run at all in the interval
// reports the interval itself (it was starved the whole time).
func (j *jitterMon) max(from, to time.Time) int {
	j.mu.Lock()
	defer j.mu.Unlock()
	m, n := 0, 0
	for i := len(j.samples) - 1; i >= 0; i-- {
		s := j.samples[i]
		if s.at.Before(from.Add(-50 * time.Millisecond)) {
			break
		}
		if s.at.After(to) {
			continue
		}
		n++
		if s.over > m {
			m = s.over
		}
	}
	if n == 0 {
		return int(to.Sub(from)/time.Millisecond) + 1
	}
	return m
}

var jit *jitterMon

// ---------------------------------------------------------------- mirror of Model/Shutdown.v (listener)
type lisMirror struct {
	bind   bool
	st     int // 0 inited, 1 running, 2 stopped, 3 closed
	sock   int // 0 none, 1 open, 2 deadline, 3 closed
	loop   bool
	drains int
}

func (l *lisMirror) accepts() bool { return l.loop && l.sock == 1 }
func (l *lisMirror) connect() int {
	switch l.sock {
	case 1:
		if l.loop {
			return 2
		}
		return 1
	case 2:
		return 1
	}
	return 0
}
func (l *lisMirror) start(restart bool) {
	if !l.bind {
		return
	}
	switch l.st {
	case 1:
	case 2:
		if l.sock == 2 {
			l.sock = 1
		}
		l.st, l.loop = 1, true
	case 3:
		if restart {
			l.st, l.sock, l.loop = 1, 1, true
		}
	case 0:
		if l.sock == 0 {
			l.sock = 1
		}
		l.st, l.loop = 1, true
	}
}
func (l *lisMirror) stopAccept() bool {
	if l.st == 3 || l.st == 2 {
		return false
	}
	l.st = 2
	if l.bind {
		if l.sock == 1 {
			l.sock = 2
		}
		l.loop = false
	}
	return true
}
func (l *lisMirror) close() {
	if l.st == 3 {
		return
	}
	l.st = 3
	if l.bind {
		if l.sock != 0 {
			l.sock = 3
		}
		l.loop = false
	}
}

// step applies op (0 Start, 1 Start(restart), 2 Shutdown, 3 Shutdown while Upgrading, 4 Close) and returns the expected
// connect code at the moment OnShutdown runs (9: OnShutdown not called).
func (l *lisMirror) step(op int) int {
	probe := 9
	switch op {
	case 0:
		l.start(false)
	case 1:
		l.start(true)
	case 2:
		l.close()
		if l.bind {
			probe = l.connect()
			l.drains++
		}
	case 3:
		if l.stopAccept() {
			probe = l.connect()
			l.drains++
		}
	case 4:
		l.close()
	}
	return probe
}

type lisObs struct {
	acc   bool
	dr    int
	dcode int
}

// lisAgrees compares an observed trace with the mirror (same allowance as Model/Shutdown.v probe_agrees).
func lisAgrees(bind bool, ops []int, tr []lisObs) bool {
	m := &lisMirror{bind: bind}
	for i, o := range ops {
		want := m.step(o)
		got := tr[i]
		if m.accepts() != got.acc || m.drains != got.dr {
			return false
		}
		if want != got.dcode && !(o == 3 && want == 1 && got.dcode == 2) {
			return false
		}
	}
	return true
}

// ---------------------------------------------------------------- mirror of drain_exit
type mreq struct{ dec, done int }

func drainMirror(rs []mreq, sig, max, tick int) int {
	for k := 0; ; k++ {
		t := sig + k*tick
		g := 0
		for _, r := range rs {
			if r.dec <= t && t < r.done {
				g++
			}
		}
		if g == 0 || t-sig > max {
			return t
		}
	}
}
