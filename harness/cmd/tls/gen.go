package main

// Translators of the group `tls`.

import (
	"fmt"
	"go/ast"
	"go/token"
	"os"
	"sort"
	"strconv"
	"strings"

	. "vh/vhlib"
)

var gens = map[string]GenFn{"TLSTokens": genTLSTokens, "TransferTokens": genTransferTokens, "ListenerTokens": genListenerTokens, "StageTokens": genStageTokens}

// genTLSTokens reads
//
//	pkg/mtls/tls_context.go buildMatch: every `m[KEY] = struct{}{}` - which map, whether KEY is wrapped in
//	    strings.ToLower, whether the server-name entry is unconditional
//	pkg/mtls/types.go: the keys of the ALPN whitelist `alpn`
func genTLSTokens(repo string) (string, error) {
	var b strings.Builder
	b.WriteString("From Coq Require Import List String.\nImport ListNotations.\nOpen Scope string_scope.\n")
	_, f, err := ParseGoFile(repo, "pkg/mtls/tls_context.go")
	if err != nil {
		return "", err
	}
	fd := FindFunc(f, "tlsContext", "buildMatch")
	if fd == nil {
		return "", fmt.Errorf("buildMatch not found")
	}
	type site struct {
		mapName string
		lowered bool
		key     string
		depth   int
	}
	var sites []site
	var walk func(n ast.Node, depth int)
	walk = func(n ast.Node, depth int) {
		ast.Inspect(n, func(x ast.Node) bool {
			switch s := x.(type) {
			case *ast.IfStmt:
				if x != n {
					walk(s.Body, depth+1)
					if s.Else != nil {
						walk(s.Else, depth+1)
					}
					return false
				}
			case *ast.AssignStmt:
				if len(s.Lhs) != 1 {
					return true
				}
				ix, ok := s.Lhs[0].(*ast.IndexExpr)
				if !ok {
					return true
				}
				id, ok := ix.X.(*ast.Ident)
				if !ok {
					return true
				}
				st := site{mapName: id.Name, depth: depth}
				key := ix.Index
				if call, ok := key.(*ast.CallExpr); ok {
					if sel, ok := call.Fun.(*ast.SelectorExpr); ok && sel.Sel.Name == "ToLower" && len(call.Args) == 1 {
						st.lowered = true
						key = call.Args[0]
					}
				}
				switch k := key.(type) {
				case *ast.Ident:
					st.key = k.Name
				case *ast.SelectorExpr:
					st.key = exprString(k)
				default:
					st.key = "?"
				}
				sites = append(sites, st)
			}
			return true
		})
	}
	walk(fd.Body, 0)
	ok := len(sites) == 4
	oneSet, allLow, noneLow := true, true, true
	snameUncond := false
	var descr []string
	for _, s := range sites {
		descr = append(descr, fmt.Sprintf("%s[%s lowered=%v depth=%d]", s.mapName, s.key, s.lowered, s.depth))
		if s.mapName != sites[0].mapName {
			oneSet = false
		}
		if s.lowered {
			noneLow = false
		} else {
			allLow = false
		}
		if s.key == "ctx.serverName" && s.depth == 0 {
			snameUncond = true
		}
	}
	// the other recognised shape: the protocol entries go to a map of their own, the three name entries share one
	separate := false
	if ok && !oneSet {
		var nameMap, protoMap string
		separate = true
		for _, s := range sites {
			if s.key == "protocol" {
				protoMap = s.mapName
			} else if nameMap == "" {
				nameMap = s.mapName
			} else if nameMap != s.mapName {
				separate = false
			}
		}
		if protoMap == "" || protoMap == nameMap {
			separate = false
		}
	}
	if !(allLow || noneLow) || !(oneSet || separate) || !snameUncond {
		ok = false // a shape the model TLSSelect.v does not describe
	}
	fmt.Fprintf(&b, "(* buildMatch sites: %s *)\n", strings.Join(descr, " "))
	fmt.Fprintf(&b, "Definition tls_keys_lowered : bool := %v.\n", ok && allLow)
	fmt.Fprintf(&b, "Definition tls_one_mixed_set : bool := %v.\n", oneSet)
	fmt.Fprintf(&b, "Definition tls_sname_unconditional : bool := %v.\n", snameUncond)

	// ALPN whitelist
	_, tf, err := ParseGoFile(repo, "pkg/mtls/types.go")
	if err != nil {
		return "", err
	}
	var white []string
	found := false
	ast.Inspect(tf, func(n ast.Node) bool {
		vs, isv := n.(*ast.ValueSpec)
		if !isv || len(vs.Names) != 1 || vs.Names[0].Name != "alpn" || len(vs.Values) != 1 {
			return true
		}
		cl, isc := vs.Values[0].(*ast.CompositeLit)
		if !isc {
			return true
		}
		found = true
		for _, e := range cl.Elts {
			kv, iskv := e.(*ast.KeyValueExpr)
			if !iskv {
				found = false
				continue
			}
			lit, isl := kv.Key.(*ast.BasicLit)
			val, isid := kv.Value.(*ast.Ident)
			if !isl || lit.Kind != token.STRING || !isid || val.Name != "true" {
				found = false
				continue
			}
			s, _ := strconv.Unquote(lit.Value)
			white = append(white, s)
		}
		return true
	})
	if !found {
		ok = false
	}
	sort.Strings(white)
	var ws []string
	for _, w := range white {
		ws = append(ws, CoqString(w))
	}
	fmt.Fprintf(&b, "Definition tls_alpn_white : list string := %s.\n", CoqList(ws))

	// NewTLSServerContextManager: does each provider get a config of its own?  (defective shape: the address of
	// the range variable with pre-1.22 loop semantics, which every later iteration overwrites)
	private, perr := providerCfgPrivate(repo)
	if perr != nil {
		ok = false
		fmt.Fprintf(&b, "(* %s *)\n", strings.ReplaceAll(perr.Error(), "*)", "* )"))
	}
	fmt.Fprintf(&b, "Definition tls_provider_cfg_private : bool := %v.\n", private)
	// NewTLSServerContextManager builds a fresh manager on every call: its first statement creates the manager; an
	// earlier statement that can return (a cache lookup) makes the manager in force depend on earlier configurations
	cached := true
	if fd := FindFunc(func() *ast.File { _, f2, _ := ParseGoFile(repo, "pkg/mtls/tls_context_manager.go"); return f2 }(), "", "NewTLSServerContextManager"); fd != nil {
		cached = false
		for _, st := range fd.Body.List {
			if as, isa := st.(*ast.AssignStmt); isa && len(as.Rhs) == 1 {
				if u, isu := as.Rhs[0].(*ast.UnaryExpr); isu {
					if cl, isc := u.X.(*ast.CompositeLit); isc && exprString(cl.Type) == "serverContextManager" {
						// the manager takes its inspector flag from the configuration it is built for
						for _, e := range cl.Elts {
							if kv, iskv := e.(*ast.KeyValueExpr); iskv && exprString(kv.Key) == "inspector" && exprString(kv.Value) != "cfg.Inspector" {
								cached = true
							}
						}
						break
					}
				}
			}
			hasReturn := false
			ast.Inspect(st, func(n ast.Node) bool {
				if _, isr := n.(*ast.ReturnStmt); isr {
					hasReturn = true
				}
				return true
			})
			if hasReturn {
				cached = true // something can return before the manager is built
				break
			}
		}
	} else {
		ok = false
	}
	fmt.Fprintf(&b, "Definition tls_manager_cached : bool := %v.\n", cached)
	// secret_manager.go sdsProvider.update(): once newTLSContext has succeeded the fresh context is installed
	// (p.value.Store) - no statement in between can return and keep the old one
	always := false
	if _, sf, err := ParseGoFile(repo, "pkg/mtls/secret_manager.go"); err == nil {
		if fd := FindFunc(sf, "sdsProvider", "update"); fd != nil {
			built, stored, escaped := -1, -1, false
			for i, st := range fd.Body.List {
				if as, isa := st.(*ast.AssignStmt); isa && len(as.Rhs) == 1 {
					if c, isc := as.Rhs[0].(*ast.CallExpr); isc && exprString(c.Fun) == "newTLSContext" {
						built = i
					}
				}
				if es, ise := st.(*ast.ExprStmt); ise {
					if c, isc := es.X.(*ast.CallExpr); isc && exprString(c.Fun) == "p.value.Store" && built >= 0 && stored < 0 {
						stored = i
					}
				}
			}
			if built >= 0 && stored > built {
				for i := built + 1; i < stored; i++ {
					// the error check directly after the build may return; anything else that can return keeps the old context
					if is, isi := fd.Body.List[i].(*ast.IfStmt); isi && i == built+1 {
						if be, isb := is.Cond.(*ast.BinaryExpr); isb && exprString(be.X) == "err" {
							continue
						}
					}
					ast.Inspect(fd.Body.List[i], func(n ast.Node) bool {
						if _, isr := n.(*ast.ReturnStmt); isr {
							escaped = true
						}
						return true
					})
				}
				always = !escaped
			} else {
				ok = false
			}
		} else {
			ok = false
		}
	} else {
		ok = false
	}
	fmt.Fprintf(&b, "Definition sds_update_always_installs : bool := %v.\n", always)
	// confighook.go GetX509Pool reads the CA file on every call and keeps nothing: its body (and the helpers it calls in the
	// same file) reads the file and touches no package-level variable
	poolCached := true
	if _, cf, err := ParseGoFile(repo, "pkg/mtls/confighook.go"); err == nil {
		pkgVars := map[string]bool{}
		for _, d := range cf.Decls {
			if gd, isg := d.(*ast.GenDecl); isg && gd.Tok == token.VAR {
				for _, sp := range gd.Specs {
					if vs, isv := sp.(*ast.ValueSpec); isv {
						for _, n := range vs.Names {
							pkgVars[n.Name] = true
						}
					}
				}
			}
		}
		if fd := FindFunc(cf, "defaultConfigHooks", "GetX509Pool"); fd != nil {
			reads, touches := false, false
			ast.Inspect(fd.Body, func(n ast.Node) bool {
				switch x := n.(type) {
				case *ast.CallExpr:
					if f := exprString(x.Fun); f == "ioutil.ReadFile" || f == "os.ReadFile" {
						reads = true
					}
					if sel, iss := x.Fun.(*ast.SelectorExpr); iss {
						switch sel.Sel.Name {
						case "Load", "Store", "LoadOrStore", "LoadAndDelete":
							touches = true
						}
					}
				case *ast.Ident:
					if pkgVars[x.Name] && x.Obj != nil && x.Obj.Kind == ast.Var {
						if _, isDecl := x.Obj.Decl.(*ast.ValueSpec); isDecl {
							touches = true
						}
					}
				}
				return true
			})
			poolCached = !reads || touches
		} else {
			ok = false
		}
	} else {
		ok = false
	}
	fmt.Fprintf(&b, "Definition tls_ca_pool_cached : bool := %v.\n", poolCached)
	ctxsBefore, inspBefore, uok, unote := updateBeforeManagerSwitch(repo)
	if !uok {
		ok = false
	}
	fmt.Fprintf(&b, "(* %s *)\n", unote)
	fmt.Fprintf(&b, "Definition tls_update_ctxs_before_manager : bool := %v.\n", ctxsBefore)
	fmt.Fprintf(&b, "Definition tls_update_insp_before_manager : bool := %v.\n", inspBefore)
	resumeVerifies, rok, rnote := resumeVerifiesSwitch(repo)
	if !rok {
		ok = false
	}
	fmt.Fprintf(&b, "(* %s *)\n", rnote)
	fmt.Fprintf(&b, "Definition tls_resume_verifies : bool := %v.\n", resumeVerifies)
	fmt.Fprintf(&b, "Definition TLSTokens_translator_ok := %v.\n", ok)
	return b.String(), nil
}

func exprString(e ast.Expr) string {
	switch x := e.(type) {
	case *ast.Ident:
		return x.Name
	case *ast.SelectorExpr:
		return exprString(x.X) + "." + x.Sel.Name
	}
	return "?"
}

// updateBeforeManagerSwitch: statement ORDER in the update branch of connHandler.AddOrUpdateListener.  The listener fields
// NewTLSServerContextManager reads (cfg.<F> in its body: Inspector, FilterChains, Name) are collected from its source; in the
// update branch the assignments rawConfig.FilterChains[0].TLS* = ... and rawConfig.Inspector = ... must be statements of the
// SAME block as, and BEFORE, the statement that calls mtls.NewTLSServerContextManager(rawConfig).
func updateBeforeManagerSwitch(repo string) (ctxsBefore, inspBefore, ok bool, note string) {
	_, mf, err := ParseGoFile(repo, "pkg/mtls/tls_context_manager.go")
	if err != nil {
		return false, false, false, "tls_context_manager.go not parsed"
	}
	nd := FindFunc(mf, "", "NewTLSServerContextManager")
	if nd == nil || len(nd.Type.Params.List) != 1 || len(nd.Type.Params.List[0].Names) != 1 {
		return false, false, false, "NewTLSServerContextManager not found"
	}
	pn := nd.Type.Params.List[0].Names[0].Name
	reads := map[string]bool{}
	ast.Inspect(nd.Body, func(n ast.Node) bool {
		if sel, iss := n.(*ast.SelectorExpr); iss {
			if id, isi := sel.X.(*ast.Ident); isi && id.Name == pn {
				reads[sel.Sel.Name] = true
			}
		}
		return true
	})
	var rs []string
	ok = true
	for f := range reads {
		rs = append(rs, f)
		if f != "Inspector" && f != "FilterChains" && f != "Name" {
			ok = false // the manager reads a listener field the model does not know
		}
	}
	sort.Strings(rs)
	_, hf, err := ParseGoFile(repo, "pkg/server/handler.go")
	if err != nil {
		return false, false, false, "handler.go not parsed"
	}
	fd := FindFunc(hf, "connHandler", "AddOrUpdateListener")
	if fd == nil {
		return false, false, false, "AddOrUpdateListener not found"
	}
	isCall := func(st ast.Stmt) bool {
		found := false
		ast.Inspect(st, func(n ast.Node) bool {
			if c, isc := n.(*ast.CallExpr); isc && exprFull(c.Fun) == "mtls.NewTLSServerContextManager" && len(c.Args) == 1 && exprFull(c.Args[0]) == "rawConfig" {
				found = true
			}
			return true
		})
		return found
	}
	var block *ast.BlockStmt
	callIdx := -1
	ast.Inspect(fd.Body, func(n ast.Node) bool {
		bs, isb := n.(*ast.BlockStmt)
		if !isb {
			return true
		}
		for i, st := range bs.List {
			if _, isa := st.(*ast.AssignStmt); isa && isCall(st) {
				block, callIdx = bs, i
			}
		}
		return true
	})
	if block == nil {
		return false, false, false, "no statement `... := mtls.NewTLSServerContextManager(rawConfig)` in AddOrUpdateListener"
	}
	// every assignment to the fields anywhere in the function, and those that are statements of the block before the call
	total := map[string]int{}
	before := map[string]int{}
	classify := func(l string) string {
		switch {
		case l == "rawConfig.Inspector":
			return "insp"
		case strings.HasPrefix(l, "rawConfig.FilterChains[0].TLS"), l == "rawConfig.FilterChains", l == "rawConfig.FilterChains[0]":
			return "ctxs"
		case l == "rawConfig.Name":
			return "name"
		}
		return ""
	}
	ast.Inspect(fd.Body, func(n ast.Node) bool {
		if as, isa := n.(*ast.AssignStmt); isa {
			for _, l := range as.Lhs {
				if k := classify(exprFull(l)); k != "" {
					total[k]++
				}
			}
		}
		return true
	})
	for i, st := range block.List {
		if as, isa := st.(*ast.AssignStmt); isa && i < callIdx {
			for _, l := range as.Lhs {
				if k := classify(exprFull(l)); k != "" {
					before[k]++
				}
			}
		}
	}
	if total["name"] != 0 {
		ok = false
	}
	ctxsBefore = total["ctxs"] > 0 && before["ctxs"] == total["ctxs"]
	inspBefore = total["insp"] > 0 && before["insp"] == total["insp"]
	note = fmt.Sprintf("NewTLSServerContextManager reads cfg.{%s}; update branch: TLS context assignments %d (before the manager call, same block: %d), inspector assignments %d (before: %d)",
		strings.Join(rs, ","), total["ctxs"], before["ctxs"], total["insp"], before["insp"])
	return ctxsBefore, inspBefore, ok, note
}

// resumeVerifiesSwitch reads pkg/mtls/crypto/tls: processCertsFromClient verifies the chain it is given whatever its origin -
// it has the certificate as its ONLY parameter, the x509 verification (certs[0].Verify) is guarded by exactly
// `c.config.ClientAuth >= VerifyClientCertIfGiven && len(certs) > 0`, no return statement precedes that guard except inside
// the parse loop / the "didn't provide a certificate" check, and both resumption paths (doResumeHandshake, TLS 1.3
// checkForResumption) hand the chain of the ticket to it and return its error.
func resumeVerifiesSwitch(repo string) (verifies, ok bool, note string) {
	fset, f, err := ParseGoFile(repo, "pkg/mtls/crypto/tls/handshake_server.go")
	if err != nil {
		return false, false, "handshake_server.go not parsed"
	}
	_ = fset
	fd := FindFunc(f, "Conn", "processCertsFromClient")
	if fd == nil {
		return false, false, "processCertsFromClient not found"
	}
	nparams := 0
	for _, p := range fd.Type.Params.List {
		if len(p.Names) == 0 {
			nparams++
		}
		nparams += len(p.Names)
	}
	guard := ""
	guardTop := false
	for _, st := range fd.Body.List {
		is, isi := st.(*ast.IfStmt)
		if !isi {
			continue
		}
		has := false
		ast.Inspect(is.Body, func(n ast.Node) bool {
			if c, isc := n.(*ast.CallExpr); isc && exprFull(c.Fun) == "certs[0].Verify" {
				has = true
			}
			return true
		})
		if has {
			guard, guardTop = exprFull(is.Cond), true
		}
	}
	callsIn := func(file *ast.File, recv, fn string) (int, bool) {
		d := FindFunc(file, recv, fn)
		if d == nil {
			return 0, false
		}
		n, returned := 0, true
		ast.Inspect(d.Body, func(x ast.Node) bool {
			is, isi := x.(*ast.IfStmt)
			if !isi || is.Init == nil {
				return true
			}
			as, isa := is.Init.(*ast.AssignStmt)
			if !isa || len(as.Rhs) != 1 {
				return true
			}
			c, isc := as.Rhs[0].(*ast.CallExpr)
			if !isc || exprFull(c.Fun) != "c.processCertsFromClient" {
				return true
			}
			n++
			ret := false
			for _, b := range is.Body.List {
				if r, isr := b.(*ast.ReturnStmt); isr && len(r.Results) == 1 && exprFull(r.Results[0]) == "err" {
					ret = true
				}
			}
			if !ret {
				returned = false
			}
			return true
		})
		return n, returned
	}
	n12, r12 := callsIn(f, "serverHandshakeState", "doResumeHandshake")
	_, f13, err := ParseGoFile(repo, "pkg/mtls/crypto/tls/handshake_server_tls13.go")
	if err != nil {
		return false, false, "handshake_server_tls13.go not parsed"
	}
	n13, r13 := callsIn(f13, "serverHandshakeStateTLS13", "checkForResumption")
	note = fmt.Sprintf("processCertsFromClient: %d argument(s), verification guard `%s`; calls returning the error: doResumeHandshake %d/%v, TLS1.3 checkForResumption %d/%v", nparams, guard, n12, r12, n13, r13)
	if !guardTop {
		return false, false, note
	}
	verifies = nparams == 1 && guard == "c.config.ClientAuth >= VerifyClientCertIfGiven && len(certs) > 0" && n12 == 1 && r12 && n13 == 1 && r13
	return verifies, true, note
}

// exprFull is exprString plus dereference, calls and constant indexes.
func exprFull(e ast.Expr) string {
	switch x := e.(type) {
	case *ast.Ident:
		return x.Name
	case *ast.SelectorExpr:
		return exprFull(x.X) + "." + x.Sel.Name
	case *ast.StarExpr:
		return "*" + exprFull(x.X)
	case *ast.ParenExpr:
		return "(" + exprFull(x.X) + ")"
	case *ast.BinaryExpr:
		return exprFull(x.X) + " " + x.Op.String() + " " + exprFull(x.Y)
	case *ast.UnaryExpr:
		return x.Op.String() + exprFull(x.X)
	case *ast.BasicLit:
		return x.Value
	case *ast.IndexExpr:
		return exprFull(x.X) + "[" + exprFull(x.Index) + "]"
	case *ast.CallExpr:
		var as []string
		for _, a := range x.Args {
			as = append(as, exprFull(a))
		}
		return exprFull(x.Fun) + "(" + strings.Join(as, ", ") + ")"
	}
	return "?"
}

func providerCfgPrivate(repo string) (bool, error) {
	_, f, err := ParseGoFile(repo, "pkg/mtls/tls_context_manager.go")
	if err != nil {
		return false, err
	}
	fd := FindFunc(f, "", "NewTLSServerContextManager")
	if fd == nil {
		return false, fmt.Errorf("NewTLSServerContextManager not found")
	}
	perIteration := goVersionAtLeast122(repo)
	result, found := false, false
	ast.Inspect(fd.Body, func(n ast.Node) bool {
		rs, isr := n.(*ast.RangeStmt)
		if !isr {
			return true
		}
		sel, iss := rs.X.(*ast.SelectorExpr)
		if !iss || sel.Sel.Name != "TLSContexts" {
			return true
		}
		val, _ := rs.Value.(*ast.Ident)
		copied := false
		for _, st := range rs.Body.List {
			if as, isa := st.(*ast.AssignStmt); isa && as.Tok == token.DEFINE && len(as.Lhs) == 1 && len(as.Rhs) == 1 && val != nil {
				l, _ := as.Lhs[0].(*ast.Ident)
				r, _ := as.Rhs[0].(*ast.Ident)
				if l != nil && r != nil && l.Name == val.Name && r.Name == val.Name {
					copied = true
				}
			}
			ast.Inspect(st, func(m ast.Node) bool {
				call, isc := m.(*ast.CallExpr)
				if !isc {
					return true
				}
				id, isid := call.Fun.(*ast.Ident)
				if !isid || id.Name != "NewProvider" || len(call.Args) != 2 {
					return true
				}
				found = true
				u, isu := call.Args[1].(*ast.UnaryExpr)
				if !isu || u.Op != token.AND {
					result = true // not an address at all (e.g. already a pointer element)
					return true
				}
				if x, isx := u.X.(*ast.Ident); isx && val != nil && x.Name == val.Name {
					result = copied || perIteration
				} else {
					result = true // address of something else (e.g. &c.TLSContexts[i])
				}
				return true
			})
		}
		return true
	})
	if !found {
		return false, fmt.Errorf("NewProvider call inside the TLSContexts loop not recognised")
	}
	return result, nil
}

func goVersionAtLeast122(repo string) bool {
	b, err := os.ReadFile(repo + "/go.mod")
	if err != nil {
		return false
	}
	for _, line := range strings.Split(string(b), "\n") {
		f := strings.Fields(line)
		if len(f) == 2 && f[0] == "go" {
			p := strings.Split(f[1], ".")
			if len(p) >= 2 {
				maj, _ := strconv.Atoi(p[0])
				min, _ := strconv.Atoi(p[1])
				return maj > 1 || (maj == 1 && min >= 22)
			}
		}
	}
	return false
}

// genTransferTokens reads
//
//	pkg/network/transfer.go  transferBuildHead: make([]byte, N), the offsets of the two PutUint32 calls, the byte order;
//	                         transferRecvHead: the size asked from transferRecvMsg and the offsets of the two Uint32 calls
//	pkg/server/handler.go    waitConnectionsClose: the loop condition `remainStream > 0 && waited <= maxWaitTime`
//	pkg/network/listener.go  Shutdown: upgrade branch calls stopAccept, the other branch calls Close before OnShutdown
func genTransferTokens(repo string) (string, error) {
	var b strings.Builder
	b.WriteString("From Coq Require Import List NArith.\nImport ListNotations.\n")
	ok := true
	_, f, err := ParseGoFile(repo, "pkg/network/transfer.go")
	if err != nil {
		return "", err
	}
	headLen := int64(-1)
	var putOffs, getOffs []string
	order := ""
	if fd := FindFunc(f, "", "transferBuildHead"); fd != nil {
		ast.Inspect(fd.Body, func(n ast.Node) bool {
			call, isc := n.(*ast.CallExpr)
			if !isc {
				return true
			}
			if id, isid := call.Fun.(*ast.Ident); isid && id.Name == "make" && len(call.Args) >= 2 {
				if lit, isl := call.Args[1].(*ast.BasicLit); isl {
					headLen, _ = strconv.ParseInt(lit.Value, 10, 64)
				}
			}
			if sel, iss := call.Fun.(*ast.SelectorExpr); iss && sel.Sel.Name == "PutUint32" && len(call.Args) == 2 {
				order = exprString(sel.X)
				if sl, issl := call.Args[0].(*ast.SliceExpr); issl && sl.High == nil {
					if lit, isl := sl.Low.(*ast.BasicLit); isl {
						putOffs = append(putOffs, lit.Value)
					}
				}
			}
			return true
		})
	} else {
		ok = false
	}
	recvLen := int64(-1)
	if fd := FindFunc(f, "", "transferRecvHead"); fd != nil {
		ast.Inspect(fd.Body, func(n ast.Node) bool {
			call, isc := n.(*ast.CallExpr)
			if !isc {
				return true
			}
			if id, isid := call.Fun.(*ast.Ident); isid && id.Name == "transferRecvMsg" && len(call.Args) == 2 {
				if lit, isl := call.Args[1].(*ast.BasicLit); isl {
					recvLen, _ = strconv.ParseInt(lit.Value, 10, 64)
				}
			}
			if sel, iss := call.Fun.(*ast.SelectorExpr); iss && sel.Sel.Name == "Uint32" && len(call.Args) == 1 {
				if exprString(sel.X) != order {
					ok = false
				}
				if sl, issl := call.Args[0].(*ast.SliceExpr); issl && sl.High == nil {
					if lit, isl := sl.Low.(*ast.BasicLit); isl {
						getOffs = append(getOffs, lit.Value)
					}
				}
			}
			return true
		})
	} else {
		ok = false
	}
	if order != "binary.BigEndian" || len(putOffs) != 2 || len(getOffs) != 2 {
		ok = false
	}
	nlist := func(xs []string) string {
		var o []string
		for _, x := range xs {
			o = append(o, x+"%N")
		}
		return CoqList(o)
	}
	fmt.Fprintf(&b, "Definition transfer_head_len : N := %d%%N.\n", max64(headLen, 0))
	fmt.Fprintf(&b, "Definition transfer_recv_head_len : N := %d%%N.\n", max64(recvLen, 0))
	fmt.Fprintf(&b, "Definition transfer_put_offsets : list N := %s.\n", nlist(putOffs))
	fmt.Fprintf(&b, "Definition transfer_get_offsets : list N := %s.\n", nlist(getOffs))
	fmt.Fprintf(&b, "Definition transfer_big_endian : bool := %v.\n", order == "binary.BigEndian")

	// drain loop condition
	_, hf, err := ParseGoFile(repo, "pkg/server/handler.go")
	if err != nil {
		return "", err
	}
	gaugeGt0, waitedLe := false, false
	if fd := FindFunc(hf, "activeListener", "waitConnectionsClose"); fd != nil {
		ast.Inspect(fd.Body, func(n ast.Node) bool {
			fs, isf := n.(*ast.ForStmt)
			if !isf || fs.Cond == nil {
				return true
			}
			and, isb := fs.Cond.(*ast.BinaryExpr)
			if !isb || and.Op != token.LAND {
				return true
			}
			if l, isl := and.X.(*ast.BinaryExpr); isl && l.Op == token.GTR {
				if lit, isz := l.Y.(*ast.BasicLit); isz && lit.Value == "0" {
					gaugeGt0 = true
				}
			}
			if r, isr := and.Y.(*ast.BinaryExpr); isr && r.Op == token.LEQ {
				waitedLe = true
			}
			return true
		})
	}
	if !gaugeGt0 || !waitedLe {
		ok = false
	}
	fmt.Fprintf(&b, "Definition drain_cond_gauge_gt0 : bool := %v.\nDefinition drain_cond_waited_le_max : bool := %v.\n", gaugeGt0, waitedLe)

	// listener Shutdown shape
	_, lf, err := ParseGoFile(repo, "pkg/network/listener.go")
	if err != nil {
		return "", err
	}
	upgradeStops, otherCloses := false, false
	if fd := FindFunc(lf, "listener", "Shutdown"); fd != nil {
		ast.Inspect(fd.Body, func(n ast.Node) bool {
			is, isi := n.(*ast.IfStmt)
			if !isi {
				return true
			}
			cond, isb := is.Cond.(*ast.BinaryExpr)
			if !isb || cond.Op != token.EQL || !strings.HasSuffix(exprString(cond.Y), "Upgrading") {
				return true
			}
			calls := func(blk ast.Node, name string) bool {
				found := false
				ast.Inspect(blk, func(m ast.Node) bool {
					if c, isc := m.(*ast.CallExpr); isc {
						if sel, iss := c.Fun.(*ast.SelectorExpr); iss && sel.Sel.Name == name {
							found = true
						}
					}
					return true
				})
				return found
			}
			upgradeStops = calls(is.Body, "stopAccept") && !calls(is.Body, "Close")
			if is.Else != nil {
				otherCloses = calls(is.Else, "Close") && calls(is.Else, "OnShutdown")
			}
			return true
		})
	}
	if !upgradeStops || !otherCloses {
		ok = false
	}
	fmt.Fprintf(&b, "Definition shutdown_upgrade_only_stops_accept : bool := %v.\nDefinition shutdown_otherwise_closes_then_drains : bool := %v.\n", upgradeStops, otherCloses)
	// connection.go NewServerConnection: the read buffer of a connection rebuilt from a transfer must leave room for the
	// next read (defective shape: GetIoBuffer(len(buf)) - full when len(buf) is a pool size, see Model/Shutdown.v)
	_, cf, err := ParseGoFile(repo, "pkg/network/connection.go")
	if err != nil {
		return "", err
	}
	hasRoom, seen := false, false
	if fd := FindFunc(cf, "", "newServerConnection"); fd != nil {
		ast.Inspect(fd.Body, func(n ast.Node) bool {
			is, isi := n.(*ast.IfStmt)
			if !isi || is.Init == nil {
				return true
			}
			// if cval, err := variable.Get(ctx, types.VariableAcceptChan); ...
			as, isa := is.Init.(*ast.AssignStmt)
			if !isa || len(as.Rhs) != 1 {
				return true
			}
			call, isc := as.Rhs[0].(*ast.CallExpr)
			if !isc || len(call.Args) != 2 || !strings.HasSuffix(exprString(call.Args[1]), "VariableAcceptChan") {
				return true
			}
			ast.Inspect(is.Body, func(m ast.Node) bool {
				c, isc := m.(*ast.CallExpr)
				if !isc {
					return true
				}
				if sel, iss := c.Fun.(*ast.SelectorExpr); iss && sel.Sel.Name == "GetIoBuffer" && len(c.Args) == 1 {
					seen = true
					if be, isb := c.Args[0].(*ast.BinaryExpr); isb && be.Op == token.ADD {
						hasRoom = true
					}
				}
				return true
			})
			return true
		})
	}
	if !seen {
		ok = false
	}
	fmt.Fprintf(&b, "Definition transfer_buffer_has_room : bool := %v.\n", hasRoom)
	// handler.go activeListener.OnAccept: for a handed-over connection (ch != nil) the accept buffer is published
	// unconditionally - `variable.Set(ctx, types.VariableAcceptBuffer, buf)` is a statement of the `if ch != nil` block itself
	published, seenCh := false, false
	if _, hf, err := ParseGoFile(repo, "pkg/server/handler.go"); err == nil {
		if fd := FindFunc(hf, "activeListener", "OnAccept"); fd != nil {
			ast.Inspect(fd.Body, func(n ast.Node) bool {
				is, isi := n.(*ast.IfStmt)
				if !isi || exprFull(is.Cond) != "ch != nil" {
					return true
				}
				hasChan := false
				pub := false
				for _, st := range is.Body.List {
					var call *ast.CallExpr
					switch x := st.(type) {
					case *ast.AssignStmt:
						if len(x.Rhs) == 1 {
							call, _ = x.Rhs[0].(*ast.CallExpr)
						}
					case *ast.ExprStmt:
						call, _ = x.X.(*ast.CallExpr)
					}
					if call == nil || exprFull(call.Fun) != "variable.Set" || len(call.Args) != 3 {
						continue
					}
					switch exprFull(call.Args[1]) {
					case "types.VariableAcceptChan":
						hasChan = true
					case "types.VariableAcceptBuffer":
						pub = exprFull(call.Args[2]) == "buf"
					}
				}
				if hasChan {
					seenCh, published = true, pub
				}
				return true
			})
		}
	}
	if !seenCh {
		ok = false
	}
	fmt.Fprintf(&b, "Definition transfer_buffer_always_published : bool := %v.\n", published)
	// connection.transfer(): notifyTransfer() (takes the write lock, waits for a write in progress) must come before
	// transferRead() (sends the socket to the new process)
	lockFirst, seenBoth := false, false
	if fd := FindFunc(cf, "connection", "transfer"); fd != nil {
		np, rp := token.NoPos, token.NoPos
		ast.Inspect(fd.Body, func(n ast.Node) bool {
			if c, isc := n.(*ast.CallExpr); isc {
				switch exprString(c.Fun) {
				case "c.notifyTransfer":
					if np == token.NoPos {
						np = c.Pos()
					}
				case "transferRead":
					if rp == token.NoPos {
						rp = c.Pos()
					}
				}
			}
			return true
		})
		if np != token.NoPos && rp != token.NoPos {
			seenBoth = true
			lockFirst = np < rp
		}
	}
	if !seenBoth {
		ok = false
	}
	fmt.Fprintf(&b, "Definition transfer_takes_write_lock_first : bool := %v.\n", lockFirst)

	// handler.go GracefulStopListeners: the function literal started per listener must work on its OWN listener: a variable
	// defined inside the loop body (al := l) or a parameter - not the range variable itself under go < 1.22 semantics
	own, recognised := false, false
	if fd := FindFunc(hf, "connHandler", "GracefulStopListeners"); fd != nil {
		perIter := goVersionAtLeast122(repo)
		ast.Inspect(fd.Body, func(n ast.Node) bool {
			rs, isr := n.(*ast.RangeStmt)
			if !isr {
				return true
			}
			val, _ := rs.Value.(*ast.Ident)
			if val == nil {
				return true
			}
			ast.Inspect(rs.Body, func(m ast.Node) bool {
				fl, isf := m.(*ast.FuncLit)
				if !isf {
					return true
				}
				recognised = true
				usesRangeVar := false
				ast.Inspect(fl.Body, func(k ast.Node) bool {
					if id, isid := k.(*ast.Ident); isid && id.Name == val.Name && id.Obj == val.Obj {
						usesRangeVar = true
					}
					return true
				})
				own = !usesRangeVar || perIter
				return false
			})
			return false
		})
	}
	if !recognised {
		ok = false
	}
	fmt.Fprintf(&b, "Definition shutdown_goroutine_has_own_listener : bool := %v.\n", own)
	fmt.Fprintf(&b, "Definition TransferTokens_translator_ok := %v.\n", ok)
	return b.String(), nil
}

func max64(a, b int64) int64 {
	if a > b {
		return a
	}
	return b
}

// genListenerTokens reads, from pkg/server/handler.go AddOrUpdateListener (update branch) and adapter.go DeleteListener:
//
//	insp_first     `rawConfig.Inspector = lc.Inspector` comes before the call of mtls.NewTLSServerContextManager(rawConfig)
//	idle_stored    the update branch assigns rawConfig.ConnectionIdleTimeout
//	remove_clears  DeleteListener calls a configmanager function that removes the listener config
func genListenerTokens(repo string) (string, error) {
	var b strings.Builder
	b.WriteString("From MV Require Import Model.ListenerUpdate.\n")
	ok := true
	_, hf, err := ParseGoFile(repo, "pkg/server/handler.go")
	if err != nil {
		return "", err
	}
	inspFirst, idleStored, dumpIsLive := false, false, false
	// the fields of the running listener's config an in-place update assigns (rawConfig.<F> = lc.<F>); the model treats
	// BindToPort, Type, Network, ReusePort, AccessLogs, DefaultReadBufferSize as NOT applied (lc_static)
	var applied []string
	staticFields := map[string]bool{"BindToPort": true, "Type": true, "Network": true, "AddrConfig": true, "ReusePort": true, "AccessLogs": true, "DefaultReadBufferSize": true}
	if fd := FindFunc(hf, "connHandler", "AddOrUpdateListener"); fd != nil {
		inspPos, mgrPos := token.NoPos, token.NoPos
		setCalls := 0
		ast.Inspect(fd.Body, func(n ast.Node) bool {
			switch x := n.(type) {
			case *ast.AssignStmt:
				if len(x.Lhs) == 1 && len(x.Rhs) == 1 {
					l, r := exprString(x.Lhs[0]), exprString(x.Rhs[0])
					if lf, rf := exprFull(x.Lhs[0]), exprFull(x.Rhs[0]); strings.HasPrefix(lf, "rawConfig.") {
						f := strings.TrimPrefix(strings.TrimPrefix(lf, "rawConfig."), "FilterChains[0].")
						applied = append(applied, f)
						if staticFields[f] || !strings.HasPrefix(rf, "lc.") {
							ok = false // the update branch applies a field the model keeps static / from another source: the model must follow
						}
					}
					if l == "rawConfig.Inspector" && r == "lc.Inspector" {
						inspPos = x.Pos()
					}
					if l == "rawConfig.ConnectionIdleTimeout" && r == "lc.ConnectionIdleTimeout" {
						idleStored = true
					}
				}
			case *ast.CallExpr:
				if exprString(x.Fun) == "mtls.NewTLSServerContextManager" && len(x.Args) == 1 && exprString(x.Args[0]) == "rawConfig" {
					mgrPos = x.Pos()
				}
				// what is recorded for the dump: the running listener's own config
				if exprString(x.Fun) == "configmanager.SetListenerConfig" && len(x.Args) == 1 {
					setCalls++
					dumpIsLive = exprFull(x.Args[0]) == "*al.listener.Config()"
				}
			}
			return true
		})
		if setCalls != 1 {
			ok = false
		}
		if inspPos == token.NoPos || mgrPos == token.NoPos {
			ok = false
		} else {
			inspFirst = inspPos < mgrPos
		}
	} else {
		ok = false
	}
	_, af, err := ParseGoFile(repo, "pkg/server/adapter.go")
	if err != nil {
		return "", err
	}
	removeClears := false
	if fd := FindFunc(af, "ListenerAdapter", "DeleteListener"); fd != nil {
		ast.Inspect(fd.Body, func(n ast.Node) bool {
			if c, isc := n.(*ast.CallExpr); isc {
				f := exprString(c.Fun)
				if strings.HasPrefix(f, "configmanager.") && (strings.Contains(f, "Remove") || strings.Contains(f, "Delete")) {
					removeClears = true
				}
			}
			return true
		})
	} else {
		ok = false
	}
	fmt.Fprintf(&b, "(* fields of the running listener's config assigned by an in-place update: %s *)\n", strings.Join(applied, " "))
	fmt.Fprintf(&b, "Definition listener_flags : lflags := mkF %v %v %v %v.\n", inspFirst, idleStored, removeClears, dumpIsLive)
	fmt.Fprintf(&b, "Definition ListenerTokens_translator_ok := %v.\n", ok)
	return b.String(), nil
}

// genStageTokens reads, from pkg/stagemanager/stage_manager.go and pkg/server/reconfigure.go:
//
//	stop_always_drains                 runGracefulStopStage calls stm.app.Shutdown() at the top level of its body (no condition around it)
//	stop_graceful_stage_before_close   Stop() calls runGracefulStopStage before stm.app.Close
//	upgrade_handler_drains_before_done ReconfigureHandler calls shutdownServers() before its final `return nil`
func genStageTokens(repo string) (string, error) {
	var b strings.Builder
	ok := true
	_, sf, err := ParseGoFile(repo, "pkg/stagemanager/stage_manager.go")
	if err != nil {
		return "", err
	}
	always := false
	if fd := FindFunc(sf, "StageManager", "runGracefulStopStage"); fd != nil {
		for _, st := range fd.Body.List { // top level statements only
			if is, isi := st.(*ast.IfStmt); isi && is.Init != nil {
				if as, isa := is.Init.(*ast.AssignStmt); isa && len(as.Rhs) == 1 {
					if c, isc := as.Rhs[0].(*ast.CallExpr); isc && exprString(c.Fun) == "stm.app.Shutdown" {
						always = true
					}
				}
			}
			if es, ise := st.(*ast.ExprStmt); ise {
				if c, isc := es.X.(*ast.CallExpr); isc && exprString(c.Fun) == "stm.app.Shutdown" {
					always = true
				}
			}
		}
	} else {
		ok = false
	}
	before := false
	if fd := FindFunc(sf, "StageManager", "Stop"); fd != nil {
		gp, cp := token.NoPos, token.NoPos
		ast.Inspect(fd.Body, func(n ast.Node) bool {
			if c, isc := n.(*ast.CallExpr); isc {
				switch exprString(c.Fun) {
				case "stm.runGracefulStopStage":
					gp = c.Pos()
				case "stm.app.Close":
					cp = c.Pos()
				}
			}
			return true
		})
		if gp == token.NoPos || cp == token.NoPos {
			ok = false
		} else {
			before = gp < cp
		}
	} else {
		ok = false
	}
	handlerDrains := false
	if _, rf, err := ParseGoFile(repo, "pkg/server/reconfigure.go"); err == nil {
		if fd := FindFunc(rf, "", "ReconfigureHandler"); fd != nil {
			sp := token.NoPos
			var lastRet token.Pos
			ast.Inspect(fd.Body, func(n ast.Node) bool {
				switch x := n.(type) {
				case *ast.CallExpr:
					if exprString(x.Fun) == "shutdownServers" {
						sp = x.Pos()
					}
				case *ast.ReturnStmt:
					if len(x.Results) == 1 && exprString(x.Results[0]) == "nil" {
						lastRet = x.Pos()
					}
				}
				return true
			})
			handlerDrains = sp != token.NoPos && lastRet != token.NoPos && sp < lastRet
		} else {
			ok = false
		}
	} else {
		ok = false
	}
	// NoticeStop: before `stm.stopAction = action` an if statement mentioning Reload returns (a reload does not replace a noticed stop)
	hupSafe := false
	if fd := FindFunc(sf, "", "NoticeStop"); fd != nil {
		for _, st := range fd.Body.List {
			if as, isa := st.(*ast.AssignStmt); isa && len(as.Lhs) == 1 && exprString(as.Lhs[0]) == "stm.stopAction" {
				break
			}
			if is, isi := st.(*ast.IfStmt); isi {
				mentions, returns := false, false
				ast.Inspect(is.Cond, func(n ast.Node) bool {
					if id, isid := n.(*ast.Ident); isid && id.Name == "Reload" {
						mentions = true
					}
					return true
				})
				ast.Inspect(is.Body, func(n ast.Node) bool {
					if _, isr := n.(*ast.ReturnStmt); isr {
						returns = true
					}
					return true
				})
				if mentions && returns {
					hupSafe = true
				}
			}
		}
	} else {
		ok = false
	}
	b.WriteString("From MV Require Import Model.Stage.\n")
	fmt.Fprintf(&b, "Definition stage_flags : sflags := mkSF %v %v.\nDefinition stop_graceful_stage_before_close : bool := %v.\nDefinition upgrade_handler_drains_before_done : bool := %v.\n", always, hupSafe, before, handlerDrains)
	fmt.Fprintf(&b, "Definition StageTokens_translator_ok := %v.\n", ok)
	return b.String(), nil
}

// inlineGen returns the text a translator generates from the source tree under check RIGHT NOW, for inclusion in a case
// shard: a shard then does not depend on coq/Gen/*.vo, which another check running on another copy of the harness may
// regenerate between this run's `make` and its shards.
func inlineGen(fn GenFn) string {
	repo := os.Getenv("VERIF_REPO")
	if repo == "" {
		repo = "/repo"
	}
	c, err := fn(repo)
	if err != nil {
		return "(* translator failed: " + strings.ReplaceAll(err.Error(), "*)", "* )") + " *)\n"
	}
	return c
}
