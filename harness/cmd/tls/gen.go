package main

// Translators of the group `tls`.

import (
	"fmt"
	"go/ast"
	"go/token"
	"os"
	"sort"
	"strconv"
	"strings"

	. "vh/vhlib"
)

var gens = map[string]GenFn{"TLSTokens": genTLSTokens, "TransferTokens": genTransferTokens}

// genTLSTokens reads
//
//	pkg/mtls/tls_context.go buildMatch: every `m[KEY] = struct{}{}` - which map, whether KEY is wrapped in
//	    strings.ToLower, whether the server-name entry is unconditional
//	pkg/mtls/types.go: the keys of the ALPN whitelist `alpn`
func genTLSTokens(repo string) (string, error) {
	var b strings.Builder
	b.WriteString("From Coq Require Import List String.\nImport ListNotations.\nOpen Scope string_scope.\n")
	_, f, err := ParseGoFile(repo, "pkg/mtls/tls_context.go")
	if err != nil {
		return "", err
	}
	fd := FindFunc(f, "tlsContext", "buildMatch")
	if fd == nil {
		return "", fmt.Errorf("buildMatch not found")
	}
	type site struct {
		mapName string
		lowered bool
		key     string
		depth   int
	}
	var sites []site
	var walk func(n ast.Node, depth int)
	walk = func(n ast.Node, depth int) {
		ast.Inspect(n, func(x ast.Node) bool {
			switch s := x.(type) {
			case *ast.IfStmt:
				if x != n {
					walk(s.Body, depth+1)
					if s.Else != nil {
						walk(s.Else, depth+1)
					}
					return false
				}
			case *ast.AssignStmt:
				if len(s.Lhs) != 1 {
					return true
				}
				ix, ok := s.Lhs[0].(*ast.IndexExpr)
				if !ok {
					return true
				}
				id, ok := ix.X.(*ast.Ident)
				if !ok {
					return true
				}
				st := site{mapName: id.Name, depth: depth}
				key := ix.Index
				if call, ok := key.(*ast.CallExpr); ok {
					if sel, ok := call.Fun.(*ast.SelectorExpr); ok && sel.Sel.Name == "ToLower" && len(call.Args) == 1 {
						st.lowered = true
						key = call.Args[0]
					}
				}
				switch k := key.(type) {
				case *ast.Ident:
					st.key = k.Name
				case *ast.SelectorExpr:
					st.key = exprString(k)
				default:
					st.key = "?"
				}
				sites = append(sites, st)
			}
			return true
		})
	}
	walk(fd.Body, 0)
	ok := len(sites) == 4
	oneSet, allLow, noneLow := true, true, true
	snameUncond := false
	var descr []string
	for _, s := range sites {
		descr = append(descr, fmt.Sprintf("%s[%s lowered=%v depth=%d]", s.mapName, s.key, s.lowered, s.depth))
		if s.mapName != sites[0].mapName {
			oneSet = false
		}
		if s.lowered {
			noneLow = false
		} else {
			allLow = false
		}
		if s.key == "ctx.serverName" && s.depth == 0 {
			snameUncond = true
		}
	}
	if !(allLow || noneLow) || !oneSet || !snameUncond {
		ok = false // a shape the model TLSSelect.v does not describe
	}
	fmt.Fprintf(&b, "(* buildMatch sites: %s *)\n", strings.Join(descr, " "))
	fmt.Fprintf(&b, "Definition tls_keys_lowered : bool := %v.\n", ok && allLow)
	fmt.Fprintf(&b, "Definition tls_one_mixed_set : bool := %v.\n", oneSet)
	fmt.Fprintf(&b, "Definition tls_sname_unconditional : bool := %v.\n", snameUncond)

	// ALPN whitelist
	_, tf, err := ParseGoFile(repo, "pkg/mtls/types.go")
	if err != nil {
		return "", err
	}
	var white []string
	found := false
	ast.Inspect(tf, func(n ast.Node) bool {
		vs, isv := n.(*ast.ValueSpec)
		if !isv || len(vs.Names) != 1 || vs.Names[0].Name != "alpn" || len(vs.Values) != 1 {
			return true
		}
		cl, isc := vs.Values[0].(*ast.CompositeLit)
		if !isc {
			return true
		}
		found = true
		for _, e := range cl.Elts {
			kv, iskv := e.(*ast.KeyValueExpr)
			if !iskv {
				found = false
				continue
			}
			lit, isl := kv.Key.(*ast.BasicLit)
			val, isid := kv.Value.(*ast.Ident)
			if !isl || lit.Kind != token.STRING || !isid || val.Name != "true" {
				found = false
				continue
			}
			s, _ := strconv.Unquote(lit.Value)
			white = append(white, s)
		}
		return true
	})
	if !found {
		ok = false
	}
	sort.Strings(white)
	var ws []string
	for _, w := range white {
		ws = append(ws, CoqString(w))
	}
	fmt.Fprintf(&b, "Definition tls_alpn_white : list string := %s.\n", CoqList(ws))

	// NewTLSServerContextManager: does each provider get a config of its own?  (defective shape: the address of
	// the range variable with pre-1.22 loop semantics, which every later iteration overwrites)
	private, perr := providerCfgPrivate(repo)
	if perr != nil {
		ok = false
		fmt.Fprintf(&b, "(* %s *)\n", strings.ReplaceAll(perr.Error(), "*)", "* )"))
	}
	fmt.Fprintf(&b, "Definition tls_provider_cfg_private : bool := %v.\n", private)
	fmt.Fprintf(&b, "Definition TLSTokens_translator_ok := %v.\n", ok)
	return b.String(), nil
}

func exprString(e ast.Expr) string {
	switch x := e.(type) {
	case *ast.Ident:
		return x.Name
	case *ast.SelectorExpr:
		return exprString(x.X) + "." + x.Sel.Name
	}
	return "?"
}

func providerCfgPrivate(repo string) (bool, error) {
	_, f, err := ParseGoFile(repo, "pkg/mtls/tls_context_manager.go")
	if err != nil {
		return false, err
	}
	fd := FindFunc(f, "", "NewTLSServerContextManager")
	if fd == nil {
		return false, fmt.Errorf("NewTLSServerContextManager not found")
	}
	perIteration := goVersionAtLeast122(repo)
	result, found := false, false
	ast.Inspect(fd.Body, func(n ast.Node) bool {
		rs, isr := n.(*ast.RangeStmt)
		if !isr {
			return true
		}
		sel, iss := rs.X.(*ast.SelectorExpr)
		if !iss || sel.Sel.Name != "TLSContexts" {
			return true
		}
		val, _ := rs.Value.(*ast.Ident)
		copied := false
		for _, st := range rs.Body.List {
			if as, isa := st.(*ast.AssignStmt); isa && as.Tok == token.DEFINE && len(as.Lhs) == 1 && len(as.Rhs) == 1 && val != nil {
				l, _ := as.Lhs[0].(*ast.Ident)
				r, _ := as.Rhs[0].(*ast.Ident)
				if l != nil && r != nil && l.Name == val.Name && r.Name == val.Name {
					copied = true
				}
			}
			ast.Inspect(st, func(m ast.Node) bool {
				call, isc := m.(*ast.CallExpr)
				if !isc {
					return true
				}
				id, isid := call.Fun.(*ast.Ident)
				if !isid || id.Name != "NewProvider" || len(call.Args) != 2 {
					return true
				}
				found = true
				u, isu := call.Args[1].(*ast.UnaryExpr)
				if !isu || u.Op != token.AND {
					result = true // not an address at all (e.g. already a pointer element)
					return true
				}
				if x, isx := u.X.(*ast.Ident); isx && val != nil && x.Name == val.Name {
					result = copied || perIteration
				} else {
					result = true // address of something else (e.g. &c.TLSContexts[i])
				}
				return true
			})
		}
		return true
	})
	if !found {
		return false, fmt.Errorf("NewProvider call inside the TLSContexts loop not recognised")
	}
	return result, nil
}

func goVersionAtLeast122(repo string) bool {
	b, err := os.ReadFile(repo + "/go.mod")
	if err != nil {
		return false
	}
	for _, line := range strings.Split(string(b), "\n") {
		f := strings.Fields(line)
		if len(f) == 2 && f[0] == "go" {
			p := strings.Split(f[1], ".")
			if len(p) >= 2 {
				maj, _ := strconv.Atoi(p[0])
				min, _ := strconv.Atoi(p[1])
				return maj > 1 || (maj == 1 && min >= 22)
			}
		}
	}
	return false
}
