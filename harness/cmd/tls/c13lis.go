package main

// C13 part B9: a RUNNING TLS listener updated through the real connHandler.AddOrUpdateListener (the LDS path), probed by
// REAL plaintext and TLS connections after every update.  Plaintext must be served iff the listener's CURRENT config says
// inspector = true; a TLS client must get the certificate of the first context of the CURRENT config.
//
// A bare connection handler (server.NewHandler, no cluster manager needed) with one listener per history whose network
// filter answers "pong" to a 4-byte request - no routers, clusters or upstreams, nothing wall-clock based: a refused
// plaintext client is closed by the failing TLS handshake on the server side at once.

import (
	"context"
	gotls "crypto/tls"
	"fmt"
	"io"
	"strings"
	"time"

	"mosn.io/api"
	v2 "mosn.io/mosn/pkg/config/v2"
	"mosn.io/mosn/pkg/configmanager"
	"mosn.io/mosn/pkg/server"
	"mosn.io/pkg/buffer"

	. "vh/vhlib"
)

const pongFilter = "vh-c13-pong"
const pingPayload = "ping / plaintext request"

type pongFactory struct{}

func (pongFactory) CreateFilterChain(_ context.Context, cb api.NetWorkFilterChainFactoryCallbacks) {
	cb.AddReadFilter(&pongRead{})
}

type pongRead struct{ cb api.ReadFilterCallbacks }

func (p *pongRead) OnData(b api.IoBuffer) api.FilterStatus {
	if b.Len() >= 4 {
		ok := string(b.Bytes()[:4]) == "ping"
		b.Drain(b.Len())
		if ok {
			p.cb.Connection().Write(buffer.NewIoBufferString("pong"))
		}
	}
	return api.Stop
}
func (p *pongRead) OnNewConnection() api.FilterStatus                        { return api.Continue }
func (p *pongRead) InitializeReadFilterCallbacks(cb api.ReadFilterCallbacks) { p.cb = cb }

func init() {
	api.RegisterNetwork(pongFilter, func(map[string]interface{}) (api.NetworkFilterChainFactory, error) { return pongFactory{}, nil })
}

// probeListener: is a plaintext client served; which certificate does a TLS client get (0: no handshake / not served).
func probeListener(addr string, ders map[int][]byte, maxVer uint16) (bool, int) {
	plain := false
	if c, err := dialLocal(addr, hsTimeout); err == nil {
		c.SetDeadline(time.Now().Add(hsTimeout))
		c.Write([]byte(pingPayload)) // longer than a TLS record header: a server expecting TLS fails at once instead of waiting for more
		b := make([]byte, 4)
		if _, err := io.ReadFull(c, b); err == nil && string(b) == "pong" {
			plain = true
		}
		c.Close()
	}
	cert := 0
	if c, err := dialLocal(addr, hsTimeout); err == nil {
		c.SetDeadline(time.Now().Add(hsTimeout))
		tc := gotls.Client(c, &gotls.Config{InsecureSkipVerify: true, MaxVersion: maxVer})
		if tc.Handshake() == nil {
			tc.Write([]byte(pingPayload))
			b := make([]byte, 4)
			if _, err := io.ReadFull(tc, b); err == nil && string(b) == "pong" {
				if pcs := tc.ConnectionState().PeerCertificates; len(pcs) > 0 {
					for k, d := range ders {
						if string(d) == string(pcs[0].Raw) {
							cert = k
						}
					}
				}
			}
		}
		c.Close()
	}
	return plain, cert
}

func runListenerUpdateHistories(run *Run, right *authority, ver string, maxVer uint16) []hsResult {
	r := run.R
	var out []hsResult
	leafs := map[int]*leaf{}
	ders := map[int][]byte{}
	for k := 1; k <= 2; k++ {
		leafs[k], _ = right.issue(fmt.Sprintf("lis-%d.test", k), []string{fmt.Sprintf("lis-%d.test", k)}, leafOpt{})
		ders[k] = leafs[k].der
	}
	type step struct {
		Ctxs []int `json:"tls_contexts"`
		Insp bool  `json:"inspector"`
	}
	ctxSets := [][]int{{1}, {2}, {1, 2}, {2, 1}}
	scripted := [][]step{
		{{[]int{1}, true}, {[]int{1}, false}},                    // inspector on -> off: plaintext must stop being served
		{{[]int{1}, false}, {[]int{2}, true}},                    // off -> on with new contexts
		{{[]int{1}, true}, {[]int{1}, false}, {[]int{1}, false}}, // the same update twice
	}
	nHist := len(scripted) + run.N(5, 30)
	for hi := 0; hi < nHist; hi++ {
		var hist []step
		if hi < len(scripted) {
			hist = scripted[hi]
		} else {
			cur := step{ctxSets[r.Intn(len(ctxSets))], r.Bool()}
			hist = append(hist, cur)
			for n := 1 + r.Intn(4); n > 0; n-- {
				switch r.Intn(5) {
				case 0, 1, 2: // inspector flips, contexts unchanged
					cur = step{cur.Ctxs, !cur.Insp}
				case 3: // contexts change, inspector unchanged
					cur = step{ctxSets[r.Intn(len(ctxSets))], cur.Insp}
				default:
					cur = step{ctxSets[r.Intn(len(ctxSets))], r.Bool()}
				}
				hist = append(hist, cur)
			}
		}
		name := fmt.Sprintf("lis-%s-%d-%d", ver, run.Seed, hi)
		addr := fmt.Sprintf("127.0.0.1:%d", freePort())
		h := server.NewHandler(noopCMF{}, nil)
		var coqHist []string
		var descr []step
		setupFailed := false
		for si, st := range hist {
			var tcs []v2.TLSConfig
			var cs []string
			for _, t := range st.Ctxs {
				tcs = append(tcs, v2.TLSConfig{Status: true, CertChain: leafs[t].certPEM, PrivateKey: leafs[t].keyPEM})
				cs = append(cs, fmt.Sprintf("%d%%nat", t))
			}
			l := v2.Listener{ListenerConfig: v2.ListenerConfig{Name: name, AddrConfig: addr, BindToPort: true, Network: "tcp", Inspector: st.Insp,
				FilterChains: []v2.FilterChain{{TLSContexts: tcs, FilterChainConfig: v2.FilterChainConfig{Filters: []v2.Filter{{Type: pongFilter}}}}}}}
			if _, err := h.AddOrUpdateListener(configmanager.ParseListenerConfig(&l, nil, nil)); err != nil {
				setupFailed = true
				break
			}
			if si == 0 {
				h.StartListeners(nil)
				up := false
				for i := 0; i < 200 && !up; i++ { // wait for the accept loop (observed, not assumed)
					if c, err := dialLocal(addr, time.Second); err == nil {
						c.Close()
						up = true
					} else {
						time.Sleep(10 * time.Millisecond)
					}
				}
				if !up {
					setupFailed = true
					break
				}
			}
			coqHist = append(coqHist, fmt.Sprintf("(%s, %s)", CoqList(cs), CoqBool(st.Insp)))
			descr = append(descr, st)
			plain, cert := probeListener(addr, ders, maxVer)
			rp := map[string]interface{}{"part": "running-listener-updates", "ver": ver, "listener": name, "history": append([]step{}, descr...),
				"plaintext_served": plain, "certificate_seen_by_tls_client": cert}
			res := hsResult{Kind: "lis", Ver: ver, Key: fmt.Sprintf("lis|%s|%s", ver, strings.Join(coqHist, ";")), Kinds: []string{"listener-update-history-" + ver, fmt.Sprintf("listener-update-step=%d", si)}, Rep: rp,
				Coq: fmt.Sprintf("(%s, %s, %d%%nat)", CoqList(coqHist), CoqBool(plain), cert)}
			// finder: the property itself on the CURRENT config
			switch {
			case plain && !st.Insp:
				res.FailSig, res.FailWhat = "tls:plaintext-served-although-inspector-off:after-listener-update", fmt.Sprintf("listener %s: after the AddOrUpdateListener history %+v the current config has TLS contexts and inspector OFF, yet a plaintext client was served", name, descr)
			case !plain && st.Insp:
				res.FailSig, res.FailWhat = "tls:plaintext-refused-although-inspector-on:after-listener-update", fmt.Sprintf("listener %s: after the AddOrUpdateListener history %+v the current config has inspector ON, yet a plaintext client was not served", name, descr)
			case cert != st.Ctxs[0]:
				res.FailSig, res.FailWhat = "tls:certificate-not-of-current-contexts:after-listener-update", fmt.Sprintf("listener %s: after the AddOrUpdateListener history %+v a TLS client got certificate %d, the first context of the current config is %d", name, descr, cert, st.Ctxs[0])
			}
			out = append(out, res)
		}
		h.CloseListeners()
		h.StopConnection()
		if setupFailed {
			out = append(out, hsResult{Kind: "skip", Ver: ver, Key: "lis-setup|" + name, Kinds: []string{"listener-update-history-setup-failed"}})
		}
	}
	return out
}
