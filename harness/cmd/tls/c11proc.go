package main

// C11 thorough-tier EXPLORATION (recorded in the evidence, never deciding): the real cmd/mosn binary as a separate
// process, SIGTERM while a bolt request is (a) half sent, (b) waiting for the upstream.  It shows what "Shutdown
// returned" means for a real process: the process exits and the connection goes away.

import (
	"encoding/json"
	"fmt"
	"net"
	"os"
	"os/exec"
	"path/filepath"
	"strings"
	"sync"
	"syscall"
	"time"

	"mosn.io/api"
	v2 "mosn.io/mosn/pkg/config/v2"

	. "vh/vhlib"
)

type procResult struct {
	Case       string `json:"case"`
	SignalAtMs int    `json:"sigterm_at_ms"`
	SentAtMs   int    `json:"request_complete_at_ms"`
	UpMs       int    `json:"upstream_delay_ms"`
	Reply      bool   `json:"reply_received"`
	ReplyAtMs  int    `json:"reply_at_ms"`
	ExitAtMs   int    `json:"process_exit_at_ms"`
	ClientErr  string `json:"client_error,omitempty"`
	Note       string `json:"note,omitempty"`
}

func c11TwoProcess(run *Run, dir string) {
	bin := filepath.Join(dir, "mosn")
	build := exec.Command("go", "build", "-o", bin, "./cmd/mosn/main")
	build.Dir = "/repo"
	build.Env = append(os.Environ(), "GOFLAGS=-mod=mod", "GOPROXY=off", "GOSUMDB=off", "GOTOOLCHAIN=local")
	if out, err := build.CombinedOutput(); err != nil {
		run.Sum.Extra["two_process_sigterm"] = "cmd/mosn did not build: " + string(out[:min(len(out), 400)])
		run.Sum.Extra["two_process_sighup"] = "skipped: cmd/mosn did not build"
		return
	}
	defer os.Remove(bin)
	defer func() {
		if r := recover(); r != nil {
			run.Sum.Extra["two_process_error"] = fmt.Sprint(r)
		}
	}()
	c11TwoProcessUpgrade(run, dir, bin)
	var results []procResult
	for _, cs := range []struct {
		name            string
		recv, up, sigAt int
	}{{"request half sent when SIGTERM arrives", 400, 100, 150}, {"request waiting for the upstream when SIGTERM arrives", 0, 600, 150}} {
		res := procResult{Case: cs.name, UpMs: cs.up, ReplyAtMs: -1, ExitAtMs: -1}
		upAddr, closeUp := startUpstream()
		port := freePort()
		pdir := filepath.Join(dir, fmt.Sprintf("proc-%d", port))
		os.MkdirAll(pdir, 0o755)
		proxy := &v2.Proxy{DownstreamProtocol: "bolt", UpstreamProtocol: "bolt", RouterConfigName: "r"}
		cfg := &v2.MOSNConfig{
			Pid: filepath.Join(pdir, "mosn.pid"), UDSDir: pdir,
			Servers: []v2.ServerConfig{{DefaultLogPath: filepath.Join(pdir, "default.log"), DefaultLogLevel: "ERROR",
				Routers: []*v2.RouterConfiguration{{RouterConfigurationConfig: v2.RouterConfigurationConfig{RouterConfigName: "r"},
					VirtualHosts: []v2.VirtualHost{{Name: "vh", Domains: []string{"*"}, Routers: []v2.Router{{RouterConfig: v2.RouterConfig{
						Match: v2.RouterMatch{Headers: []v2.HeaderMatcher{{Name: "service", Value: ".*", Regex: true}}},
						Route: v2.RouteAction{RouterActionConfig: v2.RouterActionConfig{ClusterName: "up"}}}}}}}}},
				Listeners: []v2.Listener{{ListenerConfig: v2.ListenerConfig{Name: "l", AddrConfig: fmt.Sprintf("127.0.0.1:%d", port), BindToPort: true, Network: "tcp",
					FilterChains: []v2.FilterChain{{FilterChainConfig: v2.FilterChainConfig{Filters: []v2.Filter{{Type: "proxy", Config: toMap(proxy)}}}}}}}}}},
			ClusterManager: v2.ClusterManagerConfig{Clusters: []v2.Cluster{{Name: "up", ClusterType: v2.SIMPLE_CLUSTER, LbType: v2.LB_ROUNDROBIN,
				MaxRequestPerConn: 1024, ConnBufferLimitBytes: 16 * 1024, Hosts: []v2.Host{{HostConfig: v2.HostConfig{Address: upAddr}}}}}},
		}
		b, _ := json.MarshalIndent(cfg, "", " ")
		cpath := filepath.Join(pdir, "conf", "mosn.json")
		os.MkdirAll(filepath.Dir(cpath), 0o755)
		os.WriteFile(cpath, b, 0o644)
		cmd := exec.Command(bin, "start", "-c", cpath, "--drain-time-s", "3")
		cmd.Dir = pdir
		logf, _ := os.Create(filepath.Join(pdir, "stdout.log"))
		cmd.Stdout, cmd.Stderr = logf, logf
		if err := cmd.Start(); err != nil {
			res.Note = "start failed: " + err.Error()
			results = append(results, res)
			closeUp()
			continue
		}
		exited := make(chan struct{})
		var exitAt time.Time
		go func() { cmd.Wait(); exitAt = time.Now(); close(exited) }()
		addr := fmt.Sprintf("127.0.0.1:%d", port)
		var c net.Conn
		var err error
		for w := 0; w < 150; w++ {
			if c, err = dialLocal(addr, 100*time.Millisecond); err == nil {
				break
			}
			time.Sleep(40 * time.Millisecond)
		}
		if err != nil {
			res.Note = "the mosn process did not start listening"
			cmd.Process.Kill()
			<-exited
			results = append(results, res)
			closeUp()
			continue
		}
		// warm-up round trip
		c.SetDeadline(time.Now().Add(8 * time.Second))
		body, _ := json.Marshal(script{})
		c.Write(boltRequest(1000, body))
		for {
			typ, _, id, _, err := readBoltFrame(c)
			if err != nil {
				res.Note = "warm-up failed: " + err.Error()
				break
			}
			if typ == 0 && id == 1000 {
				break
			}
		}
		if res.Note == "" {
			origin := time.Now()
			ms := func(t time.Time) int { return int(t.Sub(origin) / time.Millisecond) }
			go func() {
				time.Sleep(time.Duration(cs.sigAt) * time.Millisecond)
				res.SignalAtMs = ms(time.Now())
				cmd.Process.Signal(syscall.SIGTERM)
			}()
			body, _ := json.Marshal(script{Up: cs.up})
			frame := boltRequest(7, body)
			if cs.recv > 0 {
				c.Write(frame[:30])
				time.Sleep(time.Duration(cs.recv) * time.Millisecond)
				_, err = c.Write(frame[30:])
			} else {
				_, err = c.Write(frame)
			}
			res.SentAtMs = ms(time.Now())
			if err != nil {
				res.ClientErr = "write: " + err.Error()
			}
			for err == nil {
				var typ byte
				var id uint32
				typ, _, id, _, err = readBoltFrame(c)
				if err != nil {
					res.ClientErr = "read: " + err.Error()
					break
				}
				if typ == 0 && id == 7 {
					res.Reply, res.ReplyAtMs = true, ms(time.Now())
					break
				}
			}
			select {
			case <-exited:
			case <-time.After(6 * time.Second):
				cmd.Process.Kill()
				<-exited
				res.Note = "process killed by the harness after 6 s"
			}
			res.ExitAtMs = ms(exitAt)
		} else {
			cmd.Process.Kill()
			<-exited
		}
		c.Close()
		closeUp()
		logf.Close()
		results = append(results, res)
	}
	run.Sum.Extra["two_process_sigterm"] = results
}

// ---------------------------------------------------------------------------------------------
// SIGHUP: the old process fork-execs a new one, passes the listening sockets, stops accepting, hands its xprotocol
// connections over and exits.  Closed-loop clients keep sending on existing and on new connections throughout; recorded:
// per client class how many requests succeeded / failed before and after the signal.  Exploration only.

type loopStats struct {
	Class        string `json:"client"`
	OKBefore     int    `json:"ok_before_sighup"`
	FailBefore   int    `json:"failed_before_sighup"`
	OKAfter      int    `json:"ok_after_sighup"`
	FailAfter    int    `json:"failed_after_sighup"`
	Reconnects   int    `json:"reconnects"`
	FirstFailMs  int    `json:"first_failure_ms_after_sighup,omitempty"`
	FirstFailErr string `json:"first_failure,omitempty"`
}

func c11TwoProcessUpgrade(run *Run, dir, bin string) {
	res := map[string]interface{}{}
	defer func() { run.Sum.Extra["two_process_sighup"] = res }()
	boltUp, closeB := startUpstream()
	defer closeB()
	httpUp, closeH := startHTTPUpstream()
	defer closeH()
	pdir := filepath.Join(dir, "hup")
	os.MkdirAll(filepath.Join(pdir, "conf"), 0o755)
	bl, brc, bcl := listenerFor("bolt-l", fmt.Sprintf("127.0.0.1:%d", freePort()), "bolt", "r-bolt", "up-bolt", boltUp)
	hl, hrc, hcl := listenerFor("http-l", fmt.Sprintf("127.0.0.1:%d", freePort()), "http1", "r-http", "up-http", httpUp)
	cfg := &v2.MOSNConfig{
		Pid: filepath.Join(pdir, "mosn.pid"), UDSDir: pdir,
		Servers: []v2.ServerConfig{{DefaultLogPath: filepath.Join(pdir, "default.log"), DefaultLogLevel: "INFO",
			GracefulTimeout: api.DurationConfig{Duration: time.Second},
			Routers:         []*v2.RouterConfiguration{brc, hrc}, Listeners: []v2.Listener{bl, hl}}},
		ClusterManager: v2.ClusterManagerConfig{Clusters: []v2.Cluster{bcl, hcl}},
	}
	b, _ := json.MarshalIndent(cfg, "", " ")
	cpath := filepath.Join(pdir, "conf", "mosn.json")
	os.WriteFile(cpath, b, 0o644)
	cmd := exec.Command(bin, "start", "-c", cpath, "--drain-time-s", "2")
	cmd.Dir = pdir
	logf, _ := os.Create(filepath.Join(pdir, "stdout.log"))
	defer logf.Close()
	cmd.Stdout, cmd.Stderr = logf, logf
	if err := cmd.Start(); err != nil {
		res["skipped"] = "start failed: " + err.Error()
		return
	}
	defer exec.Command("pkill", "-9", "-f", bin).Run() // the new process is not our child
	oldExited := make(chan struct{})
	var oldExitAt time.Time
	go func() { cmd.Wait(); oldExitAt = time.Now(); close(oldExited) }()
	for _, a := range []string{bl.AddrConfig, hl.AddrConfig} {
		up := false
		for w := 0; w < 200 && !up; w++ {
			if c, err := dialLocal(a, 100*time.Millisecond); err == nil {
				c.Close()
				up = true
			} else {
				time.Sleep(40 * time.Millisecond)
			}
		}
		if !up {
			res["skipped"] = "the mosn process did not start listening"
			cmd.Process.Kill()
			return
		}
	}
	time.Sleep(1500 * time.Millisecond) // the reconfigure listener of the old process starts one second after start

	var sighupAt time.Time
	var hupMu sync.Mutex
	after := func() (bool, int) {
		hupMu.Lock()
		defer hupMu.Unlock()
		if sighupAt.IsZero() {
			return false, 0
		}
		return true, int(time.Since(sighupAt) / time.Millisecond)
	}
	stop := make(chan struct{})
	var wg sync.WaitGroup
	var stats []*loopStats
	record := func(st *loopStats, ok bool, errText string) {
		aft, ms := after()
		switch {
		case ok && !aft:
			st.OKBefore++
		case ok:
			st.OKAfter++
		case !aft:
			st.FailBefore++
		default:
			st.FailAfter++
			if st.FirstFailErr == "" {
				st.FirstFailMs, st.FirstFailErr = ms, errText
			}
		}
	}
	loop := func(class, proto, addr string, persistent bool) {
		st := &loopStats{Class: class}
		stats = append(stats, st)
		wg.Add(1)
		go func() {
			defer wg.Done()
			var c client
			id := 10
			origin := time.Now()
			ms := func() int { return int(time.Since(origin) / time.Millisecond) }
			for {
				select {
				case <-stop:
					if c != nil {
						c.close()
					}
					return
				default:
				}
				if c == nil {
					nc, err := newClient(proto, addr, 500*time.Millisecond)
					if err != nil {
						record(st, false, "connect: "+err.Error())
						time.Sleep(100 * time.Millisecond)
						continue
					}
					c = nc
				}
				id++
				p := &reqPlan{Up: 20}
				c.do(id, p, ms)
				record(st, p.OK, "no reply on "+map[bool]string{true: "the existing", false: "a new"}[persistent]+" connection")
				// a well-behaved client leaves a connection the server has announced it will close (Connection: close / GOAWAY)
				if !p.OK || !persistent || c.goneAway() != "" {
					c.close()
					c = nil
					if persistent {
						st.Reconnects++
					}
				}
				time.Sleep(40 * time.Millisecond)
			}
		}()
	}
	loop("bolt, long-lived connection", "bolt", bl.AddrConfig, true)
	loop("bolt, long-lived connection (2)", "bolt", bl.AddrConfig, true)
	loop("http1, keep-alive connection", "http1", hl.AddrConfig, true)
	loop("bolt, new connection per request", "bolt", bl.AddrConfig, false)
	loop("http1, new connection per request", "http1", hl.AddrConfig, false)

	time.Sleep(1500 * time.Millisecond)
	hupMu.Lock()
	sighupAt = time.Now()
	hupMu.Unlock()
	cmd.Process.Signal(syscall.SIGHUP)
	exited := false
	select {
	case <-oldExited:
		exited = true
	case <-time.After(75 * time.Second):
	}
	if exited {
		time.Sleep(2 * time.Second) // keep the clients going against the new process
	}
	close(stop)
	wg.Wait()
	res["clients"] = stats
	res["old_process_exited"] = exited
	if exited {
		res["old_process_exit_ms_after_sighup"] = int(oldExitAt.Sub(sighupAt) / time.Millisecond)
	}
	if out, err := exec.Command("pgrep", "-f", bin).Output(); err == nil {
		res["processes_running_at_the_end"] = len(strings.Fields(string(out)))
	}
	if !exited {
		cmd.Process.Kill()
	}
}
