package main

// C11 thorough-tier EXPLORATION (recorded in the evidence, never deciding): the real cmd/mosn binary as a separate
// process, SIGTERM while a bolt request is (a) half sent, (b) waiting for the upstream.  It shows what "Shutdown
// returned" means for a real process: the process exits and the connection goes away.

import (
	"encoding/json"
	"fmt"
	"net"
	"os"
	"os/exec"
	"path/filepath"
	"syscall"
	"time"

	v2 "mosn.io/mosn/pkg/config/v2"

	. "vh/vhlib"
)

type procResult struct {
	Case       string `json:"case"`
	SignalAtMs int    `json:"sigterm_at_ms"`
	SentAtMs   int    `json:"request_complete_at_ms"`
	UpMs       int    `json:"upstream_delay_ms"`
	Reply      bool   `json:"reply_received"`
	ReplyAtMs  int    `json:"reply_at_ms"`
	ExitAtMs   int    `json:"process_exit_at_ms"`
	ClientErr  string `json:"client_error,omitempty"`
	Note       string `json:"note,omitempty"`
}

func c11TwoProcess(run *Run, dir string) {
	bin := filepath.Join(dir, "mosn")
	build := exec.Command("go", "build", "-o", bin, "./cmd/mosn/main")
	build.Dir = "/repo"
	build.Env = append(os.Environ(), "GOFLAGS=-mod=mod", "GOPROXY=off", "GOSUMDB=off", "GOTOOLCHAIN=local")
	if out, err := build.CombinedOutput(); err != nil {
		run.Sum.Extra["two_process_sigterm"] = "cmd/mosn did not build: " + string(out[:min(len(out), 400)])
		return
	}
	defer os.Remove(bin)
	var results []procResult
	for _, cs := range []struct {
		name            string
		recv, up, sigAt int
	}{{"request half sent when SIGTERM arrives", 400, 100, 150}, {"request waiting for the upstream when SIGTERM arrives", 0, 600, 150}} {
		res := procResult{Case: cs.name, UpMs: cs.up, ReplyAtMs: -1, ExitAtMs: -1}
		upAddr, closeUp := startUpstream()
		port := freePort()
		pdir := filepath.Join(dir, fmt.Sprintf("proc-%d", port))
		os.MkdirAll(pdir, 0o755)
		proxy := &v2.Proxy{DownstreamProtocol: "bolt", UpstreamProtocol: "bolt", RouterConfigName: "r"}
		cfg := &v2.MOSNConfig{
			Pid: filepath.Join(pdir, "mosn.pid"), UDSDir: pdir,
			Servers: []v2.ServerConfig{{DefaultLogPath: filepath.Join(pdir, "default.log"), DefaultLogLevel: "ERROR",
				Routers: []*v2.RouterConfiguration{{RouterConfigurationConfig: v2.RouterConfigurationConfig{RouterConfigName: "r"},
					VirtualHosts: []v2.VirtualHost{{Name: "vh", Domains: []string{"*"}, Routers: []v2.Router{{RouterConfig: v2.RouterConfig{
						Match: v2.RouterMatch{Headers: []v2.HeaderMatcher{{Name: "service", Value: ".*", Regex: true}}},
						Route: v2.RouteAction{RouterActionConfig: v2.RouterActionConfig{ClusterName: "up"}}}}}}}}},
				Listeners: []v2.Listener{{ListenerConfig: v2.ListenerConfig{Name: "l", AddrConfig: fmt.Sprintf("127.0.0.1:%d", port), BindToPort: true, Network: "tcp",
					FilterChains: []v2.FilterChain{{FilterChainConfig: v2.FilterChainConfig{Filters: []v2.Filter{{Type: "proxy", Config: toMap(proxy)}}}}}}}}}},
			ClusterManager: v2.ClusterManagerConfig{Clusters: []v2.Cluster{{Name: "up", ClusterType: v2.SIMPLE_CLUSTER, LbType: v2.LB_ROUNDROBIN,
				MaxRequestPerConn: 1024, ConnBufferLimitBytes: 16 * 1024, Hosts: []v2.Host{{HostConfig: v2.HostConfig{Address: upAddr}}}}}},
		}
		b, _ := json.MarshalIndent(cfg, "", " ")
		cpath := filepath.Join(pdir, "conf", "mosn.json")
		os.MkdirAll(filepath.Dir(cpath), 0o755)
		os.WriteFile(cpath, b, 0o644)
		cmd := exec.Command(bin, "start", "-c", cpath, "--drain-time-s", "3")
		cmd.Dir = pdir
		logf, _ := os.Create(filepath.Join(pdir, "stdout.log"))
		cmd.Stdout, cmd.Stderr = logf, logf
		if err := cmd.Start(); err != nil {
			res.Note = "start failed: " + err.Error()
			results = append(results, res)
			closeUp()
			continue
		}
		exited := make(chan struct{})
		var exitAt time.Time
		go func() { cmd.Wait(); exitAt = time.Now(); close(exited) }()
		addr := fmt.Sprintf("127.0.0.1:%d", port)
		var c net.Conn
		var err error
		for w := 0; w < 150; w++ {
			if c, err = dialLocal(addr, 100*time.Millisecond); err == nil {
				break
			}
			time.Sleep(40 * time.Millisecond)
		}
		if err != nil {
			res.Note = "the mosn process did not start listening"
			cmd.Process.Kill()
			<-exited
			results = append(results, res)
			closeUp()
			continue
		}
		// warm-up round trip
		c.SetDeadline(time.Now().Add(8 * time.Second))
		body, _ := json.Marshal(script{})
		c.Write(boltRequest(1000, body))
		for {
			typ, _, id, _, err := readBoltFrame(c)
			if err != nil {
				res.Note = "warm-up failed: " + err.Error()
				break
			}
			if typ == 0 && id == 1000 {
				break
			}
		}
		if res.Note == "" {
			origin := time.Now()
			ms := func(t time.Time) int { return int(t.Sub(origin) / time.Millisecond) }
			go func() {
				time.Sleep(time.Duration(cs.sigAt) * time.Millisecond)
				res.SignalAtMs = ms(time.Now())
				cmd.Process.Signal(syscall.SIGTERM)
			}()
			body, _ := json.Marshal(script{Up: cs.up})
			frame := boltRequest(7, body)
			if cs.recv > 0 {
				c.Write(frame[:30])
				time.Sleep(time.Duration(cs.recv) * time.Millisecond)
				_, err = c.Write(frame[30:])
			} else {
				_, err = c.Write(frame)
			}
			res.SentAtMs = ms(time.Now())
			if err != nil {
				res.ClientErr = "write: " + err.Error()
			}
			for err == nil {
				var typ byte
				var id uint32
				typ, _, id, _, err = readBoltFrame(c)
				if err != nil {
					res.ClientErr = "read: " + err.Error()
					break
				}
				if typ == 0 && id == 7 {
					res.Reply, res.ReplyAtMs = true, ms(time.Now())
					break
				}
			}
			select {
			case <-exited:
			case <-time.After(6 * time.Second):
				cmd.Process.Kill()
				<-exited
				res.Note = "process killed by the harness after 6 s"
			}
			res.ExitAtMs = ms(exitAt)
		} else {
			cmd.Process.Kill()
			<-exited
		}
		c.Close()
		closeUp()
		logf.Close()
		results = append(results, res)
	}
	run.Sum.Extra["two_process_sigterm"] = results
	run.Sum.Extra["two_process_sighup"] = "not run: the hot-upgrade hand-off (exec of the new binary, fd passing) is not explored by this harness"
}
