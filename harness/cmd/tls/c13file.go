package main

// C13 part B7: TLS material given as FILE PATHS over histories of configuration applications.  Temp files for ca_cert,
// cert_chain and private_key; between applications the file contents are rotated in place (CA1 -> CA2 -> CA1, certificate
// A -> B) and sometimes the config switches to another path; every application = NewTLSServerContextManager for the same
// listener name (verify_client + require_client_cert) and NewTLSClientContextManager for the same cluster name.  After
// every application real handshakes with peers of EACH CA on both sides tell which CA is trusted and which certificate is
// presented: the policy in force must be the one of the LAST configuration with the file contents at that application.

import (
	gotls "crypto/tls"
	"crypto/x509"
	"fmt"
	"io"
	"net"
	"os"
	"path/filepath"
	"strings"
	"time"

	v2 "mosn.io/mosn/pkg/config/v2"
	"mosn.io/mosn/pkg/mtls"
	"mosn.io/mosn/pkg/types"

	. "vh/vhlib"
)

func runFileHistories(run *Run, right, other *authority, ver string, maxVer uint16) []hsResult {
	r := run.R
	var out []hsResult
	dir, err := os.MkdirTemp("", "vh-c13-files-")
	if err != nil {
		panic(err)
	}
	defer os.RemoveAll(dir)
	cas := map[int]*authority{1: right, 2: other}
	// server certificates A (1) and B (2): issued by a third CA, so that the certificate says nothing about the trusted CA
	issuer := newAuthority("file-issuer")
	leafTok := map[int]*leaf{}
	for k := 1; k <= 2; k++ {
		leafTok[k], _ = issuer.issue(fmt.Sprintf("file-s%d.test", k), []string{"up.test"}, leafOpt{})
	}
	clientCert := map[int]*gotls.Certificate{}
	upstream := map[int]string{} // reference upstream servers whose certificate chains to CA k
	for k, a := range cas {
		lf, _ := a.issue("file-client", []string{"file-client.test"}, leafOpt{})
		kp, _ := gotls.X509KeyPair([]byte(lf.certPEM), []byte(lf.keyPEM))
		clientCert[k] = &kp
		ulf, _ := a.issue("up.test", []string{"up.test"}, leafOpt{})
		ukp, _ := gotls.X509KeyPair([]byte(ulf.certPEM), []byte(ulf.keyPEM))
		ln := listenLocal()
		defer ln.Close()
		upstream[k] = ln.Addr().String()
		go func(ln net.Listener, cert gotls.Certificate) {
			for {
				raw, err := ln.Accept()
				if err != nil {
					return
				}
				go func() {
					raw.SetDeadline(time.Now().Add(hsTimeout))
					ts := gotls.Server(raw, &gotls.Config{Certificates: []gotls.Certificate{cert}, MaxVersion: maxVer})
					if ts.Handshake() == nil {
						b := make([]byte, 4)
						if _, err := io.ReadFull(ts, b); err == nil {
							ts.Write([]byte("pong"))
						}
					}
					raw.Close()
				}()
			}
		}(ln, ukp)
	}
	nHist := run.N(6, 30)
	for hi := 0; hi < nHist; hi++ {
		hdir := filepath.Join(dir, fmt.Sprintf("%s-%d", ver, hi))
		os.MkdirAll(hdir, 0o755)
		caPath := map[int]string{1: filepath.Join(hdir, "ca.pem"), 2: filepath.Join(hdir, "ca-other-path.pem")}
		certPath := map[int]string{11: filepath.Join(hdir, "cert.pem"), 12: filepath.Join(hdir, "cert-other-path.pem")}
		keyPath := map[int]string{11: filepath.Join(hdir, "key.pem"), 12: filepath.Join(hdir, "key-other-path.pem")}
		content := map[int]int{1: 1 + r.Intn(2), 2: 1 + r.Intn(2), 11: 1 + r.Intn(2), 12: 1 + r.Intn(2)}
		writeFiles := func() {
			for p, path := range caPath {
				os.WriteFile(path, []byte(cas[content[p]].pem), 0o644)
			}
			for p, path := range certPath {
				os.WriteFile(path, []byte(leafTok[content[p]].certPEM), 0o644)
				os.WriteFile(keyPath[p], []byte(leafTok[content[p]].keyPEM), 0o600)
			}
		}
		name := fmt.Sprintf("file-%s-%d-%d", ver, run.Seed, hi)
		curCA, curCert := 1, 11
		var coqHist []string
		var descr []map[string]interface{}
		seenCA := map[int]bool{}
		for step, n := 0, 3+r.Intn(3); step < n; step++ {
			// between applications: rotate in place / switch paths
			if step > 0 {
				switch r.Intn(6) {
				case 0, 1, 2: // the CA file is rotated in place, the config is applied again unchanged
					content[curCA] = 3 - content[curCA]
				case 3: // the certificate + key files are rotated in place
					content[curCert] = 3 - content[curCert]
				case 4: // the config switches to the other CA path
					curCA = 3 - curCA
				default:
					curCert = 23 - curCert
				}
			}
			writeFiles()
			// ---- apply: server side and client side
			lc := &v2.Listener{}
			lc.Name = name
			lc.FilterChains = []v2.FilterChain{{TLSContexts: []v2.TLSConfig{{Status: true, CertChain: certPath[curCert], PrivateKey: keyPath[curCert],
				CACert: caPath[curCA], VerifyClient: true, RequireClientCert: true}}}}
			srv, err := mtls.NewTLSServerContextManager(lc)
			if err != nil {
				panic(err)
			}
			cli, err := mtls.NewTLSClientContextManager(name, &v2.TLSConfig{Status: true, ServerName: "up.test", CACert: caPath[curCA]})
			if err != nil {
				panic(err)
			}
			snap := fmt.Sprintf("[(1%%nat, %d%%nat); (2%%nat, %d%%nat); (11%%nat, %d%%nat); (12%%nat, %d%%nat)]", content[1], content[2], content[11], content[12])
			coqHist = append(coqHist, fmt.Sprintf("mkFA %d%%nat %d%%nat %s", curCA, curCert, snap))
			descr = append(descr, map[string]interface{}{"ca_path": filepath.Base(caPath[curCA]), "cert_path": filepath.Base(certPath[curCert]),
				"ca_file_holds": fmt.Sprintf("CA%d", content[curCA]), "cert_file_holds": fmt.Sprintf("certificate %d", content[curCert])})
			wantCA, wantCert := content[curCA], content[curCert]
			seenCA[wantCA] = true
			// ---- probe: server side
			sAcc := map[int]bool{}
			seenCert := 0
			for k := 1; k <= 2; k++ {
				acc, der := fileServerHandshake(srv, clientCert[k], maxVer)
				sAcc[k] = acc
				for t, lf := range leafTok {
					if string(lf.der) == string(der) {
						seenCert = t
					}
				}
			}
			// ---- probe: client side
			cAcc := map[int]bool{}
			for k := 1; k <= 2; k++ {
				cAcc[k] = fileClientHandshake(cli, upstream[k])
			}
			code := func(a map[int]bool) int {
				switch {
				case a[1] && a[2]:
					return 3
				case a[1]:
					return 1
				case a[2]:
					return 2
				}
				return 0
			}
			sCA, cCA := code(sAcc), code(cAcc)
			rp := map[string]interface{}{"part": "file-history", "ver": ver, "history": append([]map[string]interface{}{}, descr...),
				"server_accepts_clients_of": sAcc, "server_presents_certificate": seenCert, "client_accepts_upstreams_of": cAcc}
			h := hsResult{Kind: "file", Ver: ver, Key: fmt.Sprintf("file|%s|%s", ver, strings.Join(coqHist, ";")), Kinds: []string{"file-history-" + ver, fmt.Sprintf("file-history-step=%d", step)}, Rep: rp,
				Coq: fmt.Sprintf("(%s, (%d%%nat, %d%%nat, %d%%nat))", CoqList(coqHist), sCA, seenCert, cCA)}
			// ---- finder: the policy of the LAST application with the files as they are now
			type fv struct{ sig, what string }
			var vs []fv
			for _, side := range []struct {
				name string
				acc  map[int]bool
			}{{"server-side", sAcc}, {"client-side", cAcc}} {
				for k := 1; k <= 2; k++ {
					switch {
					case side.acc[k] && k != wantCA:
						sig := "tls:removed-ca-still-trusted:" + side.name
						if !seenCA[k] {
							sig = "tls:policy-depends-on-earlier-config:ca-file-rotated:" + side.name
						}
						vs = append(vs, fv{sig, fmt.Sprintf("%s: after the applications %v the configured CA file holds CA%d, yet a peer whose certificate chains only to CA%d completed the handshake", side.name, descr, wantCA, k)})
					case !side.acc[k] && k == wantCA:
						vs = append(vs, fv{"tls:configured-ca-rejected:" + side.name, fmt.Sprintf("%s: after the applications %v the configured CA file holds CA%d, yet a peer whose certificate chains to CA%d was rejected", side.name, descr, wantCA, k)})
					}
				}
			}
			if seenCert != wantCert {
				vs = append(vs, fv{"tls:policy-depends-on-earlier-config:cert-file-rotated", fmt.Sprintf("after the applications %v the certificate file holds certificate %d, the server presents %d", descr, wantCert, seenCert)})
			}
			for i, v := range vs {
				if i == 0 {
					h.FailSig, h.FailWhat = v.sig, v.what
				} else {
					out = append(out, hsResult{Kind: "skip", Ver: ver, Key: h.Key + "|" + v.sig, FailSig: v.sig, FailWhat: v.what, Rep: rp})
				}
			}
			out = append(out, h)
		}
	}
	return out
}

// fileServerHandshake: a reference client with the given certificate against the manager; accepted?, certificate presented.
func fileServerHandshake(mng types.TLSContextManager, cert *gotls.Certificate, maxVer uint16) (bool, []byte) {
	addr, results, closer := serveMOSN(mng, 4)
	defer closer()
	conn, err := dialLocal(addr, hsTimeout)
	if err != nil {
		panic(err)
	}
	defer conn.Close()
	conn.SetDeadline(time.Now().Add(hsTimeout))
	var der []byte
	tc := gotls.Client(conn, &gotls.Config{InsecureSkipVerify: true, MaxVersion: maxVer,
		GetClientCertificate: func(*gotls.CertificateRequestInfo) (*gotls.Certificate, error) { return cert, nil },
		VerifyPeerCertificate: func(raw [][]byte, _ [][]*x509.Certificate) error {
			if len(raw) > 0 {
				der = raw[0]
			}
			return nil
		}})
	if tc.Handshake() == nil {
		tc.Write([]byte("ping"))
		io.ReadFull(tc, make([]byte, 4))
	}
	so := <-results
	return so.mode == 1 && so.hsErr == nil && string(so.got) == "ping", der
}

// fileClientHandshake: MOSN as TLS client against a reference upstream; accepted?
func fileClientHandshake(cli types.TLSClientContextManager, addr string) bool {
	raw, err := dialLocal(addr, hsTimeout)
	if err != nil {
		panic(err)
	}
	raw.SetDeadline(time.Now().Add(hsTimeout))
	c, cerr := cli.Conn(raw)
	if cerr != nil {
		raw.Close()
		return false
	}
	defer c.Close()
	c.SetDeadline(time.Now().Add(hsTimeout))
	c.Write([]byte("ping"))
	b := make([]byte, 4)
	_, err = io.ReadFull(c, b)
	return err == nil && string(b) == "pong"
}
