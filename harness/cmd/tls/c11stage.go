package main

// C11 part 5: the REAL stage manager under interleaved signals.  Every scenario runs in a process of its own (the stage
// manager is one global object, Stop() ends in os.Exit): `vh-tls c11stage --script D,S,T,M`.  The Application is a
// recorder (Shutdown / Close call order), the upgrade handler a stub with the phases of server.ReconfigureHandler (send the
// fds, wait for the ack, sleep, shutdownServers, WaitConnectionsDone) that advances only when told to.
//   T  SIGTERM            NoticeStop(GracefulStop)
//   D  the new server dialled reconfigure.sock: NoticeStop(Upgrade) (runs the upgrade handler)
//   S  the upgrade handler gets one phase further (the third S is shutdownServers, the fourth returns nil)
//   F  the upgrade handler fails (resume)
//   H  SIGHUP             NoticeStop(Reload) - only sent while the state is not Running (from Running it fork-execs)
//   M  the main goroutine (WaitFinish(); Stop()) has run Stop(): wait for Application.Close
// No wall-clock judgement: every step is acknowledged over a channel (15 s deadlines).

import (
	"encoding/json"
	"errors"
	"flag"
	"fmt"
	"os"
	"os/exec"
	"runtime"
	"strings"
	"sync"
	"time"

	v2 "mosn.io/mosn/pkg/config/v2"
	"mosn.io/mosn/pkg/configmanager"
	"mosn.io/mosn/pkg/log"
	"mosn.io/mosn/pkg/server/pid"
	"mosn.io/mosn/pkg/stagemanager"

	. "vh/vhlib"
)

type recApp struct {
	mu     sync.Mutex
	trace  []string
	closed chan struct{}
}

func (a *recApp) add(s string) {
	a.mu.Lock()
	a.trace = append(a.trace, s)
	a.mu.Unlock()
}
func (a *recApp) Init(*v2.MOSNConfig) error { return nil }
func (a *recApp) Start()                    {}
func (a *recApp) InheritConnections() error { return nil }
func (a *recApp) IsFromUpgrade() bool       { return false }
func (a *recApp) Shutdown() error           { a.add("CDrainByStop"); return nil }
func (a *recApp) Close(isUpgrade bool) {
	a.add("CClose")
	close(a.closed)
	runtime.Goexit() // Stop() would go on to os.Exit; nothing relevant happens after Close
}

type stageResult struct {
	Script string   `json:"script"`
	Trace  []string `json:"trace"`
	Err    string   `json:"error,omitempty"`
}

func c11stageChild(args []string) int {
	fs := flag.NewFlagSet("c11stage", flag.ExitOnError)
	script := fs.String("script", "", "comma separated events")
	dir := fs.String("dir", os.TempDir(), "scratch dir")
	fs.Parse(args)
	log.DefaultLogger.SetLogLevel(log.FATAL)
	log.StartLogger.SetLogLevel(log.FATAL)
	res := stageResult{Script: *script}
	finish := func() int {
		b, _ := json.Marshal(res)
		fmt.Println("RESULT " + string(b))
		os.Stdout.Sync()
		os.Exit(0)
		return 0
	}
	app := &recApp{closed: make(chan struct{})}
	configmanager.RegisterConfigLoadFunc(func(string) *v2.MOSNConfig { return &v2.MOSNConfig{} })
	pid.SetPid(*dir + "/stage.pid")
	stm := stagemanager.InitStageManager(nil, "", app)
	stepCh := make(chan string)
	ackCh := make(chan struct{})
	started := make(chan struct{}, 1)
	stagemanager.RegisterUpgradeHandler(func() error {
		started <- struct{}{}
		for phase := 1; phase <= 4; phase++ {
			if cmd := <-stepCh; cmd == "fail" {
				return errors.New("upgrade failed")
			}
			if phase == 3 {
				app.add("CDrainByHandler") // shutdownServers(): stop accepting + drain
			}
			if phase < 4 {
				ackCh <- struct{}{}
			}
		}
		return nil
	})
	// SIGHUP from state Running fork-execs os.Args: make that a harmless program, never this harness again
	os.Args = []string{"/bin/true"}
	stm.Run()
	// the main goroutine of cmd/mosn: WaitFinish(); Stop().  The gate stands for a pre-emption of that goroutine between
	// the two calls (event M opens it), so that signals arriving in that window can be placed there.
	gate := make(chan struct{})
	go func() {
		stm.WaitFinish()
		<-gate
		stm.Stop()
	}()
	wait := func(ch <-chan struct{}, what string) bool {
		select {
		case <-ch:
			return true
		case <-time.After(generous):
			res.Err = "timeout waiting for " + what
			return false
		}
	}
	noticeDone := make(chan struct{}, 4)
	steps := 0
	for _, ev := range strings.Split(*script, ",") {
		switch ev {
		case "T":
			stagemanager.NoticeStop(stagemanager.GracefulStop)
		case "D":
			go func() { stagemanager.NoticeStop(stagemanager.Upgrade); noticeDone <- struct{}{} }()
			if !wait(started, "the upgrade handler to start") {
				return finish()
			}
		case "S":
			steps++
			stepCh <- "step"
			if steps < 4 {
				if !wait(ackCh, "the upgrade handler's phase") {
					return finish()
				}
			} else if !wait(noticeDone, "NoticeStop(Upgrade) to return") {
				return finish()
			}
		case "F":
			stepCh <- "fail"
			if !wait(noticeDone, "NoticeStop(Upgrade) to return after the failure") {
				return finish()
			}
			steps = 0
		case "H":
			// from Running runReload fork-execs (/bin/true here) and waits up to 5 s for the new server: do not wait for it
			hupDone := make(chan struct{})
			go func() { stagemanager.NoticeStop(stagemanager.Reload); close(hupDone) }()
			select {
			case <-hupDone:
			case <-time.After(300 * time.Millisecond):
			}
		case "M":
			close(gate)
			if !wait(app.closed, "Application.Close") {
				return finish()
			}
		}
	}
	app.mu.Lock()
	res.Trace = append([]string{}, app.trace...)
	app.mu.Unlock()
	return finish()
}

var stageEv = map[string]string{"T": "EvTerm", "D": "EvNewDial", "S": "EvHandlerStep", "F": "EvHandlerFail", "H": "EvHup", "M": "EvMainStop"}

func c11Stage(run *Run, dir string) int {
	scripts := []string{"T,M", "D,T,M", "D,S,T,M", "D,S,S,T,M", "D,S,S,S,T,M", "D,S,S,S,S,M", "D,F,T,M", "D,S,F,T,M", "D,S,S,F,T,M",
		"D,F,D,T,M", "D,F,D,S,S,S,S,M", "D,H,S,S,S,S,M", "D,S,H,T,M", "D,H,T,M", "D,S,S,H,F,T,M",
		// a SIGHUP in the window between SIGTERM and the main goroutine's Stop() (the gate of the child process)
		"T,H,M", "D,T,H,M", "D,S,S,T,H,M", "D,F,T,H,M"}
	sh := run.NewShard(inlineGen(genStageTokens)+"From MV Require Import Model.Stage.\nFrom Coq Require Import List.\nImport ListNotations.\n", "stage_case", "stage_mismatches stage_flags")
	for _, sc := range scripts {
		var res stageResult
		var lastErr string
		for attempt := 0; attempt < 3; attempt++ { // a child that could not finish (overloaded machine) is run again
			cmd := exec.Command(os.Args[0], "c11stage", "--script", sc, "--dir", dir)
			out, err := cmd.CombinedOutput()
			res = stageResult{}
			for _, line := range strings.Split(string(out), "\n") {
				if strings.HasPrefix(line, "RESULT ") {
					json.Unmarshal([]byte(line[7:]), &res)
				}
			}
			if res.Script != "" && res.Err == "" {
				lastErr = ""
				break
			}
			lastErr = fmt.Sprintf("%v %s %s", err, res.Err, string(out[:min(len(out), 300)]))
		}
		if lastErr != "" {
			fmt.Fprintln(os.Stderr, "stage scenario could not run:", sc, lastErr)
			run.Count("stage|not-run|"+sc, false, "stage-scenario-could-not-run")
			continue
		}
		var evs []string
		for _, e := range strings.Split(sc, ",") {
			evs = append(evs, stageEv[e])
		}
		rep := map[string]interface{}{"part": "stage-manager", "script": sc, "events": evs, "calls_on_the_application": res.Trace}
		run.Count("stage|"+sc, strings.Contains(sc, "D"), "stage-interleaving")
		// finder: no Close before a drain by someone
		seen := false
		for _, c := range res.Trace {
			if c == "CClose" && !seen {
				sig := "stage:close-before-drain:" + sc
				if strings.Contains(sc, "D") && strings.Contains(sc, "T") && !strings.Contains(sc, "F") && !strings.Contains(sc, "H") {
					sig = "stage:close-before-drain:sigterm-while-upgrading"
				}
				if strings.Contains(sc, "T,H") {
					sig = "stage:close-before-drain:sighup-after-sigterm"
				}
				run.Fail(sig, fmt.Sprintf("interleaving %v: Application.Close was called before any drain (calls: %v)", evs, res.Trace), rep)
				break
			}
			if c != "CClose" {
				seen = true
			}
		}
		sh.Add(fmt.Sprintf("(%s, %s)", CoqList(evs), CoqList(res.Trace)), rep)
	}
	sh.Close()
	return 0
}
