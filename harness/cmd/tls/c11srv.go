package main

// C11 part 3: an in-process MOSN (real connHandler, listeners, proxy, bolt codec, cluster manager) in front of a scripted
// bolt upstream.  One listener per scenario; the client sends a bolt request (optionally in two halves), the upstream
// answers after a scripted delay (optionally in two halves); GracefulStopListener - the per-listener form of what SIGTERM
// triggers - is invoked at an offset that sweeps the request's lifetime.  Observed: when Shutdown returned ("exit": the
// stage manager closes the application right after), when the reply reached the client.

import (
	"encoding/binary"
	"encoding/json"
	"fmt"
	"io"
	"net"
	"os"
	"sync"
	"time"

	"mosn.io/api"
	v2 "mosn.io/mosn/pkg/config/v2"
	_ "mosn.io/mosn/pkg/filter/network/proxy"
	"mosn.io/mosn/pkg/mosn"
	"mosn.io/mosn/pkg/protocol/xprotocol"
	"mosn.io/mosn/pkg/protocol/xprotocol/bolt"
	"mosn.io/mosn/pkg/server"
	xstream "mosn.io/mosn/pkg/stream/xprotocol"
	"mosn.io/mosn/pkg/types"
	_ "mosn.io/mosn/pkg/upstream/cluster"

	. "vh/vhlib"
)

// ---- raw bolt v1 frames ----
func boltRequest(id uint32, content []byte) []byte {
	hdr := kv("service", "vh")
	b := make([]byte, 22, 22+len(hdr)+len(content))
	b[0], b[1] = 1, 1 // protocol code, request
	binary.BigEndian.PutUint16(b[2:], 1)
	b[4] = 1
	binary.BigEndian.PutUint32(b[5:], id)
	b[9] = 1
	binary.BigEndian.PutUint32(b[10:], 10000) // timeout ms
	binary.BigEndian.PutUint16(b[14:], 0)
	binary.BigEndian.PutUint16(b[16:], uint16(len(hdr)))
	binary.BigEndian.PutUint32(b[18:], uint32(len(content)))
	b = append(b, hdr...)
	return append(b, content...)
}

func boltResponse(id uint32, content []byte) []byte {
	b := make([]byte, 20, 20+len(content))
	b[0], b[1] = 1, 0
	binary.BigEndian.PutUint16(b[2:], 2)
	b[4] = 1
	binary.BigEndian.PutUint32(b[5:], id)
	b[9] = 1
	binary.BigEndian.PutUint16(b[10:], 0) // status success
	binary.BigEndian.PutUint16(b[12:], 0)
	binary.BigEndian.PutUint16(b[14:], 0)
	binary.BigEndian.PutUint32(b[16:], uint32(len(content)))
	return append(b, content...)
}

func kv(k, v string) []byte {
	b := make([]byte, 0, 8+len(k)+len(v))
	l := make([]byte, 4)
	binary.BigEndian.PutUint32(l, uint32(len(k)))
	b = append(append(b, l...), k...)
	binary.BigEndian.PutUint32(l, uint32(len(v)))
	return append(append(b, l...), v...)
}

// readBoltFrame reads one frame; returns cmd type (1 request, 0 response), cmd code, request id, content.
func readBoltFrame(c net.Conn) (typ byte, code uint16, id uint32, content []byte, err error) {
	h := make([]byte, 20)
	if _, err = io.ReadFull(c, h); err != nil {
		return
	}
	typ = h[1]
	code = binary.BigEndian.Uint16(h[2:])
	id = binary.BigEndian.Uint32(h[5:])
	var cl, hl, bl int
	if typ == 0 { // response: 20 byte header
		cl, hl, bl = int(binary.BigEndian.Uint16(h[12:])), int(binary.BigEndian.Uint16(h[14:])), int(binary.BigEndian.Uint32(h[16:]))
	} else { // request: 22 byte header
		h2 := make([]byte, 2)
		if _, err = io.ReadFull(c, h2); err != nil {
			return
		}
		h = append(h, h2...)
		cl, hl, bl = int(binary.BigEndian.Uint16(h[14:])), int(binary.BigEndian.Uint16(h[16:])), int(binary.BigEndian.Uint32(h[18:]))
	}
	rest := make([]byte, cl+hl+bl)
	if _, err = io.ReadFull(c, rest); err != nil {
		return
	}
	content = rest[cl+hl:]
	return
}

// scripted upstream: the request content is JSON {"up":ms,"gap":ms}: wait `up`, write the first half of the response,
// wait `gap`, write the rest.
type script struct {
	Up  int `json:"up"`
	Gap int `json:"gap"`
}

func startUpstream() (string, func()) {
	ln := listenLocal()
	go func() {
		for {
			c, err := ln.Accept()
			if err != nil {
				return
			}
			go func(c net.Conn) {
				defer c.Close()
				var wmu sync.Mutex
				for {
					typ, code, id, content, err := readBoltFrame(c)
					if err != nil {
						return
					}
					if typ != 1 || code != 1 {
						continue // heartbeat etc.
					}
					var sc script
					json.Unmarshal(content, &sc)
					if os.Getenv("VH_TRACE") != "" {
						fmt.Println("upstream got request", id, sc, time.Now().Format("05.000"), c.RemoteAddr())
					}
					go func() {
						time.Sleep(time.Duration(sc.Up) * time.Millisecond)
						if os.Getenv("VH_TRACE") != "" {
							fmt.Println("upstream writes response", id, time.Now().Format("05.000"))
						}
						resp := boltResponse(id, []byte("ok"))
						wmu.Lock()
						defer wmu.Unlock()
						if sc.Gap > 0 {
							c.Write(resp[:11])
							time.Sleep(time.Duration(sc.Gap) * time.Millisecond)
							c.Write(resp[11:])
						} else {
							c.Write(resp)
						}
					}()
				}
			}(c)
		}
	}()
	return ln.Addr().String(), func() { ln.Close() }
}

func toMap(v interface{}) map[string]interface{} {
	m := map[string]interface{}{}
	b, _ := json.Marshal(v)
	json.Unmarshal(b, &m)
	return m
}

type reqPlan struct {
	T0   int `json:"t0"`   // ms after the scenario origin at which the first half of the request is sent
	Recv int `json:"recv"` // gap between the two halves of the request (0: sent at once)
	Up   int `json:"up"`   // upstream delay
	Gap  int `json:"gap"`  // gap between the two halves of the upstream response
	// observed
	SentAt  int  `json:"sent_at"`  // ms after origin at which the client had written the whole request
	ReplyAt int  `json:"reply_at"` // ms after origin at which the client had the whole reply (-1: none)
	OK      bool `json:"ok"`
}

type scenario struct {
	Name   string     `json:"listener"`
	Addr   string     `json:"-"`
	Reqs   []*reqPlan `json:"requests"`
	Signal int        `json:"signal_planned"`
	SigObs int        `json:"signal_at"`
	Drain  int        `json:"drain_ms"`
	ExitAt int        `json:"shutdown_returned_at"`
	AccAft bool       `json:"accepted_after_shutdown"`
	// a NEW connection attempted while the drain was running: refused | served | unserved | not-probed
	DrainProbe   string `json:"new_connection_in_drain_window"`
	DrainProbeAt int    `json:"new_connection_at"`
	Err          string `json:"harness_error,omitempty"`
}

func c11Server(run *Run, dir string) int {
	r := run.R
	drain := 300
	server.SetDrainTime(time.Duration(drain) * time.Millisecond)

	nsc := run.N(18, 90)
	var scs []*scenario
	var listeners []v2.Listener
	var rcs []*v2.RouterConfiguration
	var clusters []v2.Cluster
	xprotocol.RegisterXProtocolAction(xstream.NewConnPool, xstream.NewStreamFactory, func(codec api.XProtocolCodec) {})
	if err := xprotocol.RegisterXProtocolCodec(&bolt.XCodec{}); err != nil {
		fmt.Println("bolt codec registration failed:", err)
		return 2
	}
	for i := 0; i < nsc; i++ {
		sc := &scenario{Name: fmt.Sprintf("vh-l%d", i), Addr: fmt.Sprintf("127.0.0.1:%d", freePort()), Drain: drain}
		nreq := 1
		if r.Pct(30) {
			nreq = 2
		}
		for k := 0; k < nreq; k++ {
			p := &reqPlan{T0: k * r.Pick([]int{20, 60, 120}), Recv: r.Pick([]int{0, 0, 80, 140}), Up: r.Pick([]int{60, 120, 200, 260}), Gap: r.Pick([]int{0, 0, 70})}
			if r.Pct(12) {
				p.Up = 700 // does not fit into the drain time
			}
			if nreq > 1 {
				p.Gap = 0 // a half-written response would hold back the other response on the shared upstream connection
			}
			sc.Reqs = append(sc.Reqs, p)
		}
		// signal offset: sweep the lifetime of the first request, sometimes after everything is done
		p := sc.Reqs[0]
		done := p.Recv + p.Up + p.Gap
		switch i % 6 {
		case 0:
			if p.Recv == 0 {
				p.Recv = r.Pick([]int{80, 140})
				done = p.Recv + p.Up + p.Gap
			}
			sc.Signal = r.Intn(p.Recv) // while the request is being received (headers sent, body half sent)
		case 1, 2:
			sc.Signal = p.Recv + 10 + r.Intn(max(p.Up-20, 1)) // waiting for the upstream
		case 3:
			sc.Signal = p.Recv + p.Up + r.Intn(max(p.Gap, 1)) // reply half written by the upstream
		case 4:
			sc.Signal = done + 60 + r.Intn(60) // nothing in flight
		default:
			sc.Signal = r.Intn(done + 40)
		}
		// keep the signal away from the phase boundaries: there the outcome is a legitimate race
		for moved := true; moved; {
			moved = false
			for _, q := range sc.Reqs {
				for _, b := range []int{q.T0, q.T0 + q.Recv, q.T0 + q.Recv + q.Up, q.T0 + q.Recv + q.Up + q.Gap} {
					if d := sc.Signal - b; d > -18 && d < 18 {
						sc.Signal = b + 18 + r.Intn(8)
						moved = true
					}
				}
			}
		}
		scs = append(scs, sc)
		// a router and a cluster (hence an upstream connection) of its own per scenario: responses of different
		// scenarios must not queue behind each other on one multiplexed upstream connection
		// (MOSN pools upstream connections per host address, so the upstream server is per scenario as well)
		upAddr, closeUp := startUpstream()
		defer closeUp()
		routerName, clusterName := fmt.Sprintf("vh-router-%d", i), fmt.Sprintf("vh-up-%d", i)
		proxy := &v2.Proxy{DownstreamProtocol: "bolt", UpstreamProtocol: "bolt", RouterConfigName: routerName}
		rcs = append(rcs, &v2.RouterConfiguration{RouterConfigurationConfig: v2.RouterConfigurationConfig{RouterConfigName: routerName},
			VirtualHosts: []v2.VirtualHost{{Name: "vh", Domains: []string{"*"}, Routers: []v2.Router{{RouterConfig: v2.RouterConfig{
				Match: v2.RouterMatch{Headers: []v2.HeaderMatcher{{Name: "service", Value: ".*", Regex: true}}},
				Route: v2.RouteAction{RouterActionConfig: v2.RouterActionConfig{ClusterName: clusterName}}}}}}}})
		clusters = append(clusters, v2.Cluster{Name: clusterName, ClusterType: v2.SIMPLE_CLUSTER, LbType: v2.LB_ROUNDROBIN,
			MaxRequestPerConn: 1024, ConnBufferLimitBytes: 16 * 1024, Hosts: []v2.Host{{HostConfig: v2.HostConfig{Address: upAddr}}}})
		listeners = append(listeners, v2.Listener{ListenerConfig: v2.ListenerConfig{Name: sc.Name, AddrConfig: sc.Addr, BindToPort: true, Network: "tcp",
			FilterChains: []v2.FilterChain{{FilterChainConfig: v2.FilterChainConfig{Filters: []v2.Filter{{Type: "proxy", Config: toMap(proxy)}}}}}}})
	}
	logPath, logLevel := "/dev/null", "FATAL"
	if os.Getenv("VH_LOG") != "" {
		logPath, logLevel = "stdout", "DEBUG"
	}
	cfg := &v2.MOSNConfig{
		Servers:        []v2.ServerConfig{{DefaultLogPath: logPath, DefaultLogLevel: logLevel, Listeners: listeners, Routers: rcs}},
		ClusterManager: v2.ClusterManagerConfig{Clusters: clusters},
	}
	cfg.DisableUpgrade = true // no reconfigure listener: the two-process part is out of scope here
	cfg.UDSDir = dir
	mosn.DefaultInitStage(cfg)
	// keep every domain socket / pid / log path of this in-process MOSN inside the scratch directory
	types.MosnBasePath, types.MosnConfigPath, types.MosnUDSPath, types.MosnLogBasePath = dir, dir, dir, dir
	types.MosnLogDefaultPath, types.MosnPidDefaultFileName = dir+"/mosn.log", dir+"/mosn.pid"
	types.ReconfigureDomainSocket, types.TransferConnDomainSocket = dir+"/reconfig.sock", dir+"/conn.sock"
	types.TransferStatsDomainSocket, types.TransferListenDomainSocket = dir+"/stats.sock", dir+"/listen.sock"
	types.TransferMosnconfigDomainSocket = dir + "/mosnconfig.sock"
	m := mosn.NewMosn()
	m.Init(cfg)
	mosn.DefaultPreStartStage(m)
	go m.Start()
	// wait until the first and the last listener accept
	for _, sc := range []*scenario{scs[0], scs[len(scs)-1]} {
		okc := false
		for w := 0; w < 200 && !okc; w++ {
			if c, err := dialLocal(sc.Addr, 100*time.Millisecond); err == nil {
				c.Close()
				okc = true
			} else {
				time.Sleep(20 * time.Millisecond)
			}
		}
		if !okc {
			fmt.Println("in-process MOSN did not start listening on", sc.Addr)
			return 2
		}
	}
	handler := server.GetServer().Handler()

	// warm-up request on a listener of its own?  the first scenario's connection establishes the upstream connection;
	// give every scenario a warm-up round trip on its own listener so that connection set-up is not part of the timings
	runScenario := func(sc *scenario) {
		conns := make([]net.Conn, len(sc.Reqs))
		for k := range sc.Reqs {
			c, err := dialLocal(sc.Addr, time.Second)
			if err != nil {
				sc.Err = "dial: " + err.Error()
				return
			}
			conns[k] = c
			defer c.Close()
			// warm-up
			body, _ := json.Marshal(script{Up: 0})
			c.SetDeadline(time.Now().Add(3 * time.Second))
			c.Write(boltRequest(uint32(1000+k), body))
			for {
				typ, _, id, _, err := readBoltFrame(c)
				if err != nil {
					sc.Err = "warm-up: " + err.Error()
					return
				}
				if typ == 0 && id == uint32(1000+k) {
					break
				}
			}
		}
		time.Sleep(30 * time.Millisecond)
		origin := time.Now()
		ms := func() int { return int(time.Since(origin) / time.Millisecond) }
		var wg sync.WaitGroup
		for k, p := range sc.Reqs {
			wg.Add(1)
			go func(k int, p *reqPlan) {
				defer wg.Done()
				c := conns[k]
				p.ReplyAt = -1
				time.Sleep(time.Until(origin.Add(time.Duration(p.T0) * time.Millisecond)))
				body, _ := json.Marshal(script{Up: p.Up, Gap: p.Gap})
				frame := boltRequest(uint32(7+k), body)
				c.SetDeadline(time.Now().Add(4 * time.Second))
				if p.Recv > 0 {
					c.Write(frame[:30])
					time.Sleep(time.Duration(p.Recv) * time.Millisecond)
					c.Write(frame[30:])
				} else {
					c.Write(frame)
				}
				p.SentAt = ms()
				for {
					typ, _, id, content, err := readBoltFrame(c)
					if err != nil {
						return
					}
					if typ == 0 && id == uint32(7+k) {
						p.ReplyAt = ms()
						if os.Getenv("VH_TRACE") != "" {
							fmt.Println("client", sc.Name, k, "reply at", p.ReplyAt, time.Now().Format("05.000"), "origin", origin.Format("05.000"))
						}
						p.OK = string(content) == "ok"
						return
					}
				}
			}(k, p)
		}
		time.Sleep(time.Until(origin.Add(time.Duration(sc.Signal) * time.Millisecond)))
		sc.SigObs = ms()
		returned := make(chan struct{})
		go func() {
			handler.GracefulStopListener(nil, sc.Name)
			sc.ExitAt = ms()
			close(returned)
		}()
		// a NEW client inside the drain window: it must be refused, or - if it gets a connection - be served
		sc.DrainProbe = "not-probed"
		select {
		case <-returned:
		case <-time.After(35 * time.Millisecond):
			sc.DrainProbeAt = ms()
			nc, err := dialLocal(sc.Addr, 150*time.Millisecond)
			select {
			case <-returned:
				// Shutdown returned while we were connecting: not an observation of the drain window
				if err == nil {
					nc.Close()
				}
			default:
				if err != nil {
					sc.DrainProbe = "refused"
				} else {
					sc.DrainProbe = "unserved"
					body, _ := json.Marshal(script{})
					nc.SetDeadline(time.Now().Add(time.Duration(sc.Drain+400) * time.Millisecond))
					nc.Write(boltRequest(4242, body))
					for {
						typ, _, id, _, err := readBoltFrame(nc)
						if err != nil {
							break
						}
						if typ == 0 && id == 4242 {
							sc.DrainProbe = "served"
							break
						}
					}
					nc.Close()
				}
			}
		}
		<-returned
		// no new connection after the stop
		if c, err := dialLocal(sc.Addr, 150*time.Millisecond); err == nil {
			sc.AccAft = true
			c.Close()
		}
		wg.Wait()
	}
	// scenarios in parallel batches (each has its own listener, connections and gauge)
	batch := 6
	for i := 0; i < len(scs); i += batch {
		var wg sync.WaitGroup
		for j := i; j < i+batch && j < len(scs); j++ {
			wg.Add(1)
			go func(sc *scenario) { defer wg.Done(); runScenario(sc) }(scs[j])
		}
		wg.Wait()
	}

	// ---- evaluate ----
	sh := run.NewShard(c11Header, "drain_case", "drain_mismatches")
	const tol = 70
	for _, sc := range scs {
		if sc.Err != "" {
			fmt.Println("scenario could not run:", sc.Name, sc.Err)
			return 2
		}
		// the model is fed with the OBSERVED request timings (when the client finished sending, when it had the reply), so
		// that only the drain loop's own behaviour is compared, not the scheduling noise of the scripted peers
		var rs []string
		phase := "idle"
		racy := false
		sig := sc.SigObs
		for k, p := range sc.Reqs {
			sent, done := p.SentAt, p.ReplyAt
			if done < 0 {
				done = sent + p.Up + p.Gap
			}
			rs = append(rs, fmt.Sprintf("(mkR %d%%nat %d%%nat %d%%nat 0%%nat)", p.T0, sent-p.T0, done-sent))
			for _, b := range []int{sent, done} {
				if d := sig - b; d > -12 && d < 12 {
					racy = true // the signal fell on a phase boundary: either outcome is legitimate
				}
			}
			ph := "idle"
			switch {
			case sig >= p.T0 && sig < sent:
				ph = "receiving"
			case sig >= sent && sig < sent+p.Up && sig < done:
				ph = "waiting-upstream"
			case sig >= sent && sig < done:
				ph = "reply-half-written"
			}
			if k == 0 {
				phase = ph
			}
			rep := map[string]interface{}{"part": "drain", "scenario": sc, "request": k, "phase_at_signal": ph}
			// finder: an in-flight request whose remainder fits the drain time must be answered before Shutdown returns
			margin := 40
			if ph != "idle" && !racy && done-sig <= sc.Drain-margin {
				switch {
				case p.ReplyAt < 0 || !p.OK:
					run.Fail("shutdown:in-flight-request-failed:"+ph, fmt.Sprintf("request %d (phase %s at the signal) got no reply", k, ph), rep)
				case p.ReplyAt > sc.ExitAt+20 && ph == "receiving":
					run.Fail("shutdown:returns-while-a-request-is-still-being-received", fmt.Sprintf("Shutdown returned at %d ms, the reply of the request that was half sent when the signal arrived (%d ms) came at %d ms; remaining %d ms <= drain %d ms", sc.ExitAt, sig, p.ReplyAt, done-sig, sc.Drain), rep)
				case p.ReplyAt > sc.ExitAt+20:
					run.Fail("shutdown:returns-before-in-flight-reply:"+ph, fmt.Sprintf("Shutdown returned at %d ms, before the reply (%d ms) of a request in phase %s at the signal (%d ms); remaining %d ms <= drain %d ms", sc.ExitAt, p.ReplyAt, ph, sig, done-sig, sc.Drain), rep)
				}
			}
		}
		if sc.DrainProbe == "unserved" {
			run.Fail("shutdown:connection-established-in-drain-window-never-served", fmt.Sprintf("graceful stop at %d ms with a request in flight; a new client connected at %d ms (Shutdown returned at %d ms): the connection was established but its request was never answered - neither refused nor served", sc.SigObs, sc.DrainProbeAt, sc.ExitAt), map[string]interface{}{"part": "drain", "scenario": sc})
		}
		if sc.AccAft {
			run.Fail("listener:accepted-after-graceful-stop", "a TCP connect succeeded after GracefulStopListener returned", map[string]interface{}{"part": "drain", "scenario": sc})
		}
		rep := map[string]interface{}{"part": "drain", "scenario": sc, "phase_at_signal": phase}
		kinds := []string{"drain-phase=" + phase, fmt.Sprintf("drain-requests=%d", len(sc.Reqs)), "drain-window-new-connection=" + sc.DrainProbe}
		if racy {
			kinds = append(kinds, "drain-signal-on-boundary-not-compared")
		}
		run.Count(fmt.Sprintf("drain|%v|%d", rs, sc.Signal), phase != "idle", kinds...)
		if !racy {
			sh.Add(fmt.Sprintf("(%s, %d%%nat, %d%%nat, 10%%nat, %d%%nat, %d%%nat)", CoqList(rs), sig, sc.Drain, tol, sc.ExitAt), rep)
		}
		if phase == "waiting-upstream" {
			run.Sample(rep)
		}
	}
	sh.Close()
	return 0
}

func max(a, b int) int {
	if a > b {
		return a
	}
	return b
}
