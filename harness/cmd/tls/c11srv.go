package main

// C11 part 3: an in-process MOSN (real connHandler, listeners, proxy, codecs, cluster manager) in front of scripted
// upstreams, for bolt, HTTP/1.1 and HTTP/2.  One listener, cluster and upstream server per scenario; the client sends a
// request in up to three parts (headers / half the body / the rest), the upstream answers after a scripted delay
// (optionally in two halves); GracefulStopListener - the per-listener form of what SIGTERM triggers - is invoked at an
// offset that sweeps the request's lifetime (headers sent, body half sent, waiting for upstream, response half written,
// idle), on warmed-up (long-lived) and fresh (short-lived) connections.  Observed: when Shutdown returned ("exit": the
// stage manager closes the application right after), when the reply reached the client, what a new client met inside
// the drain window, what an idle keep-alive connection was told.

import (
	"fmt"
	"net"
	"os"
	"sync"
	"time"

	"mosn.io/api"
	v2 "mosn.io/mosn/pkg/config/v2"
	_ "mosn.io/mosn/pkg/filter/network/proxy"
	"mosn.io/mosn/pkg/mosn"
	"mosn.io/mosn/pkg/protocol/xprotocol"
	"mosn.io/mosn/pkg/protocol/xprotocol/bolt"
	"mosn.io/mosn/pkg/server"
	_ "mosn.io/mosn/pkg/stream/http"
	_ "mosn.io/mosn/pkg/stream/http2"
	xstream "mosn.io/mosn/pkg/stream/xprotocol"
	"mosn.io/mosn/pkg/types"
	_ "mosn.io/mosn/pkg/upstream/cluster"

	. "vh/vhlib"
)

type scenario struct {
	Proto  string     `json:"protocol"`
	Name   string     `json:"listener"`
	Addr   string     `json:"-"`
	Fresh  bool       `json:"short_lived_connection"`
	Reqs   []*reqPlan `json:"requests"`
	Signal int        `json:"signal_planned"`
	SigObs int        `json:"signal_at"`
	Drain  int        `json:"drain_ms"`
	ExitAt int        `json:"shutdown_returned_at"`
	AccAft bool       `json:"accepted_after_shutdown"`
	// a NEW connection attempted while the drain was running: refused | served | unserved | not-probed
	DrainProbe   string `json:"new_connection_in_drain_window"`
	DrainProbeAt int    `json:"new_connection_at"`
	// an exchange on the existing (keep-alive) connection after Shutdown returned: served/failed + what the server announced
	After     string `json:"exchange_on_existing_connection_after_shutdown,omitempty"`
	Announced string `json:"server_announced,omitempty"`
	Err       string `json:"harness_error,omitempty"`
	Jitter    int    `json:"scheduling_jitter_ms"`
	Attempts  int    `json:"attempts"`
	Tol       int    `json:"tolerance_ms"`
}

// fresh returns a copy of the PLAN of sc (no observations) bound to another listener, for a re-run.
func (sc *scenario) fresh(name, addr string) *scenario {
	n := &scenario{Proto: sc.Proto, Name: name, Addr: addr, Fresh: sc.Fresh, Signal: sc.Signal, Drain: sc.Drain}
	for _, p := range sc.Reqs {
		n.Reqs = append(n.Reqs, &reqPlan{T0: p.T0, RecvH: p.RecvH, RecvB: p.RecvB, Up: p.Up, Gap: p.Gap})
	}
	return n
}

// verdict of the finder on one scenario
type verdict struct {
	sig, what string
	rep       map[string]interface{}
	listed    bool // the signature of the listed finding: expected on the unchanged tree, needs no confirmation by re-runs
}

type judgement struct {
	racy     bool // the signal fell within the margin of a phase boundary: order unknown, nothing is compared
	jittery  bool // the machine stuttered too much during the scenario: nothing is compared
	agree    bool // the mirror of the model reproduces the observed return time of Shutdown within the tolerance
	verdicts []verdict
	rs       []string
	phase    string
}

var mosnProto = map[string]string{"bolt": "bolt", "http1": "Http1", "http2": "Http2"}
var coqProto = map[string]string{"bolt": "PBolt", "http1": "PHttp1", "http2": "PHttp2"}

// the moment the request becomes a stream (request_active + 1): bolt and HTTP/1 decode a request only when it has
// arrived completely, HTTP/2 creates the stream on the HEADERS frame
func decodeAt(proto string, p *reqPlan) int {
	if proto == "http2" {
		return p.HdrAt
	}
	return p.SentAt
}

type mosnUnderTest struct {
	handler types.ConnectionHandler
	m       *mosn.Mosn
	closers []func()
}

// startMOSN builds one in-process MOSN with a listener per scenario (+ extra listeners) and starts it.
func startMOSN(dir string, scs []*scenario, extra []v2.Listener, extraRouters []*v2.RouterConfiguration, extraClusters []v2.Cluster) (*mosnUnderTest, error) {
	mu := &mosnUnderTest{}
	xprotocol.RegisterXProtocolAction(xstream.NewConnPool, xstream.NewStreamFactory, func(codec api.XProtocolCodec) {})
	if err := xprotocol.RegisterXProtocolCodec(&bolt.XCodec{}); err != nil {
		return nil, fmt.Errorf("bolt codec registration failed: %v", err)
	}
	listeners := append([]v2.Listener{}, extra...)
	rcs := append([]*v2.RouterConfiguration{}, extraRouters...)
	clusters := append([]v2.Cluster{}, extraClusters...)
	for i, sc := range scs {
		// a router, a cluster and an upstream SERVER of its own per scenario: MOSN pools upstream connections per host
		// address, and responses of different scenarios must not queue behind each other on one multiplexed connection
		upAddr, closeUp := upstreamFor(sc.Proto)
		mu.closers = append(mu.closers, closeUp)
		l, rc, cl := listenerFor(sc.Name, sc.Addr, sc.Proto, fmt.Sprintf("vh-router-%d", i), fmt.Sprintf("vh-up-%d", i), upAddr)
		listeners, rcs, clusters = append(listeners, l), append(rcs, rc), append(clusters, cl)
	}
	logPath, logLevel := "/dev/null", "FATAL"
	if os.Getenv("VH_LOG") != "" {
		logPath, logLevel = "stdout", "DEBUG"
	}
	cfg := &v2.MOSNConfig{
		Servers:        []v2.ServerConfig{{DefaultLogPath: logPath, DefaultLogLevel: logLevel, Listeners: listeners, Routers: rcs}},
		ClusterManager: v2.ClusterManagerConfig{Clusters: clusters},
	}
	cfg.DisableUpgrade = true // no reconfigure listener: the two-process part is out of scope here
	cfg.UDSDir = dir
	mosn.DefaultInitStage(cfg)
	// keep every domain socket / pid / log path of this in-process MOSN inside the scratch directory
	types.MosnBasePath, types.MosnConfigPath, types.MosnUDSPath, types.MosnLogBasePath = dir, dir, dir, dir
	types.MosnLogDefaultPath, types.MosnPidDefaultFileName = dir+"/mosn.log", dir+"/mosn.pid"
	types.ReconfigureDomainSocket, types.TransferConnDomainSocket = dir+"/reconfig.sock", dir+"/conn.sock"
	types.TransferStatsDomainSocket, types.TransferListenDomainSocket = dir+"/stats.sock", dir+"/listen.sock"
	types.TransferMosnconfigDomainSocket = dir + "/mosnconfig.sock"
	m := mosn.NewMosn()
	m.Init(cfg)
	mosn.DefaultPreStartStage(m)
	go m.Start()
	mu.m = m
	mu.handler = nil
	// wait until every listener accepts (they are started one goroutine each)
	for _, l := range listeners {
		okc := false
		for w := 0; w < 200 && !okc; w++ {
			if c, err := dialLocal(l.AddrConfig, 100*time.Millisecond); err == nil {
				c.Close()
				okc = true
			} else {
				time.Sleep(20 * time.Millisecond)
			}
		}
		if !okc {
			return nil, fmt.Errorf("in-process MOSN did not start listening on %s", l.AddrConfig)
		}
	}
	mu.handler = server.GetServer().Handler()
	return mu, nil
}

func listenerFor(name, addr, proto, routerName, clusterName, upAddr string) (v2.Listener, *v2.RouterConfiguration, v2.Cluster) {
	proxy := &v2.Proxy{DownstreamProtocol: mosnProto[proto], UpstreamProtocol: mosnProto[proto], RouterConfigName: routerName}
	route := v2.RouteAction{RouterActionConfig: v2.RouterActionConfig{ClusterName: clusterName}}
	rc := &v2.RouterConfiguration{RouterConfigurationConfig: v2.RouterConfigurationConfig{RouterConfigName: routerName},
		VirtualHosts: []v2.VirtualHost{{Name: "vh", Domains: []string{"*"}, Routers: []v2.Router{
			{RouterConfig: v2.RouterConfig{Match: v2.RouterMatch{Headers: []v2.HeaderMatcher{{Name: "service", Value: ".*", Regex: true}}}, Route: route}},
			{RouterConfig: v2.RouterConfig{Match: v2.RouterMatch{Prefix: "/"}, Route: route}}}}}}
	cl := v2.Cluster{Name: clusterName, ClusterType: v2.SIMPLE_CLUSTER, LbType: v2.LB_ROUNDROBIN,
		MaxRequestPerConn: 1024, ConnBufferLimitBytes: 16 * 1024, Hosts: []v2.Host{{HostConfig: v2.HostConfig{Address: upAddr}}}}
	l := v2.Listener{ListenerConfig: v2.ListenerConfig{Name: name, AddrConfig: addr, BindToPort: true, Network: "tcp",
		FilterChains: []v2.FilterChain{{FilterChainConfig: v2.FilterChainConfig{Filters: []v2.Filter{{Type: "proxy", Config: toMap(proxy)}}}}}}}
	return l, rc, cl
}

func c11Server(run *Run, dir string) int {
	r := run.R
	drain := 300
	server.SetDrainTime(time.Duration(drain) * time.Millisecond)

	protos := []string{"bolt", "http1", "http2"}
	per := run.N(12, 60)
	var scs []*scenario
	for _, proto := range protos {
		for i := 0; i < per; i++ {
			sc := &scenario{Proto: proto, Name: fmt.Sprintf("vh-%s-%d", proto, i), Addr: fmt.Sprintf("127.0.0.1:%d", freePort()), Drain: drain, Fresh: r.Pct(30)}
			nreq := 1
			if r.Pct(25) {
				nreq = 2
			}
			for k := 0; k < nreq; k++ {
				p := &reqPlan{T0: k * r.Pick([]int{20, 60, 120}), RecvH: r.Pick([]int{0, 0, 100, 140}), RecvB: r.Pick([]int{0, 0, 100, 140}), Up: r.Pick([]int{60, 120, 200, 260}), Gap: r.Pick([]int{0, 0, 100})}
				if r.Pct(10) {
					p.Up = 700 // does not fit into the drain time
				}
				if nreq > 1 {
					p.Gap = 0 // a half-written response would hold back the other response on the shared upstream connection
				}
				sc.Reqs = append(sc.Reqs, p)
			}
			// signal offset: sweep the lifetime of the first request; the signal is aimed at the MIDDLE of a phase (each
			// phase lasts >= 100 ms) so that it stays clear of the phase boundaries, where either outcome is legitimate
			p := sc.Reqs[0]
			mid := func(lo, hi int) int { return lo + (hi-lo)/2 + r.Intn((hi-lo)/4+1) - (hi-lo)/8 }
			switch i % 6 {
			case 0: // headers sent
				if p.RecvH == 0 {
					p.RecvH = r.Pick([]int{100, 140})
				}
				sc.Signal = mid(0, p.RecvH)
			case 1: // body half sent
				if p.RecvB == 0 {
					p.RecvB = r.Pick([]int{100, 140})
				}
				sc.Signal = mid(p.RecvH, p.RecvH+p.RecvB)
			case 2: // waiting for the upstream
				if p.Up < 120 {
					p.Up = 120
				}
				sc.Signal = mid(p.RecvH+p.RecvB, p.RecvH+p.RecvB+min(p.Up, 260))
			case 3: // response half written by the upstream
				if len(sc.Reqs) == 1 {
					p.Gap = 110
					sc.Signal = mid(p.RecvH+p.RecvB+p.Up, p.RecvH+p.RecvB+p.Up+p.Gap)
				} else {
					sc.Signal = mid(p.RecvH+p.RecvB, p.RecvH+p.RecvB+p.Up)
				}
			case 4: // nothing in flight: idle keep-alive connection
				sc.Signal = p.RecvH + p.RecvB + p.Up + p.Gap + 100 + r.Intn(60)
				if len(sc.Reqs) > 1 {
					sc.Reqs = sc.Reqs[:1]
				}
				if p.Up > 300 {
					p.Up = 200
					sc.Signal = p.RecvH + p.RecvB + p.Up + p.Gap + 100 + r.Intn(60)
				}
				sc.Fresh = false
			default:
				sc.Signal = r.Intn(p.RecvH + p.RecvB + p.Up + p.Gap + 40)
			}
			scs = append(scs, sc)
		}
	}
	// spare listeners for re-runs
	var spares []*scenario
	for _, proto := range protos {
		for i := 0; i < per/2+2; i++ {
			spares = append(spares, &scenario{Proto: proto, Name: fmt.Sprintf("vh-%s-spare-%d", proto, i), Addr: fmt.Sprintf("127.0.0.1:%d", freePort())})
		}
	}
	// one more bolt listener for the in-process hot-upgrade part
	xUp, xClose := upstreamFor("bolt")
	defer xClose()
	xl, xrc, xcl := listenerFor(xferListener, fmt.Sprintf("127.0.0.1:%d", freePort()), "bolt", "vh-router-x", "vh-up-x", xUp)
	// multi-listener groups (their listeners are added to handlers of their own later)
	var mlClosers []func()
	mlGroups, mlRouters, mlClusters := mlPlan(run.N(7, 20), &mlClosers)
	defer func() {
		for _, c := range mlClosers {
			c()
		}
	}()
	mu, err := startMOSN(dir, append(append([]*scenario{}, scs...), spares...), []v2.Listener{xl}, append([]*v2.RouterConfiguration{xrc}, mlRouters...), append([]v2.Cluster{xcl}, mlClusters...))
	if err != nil {
		fmt.Println(err)
		return 2
	}
	defer func() {
		for _, c := range mu.closers {
			c()
		}
	}()
	handler := mu.handler

	runScenario := func(sc *scenario) {
		clients := make([]client, len(sc.Reqs))
		for k := range sc.Reqs {
			c, err := newClient(sc.Proto, sc.Addr, time.Second)
			if err != nil {
				sc.Err = "dial: " + err.Error()
				return
			}
			clients[k] = c
			defer c.close()
			if !sc.Fresh {
				if err := c.warmup(); err != nil {
					sc.Err = "warm-up: " + err.Error()
					return
				}
			}
		}
		time.Sleep(30 * time.Millisecond)
		origin := time.Now()
		ms := func() int { return int(time.Since(origin) / time.Millisecond) }
		var wg sync.WaitGroup
		for k, p := range sc.Reqs {
			wg.Add(1)
			go func(k int, p *reqPlan) {
				defer wg.Done()
				p.ReplyAt = -1
				time.Sleep(time.Until(origin.Add(time.Duration(p.T0) * time.Millisecond)))
				clients[k].do(7+k, p, ms)
			}(k, p)
		}
		time.Sleep(time.Until(origin.Add(time.Duration(sc.Signal) * time.Millisecond)))
		sc.SigObs = ms()
		returned := make(chan struct{})
		go func() {
			handler.GracefulStopListener(nil, sc.Name)
			sc.ExitAt = ms()
			close(returned)
		}()
		// a NEW client inside the drain window: it must be refused, or - if it gets a connection - be served
		sc.DrainProbe = "not-probed"
		select {
		case <-returned:
		case <-time.After(35 * time.Millisecond):
			sc.DrainProbeAt = ms()
			nc, err := newClient(sc.Proto, sc.Addr, 150*time.Millisecond)
			select {
			case <-returned:
				// Shutdown returned while we were connecting: not an observation of the drain window
				if err == nil {
					nc.close()
				}
			default:
				if err != nil {
					sc.DrainProbe = "refused"
				} else {
					sc.DrainProbe = "unserved"
					q := &reqPlan{}
					nc.do(4242, q, ms)
					if q.OK {
						sc.DrainProbe = "served"
					}
					nc.close()
				}
			}
		}
		<-returned
		// no new connection after the stop
		if c, err := dialLocal(sc.Addr, 150*time.Millisecond); err == nil {
			sc.AccAft = true
			c.Close()
		}
		wg.Wait()
		// the existing keep-alive connection after the stop: is it still served, what was it told?
		if len(sc.Reqs) == 1 && sc.Reqs[0].OK {
			// an announcement (GOAWAY) was sent when the drain started; give it ample time to arrive before asking
			for w := 0; w < 500 && clients[0].goneAway() == "" && sc.Proto == "http2"; w++ {
				time.Sleep(20 * time.Millisecond)
			}
			q := &reqPlan{}
			clients[0].do(99, q, ms)
			sc.After = "failed"
			if q.OK {
				sc.After = "served"
			}
			sc.Announced = clients[0].goneAway()
			if sc.Announced == "" {
				sc.Announced = "nothing"
			}
			if !q.OK && sc.Announced == "goaway" {
				sc.After = "declined-by-client-after-goaway"
			}
		}
	}
	// scenarios in parallel batches (each has its own listener, connections, upstream and gauge).  A scenario that
	// disagrees with the mirror of the model, or yields an unlisted timing-based verdict, is re-run on a spare listener (up
	// to three runs in all); the last run is the one that is reported.
	var spareMu sync.Mutex
	takeSpare := func(proto string) *scenario {
		spareMu.Lock()
		defer spareMu.Unlock()
		for i, sp := range spares {
			if sp != nil && sp.Proto == proto {
				spares[i] = nil
				return sp
			}
		}
		return nil
	}
	final := make([]*scenario, len(scs))
	judged := make([]judgement, len(scs))
	runRobust := func(i int) {
		cur := scs[i]
		for attempt := 1; ; attempt++ {
			t0 := time.Now()
			runScenario(cur)
			cur.Jitter = jit.max(t0, time.Now())
			cur.Attempts = attempt
			j := judge(cur)
			final[i], judged[i] = cur, j
			needsRerun := cur.Err == "" && !j.racy && !j.jittery && !j.agree
			for _, v := range j.verdicts {
				if !v.listed {
					needsRerun = true
				}
			}
			if cur.Err != "" && attempt < 3 {
				needsRerun = true
			}
			if !needsRerun || attempt >= 3 {
				return
			}
			sp := takeSpare(cur.Proto)
			if sp == nil {
				return
			}
			cur = scs[i].fresh(sp.Name, sp.Addr)
		}
	}
	batch := 9
	for i := 0; i < len(scs); i += batch {
		var wg sync.WaitGroup
		for j := i; j < i+batch && j < len(scs); j++ {
			wg.Add(1)
			go func(j int) { defer wg.Done(); runRobust(j) }(j)
		}
		wg.Wait()
	}

	// ---- evaluate ----
	sh := run.NewShard(c11Header, "drain_case", "drain_mismatches")
	ann := run.NewShard(c11Header, "ann_case", "ann_mismatches")
	notRun := 0
	for i, sc := range final {
		if sc.Err != "" {
			// three runs could not even be set up (connect / warm-up): an overloaded machine, not an observation
			notRun++
			fmt.Fprintln(os.Stderr, "scenario could not run:", sc.Name, sc.Err)
			run.Count("drain|not-run|"+sc.Name, false, "drain-scenario-could-not-run")
			if notRun > len(final)/2 {
				fmt.Println("more than half of the scenarios could not run:", sc.Err)
				return 2
			}
			continue
		}
		j := judged[i]
		for _, v := range j.verdicts {
			run.Fail(v.sig, v.what, v.rep)
		}
		if sc.DrainProbe == "unserved" {
			run.Fail("shutdown:connection-established-in-drain-window-never-served", fmt.Sprintf("%s: graceful stop at %d ms with a request in flight; a new client connected at %d ms (Shutdown returned at %d ms): the connection was established but its request was never answered - neither refused nor served", sc.Proto, sc.SigObs, sc.DrainProbeAt, sc.ExitAt), map[string]interface{}{"part": "drain", "scenario": sc})
		}
		if sc.AccAft {
			run.Fail("listener:accepted-after-graceful-stop", "a TCP connect succeeded after GracefulStopListener returned", map[string]interface{}{"part": "drain", "scenario": sc})
		}
		rep := map[string]interface{}{"part": "drain", "scenario": sc, "phase_at_signal": j.phase}
		conn := "long-lived"
		if sc.Fresh {
			conn = "short-lived"
		}
		kinds := []string{"drain-" + sc.Proto + "-phase=" + j.phase, fmt.Sprintf("drain-requests=%d", len(sc.Reqs)), "drain-window-new-connection=" + sc.DrainProbe, "drain-connection=" + conn}
		if sc.After != "" {
			ann.Add(fmt.Sprintf("(%s, %s)", coqProto[sc.Proto], CoqBool(sc.Announced != "nothing")), rep)
			kinds = append(kinds, fmt.Sprintf("existing-connection-after-shutdown:%s=%s,announced-%s", sc.Proto, sc.After, sc.Announced))
		}
		if sc.Attempts > 1 {
			kinds = append(kinds, fmt.Sprintf("drain-scenario-rerun-%d-times", sc.Attempts-1))
		}
		switch {
		case j.racy:
			kinds = append(kinds, "drain-signal-on-boundary-not-compared")
		case j.jittery:
			kinds = append(kinds, "drain-machine-stuttered-not-compared")
		}
		run.Count(fmt.Sprintf("drain|%s|%v|%d", sc.Proto, j.rs, sc.Signal), j.phase != "idle", kinds...)
		if !j.racy && !j.jittery {
			sh.Add(fmt.Sprintf("(%s, %d%%nat, %d%%nat, 10%%nat, %d%%nat, %d%%nat)", CoqList(j.rs), sc.SigObs, sc.Drain, sc.Tol, sc.ExitAt), rep)
		}
		if j.phase == "waiting-upstream" || j.phase == "body-half-sent" {
			run.Sample(rep)
		}
	}
	sh.Close()
	ann.Close()
	if rc := c11Multi(run, mu, mlGroups, drain); rc != 0 {
		return rc
	}
	return c11Transfer(run, mu, xl)
}

// judge evaluates one run of a scenario: observed timestamps only, margins scaled by the jitter measured during the run.
func judge(sc *scenario) judgement {
	var j judgement
	j.phase = "idle"
	if sc.Err != "" {
		return j
	}
	J := sc.Jitter
	sc.Tol = 70 + 4*J
	margin := 15 + 2*J // two events closer than this have unknown order
	if J > 60 {
		j.jittery = true
	}
	sig := sc.SigObs
	var ms []mreq
	for k, p := range sc.Reqs {
		if p.ReplyAt < 0 && p.SentAt == 0 && p.HdrAt == 0 && p.FirstAt > sig {
			// started after the signal and declined by the client itself (HTTP/2 connection that received GOAWAY):
			// the request never reached MOSN and is no part of the history
			continue
		}
		dec, done := decodeAt(sc.Proto, p), p.ReplyAt
		if done < 0 {
			done = p.SentAt + p.Up + p.Gap
		}
		// client-side times, made monotone (clock reads of different goroutines)
		first, hdr, sent := p.FirstAt, max(p.HdrAt, p.FirstAt), max(p.SentAt, max(p.HdrAt, p.FirstAt))
		done = max(done, sent)
		dec = max(dec, first)
		j.rs = append(j.rs, fmt.Sprintf("(mkX %s %d%%nat %d%%nat %d%%nat %d%%nat)", coqProto[sc.Proto], first, hdr, sent, done))
		ms = append(ms, mreq{dec, done})
		for _, b := range []int{dec, done, first} {
			if d := sig - b; d > -margin && d < margin {
				j.racy = true // the signal fell on a phase boundary: either outcome is legitimate
			}
		}
		// a request that ends close to the drain deadline: time-out and completion race
		if d := (sig + sc.Drain) - done; d > -margin-10 && d < margin+10 {
			j.racy = true
		}
		ph := "idle"
		switch {
		case sig < p.FirstAt+3 || (p.SentAt == 0 && p.HdrAt == 0):
			ph = "idle" // the request was started after the signal (or never left the client): not in flight
		case sig >= p.FirstAt && sig < p.HalfAt && p.HalfAt > p.FirstAt+5:
			ph = "headers-sent"
		case sig >= p.HalfAt && sig < p.SentAt && p.SentAt > p.HalfAt+5:
			ph = "body-half-sent"
		case sig >= p.SentAt && sig < p.SentAt+p.Up && sig < done:
			ph = "waiting-upstream"
		case sig >= p.SentAt && sig < done:
			ph = "reply-half-written"
		}
		if k == 0 {
			j.phase = ph
		}
		rep := map[string]interface{}{"part": "drain", "scenario": sc, "request": k, "phase_at_signal": ph}
		// finder: an in-flight request whose remainder fits the drain time must be answered before Shutdown returns
		if ph != "idle" && !j.racy && !j.jittery && done-sig <= sc.Drain-40-2*J {
			late := p.ReplyAt > sc.ExitAt+20+2*J
			switch {
			case p.ReplyAt < 0 || !p.OK:
				j.verdicts = append(j.verdicts, verdict{"shutdown:in-flight-request-failed:" + sc.Proto + ":" + ph, fmt.Sprintf("%s request %d (phase %s at the signal) got no reply", sc.Proto, k, ph), rep, false})
			case late && sig < dec && sc.Proto != "http2":
				j.verdicts = append(j.verdicts, verdict{"shutdown:returns-while-a-request-is-still-being-received:" + sc.Proto, fmt.Sprintf("%s: Shutdown returned at %d ms, the reply of the request that was partly sent (%s) when the signal arrived (%d ms) came at %d ms; remaining %d ms <= drain %d ms", sc.Proto, sc.ExitAt, ph, sig, p.ReplyAt, done-sig, sc.Drain), rep, true})
			case late:
				j.verdicts = append(j.verdicts, verdict{"shutdown:returns-before-in-flight-reply:" + sc.Proto + ":" + ph, fmt.Sprintf("%s: Shutdown returned at %d ms, before the reply (%d ms) of a request in phase %s at the signal (%d ms); remaining %d ms <= drain %d ms", sc.Proto, sc.ExitAt, p.ReplyAt, ph, sig, done-sig, sc.Drain), rep, false})
			}
		}
	}
	pred := drainMirror(ms, sig, sc.Drain, 10)
	d := pred - sc.ExitAt
	j.agree = d <= sc.Tol && -d <= sc.Tol
	// verdicts of a racy / jittery run are never reported
	if j.racy || j.jittery {
		j.verdicts = nil
	}
	return j
}

func max(a, b int) int {
	if a > b {
		return a
	}
	return b
}

var _ = net.Dial
