package main

import . "vh/vhlib"

func c11Server(run *Run) int { return 0 }
