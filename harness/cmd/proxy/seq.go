package main

// Histories of SEVERAL requests through the real proxy that re-use the pooled per-request objects (proxyBuffers: the downStream):
// the requests of a sequence run back to back on ONE goroutine - the moment the worker of request k returns, request k+1 is
// created and driven on the same goroutine, with no scheduling point in between, so that the buffer pool (sync.Pool, per P) hands
// the object request k gave back to request k+1 (observed by pointer identity).  Each request has its own listener, route,
// cluster and event script (relative to its own start).
// Judged as if alone (the property is per request):
//   C03:outcome-depends-on-previous-request   the observation of request k in the sequence differs from the observation of the same
//                                             request run alone (both repeated: a difference that does not repeat is dropped)
//   C03:write-into-recycled-stream            after its worker returned and the object had been given back (zeroed), a field of the
//                                             downStream object is non-zero: something was assigned after give-back
// plus the ordinary C03 / C14 / C10 finders on every request of the sequence, and the model comparison of consecutive pairs
// ([pair_ok]: the second starts from [next_request] of a final state of the first that matches the first's observation).

import (
	"sync/atomic"
	"unsafe"
	"context"
	"encoding/json"
	"fmt"
	"os"
	"os/exec"
	"reflect"
	"strings"
	"sync"
	"time"

	"mosn.io/api"

	. "vh/vhlib"
)

type seqJob struct {
	id       int
	specs    []*Spec
	res      []*Result
	recycled []bool     // request k ran on the object request k-1 had used
	dirty    [][]string // fields of the object found non-zero after request k had given it back
	alone    []*Result
}

// fields of a downStream that was given back (zeroed by the pool) and are non-zero now
func dirtyFields(ptr interface{}) (givenBack bool, dirty []string) {
	v := reflect.ValueOf(ptr)
	if v.Kind() != reflect.Ptr || v.IsNil() {
		return false, nil
	}
	e := v.Elem()
	if e.Kind() != reflect.Struct {
		return false, nil
	}
	// newActiveStream sets proxy, context, requestInfo, notify on every stream: all zero = the object went through the pool's Reset
	for _, name := range []string{"proxy", "context", "requestInfo", "notify"} {
		f := e.FieldByName(name)
		if !f.IsValid() || !f.IsZero() {
			return false, nil
		}
	}
	t := e.Type()
	for i := 0; i < e.NumField(); i++ {
		if !e.Field(i).IsZero() {
			dirty = append(dirty, t.Field(i).Name)
		}
	}
	return true, dirty
}

// Timer.Stop of the proxy's utils.Timer is a CAS on its `stopped` word followed by time.Timer.Stop: with the word already set, the
// cleanUp of the request leaves the runtime timer running - exactly what happens when Stop comes after the runtime has started
// the timer function.  Returns how many armed timers were treated.
func neutraliseTimerStop(ds interface{}) (n int) {
	defer func() { recover() }()
	v := reflect.ValueOf(ds)
	if v.Kind() != reflect.Ptr || v.IsNil() {
		return 0
	}
	e := v.Elem()
	for _, name := range []string{"perRetryTimer", "responseTimer"} {
		f := e.FieldByName(name)
		if !f.IsValid() || f.Kind() != reflect.Ptr || f.IsNil() {
			continue
		}
		t := reflect.NewAt(f.Type().Elem(), unsafe.Pointer(f.Pointer())).Elem()
		st := t.FieldByName("stopped")
		if !st.IsValid() || st.Kind() != reflect.Int32 {
			continue
		}
		atomic.StoreInt32((*int32)(unsafe.Pointer(st.UnsafeAddr())), 1)
		n++
	}
	return n
}

func runSeq(j *seqJob) {
	n := len(j.specs)
	preps := make([]*prepared, n)
	for k, sp := range j.specs {
		preps[k] = prepareHistory(j.id+k, sp)
	}
	j.res = make([]*Result, n)
	j.recycled = make([]bool, n)
	j.dirty = make([][]string, n)
	recvs := make([]atomic.Value, n)
	start := make([]chan struct{}, n)
	done := make([]chan struct{}, n)
	for k := range j.specs {
		j.res[k] = &Result{Spec: j.specs[k]}
		start[k], done[k] = make(chan struct{}), make(chan struct{})
		if preps[k].err != nil {
			j.res[k].Err = preps[k].err.Error()
		}
	}
	for _, r := range j.res {
		if r.Err != "" {
			return
		}
	}
	type base struct {
		g0, r0, q0 int64
		hasRes     bool
	}
	bases := make([]base, n)
	for k, p := range preps {
		bases[k].g0 = listenerGauge(p.h.listener)
		bases[k].r0, bases[k].hasRes = retriesCur(p.h.cluster)
		bases[k].q0 = requestsCur(p.h.cluster)
	}
	var ctrl sync.WaitGroup
	// per-request controllers: event script, watchdog, final measurements
	for k := range j.specs {
		ctrl.Add(1)
		go func(k int) {
			defer ctrl.Done()
			p, sp, res := preps[k], j.specs[k], j.res[k]
			h := p.h
			<-start[k]
			var wg sync.WaitGroup
			if sp.KeepTimers {
				wg.Add(1)
				go func() {
					defer wg.Done()
					// once the request has been sent upstream its timers are armed
					deadline := time.Now().Add(12 * time.Millisecond)
					for time.Now().Before(deadline) {
						if h.up(0) != nil {
							break
						}
						time.Sleep(200 * time.Microsecond)
					}
					time.Sleep(3 * time.Millisecond)
					if r := recvs[k].Load(); r != nil {
						h.add(Rec{Kind: "env.keeptimers", K: neutraliseTimerStop(r)})
					}
				}()
			}
			last := 0
			for i := range sp.Events {
				e := sp.Events[i]
				if e.AtMs > last {
					last = e.AtMs
				}
				wg.Add(1)
				go func(idx int) {
					defer wg.Done()
					defer func() {
						if r := recover(); r != nil {
							h.add(Rec{Kind: "ev.panic", K: idx, Aux: fmt.Sprint(r)})
						}
					}()
					if d := time.Until(h.t0.Add(time.Duration(e.AtMs) * time.Millisecond)); d > 0 {
						time.Sleep(d)
					}
					h.add(Rec{Kind: "ev.start", K: idx, Aux: e.Kind})
					ok := false
					switch e.Kind {
					case "upresp":
						if u := h.up(e.K); u != nil {
							ok = u.respond(e.Status, e.Data, e.Trailers)
						}
					case "upreset":
						if u := h.up(e.K); u != nil {
							ok = u.remoteReset(reasons[e.Reason])
						}
					case "downreset":
						if sp.Oneway {
							p.conn.closeEvent()
						} else {
							h.down.clientReset(reasons[e.Reason])
						}
						ok = true
					case "terminate":
						h.mu.Lock()
						var hd api.StreamReceiverFilterHandler
						if len(h.handlers) > 0 {
							hd = h.handlers[0]
						}
						h.mu.Unlock()
						if hd != nil {
							ok = hd.TerminateStream(e.Code)
						}
					}
					aux := "ignored"
					if ok {
						aux = "delivered"
					}
					h.add(Rec{Kind: "ev.end", K: idx, Aux: aux})
				}(i)
			}
			gms, _ := sp.effectiveTimeouts()
			waitMs := last
			if gms < 5000 && gms+10 > waitMs {
				waitMs = gms + 10
			}
			waitMs += sp.settleMs()
			select {
			case <-done[k]:
				res.Done = true
			case <-time.After(time.Until(h.t0.Add(time.Duration(waitMs) * time.Millisecond))):
			}
			wg.Wait()
			res.WaitedMs = int(time.Since(h.t0).Milliseconds()) + 2 // (rounded up: the timeline keeps what happened before this)
			res.Gauge = listenerGauge(h.listener) - bases[k].g0
			if bases[k].hasRes {
				r1, _ := retriesCur(h.cluster)
				res.Res, res.HasRes = r1-bases[k].r0, true
				res.Req = requestsCur(h.cluster) - bases[k].q0
			}
			if pr, ok := p.rf.(interface{ ActiveStreamSize() int }); ok {
				res.Active = pr.ActiveStreamSize()
			}
			h.mu.Lock()
			res.Rec = append([]Rec(nil), h.rec...)
			h.mu.Unlock()
			if !res.Done {
				// unblock the parked worker so that the sequence goes on (not part of the observation)
				p.conn.closeEvent()
				select {
				case <-done[k]:
				case <-time.After(400 * time.Millisecond):
				}
			}
		}(k)
	}
	// the one goroutine that drives every request of the sequence
	seqDone := make(chan struct{})
	go func() {
		defer close(seqDone)
		var prevPtr interface{}
		prevAddr := ""
		for k := range j.specs {
			p := preps[k]
			h := p.h
			sctx, hdr, data, trailers, sender := buildRequest(h, p.connCtx)
			h.t0 = time.Now()
			close(start[k])
			func() {
				defer func() {
					if r := recover(); r != nil {
						j.res[k].Panicked = fmt.Sprint(r)
						h.add(Rec{Kind: "worker.panic", Aux: fmt.Sprint(r)})
					}
				}()
				receiver := p.conn.ssc.cb.NewStreamDetect(sctx, sender, nil)
				recvs[k].Store(receiver)
				addr := fmt.Sprintf("%p", receiver)
				j.recycled[k] = prevAddr != "" && addr == prevAddr
				prevAddr, prevPtr = addr, receiver
				receiver.OnReceive(sctx, hdr, data, trailers)
				h.add(Rec{Kind: "worker.done"})
			}()
			// the object of the request that has just ended: given back (zeroed)?  then it must still be all zero
			if prevPtr != nil {
				if gb, dirty := dirtyFields(prevPtr); gb {
					j.dirty[k] = dirty
				}
			}
			close(done[k])
		}
	}()
	select {
	case <-seqDone:
	case <-time.After(20 * time.Second):
		for _, r := range j.res {
			if r.Err == "" && !r.Done {
				r.Err = "sequence did not finish"
			}
		}
		return
	}
	ctrl.Wait()
	for k := range j.specs {
		histReg.Delete(preps[k].h.id)
	}
}

// first requests: every terminal path; second requests: each MOSN-generated outcome (and a plain answer)
func genSeqs(run *Run) [][]*Spec {
	ok200 := func(data, trailers bool) *Spec {
		return &Spec{Route: "forward", NHosts: 2, RouteGlobalMs: 3 * slot, Events: []Event{{AtMs: 15, Kind: "upresp", K: 0, Status: 200, Data: data, Trailers: trailers}}}
	}
	firsts := []*Spec{
		ok200(false, false), // headers only, clean path: the object is given back inside appendHeaders
		ok200(true, false),
		ok200(true, true),
		{Route: "forward", NHosts: 2, RouteGlobalMs: 3 * slot, HasData: true, Events: []Event{{AtMs: 15, Kind: "upresp", K: 0, Status: 404}}},
		{Route: "direct", DirectCode: 418, NHosts: 2, RouteGlobalMs: 3 * slot},
		{Route: "directbody", DirectCode: 200, NHosts: 2, RouteGlobalMs: 3 * slot},
		{Route: "forward", NoMatch: true, NHosts: 2, RouteGlobalMs: 3 * slot},
		{Route: "forward", NHosts: 0, RouteGlobalMs: 3 * slot},
		{Route: "forward", NHosts: 2, RouteGlobalMs: 3 * slot, Filters: []FilterSpec{{Phase: 0, Code: 403, Verdicts: []string{"hijack"}}, {Send: true}}},
		{Route: "forward", NHosts: 2, RouteGlobalMs: 3 * slot, Oneway: true},
		{Route: "forward", NHosts: 2, RouteGlobalMs: 3 * slot, Events: []Event{{AtMs: 15, Kind: "upreset", K: 0, Reason: "remotereset"}}},
		{Route: "forward", NHosts: 2, RouteGlobalMs: 3 * slot, Pool: []string{"overflow"}},
		{Route: "forward", NHosts: 2, RouteGlobalMs: 50},
		{Flavour: "http", Route: "forward", NHosts: 2, RouteGlobalMs: 3 * slot, RetryOn: true, NumRetries: 1,
			Events: []Event{{AtMs: 15, Kind: "upresp", K: 0, Status: 503}, {AtMs: 45, Kind: "upresp", K: 1, Status: 200}}},
	}
	seconds := []*Spec{
		{Route: "forward", NHosts: 2, RouteGlobalMs: 3 * slot, Pool: []string{"overflow"}},
		{Route: "forward", NHosts: 2, RouteGlobalMs: 3 * slot, Pool: []string{"connfail", "connfail", "connfail", "connfail"}},
		{Route: "forward", NHosts: 2, RouteGlobalMs: 3 * slot, Events: []Event{{AtMs: 15, Kind: "upreset", K: 0, Reason: "remotereset"}}},
		{Route: "forward", NHosts: 2, RouteGlobalMs: 4 * slot, RouteTryMs: 30, RetryOn: true, NumRetries: 1, Events: []Event{{AtMs: 60, Kind: "upresp", K: 1, Status: 200}}},
		{Route: "forward", NHosts: 2, RouteGlobalMs: 60},
		{Route: "forward", NHosts: 2, RouteGlobalMs: 3 * slot, HasData: true, Events: []Event{{AtMs: 15, Kind: "upresp", K: 0, Status: 200, Data: true}}},
		{Route: "forward", NHosts: 2, RouteGlobalMs: 3 * slot, Filters: []FilterSpec{{Phase: 1, Code: 403, Verdicts: []string{"hijack"}}}},
	}
	var out [][]*Spec
	for _, a := range firsts {
		for _, b := range seconds {
			out = append(out, []*Spec{a, b})
		}
	}
	// the LATE TIMER: request A's per-try / global timer functions run after A has ended and B has taken A's object (Timer.Stop too
	// late), in every phase of B: while a receive filter of B is busy (no upstream request yet), while B waits for its upstream,
	// while B's response is held by a send filter, after B has ended
	for _, try := range []int{30, 45, 70, 100} {
		a := &Spec{Route: "forward", NHosts: 2, RouteGlobalMs: 3 * slot, RouteTryMs: try, RetryOn: true, NumRetries: 1, KeepTimers: true,
			Events: []Event{{AtMs: 15, Kind: "upresp", K: 0, Status: 200}}}
		bs := []*Spec{
			{Route: "forward", NHosts: 2, RouteGlobalMs: 400, Events: []Event{{AtMs: 70, Kind: "upresp", K: 0, Status: 200}}},
			{Route: "forward", NHosts: 2, RouteGlobalMs: 400, Filters: []FilterSpec{{Phase: 0, DelayMs: 25}}, Events: []Event{{AtMs: 70, Kind: "upresp", K: 0, Status: 200, Data: true}}},
			{Route: "forward", NHosts: 2, RouteGlobalMs: 400, Filters: []FilterSpec{{Send: true, DelayMs: 30}}, Events: []Event{{AtMs: 40, Kind: "upresp", K: 0, Status: 200}}},
		}
		for _, b := range bs {
			out = append(out, []*Spec{a, b})
		}
		out = append(out, []*Spec{a, bs[0], ok200(false, false)})
	}
	// longer sequences: the object goes round several times
	r := run.R
	for i := 0; i < run.N(10, 80); i++ {
		var s []*Spec
		for k := 0; k < 3+r.Intn(2); k++ {
			if r.Intn(2) == 0 {
				s = append(s, firsts[r.Intn(len(firsts))])
			} else {
				s = append(s, seconds[r.Intn(len(seconds))])
			}
		}
		out = append(out, s)
	}
	return out
}

// run the sequences (each request also alone), evaluate, write the pair shard; returns the jobs so that the caller's finder runs
// on every request as well
func seqPart(run *Run, idBase int, finder func(*Run, *histJob)) int {
	seqs := genSeqs(run)
	jobs := make([]*seqJob, len(seqs))
	for i, s := range seqs {
		jobs[i] = &seqJob{id: idBase + i*16, specs: s}
	}
	runJobs := func(js []*seqJob) {
		var wg sync.WaitGroup
		sem := make(chan struct{}, 24)
		for _, j := range js {
			wg.Add(1)
			sem <- struct{}{}
			go func(j *seqJob) {
				defer wg.Done()
				runSeq(j)
				<-sem
			}(j)
			time.Sleep(300 * time.Microsecond)
		}
		wg.Wait()
	}
	runJobs(jobs)
	// every request alone: in a process of its own (this binary, command `probe`), so that no other request has ever touched the
	// buffer pool it takes its objects from
	aloneOf := map[string]*Result{}
	var keys []string
	specOf := map[string]*Spec{}
	for _, j := range jobs {
		for _, sp := range j.specs {
			key := specKey(sp)
			if _, seen := specOf[key]; !seen {
				specOf[key] = sp
				keys = append(keys, key)
			}
		}
	}
	{
		var wg sync.WaitGroup
		var mu sync.Mutex
		sem := make(chan struct{}, 8)
		for _, key := range keys {
			wg.Add(1)
			sem <- struct{}{}
			go func(key string) {
				defer wg.Done()
				defer func() { <-sem }()
				r := runAloneProc(specOf[key])
				mu.Lock()
				aloneOf[key] = r
				mu.Unlock()
			}(key)
		}
		wg.Wait()
	}
	late := func(r *Result) bool { return r == nil || r.Err != "" || maxLateMs(r) > 25 }
	psh := run.NewShard(shardHeader, "paircase", "pair_mismatches proxy_src")
	for _, j := range jobs {
		for _, r := range j.res {
			if r.Err != "" {
				fmt.Println("harness error:", r.Err)
				return 2
			}
		}
		// a difference between "in the sequence" and "alone" must repeat (same-slot races, a stalled process)
		for attempt := 0; attempt < 2; attempt++ {
			differs := false
			for k, sp := range j.specs {
				a := aloneOf[specKey(sp)]
				if late(j.res[k]) || late(a) || obsKey(j.res[k]) != obsKey(a) {
					differs = true
				}
			}
			if !differs {
				break
			}
			run.Sum.Distribution["seq:rerun"]++
			again := &seqJob{id: j.id + 2000000*(attempt+1), specs: j.specs}
			runSeq(again)
			bad := false
			for _, r := range again.res {
				if r.Err != "" {
					bad = true
				}
			}
			if bad {
				break
			}
			for _, sp := range j.specs {
				if one := runAloneProc(sp); one != nil {
					aloneOf[specKey(sp)+fmt.Sprint("#", j.id)] = one
				}
			}
			j.res, j.recycled = again.res, again.recycled
			for k := range j.dirty {
				if len(again.dirty[k]) > 0 {
					j.dirty[k] = again.dirty[k]
				}
			}
		}
		for k, sp := range j.specs {
			r := j.res[k]
			if late(r) {
				run.Sum.Distribution["seq:dropped-stalled"]++
				continue
			}
			replay := map[string]interface{}{"sequence": j.specs, "request": k, "observed": r.Rec, "done": r.Done, "gauge": r.Gauge,
				"ran_on_the_object_of_the_previous_request": j.recycled[k]}
			if j.recycled[k] {
				run.Sum.Distribution["seq:object-reused"]++
			}
			if len(j.dirty[k]) > 0 {
				run.Fail("C03:write-into-recycled-stream", fmt.Sprintf("request %d of the sequence: after its worker returned, the downStream object it had given back to the buffer pool (zeroed there) has non-zero field(s) %v: assigned after give-back; the next stream that takes the object starts with them", k, j.dirty[k]), replay)
			}
			a := aloneOf[specKey(sp)+fmt.Sprint("#", j.id)]
			if a == nil {
				a = aloneOf[specKey(sp)]
			}
			if !late(a) && obsKey(r) != obsKey(a) {
				replay["observed_alone"] = a.Rec
				if k > 0 && j.specs[k-1].KeepTimers && run.Prop == "C02" {
					run.Fail("C02:stale-timer-of-previous-request-acts-on-recycled-stream", fmt.Sprintf("request %d of the sequence ran on the recycled object of request %d (%v), whose timer functions ran after it had ended (Timer.Stop too late): it was observed differently from the same request run alone: in the sequence %s; alone %s - the time-out of the other request was executed on it", k, k-1, j.recycled[k], shortOutcome(r), shortOutcome(a)), replay)
				}
				run.Fail("C03:outcome-depends-on-previous-request", fmt.Sprintf("request %d of the sequence (on the recycled object of its predecessor: %v) was observed differently from the same request run alone: in the sequence %s; alone %s", k, j.recycled[k], shortOutcome(r), shortOutcome(a)), replay)
			}
			finder(run, &histJob{id: j.id + k, spec: sp, res: r})
			run.Count(fmt.Sprintf("seq:%d:%d", j.id, k), true, "sequence")
		}
		for k := 0; k+1 < len(j.specs); k++ {
			if late(j.res[k]) || late(j.res[k+1]) {
				continue
			}
			psh.Add(fmt.Sprintf("{| pp_first := %s;\n    pp_second := %s |}", coqCase(j.res[k]), coqCase(j.res[k+1])),
				map[string]interface{}{"first": j.specs[k], "second": j.specs[k+1], "rec_first": j.res[k].Rec, "rec_second": j.res[k+1].Rec, "recycled": j.recycled[k+1]})
		}
	}
	psh.Close()
	return 0
}

// the request alone, in a fresh process: nil when the run could not be had
func runAloneProc(sp *Spec) *Result {
	b, err := json.Marshal(sp)
	if err != nil {
		return nil
	}
	ctx, cancel := context.WithTimeout(context.Background(), 30*time.Second)
	defer cancel()
	out, err := exec.CommandContext(ctx, os.Args[0], "probe", string(b)).Output()
	if err != nil && len(out) == 0 {
		return nil
	}
	lines := strings.Split(strings.TrimSpace(string(out)), "\n")
	r := &Result{}
	if json.Unmarshal([]byte(lines[len(lines)-1]), r) != nil || r.Err != "" {
		return nil
	}
	r.Spec = sp
	return r
}

func shortOutcome(r *Result) string {
	ri := replyOf(r)
	return fmt.Sprintf("reply=%s/%d complete=%v reset=%v attempts=%d done=%v gauge=%+d", ri.FirstKind, ri.FirstCode, ri.Complete, ri.Reset, countNew(r), r.Done, r.Gauge)
}
