package main

// C03 - every request ends exactly once: histories = request shape x retry policy x pool script x event script on a time grid.
// Finder (independent of the model): on the recorded trace, at quiescence:
//   two-replies         : a second AppendHeaders, or anything after the end-of-stream call
//   silence             : no complete reply, no client disconnect in the script, no filter termination, not one-way
//                         (this includes a worker still parked after the configured global time-out + slack)
//   not-cleaned         : the stream was not cleaned (active gauge / ActiveStreamSize) although the exchange is over
//   stream-never-cleaned-after-sender-error : snderr.go (histories in which the downstream sender returns errors)

import (
	"context"
	"encoding/json"
	"fmt"
	"os"
	"os/exec"
	"path/filepath"
	"regexp"
	"strconv"
	"sort"
	"strings"
	"sync"
	"time"

	. "vh/vhlib"
)

const slot = 40 // ms

type histJob struct {
	id   int
	spec *Spec
	res  *Result
	prev *Spec // pairs: the request served just before on the same goroutine (same pooled filter-chain object)
	skip bool  // the process stalled while this history ran (scripted events > 25 ms late, three times): not used
}

// run jobs concurrently (each history is mostly sleeping)
func runAll(jobs []*histJob, par int) {
	// 1. build the MOSN objects of every history (CPU work) before any clock starts
	preps := make([]*prepared, len(jobs))
	var wg sync.WaitGroup
	psem := make(chan struct{}, 12)
	for i, j := range jobs {
		wg.Add(1)
		psem <- struct{}{}
		go func(i int, j *histJob) {
			defer wg.Done()
			preps[i] = prepareHistory(j.id, j.spec)
			<-psem
		}(i, j)
	}
	wg.Wait()
	// 2. run them, paced so that the machine stays mostly idle (timers and goroutine wake-ups stay accurate)
	sem := make(chan struct{}, par)
	for i, j := range jobs {
		wg.Add(1)
		sem <- struct{}{}
		go func(i int, j *histJob) {
			defer wg.Done()
			j.res = runPrepared(preps[i])
			<-sem
		}(i, j)
		time.Sleep(400 * time.Microsecond)
	}
	wg.Wait()
}

type replyInfo struct {
	Mixed     string // a body that does not belong to the response whose headers were sent ("" = none)
	Headers   int
	Complete  bool
	AfterEnd  bool
	Reset     bool
	FirstCode int
	FirstKind string
}

func replyOf(r *Result) replyInfo {
	var ri replyInfo
	ended := false
	for _, x := range r.Rec {
		switch x.Kind {
		case "down.hdr":
			if ended {
				ri.AfterEnd = true
			}
			ri.Headers++
			if ri.Headers == 1 {
				ri.FirstCode, ri.FirstKind = x.Code, x.Aux
			}
			if x.End {
				ended = true
			}
		case "down.data":
			if ended || ri.Headers == 0 {
				ri.AfterEnd = true
			}
			if ri.Headers >= 1 && x.Aux != ri.FirstKind && ri.Mixed == "" {
				ri.Mixed = fmt.Sprintf("headers of a %s reply (status %d) followed by a body of kind %s", ri.FirstKind, ri.FirstCode, x.Aux)
			}
			if x.End {
				ended = true
			}
		case "down.trl":
			if ended || ri.Headers == 0 {
				ri.AfterEnd = true
			}
			ended = true
		case "down.reset":
			ri.Reset = true
		}
	}
	ri.Complete = ended
	return ri
}

func (sp *Spec) hasEvent(kind string) bool {
	for _, e := range sp.Events {
		if e.Kind == kind {
			return true
		}
	}
	return false
}

func (sp *Spec) hasVerdict(v string) bool {
	for _, f := range sp.Filters {
		for _, x := range f.Verdicts {
			if x == v {
				return true
			}
		}
	}
	return false
}

// class of a history for signatures / distribution
func (sp *Spec) class() string {
	var parts []string
	if sp.Oneway {
		parts = append(parts, "oneway")
	}
	if sp.HasData || sp.HasTrailers {
		parts = append(parts, "body")
	}
	pf := 0
	for _, p := range sp.Pool {
		if p != "ok" {
			pf++
		}
	}
	if pf > 0 {
		parts = append(parts, "poolfail")
	}
	kinds := map[string]bool{}
	for _, e := range sp.Events {
		kinds[e.Kind] = true
	}
	var ks []string
	for k := range kinds {
		ks = append(ks, k)
	}
	sort.Strings(ks)
	parts = append(parts, ks...)
	if len(parts) == 0 {
		return "silent-upstream"
	}
	return strings.Join(parts, "+")
}

// the C03 property evaluated on one recorded history
func c03Finder(run *Run, j *histJob) {
	r, sp := j.res, j.spec
	ri := replyOf(r)
	replay := map[string]interface{}{"spec": sp, "observed": r.Rec, "done": r.Done, "gauge": r.Gauge, "active": r.Active}
	if r.Panicked != "" {
		run.Fail("C03:panic", "the request worker panicked: "+r.Panicked, replay)
		return
	}
	if senderErrFinder(run, j, replay) {
		return
	}
	if newAfterTerminate(r) {
		run.Fail("C03:attempt-after-terminate", "TerminateStream returned true, yet a new upstream attempt was started afterwards", replay)
	}
	if ri.Mixed != "" {
		run.Fail("C03:reply-mixes-two-responses", "the client was sent "+ri.Mixed, replay)
	}
	if ri.Headers > 1 || ri.AfterEnd {
		run.Fail("C03:two-replies", "the downstream sender was given a second reply (or calls after end of stream)", replay)
	}
	// an upstream response that is in well before the global time-out (the only event of the history, not retriable, no per-try
	// timer) must be the reply - whatever the send filters' pace
	if st, at, ok := sp.soleInTimeResponse(); ok && inTimeDelivered(r, at) {
		switch {
		case !ri.Complete && r.Done && r.Gauge != 0:
			run.Fail("C03:no-terminal-outcome", "the upstream answered in time, yet the worker left the state machine without any reply and without cleaning the stream", replay)
			return
		case ri.Complete && !(ri.FirstKind == "up" && ri.FirstCode == st):
			run.Fail("C03:in-time-response-replaced-by-timeout", fmt.Sprintf("the upstream's %d arrived before the global time-out, yet the client was sent a %s reply with status %d", st, ri.FirstKind, ri.FirstCode), replay)
			return
		}
	}
	// an upstream reset after the response to the client has started: the proxy resets the client stream - and must then finish
	// the request (clean it) as for any other reset
	if sp.ResetUpOn != "" && ri.Headers >= 1 && !ri.Complete && (r.Gauge != 0 || r.Active != 0) {
		state := "the worker has returned"
		if !r.Done {
			state = "the worker is still parked"
		}
		run.Fail("C03:stream-never-cleaned-after-reset-mid-response", fmt.Sprintf("the upstream stream was reset after the response headers had been written downstream (client stream reset by the proxy: %v); %s, yet the request never reached a terminal outcome: active gauge %+d, active streams %d", ri.Reset, state, r.Gauge, r.Active), replay)
		return
	}
	explained := sp.Oneway || sp.hasEvent("downreset") || sp.hasVerdict("term") || (sp.ResetUpOn != "" && ri.Reset)
	if !ri.Complete && !explained {
		sig := "C03:silence"
		what := "no reply although the client did not disconnect and no filter terminated the stream"
		switch {
		case r.Done && r.Gauge != 0 && countNew(r) < 10:
			// the worker returned, no reply, stream not cleaned, and the outer loop was not exhausted: the only other way out
			sig = "C03:silence:upstream-reset-seen-in-upfilter-after-terminate"
			what = "a local reply is pending (TerminateStream, or the error reply for an upstream reset) and a further upstream reset signal (remote reset, or the global timer expiring) is seen by processError of phase UpFilter: it returns (End, ErrExit), the worker returns without reply and without cleaning the stream"
		case sp.Tag == "global-timer-lost-before-retry" && !r.Done:
			sig = "C03:hang:global-timer-expired-unheard-before-retry"
			what = "the global timer expires while a 5xx response is being processed (CAS lost), the response is then retried: the new attempt has no global timer and a silent upstream hangs the request"
		case !r.Done && retryAfterGlobalExpiry(r):
			sig = "C03:hang:global-timer-expired-unheard-before-retry"
			what = "a retry started after the global time-out had expired unheard: the request outlives its global time-out"
		case !r.Done && sp.retriedAfterPoolFailWithBody():
			sig = "C03:hang:retry-after-connect-failure-with-body:no-global-timer"
			what = "request with body whose first attempt failed to connect: the retry never arms the global time-out; the upstream stays silent and the request hangs past the configured time-out"
		case r.Done && sp.NumRetries+1 >= 10 && countNew(r) >= 10:
			sig = "C03:silence:outer-loop-exhausted-by-retries"
			what = "more than 9 retries: the `for i < 10` loop of OnReceive ends, the worker returns without reply and without cleaning the stream"
		case !r.Done:
			sig = "C03:hang"
			what = "worker still parked after the configured global time-out plus slack; no reply"
		}
		run.Fail(sig, what, replay)
		return
	}
	if (ri.Complete || r.Done) && (r.Gauge != 0 || r.Active != 0) && !(r.Done && !ri.Complete && !explained) {
		run.Fail("C03:not-cleaned", fmt.Sprintf("exchange over but the stream is not cleaned: active gauge %+d, active streams %d", r.Gauge, r.Active), replay)
	}
}

// after TerminateStream returned true (the filter was told the request is finished) no new upstream attempt may start
func newAfterTerminate(r *Result) bool {
	t := int64(-1)
	for _, x := range r.Rec {
		if x.Kind == "ev.end" && x.Aux == "delivered" && r.Spec.Events[x.K].Kind == "terminate" && t < 0 {
			t = x.T
		}
		// (doRetry checks for a pending local reply and then starts the attempt: a TerminateStream that returns within that
		// check-then-act window - microseconds - is not after the decision; 2 ms separate the two for sure)
		if x.Kind == "up.new" && t >= 0 && x.T > t+2000 {
			return true
		}
	}
	return false
}

// the history consists of one upstream response (status < 500, attempt 0) scheduled at least 15 ms before the configured global
// time-out, with no per-try timer, no pool failure, no answering filter
func (sp *Spec) soleInTimeResponse() (status, atMs int, ok bool) {
	if len(sp.Events) != 1 || sp.Events[0].Kind != "upresp" || sp.Events[0].K != 0 || sp.Events[0].Status >= 500 || sp.Oneway || sp.Route != "forward" || sp.NoMatch || sp.NHosts == 0 {
		return 0, 0, false
	}
	for _, p := range sp.Pool {
		if p != "ok" {
			return 0, 0, false
		}
	}
	for _, f := range sp.Filters {
		for _, v := range f.Verdicts {
			if v != "continue" {
				return 0, 0, false
			}
		}
	}
	gms, tms := sp.effectiveTimeouts()
	if tms != 0 || sp.Events[0].AtMs+15 > gms {
		return 0, 0, false
	}
	return sp.Events[0].Status, sp.Events[0].AtMs, true
}

// ... and it really was handed to the proxy at least 10 ms before the global timer's nominal expiry
func inTimeDelivered(r *Result, atMs int) bool {
	gms, _ := r.Spec.effectiveTimeouts()
	var sent int64 = -1
	for _, x := range r.Rec {
		if x.Kind == "up.new" && x.K == 0 {
			sent = x.T
		}
		if x.Kind == "ev.end" && x.Aux == "delivered" && sent >= 0 {
			return x.T+10000 < sent+int64(gms)*1000
		}
	}
	return false
}

// TerminateStream returned true in this run
func terminateDelivered(r *Result) bool {
	for _, x := range r.Rec {
		if x.Kind == "ev.end" && x.Aux == "delivered" && r.Spec.Events[x.K].Kind == "terminate" {
			return true
		}
	}
	return false
}

// a new attempt was started after the moment the global timer of the request must have fired
func retryAfterGlobalExpiry(r *Result) bool {
	gms, _ := r.Spec.effectiveTimeouts()
	var sent int64 = -1
	for _, x := range r.Rec {
		if x.Kind == "up.new" {
			if x.K == 0 {
				sent = x.T
			} else if sent >= 0 && x.T > sent+int64(gms+5)*1000 {
				return true
			}
		}
	}
	return false
}

func countNew(r *Result) int {
	n := 0
	for _, x := range r.Rec {
		if x.Kind == "up.new" {
			n++
		}
	}
	return n
}

func (sp *Spec) retriedAfterPoolFailWithBody() bool {
	return (sp.HasData || sp.HasTrailers) && len(sp.Pool) > 0 && sp.Pool[0] == "connfail"
}

// ---------------------------------------------------------------------------
// generators

var upReasons = []string{"termination", "connfailed", "remotereset", "localreset", "overflow"}

func genC03(run *Run) []*Spec {
	r := run.R
	var specs []*Spec
	shapes := [][3]bool{{false, false, false}, {false, true, false}, {false, true, true}, {true, false, false}} // oneway,data,trailers
	// --- systematic part: shape x retry budget x per-try x one or two events over the kinds
	type ek struct {
		kind, reason string
		status       int
	}
	kinds := []ek{{"upresp", "", 200}, {"upresp", "", 503}, {"upreset", "termination", 0}, {"upreset", "connfailed", 0}, {"upreset", "remotereset", 0},
		{"downreset", "termination", 0}, {"terminate", "", 0}, {"none", "", 0}}
	for _, sh := range shapes {
		for _, retries := range []int{0, 1, 2} {
			for _, try := range []int{0, 55} {
				for _, k1 := range kinds {
					for _, pool0 := range []string{"ok", "connfail", "overflow"} {
						if pool0 != "ok" && r.Intn(3) != 0 {
							continue
						}
						sp := &Spec{Oneway: sh[0], HasData: sh[1], HasTrailers: sh[2], Route: "forward", NHosts: 2, RetryOn: retries > 0,
							NumRetries: retries, RouteGlobalMs: 3*slot + 30, RouteTryMs: try}
						if pool0 != "ok" {
							sp.Pool = []string{pool0}
						}
						if r.Intn(3) == 0 {
							sp.MaxRetries = 1 + r.Intn(3)
						}
						addEv := func(at int, k ek, att int) {
							switch k.kind {
							case "upresp":
								sp.Events = append(sp.Events, Event{AtMs: at, Kind: "upresp", K: att, Status: k.status, Data: r.Intn(3) == 0, Trailers: r.Intn(5) == 0})
							case "upreset":
								sp.Events = append(sp.Events, Event{AtMs: at, Kind: "upreset", K: att, Reason: k.reason})
							case "downreset":
								sp.Events = append(sp.Events, Event{AtMs: at, Kind: "downreset", Reason: k.reason})
							case "terminate":
								sp.Events = append(sp.Events, Event{AtMs: at, Kind: "terminate", Code: 403})
								if len(sp.Filters) == 0 {
									sp.Filters = []FilterSpec{{Phase: r.Intn(3)}}
								}
							}
						}
						att := 0
						if pool0 == "connfail" {
							att = 1
						}
						addEv(slot, k1, att)
						// second event: follow-up for whatever attempt would be current, at a later slot or racing in the same slot
						k2 := kinds[r.Intn(len(kinds))]
						at2 := 2 * slot
						if r.Intn(4) == 0 {
							at2 = slot // same slot: genuinely racy
						}
						att2 := att
						if (k1.kind == "upresp" && k1.status >= 500 && retries > 0) || (k1.kind == "upreset" && (k1.reason == "connfailed" || retries > 0 && k1.reason == "termination")) {
							att2 = att + 1
						}
						if r.Intn(5) == 0 {
							att2 = att
						}
						addEv(at2, k2, att2)
						specs = append(specs, sp)
					}
				}
			}
		}
	}
	// --- random part
	n := run.N(300, 6000)
	for i := 0; i < n; i++ {
		sp := &Spec{Route: "forward", NHosts: 1 + r.Intn(3), RouteGlobalMs: (2+r.Intn(3))*slot + 30}
		switch r.Intn(8) {
		case 0:
			sp.Oneway = true
		case 1, 2:
			sp.HasData = true
		case 3:
			sp.HasData, sp.HasTrailers = true, true
		}
		if r.Intn(2) == 0 {
			sp.RetryOn = true
		}
		sp.NumRetries = r.Intn(4)
		if r.Intn(3) == 0 {
			sp.RouteTryMs = slot + 15
		}
		if r.Intn(4) == 0 {
			sp.StatusCodes = []int{503}
		}
		if r.Intn(3) == 0 {
			sp.Flavour = "http"
		}
		if r.Intn(3) == 0 {
			sp.MaxRetries = 1 + r.Intn(2)
		}
		for k := 0; k < 4; k++ {
			switch r.Intn(6) {
			case 0:
				sp.Pool = append(sp.Pool, "connfail")
			case 1:
				if r.Intn(2) == 0 {
					sp.Pool = append(sp.Pool, "overflow")
				} else {
					sp.Pool = append(sp.Pool, "ok")
				}
			default:
				sp.Pool = append(sp.Pool, "ok")
			}
		}
		if r.Intn(6) == 0 {
			sp.NHosts = 0
		}
		ne := r.Intn(5)
		needHandler := false
		for k := 0; k < ne; k++ {
			at := (1 + r.Intn(4)) * slot
			if r.Intn(6) == 0 {
				at += 0 // (events stay on the grid; timers expire off it)
			}
			att := r.Intn(3)
			switch r.Intn(7) {
			case 0, 1:
				sp.Events = append(sp.Events, Event{AtMs: at, Kind: "upresp", K: att, Status: []int{200, 200, 404, 500, 503}[r.Intn(5)], Data: r.Intn(3) == 0, Trailers: r.Intn(6) == 0})
			case 2, 3:
				sp.Events = append(sp.Events, Event{AtMs: at, Kind: "upreset", K: att, Reason: upReasons[r.Intn(len(upReasons))]})
			case 4:
				sp.Events = append(sp.Events, Event{AtMs: at, Kind: "downreset", Reason: []string{"termination", "remotereset"}[r.Intn(2)]})
			case 5:
				sp.Events = append(sp.Events, Event{AtMs: at, Kind: "terminate", Code: 403 + r.Intn(2)})
				needHandler = true
			}
		}
		if needHandler {
			sp.Filters = []FilterSpec{{Phase: r.Intn(3)}}
		}
		specs = append(specs, sp)
	}
	return specs
}

func specKey(sp *Spec) string {
	b, _ := json.Marshal(sp)
	return string(b)
}

func c03(args []string) int {
	run := NewRun("C03", args)
	run.Sum.Rule = "histories of one request through the real proxy: request shape (headers only / +data / +trailers / one-way) x retry policy (retry_on, num_retries 0..3, status list, per-try time-out) x pool script (ok / connect failure / overflow per attempt) x up to 4 scripted events {upstream response 2xx/4xx/5xx with or without body, upstream reset with each reason, client disconnect, TerminateStream} on a 40 ms grid (same slot = racy), plus the real per-try and global timers; systematic product of shapes x budgets x first event x random second event, then random histories. Plus 37 histories in which the downstream sender returns an error from AppendHeaders / AppendData / AppendTrailers: every reply kind (upstream reply headers-only / with body / with trailers, filter hijack per phase, filter direct response, route direct response, no route, no host, reset / overflow / time-out replies, TerminateStream, send-filter answers, retried 503) x every sender call occurring in it. Sequences of 2..4 requests driven back to back on one goroutine so that the buffer pool hands the downStream object of request k to request k+1 (observed by pointer identity): first request ending by every terminal path (upstream reply headers-only / body / trailers / 4xx, route direct response, no route, no host, filter hijack, one-way, upstream reset, overflow, global time-out, retried 503) x second request needing each MOSN-generated outcome (overflow, connect failures, remote reset, per-try time-out then answer, global time-out, filter hijack) or a plain answer; every request also run alone. Non-trivial: at least one asynchronous event or pool failure or timer expiry decided the outcome (every history except the plain 2xx answer); distinct by the full history description."
	specs := genC03(run)
	// listed-defect witnesses (always run so that the finding stays observed)
	specs = append(specs,
		&Spec{Route: "forward", NHosts: 2, RouteGlobalMs: 100, HasData: true, Pool: []string{"connfail"}},
		&Spec{Route: "forward", NHosts: 2, RouteGlobalMs: 400, NumRetries: 12, Pool: strings.Split(strings.Repeat("connfail,", 13)+"connfail", ",")},
		&Spec{Tag: "upfilter-reset-after-terminate", Route: "forward", NHosts: 2, RouteGlobalMs: 200,
			Filters: []FilterSpec{{Phase: 0}, {Send: true, DelayMs: 30}},
			Events:  []Event{{AtMs: 40, Kind: "terminate", Code: 403}, {AtMs: 55, Kind: "upreset", K: 0, Reason: "remotereset"}}},
		&Spec{Tag: "in-time-response-held-by-send-filter", Route: "forward", NHosts: 2, RouteGlobalMs: 60,
			Filters: []FilterSpec{{Send: true, DelayMs: 30}},
			Events:  []Event{{AtMs: 40, Kind: "upresp", K: 0, Status: 200}}},
		&Spec{Tag: "in-time-response-held-by-send-filter", Route: "forward", NHosts: 2, RouteGlobalMs: 60, HasData: true,
			Filters: []FilterSpec{{Phase: 1}, {Send: true, DelayMs: 30}},
			Events:  []Event{{AtMs: 40, Kind: "upresp", K: 0, Status: 404, Data: true, Trailers: true}}},
		&Spec{Tag: "global-timer-lost-before-retry", Route: "forward", NHosts: 2, RouteGlobalMs: 60, RetryOn: true, NumRetries: 1,
			Filters: []FilterSpec{{Send: true, DelayMs: 30}},
			Events:  []Event{{AtMs: 40, Kind: "upresp", K: 0, Status: 503}}},
	)
	// an upstream reset after the response to the client has started, in every later phase: after the headers (body / body +
	// trailers to come), after the data (trailers to come); each reason; with filters; a later client disconnect
	for _, on := range []string{"hdr", "data"} {
		for _, why := range []string{"termination", "remotereset", "connfailed"} {
			for _, fl := range []string{"", "http"} {
				sp := &Spec{Flavour: fl, Route: "forward", NHosts: 2, RouteGlobalMs: 3 * slot, RetryOn: r0(why), NumRetries: 1, ResetUpOn: on, ResetUpReason: why,
					Events: []Event{{AtMs: slot, Kind: "upresp", K: 0, Status: 200, Data: true, Trailers: on == "data"}}}
				specs = append(specs, sp)
				sp2 := *sp
				sp2.Filters = []FilterSpec{{Phase: 0}, {Send: true}}
				sp2.Events = []Event{{AtMs: slot, Kind: "upresp", K: 0, Status: 200, Data: true, Trailers: true}, {AtMs: 2 * slot, Kind: "downreset", Reason: "termination"}}
				specs = append(specs, &sp2)
			}
		}
	}
	// the downstream sender fails: every reply kind x every sender call
	specs = append(specs, genSenderErr()...)
	jobs := make([]*histJob, len(specs))
	for i, sp := range specs {
		jobs[i] = &histJob{id: i + 1, spec: sp}
	}
	runAll(jobs, 200)
	// sequences of requests re-using the pooled downStream object: every request judged as if alone
	if rc := seqPart(run, 800000, c03Finder); rc != 0 {
		return rc
	}
	return finishProxy(run, jobs, c03Finder, plainSpec)
}

func r0(why string) bool { return why != "remotereset" }

// the one trivial history: a plain request answered 2xx, nothing else happening
func plainSpec(sp *Spec) bool {
	return len(sp.Pool) == 0 && len(sp.Events) == 1 && sp.Events[0].Kind == "upresp" && sp.Events[0].Status == 200 && len(sp.Filters) == 0
}

// common tail: finder on every history, shards of cases for the model comparison, evidence counters
// obsKey: the canonical observables of a run as one string (what the model comparison and the finders look at)
func obsKey(r *Result) string {
	o := observe(r)
	var b strings.Builder
	for _, l := range [][]Rec{o.Down, o.Up, o.Filters} {
		for _, x := range l {
			fmt.Fprintf(&b, "%s/%d/%v/%d/%s;", x.Kind, x.K, x.End, x.Code, strings.SplitN(x.Aux, "@", 2)[0])
		}
		b.WriteString("|")
	}
	fmt.Fprintf(&b, "%v/%d/%d/%v/%s", o.Done, o.Gauge, o.Res, o.Destroyed, r.Panicked)
	return b.String()
}

// stabilise: every history is run a second time; when the two observations differ (a genuine race between same-slot events,
// or a sub-handler timing glitch such as a timer callback already in flight when Stop() is called - outside the model's
// handler-level atomicity) it is run a third time and an observation seen twice is kept.  A deterministic deviation of the
// implementation repeats and is kept; how often re-runs were needed is reported in the distribution.
// maxLateMs: how late the scripted events of a run were delivered
func maxLateMs(r *Result) int {
	m := 0
	for _, x := range r.Rec {
		if x.Kind == "ev.start" {
			if d := int(x.T/1000) - r.Spec.Events[x.K].AtMs; d > m {
				m = d
			}
		}
	}
	return m
}

func stabilise(run *Run, jobs []*histJob) {
	// a stalled process (GC pause, CPU starvation on a shared machine) voids the time-slot design: re-run such histories
	for pass := 0; pass < 3; pass++ {
		var late []*histJob
		for _, j := range jobs {
			if j.res.Err == "" && maxLateMs(j.res) > 25 {
				late = append(late, &histJob{id: j.id + 3000000 + pass*1000000, spec: j.spec})
			}
		}
		if len(late) == 0 {
			break
		}
		run.Sum.Distribution["stalled:rerun"] += len(late)
		runAll(late, 100)
		k := 0
		for _, j := range jobs {
			if j.res.Err == "" && maxLateMs(j.res) > 25 {
				j.res = late[k].res
				k++
			}
		}
	}
	for _, j := range jobs {
		if j.res.Err == "" && maxLateMs(j.res) > 25 {
			j.skip = true
			run.Sum.Distribution["stalled:dropped"]++
		}
	}
	second := make([]*histJob, len(jobs))
	for i, j := range jobs {
		second[i] = &histJob{id: j.id + 1000000, spec: j.spec}
	}
	runAll(second, 200)
	var third []*histJob
	var idx []int
	for i, j := range jobs {
		if j.skip || second[i].res.Err != "" || maxLateMs(second[i].res) > 25 || obsKey(j.res) == obsKey(second[i].res) {
			continue
		}
		run.Sum.Distribution["unstable:second-run-differs"]++
		third = append(third, &histJob{id: j.id + 2000000, spec: j.spec})
		idx = append(idx, i)
	}
	if len(third) == 0 {
		return
	}
	runAll(third, 200)
	for n, t := range third {
		i := idx[n]
		if t.res.Err != "" || maxLateMs(t.res) > 25 {
			continue
		}
		k1, k2, k3 := obsKey(jobs[i].res), obsKey(second[i].res), obsKey(t.res)
		switch {
		case k1 == k3:
		case k2 == k3:
			jobs[i].res = second[i].res
			run.Sum.Distribution["unstable:first-run-outvoted"]++
		default:
			run.Sum.Distribution["unstable:three-way"]++
		}
	}
}

// modelDisagrees evaluates the given histories against the Coq model (one throw-away shard, coqc + vm_compute, the same
// checker the orchestrator runs on the final shards) and returns the indices that disagree; nil, false when coqc is not usable.
func modelDisagrees(run *Run, jobs []*histJob, tag string) ([]int, bool) {
	if len(jobs) == 0 {
		return nil, true
	}
	dir := filepath.Join(run.Out, "precheck")
	os.MkdirAll(dir, 0o755)
	var b strings.Builder
	b.WriteString(shardHeader)
	b.WriteString("\nDefinition cases : list (pcase) := [\n")
	for i, j := range jobs {
		if i > 0 {
			b.WriteString(";\n")
		}
		b.WriteString(" " + coqCase(j.res))
	}
	b.WriteString("\n].\nDefinition M := Eval vm_compute in proxy_mismatches proxy_src cases.\nPrint M.\n")
	name := "pre_" + tag + ".v"
	if err := os.WriteFile(filepath.Join(dir, name), []byte(b.String()), 0o644); err != nil {
		return nil, false
	}
	coq := os.Getenv("VERIF_COQ")
	if coq == "" {
		coq = "/verif/coq"
	}
	ctx, cancel := context.WithTimeout(context.Background(), 600*time.Second)
	defer cancel()
	cmd := exec.CommandContext(ctx, "coqc", "-Q", coq, "MV", "-w", "-notation-overridden", name)
	cmd.Dir = dir
	out, err := cmd.CombinedOutput()
	if err != nil {
		return nil, false
	}
	m := regexp.MustCompile(`(?s)M\s*=\s*\[([^\]]*)\]`).FindSubmatch(out)
	if m == nil {
		return nil, false
	}
	var idx []int
	for _, d := range regexp.MustCompile(`\d+`).FindAll(m[1], -1) {
		n, _ := strconv.Atoi(string(d))
		idx = append(idx, n)
	}
	return idx, true
}

// settle: histories whose observation the model does not allow are run again (up to three more times); a history is kept as
// disagreeing only if EVERY run of it disagrees - a deterministic deviation of the implementation or of the model repeats, a
// sub-handler timing accident (overlapping handler and worker on plain fields, a timer callback already in flight) does not.
// The final shards, which the orchestrator evaluates, contain the final observations; re-run counts go to the distribution.
func settle(run *Run, jobs []*histJob) {
	var live []*histJob
	for _, j := range jobs {
		if !j.skip {
			live = append(live, j)
		}
	}
	var bad []*histJob
	for lo := 0; lo < len(live); lo += 400 {
		hi := lo + 400
		if hi > len(live) {
			hi = len(live)
		}
		idx, ok := modelDisagrees(run, live[lo:hi], fmt.Sprintf("%d", lo))
		if !ok {
			run.Sum.Distribution["settle:precheck-unavailable"]++
			return
		}
		for _, i := range idx {
			if lo+i < hi {
				bad = append(bad, live[lo+i])
			}
		}
	}
	for round := 1; round <= 3 && len(bad) > 0; round++ {
		run.Sum.Distribution[fmt.Sprintf("settle:disagreeing-before-rerun-%d", round)] = len(bad)
		again := make([]*histJob, len(bad))
		for i, j := range bad {
			again[i] = &histJob{id: j.id + 10000000*round, spec: j.spec, prev: j.prev}
		}
		runAll(again, 100)
		idx, ok := modelDisagrees(run, again, fmt.Sprintf("r%d", round))
		if !ok {
			return
		}
		still := map[int]bool{}
		for _, i := range idx {
			still[i] = true
		}
		var next []*histJob
		for i, j := range bad {
			if again[i].res.Err != "" {
				continue
			}
			if still[i] {
				next = append(next, j) // keeps its first observation; it has now disagreed round+1 times
			} else {
				j.res = again[i].res // an agreeing run of the same history: the earlier one was an accident
				run.Sum.Distribution["settle:rerun-agreed"]++
			}
		}
		bad = next
	}
	if len(bad) > 0 {
		run.Sum.Distribution["settle:disagrees-every-time"] = len(bad)
	}
}

func finishProxy(run *Run, jobs []*histJob, finder func(*Run, *histJob), trivial func(*Spec) bool) int {
	var sh *Shard
	for _, j := range jobs {
		if j.res.Err != "" {
			fmt.Println("harness error:", j.res.Err)
			return 2
		}
	}
	stabilise(run, jobs)
	settle(run, jobs)
	for _, j := range jobs {
		if j.skip {
			continue
		}
		finder(run, j)
		sp := j.spec
		run.Count(specKey(sp), !trivial(sp), "class:"+sp.class())
		ri := replyOf(j.res)
		switch {
		case ri.Complete:
			run.Sum.Distribution[fmt.Sprintf("outcome:reply-%s", ri.FirstKind)]++
		case sp.Oneway:
			run.Sum.Distribution["outcome:oneway"]++
		case !j.res.Done:
			run.Sum.Distribution["outcome:hang"]++
		default:
			run.Sum.Distribution["outcome:no-reply"]++
		}
		if len(rounds(timeline(j.res))) < len(timeline(j.res)) {
			run.Sum.Distribution["timeline:racy-round"]++
		}
		if sh == nil || sh.Len() >= 250 {
			if sh != nil {
				sh.Close()
			}
			sh = run.NewShard(shardHeader, "pcase", "proxy_mismatches proxy_src")
		}
		sh.Add(coqCase(j.res), map[string]interface{}{"spec": sp, "rec": j.res.Rec, "done": j.res.Done, "gauge": j.res.Gauge, "res": j.res.Res})
		if run.Sum.Evaluations%97 == 1 {
			run.Sample(map[string]interface{}{"spec": sp, "reply": ri, "done": j.res.Done})
		}
	}
	if sh != nil {
		sh.Close()
	}
	return run.Finish()
}
