package main

// One history = one request driven through the real proxy with an event script placed on a millisecond timeline.

import (
	"strings"
	"context"
	"fmt"
	"sort"
	"strconv"
	"sync"
	"time"

	"mosn.io/api"
	"mosn.io/mosn/pkg/protocol"
	"mosn.io/mosn/pkg/stream"
	"mosn.io/mosn/pkg/types"
	"mosn.io/pkg/buffer"
	"mosn.io/pkg/variable"
)

type FilterSpec struct {
	Send     bool     `json:"send,omitempty"`
	Phase    int      `json:"phase,omitempty"` // receive filters: 0 BeforeRoute 1 AfterRoute 2 AfterChooseHost
	Code     int      `json:"code,omitempty"`
	Verdicts []string `json:"verdicts,omitempty"` // by invocation number; "continue" beyond the list
	DelayMs  int      `json:"delay_ms,omitempty"` // sleep inside the filter call (first invocation only)
}

type Event struct {
	AtMs     int    `json:"at"`
	Kind     string `json:"kind"` // upresp upreset downreset terminate
	K        int    `json:"k,omitempty"`
	Reason   string `json:"reason,omitempty"`
	Status   int    `json:"status,omitempty"`
	Data     bool   `json:"data,omitempty"`
	Trailers bool   `json:"trailers,omitempty"`
	Code     int    `json:"code,omitempty"`
}

type Spec struct {
	Tag         string       `json:"tag,omitempty"` // set on the dedicated witness histories of listed findings
	GroupKey    string       `json:"group,omitempty"` // requests with the same key share one cluster (its circuit breaker)
	Oneway      bool         `json:"oneway,omitempty"`
	HasData     bool         `json:"data,omitempty"`
	HasTrailers bool         `json:"trailers,omitempty"`
	NoMatch     bool         `json:"nomatch,omitempty"` // request does not match the route
	Route       string       `json:"route"`             // forward direct directbody nocluster
	DirectCode  int          `json:"direct_code,omitempty"`
	NHosts      int          `json:"nhosts"`
	RetryOn     bool         `json:"retry_on,omitempty"`
	NumRetries  int          `json:"num_retries,omitempty"`
	StatusCodes []int        `json:"status_codes,omitempty"`
	MaxRetries  int          `json:"max_retries,omitempty"`
	MaxRequests int          `json:"max_requests,omitempty"` // Requests breaker of the cluster (the scripted pool accounts like the real pools)
	RouteHeaderActions bool  `json:"route_header_actions,omitempty"` // the route appends x-tag: a to the request (append=true)
	OrigTag     bool         `json:"orig_tag,omitempty"`    // the request already carries x-tag: orig
	Filters     []FilterSpec `json:"filters,omitempty"`
	Pool        []string     `json:"pool,omitempty"`
	PoolDelayMs int          `json:"pool_delay_ms,omitempty"` // the first NewStream call takes this long (e.g. a connect attempt)
	Events      []Event      `json:"events,omitempty"`
	// the downstream sender (stream layer) returns an error from these calls: "hdr" (AppendHeaders), "data", "trl"
	SenderErr   []string     `json:"sender_err,omitempty"`
	// built-in filter histories (builtin.go): which route the request addresses, its body length, extra request headers
	// after this many NewStream calls (attempts) every host of the cluster fails its health check: a later host selection - the
	// re-attempt of a retry - finds no healthy host
	HostsGoneAfter int    `json:"hosts_gone_after,omitempty"`
	// sequences (seq.go): Timer.Stop comes too late for this request's timers - the runtime has already started the timer functions -
	// so they run at their time although the request is over by then (emulated by making Stop a no-op on the armed timers)
	KeepTimers bool            `json:"keep_timers,omitempty"`
	// the request carries proxy_disable_retry = true (as the HTTP/2 server stream sets it for a streamed body)
	DisableRetry bool          `json:"disable_retry,omitempty"`
	// the upstream stream layer resets the current attempt's stream (reason ResetUpReason) right after the proxy has written the
	// response headers ("hdr") / the response data ("data") downstream: a reset after the response to the client has started
	ResetUpOn     string `json:"reset_up_on,omitempty"`
	ResetUpReason string `json:"reset_up_reason,omitempty"`
	Flavour  string            `json:"flavour,omitempty"` // "" = xprotocol-like (status read from the response headers); "http" = status read from the context variable
	Service  string            `json:"service,omitempty"`
	BodyLen  int               `json:"body_len,omitempty"`
	Headers  map[string]string `json:"headers,omitempty"`
	// time-out sources (ms; 0 = absent): route config, request headers, protocol-supplied variables
	RouteGlobalMs int `json:"route_global_ms,omitempty"`
	RouteTryMs    int `json:"route_try_ms,omitempty"`
	HdrGlobalMs   int `json:"hdr_global_ms,omitempty"`
	HdrTryMs      int `json:"hdr_try_ms,omitempty"`
	VarGlobalMs   int `json:"var_global_ms,omitempty"`
	VarTryMs      int `json:"var_try_ms,omitempty"`
}

// effective time-outs as the property text requires them: protocol-supplied, else request headers, else route, else default;
// per-try disabled when >= global.  (Independent of the Go code and of the Coq model: used by the finder.)
func (sp *Spec) effectiveTimeouts() (globalMs, tryMs int) {
	pick := func(v, h, r int) int {
		if v > 0 {
			return v
		}
		if h > 0 {
			return h
		}
		return r
	}
	globalMs = pick(sp.VarGlobalMs, sp.HdrGlobalMs, sp.RouteGlobalMs)
	tryMs = pick(sp.VarTryMs, sp.HdrTryMs, sp.RouteTryMs)
	if globalMs == 0 {
		globalMs = 60000
	}
	if tryMs >= globalMs {
		tryMs = 0
	}
	return
}

type Result struct {
	Spec      *Spec  `json:"spec"`
	Rec       []Rec  `json:"rec"`
	Done      bool   `json:"done"`  // worker goroutine returned before the deadline
	Gauge     int64  `json:"gauge"` // listener DownstreamRequestActive after - before
	Res       int64  `json:"res"`   // Retries().Cur() after - before
	Req       int64  `json:"req"`   // Requests().Cur() after - before (scripted pool accounting)
	HasRes    bool   `json:"has_res"`
	Active    int    `json:"active"` // proxy.ActiveStreamSize()
	Err       string `json:"err,omitempty"`
	WaitedMs  int    `json:"waited_ms"`
	Panicked  string `json:"panicked,omitempty"`
	histRef   *hist
	readFiltr api.ReadFilter
}

var reasons = map[string]types.StreamResetReason{
	"termination": types.StreamConnectionTermination, "connfailed": types.StreamConnectionFailed, "localreset": types.StreamLocalReset,
	"overflow": types.StreamOverflow, "remotereset": types.StreamRemoteReset, "upstreamreset": types.UpstreamReset,
}

type prepared struct {
	h       *hist
	rf      api.ReadFilter
	conn    *fakeConn
	connCtx context.Context
	err     error
}

// prepareHistory builds the per-history MOSN objects (cluster, router, filter config, proxy); runPrepared drives the request.
func prepareHistory(id int, sp *Spec) *prepared {
	initEnv()
	h := &hist{id: id, spec: sp, recvCall: make([]int, len(sp.Filters)), sendCall: make([]int, len(sp.Filters)), slept: make([]bool, len(sp.Filters))}
	p := &prepared{h: h}
	p.rf, p.conn, p.connCtx, p.err = setupHistory(h)
	return p
}

func runHistory(id int, sp *Spec) *Result { return runPrepared(prepareHistory(id, sp)) }

// buildRequest: stream-level context (as the stream layer's ContextManager builds it), headers, body, trailers, response sender
func buildRequest(h *hist, connCtx context.Context) (context.Context, api.HeaderMap, buffer.IoBuffer, api.HeaderMap, types.StreamSender) {
	sp := h.spec
	cm := stream.NewContextManager(connCtx)
	cm.Next()
	sctx := cm.Get()
	_ = variable.Set(sctx, types.VariableStreamID, uint64(h.id))
	_ = variable.Set(sctx, types.VariableDownStreamProtocol, sp.proto())
	if sp.VarGlobalMs > 0 {
		_ = variable.SetString(sctx, types.VarProxyGlobalTimeout, strconv.Itoa(sp.VarGlobalMs))
	}
	if sp.VarTryMs > 0 {
		_ = variable.SetString(sctx, types.VarProxyTryTimeout, strconv.Itoa(sp.VarTryMs))
	}
	if sp.DisableRetry {
		_ = variable.Set(sctx, types.VarProxyDisableRetry, true)
	}
	hm := map[string]string{"service": "svc"}
	if sp.NoMatch {
		hm["service"] = "other"
	}
	if sp.Service != "" {
		hm["service"] = sp.Service
	}
	for k, v := range sp.Headers {
		hm[k] = v
	}
	if sp.OrigTag {
		hm["x-tag"] = "orig"
	}
	if sp.HdrGlobalMs > 0 {
		hm[types.HeaderGlobalTimeout] = strconv.Itoa(sp.HdrGlobalMs)
	} else if sp.HdrGlobalMs < 0 {
		hm[types.HeaderGlobalTimeout] = "soon" // present but not an integer
	}
	if sp.HdrTryMs > 0 {
		hm[types.HeaderTryTimeout] = strconv.Itoa(sp.HdrTryMs)
	} else if sp.HdrTryMs < 0 {
		hm[types.HeaderTryTimeout] = "1.5s"
	}
	hdr := protocol.CommonHeader(hm)
	var data buffer.IoBuffer
	var trailers api.HeaderMap
	if sp.HasData {
		data = buffer.NewIoBufferString("request-body")
		if sp.BodyLen > 0 {
			data = buffer.NewIoBufferString(strings.Repeat("x", sp.BodyLen))
		}
	}
	if sp.HasTrailers {
		trailers = protocol.CommonHeader(map[string]string{"x-rt": "1"})
	}
	h.down = &downSender{h: h}
	var sender types.StreamSender
	if !sp.Oneway {
		sender = h.down
	}
	return sctx, hdr, data, trailers, sender
}

// runInline drives a request that completes inside OnReceive (local reply, one-way, or ended by a short time-out) on the CALLING
// goroutine, so that two of them run back to back without a scheduling point in between (same P: sync.Pool hands the pooled
// filter-chain object of the first to the second)
func runInline(p *prepared) (res *Result) {
	h, sp := p.h, p.h.spec
	res = &Result{Spec: sp}
	if p.err != nil {
		res.Err = p.err.Error()
		return
	}
	g0 := listenerGauge(h.listener)
	r0, hasRes := retriesCur(h.cluster)
	sctx, hdr, data, trailers, sender := buildRequest(h, p.connCtx)
	h.t0 = time.Now()
	func() {
		defer func() {
			if r := recover(); r != nil {
				res.Panicked = fmt.Sprint(r)
			}
		}()
		receiver := p.conn.ssc.cb.NewStreamDetect(sctx, sender, nil)
		receiver.OnReceive(sctx, hdr, data, trailers)
		h.add(Rec{Kind: "worker.done"})
		res.Done = true
	}()
	res.WaitedMs = int(time.Since(h.t0).Milliseconds())
	res.Gauge = listenerGauge(h.listener) - g0
	if hasRes {
		r1, _ := retriesCur(h.cluster)
		res.Res, res.HasRes = r1-r0, true
	}
	if pr, ok := p.rf.(interface{ ActiveStreamSize() int }); ok {
		res.Active = pr.ActiveStreamSize()
	}
	h.mu.Lock()
	res.Rec = append([]Rec(nil), h.rec...)
	h.mu.Unlock()
	histReg.Delete(h.id)
	return
}

func runPrepared(p *prepared) (res *Result) {
	h, sp := p.h, p.h.spec
	rf, conn, connCtx, err := p.rf, p.conn, p.connCtx, p.err
	res = &Result{Spec: sp}
	res.histRef = h
	if err != nil {
		res.Err = err.Error()
		return
	}
	res.readFiltr = rf
	g0 := listenerGauge(h.listener)
	r0, hasRes := retriesCur(h.cluster)
	q0 := requestsCur(h.cluster)
	sctx, hdr, data, trailers, sender := buildRequest(h, connCtx)
	h.t0 = time.Now()
	receiver := conn.ssc.cb.NewStreamDetect(sctx, sender, nil)
	done := make(chan struct{})
	go func() {
		defer func() {
			if r := recover(); r != nil {
				res.Panicked = fmt.Sprint(r)
				h.add(Rec{Kind: "worker.panic", Aux: fmt.Sprint(r)})
			}
			close(done)
		}()
		receiver.OnReceive(sctx, hdr, data, trailers)
		h.add(Rec{Kind: "worker.done"})
	}()

	// event script
	var wg sync.WaitGroup
	last := 0
	for i := range sp.Events {
		e := sp.Events[i]
		if e.AtMs > last {
			last = e.AtMs
		}
		wg.Add(1)
		go func(idx int) {
			defer wg.Done()
			defer func() {
				if r := recover(); r != nil {
					h.add(Rec{Kind: "ev.panic", K: idx, Aux: fmt.Sprint(r)})
				}
			}()
			if d := time.Until(h.t0.Add(time.Duration(e.AtMs) * time.Millisecond)); d > 0 {
				time.Sleep(d)
			}
			h.add(Rec{Kind: "ev.start", K: idx, Aux: e.Kind})
			ok := false
			switch e.Kind {
			case "upresp":
				if u := h.up(e.K); u != nil {
					ok = u.respond(e.Status, e.Data, e.Trailers)
				}
			case "upreset":
				if u := h.up(e.K); u != nil {
					ok = u.remoteReset(reasons[e.Reason])
				}
			case "downreset":
				if sp.Oneway {
					// no server stream to reset for a one-way request: the connection goes away (proxy.onDownstreamEvent
					// resets the streams that are still active)
					conn.closeEvent()
				} else {
					h.down.clientReset(reasons[e.Reason])
				}
				ok = true
			case "terminate":
				h.mu.Lock()
				var hd api.StreamReceiverFilterHandler
				if len(h.handlers) > 0 {
					hd = h.handlers[0]
				}
				h.mu.Unlock()
				if hd != nil {
					ok = hd.TerminateStream(e.Code)
				}
			}
			aux := "ignored"
			if ok {
				aux = "delivered"
			}
			h.add(Rec{Kind: "ev.end", K: idx, Aux: aux})
		}(i)
	}
	gms, _ := sp.effectiveTimeouts()
	// the longest legitimate silence: last scripted event, then every retry may wait for a per-try time-out; keep it simple and
	// generous: the request must be over `slack` after max(last event, global time-out as the property text defines it)
	waitMs := last
	if gms < 5000 && gms+10 > waitMs {
		waitMs = gms + 10
	}
	waitMs += sp.settleMs()
	select {
	case <-done:
		res.Done = true
	case <-time.After(time.Until(h.t0.Add(time.Duration(waitMs) * time.Millisecond))):
	}
	wg.Wait()
	if res.Done {
		// late timer callbacks (already stopped or no-ops) have nothing left to do; give recorded goroutines a moment
		time.Sleep(2 * time.Millisecond)
	}
	res.WaitedMs = int(time.Since(h.t0).Milliseconds())
	res.Gauge = listenerGauge(h.listener) - g0
	if hasRes {
		r1, _ := retriesCur(h.cluster)
		res.Res = r1 - r0
		res.HasRes = true
		res.Req = requestsCur(h.cluster) - q0
	}
	if p, ok := rf.(interface{ ActiveStreamSize() int }); ok {
		res.Active = p.ActiveStreamSize()
	}
	h.mu.Lock()
	res.Rec = append([]Rec(nil), h.rec...)
	h.mu.Unlock()
	if !res.Done {
		// unblock the parked worker so that goroutines do not pile up (not part of the observation)
		conn.closeEvent()
		select {
		case <-done:
		case <-time.After(300 * time.Millisecond):
		}
	}
	histReg.Delete(h.id)
	return
}

func (sp *Spec) senderFails(call string) bool {
	for _, c := range sp.SenderErr {
		if c == call {
			return true
		}
	}
	return false
}

func (sp *Spec) settleMs() int {
	// retries sleep 10 ms each and may each wait for a per-try time-out; allow for them plus scheduling slack
	n := sp.NumRetries
	if n < 3 {
		n = 3
	}
	_, tms := sp.effectiveTimeouts()
	return 60 + (14+tms)*(n+1)
}

func (h *hist) up(k int) *upStream {
	h.mu.Lock()
	defer h.mu.Unlock()
	if k < len(h.ups) {
		return h.ups[k]
	}
	return nil
}

// ---------------------------------------------------------------------------
// canonical observables of a recorded history

type Obs struct {
	Down      []Rec
	Up        []Rec
	Filters   []Rec
	Done      bool
	Gauge     int64
	Res       int64
	Destroyed bool
}

func observe(r *Result) Obs {
	o := Obs{Done: r.Done, Gauge: r.Gauge, Res: r.Res}
	for _, x := range r.Rec {
		switch x.Kind {
		case "down.hdr", "down.data", "down.trl", "down.reset":
			o.Down = append(o.Down, x)
		case "up.new", "up.hdr", "up.data", "up.trl", "up.reset":
			o.Up = append(o.Up, x)
		case "filter.recv", "filter.send":
			o.Filters = append(o.Filters, x)
		case "filter.destroy":
			o.Destroyed = true
		}
	}
	return o
}

// timeline item for the model: an environment event with its (observed or computed) time in microseconds
type Item struct {
	T    int64 // earliest time (microseconds)
	Hi   int64 // latest time: observed items have Hi == T; timer expiries are computed and may be late
	Term string // Coq term of type item
	Desc string
}

func sortItems(items []Item) {
	sort.SliceStable(items, func(i, j int) bool { return items[i].T < items[j].T })
}
