package main

// C14, built-in deny filters: ip_access, payload_limit, fault_inject (abort) - the REAL filters, created by their REAL factories
// through the stream-filter manager (one factory set per listener configuration), inside the real proxy with the scripted
// upstream, so that "forwarded" is observed.  A history = several requests, one after the other, each on a stream of its own
// created from the same factories, on routes with / without per-route filter configuration, with body sizes around the limits.
// Finder (the property itself, independent of the model):
//   C14:builtin:oversized-request-forwarded          body over the effective limit (route override, else listener), yet sent upstream
//   C14:builtin:denied-request-forwarded             same for ip_access / fault_inject
//   C14:builtin:allowed-request-denied               nothing configured denies it, yet it was answered locally
//   C14:builtin:wrong-status                         denied with another status than the denying filter's
//   C14:builtin:decision-depends-on-earlier-request  the same request ALONE on a fresh factory gets another answer
// Model comparison: Model/ProxyBuiltin.v [serve_all] with the switches read from the source ([bcase_ok]).

import (
	"encoding/json"
	"fmt"
	"net"
	"reflect"
	"strings"
	"sync"
	"time"

	v2 "mosn.io/mosn/pkg/config/v2"
	_ "mosn.io/mosn/pkg/filter/stream/faultinject"
	_ "mosn.io/mosn/pkg/filter/stream/ipaccess"
	_ "mosn.io/mosn/pkg/filter/stream/payloadlimit"
	"mosn.io/mosn/pkg/router"
	"mosn.io/mosn/pkg/streamfilter"

	. "vh/vhlib"
)

type BPL struct {
	Max    int `json:"max"`
	Status int `json:"status"`
}
type BFI struct {
	Status   int  `json:"status"`
	Percent  int  `json:"percent"`            // 0 or 100 (other values are random by design)
	Upstream int  `json:"upstream"`           // -1: any cluster; else the cluster index the fault is restricted to
	Hdr      bool `json:"hdr,omitempty"`      // only requests carrying x-fault: 1
}
type BIPEntry struct {
	Deny  bool     `json:"deny,omitempty"`
	Addrs []string `json:"addrs"`
}
type BIP struct {
	DefaultDeny bool       `json:"default_deny,omitempty"`
	Entries     []BIPEntry `json:"entries"`
}
type BRoute struct {
	Cluster int  `json:"cluster"`
	PL      *BPL `json:"pl,omitempty"`
	FI      *BFI `json:"fi,omitempty"`
}
type BReq struct {
	Route    int    `json:"route"`
	Body     int    `json:"body"` // -1: no body
	FaultHdr bool   `json:"fault_hdr,omitempty"`
	Addr     string `json:"addr,omitempty"` // x-real-ip
}
type BSpec struct {
	IP     *BIP     `json:"ip,omitempty"`
	PL     *BPL     `json:"pl,omitempty"`
	FI     *BFI     `json:"fi,omitempty"`
	// further stream_filters entries of the SAME types with their own configuration, listed after the first three
	IP2    *BIP     `json:"ip2,omitempty"`
	PL2    *BPL     `json:"pl2,omitempty"`
	FI2    *BFI     `json:"fi2,omitempty"`
	Routes []BRoute `json:"routes"`
	Reqs   []BReq   `json:"reqs"`
}

func (bs *BSpec) multi() bool { return bs.IP2 != nil || bs.PL2 != nil || bs.FI2 != nil }

type BObs struct {
	Denied    bool   `json:"denied"`
	Status    int    `json:"status,omitempty"`
	Forwarded bool   `json:"forwarded"`
	Kind      string `json:"kind,omitempty"`
	Done      bool   `json:"done"`
	Err       string `json:"err,omitempty"`
	bad       bool   // the scripted upstream answer did not find its stream / the run stalled: observation void
}

func jsonKeyOf(v interface{}, field string) string {
	f, _ := reflect.TypeOf(v).FieldByName(field)
	return strings.Split(f.Tag.Get("json"), ",")[0]
}

func plMap(p *BPL) map[string]interface{} {
	return map[string]interface{}{jsonKeyOf(v2.StreamPayloadLimit{}, "MaxEntitySize"): p.Max, jsonKeyOf(v2.StreamPayloadLimit{}, "HttpStatus"): p.Status}
}
func fiMap(f *BFI, clusters []string) map[string]interface{} {
	m := map[string]interface{}{"abort": map[string]interface{}{"status": f.Status, "percentage": f.Percent}}
	if f.Upstream >= 0 {
		m["upstream_cluster"] = clusters[f.Upstream]
	}
	if f.Hdr {
		m["headers"] = []interface{}{map[string]interface{}{"name": "x-fault", "value": "1"}}
	}
	return m
}

var bsessMu sync.Mutex

// one listener configuration: clusters, router with the routes, stream filter factories; then the requests one by one
func runBuiltin(id int, bs *BSpec) ([]BObs, error) {
	initEnv()
	clusters := []string{fmt.Sprintf("bc%d_0", id), fmt.Sprintf("bc%d_1", id)}
	listener, rname := fmt.Sprintf("bl%d", id), fmt.Sprintf("br%d", id)
	for ci, cn := range clusters {
		cc := v2.Cluster{Name: cn, ClusterType: v2.SIMPLE_CLUSTER, LbType: v2.LB_ROUNDROBIN, MaxRequestPerConn: 1024, ConnBufferLimitBytes: 32768}
		hosts := []v2.Host{{HostConfig: v2.HostConfig{Address: fmt.Sprintf("10.%d.%d.%d:80", 128+(id>>8)&63, id&255, ci*4+1)}},
			{HostConfig: v2.HostConfig{Address: fmt.Sprintf("10.%d.%d.%d:80", 128+(id>>8)&63, id&255, ci*4+2)}}}
		if err := clusterMng.AddOrUpdateClusterAndHost(cc, hosts); err != nil {
			return nil, err
		}
	}
	var routers []v2.Router
	for i, r := range bs.Routes {
		rt := v2.Router{}
		rt.Match.Headers = []v2.HeaderMatcher{{Name: "service", Value: fmt.Sprintf("svc%d", i)}}
		rt.Route.ClusterName = clusters[r.Cluster]
		rt.Route.Timeout = 400 * time.Millisecond
		if r.PL != nil || r.FI != nil {
			rt.PerFilterConfig = map[string]interface{}{}
			if r.PL != nil {
				rt.PerFilterConfig[v2.PayloadLimit] = plMap(r.PL)
			}
			if r.FI != nil {
				rt.PerFilterConfig[v2.FaultStream] = fiMap(r.FI, clusters)
			}
		}
		routers = append(routers, rt)
	}
	rc := &v2.RouterConfiguration{
		RouterConfigurationConfig: v2.RouterConfigurationConfig{RouterConfigName: rname},
		VirtualHosts:              []v2.VirtualHost{{Name: "vh", Domains: []string{"*"}, Routers: routers}},
	}
	if err := router.GetRoutersMangerInstance().AddOrUpdateRouters(rc); err != nil {
		return nil, err
	}
	var fcfg []v2.Filter
	ipCfg := func(ip *BIP) v2.Filter {
		var ips []interface{}
		for _, e := range ip.Entries {
			act := "allow"
			if e.Deny {
				act = "deny"
			}
			addrs := make([]interface{}, len(e.Addrs))
			for i, a := range e.Addrs {
				addrs[i] = a
			}
			ips = append(ips, map[string]interface{}{"action": act, "addrs": addrs})
		}
		da := "allow"
		if ip.DefaultDeny {
			da = "deny"
		}
		return v2.Filter{Type: v2.IPAccess, Config: map[string]interface{}{"default_action": da, "header": "x-real-ip", "ips": ips}}
	}
	if bs.IP != nil {
		fcfg = append(fcfg, ipCfg(bs.IP))
	}
	if bs.PL != nil {
		fcfg = append(fcfg, v2.Filter{Type: v2.PayloadLimit, Config: plMap(bs.PL)})
	}
	if bs.FI != nil {
		fcfg = append(fcfg, v2.Filter{Type: v2.FaultStream, Config: fiMap(bs.FI, clusters)})
	}
	if bs.IP2 != nil {
		fcfg = append(fcfg, ipCfg(bs.IP2))
	}
	if bs.PL2 != nil {
		fcfg = append(fcfg, v2.Filter{Type: v2.PayloadLimit, Config: plMap(bs.PL2)})
	}
	if bs.FI2 != nil {
		fcfg = append(fcfg, v2.Filter{Type: v2.FaultStream, Config: fiMap(bs.FI2, clusters)})
	}
	if err := streamfilter.GetStreamFilterManager().AddOrUpdateStreamFilterConfig(listener, fcfg); err != nil {
		return nil, err
	}
	out := make([]BObs, len(bs.Reqs))
	for k, q := range bs.Reqs {
		sp := &Spec{Route: "forward", NHosts: 2, RouteGlobalMs: 400, Service: fmt.Sprintf("svc%d", q.Route), Headers: map[string]string{},
			Events: []Event{{AtMs: 25, Kind: "upresp", K: 0, Status: 200}}}
		if q.Body >= 0 {
			sp.HasData, sp.BodyLen = true, q.Body
		}
		if q.FaultHdr {
			sp.Headers["x-fault"] = "1"
		}
		if q.Addr != "" {
			sp.Headers["x-real-ip"] = q.Addr
		}
		h := &hist{id: id*32 + k, spec: sp}
		h.listener, h.cluster = listener, clusters[bs.Routes[q.Route].Cluster]
		p := &prepared{h: h}
		p.rf, p.conn, p.connCtx, p.err = newProxyConn(h, listener, rname)
		res := runPrepared(p)
		o := BObs{Done: res.Done, Err: res.Err}
		ignored := false
		if res.Panicked != "" {
			o.Err = "panic: " + res.Panicked
		}
		for _, x := range res.Rec {
			switch x.Kind {
			case "up.new":
				o.Forwarded = true
			case "down.hdr":
				o.Kind = x.Aux
				if x.Aux != "up" {
					o.Denied, o.Status = true, x.Code
				}
			case "ev.end":
				if x.Aux == "ignored" {
					ignored = true
				}
			}
		}
		// the scripted upstream answer came before the stream existed (stalled process): the request was then ended by the
		// global time-out, which says nothing about the filters - the history is run again
		if maxLateMs(res) > 25 || (o.Forwarded && (ignored || o.Kind == "")) {
			o.bad = true
		}
		out[k] = o
	}
	return out, nil
}

// ---------------------------------------------------------------------------
// the property, evaluated independently of the implementation and of the model

func ipMember(addrs []string, addr string) (member, parsable bool) {
	host, _, err := net.SplitHostPort(addr)
	if err != nil {
		host = addr
	}
	ip := net.ParseIP(host)
	if ip == nil {
		return false, false
	}
	for _, a := range addrs {
		if x := net.ParseIP(a); x != nil {
			if x.Equal(ip) {
				return true, true
			}
			continue
		}
		if _, n, err := net.ParseCIDR(a); err == nil && n.Contains(ip) {
			return true, true
		}
	}
	return false, true
}

// (denied, status, which filter entry): the chain runs the BeforeRoute entries (ip_access) in configured order, then the
// AfterRoute entries (payload_limit, fault_inject) in configured order; the first entry that denies answers
func expectBuiltin(bs *BSpec, q BReq) (bool, int, string) {
	r := bs.Routes[q.Route]
	for n, ip := range []*BIP{bs.IP, bs.IP2} {
		if ip == nil {
			continue
		}
		name := []string{"ip_access", "ip_access#2"}[n]
		decided := false
		denied := false
		for _, e := range ip.Entries {
			m, ok := ipMember(e.Addrs, q.Addr)
			if !ok || !m {
				continue
			}
			if e.Deny {
				denied = true
			}
			decided = true
			break
		}
		if denied || (!decided && ip.DefaultDeny) {
			return true, 403, name
		}
	}
	pl := func(e *BPL, name string) (bool, int, string) {
		if r.PL != nil {
			e = r.PL
		}
		if q.Body >= 0 && e.Max != 0 && bodyLen(q) > e.Max {
			return true, e.Status, name
		}
		return false, 0, ""
	}
	fi := func(e *BFI, name string) (bool, int, string) {
		if r.FI != nil {
			e = r.FI
		}
		if (e.Upstream < 0 || e.Upstream == r.Cluster) && (!e.Hdr || q.FaultHdr) && e.Percent >= 100 {
			return true, e.Status, name
		}
		return false, 0, ""
	}
	if bs.PL != nil {
		if d, st, w := pl(bs.PL, "payload_limit"); d {
			return d, st, w
		}
	}
	if bs.FI != nil {
		if d, st, w := fi(bs.FI, "fault_inject"); d {
			return d, st, w
		}
	}
	if bs.PL2 != nil {
		if d, st, w := pl(bs.PL2, "payload_limit#2"); d {
			return d, st, w
		}
	}
	if bs.FI2 != nil {
		if d, st, w := fi(bs.FI2, "fault_inject#2"); d {
			return d, st, w
		}
	}
	return false, 0, ""
}

func bodyLen(q BReq) int {
	if q.Body == 0 {
		return len("request-body")
	}
	return q.Body
}

// ---------------------------------------------------------------------------
// Coq terms

func coqPL(p *BPL) string {
	if p == nil {
		return "None"
	}
	return fmt.Sprintf("(Some {| pl_max := %s; pl_status := %s |})", CoqZ(int64(p.Max)), CoqZ(int64(p.Status)))
}
func coqFI(f *BFI) string {
	if f == nil {
		return "None"
	}
	up := "None"
	if f.Upstream >= 0 {
		up = fmt.Sprintf("(Some %s)", CoqNat(f.Upstream))
	}
	return fmt.Sprintf("(Some {| fi_status := %s; fi_always := %s; fi_upstream := %s; fi_hdr := %s |})", CoqZ(int64(f.Status)), CoqBool(f.Percent >= 100), up, CoqBool(f.Hdr))
}

func coqBCase(bs *BSpec, obs []BObs) string {
	ip := "None"
	if bs.IP != nil {
		var es []string
		for _, e := range bs.IP.Entries {
			if e.Deny {
				es = append(es, "IpDeny")
			} else {
				es = append(es, "IpAllow")
			}
		}
		ip = fmt.Sprintf("(Some {| ip_entries := %s; ip_default_deny := %s |})", CoqList(es), CoqBool(bs.IP.DefaultDeny))
	}
	var hs []string
	for k, q := range bs.Reqs {
		r := bs.Routes[q.Route]
		body := "None"
		if q.Body >= 0 {
			body = fmt.Sprintf("(Some %s)", CoqZ(int64(bodyLen(q))))
		}
		var ms []string
		if bs.IP != nil {
			for _, e := range bs.IP.Entries {
				m, ok := ipMember(e.Addrs, q.Addr)
				switch {
				case !ok:
					ms = append(ms, "None")
				default:
					ms = append(ms, fmt.Sprintf("(Some %s)", CoqBool(m)))
				}
			}
		}
		den := "None"
		if obs[k].Denied {
			den = fmt.Sprintf("(Some %s)", CoqZ(int64(obs[k].Status)))
		}
		hs = append(hs, fmt.Sprintf("({| r_cluster := %s; r_pl := %s; r_fi := %s |}, {| q_body := %s; q_fault_hdr := %s; q_member := %s |}, {| o_denied := %s; o_forwarded := %s |})",
			CoqNat(r.Cluster), coqPL(r.PL), coqFI(r.FI), body, CoqBool(q.FaultHdr), CoqList(ms), den, CoqBool(obs[k].Forwarded)))
	}
	return fmt.Sprintf("{| bc_l := {| l_ip := %s; l_pl := %s; l_fi := %s |};\n    bc_hist := %s |}", ip, coqPL(bs.PL), coqFI(bs.FI), CoqList(hs))
}

const builtinHeader = "From Coq Require Import List ZArith Bool.\nFrom MV Require Import Model.ProxyBuiltin Gen.ProxyBuiltinTokens.\nImport ListNotations.\nOpen Scope Z_scope.\n"

// ---------------------------------------------------------------------------
// generators

func genBuiltin(run *Run) []*BSpec {
	r := run.R
	var out []*BSpec
	pl := &BPL{Max: 10, Status: 413}
	// payload_limit alone: a route with a larger / unlimited / smaller override, then routes without; every order of two and
	// three requests with bodies around both limits
	overrides := []*BPL{{Max: 1000, Status: 413}, {Max: 0, Status: 413}, {Max: 4, Status: 429}, {Max: 20, Status: 0}}
	for _, ov := range overrides {
		routes := []BRoute{{Cluster: 0, PL: ov}, {Cluster: 0}, {Cluster: 1}}
		for _, first := range []BReq{{Route: 0, Body: 100}, {Route: 0, Body: 5}, {Route: 0, Body: -1}, {Route: 1, Body: 11}} {
			for _, second := range []BReq{{Route: 1, Body: 100}, {Route: 1, Body: 11}, {Route: 1, Body: 10}, {Route: 2, Body: 25}, {Route: 0, Body: 15}} {
				out = append(out, &BSpec{PL: pl, Routes: routes, Reqs: []BReq{first, second, {Route: 1, Body: 9}, {Route: 2, Body: 11}}})
			}
		}
	}
	// fault_inject alone: listener-level abort for requests with x-fault / for one cluster, a route that switches it off / on
	fi := &BFI{Status: 503, Percent: 100, Upstream: -1, Hdr: true}
	for _, ov := range []*BFI{{Status: 500, Percent: 0, Upstream: -1}, {Status: 418, Percent: 100, Upstream: -1}, {Status: 502, Percent: 100, Upstream: 1}} {
		routes := []BRoute{{Cluster: 0, FI: ov}, {Cluster: 0}, {Cluster: 1}}
		for _, order := range [][]int{{0, 1, 2}, {1, 0, 1}, {2, 0, 2}, {0, 0, 1}} {
			bs := &BSpec{FI: fi, Routes: routes}
			for _, ri := range order {
				bs.Reqs = append(bs.Reqs, BReq{Route: ri, Body: -1, FaultHdr: true}, BReq{Route: ri, Body: 5, FaultHdr: false})
			}
			out = append(out, bs)
		}
	}
	// ip_access: deny list, allow list, default deny
	ips := []*BIP{
		{Entries: []BIPEntry{{Deny: true, Addrs: []string{"10.1.0.0/16", "192.168.7.7"}}}},
		{DefaultDeny: true, Entries: []BIPEntry{{Addrs: []string{"10.2.0.0/16"}}}},
		{DefaultDeny: true, Entries: []BIPEntry{{Deny: true, Addrs: []string{"10.2.9.9"}}, {Addrs: []string{"10.2.0.0/16"}}}},
	}
	addrs := []string{"10.1.2.3", "10.2.3.4", "10.2.9.9", "192.168.7.7", "172.16.0.1", "10.1.2.3:4711", "not-an-ip"}
	// all three filters together, random listener / route configurations and request sequences
	n := run.N(40, 600)
	for i := 0; i < n; i++ {
		bs := &BSpec{}
		if r.Intn(3) != 0 {
			bs.IP = ips[r.Intn(len(ips))]
		}
		if r.Intn(4) != 0 {
			bs.PL = &BPL{Max: []int{0, 8, 10, 64}[r.Intn(4)], Status: []int{413, 400}[r.Intn(2)]}
		}
		if r.Intn(3) != 0 {
			bs.FI = &BFI{Status: []int{503, 500}[r.Intn(2)], Percent: []int{0, 100, 100}[r.Intn(3)], Upstream: r.Intn(3) - 1, Hdr: r.Intn(2) == 0}
		}
		nr := 2 + r.Intn(2)
		for k := 0; k < nr; k++ {
			rt := BRoute{Cluster: r.Intn(2)}
			if bs.PL != nil && r.Intn(2) == 0 {
				rt.PL = &BPL{Max: []int{0, 4, 16, 1000}[r.Intn(4)], Status: []int{413, 429}[r.Intn(2)]}
			}
			if bs.FI != nil && r.Intn(3) == 0 {
				rt.FI = &BFI{Status: 418, Percent: []int{0, 100}[r.Intn(2)], Upstream: r.Intn(3) - 1, Hdr: r.Intn(2) == 0}
			}
			bs.Routes = append(bs.Routes, rt)
		}
		nq := 2 + r.Intn(4)
		for k := 0; k < nq; k++ {
			q := BReq{Route: r.Intn(nr), Body: []int{-1, 3, 5, 9, 10, 11, 17, 70, 2000}[r.Intn(9)], FaultHdr: r.Intn(2) == 0}
			if bs.IP != nil {
				q.Addr = addrs[r.Intn(len(addrs))]
			}
			bs.Reqs = append(bs.Reqs, q)
		}
		out = append(out, bs)
	}
	// the same filter type listed twice (thrice) with different configurations: every entry decides with its own configuration
	{
		ipA := &BIP{Entries: []BIPEntry{{Deny: true, Addrs: []string{"1.1.1.1"}}}}
		ipB := &BIP{Entries: []BIPEntry{{Deny: true, Addrs: []string{"2.2.2.2", "10.9.0.0/16"}}}}
		two := []BRoute{{Cluster: 0}, {Cluster: 1}}
		mk := func(bs *BSpec, reqs ...BReq) {
			bs.Routes = two
			bs.Reqs = reqs
			out = append(out, bs)
		}
		mk(&BSpec{IP: ipA, IP2: ipB}, BReq{Route: 0, Body: 5, Addr: "2.2.2.2"}, BReq{Route: 1, Body: 5, Addr: "1.1.1.1"}, BReq{Route: 0, Body: -1, Addr: "3.3.3.3"}, BReq{Route: 1, Body: 5, Addr: "10.9.1.1"})
		mk(&BSpec{IP: ipB, IP2: ipA}, BReq{Route: 0, Body: 5, Addr: "1.1.1.1"}, BReq{Route: 0, Body: 5, Addr: "2.2.2.2"}, BReq{Route: 1, Body: 5, Addr: "4.4.4.4"})
		mk(&BSpec{PL: &BPL{Max: 100, Status: 413}, PL2: &BPL{Max: 10, Status: 429}}, BReq{Route: 0, Body: 50}, BReq{Route: 1, Body: 200}, BReq{Route: 0, Body: 5}, BReq{Route: 1, Body: 11})
		mk(&BSpec{PL: &BPL{Max: 0, Status: 413}, PL2: &BPL{Max: 20, Status: 400}}, BReq{Route: 0, Body: 50}, BReq{Route: 1, Body: 20})
		mk(&BSpec{FI: &BFI{Status: 503, Percent: 100, Upstream: 0}, FI2: &BFI{Status: 500, Percent: 100, Upstream: 1}}, BReq{Route: 0, Body: -1}, BReq{Route: 1, Body: -1}, BReq{Route: 1, Body: 5})
		mk(&BSpec{FI: &BFI{Status: 503, Percent: 0, Upstream: -1}, FI2: &BFI{Status: 418, Percent: 100, Upstream: -1, Hdr: true}}, BReq{Route: 0, Body: -1, FaultHdr: true}, BReq{Route: 1, Body: -1})
		mk(&BSpec{IP: ipA, PL: pl, FI: &BFI{Status: 503, Percent: 0, Upstream: -1}, IP2: ipB, PL2: &BPL{Max: 4, Status: 429}, FI2: &BFI{Status: 500, Percent: 100, Upstream: -1, Hdr: true}},
			BReq{Route: 0, Body: 3, Addr: "2.2.2.2"}, BReq{Route: 0, Body: 6, Addr: "5.5.5.5"}, BReq{Route: 1, Body: 3, Addr: "5.5.5.5", FaultHdr: true}, BReq{Route: 1, Body: 3, Addr: "5.5.5.5"}, BReq{Route: 0, Body: 50, Addr: "1.1.1.1"})
	}
	for _, ip := range ips {
		bs := &BSpec{IP: ip, PL: pl, Routes: []BRoute{{Cluster: 0}, {Cluster: 1, PL: &BPL{Max: 1000, Status: 413}}}}
		for _, a := range addrs {
			bs.Reqs = append(bs.Reqs, BReq{Route: r.Intn(2), Body: 50, Addr: a})
		}
		out = append(out, bs)
	}
	return out
}

type builtinJob struct {
	id   int
	bs   *BSpec
	obs  []BObs
	solo []BObs // request k alone on a fresh factory
	err  error
}

func (j *builtinJob) void() bool {
	for _, o := range j.obs {
		if o.bad {
			return true
		}
	}
	for _, o := range j.solo {
		if o.bad {
			return true
		}
	}
	return false
}

func runBuiltinJob(j *builtinJob) {
	j.obs, j.err = runBuiltin(j.id, j.bs)
	if j.err != nil {
		return
	}
	j.solo = make([]BObs, len(j.bs.Reqs))
	for k := range j.bs.Reqs {
		one := *j.bs
		one.Reqs = []BReq{j.bs.Reqs[k]}
		o, err := runBuiltin(j.id+1+k, &one)
		if err != nil {
			j.err = err
			return
		}
		j.solo[k] = o[0]
	}
}

// run the built-in filter histories, evaluate the property, write the model-comparison shard
func builtinPart(run *Run) int {
	specs := genBuiltin(run)
	jobs := make([]*builtinJob, len(specs))
	for i, bs := range specs {
		jobs[i] = &builtinJob{id: 200000 + i*8, bs: bs}
	}
	runJobs := func(js []*builtinJob) {
		var wg sync.WaitGroup
		sem := make(chan struct{}, 40)
		for _, j := range js {
			wg.Add(1)
			sem <- struct{}{}
			go func(j *builtinJob) {
				defer wg.Done()
				runBuiltinJob(j)
				<-sem
			}(j)
		}
		wg.Wait()
	}
	runJobs(jobs)
	for pass := 1; pass <= 3; pass++ {
		var again []*builtinJob
		for _, j := range jobs {
			if j.err == nil && j.void() {
				j.id += 100000 * pass
				again = append(again, j)
			}
		}
		if len(again) == 0 {
			break
		}
		run.Sum.Distribution["builtin:rerun"] += len(again)
		runJobs(again)
	}
	sh := run.NewShard(builtinHeader, "bcase", "builtin_mismatches proxy_bsrc")
	for _, j := range jobs {
		if j.err != nil {
			fmt.Println("harness error:", j.err)
			return 2
		}
		if j.void() {
			run.Sum.Distribution["builtin:dropped"]++
			continue
		}
		builtinFinder(run, j)
		kb, _ := json.Marshal(j.bs)
		run.Count("builtin:"+string(kb), true, "builtin")
		if !j.bs.multi() { // (the model has one entry per type; listeners with several entries of a type are judged by the finder)
			sh.Add(coqBCase(j.bs, j.obs), map[string]interface{}{"builtin": j.bs, "observed": j.obs})
		}
	}
	sh.Close()
	return 0
}

func builtinFinder(run *Run, j *builtinJob) {
	for k, q := range j.bs.Reqs {
		o := j.obs[k]
		replay := map[string]interface{}{"builtin": j.bs, "request": k, "observed": j.obs, "observed_alone": j.solo[k]}
		if o.Err != "" {
			run.Fail("C14:builtin:panic", o.Err, replay)
			continue
		}
		deny, status, which := expectBuiltin(j.bs, q)
		run.Sum.Distribution[fmt.Sprintf("builtin:expect-deny-%v:%s", deny, which)]++
		switch {
		case deny && strings.HasSuffix(which, "#2") && (!o.Denied || o.Status != status):
			run.Fail("C14:builtin:configured-filter-entry-never-ran", fmt.Sprintf("request %d of the history must be denied (%d) by the SECOND configured entry of %s, which has its own configuration; observed denied=%v status=%d forwarded=%v: the entry's configuration never decided", k, status, strings.TrimSuffix(which, "#2"), o.Denied, o.Status, o.Forwarded), replay)
		case deny && o.Forwarded && which == "payload_limit":
			run.Fail("C14:builtin:oversized-request-forwarded", fmt.Sprintf("request %d of the history (route %d, body %d bytes) exceeds the effective payload limit (route-level override if the route has one, else the listener's), yet it was sent upstream (denied=%v)", k, q.Route, bodyLen(q), o.Denied), replay)
		case deny && o.Forwarded:
			run.Fail("C14:builtin:denied-request-forwarded", fmt.Sprintf("request %d of the history must be denied by %s, yet it was sent upstream", k, which), replay)
		case deny && !o.Denied:
			run.Fail("C14:builtin:denied-request-not-answered", fmt.Sprintf("request %d of the history must be denied by %s; reply kind %q", k, which, o.Kind), replay)
		case deny && o.Status != status:
			run.Fail("C14:builtin:wrong-status", fmt.Sprintf("request %d of the history must be denied by %s with status %d, got %d", k, which, status, o.Status), replay)
		case !deny && o.Denied:
			run.Fail("C14:builtin:allowed-request-denied", fmt.Sprintf("no configured filter denies request %d of the history, yet it was answered locally with %d", k, o.Status), replay)
		}
		s := j.solo[k]
		if o.Denied != s.Denied || o.Status != s.Status || o.Forwarded != s.Forwarded {
			run.Fail("C14:builtin:decision-depends-on-earlier-request", fmt.Sprintf("request %d of the history: denied=%v status=%d forwarded=%v; the same request alone on a fresh factory of the same configuration: denied=%v status=%d forwarded=%v", k, o.Denied, o.Status, o.Forwarded, s.Denied, s.Status, s.Forwarded), replay)
		}
	}
}
