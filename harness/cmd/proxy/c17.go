package main

// C17 (proxy part) - effective time-outs and the retry policy.
//  (a) time-out precedence: route / request headers / protocol-supplied variables carry distinct values (or are absent, or
//      unparsable); the upstream stays silent; the effective global time-out is read off the time of the 504 reply, the effective
//      per-try time-out off the time of the first per-try reset of attempt 0; compared with Model/ProxyTimeout.v and, in the
//      finder, with the precedence as the property text states it.
//  (b) retry policy: per-attempt outcome sequences {2xx, listed code, 5xx, 4xx, connect failure, termination, other resets,
//      per-try time-out, overflow, global time-out} x retry_on x num_retries x status lists.
// Finder: C17:timeout-precedence, C17:attempts-exceed-budget, C17:retry-after-response-started, C17:retry-without-condition,
//         C17:retry-same-host

import (
	"context"
	"fmt"
	"strings"
	"time"

	"mosn.io/mosn/pkg/protocol"
	"mosn.io/mosn/pkg/proxy"
	"mosn.io/mosn/pkg/router"
	"mosn.io/mosn/pkg/types"
	"mosn.io/pkg/variable"

	. "vh/vhlib"
)

const tmoTol = 19 // ms: measured expiry must lie within this of the value it is attributed to

// measured effective time-outs of a silent-upstream history (ms after the request was sent; 0 = not seen)
func measuredTimeouts(r *Result) (g, t int) {
	var sent int64 = -1
	retried := false
	for _, x := range r.Rec {
		if x.Kind == "up.new" && x.K == 1 {
			retried = true // a per-try expiry is recognised by the retry it causes (retry_on is set); the global one ends the request
		}
	}
	for _, x := range r.Rec {
		switch {
		case x.Kind == "up.new" && x.K == 0:
			sent = x.T
		case x.Kind == "up.reset" && x.K == 0 && sent >= 0 && t == 0 && g == 0 && retried:
			t = int((x.T - sent + 500) / 1000)
		case x.Kind == "down.hdr" && x.Aux == "hijack" && x.Code == 504 && sent >= 0 && g == 0:
			g = int((x.T - sent + 500) / 1000)
		}
	}
	return
}

func snap(v int, cands []int) int {
	best, bd := -1, 1<<30
	for _, c := range cands {
		d := v - c
		if d < 0 {
			d = -d
		}
		if d < bd {
			best, bd = c, d
		}
	}
	if bd <= tmoTol {
		return best
	}
	return -v // not attributable
}

type tmoSpec struct {
	sp           *Spec
	hdrGBad      bool
	hdrTBad      bool
	wantG, wantT int
}

func optZ(v int, bad bool) string {
	if v == 0 || bad {
		return "None"
	}
	return "(Some " + CoqZ(int64(v)) + ")"
}

func c17Retry(run *Run, j *histJob) {
	r, sp := j.res, j.spec
	replay := map[string]interface{}{"spec": sp, "observed": r.Rec, "done": r.Done}
	budget := 3
	if sp.NumRetries > budget {
		budget = sp.NumRetries
	}
	n := countNew(r)
	if n > 1+budget {
		run.Fail("C17:attempts-exceed-budget", fmt.Sprintf("%d upstream attempts with num_retries=%d (budget %d)", n, sp.NumRetries, budget), replay)
	}
	// route actions are applied exactly once per request: every attempt is sent the same finalised headers
	if sp.RouteHeaderActions {
		for _, x := range r.Rec {
			if x.Kind == "up.hdr" && x.Code != 1 {
				run.Fail("C17:route-actions-applied-more-than-once-on-retry", fmt.Sprintf("attempt %d was sent request headers on which the route's append action is visible %d times (x-tag)", x.K, x.Code), replay)
				break
			}
		}
	}
	started := false
	lastHost := ""
	gms, tms := sp.effectiveTimeouts()
	// how did attempt k end (as far as the environment can tell)?
	type end struct{ kind, detail string }
	ends := map[int]end{}
	var newT = map[int]int64{}
	globalAt := -1 // the attempt that the global time-out ended
	for _, x := range r.Rec {
		switch x.Kind {
		case "down.hdr":
			started = true
		case "up.new":
			newT[x.K] = x.T
			at := strings.Index(x.Aux, "@")
			res, host := x.Aux[:at], x.Aux[at+1:]
			if started {
				run.Fail("C17:retry-after-response-started", "an upstream attempt was made after the reply had started", replay)
			}
			if globalAt >= 0 {
				sig, what := "C17:attempt-after-global-timeout", fmt.Sprintf("attempt %d was started after the global time-out (%d ms) had ended attempt %d", x.K, gms, globalAt)
				if x.K == globalAt+1 {
					sig, what = "C17:global-timeout-retried", fmt.Sprintf("attempt %d was ended by the global time-out (%d ms after the first attempt; no per-try timer could have fired), yet attempt %d followed: the global time-out ends the request with the 504 local reply, it is no retry condition", globalAt, gms, x.K)
				}
				run.Fail(sig, what, replay)
			}
			if x.K > 0 && sp.DisableRetry {
				run.Fail("C17:retried-although-retry-disabled-for-request", fmt.Sprintf("the request carries proxy_disable_retry = true (its body cannot be replayed), yet attempt %d was started (retry_on=%v)", x.K, sp.RetryOn), replay)
			}
			if x.K > 0 {
				if host == lastHost && sp.NHosts >= 2 {
					run.Fail("C17:retry-same-host", fmt.Sprintf("attempt %d went to the same host %s as attempt %d (round robin over %d hosts)", x.K, host, x.K-1, sp.NHosts), replay)
				}
				// was the previous attempt's end a configured retry condition?
				e, ok := ends[x.K-1]
				if !ok {
					e = end{"unknown", ""}
				}
				allowed := false
				switch e.kind {
				case "pool":
					allowed = e.detail == "connfail"
				case "resp":
					var code int
					fmt.Sscanf(e.detail, "%d", &code)
					if sp.RetryOn {
						if len(sp.StatusCodes) > 0 {
							for _, c := range sp.StatusCodes {
								if c == code {
									allowed = true
								}
							}
						} else {
							allowed = code >= 500
						}
					}
				case "reset":
					allowed = e.detail == "connfailed" || (sp.RetryOn && e.detail == "termination")
				default:
					// ended by a proxy-side reset (a timer) or by nothing the environment did: which timer it was can only be
					// guessed from timing, so the finder does not judge it; the model comparison covers these histories
					allowed = true
				}
				if !allowed && e.kind == "reset" && x.K >= 2 {
					// was the attempt BEFORE the reset one answered with a retriable status?  then the decision for the reset
					// looks like the decision for that earlier response
					if p, okp := ends[x.K-2]; okp && p.kind == "resp" {
						var code int
						fmt.Sscanf(p.detail, "%d", &code)
						stale := sp.RetryOn && code >= 500
						for _, c := range sp.StatusCodes {
							stale = stale || (sp.RetryOn && c == code)
						}
						if stale {
							run.Fail("C17:retry-decision-uses-stale-status", fmt.Sprintf("attempt %d ended with a reset (%s) that is no configured retry condition, yet attempt %d followed; attempt %d had been answered %d (retriable): the decision for attempt %d was taken on the status of attempt %d", x.K-1, e.detail, x.K, x.K-2, code, x.K-1, x.K-2), replay)
							allowed = true
						}
					}
				}
				if !allowed {
					run.Fail("C17:retry-without-condition", fmt.Sprintf("attempt %d followed attempt %d which ended with %s %s (retry_on=%v codes=%v)", x.K, x.K-1, e.kind, e.detail, sp.RetryOn, sp.StatusCodes), replay)
				}
			}
			lastHost = host
			if res != "ok" {
				ends[x.K] = end{"pool", res}
			}
		case "ev.end":
			e := sp.Events[x.K]
			if x.Aux == "delivered" {
				switch e.Kind {
				case "upresp":
					ends[e.K] = end{"resp", fmt.Sprint(e.Status)}
				case "upreset":
					ends[e.K] = end{"reset", e.Reason}
				}
			}
		case "up.reset":
			// a proxy-side reset of the current attempt with no environment event: a timer
			if _, seen := ends[x.K]; !seen {
				kind := "other"
				perTryWindow := false
				if t0, ok := newT[x.K]; ok && tms > 0 && gms > 0 {
					dt := int((x.T - t0) / 1000)
					perTryWindow = dt >= tms-tmoTol && dt <= tms+tmoTol
					if perTryWindow {
						kind = "pertry"
					}
				}
				// the global timer is armed when the first attempt has been sent; a proxy-side reset at that distance which no
				// per-try timer explains is the global time-out
				if tf, ok := newT[0]; ok && !perTryWindow && gms > 0 && !started {
					dg := int((x.T - tf) / 1000)
					if dg >= gms-tmoTol && dg <= gms+tmoTol {
						kind = "global"
						globalAt = x.K
					}
				}
				ends[x.K] = end{kind, ""}
			}
		}
	}
}

func c17(args []string) int {
	run := NewRun("C17", args)
	r := run.R
	run.Sum.Rule = "(a) time-out sources: each of {route, header, variable} x {global, per-try} absent / a distinct value from {80,120,160,200} ms / (headers) unparsable, upstream silent: effective values measured from the 504 reply and the first per-try reset; all 3^2 presence patterns x value assignments sampled. (b) retry policy: per-attempt outcome sequences over {2xx, 4xx, 5xx, listed code, connect failure, overflow, reset reasons, per-try/global expiry} x retry_on x num_retries 0..5 x status lists x 1..3 hosts x upstream flavour (status read from the response headers, as bolt; or from the x-mosn-status variable of the request context through the real protocol.GetStatusCodeMapping, as HTTP/1.1 and HTTP/2), plus the sequences [retriable status -> retried, then silence until the global time-out / reset with each reason / per-try time-out / connect failure / overflow / non-retriable status] for both flavours. Non-trivial: (a) at least two sources present, (b) at least one failed attempt; distinct by description."
	// ---------------- (a) time-outs
	vals := []int{80, 120, 160, 200}
	var ts []*tmoSpec
	nT := run.N(70, 600)
	for i := 0; i < nT; i++ {
		sp := &Spec{Route: "forward", NHosts: 2, RetryOn: true, NumRetries: 3}
		pickv := func() int {
			if r.Intn(3) == 0 {
				return 0
			}
			return vals[r.Intn(len(vals))]
		}
		sp.RouteGlobalMs, sp.HdrGlobalMs, sp.VarGlobalMs = pickv(), pickv(), pickv()
		sp.RouteTryMs, sp.HdrTryMs, sp.VarTryMs = pickv(), pickv(), pickv()
		if sp.RouteGlobalMs == 0 && sp.HdrGlobalMs == 0 && sp.VarGlobalMs == 0 {
			sp.RouteGlobalMs = 160 // the 60 s default is covered by the translator, not by waiting for it
		}
		t := &tmoSpec{sp: sp}
		if sp.HdrGlobalMs != 0 && r.Intn(6) == 0 && (sp.RouteGlobalMs != 0 || sp.VarGlobalMs != 0) {
			t.hdrGBad = true
		}
		if sp.HdrTryMs != 0 && r.Intn(6) == 0 {
			t.hdrTBad = true
		}
		ts = append(ts, t)
	}
	tjobs := make([]*histJob, len(ts))
	for i, t := range ts {
		sp := *t.sp
		if t.hdrGBad {
			sp.HdrGlobalMs = -1 // sent as an unparsable header value
		}
		if t.hdrTBad {
			sp.HdrTryMs = -1
		}
		tjobs[i] = &histJob{id: 400000 + i + 1, spec: &sp}
	}
	runAll(tjobs, 200)
	tsh := run.NewShard("From Coq Require Import List ZArith Bool.\nFrom MV Require Import Model.ProxyTimeout Model.Proxy Gen.ProxyTokens.\nImport ListNotations.\nOpen Scope Z_scope.\n",
		"tcase", "timeout_mismatches proxy_default_global_ms")
	for i, t := range ts {
		j := tjobs[i]
		if j.res.Err != "" {
			fmt.Println("harness error:", j.res.Err)
			return 2
		}
		sp := t.sp
		eff := *sp
		if t.hdrGBad {
			eff.HdrGlobalMs = 0
		}
		if t.hdrTBad {
			eff.HdrTryMs = 0
		}
		wantG, wantT := eff.effectiveTimeouts()
		mg, mt := measuredTimeouts(j.res)
		sg := snap(mg, vals)
		st := 0
		if mt != 0 {
			st = snap(mt, vals)
		}
		// a real deviation is deterministic; a late runtime timer is not: measure again before judging
		for again := 0; again < 2 && (sg != wantG || st != wantT); again++ {
			j.res = runHistory(j.id+1000*(again+1), j.spec)
			mg, mt = measuredTimeouts(j.res)
			sg, st = snap(mg, vals), 0
			if mt != 0 {
				st = snap(mt, vals)
			}
			run.Sum.Distribution["timeout-case:remeasured"]++
		}
		present := 0
		for _, v := range []int{sp.RouteGlobalMs, sp.HdrGlobalMs, sp.VarGlobalMs, sp.RouteTryMs, sp.HdrTryMs, sp.VarTryMs} {
			if v != 0 {
				present++
			}
		}
		run.Count("tmo:"+specKey(j.spec), present >= 2, "timeout-case")
		if sg != wantG || st != wantT {
			run.Fail("C17:timeout-precedence", fmt.Sprintf("effective time-outs measured global=%d per-try=%d ms, the configured precedence gives global=%d per-try=%d", mg, mt, wantG, wantT),
				map[string]interface{}{"spec": j.spec, "observed": j.res.Rec, "measured_global_ms": mg, "measured_try_ms": mt})
		}
		term := fmt.Sprintf("({| t_route_g := %s; t_route_t := %s; t_hdr_g := %s; t_hdr_t := %s; t_var_g := %s; t_var_t := %s |}, %s, %s)",
			CoqZ(int64(sp.RouteGlobalMs)), CoqZ(int64(sp.RouteTryMs)), optZ(sp.HdrGlobalMs, t.hdrGBad), optZ(sp.HdrTryMs, t.hdrTBad),
			optZ(sp.VarGlobalMs, false), optZ(sp.VarTryMs, false), CoqZ(int64(sg)), CoqZ(int64(st)))
		tsh.Add(term, map[string]interface{}{"spec": j.spec, "measured_global_ms": mg, "measured_try_ms": mt, "rec": j.res.Rec})
		if i%17 == 0 {
			run.Sample(map[string]interface{}{"sources": sp, "measured_global_ms": mg, "measured_try_ms": mt})
		}
	}
	tsh.Close()

	// ---------------- (a') the whole space of source states, evaluated by the real parseProxyTimeout (hook VerifParseProxyTimeout)
	if rc := c17TimeoutSpace(run); rc != 0 {
		return rc
	}

	// ---------------- (b) retry policy
	var specs []*Spec
	n := run.N(450, 8000)
	for i := 0; i < n; i++ {
		sp := &Spec{Route: "forward", NHosts: 1 + r.Intn(3), RouteGlobalMs: 5*slot + 30, RetryOn: r.Intn(3) != 0, NumRetries: r.Intn(6),
			RouteHeaderActions: r.Intn(4) != 0, OrigTag: r.Intn(3) == 0}
		if r.Intn(3) == 0 {
			sp.RouteTryMs = slot + 15
		}
		if r.Intn(8) == 0 {
			sp.DisableRetry = true
		}
		if r.Intn(2) == 0 {
			sp.Flavour = "http" // the status travels through the context variable (HTTP/1.1, HTTP/2 upstreams)
		}
		if r.Intn(4) == 0 {
			sp.StatusCodes = [][]int{{503}, {404, 503}, {500}}[r.Intn(3)]
		}
		if r.Intn(4) == 0 {
			sp.HasData = true
		}
		if r.Intn(4) == 0 {
			sp.MaxRetries = 1 + r.Intn(2)
		}
		for k := 0; k < 7; k++ {
			switch r.Intn(6) {
			case 0:
				sp.Pool = append(sp.Pool, "connfail")
			case 1:
				sp.Pool = append(sp.Pool, []string{"overflow", "ok", "ok"}[r.Intn(3)])
			default:
				sp.Pool = append(sp.Pool, "ok")
			}
		}
		t := slot
		for att := 0; att < 6; att++ {
			switch r.Intn(8) {
			case 0:
				sp.Events = append(sp.Events, Event{AtMs: t, Kind: "upresp", K: att, Status: 200, Data: r.Intn(2) == 0})
			case 1, 2:
				sp.Events = append(sp.Events, Event{AtMs: t, Kind: "upresp", K: att, Status: []int{500, 503, 404, 502}[r.Intn(4)], Data: r.Intn(3) == 0})
			case 3, 4, 5:
				sp.Events = append(sp.Events, Event{AtMs: t, Kind: "upreset", K: att, Reason: upReasons[r.Intn(len(upReasons))]})
			}
			t += slot
		}
		specs = append(specs, sp)
	}
	// budget witnesses: an upstream that never accepts a connection / always answers 503 / always times out per try, for several
	// num_retries: exactly 1 + max(3, num_retries) attempts are expected (num_retries >= 9 would run into the listed C03 loop finding)
	for _, nr := range []int{0, 1, 3, 4, 6} {
		fail := strings.Split(strings.Repeat("connfail,", 11)+"connfail", ",")
		specs = append(specs, &Spec{Route: "forward", NHosts: 2, RouteGlobalMs: 400, NumRetries: nr, Pool: fail, RouteHeaderActions: true})
		sp := &Spec{Route: "forward", NHosts: 2, RouteGlobalMs: 600, RetryOn: true, NumRetries: nr, RouteHeaderActions: true, OrigTag: nr%2 == 0}
		for k := 0; k < 10; k++ {
			sp.Events = append(sp.Events, Event{AtMs: 20 + 30*k, Kind: "upresp", K: k, Status: 503})
		}
		specs = append(specs, sp)
		specs = append(specs, &Spec{Route: "forward", NHosts: 2, RouteGlobalMs: 900, RouteTryMs: 40, RetryOn: true, NumRetries: nr, RouteHeaderActions: true})
	}
	// sequences [retriable status -> retried, then X] for both upstream flavours: X = silence until the global time-out / a reset
	// with each reason / a per-try time-out / a connect failure / overflow / a non-retriable status; and the global time-out of
	// the first attempt, of an attempt after a connect failure
	for _, fl := range []string{"", "http"} {
		for _, codes := range [][]int{nil, {503}} {
			base := func() *Spec {
				return &Spec{Flavour: fl, Route: "forward", NHosts: 2, RouteGlobalMs: 4 * slot, RetryOn: true, NumRetries: 3, StatusCodes: codes,
					Events: []Event{{AtMs: slot, Kind: "upresp", K: 0, Status: 503}}}
			}
			sp := base() // silence until the global time-out; a late answer for a third attempt, should there be one
			sp.Events = append(sp.Events, Event{AtMs: 5*slot + 10, Kind: "upresp", K: 2, Status: 200})
			specs = append(specs, sp)
			sp = base()
			sp.HasData = true
			specs = append(specs, sp)
			for _, why := range []string{"remotereset", "localreset", "termination", "connfailed", "overflow", "upstreamreset"} {
				sp = base()
				sp.Events = append(sp.Events, Event{AtMs: 2 * slot, Kind: "upreset", K: 1, Reason: why}, Event{AtMs: 3 * slot, Kind: "upresp", K: 2, Status: 200})
				specs = append(specs, sp)
			}
			sp = base()
			sp.RouteTryMs = slot + 10
			sp.RouteGlobalMs = 6 * slot
			sp.Events = append(sp.Events, Event{AtMs: 4 * slot, Kind: "upresp", K: 2, Status: 200})
			specs = append(specs, sp)
			sp = base()
			sp.Pool = []string{"ok", "connfail"}
			specs = append(specs, sp)
			sp = base()
			sp.Pool = []string{"ok", "overflow"}
			specs = append(specs, sp)
			sp = base()
			sp.Events = append(sp.Events, Event{AtMs: 2 * slot, Kind: "upresp", K: 1, Status: 404})
			specs = append(specs, sp)
			sp = base()
			sp.Events = []Event{{AtMs: slot, Kind: "upresp", K: 0, Status: 500}, {AtMs: 2 * slot, Kind: "upresp", K: 1, Status: 503}, {AtMs: 3 * slot, Kind: "upreset", K: 2, Reason: "remotereset"}}
			specs = append(specs, sp)
			// first attempt / attempt after a connect failure ended by the global time-out
			specs = append(specs, &Spec{Flavour: fl, Route: "forward", NHosts: 2, RouteGlobalMs: 2 * slot, RetryOn: true, NumRetries: 3, StatusCodes: codes},
				&Spec{Flavour: fl, Route: "forward", NHosts: 2, RouteGlobalMs: 2 * slot, RetryOn: true, NumRetries: 3, StatusCodes: codes, Pool: []string{"connfail"}})
		}
	}
	// requests that carry proxy_disable_retry: never retried, on routes with and without retry_on, for every failure
	for _, ron := range []bool{false, true} {
		for _, fl := range []string{"", "http"} {
			specs = append(specs,
				&Spec{DisableRetry: true, Flavour: fl, Route: "forward", NHosts: 2, RouteGlobalMs: 3 * slot, RetryOn: ron, NumRetries: 2, HasData: true, Pool: []string{"connfail"}},
				&Spec{DisableRetry: true, Flavour: fl, Route: "forward", NHosts: 2, RouteGlobalMs: 3 * slot, RetryOn: ron, NumRetries: 2,
					Events: []Event{{AtMs: slot, Kind: "upreset", K: 0, Reason: "connfailed"}}},
				&Spec{DisableRetry: true, Flavour: fl, Route: "forward", NHosts: 2, RouteGlobalMs: 3 * slot, RetryOn: ron, NumRetries: 2,
					Events: []Event{{AtMs: slot, Kind: "upresp", K: 0, Status: 503}}},
				&Spec{DisableRetry: true, Flavour: fl, Route: "forward", NHosts: 2, RouteGlobalMs: 4 * slot, RouteTryMs: slot, RetryOn: ron, NumRetries: 2},
				&Spec{DisableRetry: true, Flavour: fl, Route: "forward", NHosts: 2, RouteGlobalMs: 3 * slot, RetryOn: ron, NumRetries: 2,
					Events: []Event{{AtMs: slot, Kind: "upreset", K: 0, Reason: "termination"}}})
		}
	}
	jobs := make([]*histJob, len(specs))
	for i, sp := range specs {
		jobs[i] = &histJob{id: 500000 + i + 1, spec: sp}
	}
	runAll(jobs, 200)
	for _, j := range jobs {
		run.Sum.Distribution[fmt.Sprintf("attempts:%d", countNew(j.res))]++
	}
	return finishProxy(run, jobs, c17Retry, func(sp *Spec) bool { return plainSpec(sp) })
}

// every state {absent, present = 0, present > 0 (two values, below/above the others), present but unparsable} of the request
// headers and of the protocol-supplied variables, x {not configured, configured} of the route, for the global AND the per-try
// value: the complete space (2*2*5*5*5*5 = 2500 cases) through the real parseProxyTimeout on a real route of the real router
func c17TimeoutSpace(run *Run) int {
	initEnv()
	type src struct {
		present bool
		text    string
		val     int  // parsed value when parsable
		ok      bool // parsable
	}
	states := func(lo, hi int) []src {
		return []src{{}, {true, "0", 0, true}, {true, fmt.Sprint(lo), lo, true}, {true, fmt.Sprint(hi), hi, true}, {true, "1.5s", 0, false}}
	}
	sh := run.NewShard("From Coq Require Import List ZArith Bool.\nFrom MV Require Import Model.ProxyTimeout Model.Proxy Gen.ProxyTokens.\nImport ListNotations.\nOpen Scope Z_scope.\n",
		"tcase", "timeout_mismatches proxy_default_global_ms")
	n := 0
	for _, rg := range []int{0, 200} {
		for _, rt := range []int{0, 90} {
			// a real route with these values
			id := 600000 + n
			sp := &Spec{Route: "forward", NHosts: 1, RouteGlobalMs: rg, RouteTryMs: rt}
			p := prepareHistory(id, sp)
			if p.err != nil {
				fmt.Println("harness error:", p.err)
				return 2
			}
			rw := router.GetRoutersMangerInstance().GetRouterWrapperByName(fmt.Sprintf("r%d", id))
			for _, hg := range states(150, 400) {
				for _, ht := range states(60, 300) {
					for _, vg := range states(120, 500) {
						for _, vt := range states(40, 450) {
							n++
							hm := map[string]string{"service": "svc"}
							if hg.present {
								hm[types.HeaderGlobalTimeout] = hg.text
							}
							if ht.present {
								hm[types.HeaderTryTimeout] = ht.text
							}
							hdr := protocol.CommonHeader(hm)
							ctx := variable.NewVariableContext(context.Background())
							if vg.present {
								_ = variable.SetString(ctx, types.VarProxyGlobalTimeout, vg.text)
							}
							if vt.present {
								_ = variable.SetString(ctx, types.VarProxyTryTimeout, vt.text)
							}
							route := rw.GetRouters().MatchRoute(ctx, hdr)
							if route == nil {
								fmt.Println("harness error: route not matched")
								return 2
							}
							g, t := proxy.VerifParseProxyTimeout(ctx, route, hdr)
							gms, tms := int(g/time.Millisecond), int(t/time.Millisecond)
							// the property text: protocol-supplied if present, else the request's header, else the route's, else the
							// default; a present value that does not parse is not a value; 0 means "not set" at the end; per-try
							// disabled when >= global
							pick := func(v, h src, r int) int {
								if v.present && v.ok {
									return v.val
								}
								if h.present && h.ok {
									return h.val
								}
								return r
							}
							wantG := pick(vg, hg, rg)
							if wantG == 0 {
								wantG = int(types.GlobalTimeout / time.Millisecond)
							}
							wantT := pick(vt, ht, rt)
							if wantT >= wantG {
								wantT = 0
							}
							key := fmt.Sprintf("space:%d:%d:%s:%s:%s:%s", rg, rt, hg.text, ht.text, vg.text, vt.text)
							run.Count(key, hg.present || ht.present || vg.present || vt.present, "timeout-space")
							if gms != wantG || tms != wantT {
								run.Fail("C17:timeout-precedence", fmt.Sprintf("parseProxyTimeout gives global=%d ms per-try=%d ms; the configured precedence gives global=%d per-try=%d", gms, tms, wantG, wantT),
									map[string]interface{}{"route_global_ms": rg, "route_try_ms": rt, "header_global": hg.text, "header_try": ht.text, "variable_global": vg.text, "variable_try": vt.text,
										"header_global_present": hg.present, "header_try_present": ht.present, "variable_global_present": vg.present, "variable_try_present": vt.present})
							}
							opt := func(x src) string {
								if x.present && x.ok {
									return "(Some " + CoqZ(int64(x.val)) + ")"
								}
								return "None"
							}
							sh.Add(fmt.Sprintf("({| t_route_g := %s; t_route_t := %s; t_hdr_g := %s; t_hdr_t := %s; t_var_g := %s; t_var_t := %s |}, %s, %s)",
								CoqZ(int64(rg)), CoqZ(int64(rt)), opt(hg), opt(ht), opt(vg), opt(vt), CoqZ(int64(gms)), CoqZ(int64(tms))), key)
							if sh.Len() >= 400 {
								sh.Close()
								sh = run.NewShard("From Coq Require Import List ZArith Bool.\nFrom MV Require Import Model.ProxyTimeout Model.Proxy Gen.ProxyTokens.\nImport ListNotations.\nOpen Scope Z_scope.\n",
									"tcase", "timeout_mismatches proxy_default_global_ms")
							}
						}
					}
				}
			}
			histReg.Delete(id)
		}
	}
	sh.Close()
	run.Sum.Extra["timeout_source_space"] = fmt.Sprintf("enumerated completely: %d cases (route x header x variable states for global and per-try)", n)
	return 0
}
