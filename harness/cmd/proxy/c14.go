package main

// C14 - stream filters run in order; a denied request is never forwarded.
// Histories: filter chains (receive filters over the three phases, send filters) x verdict vectors
// {continue, stop, term, hijack, hijack-and-continue, direct response, re-match, re-choose}; the upstream answers 200 if asked.
// Finder (on the recorded trace, independent of the model):
//   C14:denied-forwarded   a receive filter hijacked / sent a direct response / terminated, yet ConnectionPool.NewStream was called
//   C14:reply-not-local    it answered (no termination, no disconnect) but the client did not get exactly one local reply
//   C14:send-filter-count  a send filter ran more than once on that reply / not at all
//   C14:filter-never-destroyed / filter-destroyed-twice   OnDestroy exactly once per filter of a finished stream (snderr.go)
//   C14:order              within one pass of a phase the receive filters were not called in increasing configured order,
//                          or a re-match / re-choose did not resume at the requesting filter

import (
	"fmt"

	. "vh/vhlib"
)

var recvVerdicts = []string{"continue", "stop", "term", "hijack", "hijackc", "direct", "rematch", "rechoose"}
var sendVerdicts = []string{"continue", "stop", "term", "hijack", "direct"}

func isDeny(v string) bool { return v == "term" || v == "hijack" || v == "hijackc" || v == "direct" }

func c14Finder(run *Run, j *histJob) {
	r, sp := j.res, j.spec
	replay := map[string]interface{}{"spec": sp, "observed": r.Rec, "done": r.Done}
	if j.prev != nil {
		replay["preceded_on_the_same_goroutine_by"] = j.prev
	}
	if r.Panicked != "" {
		run.Fail("C14:panic", "the request worker panicked: "+r.Panicked, replay)
		return
	}
	if senderErrFinder(run, j, replay) {
		return
	}
	destroyFinder(run, j, replay)
	// every stream starts its first pass at the head of the chain: the first BeforeRoute filter configured must be the first
	// filter called (before any routing / upstream activity)
	firstBR := -1
	for i, f := range sp.Filters {
		if !f.Send && f.Phase == 0 {
			firstBR = i
			break
		}
	}
	if firstBR >= 0 {
		for _, x := range r.Rec {
			if x.Kind == "filter.recv" {
				if x.K != firstBR || x.Code != 0 {
					run.Fail("C14:chain-not-from-start", fmt.Sprintf("the first filter called is #%d (phase %d) although BeforeRoute filter #%d is configured before it: the stream did not start at the head of its filter chain", x.K, x.Code, firstBR), replay)
				}
				break
			}
			if x.Kind == "up.check" || x.Kind == "up.new" || x.Kind == "down.hdr" || x.Kind == "worker.done" {
				run.Fail("C14:chain-not-from-start", fmt.Sprintf("BeforeRoute filter #%d was never called before the request was processed: the stream did not start at the head of its filter chain", firstBR), replay)
				break
			}
		}
	}
	if newAfterTerminate(r) {
		run.Fail("C14:terminated-forwarded", "TerminateStream returned true, yet the request was sent upstream afterwards", replay)
	}
	if ri := replyOf(r); ri.Mixed != "" && (ri.FirstKind == "hijack" || ri.FirstKind == "direct") {
		run.Fail("C14:local-reply-followed-by-upstream-body", "the client was sent "+ri.Mixed, replay)
	}
	sendChainFinder(run, j, replay)
	denied, term := false, false
	deniedAt := -1
	lastPhase, lastIdx, lastVerdict := -1, -1, ""
	sendCalls := map[int]int{}
	for i, x := range r.Rec {
		switch x.Kind {
		case "filter.recv":
			// order within a pass of a phase
			if x.Code == lastPhase {
				honoured := (lastVerdict == "rematch" && lastPhase == 1) || (lastVerdict == "rechoose" && lastPhase == 2)
				switch {
				case honoured && x.K != lastIdx:
					run.Fail("C14:order", fmt.Sprintf("after %s by filter %d the phase resumed at filter %d", lastVerdict, lastIdx, x.K), replay)
				case !honoured && x.K <= lastIdx && lastVerdict == "continue":
					run.Fail("C14:order", fmt.Sprintf("filter %d called after filter %d in the same pass", x.K, lastIdx), replay)
				}
			}
			lastPhase, lastIdx, lastVerdict = x.Code, x.K, x.Aux
			if x.Aux == "hijackc" {
				lastVerdict = "continue"
			}
			if isDeny(x.Aux) && !denied {
				denied, deniedAt = true, i
			}
			if x.Aux == "term" {
				term = true
			}
		case "filter.send":
			sendCalls[x.K]++
			if x.Aux == "term" {
				term = true
			}
		case "up.new":
			if denied && i > deniedAt {
				run.Fail("C14:denied-forwarded", "a receive filter answered or terminated the request, yet it was sent upstream", replay)
				return
			}
		default:
			if x.Kind != "filter.sleep" && x.Kind != "filter.wake" && x.Kind != "filter.destroy" {
				lastPhase = -1 // any other proxy activity ends the pass
			}
		}
	}
	if denied && !term && !sp.Oneway && !sp.hasEvent("downreset") && !sp.hasEvent("terminate") {
		ri := replyOf(r)
		if !(ri.Headers == 1 && ri.Complete && !ri.AfterEnd && (ri.FirstKind == "hijack" || ri.FirstKind == "direct")) {
			run.Fail("C14:reply-not-local", fmt.Sprintf("a receive filter answered; reply seen: headers=%d complete=%v kind=%s code=%d", ri.Headers, ri.Complete, ri.FirstKind, ri.FirstCode), replay)
			return
		}
		stopped := false
		for i, f := range sp.Filters {
			if !f.Send {
				continue
			}
			if !stopped && sendCalls[i] != 1 {
				run.Fail("C14:send-filter-count", fmt.Sprintf("send filter %d ran %d times on the local reply", i, sendCalls[i]), replay)
			}
			if len(f.Verdicts) > 0 && f.Verdicts[0] != "continue" {
				stopped = true
			}
		}
	}
}

// every reply that reaches the client has passed the send-filter chain: the first send filter of the chain was handed exactly the
// response whose headers were then written downstream (unless a send filter itself produced that reply, or terminated the stream)
func sendChainFinder(run *Run, j *histJob, replay map[string]interface{}) {
	r, sp := j.res, j.spec
	first := -1
	for i, f := range sp.Filters {
		if f.Send {
			first = i
			break
		}
	}
	if first < 0 || sp.Oneway {
		return
	}
	written, ran, sawWritten, bySendFilter := "", 0, false, false
	var seen []string
	for _, x := range r.Rec {
		switch x.Kind {
		case "filter.send":
			if x.K == first {
				ran++
				seen = append(seen, x.Seen)
			}
			if x.Aux == "hijack" || x.Aux == "direct" || x.Aux == "term" {
				bySendFilter = true
			}
		case "down.hdr":
			if written == "" {
				written = fmt.Sprintf("%s:%d", x.Aux, x.Code)
				for _, s := range seen {
					if s == written {
						sawWritten = true
					}
				}
			}
		}
	}
	if written == "" || sawWritten || bySendFilter {
		return
	}
	if ran == 0 {
		run.Fail("C14:reply-skipped-send-filters", fmt.Sprintf("the reply %s was written downstream although no send filter ever ran on this stream", written), replay)
		return
	}
	run.Fail("C14:send-filter-ran-on-discarded-response-only", fmt.Sprintf("the reply %s - the only response the client gets - was written downstream without passing the send filters: send filter #%d was handed %v only", written, first, seen), replay)
}

func genC14(run *Run) []*Spec {
	r := run.R
	var specs []*Spec
	base := func() *Spec {
		return &Spec{Route: "forward", NHosts: 2, RouteGlobalMs: 3 * slot, Events: []Event{{AtMs: slot, Kind: "upresp", K: 0, Status: 200, Data: true}}}
	}
	// chains of length 0..2 exhaustively over phases x first verdict; second invocation verdict "continue"
	specs = append(specs, base())
	for p := 0; p < 3; p++ {
		for _, v := range recvVerdicts {
			sp := base()
			sp.Filters = []FilterSpec{{Phase: p, Code: 403, Verdicts: []string{v}}}
			specs = append(specs, sp)
			for _, sv := range sendVerdicts {
				sp := base()
				sp.Filters = []FilterSpec{{Phase: p, Code: 403, Verdicts: []string{v}}, {Send: true, Code: 470, Verdicts: []string{sv}}}
				specs = append(specs, sp)
			}
		}
	}
	for p1 := 0; p1 < 3; p1++ {
		for p2 := 0; p2 < 3; p2++ {
			for _, v1 := range recvVerdicts {
				for _, v2 := range recvVerdicts {
					if r.Intn(run.N(3, 1)) != 0 {
						continue
					}
					sp := base()
					sp.Filters = []FilterSpec{{Phase: p1, Code: 403, Verdicts: []string{v1}}, {Phase: p2, Code: 429, Verdicts: []string{v2, v2}}, {Send: true}}
					if r.Intn(3) == 0 {
						sp.HasData = true
					}
					specs = append(specs, sp)
				}
			}
		}
	}
	// answers from the send phase over every response shape, also after a retried 5xx that had a body
	for _, sv := range []string{"hijack", "direct"} {
		for _, shape := range [][2]bool{{false, false}, {true, false}, {true, true}} {
			sp := base()
			sp.Events = []Event{{AtMs: slot, Kind: "upresp", K: 0, Status: 200, Data: shape[0], Trailers: shape[1]}}
			sp.Filters = []FilterSpec{{Phase: 0}, {Send: true, Code: 470, Verdicts: []string{sv}}}
			specs = append(specs, sp)
			sp2 := base()
			sp2.RetryOn = true
			sp2.Pool = []string{"ok", []string{"connfail", "overflow"}[r.Intn(2)], "connfail", "connfail", "connfail"}
			sp2.Events = []Event{{AtMs: slot, Kind: "upresp", K: 0, Status: 503, Data: shape[0], Trailers: shape[1]}}
			sp2.Filters = []FilterSpec{{Phase: 0}, {Send: true, Code: 470, Verdicts: []string{"continue", sv}}}
			specs = append(specs, sp2)
		}
	}
	// the re-attempt of a retry cannot start (no healthy host left at retry time): the local 502 is produced in the retry phase,
	// after the retried response has already gone through the send filters; also after a per-try time-out, a connect failure
	for _, fl := range []string{"", "http"} {
		for _, sv := range []string{"continue", "stop", "hijack", "direct"} {
			sp := &Spec{Flavour: fl, Route: "forward", NHosts: 2, RouteGlobalMs: 5 * slot, RetryOn: true, NumRetries: 2, HostsGoneAfter: 1,
				Filters: []FilterSpec{{Phase: 0}, {Send: true, Code: 470, Verdicts: []string{"continue", sv}}, {Send: true}},
				Events:  []Event{{AtMs: slot, Kind: "upresp", K: 0, Status: 503, Data: r.Intn(2) == 0}}}
			specs = append(specs, sp)
		}
		specs = append(specs,
			&Spec{Flavour: fl, Route: "forward", NHosts: 2, RouteGlobalMs: 5 * slot, RouteTryMs: slot, RetryOn: true, NumRetries: 2, HostsGoneAfter: 1,
				Filters: []FilterSpec{{Send: true}, {Send: true}}},
			&Spec{Flavour: fl, Route: "forward", NHosts: 2, RouteGlobalMs: 5 * slot, RetryOn: true, NumRetries: 3, HostsGoneAfter: 2, StatusCodes: []int{503},
				Filters: []FilterSpec{{Phase: 1}, {Send: true}},
				Events:  []Event{{AtMs: slot, Kind: "upresp", K: 0, Status: 503}, {AtMs: 2 * slot, Kind: "upresp", K: 1, Status: 503, Data: true}}},
			&Spec{Flavour: fl, Route: "forward", NHosts: 2, RouteGlobalMs: 5 * slot, RetryOn: true, NumRetries: 2, HostsGoneAfter: 1, HasData: true,
				Filters: []FilterSpec{{Send: true}},
				Events:  []Event{{AtMs: slot, Kind: "upreset", K: 0, Reason: "termination"}}},
			&Spec{Flavour: fl, Route: "forward", NHosts: 2, RouteGlobalMs: 5 * slot, NumRetries: 2, HostsGoneAfter: 1, Pool: []string{"connfail"},
				Filters: []FilterSpec{{Send: true}, {Send: true}}})
	}
	// a filter's direct response with a body, then TerminateStream (a body-less hijack) before it is sent: slow send filter
	specs = append(specs, &Spec{Route: "forward", NHosts: 2, RouteGlobalMs: 3 * slot,
		Filters: []FilterSpec{{Phase: 1, Code: 299, Verdicts: []string{"direct"}}, {Send: true, DelayMs: 30}},
		Events:  []Event{{AtMs: 10, Kind: "terminate", Code: 403}}})
	// random longer chains, verdicts by invocation number, occasionally an asynchronous event
	n := run.N(250, 5000)
	for i := 0; i < n; i++ {
		sp := base()
		nf := 1 + r.Intn(5)
		for k := 0; k < nf; k++ {
			if r.Intn(5) == 0 {
				sp.Filters = append(sp.Filters, FilterSpec{Send: true, Code: 470 + r.Intn(9), Verdicts: []string{sendVerdicts[r.Intn(len(sendVerdicts))]}})
				continue
			}
			f := FilterSpec{Phase: r.Intn(3), Code: 400 + r.Intn(30)}
			for q := 0; q < 1+r.Intn(3); q++ {
				if r.Intn(2) == 0 {
					f.Verdicts = append(f.Verdicts, "continue")
				} else {
					f.Verdicts = append(f.Verdicts, recvVerdicts[r.Intn(len(recvVerdicts))])
				}
			}
			sp.Filters = append(sp.Filters, f)
		}
		switch r.Intn(8) {
		case 0:
			sp.Events = append(sp.Events, Event{AtMs: slot + 20, Kind: "downreset", Reason: "termination"})
		case 1:
			sp.Route, sp.DirectCode = "direct", 418
		case 2:
			sp.NoMatch = true
		case 3:
			sp.Oneway = true
		}
		specs = append(specs, sp)
	}
	return specs
}

// pairs of requests served back to back on one goroutine: the pooled filter-chain object of the first (streamfilter's sync.Pool)
// is handed to the second.  The first ends with the receive cursor parked on a filter (re-match / re-choose returned in a phase
// where the proxy ignores it, as the last receive pass of the stream) or not; the second has BeforeRoute filters at the head.
type pairJob struct {
	a, b   *Spec
	ra, rb *Result
}

func genPairs(run *Run) []*pairJob {
	firsts := []*Spec{
		// AfterRoute filter #1 asks for re-choose (ignored in that phase); no route -> local 404: the AfterChooseHost pass never runs
		{Route: "forward", NHosts: 2, NoMatch: true, RouteGlobalMs: 40, Filters: []FilterSpec{{Phase: 0}, {Phase: 1, Verdicts: []string{"rechoose"}}}},
		// AfterChooseHost filter #2 asks for re-match (ignored in that phase); one-way request
		{Route: "forward", NHosts: 2, Oneway: true, RouteGlobalMs: 40, Filters: []FilterSpec{{Phase: 0}, {Phase: 1}, {Phase: 2, Verdicts: []string{"rematch"}}}},
		// same with a direct-response route: ends at ChooseHost with the cursor parked by the AfterRoute filter
		{Route: "direct", DirectCode: 418, NHosts: 2, RouteGlobalMs: 40, Filters: []FilterSpec{{Phase: 1}, {Phase: 1}, {Phase: 1, Verdicts: []string{"rechoose"}}}},
		// controls: streams that end with the cursor at 0
		{Route: "forward", NHosts: 2, Oneway: true, RouteGlobalMs: 40, Filters: []FilterSpec{{Phase: 0}, {Phase: 2}}},
		{Route: "direct", DirectCode: 418, NHosts: 2, RouteGlobalMs: 40},
	}
	seconds := []*Spec{
		{Route: "forward", NHosts: 2, RouteGlobalMs: 40, Filters: []FilterSpec{{Phase: 0, Code: 403, Verdicts: []string{"hijack"}}}},
		{Route: "forward", NHosts: 2, RouteGlobalMs: 40, Filters: []FilterSpec{{Phase: 0}, {Phase: 0, Code: 403, Verdicts: []string{"hijack"}}, {Phase: 1}}},
		{Route: "forward", NHosts: 2, Oneway: true, RouteGlobalMs: 40, Filters: []FilterSpec{{Phase: 0, Verdicts: []string{"term"}}, {Phase: 2}}},
		{Route: "direct", DirectCode: 204, NHosts: 2, RouteGlobalMs: 40, Filters: []FilterSpec{{Phase: 0, Code: 401, Verdicts: []string{"direct"}}, {Send: true}}},
	}
	var out []*pairJob
	reps := run.N(4, 12)
	for _, a := range firsts {
		for _, b := range seconds {
			for k := 0; k < reps; k++ {
				out = append(out, &pairJob{a: a, b: b})
			}
		}
	}
	return out
}

func runPairs(pairs []*pairJob) {
	for i, pj := range pairs {
		pa := prepareHistory(700000+2*i, pj.a)
		pb := prepareHistory(700000+2*i+1, pj.b)
		pj.ra = runInline(pa)
		pj.rb = runInline(pb)
	}
}

func c14(args []string) int {
	run := NewRun("C14", args)
	run.Sum.Rule = "filter chains through the real proxy and the real streamfilter chain: every chain of one receive filter (3 phases x 8 verdicts) alone and with one send filter (3 verdicts); two-filter chains over all phase pairs x verdict pairs (sampled 1/3 in the quick tier, all in thorough); random chains of 1..5 filters with per-invocation verdict scripts, some with client disconnect / direct-response route / no route / one-way. Verdicts: continue, stop, termination, hijack(+stop), hijack(+continue), direct response, re-match, re-choose. Plus 37 histories in which the downstream sender returns an error from AppendHeaders / AppendData / AppendTrailers: every reply kind (upstream reply headers-only / with body / with trailers, filter hijack per phase, filter direct response, route direct response, no route, no host, reset / overflow / time-out replies, TerminateStream, send-filter answers, retried 503) x every sender call occurring in it. Built-in deny filters (ip_access, payload_limit, fault_inject abort) created by their real factories, one factory set per listener configuration: histories of 2..6 requests on routes with / without per-route filter configuration (larger, smaller, unlimited limits; fault switched on / off / restricted to a cluster), body sizes around both limits, source addresses in / out of the lists, each request also run alone on a fresh factory. Non-trivial: at least one filter in the chain; distinct by the full description."
	specs := genC14(run)
	specs = append(specs, genSenderErr()...) // the downstream sender fails: cleaned once, every filter destroyed once
	jobs := make([]*histJob, len(specs))
	for i, sp := range specs {
		jobs[i] = &histJob{id: 100000 + i + 1, spec: sp}
	}
	runAll(jobs, 200)
	for _, j := range jobs {
		for _, f := range j.spec.Filters {
			for _, v := range f.Verdicts {
				run.Sum.Distribution["verdict:"+v]++
			}
		}
	}
	// pairs through the pooled chain objects
	initEnv()
	pairs := genPairs(run)
	runPairs(pairs)
	psh := run.NewShard(shardHeader, "paircase", "pair_mismatches proxy_src")
	for _, pj := range pairs {
		if pj.ra.Err != "" || pj.rb.Err != "" {
			fmt.Println("harness error:", pj.ra.Err, pj.rb.Err)
			return 2
		}
		c14Finder(run, &histJob{spec: pj.a, res: pj.ra})
		c14Finder(run, &histJob{spec: pj.b, res: pj.rb, prev: pj.a})
		run.Count("pair:"+specKey(pj.a)+specKey(pj.b), true, "pair")
		psh.Add(fmt.Sprintf("{| pp_first := %s;\n    pp_second := %s |}", coqCase(pj.ra), coqCase(pj.rb)),
			map[string]interface{}{"first": pj.a, "second": pj.b, "rec_first": pj.ra.Rec, "rec_second": pj.rb.Rec})
	}
	psh.Close()
	// sequences of requests re-using the pooled downStream object
	if rc := seqPart(run, 840000, c14Finder); rc != 0 {
		return rc
	}
	// the built-in deny filters: histories of several streams of one factory
	if rc := builtinPart(run); rc != 0 {
		return rc
	}
	return finishProxy(run, jobs, c14Finder, func(sp *Spec) bool { return len(sp.Filters) == 0 })
}
