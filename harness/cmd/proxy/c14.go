package main

// C14 - stream filters run in order; a denied request is never forwarded.
// Histories: filter chains (receive filters over the three phases, send filters) x verdict vectors
// {continue, stop, term, hijack, hijack-and-continue, direct response, re-match, re-choose}; the upstream answers 200 if asked.
// Finder (on the recorded trace, independent of the model):
//   C14:denied-forwarded   a receive filter hijacked / sent a direct response / terminated, yet ConnectionPool.NewStream was called
//   C14:reply-not-local    it answered (no termination, no disconnect) but the client did not get exactly one local reply
//   C14:send-filter-count  a send filter ran more than once on that reply / not at all
//   C14:order              within one pass of a phase the receive filters were not called in increasing configured order,
//                          or a re-match / re-choose did not resume at the requesting filter

import (
	"fmt"

	. "vh/vhlib"
)

var recvVerdicts = []string{"continue", "stop", "term", "hijack", "hijackc", "direct", "rematch", "rechoose"}
var sendVerdicts = []string{"continue", "stop", "term"}

func isDeny(v string) bool { return v == "term" || v == "hijack" || v == "hijackc" || v == "direct" }

func c14Finder(run *Run, j *histJob) {
	r, sp := j.res, j.spec
	replay := map[string]interface{}{"spec": sp, "observed": r.Rec, "done": r.Done}
	if r.Panicked != "" {
		run.Fail("C14:panic", "the request worker panicked: "+r.Panicked, replay)
		return
	}
	denied, term := false, false
	deniedAt := -1
	lastPhase, lastIdx, lastVerdict := -1, -1, ""
	sendCalls := map[int]int{}
	for i, x := range r.Rec {
		switch x.Kind {
		case "filter.recv":
			// order within a pass of a phase
			if x.Code == lastPhase {
				honoured := (lastVerdict == "rematch" && lastPhase == 1) || (lastVerdict == "rechoose" && lastPhase == 2)
				switch {
				case honoured && x.K != lastIdx:
					run.Fail("C14:order", fmt.Sprintf("after %s by filter %d the phase resumed at filter %d", lastVerdict, lastIdx, x.K), replay)
				case !honoured && x.K <= lastIdx && lastVerdict == "continue":
					run.Fail("C14:order", fmt.Sprintf("filter %d called after filter %d in the same pass", x.K, lastIdx), replay)
				}
			}
			lastPhase, lastIdx, lastVerdict = x.Code, x.K, x.Aux
			if x.Aux == "hijackc" {
				lastVerdict = "continue"
			}
			if isDeny(x.Aux) && !denied {
				denied, deniedAt = true, i
			}
			if x.Aux == "term" {
				term = true
			}
		case "filter.send":
			sendCalls[x.K]++
			if x.Aux == "term" {
				term = true
			}
		case "up.new":
			if denied && i > deniedAt {
				run.Fail("C14:denied-forwarded", "a receive filter answered or terminated the request, yet it was sent upstream", replay)
				return
			}
		default:
			if x.Kind != "filter.sleep" && x.Kind != "filter.wake" && x.Kind != "filter.destroy" {
				lastPhase = -1 // any other proxy activity ends the pass
			}
		}
	}
	if denied && !term && !sp.Oneway && !sp.hasEvent("downreset") && !sp.hasEvent("terminate") {
		ri := replyOf(r)
		if !(ri.Headers == 1 && ri.Complete && !ri.AfterEnd && (ri.FirstKind == "hijack" || ri.FirstKind == "direct")) {
			run.Fail("C14:reply-not-local", fmt.Sprintf("a receive filter answered; reply seen: headers=%d complete=%v kind=%s code=%d", ri.Headers, ri.Complete, ri.FirstKind, ri.FirstCode), replay)
			return
		}
		stopped := false
		for i, f := range sp.Filters {
			if !f.Send {
				continue
			}
			if !stopped && sendCalls[i] != 1 {
				run.Fail("C14:send-filter-count", fmt.Sprintf("send filter %d ran %d times on the local reply", i, sendCalls[i]), replay)
			}
			if len(f.Verdicts) > 0 && f.Verdicts[0] != "continue" {
				stopped = true
			}
		}
	}
}

func genC14(run *Run) []*Spec {
	r := run.R
	var specs []*Spec
	base := func() *Spec {
		return &Spec{Route: "forward", NHosts: 2, RouteGlobalMs: 3 * slot, Events: []Event{{AtMs: slot, Kind: "upresp", K: 0, Status: 200, Data: true}}}
	}
	// chains of length 0..2 exhaustively over phases x first verdict; second invocation verdict "continue"
	specs = append(specs, base())
	for p := 0; p < 3; p++ {
		for _, v := range recvVerdicts {
			sp := base()
			sp.Filters = []FilterSpec{{Phase: p, Code: 403, Verdicts: []string{v}}}
			specs = append(specs, sp)
			for _, sv := range sendVerdicts {
				sp := base()
				sp.Filters = []FilterSpec{{Phase: p, Code: 403, Verdicts: []string{v}}, {Send: true, Verdicts: []string{sv}}}
				specs = append(specs, sp)
			}
		}
	}
	for p1 := 0; p1 < 3; p1++ {
		for p2 := 0; p2 < 3; p2++ {
			for _, v1 := range recvVerdicts {
				for _, v2 := range recvVerdicts {
					if r.Intn(run.N(3, 1)) != 0 {
						continue
					}
					sp := base()
					sp.Filters = []FilterSpec{{Phase: p1, Code: 403, Verdicts: []string{v1}}, {Phase: p2, Code: 429, Verdicts: []string{v2, v2}}, {Send: true}}
					if r.Intn(3) == 0 {
						sp.HasData = true
					}
					specs = append(specs, sp)
				}
			}
		}
	}
	// random longer chains, verdicts by invocation number, occasionally an asynchronous event
	n := run.N(250, 5000)
	for i := 0; i < n; i++ {
		sp := base()
		nf := 1 + r.Intn(5)
		for k := 0; k < nf; k++ {
			if r.Intn(5) == 0 {
				sp.Filters = append(sp.Filters, FilterSpec{Send: true, Verdicts: []string{sendVerdicts[r.Intn(3)]}})
				continue
			}
			f := FilterSpec{Phase: r.Intn(3), Code: 400 + r.Intn(30)}
			for q := 0; q < 1+r.Intn(3); q++ {
				if r.Intn(2) == 0 {
					f.Verdicts = append(f.Verdicts, "continue")
				} else {
					f.Verdicts = append(f.Verdicts, recvVerdicts[r.Intn(len(recvVerdicts))])
				}
			}
			sp.Filters = append(sp.Filters, f)
		}
		switch r.Intn(8) {
		case 0:
			sp.Events = append(sp.Events, Event{AtMs: slot + 20, Kind: "downreset", Reason: "termination"})
		case 1:
			sp.Route, sp.DirectCode = "direct", 418
		case 2:
			sp.NoMatch = true
		case 3:
			sp.Oneway = true
		}
		specs = append(specs, sp)
	}
	return specs
}

func c14(args []string) int {
	run := NewRun("C14", args)
	run.Sum.Rule = "filter chains through the real proxy and the real streamfilter chain: every chain of one receive filter (3 phases x 8 verdicts) alone and with one send filter (3 verdicts); two-filter chains over all phase pairs x verdict pairs (sampled 1/3 in the quick tier, all in thorough); random chains of 1..5 filters with per-invocation verdict scripts, some with client disconnect / direct-response route / no route / one-way. Verdicts: continue, stop, termination, hijack(+stop), hijack(+continue), direct response, re-match, re-choose. Non-trivial: at least one filter in the chain; distinct by the full description."
	specs := genC14(run)
	jobs := make([]*histJob, len(specs))
	for i, sp := range specs {
		jobs[i] = &histJob{id: 100000 + i + 1, spec: sp}
	}
	runAll(jobs, 400)
	for _, j := range jobs {
		for _, f := range j.spec.Filters {
			for _, v := range f.Verdicts {
				run.Sum.Distribution["verdict:"+v]++
			}
		}
	}
	return finishProxy(run, jobs, c14Finder, func(sp *Spec) bool { return len(sp.Filters) == 0 })
}
