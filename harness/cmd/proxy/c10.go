package main

// C10 - circuit-breaker (Retries resource) and active-gauge accounting is conserved.
// Histories: the C03 space with the retry breaker configured (max_retries 0 = unlimited, 1..3) and retry-heavy scripts, plus
// GROUPS of concurrent requests sharing one cluster (threshold behaviour).
// Finder (the property itself on the implementation):
//   C10:retries-nonzero-at-idle   Retries().Cur() != its value before the request(s) once everything is over
//   C10:gauge-nonzero-at-idle     DownstreamRequestActive did not return to its value before the request
//   C10:negative                  a counter below its starting value at quiescence
//   C10:threshold                 with max_retries = m, more than m requests held a retry reservation at once, or a retry was
//                                 refused although fewer than m were held

import (
	"fmt"
	"sync"
	"time"

	. "vh/vhlib"
)

func c10Finder(run *Run, j *histJob) {
	r, sp := j.res, j.spec
	replay := map[string]interface{}{"spec": sp, "observed": r.Rec, "done": r.Done, "gauge": r.Gauge, "res": r.Res}
	if r.Panicked != "" {
		run.Fail("C10:panic", "the request worker panicked: "+r.Panicked, replay)
		return
	}
	if newAfterTerminate(r) {
		run.Fail("C10:attempt-after-terminate", "TerminateStream returned true, yet a retry (with its Retries reservation) was started afterwards", replay)
	}
	// upstream streams: a retry must not start while an earlier attempt's stream is still open (the pool's Requests resource and
	// UpstreamRequestActive are released only when the stream is reset / destroyed / answered)
	for _, x := range r.Rec {
		if x.Kind == "up.new" && x.Code > 0 {
			run.Fail("C10:upstream-stream-open-at-retry", fmt.Sprintf("attempt %d started while %d earlier attempt stream(s) of this request were still open (never reset): their Requests admission / UpstreamRequestActive stay counted", x.K, x.Code), replay)
			break
		}
	}
	over := r.Done
	if !over {
		return // a hanging request is C03's finding; nothing is idle yet
	}
	ri := replyOf(r)
	finished := ri.Complete || sp.Oneway || sp.hasEvent("downreset") || sp.hasVerdict("term")
	if sp.GroupKey == "" && r.HasRes && r.Res != 0 {
		sig := "C10:retries-nonzero-at-idle"
		if r.Res < 0 {
			sig = "C10:negative:retries"
		}
		run.Fail(sig, fmt.Sprintf("Retries().Cur() changed by %+d over one finished request (max_retries=%d)", r.Res, sp.MaxRetries), replay)
	}
	if finished && r.Req != 0 && sp.GroupKey == "" && !sp.Oneway {
		sig := "C10:requests-nonzero-at-idle"
		switch {
		case r.Req < 0:
			sig = "C10:negative:requests"
		case terminateDelivered(r):
			sig = "C10:requests-nonzero-at-idle:upstream-left-open-after-terminate"
		}
		run.Fail(sig, fmt.Sprintf("Requests().Cur() / UpstreamRequestActive changed by %+d over one finished request: an upstream stream was never reset", r.Req), replay)
	}
	if finished && r.Gauge != 0 {
		sig := "C10:gauge-nonzero-at-idle"
		if r.Gauge < 0 {
			sig = "C10:negative:gauge"
		}
		run.Fail(sig, fmt.Sprintf("DownstreamRequestActive changed by %+d over one finished request", r.Gauge), replay)
	}
}

func genC10(run *Run) []*Spec {
	r := run.R
	var specs []*Spec
	// the plain request with the breaker configured (the S10 witness), every shape
	for _, mx := range []int{0, 1, 2, 3} {
		for _, sh := range [][3]bool{{false, false, false}, {false, true, false}, {false, true, true}, {true, false, false}} {
			sp := &Spec{Oneway: sh[0], HasData: sh[1], HasTrailers: sh[2], Route: "forward", NHosts: 2, RouteGlobalMs: 3 * slot, MaxRetries: mx,
				Events: []Event{{AtMs: slot, Kind: "upresp", K: 0, Status: 200, Data: r.Intn(2) == 0}}}
			specs = append(specs, sp)
		}
	}
	// per-try time-outs that are retried, upstream silent, Requests breaker at 1: each timed-out attempt must be released before
	// the retry is admitted
	for _, nr := range []int{1, 2} {
		specs = append(specs, &Spec{Route: "forward", NHosts: 2, RouteGlobalMs: 5 * slot, RouteTryMs: slot, RetryOn: true, NumRetries: nr, MaxRequests: 1},
			&Spec{Route: "forward", NHosts: 2, RouteGlobalMs: 5 * slot, RouteTryMs: slot, RetryOn: true, NumRetries: nr, MaxRequests: 4, HasData: true})
	}
	n := run.N(450, 8000)
	for i := 0; i < n; i++ {
		sp := &Spec{Route: "forward", NHosts: 2, RouteGlobalMs: (3+r.Intn(2))*slot + 30, MaxRetries: r.Intn(4), RetryOn: r.Intn(4) != 0, NumRetries: r.Intn(4)}
		switch r.Intn(8) {
		case 0:
			sp.Oneway = true
		case 1, 2:
			sp.HasData = true
		}
		if r.Intn(3) == 0 {
			sp.RouteTryMs = slot + 15
		}
		if r.Intn(4) == 0 {
			sp.MaxRequests = 1 + r.Intn(3) // with 1, a retry on top of a leaked stream would be refused with a spurious overflow
		}
		if r.Intn(5) == 0 {
			sp.StatusCodes = []int{503, 504}
		}
		if r.Intn(3) == 0 {
			sp.Flavour = "http"
		}
		for k := 0; k < 4; k++ {
			switch r.Intn(5) {
			case 0:
				sp.Pool = append(sp.Pool, "connfail")
			case 1:
				sp.Pool = append(sp.Pool, []string{"overflow", "ok"}[r.Intn(2)])
			default:
				sp.Pool = append(sp.Pool, "ok")
			}
		}
		// per-attempt outcomes on successive slots
		t := slot
		needHandler := false
		for att := 0; att < 4; att++ {
			switch r.Intn(9) {
			case 0, 1:
				sp.Events = append(sp.Events, Event{AtMs: t, Kind: "upresp", K: att, Status: 200, Data: r.Intn(2) == 0})
			case 2, 3:
				sp.Events = append(sp.Events, Event{AtMs: t, Kind: "upresp", K: att, Status: []int{500, 503, 404}[r.Intn(3)], Data: r.Intn(3) == 0})
			case 4, 5:
				sp.Events = append(sp.Events, Event{AtMs: t, Kind: "upreset", K: att, Reason: upReasons[r.Intn(len(upReasons))]})
			case 6:
				sp.Events = append(sp.Events, Event{AtMs: t, Kind: "downreset", Reason: "termination"})
			case 7:
				sp.Events = append(sp.Events, Event{AtMs: t, Kind: "terminate", Code: 403})
				needHandler = true
			}
			t += slot
			if r.Intn(4) == 0 {
				t += slot
			}
		}
		if needHandler {
			sp.Filters = []FilterSpec{{Phase: r.Intn(3)}}
		}
		if r.Intn(12) == 0 {
			sp.PoolDelayMs = 25
			sp.Events = []Event{{AtMs: 10, Kind: "terminate", Code: 403}}
			sp.Filters = []FilterSpec{{Phase: 0}}
			if len(sp.Pool) > 0 {
				sp.Pool[0] = "connfail"
			}
		}
		specs = append(specs, sp)
	}
	return specs
}

// groups: g requests on ONE cluster with max_retries = m; each first attempt is answered 503 in slot 1 (retry_on), the retried
// attempts are answered 200 in slot 3: during slot 2 every admitted retry holds one unit of the Retries resource
type groupResult struct {
	M, G      int
	Admitted  int
	Refused   int
	CurMid    int64
	CurEnd    int64
	Gauge     int64
	Undone    int
	MaxLateMs int
	Histories []*Result
}

func runGroup(idBase int, m, g int) *groupResult {
	key := fmt.Sprintf("grp%d", idBase)
	var preps []*prepared
	for i := 0; i < g; i++ {
		sp := &Spec{Route: "forward", NHosts: 2, RouteGlobalMs: 7 * slot, MaxRetries: m, RetryOn: true, NumRetries: 1, GroupKey: key,
			// the 503s are staggered by 5 ms so that the retry decisions are ordered; every admitted retry is held until slot 4
			Events: []Event{{AtMs: slot + 5*i, Kind: "upresp", K: 0, Status: 503}, {AtMs: 4 * slot, Kind: "upresp", K: 1, Status: 200}}}
		preps = append(preps, prepareHistory(idBase+i, sp))
	}
	gr := &groupResult{M: m, G: g, Histories: make([]*Result, g)}
	c0, _ := retriesCur(key)
	var wg sync.WaitGroup
	for i, p := range preps {
		wg.Add(1)
		go func(i int, p *prepared) { defer wg.Done(); gr.Histories[i] = runPrepared(p) }(i, p)
	}
	time.Sleep(time.Duration(3*slot) * time.Millisecond)
	mid, _ := retriesCur(key)
	gr.CurMid = mid - c0
	wg.Wait()
	end, _ := retriesCur(key)
	gr.CurEnd = end - c0
	for _, h := range gr.Histories {
		if !h.Done {
			gr.Undone++
		}
		gr.Gauge += h.Gauge
		for _, x := range h.Rec {
			if x.Kind == "ev.start" {
				if d := int(x.T/1000) - h.Spec.Events[x.K].AtMs; d > gr.MaxLateMs {
					gr.MaxLateMs = d
				}
			}
		}
		if countNew(h) >= 2 {
			gr.Admitted++
		} else {
			gr.Refused++
		}
	}
	return gr
}

func c10(args []string) int {
	run := NewRun("C10", args)
	run.Sum.Rule = "single-request histories with the retry breaker configured (max_retries 0..3): the plain 2xx in every shape, then random per-attempt outcome sequences {2xx, 4xx, 5xx, reset with each reason, client disconnect, TerminateStream, pool connect failure / overflow, per-try and global time-outs} with retry_on/num_retries/status lists; groups of g=1..6 concurrent requests on one cluster with max_retries=m=1..3, all retrying in the same slot (threshold). Plus 37 histories in which the downstream sender returns an error from AppendHeaders / AppendData / AppendTrailers: every reply kind (upstream reply headers-only / with body / with trailers, filter hijack per phase, filter direct response, route direct response, no route, no host, reset / overflow / time-out replies, TerminateStream, send-filter answers, retried 503) x every sender call occurring in it. Non-trivial: max_retries>0 or a retry/timeout/reset path was taken; distinct by the full description."
	specs := genC10(run)
	for i, sp := range genSenderErr() { // the downstream sender fails: the gauges still return to zero
		sp.MaxRetries = i % 3
		specs = append(specs, sp)
	}
	jobs := make([]*histJob, len(specs))
	for i, sp := range specs {
		jobs[i] = &histJob{id: 200000 + i + 1, spec: sp}
	}
	runAll(jobs, 200)
	// sequences of requests re-using the pooled downStream object (gauges per request, as if alone)
	if rc := seqPart(run, 820000, c10Finder); rc != 0 {
		return rc
	}
	// groups (finder only: the shared counter is what the property is about)
	initEnv()
	ng := 0
	for m := 1; m <= 3; m++ {
		for g := 1; g <= run.N(5, 8); g++ {
			gr := runGroup(300000+ng*16, m, g)
			ng++
			want := g
			if want > m {
				want = m
			}
			replay := map[string]interface{}{"max_retries": m, "requests": g, "admitted": gr.Admitted, "refused": gr.Refused, "cur_mid": gr.CurMid, "cur_end": gr.CurEnd}
			run.Count(fmt.Sprintf("group:%d:%d", m, g), true, "group")
			if gr.Undone > 0 || gr.MaxLateMs > 15 {
				run.Sum.Distribution["group:skipped-timing"]++
				continue // the requests did not overlap as scripted; nothing can be concluded about the threshold
			}
			_ = want
			// the threshold, evaluated on the recorded times (robust against a loaded machine): request j decides when its 503 has
			// been processed; it must be admitted iff fewer than m other requests hold a reservation at that moment (decided
			// earlier, not yet released); decisions closer than 1 ms to another decision or release are not judged
			type tl struct {
				dec, rel int64
				adm      bool
			}
			var ts []tl
			for _, h := range gr.Histories {
				var x tl
				x.rel = 1 << 60
				for _, rr := range h.Rec {
					switch {
					case rr.Kind == "ev.end" && rr.K == 0:
						x.dec = rr.T
					case rr.Kind == "up.new" && rr.K == 1:
						x.adm = true
					case rr.Kind == "ev.start" && rr.K == 1:
						x.rel = rr.T
					}
				}
				ts = append(ts, x)
			}
			for j, xj := range ts {
				active, ambiguous := 0, false
				for i, xi := range ts {
					if i == j || !xi.adm {
						if i != j && xi.dec-xj.dec < 1000 && xj.dec-xi.dec < 1000 {
							ambiguous = true
						}
						continue
					}
					if d := xi.dec - xj.dec; d < 1000 && d > -1000 {
						ambiguous = true
					}
					if d := xi.rel - xj.dec; d < 1000 && d > -1000 {
						ambiguous = true
					}
					if xi.dec < xj.dec && xi.rel > xj.dec {
						active++
					}
				}
				if ambiguous {
					run.Sum.Distribution["group:decision-not-judged"]++
					continue
				}
				if xj.adm != (active < m) {
					run.Fail("C10:threshold", fmt.Sprintf("max_retries=%d: a request decided its retry while %d other requests held a reservation and was admitted=%v", m, active, xj.adm), replay)
				}
			}
			if gr.CurMid > int64(m) {
				run.Fail("C10:threshold", fmt.Sprintf("max_retries=%d but Retries().Cur()=%d while the requests were in flight", m, gr.CurMid), replay)
			}
			if gr.CurEnd != 0 {
				sig := "C10:retries-nonzero-at-idle"
				if gr.CurEnd < 0 {
					sig = "C10:negative:retries"
				}
				run.Fail(sig, fmt.Sprintf("group max_retries=%d requests=%d: Retries().Cur() %+d after all requests ended", m, g, gr.CurEnd), replay)
			}
			if gr.Gauge != 0 {
				run.Fail("C10:gauge-nonzero-at-idle", fmt.Sprintf("group: DownstreamRequestActive %+d after all requests ended", gr.Gauge), replay)
			}
			run.Sum.Distribution[fmt.Sprintf("group:m%d:admitted%d", m, gr.Admitted)]++
		}
	}
	return finishProxy(run, jobs, c10Finder, func(sp *Spec) bool { return sp.MaxRetries == 0 && plainSpec(sp) })
}
