package main

// Scripted environment around the REAL proxy (no hooks in /repo):
//   - protocol "vhscript" registered through protocol.RegisterProtocol: scripted connection pool (NewStream fails with a
//     pool reason or returns a recording sender), server stream factory, status mapping
//   - scripted stream filters registered through api.RegisterStream + the stream-filter manager
//   - real router manager, real cluster manager, real proxy network filter factory -> proxy.NewProxy
// Everything the proxy does to the outside (downstream sender calls, pool/upstream sender calls, filter calls) is
// recorded with a timestamp under the history's mutex.

import (
	"context"
	"strings"
	"errors"
	"fmt"
	"net"
	"strconv"
	"sync"
	"sync/atomic"
	"time"

	gometrics "github.com/rcrowley/go-metrics"
	"mosn.io/api"
	v2 "mosn.io/mosn/pkg/config/v2"
	"mosn.io/mosn/pkg/configmanager"
	_ "mosn.io/mosn/pkg/filter/network/proxy"
	"mosn.io/mosn/pkg/log"
	"mosn.io/mosn/pkg/metrics"
	"mosn.io/mosn/pkg/protocol"
	"mosn.io/mosn/pkg/router"
	"mosn.io/mosn/pkg/stream"
	"mosn.io/mosn/pkg/streamfilter"
	"mosn.io/mosn/pkg/types"
	"mosn.io/mosn/pkg/upstream/cluster"
	"mosn.io/pkg/buffer"
	"mosn.io/pkg/variable"
)

const protoName api.ProtocolName = "vhscript"

// the HTTP flavour of the scripted protocol: status mapping = the REAL protocol.GetStatusCodeMapping (HTTP/1.1 and HTTP/2 register
// exactly this one): it ignores the headers and reads the x-mosn-status variable of the request context, which the client stream
// sets when a response arrives (stream/http/stream.go handleResponse, stream/http2/stream.go handleFrame)
const protoNameH api.ProtocolName = "vhscripth"

func (sp *Spec) proto() api.ProtocolName {
	if sp.Flavour == "http" {
		return protoNameH
	}
	return protoName
}
const filterType = "vhscript_filter"

type histKeyT struct{}

var histKey = histKeyT{}

// registry of running histories (by id), used by the filter factory (config carries the id)
var histReg sync.Map

// ---------------------------------------------------------------------------
// recording

type Rec struct {
	T    int64  `json:"t"` // microseconds since history start
	Kind string `json:"k"` // down.hdr down.data down.trl down.reset up.new up.hdr up.data up.trl up.reset up.check filter.recv filter.send ev.* worker.done
	K    int    `json:"i,omitempty"`
	End  bool   `json:"end,omitempty"`
	Code int    `json:"code,omitempty"`
	Aux  string `json:"aux,omitempty"`
	Req  int    `json:"req,omitempty"` // down.hdr of an upstream response: the request it was produced for
	Err  bool   `json:"err,omitempty"` // down.*: the scripted sender returned an error from this call
	Seen string `json:"seen,omitempty"` // filter.send: the response the filter was handed (kind:status)
}

type hist struct {
	id   int
	spec *Spec
	mu   sync.Mutex
	rec  []Rec
	t0   time.Time

	down     *downSender
	ups      []*upStream // one per NewStream call (nil sender when the pool failed)
	nNew     int
	nCheck   int
	handlers []api.StreamReceiverFilterHandler
	recvCall []int
	sendCall []int
	slept    []bool
	cluster  string
	listener string
}

func (h *hist) now() int64 { return time.Since(h.t0).Microseconds() }

func (h *hist) add(r Rec) {
	h.mu.Lock()
	r.T = h.now()
	h.rec = append(h.rec, r)
	h.mu.Unlock()
}

func histOf(ctx context.Context) *hist {
	if ctx == nil {
		return nil
	}
	if v := ctx.Value(histKey); v != nil {
		return v.(*hist)
	}
	return nil
}

// ---------------------------------------------------------------------------
// protocol: mapping, pool, streams

type scriptMapping struct{}

func (scriptMapping) MappingHeaderStatusCode(ctx context.Context, headers api.HeaderMap) (int, error) {
	if headers == nil {
		return 0, errors.New("no headers")
	}
	v, ok := headers.Get("x-status")
	if !ok {
		return 0, errors.New("no status")
	}
	return strconv.Atoi(v)
}

type scriptPool struct {
	host  types.Host
	proto api.ProtocolName
}

func newScriptPool(ctx context.Context, host types.Host) types.ConnectionPool {
	return &scriptPool{host: host, proto: protoName}
}
func newScriptPoolH(ctx context.Context, host types.Host) types.ConnectionPool {
	return &scriptPool{host: host, proto: protoNameH}
}

func (p *scriptPool) Protocol() api.ProtocolName { return p.proto }
func (p *scriptPool) CheckAndInit(ctx context.Context) bool {
	if h := histOf(ctx); h != nil {
		h.mu.Lock()
		n := h.nCheck
		h.nCheck++
		h.mu.Unlock()
		h.add(Rec{Kind: "up.check", K: n, Aux: p.host.AddressString()})
	}
	return true
}
func (p *scriptPool) TLSHashValue() *types.HashValue { return p.host.TLSHashValue() }
func (p *scriptPool) Shutdown()                      {}
func (p *scriptPool) Close()                         {}
func (p *scriptPool) Host() types.Host               { return p.host }

func (p *scriptPool) NewStream(ctx context.Context, receiver types.StreamReceiveListener) (types.Host, types.StreamSender, types.PoolFailureReason) {
	h := histOf(ctx)
	if h == nil {
		return p.host, nil, types.ConnectionFailure
	}
	h.mu.Lock()
	k := h.nNew
	h.nNew++
	res := "ok"
	if k < len(h.spec.Pool) {
		res = h.spec.Pool[k]
	}
	// like the real pools: the Requests breaker admits the stream (overflow otherwise) and is released when the stream is
	// reset / destroyed / answered; streams of this request that are still open are counted for the record
	rm := p.host.ClusterInfo().ResourceManager()
	if res == "ok" && !rm.Requests().CanCreate() {
		res = "overflow"
	}
	live := 0
	for _, o := range h.ups {
		if !o.failed && atomic.LoadUint32(&o.released) == 0 {
			live++
		}
	}
	u := &upStream{h: h, k: k, receiver: receiver, ctx: ctx, failed: res != "ok", host: p.host}
	h.ups = append(h.ups, u)
	h.mu.Unlock()
	if res == "ok" {
		rm.Requests().Increase()
		p.host.HostStats().UpstreamRequestActive.Inc(1)
		p.host.ClusterInfo().Stats().UpstreamRequestActive.Inc(1)
	}
	h.add(Rec{Kind: "up.new", K: k, Code: live, Aux: res + "@" + p.host.AddressString()})
	if n := h.spec.HostsGoneAfter; n > 0 && k+1 == n && h.spec.GroupKey == "" {
		// the environment: every host of the cluster fails its health check while this attempt is in flight (the request keeps its
		// cluster snapshot, the hosts in it are the shared host objects: a later host selection finds no healthy one)
		if snap := clusterMng.GetClusterSnapshot(context.Background(), h.cluster); snap != nil {
			snap.HostSet().Range(func(hst types.Host) bool {
				hst.SetHealthFlag(api.FAILED_ACTIVE_HC)
				return true
			})
		}
		h.add(Rec{Kind: "env.hostsgone", K: k})
	}
	if k == 0 && h.spec.PoolDelayMs > 0 {
		time.Sleep(time.Duration(h.spec.PoolDelayMs) * time.Millisecond)
		h.add(Rec{Kind: "pool.wake", K: k})
	}
	switch res {
	case "overflow":
		return p.host, nil, types.Overflow
	case "connfail":
		return p.host, nil, types.ConnectionFailure
	}
	return p.host, u, ""
}

// upstream stream of one attempt: recording sender on the real BaseStream (listener semantics of the stream layer)
type upStream struct {
	stream.BaseStream
	h        *hist
	k        int
	ctx      context.Context
	receiver types.StreamReceiveListener
	failed   bool
	host     types.Host
	done     uint32 // response delivered or stream reset
	released uint32 // the pool's accounting for this stream was released (exactly once)
}

// release: what the real pools do in OnDestroyStream
func (u *upStream) release() {
	if u.failed || !atomic.CompareAndSwapUint32(&u.released, 0, 1) {
		return
	}
	u.host.ClusterInfo().ResourceManager().Requests().Decrease()
	u.host.HostStats().UpstreamRequestActive.Dec(1)
	u.host.ClusterInfo().Stats().UpstreamRequestActive.Dec(1)
}

func (u *upStream) ID() uint64               { return uint64(u.k) }
func (u *upStream) GetStream() types.Stream  { return u }
func (u *upStream) AppendHeaders(ctx context.Context, headers api.HeaderMap, end bool) error {
	// how often the route's `append` request-header action is visible in what this attempt is sent (x-tag: a[,a...])
	n := 0
	if v, ok := headers.Get("x-tag"); ok && v != "" {
		n = strings.Count(v, ",") + 1
		if strings.HasPrefix(v, "orig") {
			n--
		}
	}
	u.h.add(Rec{Kind: "up.hdr", K: u.k, End: end, Code: n})
	u.sent(end)
	return nil
}
func (u *upStream) AppendData(ctx context.Context, data buffer.IoBuffer, end bool) error {
	u.h.add(Rec{Kind: "up.data", K: u.k, End: end})
	u.sent(end)
	return nil
}
func (u *upStream) AppendTrailers(ctx context.Context, trailers api.HeaderMap) error {
	u.h.add(Rec{Kind: "up.trl", K: u.k})
	u.sent(true)
	return nil
}

// a one-way request has no response: the client stream is finished as soon as the request is written
func (u *upStream) sent(end bool) {
	if end && u.receiver == nil {
		atomic.StoreUint32(&u.done, 1)
		u.BaseStream.DestroyStream()
		u.release()
	}
}

// called by the proxy (upstreamRequest.resetStream): local reset
func (u *upStream) ResetStream(reason types.StreamResetReason) {
	u.h.add(Rec{Kind: "up.reset", K: u.k, Aux: string(reason)})
	atomic.StoreUint32(&u.done, 1)
	u.BaseStream.ResetStream(reason)
	u.release()
}

// environment: the upstream answers
func (u *upStream) respond(status int, data, trailers bool) bool {
	if u.failed || u.receiver == nil || !atomic.CompareAndSwapUint32(&u.done, 0, 1) {
		return false
	}
	hdr := protocol.CommonHeader(map[string]string{"x-status": strconv.Itoa(status), "x-req": strconv.Itoa(u.h.id)})
	var d buffer.IoBuffer
	var t api.HeaderMap
	if data {
		d = buffer.NewIoBufferString("resp")
	}
	if trailers {
		t = protocol.CommonHeader(map[string]string{"x-t": "1"})
	}
	u.release() // the response is complete: the client stream is done
	if u.h.spec.Flavour == "http" {
		// as the HTTP client streams do: the response status goes into the request context
		_ = variable.SetString(u.ctx, types.VarHeaderStatus, strconv.Itoa(status))
	}
	u.receiver.OnReceive(u.ctx, hdr, d, t)
	return true
}

// environment: the upstream stream is reset by the peer / connection
func (u *upStream) remoteReset(reason types.StreamResetReason) bool {
	if u.failed || !atomic.CompareAndSwapUint32(&u.done, 0, 1) {
		return false
	}
	u.release()
	u.BaseStream.ResetStream(reason)
	return true
}

var errSender = errors.New("scripted sender error")

// whose response headers are these?  (see downSender.AppendHeaders)
func classifyReply(ctx context.Context, headers api.HeaderMap) (kind string, code int) {
	kind = "up"
	if headers != nil {
		if v, ok := headers.Get("x-direct"); ok && v == "1" {
			kind = "direct"
		}
		if v, ok := headers.Get("x-status"); ok {
			code, _ = strconv.Atoi(v)
		}
		if kind == "up" {
			_, isReq := headers.Get("service")
			_, isFilt := headers.Get("x-hijacked")
			if isReq || isFilt {
				kind = "hijack"
				if v, err := variable.GetString(ctx, types.VarHeaderStatus); err == nil && v != "" {
					code, _ = strconv.Atoi(v)
				}
			}
		}
	}
	return
}

// downstream: server stream handed to NewStreamDetect
type downSender struct {
	stream.BaseStream
	h *hist
}

func (d *downSender) ID() uint64              { return uint64(d.h.id) }
func (d *downSender) GetStream() types.Stream { return d }
func (d *downSender) AppendHeaders(ctx context.Context, headers api.HeaderMap, end bool) error {
	// whose headers are these?  a filter's direct response carries x-direct; a hijack reuses the REQUEST headers ("service") or a
	// filter-supplied map (x-hijacked); an upstream response carries only x-status.  (The status of a hijack lives in a context
	// variable that TerminateStream and the worker may write concurrently: it is read, but the kind does not depend on it.)
	kind, code := classifyReply(ctx, headers)
	req := 0
	if kind == "up" && headers != nil {
		if v, ok := headers.Get("x-req"); ok {
			req, _ = strconv.Atoi(v) // the request this response was produced for
		}
	}
	if d.h.spec.senderFails("hdr") {
		// the stream layer refuses the headers (as the xprotocol server stream does for a map that is not a response frame):
		// nothing is written, the proxy is not called back
		d.h.add(Rec{Kind: "down.hdr", End: end, Code: code, Aux: kind, Req: req, Err: true})
		d.giveUp(end)
		return errSender
	}
	d.h.add(Rec{Kind: "down.hdr", End: end, Code: code, Aux: kind, Req: req})
	if !end && kind == "up" && d.h.spec.ResetUpOn == "hdr" {
		d.h.lateUpReset()
	}
	if end {
		d.BaseStream.DestroyStream() // the server stream is gone once the reply is complete (later resets do not reach the proxy)
	}
	return nil
}
func (d *downSender) AppendData(ctx context.Context, data buffer.IoBuffer, end bool) error {
	// whose body is it?  upstream responses carry "resp", a filter's direct response "direct", a route's direct response "body"
	owner := "?"
	if data != nil {
		switch data.String() {
		case "resp":
			owner = "up"
		case "direct":
			owner = "direct"
		case "body":
			owner = "hijack"
		default:
			owner = "?" + data.String()
		}
	}
	if d.h.spec.senderFails("data") {
		d.h.add(Rec{Kind: "down.data", End: end, Aux: owner, Err: true})
		d.giveUp(end)
		return errSender
	}
	d.h.add(Rec{Kind: "down.data", End: end, Aux: owner})
	if !end && d.h.spec.ResetUpOn == "data" {
		d.h.lateUpReset()
	}
	if end {
		d.BaseStream.DestroyStream()
	}
	return nil
}
func (d *downSender) AppendTrailers(ctx context.Context, trailers api.HeaderMap) error {
	if d.h.spec.senderFails("trl") {
		d.h.add(Rec{Kind: "down.trl", Err: true})
		d.giveUp(true)
		return errSender
	}
	d.h.add(Rec{Kind: "down.trl"})
	d.BaseStream.DestroyStream()
	return nil
}

// the stream layer resets the upstream stream of the current attempt although its response has been handed over (the stream is
// still registered: e.g. the connection is closed right after the response): the proxy's upstreamRequest gets OnResetStream
func (h *hist) lateUpReset() {
	h.mu.Lock()
	var u *upStream
	if len(h.ups) > 0 {
		u = h.ups[len(h.ups)-1]
	}
	h.mu.Unlock()
	if u == nil || u.failed {
		return
	}
	h.add(Rec{Kind: "ev.inline", K: u.k, Aux: h.spec.ResetUpReason})
	u.BaseStream.ResetStream(reasons[h.spec.ResetUpReason])
}

// a refused call that was the reply's last one: the proxy has handed the whole reply over and will not touch the stream again;
// the scripted stream layer drops its listeners WITHOUT calling them (same environment assumption as for a complete reply: no
// per-stream reset is delivered to the proxy after the end-of-stream call - the proxy's stream object may be recycled by then)
func (d *downSender) giveUp(end bool) {
	if end {
		d.BaseStream.DestroyStream()
	}
}

// called by the proxy (downStream.resetStream)
func (d *downSender) ResetStream(reason types.StreamResetReason) {
	d.h.add(Rec{Kind: "down.reset", Aux: string(reason)})
	d.BaseStream.ResetStream(reason)
}

// environment: the client goes away
func (d *downSender) clientReset(reason types.StreamResetReason) { d.BaseStream.ResetStream(reason) }

// server stream connection: the harness is the codec, so Dispatch is never used
type scriptServerConn struct {
	cb    types.ServerStreamConnectionEventListener
	proto api.ProtocolName
}

func (s *scriptServerConn) Dispatch(buffer.IoBuffer)        {}
func (s *scriptServerConn) Protocol() api.ProtocolName      { return s.proto }
func (s *scriptServerConn) EnableWorkerPool() bool          { return false } // worker = the goroutine calling OnReceive
func (s *scriptServerConn) ActiveStreamsNum() int           { return 0 }
func (s *scriptServerConn) GoAway()                         {}
func (s *scriptServerConn) Reset(types.StreamResetReason)   {}
func (s *scriptServerConn) CheckReasonError(bool, api.ConnectionEvent) (types.StreamResetReason, bool) {
	return types.StreamConnectionSuccessed, true
}

type scriptFactory struct{}

func (scriptFactory) CreateClientStream(context.Context, types.ClientConnection, types.StreamConnectionEventListener, api.ConnectionEventListener) types.ClientStreamConnection {
	return nil
}
func (scriptFactory) CreateServerStream(ctx context.Context, c api.Connection, cb types.ServerStreamConnectionEventListener) types.ServerStreamConnection {
	sc := &scriptServerConn{cb: cb, proto: protoName}
	if h := histOf(ctx); h != nil {
		sc.proto = h.spec.proto()
	}
	if fc, ok := c.(*fakeConn); ok {
		fc.ssc = sc
	}
	return sc
}
func (scriptFactory) CreateBiDirectStream(context.Context, types.ClientConnection, types.StreamConnectionEventListener, types.ServerStreamConnectionEventListener) types.ClientStreamConnection {
	return nil
}
func (scriptFactory) ProtocolMatch(context.Context, string, []byte) error { return nil }

// ---------------------------------------------------------------------------
// fake connection / read-filter callbacks (only what the proxy touches)

type fakeConn struct {
	api.Connection // nil: any method the proxy is not expected to call panics
	id             uint64
	ssc            *scriptServerConn
	listeners      []api.ConnectionEventListener
	closed         uint32
}

func (c *fakeConn) ID() uint64          { return c.id }
func (c *fakeConn) LocalAddr() net.Addr  { return &net.TCPAddr{IP: net.IPv4(127, 0, 0, 1), Port: 2045} }
func (c *fakeConn) RemoteAddr() net.Addr { return &net.TCPAddr{IP: net.IPv4(127, 0, 0, 1), Port: 40000} }
func (c *fakeConn) SetCollector(read, write gometrics.Counter) {}
func (c *fakeConn) AddConnectionEventListener(l api.ConnectionEventListener) {
	c.listeners = append(c.listeners, l)
}
func (c *fakeConn) RawConn() net.Conn { return nil }
func (c *fakeConn) closeEvent() {
	if atomic.CompareAndSwapUint32(&c.closed, 0, 1) {
		for _, l := range c.listeners {
			l.OnEvent(api.RemoteClose)
		}
	}
}

type fakeReadCb struct {
	api.ReadFilterCallbacks
	conn *fakeConn
}

func (f *fakeReadCb) Connection() api.Connection { return f.conn }

type fakeNetCb struct{ rf api.ReadFilter }

func (f *fakeNetCb) AddReadFilter(rf api.ReadFilter)   { f.rf = rf }
func (f *fakeNetCb) AddWriteFilter(wf api.WriteFilter) {}

// ---------------------------------------------------------------------------
// scripted stream filters

type filterFactory struct{ hid int }

func (f *filterFactory) CreateFilterChain(ctx context.Context, cb api.StreamFilterChainFactoryCallbacks) {
	v, ok := histReg.Load(f.hid)
	if !ok {
		return
	}
	h := v.(*hist)
	for i, fs := range h.spec.Filters {
		if fs.Send {
			cb.AddStreamSenderFilter(&sendFilter{h: h, idx: i}, api.BeforeSend)
		} else {
			cb.AddStreamReceiverFilter(&recvFilter{h: h, idx: i}, api.ReceiverFilterPhase(fs.Phase))
		}
	}
}

type recvFilter struct {
	h       *hist
	idx     int
	handler api.StreamReceiverFilterHandler
}

func (f *recvFilter) OnDestroy() { f.h.add(Rec{Kind: "filter.destroy", K: f.idx}) }
func (f *recvFilter) SetReceiveFilterHandler(hd api.StreamReceiverFilterHandler) {
	f.handler = hd
	f.h.mu.Lock()
	f.h.handlers = append(f.h.handlers, hd)
	f.h.mu.Unlock()
}
func (f *recvFilter) OnReceive(ctx context.Context, headers api.HeaderMap, buf buffer.IoBuffer, trailers api.HeaderMap) api.StreamFilterStatus {
	h := f.h
	h.mu.Lock()
	n := h.recvCall[f.idx]
	h.recvCall[f.idx]++
	h.mu.Unlock()
	v := "continue"
	if vs := h.spec.Filters[f.idx].Verdicts; n < len(vs) {
		v = vs[n]
	}
	h.add(Rec{Kind: "filter.recv", K: f.idx, Code: int(f.handler.GetFilterCurrentPhase()), Aux: v})
	if d := h.spec.Filters[f.idx].DelayMs; d > 0 {
		h.mu.Lock()
		first := !h.slept[f.idx]
		h.slept[f.idx] = true
		h.mu.Unlock()
		if first {
			h.add(Rec{Kind: "filter.sleep", K: f.idx})
			time.Sleep(time.Duration(d) * time.Millisecond)
			h.add(Rec{Kind: "filter.wake", K: f.idx})
		}
	}
	code := h.spec.Filters[f.idx].Code
	switch v {
	case "stop":
		return api.StreamFilterStop
	case "term":
		return api.StreamFiltertermination
	case "hijack":
		f.handler.SendHijackReply(code, headers)
		return api.StreamFilterStop
	case "hijackc":
		f.handler.SendHijackReply(code, headers)
		return api.StreamFilterContinue
	case "direct":
		hdr := protocol.CommonHeader(map[string]string{"x-status": strconv.Itoa(code), "x-direct": "1"})
		f.handler.SendDirectResponse(hdr, buffer.NewIoBufferString("direct"), nil)
		return api.StreamFilterStop
	case "rematch":
		return api.StreamFilterReMatchRoute
	case "rechoose":
		return api.StreamFilterReChooseHost
	}
	return api.StreamFilterContinue
}

type sendFilter struct {
	h   *hist
	idx int
}

func (f *sendFilter) OnDestroy()                                             { f.h.add(Rec{Kind: "filter.destroy", K: f.idx}) }
func (f *sendFilter) SetSenderFilterHandler(hd api.StreamSenderFilterHandler) {}
func (f *sendFilter) Append(ctx context.Context, headers api.HeaderMap, buf buffer.IoBuffer, trailers api.HeaderMap) api.StreamFilterStatus {
	h := f.h
	h.mu.Lock()
	n := h.sendCall[f.idx]
	h.sendCall[f.idx]++
	h.mu.Unlock()
	v := "continue"
	if vs := h.spec.Filters[f.idx].Verdicts; n < len(vs) {
		v = vs[n]
	}
	sk, sc := classifyReply(ctx, headers)
	h.add(Rec{Kind: "filter.send", K: f.idx, Aux: v, Seen: fmt.Sprintf("%s:%d", sk, sc)})
	// a send filter answers through the receive handler it kept (as the transcoder filter does on a transcoding failure)
	var rh api.StreamReceiverFilterHandler
	h.mu.Lock()
	if len(h.handlers) > 0 {
		rh = h.handlers[0]
	}
	h.mu.Unlock()
	code := h.spec.Filters[f.idx].Code
	if d := h.spec.Filters[f.idx].DelayMs; d > 0 {
		h.mu.Lock()
		first := !h.slept[f.idx]
		h.slept[f.idx] = true
		h.mu.Unlock()
		if first {
			h.add(Rec{Kind: "filter.sleep", K: f.idx})
			time.Sleep(time.Duration(d) * time.Millisecond)
			h.add(Rec{Kind: "filter.wake", K: f.idx})
		}
	}
	switch v {
	case "stop":
		return api.StreamFilterStop
	case "term":
		return api.StreamFiltertermination
	case "hijack":
		if rh != nil {
			rh.SendHijackReply(code, protocol.CommonHeader(map[string]string{"x-hijacked": "1"}))
		}
		return api.StreamFilterStop
	case "direct":
		if rh != nil {
			hdr := protocol.CommonHeader(map[string]string{"x-status": strconv.Itoa(code), "x-direct": "1"})
			rh.SendDirectResponse(hdr, buffer.NewIoBufferString("direct"), nil)
		}
		return api.StreamFilterStop
	}
	return api.StreamFilterContinue
}

// ---------------------------------------------------------------------------
// one-time initialisation of the real managers

var groupClusters sync.Map
var initOnce sync.Once
var clusterMng types.ClusterManager

func initEnv() {
	initOnce.Do(func() {
		log.DefaultLogger.SetLogLevel(log.FATAL)
		log.Proxy.SetLogLevel(log.FATAL)
		log.StartLogger.SetLogLevel(log.FATAL)
		if err := protocol.RegisterProtocol(protoName, newScriptPool, scriptFactory{}, scriptMapping{}); err != nil {
			panic(err)
		}
		if err := protocol.RegisterProtocol(protoNameH, newScriptPoolH, scriptFactory{}, protocol.GetStatusCodeMapping{}); err != nil {
			panic(err)
		}
		api.RegisterStream(filterType, func(conf map[string]interface{}) (api.StreamFilterChainFactory, error) {
			id, _ := conf["hist"].(float64)
			if s, ok := conf["hist"].(int); ok {
				id = float64(s)
			}
			return &filterFactory{hid: int(id)}, nil
		})
		// the processor callback initialises the proxy package's global stats / worker pool
		configmanager.ParseServerConfig(&v2.ServerConfig{})
		clusterMng = cluster.NewClusterManagerSingleton(nil, nil, nil)
	})
}

// lane = the per-history MOSN objects: listener name (stats + stream filters), router config, cluster
func setupHistory(h *hist) (api.ReadFilter, *fakeConn, context.Context, error) {
	sp := h.spec
	h.cluster = fmt.Sprintf("c%d", h.id)
	if sp.GroupKey != "" {
		h.cluster = sp.GroupKey
	}
	h.listener = fmt.Sprintf("l%d", h.id)
	rname := fmt.Sprintf("r%d", h.id)
	histReg.Store(h.id, h)

	// cluster + hosts (unless the route is meant to point to a missing cluster)
	if _, exists := groupClusters.LoadOrStore(h.cluster, true); sp.Route != "nocluster" && !(exists && sp.GroupKey != "") {
		cc := v2.Cluster{
			Name: h.cluster, ClusterType: v2.SIMPLE_CLUSTER, LbType: v2.LB_ROUNDROBIN, MaxRequestPerConn: 1024, ConnBufferLimitBytes: 32768,
		}
		if sp.MaxRetries > 0 || sp.MaxRequests > 0 {
			cc.CirBreThresholds = v2.CircuitBreakers{Thresholds: []v2.Thresholds{{MaxRetries: uint32(sp.MaxRetries), MaxRequests: uint32(sp.MaxRequests)}}}
		}
		var hosts []v2.Host
		for i := 0; i < sp.NHosts; i++ {
			hosts = append(hosts, v2.Host{HostConfig: v2.HostConfig{Address: fmt.Sprintf("10.%d.%d.%d:80", (h.id>>8)&255, h.id&255, i+1)}})
		}
		if err := clusterMng.AddOrUpdateClusterAndHost(cc, hosts); err != nil {
			return nil, nil, nil, err
		}
	}
	// router
	rt := v2.Router{}
	rt.Match.Headers = []v2.HeaderMatcher{{Name: "service", Value: "svc"}}
	switch sp.Route {
	case "direct":
		rt.DirectResponse = &v2.DirectResponseAction{StatusCode: sp.DirectCode}
	case "directbody":
		rt.DirectResponse = &v2.DirectResponseAction{StatusCode: sp.DirectCode, Body: "body"}
	default:
		rt.Route.ClusterName = h.cluster
		rt.Route.Timeout = time.Duration(sp.RouteGlobalMs) * time.Millisecond
		rt.Route.RetryPolicy = &v2.RetryPolicy{
			RetryPolicyConfig: v2.RetryPolicyConfig{RetryOn: sp.RetryOn, NumRetries: uint32(sp.NumRetries)},
			RetryTimeout:      time.Duration(sp.RouteTryMs) * time.Millisecond,
		}
		for _, c := range sp.StatusCodes {
			rt.Route.RetryPolicy.StatusCodes = append(rt.Route.RetryPolicy.StatusCodes, uint32(c))
		}
		if sp.RouteHeaderActions {
			yes := true
			rt.Route.RequestHeadersToAdd = []*v2.HeaderValueOption{{Header: &v2.HeaderValue{Key: "x-tag", Value: "a"}, Append: &yes}}
		}
	}
	rc := &v2.RouterConfiguration{
		RouterConfigurationConfig: v2.RouterConfigurationConfig{RouterConfigName: rname},
		VirtualHosts:              []v2.VirtualHost{{Name: "vh", Domains: []string{"*"}, Routers: []v2.Router{rt}}},
	}
	if err := router.GetRoutersMangerInstance().AddOrUpdateRouters(rc); err != nil {
		return nil, nil, nil, err
	}
	// stream filters
	var fcfg []v2.Filter
	if len(sp.Filters) > 0 {
		fcfg = []v2.Filter{{Type: filterType, Config: map[string]interface{}{"hist": h.id}}}
	}
	if err := streamfilter.GetStreamFilterManager().AddOrUpdateStreamFilterConfig(h.listener, fcfg); err != nil {
		return nil, nil, nil, err
	}
	return newProxyConn(h, h.listener, rname)
}

// connection-level context as server/handler.go builds it, the proxy's network filter on a fresh (fake) connection
func newProxyConn(h *hist, listener, rname string) (api.ReadFilter, *fakeConn, context.Context, error) {
	base := context.WithValue(context.Background(), histKey, h)
	ctx := variable.NewVariableContext(base)
	_ = variable.Set(ctx, types.VariableAccessLogs, []api.AccessLog{})
	_ = variable.Set(ctx, types.VariableListenerName, listener)
	nf, err := api.CreateNetworkFilterChainFactory(v2.DEFAULT_NETWORK_FILTER, map[string]interface{}{
		"downstream_protocol": string(h.spec.proto()), "upstream_protocol": string(h.spec.proto()), "router_config_name": rname,
	})
	if err != nil {
		return nil, nil, nil, err
	}
	cb := &fakeNetCb{}
	nf.CreateFilterChain(ctx, cb)
	if cb.rf == nil {
		return nil, nil, nil, errors.New("no proxy read filter")
	}
	conn := &fakeConn{id: uint64(h.id)}
	cb.rf.InitializeReadFilterCallbacks(&fakeReadCb{conn: conn})
	if conn.ssc == nil {
		return nil, nil, nil, errors.New("server stream connection not created")
	}
	return cb.rf, conn, ctx, nil
}

func listenerGauge(name string) int64 {
	return metrics.NewListenerStats(name).Counter(metrics.DownstreamRequestActive).Count()
}

func retriesCur(clusterName string) (int64, bool) {
	snap := clusterMng.GetClusterSnapshot(context.Background(), clusterName)
	if snap == nil {
		return 0, false
	}
	return snap.ClusterInfo().ResourceManager().Retries().Cur(), true
}

func requestsCur(clusterName string) int64 {
	snap := clusterMng.GetClusterSnapshot(context.Background(), clusterName)
	if snap == nil {
		return 0
	}
	return snap.ClusterInfo().ResourceManager().Requests().Cur()
}
