package main

// Translators of the group `proxy`: Gen/ProxyTokens.v is regenerated from /repo on every run.
//   proxy_loop_bound     : N of `for i := 0; i < N; i++` inside the task closure of downStream.OnReceive (go/ast)
//   proxy_min_budget     : retiesRemaining literal of newRetryState (go/ast)
//   proxy_reset_guarded  : shape of retryState.reset(): bare `...Retries().Decrease()` (false) or
//                          `if r.<flag> { ...Decrease() ... }` (true) (go/ast)
//   proxy_direct_clears_again : processError's `if s.directResponse {..}` block assigns receiverFiltersAgainPhase = InitPhase (go/ast)
//   proxy_retry_checks_direct : doRetry has a top-level `if s.directResponse { return }` (go/ast)
//   proxy_retry_refinalizes : doRetry calls FinalizeRequestHeaders (go/ast); proxy_timers_reset_stream : onPerReqTimeout and
//                          onResponseTimeout call upstreamRequest.resetStream() (go/ast)
//   proxy_retry_clears_reuse / proxy_setupretry_clears_reuse : atomic.StoreUint32(&s.reuseBuffer, 0) in doRetry / in the
//                          `if !endStream` block of setupRetry (go/ast)
//   proxy_global_lost_cas_stops : the global timer closure of onUpstreamRequestSent has `if !CompareAndSwapUint32(..) { return }`
//                          with nothing else in the condition (go/ast)
//   proxy_append_error_continues : downStream.appendHeaders handles an error of responseSender.AppendHeaders by logging only
//                          (block of the `if err := ...; err != nil` has nothing but log calls), and appendData / appendTrailers
//                          discard the sender's result or only log it (go/ast)
//   proxy_reset_excludes_global : the retry test of onUpstreamReset has the conjunct `reason != types.UpstreamGlobalTimeout` (go/ast)
//   proxy_reset_reads_status : the `if` of doRetryCheck that calls MappingHeaderStatusCode is entered for resets too (condition is
//                          just `ctx != nil`); false when it also requires `reason == ""` or `headers != nil` (go/ast)
//   proxy_res_counts_unlimited : resource.Increase / Decrease of the cluster resource manager are not guarded by `r.max != 0` (go/ast)
//   proxy_send_once_per_upreq : the RunSenderFilter call of the UpFilter case of receive() sits under a condition (go/ast)
//   proxy_started_marked_first : onUpstreamHeaders assigns downstreamResponseStarted before it calls appendHeaders and assigns no
//                          field of the stream after that call (go/ast)
//   proxy_try_captures_id / proxy_global_captures_id : the timer closure of setupPerReqTimeout / onUpstreamRequestSent uses a variable
//                          that the arming function assigned from atomic.LoadUint32(&s.ID) outside the closure (go/ast)
//   proxy_on_reset_checks_done : downStream.OnResetStream mentions upstreamProcessDone (go/ast)
//   proxy_disable_retry_first : the first statement of doRetryCheck reads types.VarProxyDisableRetry (go/ast)
//   proxy_hijack_clears_body : sendHijackReply assigns downstreamRespDataBuf = nil at top level (go/ast)
//   proxy_put_resets_cursor : streamfilter.PutStreamFilterChain (or a chain method it calls) assigns 0 to both cursors (go/ast)
//   proxy_default_global_ms : types.GlobalTimeout (evaluated)
//   proxy_reason_code    : types.ConvertReasonToCode evaluated on every reset reason (runs the real function)
//   phase order          : the types.Phase constants have the order the model's [phase] assumes (runs the real constants)

import (
	"fmt"
	"time"
	"go/ast"
	"go/token"
	"strings"

	"mosn.io/mosn/pkg/types"

	. "vh/vhlib"
)

var gens = map[string]GenFn{"ProxyTokens": genProxyTokens, "ProxyBuiltinTokens": genProxyBuiltinTokens}

func callsDecrease(n ast.Node) bool {
	found := false
	ast.Inspect(n, func(x ast.Node) bool {
		if ce, ok := x.(*ast.CallExpr); ok {
			if se, ok := ce.Fun.(*ast.SelectorExpr); ok && se.Sel.Name == "Decrease" {
				found = true
			}
		}
		return true
	})
	return found
}

func genProxyTokens(repo string) (string, error) {
	var b strings.Builder
	ok := true
	b.WriteString("From Coq Require Import ZArith.\nFrom MV Require Import Model.Proxy.\nOpen Scope Z_scope.\n")

	// --- loop bound of OnReceive
	_, f, err := ParseGoFile(repo, "pkg/proxy/downstream.go")
	if err != nil {
		return "", err
	}
	fd := FindFunc(f, "downStream", "OnReceive")
	if fd == nil {
		return "", fmt.Errorf("downStream.OnReceive not found")
	}
	bound := ""
	nfor := 0
	ast.Inspect(fd.Body, func(n ast.Node) bool {
		fs, isFor := n.(*ast.ForStmt)
		if !isFor {
			return true
		}
		nfor++
		be, isBin := fs.Cond.(*ast.BinaryExpr)
		if !isBin || be.Op != token.LSS {
			return true
		}
		if lit, isLit := be.Y.(*ast.BasicLit); isLit && lit.Kind == token.INT {
			if as, isAs := fs.Init.(*ast.AssignStmt); isAs && len(as.Rhs) == 1 {
				if z, isZ := as.Rhs[0].(*ast.BasicLit); isZ && z.Value == "0" {
					bound = lit.Value
				}
			}
		}
		return true
	})
	if nfor != 1 || bound == "" {
		ok = false
		bound = "10"
	}
	fmt.Fprintf(&b, "Definition proxy_loop_bound : nat := %s%%nat.\n", bound)

	// --- does the direct-response branch of processError cancel a pending re-match / re-choose?
	dca, dcr, dru := false, false, false
	if pe := FindFunc(f, "downStream", "processError"); pe != nil {
		nif := 0
		ast.Inspect(pe.Body, func(n ast.Node) bool {
			is, isIf := n.(*ast.IfStmt)
			if !isIf {
				return true
			}
			se, isSel := is.Cond.(*ast.SelectorExpr)
			if !isSel || se.Sel.Name != "directResponse" {
				return true
			}
			nif++
			for _, st := range is.Body.List {
				if as, isAs := st.(*ast.AssignStmt); isAs && len(as.Lhs) == 1 {
					if l, isL := as.Lhs[0].(*ast.SelectorExpr); isL && l.Sel.Name == "receiverFiltersAgainPhase" {
						if r, isR := as.Rhs[0].(*ast.SelectorExpr); isR && r.Sel.Name == "InitPhase" {
							dca = true
						}
					}
				}
			}
			// cancels a retry set up in the same call: `if s.retryState != nil { s.retryState.reset() }` and
			// `if s.upstreamRequest != nil { s.upstreamRequest.setupRetry = false }`
			hasReset, hasCancel := false, false
			ast.Inspect(is.Body, func(m ast.Node) bool {
				switch x := m.(type) {
				case *ast.CallExpr:
					if se, isSel := x.Fun.(*ast.SelectorExpr); isSel && se.Sel.Name == "reset" {
						hasReset = true
					}
				case *ast.AssignStmt:
					if len(x.Lhs) == 1 && len(x.Rhs) == 1 {
						if l, isL := x.Lhs[0].(*ast.SelectorExpr); isL && l.Sel.Name == "setupRetry" {
							if id, isID := x.Rhs[0].(*ast.Ident); isID && id.Name == "false" {
								hasCancel = true
							}
						}
					}
				}
				return true
			})
			if hasReset != hasCancel {
				ok = false
			}
			dcr = hasReset && hasCancel
			ast.Inspect(is.Body, func(m ast.Node) bool {
				if ce, isCall := m.(*ast.CallExpr); isCall {
					if se, isSel := ce.Fun.(*ast.SelectorExpr); isSel && se.Sel.Name == "resetStream" {
						dru = true
					}
				}
				return true
			})
			return true
		})
		if nif != 1 {
			ok = false
		}
	} else {
		ok = false
	}
	fmt.Fprintf(&b, "Definition proxy_direct_clears_again : bool := %v.\n", dca)
	fmt.Fprintf(&b, "Definition proxy_direct_cancels_retry : bool := %v.\n", dcr)
	fmt.Fprintf(&b, "Definition proxy_direct_resets_upstream : bool := %v.\n", dru)

	// --- does PutStreamFilterChain (or a method it calls on the chain) zero both filter cursors before the chain is pooled?
	putResets := false
	if _, cf, err := ParseGoFile(repo, "pkg/streamfilter/chain.go"); err == nil {
		zeroed := map[string]bool{}
		var visit func(body *ast.BlockStmt, depth int)
		visit = func(body *ast.BlockStmt, depth int) {
			ast.Inspect(body, func(n ast.Node) bool {
				switch x := n.(type) {
				case *ast.AssignStmt:
					if len(x.Lhs) == 1 && len(x.Rhs) == 1 {
						if l, isL := x.Lhs[0].(*ast.SelectorExpr); isL {
							if lit, isLit := x.Rhs[0].(*ast.BasicLit); isLit && lit.Value == "0" {
								zeroed[l.Sel.Name] = true
							}
						}
					}
				case *ast.CallExpr:
					if se, isSel := x.Fun.(*ast.SelectorExpr); isSel && depth < 2 {
						if m := FindFunc(cf, "DefaultStreamFilterChainImpl", se.Sel.Name); m != nil {
							visit(m.Body, depth+1)
						}
					}
				}
				return true
			})
		}
		if put := FindFunc(cf, "", "PutStreamFilterChain"); put != nil {
			visit(put.Body, 0)
			putResets = zeroed["receiverFiltersIndex"] && zeroed["senderFiltersIndex"]
		} else {
			ok = false
		}
	} else {
		ok = false
	}
	fmt.Fprintf(&b, "Definition proxy_put_resets_cursor : bool := %v.\n", putResets)

	// --- does doRetry give up when a local reply became pending during the retry interval?
	rcd := false
	if dr := FindFunc(f, "downStream", "doRetry"); dr != nil {
		for _, st := range dr.Body.List {
			is, isIf := st.(*ast.IfStmt)
			if !isIf {
				continue
			}
			if se, isSel := is.Cond.(*ast.SelectorExpr); isSel && se.Sel.Name == "directResponse" && len(is.Body.List) == 1 {
				if _, isRet := is.Body.List[0].(*ast.ReturnStmt); isRet {
					rcd = true
				}
			}
		}
	} else {
		ok = false
	}
	fmt.Fprintf(&b, "Definition proxy_retry_checks_direct : bool := %v.\n", rcd)
	// --- does doRetry run the route's FinalizeRequestHeaders (again)?  do the timer callbacks reset the upstream stream themselves?
	callsIn := func(fn, callee string) (bool, bool) {
		fd := FindFunc(f, "downStream", fn)
		if fd == nil {
			return false, false
		}
		found := false
		ast.Inspect(fd.Body, func(n ast.Node) bool {
			if ce, isCall := n.(*ast.CallExpr); isCall {
				if se, isSel := ce.Fun.(*ast.SelectorExpr); isSel && se.Sel.Name == callee {
					found = true
				}
			}
			return true
		})
		return found, true
	}
	refin, ok1 := callsIn("doRetry", "FinalizeRequestHeaders")
	r1, ok2 := callsIn("onPerReqTimeout", "resetStream")
	r2, ok3 := callsIn("onResponseTimeout", "resetStream")
	if !ok1 || !ok2 || !ok3 || r1 != r2 {
		ok = false
	}
	fmt.Fprintf(&b, "Definition proxy_retry_refinalizes : bool := %v.\n", refin)
	fmt.Fprintf(&b, "Definition proxy_timers_reset_stream : bool := %v.\n", r1 && r2)

	// --- does sendHijackReply (the body-less hijack) drop a response body stored earlier?  (top-level `s.downstreamRespDataBuf = nil`)
	hcb := false
	if sh := FindFunc(f, "downStream", "sendHijackReply"); sh != nil {
		for _, st := range sh.Body.List {
			if as, isAs := st.(*ast.AssignStmt); isAs && len(as.Lhs) == 1 && len(as.Rhs) == 1 {
				if l, isL := as.Lhs[0].(*ast.SelectorExpr); isL && l.Sel.Name == "downstreamRespDataBuf" {
					if id, isID := as.Rhs[0].(*ast.Ident); isID && id.Name == "nil" {
						hcb = true
					}
				}
			}
		}
	} else {
		ok = false
	}
	fmt.Fprintf(&b, "Definition proxy_hijack_clears_body : bool := %v.\n", hcb)

	// --- where reuseBuffer is cleared on the retry path: in doRetry?  in the `!endStream` block of setupRetry?
	storesReuse := func(n ast.Node) bool {
		found := false
		ast.Inspect(n, func(x ast.Node) bool {
			if ce, isCall := x.(*ast.CallExpr); isCall {
				if se, isSel := ce.Fun.(*ast.SelectorExpr); isSel && se.Sel.Name == "StoreUint32" && len(ce.Args) == 2 {
					if u, isU := ce.Args[0].(*ast.UnaryExpr); isU {
						if f2, isF := u.X.(*ast.SelectorExpr); isF && f2.Sel.Name == "reuseBuffer" {
							if lit, isLit := ce.Args[1].(*ast.BasicLit); isLit && lit.Value == "0" {
								found = true
							}
						}
					}
				}
			}
			return true
		})
		return found
	}
	rcr, scr := false, false
	if dr := FindFunc(f, "downStream", "doRetry"); dr != nil {
		rcr = storesReuse(dr.Body)
	} else {
		ok = false
	}
	if sr := FindFunc(f, "downStream", "setupRetry"); sr != nil {
		for _, st := range sr.Body.List {
			if is, isIf := st.(*ast.IfStmt); isIf {
				if u, isU := is.Cond.(*ast.UnaryExpr); isU && u.Op == token.NOT {
					if id, isID := u.X.(*ast.Ident); isID && id.Name == "endStream" && storesReuse(is.Body) {
						scr = true
					}
				}
			}
		}
	} else {
		ok = false
	}
	fmt.Fprintf(&b, "Definition proxy_retry_clears_reuse : bool := %v.\n", rcr)
	fmt.Fprintf(&b, "Definition proxy_setupretry_clears_reuse : bool := %v.\n", scr)

	// --- the global timer callback: does a lost CAS on upstreamResponseReceived always end it?  (`if !CAS(..) { return }`)
	glc, glcSeen := false, 0
	if us := FindFunc(f, "downStream", "onUpstreamRequestSent"); us != nil {
		isCAS := func(e ast.Expr) bool {
			u, isU := e.(*ast.UnaryExpr)
			if !isU || u.Op != token.NOT {
				return false
			}
			ce, isCall := u.X.(*ast.CallExpr)
			if !isCall {
				return false
			}
			se, isSel := ce.Fun.(*ast.SelectorExpr)
			return isSel && se.Sel.Name == "CompareAndSwapUint32"
		}
		ast.Inspect(us.Body, func(n ast.Node) bool {
			is, isIf := n.(*ast.IfStmt)
			if !isIf {
				return true
			}
			if isCAS(is.Cond) {
				glcSeen++
				glc = true
			} else if be, isBin := is.Cond.(*ast.BinaryExpr); isBin && (isCAS(be.X) || isCAS(be.Y)) {
				glcSeen++
			}
			return true
		})
	}
	if glcSeen != 1 {
		ok = false
	}
	fmt.Fprintf(&b, "Definition proxy_global_lost_cas_stops : bool := %v.\n", glc)

	// --- what the append steps do with an error returned by the downstream sender
	// handling(fn, method): 0 = call not found / unknown shape, 1 = result discarded or only logged, 2 = the error block does more
	onlyLogs := func(blk *ast.BlockStmt) bool {
		for _, st := range blk.List {
			es, isExpr := st.(*ast.ExprStmt)
			if !isExpr {
				return false
			}
			ce, isCall := es.X.(*ast.CallExpr)
			if !isCall {
				return false
			}
			root := ce.Fun
			for {
				if se, isSel := root.(*ast.SelectorExpr); isSel {
					root = se.X
					continue
				}
				break
			}
			if id, isID := root.(*ast.Ident); !isID || id.Name != "log" {
				return false
			}
		}
		return true
	}
	isSenderCall := func(e ast.Expr, method string) bool {
		ce, isCall := e.(*ast.CallExpr)
		if !isCall {
			return false
		}
		se, isSel := ce.Fun.(*ast.SelectorExpr)
		if !isSel || se.Sel.Name != method {
			return false
		}
		rs, isRS := se.X.(*ast.SelectorExpr)
		return isRS && rs.Sel.Name == "responseSender"
	}
	handling := func(fn, method string) int {
		fd := FindFunc(f, "downStream", fn)
		if fd == nil {
			return 0
		}
		res, seen := 0, 0
		for _, st := range fd.Body.List {
			switch x := st.(type) {
			case *ast.ExprStmt:
				if isSenderCall(x.X, method) {
					seen++
					res = 1
				}
			case *ast.IfStmt:
				if as, isAs := x.Init.(*ast.AssignStmt); isAs && len(as.Rhs) == 1 && isSenderCall(as.Rhs[0], method) {
					seen++
					if x.Else == nil && onlyLogs(x.Body) {
						res = 1
					} else {
						res = 2
					}
				}
			case *ast.AssignStmt:
				if len(x.Rhs) == 1 && isSenderCall(x.Rhs[0], method) {
					seen++
					res = 2 // the result is kept: what happens to it is not understood by this translator
				}
			}
		}
		if seen != 1 {
			return 0
		}
		return res
	}
	hh, hd, ht := handling("appendHeaders", "AppendHeaders"), handling("appendData", "AppendData"), handling("appendTrailers", "AppendTrailers")
	if hh == 0 || hd != 1 || ht != 1 {
		ok = false
	}
	// the reply is finished through endStream() at the end of appendHeaders: `if endStream { s.endStream() }` as last statement
	if ah := FindFunc(f, "downStream", "appendHeaders"); ah != nil && len(ah.Body.List) > 0 {
		last, isIf := ah.Body.List[len(ah.Body.List)-1].(*ast.IfStmt)
		if !isIf {
			ok = false
		} else if id, isID := last.Cond.(*ast.Ident); !isID || id.Name != "endStream" {
			ok = false
		}
	}
	fmt.Fprintf(&b, "Definition proxy_append_error_continues : bool := %v.\n", hh == 1)

	// --- retry budget default and reset() shape
	_, rf, err := ParseGoFile(repo, "pkg/proxy/retrystate.go")
	if err != nil {
		return "", err
	}
	// --- onUpstreamReset: is UpstreamGlobalTimeout kept away from the retry state?
	var conjuncts func(e ast.Expr) []ast.Expr
	conjuncts = func(e ast.Expr) []ast.Expr {
		if pe, isP := e.(*ast.ParenExpr); isP {
			return conjuncts(pe.X)
		}
		if be, isBin := e.(*ast.BinaryExpr); isBin && be.Op == token.LAND {
			return append(conjuncts(be.X), conjuncts(be.Y)...)
		}
		return []ast.Expr{e}
	}
	cmp := func(e ast.Expr, op token.Token, lhs string, rhs func(ast.Expr) bool) bool {
		be, isBin := e.(*ast.BinaryExpr)
		if !isBin || be.Op != op {
			return false
		}
		id, isID := be.X.(*ast.Ident)
		return isID && id.Name == lhs && rhs(be.Y)
	}
	exclG, exclSeen := false, false
	if ur := FindFunc(f, "downStream", "onUpstreamReset"); ur != nil {
		for _, st := range ur.Body.List {
			is, isIf := st.(*ast.IfStmt)
			if !isIf {
				continue
			}
			calls := false
			ast.Inspect(is, func(n ast.Node) bool {
				if ce, isCall := n.(*ast.CallExpr); isCall {
					if se, isSel := ce.Fun.(*ast.SelectorExpr); isSel && se.Sel.Name == "retry" {
						calls = true
					}
				}
				return true
			})
			if !calls {
				continue
			}
			exclSeen = true
			for _, cj := range conjuncts(is.Cond) {
				if cmp(cj, token.NEQ, "reason", func(y ast.Expr) bool {
					se, isSel := y.(*ast.SelectorExpr)
					return isSel && se.Sel.Name == "UpstreamGlobalTimeout"
				}) {
					exclG = true
				}
			}
			break
		}
	}
	if !exclSeen {
		ok = false
	}
	fmt.Fprintf(&b, "Definition proxy_reset_excludes_global : bool := %v.\n", exclG)
	// --- doRetryCheck: is the status mapping consulted when a reset is judged?
	readsStatus, mapSeen := true, 0
	if dc := FindFunc(rf, "retryState", "doRetryCheck"); dc != nil {
		ast.Inspect(dc.Body, func(n ast.Node) bool {
			is, isIf := n.(*ast.IfStmt)
			if !isIf {
				return true
			}
			direct := false // the mapping is called by a statement of this if's own block
			for _, st := range is.Body.List {
				if as, isAs := st.(*ast.AssignStmt); isAs && len(as.Rhs) == 1 {
					if ce, isCall := as.Rhs[0].(*ast.CallExpr); isCall {
						if se, isSel := ce.Fun.(*ast.SelectorExpr); isSel && se.Sel.Name == "MappingHeaderStatusCode" {
							direct = true
						}
					}
				}
			}
			if !direct {
				return true
			}
			mapSeen++
			for _, cj := range conjuncts(is.Cond) {
				isEmpty := func(y ast.Expr) bool { l, isLit := y.(*ast.BasicLit); return isLit && l.Value == `""` }
				isNil := func(y ast.Expr) bool { id, isID := y.(*ast.Ident); return isID && id.Name == "nil" }
				switch {
				case cmp(cj, token.EQL, "reason", isEmpty), cmp(cj, token.NEQ, "headers", isNil):
					readsStatus = false
				case cmp(cj, token.NEQ, "ctx", isNil):
				default:
					ok = false // a condition this translator does not understand
				}
			}
			return true
		})
	}
	if mapSeen != 1 {
		ok = false
	}
	fmt.Fprintf(&b, "Definition proxy_reset_reads_status : bool := %v.\n", readsStatus)
	// --- doRetryCheck reads proxy_disable_retry in its FIRST statement (before any return that depends on the route)
	disableFirst := false
	if dc := FindFunc(rf, "retryState", "doRetryCheck"); dc != nil && len(dc.Body.List) > 0 {
		ast.Inspect(dc.Body.List[0], func(n ast.Node) bool {
			if se, isSel := n.(*ast.SelectorExpr); isSel && se.Sel.Name == "VarProxyDisableRetry" {
				disableFirst = true
			}
			return true
		})
	} else {
		ok = false
	}
	fmt.Fprintf(&b, "Definition proxy_disable_retry_first : bool := %v.\n", disableFirst)
	// --- cluster resource manager: do Increase / Decrease count while no limit is configured (max == 0)?
	countsUnlimited := false
	if _, mf, err := ParseGoFile(repo, "pkg/upstream/cluster/resource_manager.go"); err == nil {
		shapeOf := func(name string) int { // 1 = guarded by `r.max != 0`, 2 = unconditional, 0 = not understood
			fd := FindFunc(mf, "resource", name)
			if fd == nil || len(fd.Body.List) != 1 {
				return 0
			}
			adds := func(n ast.Node) bool {
				found := false
				ast.Inspect(n, func(x ast.Node) bool {
					if ce, isCall := x.(*ast.CallExpr); isCall {
						if se, isSel := ce.Fun.(*ast.SelectorExpr); isSel && se.Sel.Name == "AddInt64" {
							found = true
						}
					}
					return true
				})
				return found
			}
			switch st := fd.Body.List[0].(type) {
			case *ast.ExprStmt:
				if adds(st) {
					return 2
				}
			case *ast.IfStmt:
				be, isBin := st.Cond.(*ast.BinaryExpr)
				if isBin && be.Op == token.NEQ && st.Else == nil && adds(st.Body) {
					if se, isSel := be.X.(*ast.SelectorExpr); isSel && se.Sel.Name == "max" {
						if l, isLit := be.Y.(*ast.BasicLit); isLit && l.Value == "0" {
							return 1
						}
					}
				}
			}
			return 0
		}
		si, sd := shapeOf("Increase"), shapeOf("Decrease")
		if si == 0 || si != sd {
			ok = false
		}
		countsUnlimited = si == 2
	} else {
		ok = false
	}
	fmt.Fprintf(&b, "Definition proxy_res_counts_unlimited : bool := %v.\n", countsUnlimited)
	// --- the UpFilter phase of receive(): is the send-filter chain run unconditionally on every entry of the phase?
	sendOnce, upfSeen := false, 0
	if rc := FindFunc(f, "downStream", "receive"); rc != nil {
		ast.Inspect(rc.Body, func(n ast.Node) bool {
			cc, isCase := n.(*ast.CaseClause)
			if !isCase || len(cc.List) != 1 {
				return true
			}
			se, isSel := cc.List[0].(*ast.SelectorExpr)
			if !isSel || se.Sel.Name != "UpFilter" {
				return true
			}
			upfSeen++
			runs := func(n ast.Node) bool {
				found := false
				ast.Inspect(n, func(x ast.Node) bool {
					if ce, isCall := x.(*ast.CallExpr); isCall {
						if s2, isS := ce.Fun.(*ast.SelectorExpr); isS && s2.Sel.Name == "RunSenderFilter" {
							found = true
						}
					}
					return true
				})
				return found
			}
			top := false
			for _, st := range cc.Body {
				if _, isExpr := st.(*ast.ExprStmt); isExpr && runs(st) {
					top = true
				}
			}
			if !top {
				if runs(cc) {
					sendOnce = true // the call sits under a condition
				} else {
					ok = false
				}
			}
			return false
		})
	}
	if upfSeen != 1 {
		ok = false
	}
	fmt.Fprintf(&b, "Definition proxy_send_once_per_upreq : bool := %v.\n", sendOnce)
	// --- onUpstreamHeaders: downstreamResponseStarted is set before appendHeaders (which may end the stream and give the object
	// back to the pool), and nothing of the stream is assigned after that call
	markedFirst := false
	if uh := FindFunc(f, "downStream", "onUpstreamHeaders"); uh != nil {
		callAt, markAt, lateWrite := -1, -1, false
		for i, st := range uh.Body.List {
			if es, isExpr := st.(*ast.ExprStmt); isExpr {
				if ce, isCall := es.X.(*ast.CallExpr); isCall {
					if se, isSel := ce.Fun.(*ast.SelectorExpr); isSel && se.Sel.Name == "appendHeaders" {
						callAt = i
					}
				}
			}
			if as, isAs := st.(*ast.AssignStmt); isAs {
				for _, l := range as.Lhs {
					if se, isSel := l.(*ast.SelectorExpr); isSel {
						if id, isID := se.X.(*ast.Ident); isID && id.Name == "s" {
							if se.Sel.Name == "downstreamResponseStarted" && markAt < 0 {
								markAt = i
							}
							if callAt >= 0 {
								lateWrite = true
							}
						}
					}
				}
			}
		}
		if callAt < 0 || markAt < 0 {
			ok = false
		}
		markedFirst = markAt >= 0 && callAt >= 0 && markAt < callAt && !lateWrite
	} else {
		ok = false
	}
	fmt.Fprintf(&b, "Definition proxy_started_marked_first : bool := %v.\n", markedFirst)
	// --- the timer functions: the proxy ID they compare the object's current ID with is a variable of the ARMING function, assigned
	// from atomic.LoadUint32(&s.ID) outside the closure and used inside it
	capturesID := func(fn string) bool {
		fd := FindFunc(f, "downStream", fn)
		if fd == nil {
			ok = false
			return false
		}
		isLoadID := func(e ast.Expr) bool {
			ce, isCall := e.(*ast.CallExpr)
			if !isCall || len(ce.Args) != 1 {
				return false
			}
			se, isSel := ce.Fun.(*ast.SelectorExpr)
			if !isSel || se.Sel.Name != "LoadUint32" {
				return false
			}
			u, isU := ce.Args[0].(*ast.UnaryExpr)
			if !isU {
				return false
			}
			fs, isF := u.X.(*ast.SelectorExpr)
			return isF && fs.Sel.Name == "ID"
		}
		found, timers := false, 0
		ast.Inspect(fd.Body, func(n ast.Node) bool {
			blk, isBlk := n.(*ast.BlockStmt)
			if !isBlk {
				return true
			}
			caps := map[string]bool{}
			for _, st := range blk.List {
				if as, isAs := st.(*ast.AssignStmt); isAs && as.Tok == token.DEFINE && len(as.Lhs) == 1 && len(as.Rhs) == 1 && isLoadID(as.Rhs[0]) {
					if id, isID := as.Lhs[0].(*ast.Ident); isID {
						caps[id.Name] = true
					}
				}
				// s.xxxTimer = utils.NewTimer(d, func() {...}) in this block
				as, isAs := st.(*ast.AssignStmt)
				if !isAs || len(as.Rhs) != 1 {
					continue
				}
				ce, isCall := as.Rhs[0].(*ast.CallExpr)
				if !isCall || len(ce.Args) != 2 {
					continue
				}
				if se, isSel := ce.Fun.(*ast.SelectorExpr); !isSel || se.Sel.Name != "NewTimer" {
					continue
				}
				fl, isFn := ce.Args[1].(*ast.FuncLit)
				if !isFn {
					continue
				}
				timers++
				ast.Inspect(fl.Body, func(x ast.Node) bool {
					if id, isID := x.(*ast.Ident); isID && caps[id.Name] {
						found = true
					}
					return true
				})
			}
			return true
		})
		if timers != 1 {
			ok = false
		}
		return found
	}
	// --- downStream.OnResetStream does not look at upstreamProcessDone (proxy.onDownstreamEvent does, for a closing connection)
	resetChecksDone := false
	if or := FindFunc(f, "downStream", "OnResetStream"); or != nil {
		ast.Inspect(or.Body, func(n ast.Node) bool {
			if se, isSel := n.(*ast.SelectorExpr); isSel && se.Sel.Name == "upstreamProcessDone" {
				resetChecksDone = true
			}
			return true
		})
	} else {
		ok = false
	}
	fmt.Fprintf(&b, "Definition proxy_on_reset_checks_done : bool := %v.\n", resetChecksDone)
	fmt.Fprintf(&b, "Definition proxy_try_captures_id : bool := %v.\n", capturesID("setupPerReqTimeout"))
	fmt.Fprintf(&b, "Definition proxy_global_captures_id : bool := %v.\n", capturesID("onUpstreamRequestSent"))
	minBudget := ""
	if nf := FindFunc(rf, "", "newRetryState"); nf != nil {
		ast.Inspect(nf.Body, func(n ast.Node) bool {
			if kv, isKV := n.(*ast.KeyValueExpr); isKV {
				if id, isID := kv.Key.(*ast.Ident); isID && id.Name == "retiesRemaining" {
					if lit, isLit := kv.Value.(*ast.BasicLit); isLit && lit.Kind == token.INT {
						minBudget = lit.Value
					}
				}
			}
			return true
		})
	}
	if minBudget == "" {
		ok = false
		minBudget = "3"
	}
	fmt.Fprintf(&b, "Definition proxy_min_budget : nat := %s%%nat.\n", minBudget)
	guarded := false
	if rs := FindFunc(rf, "retryState", "reset"); rs != nil && len(rs.Body.List) == 1 {
		switch st := rs.Body.List[0].(type) {
		case *ast.ExprStmt:
			if !callsDecrease(st) {
				ok = false
			}
		case *ast.IfStmt:
			if st.Else == nil && callsDecrease(st.Body) {
				guarded = true
			} else {
				ok = false
			}
		default:
			ok = false
		}
	} else {
		ok = false
	}
	fmt.Fprintf(&b, "Definition proxy_reset_guarded : bool := %v.\n", guarded)

	// --- reason -> code
	rs := []struct {
		coq string
		r   types.StreamResetReason
	}{
		{"RsTermination", types.StreamConnectionTermination}, {"RsConnFailed", types.StreamConnectionFailed},
		{"RsLocalReset", types.StreamLocalReset}, {"RsOverflow", types.StreamOverflow}, {"RsRemoteReset", types.StreamRemoteReset},
		{"RsUpstreamReset", types.UpstreamReset}, {"RsGlobalTimeout", types.UpstreamGlobalTimeout},
		{"RsPerTryTimeout", types.UpstreamPerTryTimeout}, {"RsEmpty", ""},
	}
	b.WriteString("Definition proxy_reason_code (r : reason) : Z :=\n  match r with\n")
	for _, x := range rs {
		fmt.Fprintf(&b, "  | %s => %d\n", x.coq, types.ConvertReasonToCode(x.r))
	}
	b.WriteString("  end.\n")

	// --- phase order
	phases := []types.Phase{types.InitPhase, types.DownFilter, types.MatchRoute, types.DownFilterAfterRoute, types.ChooseHost,
		types.DownFilterAfterChooseHost, types.DownRecvHeader, types.DownRecvData, types.DownRecvTrailer, types.Oneway, types.Retry,
		types.WaitNotify, types.UpFilter, types.UpRecvHeader, types.UpRecvData, types.UpRecvTrailer, types.End}
	for i, p := range phases {
		if int(p) != i {
			ok = false
		}
	}
	fmt.Fprintf(&b, "Definition proxy_default_global_ms : Z := %d.\n", int64(types.GlobalTimeout/time.Millisecond))
	b.WriteString("Definition proxy_src : srcp :=\n  {| loop_bound := proxy_loop_bound; min_budget := proxy_min_budget; reset_guarded := proxy_reset_guarded;\n     direct_clears_again := proxy_direct_clears_again;\n     direct_cancels_retry := proxy_direct_cancels_retry; direct_resets_upstream := proxy_direct_resets_upstream;\n     put_resets_cursor := proxy_put_resets_cursor;\n     retry_checks_direct := proxy_retry_checks_direct; retry_refinalizes := proxy_retry_refinalizes;\n     timers_reset_stream := proxy_timers_reset_stream; hijack_clears_body := proxy_hijack_clears_body;\n     retry_clears_reuse := proxy_retry_clears_reuse; setupretry_clears_reuse := proxy_setupretry_clears_reuse;\n     global_lost_cas_stops := proxy_global_lost_cas_stops; append_error_continues := proxy_append_error_continues;\n     reset_excludes_global := proxy_reset_excludes_global; reset_reads_status := proxy_reset_reads_status;\n     res_counts_unlimited := proxy_res_counts_unlimited;\n     send_once_per_upreq := proxy_send_once_per_upreq; started_marked_first := proxy_started_marked_first;\n     try_captures_id := proxy_try_captures_id; global_captures_id := proxy_global_captures_id;\n     on_reset_checks_done := proxy_on_reset_checks_done; disable_retry_first := proxy_disable_retry_first;\n     reason_code := proxy_reason_code |}.\n")
	fmt.Fprintf(&b, "Definition ProxyTokens_translator_ok := %v.\n", ok)
	return b.String(), nil
}

// ProxyBuiltinTokens: how the built-in deny filters get their configuration (Model/ProxyBuiltin.v [bsrc]).
//   *_fresh    : the factory's CreateFilterChain builds the filter only through NewFilter(ctx, f.Config), and NewFilter converts
//                the configuration anew (the filter's config field / the constructor's config argument is a make*Config(..) call)
//   *_replaces : ReadPerRouteConfig assigns f.config (the pointer) and never a field of it
//   ip_access  : OnReceive assigns nothing reachable from the filter object (the shared lists are only read)
func genProxyBuiltinTokens(repo string) (string, error) {
	var b strings.Builder
	b.WriteString("From MV Require Import Model.ProxyBuiltin.\n")
	ok := true
	shape := func(dir string) (fresh, replaces bool) {
		_, ff, err := ParseGoFile(repo, "pkg/filter/stream/"+dir+"/factory.go")
		if err != nil {
			ok = false
			return
		}
		_, fl, err := ParseGoFile(repo, "pkg/filter/stream/"+dir+"/"+dir+".go")
		if err != nil {
			ok = false
			return
		}
		// factory: every plain-function call in CreateFilterChain that yields the filter is NewFilter(_, f.Config)
		cf := FindFunc(ff, "FilterConfigFactory", "CreateFilterChain")
		nf := FindFunc(fl, "", "NewFilter")
		if cf == nil || nf == nil {
			ok = false
			return
		}
		fresh = true
		seenNew := 0
		ast.Inspect(cf.Body, func(n ast.Node) bool {
			ce, isCall := n.(*ast.CallExpr)
			if !isCall {
				return true
			}
			if id, isID := ce.Fun.(*ast.Ident); isID {
				if id.Name == "NewFilter" && len(ce.Args) == 2 {
					if se, isSel := ce.Args[1].(*ast.SelectorExpr); isSel && se.Sel.Name == "Config" {
						seenNew++
						return true
					}
				}
				fresh = false // some other constructor / helper is used
			}
			return true
		})
		if seenNew != 1 {
			fresh = false
		}
		// NewFilter converts anew
		isMake := func(e ast.Expr) bool {
			ce, isCall := e.(*ast.CallExpr)
			if !isCall {
				return false
			}
			id, isID := ce.Fun.(*ast.Ident)
			return isID && strings.HasPrefix(id.Name, "make") && len(ce.Args) == 1
		}
		converts := false
		ast.Inspect(nf.Body, func(n ast.Node) bool {
			switch x := n.(type) {
			case *ast.KeyValueExpr:
				if id, isID := x.Key.(*ast.Ident); isID && id.Name == "config" && isMake(x.Value) {
					converts = true
				}
			case *ast.ReturnStmt:
				if len(x.Results) == 1 {
					if ce, isCall := x.Results[0].(*ast.CallExpr); isCall && len(ce.Args) > 0 && isMake(ce.Args[len(ce.Args)-1]) {
						converts = true
					}
				}
			}
			return true
		})
		if !converts {
			fresh = false
		}
		// ReadPerRouteConfig: assigns the pointer, never a field of the object
		var rp *ast.FuncDecl
		for _, d := range fl.Decls {
			if fd, isFn := d.(*ast.FuncDecl); isFn && fd.Name.Name == "ReadPerRouteConfig" && fd.Recv != nil {
				rp = fd
			}
		}
		if rp == nil {
			ok = false
			return
		}
		ptr, field := 0, 0
		ast.Inspect(rp.Body, func(n ast.Node) bool {
			as, isAs := n.(*ast.AssignStmt)
			if !isAs {
				return true
			}
			for _, l := range as.Lhs {
				se, isSel := l.(*ast.SelectorExpr)
				if !isSel {
					continue
				}
				if inner, isInner := se.X.(*ast.SelectorExpr); isInner && inner.Sel.Name == "config" {
					field++
				} else if _, isID := se.X.(*ast.Ident); isID && se.Sel.Name == "config" {
					ptr++
				}
			}
			return true
		})
		replaces = ptr == 1 && field == 0
		if ptr+field == 0 {
			ok = false
		}
		return
	}
	plf, plr := shape("payloadlimit")
	fif, fir := shape("faultinject")
	// ip_access: OnReceive writes nothing into the filter / its shared lists
	if _, fa, err := ParseGoFile(repo, "pkg/filter/stream/ipaccess/stream_filter.go"); err == nil {
		if or := FindFunc(fa, "IPAccessFilter", "OnReceive"); or != nil {
			ast.Inspect(or.Body, func(n ast.Node) bool {
				if as, isAs := n.(*ast.AssignStmt); isAs {
					for _, l := range as.Lhs {
						root := l
						for {
							switch x := root.(type) {
							case *ast.SelectorExpr:
								root = x.X
								continue
							case *ast.IndexExpr:
								root = x.X
								continue
							}
							break
						}
						if id, isID := root.(*ast.Ident); isID && id.Name == "f" {
							ok = false
						}
					}
				}
				return true
			})
		} else {
			ok = false
		}
	} else {
		ok = false
	}
	// the stream-filter manager builds one factory per configured ENTRY (no factory cache keyed by the filter type)
	if _, sc, err := ParseGoFile(repo, "pkg/streamfilter/config.go"); err == nil {
		if cf := FindFunc(sc, "", "createStreamFilterFactoryFromConfig"); cf != nil {
			ast.Inspect(cf.Body, func(n ast.Node) bool {
				if _, isMap := n.(*ast.MapType); isMap {
					ok = false
				}
				return true
			})
		} else {
			ok = false
		}
	} else {
		ok = false
	}
	fmt.Fprintf(&b, "Definition proxy_bsrc : bsrc := {| pl_fresh := %v; pl_replaces := %v; fi_fresh := %v; fi_replaces := %v |}.\n", plf, plr, fif, fir)
	fmt.Fprintf(&b, "Definition ProxyBuiltinTokens_translator_ok := %v.\n", ok)
	return b.String(), nil
}
