package main

// C02 (proxy half) - the pooled per-request objects (proxyBuffers: the downStream and the pooled upstreamRequest of the first
// attempt) are recycled only when nothing of the finished request can still reach them.
// Sequences of two requests on ONE goroutine through the real buffer pool: request A runs with its event script; the moment its
// worker returns, request B is created and driven on the same goroutine (the pool hands A's objects to B when A gave them back:
// detected by pointer identity of the downStream).  While B waits for its upstream, a reply that was already under way for an
// abandoned, unanswered attempt of A is delivered to that attempt's listener (the stream layer calls OnReceive after releasing its
// table lock); only then B's own upstream answers.  Every scripted response carries the id of the request it was produced for.
// Finder: C02:foreign-reply-after-recycle - a downstream was sent content produced for another request.

import (
	"fmt"
	"strconv"
	"time"

	"mosn.io/api"
	"mosn.io/mosn/pkg/protocol"
	"mosn.io/mosn/pkg/types"
	"mosn.io/pkg/buffer"

	. "vh/vhlib"
)

type c02Pair struct {
	a, b     *Spec
	lateK    int // attempt of A whose late reply is delivered while B waits (-1: none)
	ra, rb   *Result
	recycled bool
	lateSent bool
}

// run A (with events) and then B on the same goroutine; returns when both are over
func runC02Pair(idBase int, pj *c02Pair) {
	pa := prepareHistory(idBase, pj.a)
	pb := prepareHistory(idBase+1, pj.b)
	pj.ra, pj.rb = &Result{Spec: pj.a}, &Result{Spec: pj.b}
	if pa.err != nil || pb.err != nil {
		pj.ra.Err = fmt.Sprint(pa.err, pb.err)
		return
	}
	ha, hb := pa.h, pb.h
	ga0, gb0 := listenerGauge(ha.listener), listenerGauge(hb.listener)
	actxA, hdrA, dataA, trlA, sndA := buildRequest(ha, pa.connCtx)
	actxB, hdrB, dataB, trlB, sndB := buildRequest(hb, pb.connCtx)
	ha.t0 = time.Now()
	doneB := make(chan struct{})
	var ptrA, ptrB string
	go func() {
		defer close(doneB)
		ra := pa.conn.ssc.cb.NewStreamDetect(actxA, sndA, nil)
		ptrA = fmt.Sprintf("%p", ra)
		ra.OnReceive(actxA, hdrA, dataA, trlA)
		ha.add(Rec{Kind: "worker.done"})
		pj.ra.Done = true
		// B right away, same goroutine: no scheduling point between A's giveStream and B's acquisition
		hb.t0 = time.Now()
		rb := pb.conn.ssc.cb.NewStreamDetect(actxB, sndB, nil)
		ptrB = fmt.Sprintf("%p", rb)
		rb.OnReceive(actxB, hdrB, dataB, trlB)
		hb.add(Rec{Kind: "worker.done"})
		pj.rb.Done = true
	}()
	// A's event script
	for i := range pj.a.Events {
		e := pj.a.Events[i]
		go func(idx int) {
			if d := time.Until(ha.t0.Add(time.Duration(e.AtMs) * time.Millisecond)); d > 0 {
				time.Sleep(d)
			}
			ha.add(Rec{Kind: "ev.start", K: idx, Aux: e.Kind})
			ok := false
			if u := ha.up(e.K); u != nil {
				switch e.Kind {
				case "upresp":
					ok = u.respond(e.Status, e.Data, e.Trailers)
				case "upreset":
					ok = u.remoteReset(reasons[e.Reason])
				}
			}
			ha.add(Rec{Kind: "ev.end", K: idx, Aux: map[bool]string{true: "delivered", false: "ignored"}[ok]})
		}(i)
	}
	// wait until B is parked on its upstream, deliver the late reply of A's abandoned attempt, then B's own answer
	deadline := time.Now().Add(2 * time.Second)
	for time.Now().Before(deadline) {
		if hb.up(0) != nil {
			break
		}
		time.Sleep(time.Millisecond)
	}
	time.Sleep(15 * time.Millisecond)
	if pj.lateK >= 0 {
		if u := ha.up(pj.lateK); u != nil && u.receiver != nil && !u.failed {
			// the reply was picked up by the IO goroutine before the stream was reset: it reaches the attempt's listener now
			hdr := protocol.CommonHeader(map[string]string{"x-status": "209", "x-req": strconv.Itoa(ha.id)})
			hb.add(Rec{Kind: "ev.late", K: pj.lateK, Aux: "late reply of the first request's attempt"})
			func() {
				defer func() { recover() }()
				u.receiver.OnReceive(u.ctx, hdr, buffer.NewIoBufferString("resp"), nil)
			}()
			pj.lateSent = true
		}
	}
	time.Sleep(25 * time.Millisecond)
	if u := hb.up(0); u != nil {
		hb.add(Rec{Kind: "ev.start", K: 0, Aux: "upresp"})
		ok := false
		func() {
			defer func() {
				if r := recover(); r != nil {
					hb.add(Rec{Kind: "ev.panic", K: 0, Aux: fmt.Sprint(r)}) // the listener object was recycled under the open stream
				}
			}()
			ok = u.respond(200, false, false)
		}()
		hb.add(Rec{Kind: "ev.end", K: 0, Aux: map[bool]string{true: "delivered", false: "ignored"}[ok]})
	}
	select {
	case <-doneB:
	case <-time.After(1500 * time.Millisecond):
		pb.conn.closeEvent()
		pa.conn.closeEvent()
		select {
		case <-doneB:
		case <-time.After(500 * time.Millisecond):
		}
	}
	pj.recycled = ptrA != "" && ptrA == ptrB
	collect := func(h *hist, r *Result, g0 int64) {
		r.Gauge = listenerGauge(h.listener) - g0
		h.mu.Lock()
		r.Rec = append([]Rec(nil), h.rec...)
		h.mu.Unlock()
		r.WaitedMs = int(time.Since(h.t0).Milliseconds()) + 5
		histReg.Delete(h.id)
	}
	collect(ha, pj.ra, ga0)
	collect(hb, pj.rb, gb0)
}

// whose content was the downstream of history h sent?  (x-req header of the reply headers, recorded by the sender)
func repliedFor(r *Result) (int, bool) {
	for _, x := range r.Rec {
		if x.Kind == "down.hdr" && x.Aux == "up" && x.Req != 0 {
			return x.Req, true
		}
	}
	return 0, false
}

func c02(args []string) int {
	run := NewRun("C02", args)
	run.Sum.Rule = "pairs of requests A, B served back to back on one goroutine through the real proxyBuffers pool. A: plain success (recycled legitimately) / first attempt reset by the connection (termination, connect failure) then the retry answered / 5xx retried / per-try time-out then answered / hijacked; B: plain request parked on its upstream while a late reply of A's abandoned attempt is delivered to that attempt's listener, then B's own answer. Every response is tagged with the request it was produced for. Plus the sequences of seq.go (requests back to back on one goroutine re-using the pooled downStream object; every request also alone in a process of its own), among them request A whose per-try / global timer functions run after A has ended (Timer.Stop too late) while B holds A's object, in every phase of B. Non-trivial: A had an abandoned attempt or the objects were recycled; distinct by (A, late attempt)."
	initEnv()
	mkB := func() *Spec {
		return &Spec{Route: "forward", NHosts: 2, RouteGlobalMs: 400, Events: []Event{{AtMs: 40, Kind: "upresp", K: 0, Status: 200}}}
	}
	firsts := []struct {
		sp   *Spec
		late int
	}{
		{&Spec{Route: "forward", NHosts: 2, RouteGlobalMs: 300, Events: []Event{{AtMs: 20, Kind: "upresp", K: 0, Status: 200}}}, -1},
		{&Spec{Route: "forward", NHosts: 2, RouteGlobalMs: 300, RetryOn: true, Events: []Event{{AtMs: 20, Kind: "upreset", K: 0, Reason: "termination"}, {AtMs: 50, Kind: "upresp", K: 1, Status: 200}}}, 0},
		{&Spec{Route: "forward", NHosts: 2, RouteGlobalMs: 300, Events: []Event{{AtMs: 20, Kind: "upreset", K: 0, Reason: "connfailed"}, {AtMs: 50, Kind: "upresp", K: 1, Status: 200}}}, 0},
		{&Spec{Route: "forward", NHosts: 2, RouteGlobalMs: 300, RetryOn: true, HasData: true, Events: []Event{{AtMs: 20, Kind: "upreset", K: 0, Reason: "termination"}, {AtMs: 50, Kind: "upreset", K: 1, Reason: "termination"}, {AtMs: 80, Kind: "upresp", K: 2, Status: 200, Data: true}}}, 1},
		{&Spec{Route: "forward", NHosts: 2, RouteGlobalMs: 300, RetryOn: true, Events: []Event{{AtMs: 20, Kind: "upresp", K: 0, Status: 503}, {AtMs: 50, Kind: "upresp", K: 1, Status: 200}}}, -1},
		{&Spec{Route: "forward", NHosts: 2, RouteGlobalMs: 300, RouteTryMs: 30, RetryOn: true, Events: []Event{{AtMs: 60, Kind: "upresp", K: 1, Status: 200}}}, 0},
		{&Spec{Route: "forward", NHosts: 2, RouteGlobalMs: 300, Events: []Event{{AtMs: 20, Kind: "upreset", K: 0, Reason: "remotereset"}}}, 0},
	}
	reps := run.N(4, 15)
	var pairs []*c02Pair
	for _, f := range firsts {
		for k := 0; k < reps; k++ {
			pairs = append(pairs, &c02Pair{a: f.sp, b: mkB(), lateK: f.late})
		}
	}
	psh := run.NewShard(shardHeader, "c02case", "c02_mismatches proxy_src")
	for i, pj := range pairs {
		runC02Pair(800000+2*i, pj)
		if pj.ra.Err != "" {
			fmt.Println("harness error:", pj.ra.Err)
			return 2
		}
		replay := map[string]interface{}{"first": pj.a, "second": pj.b, "late_reply_of_first_attempt": pj.lateK, "recycled": pj.recycled,
			"first_observed": pj.ra.Rec, "second_observed": pj.rb.Rec}
		run.Count(fmt.Sprintf("c02:%s:%d", specKey(pj.a), pj.lateK), pj.recycled || pj.lateK >= 0, "pair", map[bool]string{true: "recycled", false: "not-recycled"}[pj.recycled])
		// the property itself: every downstream is sent content produced for its own request
		for _, hr := range []struct {
			r  *Result
			id int
		}{{pj.ra, 800000 + 2*i}, {pj.rb, 800000 + 2*i + 1}} {
			if who, ok := repliedFor(hr.r); ok && who != hr.id {
				run.Fail("C02:foreign-reply-after-recycle", fmt.Sprintf("request %d was sent a response produced for request %d (objects recycled: %v)", hr.id, who, pj.recycled), replay)
			}
		}
		// model comparison: A; recycled => the model's giveStream gave; B with the late reply as an upstream response on its
		// pooled attempt object when the objects were recycled
		rbm := *pj.rb
		if pj.recycled && pj.lateSent {
			spb := *pj.b
			spb.Events = []Event{{AtMs: 0, Kind: "upresp", K: 0, Status: 209, Data: true}, {AtMs: 0, Kind: "upresp", K: 0, Status: 200}}
			rbm.Spec = &spb
			// rewrite the records: the late delivery is event 0, B's own answer event 1
			var rec []Rec
			for _, x := range rbm.Rec {
				switch {
				case x.Kind == "ev.late":
					rec = append(rec, Rec{T: x.T, Kind: "ev.start", K: 0, Aux: "upresp"}, Rec{T: x.T + 1, Kind: "ev.end", K: 0, Aux: "delivered"})
				case (x.Kind == "ev.start" || x.Kind == "ev.end") && x.K == 0:
					y := x
					y.K = 1
					rec = append(rec, y)
				default:
					rec = append(rec, x)
				}
			}
			rbm.Rec = rec
		}
		psh.Add(fmt.Sprintf("{| c2_first := %s;\n    c2_recycled := %s;\n    c2_second := %s |}", coqCase(pj.ra), CoqBool(pj.recycled), coqCase(&rbm)), replay)
		if i%5 == 0 {
			run.Sample(map[string]interface{}{"first": pj.a, "recycled": pj.recycled, "late": pj.lateK})
		}
	}
	psh.Close()
	// sequences on recycled downStream objects, with the late timer functions of the previous owner
	if rc := seqPart(run, 860000, func(*Run, *histJob) {}); rc != 0 {
		return rc
	}
	return run.Finish()
}

var _ = api.ProtocolName("")
var _ types.StreamResetReason
