package main

// Coq terms for a recorded history: model configuration, timeline rounds, observables.

import (
	"fmt"
	"strings"

	. "vh/vhlib"
)

const shardHeader = "From Coq Require Import List ZArith Bool.\nFrom MV Require Import Model.Proxy Model.ProxyCheck Gen.ProxyTokens.\nImport ListNotations.\nOpen Scope Z_scope.\n"

// events closer than this (microseconds) are reported to the model as racy (same round)
const clusterUs = 5000

var coqReason = map[string]string{
	"termination": "RsTermination", "connfailed": "RsConnFailed", "localreset": "RsLocalReset", "overflow": "RsOverflow",
	"remotereset": "RsRemoteReset", "upstreamreset": "RsUpstreamReset",
}
var coqVerdict = map[string]string{
	"continue": "VContinue", "stop": "VStop", "term": "VTerm", "hijack": "VHijack", "hijackc": "VHijackCont", "direct": "VDirect",
	"rematch": "VReMatch", "rechoose": "VReChoose",
}
var coqPool = map[string]string{"ok": "PoolOk", "overflow": "PoolOverflow", "connfail": "PoolConnFail"}
var coqFilterPhase = map[int]string{0: "PDownFilter", 1: "PAfterRoute", 2: "PAfterChoose"}

func coqVerdicts(vs []string) string {
	var xs []string
	for _, v := range vs {
		xs = append(xs, coqVerdict[v])
	}
	return CoqList(xs)
}

// a send filter answers through a receive handler; in a chain without receive filter the scripted send filter has none, does
// nothing and returns Stop
func (sp *Spec) sendVerdict(v string) string {
	if v == "hijack" || v == "direct" {
		for _, f := range sp.Filters {
			if !f.Send {
				return v
			}
		}
		return "stop"
	}
	return v
}

// index of spec filter i among the receive (or send) filters
func (sp *Spec) filterIndex(i int) int {
	n := 0
	for j := 0; j < i; j++ {
		if sp.Filters[j].Send == sp.Filters[i].Send {
			n++
		}
	}
	return n
}

func coqCfg(sp *Spec) string {
	route := "RouteForward"
	switch {
	case sp.NoMatch:
		route = "RouteNone"
	case sp.Route == "direct":
		route = fmt.Sprintf("(RouteDirect %s false)", CoqZ(int64(sp.DirectCode)))
	case sp.Route == "directbody":
		route = fmt.Sprintf("(RouteDirect %s true)", CoqZ(int64(sp.DirectCode)))
	case sp.Route == "nocluster":
		route = "RouteNoCluster"
	}
	var codes, recv, send, pool, delay []string
	for _, c := range sp.StatusCodes {
		codes = append(codes, CoqZ(int64(c)))
	}
	for _, f := range sp.Filters {
		if f.Send {
			vs := make([]string, len(f.Verdicts))
			for i, v := range f.Verdicts {
				vs[i] = sp.sendVerdict(v)
			}
			send = append(send, fmt.Sprintf("{| sf_code := %s; sf_verdicts := %s |}", CoqZ(int64(f.Code)), coqVerdicts(vs)))
			if f.DelayMs > 0 {
				delay = append(delay, "PUpFilter")
			}
		} else {
			recv = append(recv, fmt.Sprintf("{| f_phase := %s; f_code := %s; f_verdicts := %s |}", CoqNat(f.Phase), CoqZ(int64(f.Code)), coqVerdicts(f.Verdicts)))
			if f.DelayMs > 0 {
				delay = append(delay, coqFilterPhase[f.Phase])
			}
		}
	}
	for _, p := range sp.Pool {
		pool = append(pool, coqPool[p])
	}
	if sp.PoolDelayMs > 0 {
		delay = append(delay, "PRecvHeader")
	}
	_, tryMs := sp.effectiveTimeouts()
	return fmt.Sprintf("{| c_oneway := %s; c_data := %s; c_trailers := %s; c_route := %s; c_nhosts := %s; c_retry_on := %s; c_num_retries := %s; c_codes := %s; c_try_timeout := %s; c_max_retries := %s; c_recv := %s; c_send := %s; c_pool := %s; c_delay := %s; c_snd_err_hdr := %s; c_snd_err_data := %s; c_snd_err_trl := %s; c_http := %s; c_nohost_from := %s; c_late_reset := %s; c_disable_retry := %s |}",
		CoqBool(sp.Oneway), CoqBool(sp.HasData), CoqBool(sp.HasTrailers), route, CoqNat(sp.NHosts), CoqBool(sp.RetryOn), CoqNat(sp.NumRetries),
		CoqList(codes), CoqBool(tryMs > 0), CoqZ(int64(sp.MaxRetries)), CoqList(recv), CoqList(send), CoqList(pool), CoqList(delay),
		CoqBool(sp.senderFails("hdr")), CoqBool(sp.senderFails("data")), CoqBool(sp.senderFails("trl")), CoqBool(sp.Flavour == "http"), coqNoHost(sp), CoqBool(sp.ResetUpOn != ""), CoqBool(sp.DisableRetry))
}

func coqNoHost(sp *Spec) string {
	if sp.HostsGoneAfter <= 0 {
		return "None"
	}
	return fmt.Sprintf("(Some %s)", CoqNat(sp.HostsGoneAfter))
}

func coqEvent(e Event) string {
	switch e.Kind {
	case "upresp":
		return fmt.Sprintf("TEv (EvUpResp %s %s %s %s)", CoqNat(e.K), CoqZ(int64(e.Status)), CoqBool(e.Data), CoqBool(e.Trailers))
	case "upreset":
		return fmt.Sprintf("TEv (EvUpReset %s %s)", CoqNat(e.K), coqReason[e.Reason])
	case "downreset":
		return fmt.Sprintf("TEv (EvDownReset %s)", coqReason[e.Reason])
	case "terminate":
		return fmt.Sprintf("TEv (EvTerminate %s)", CoqZ(int64(e.Code)))
	}
	return "TEv EvWake"
}

// timeline of a recorded history: scripted events at their observed delivery times, timer expiries at arm time + duration
// (arm time = the NewStream record of the attempt), wake-ups of the worker at the observed end of each sleep
func timeline(r *Result) []Item {
	sp := r.Spec
	var items []Item
	gms, tms := sp.effectiveTimeouts()
	// scripted upstream events that found no live stream were not delivered to the proxy at all: not part of the timeline
	ignored := map[int]bool{}
	for _, x := range r.Rec {
		if x.Kind == "ev.end" && x.Aux == "ignored" {
			if k := sp.Events[x.K].Kind; k == "upresp" || k == "upreset" {
				ignored[x.K] = true
			}
		}
	}
	// runtime timers fire late under load; the lateness seen on the scripted events of this history (which use the same
	// runtime timers) bounds the uncertainty of the computed expiry times
	late := int64(2000)
	for _, x := range r.Rec {
		if x.Kind == "ev.start" {
			if d := x.T - int64(sp.Events[x.K].AtMs)*1000 + 3000; d > late {
				late = d
			}
		}
	}
	// ... and so does the act of a timer callback itself: the proxy-side reset of attempt k at or after the nominal expiry of
	// attempt k's per-try timer, and the reset that comes with the 504 reply at or after the nominal global expiry
	{
		nomTry := map[int]int64{}
		nomGlobal := int64(-1)
		for _, x := range r.Rec {
			if x.Kind == "up.new" {
				if x.K == 0 && gms < 5000 {
					nomGlobal = x.T + int64(gms)*1000
				}
				if tms > 0 && strings.HasPrefix(x.Aux, "ok@") {
					nomTry[x.K] = x.T + int64(tms)*1000
				}
			}
		}
		for i, x := range r.Rec {
			if x.Kind != "up.reset" {
				continue
			}
			d := int64(-1)
			if n, ok := nomTry[x.K]; ok && x.T >= n-1000 && x.T-n < 40000 {
				d = x.T - n
			}
			if nomGlobal >= 0 && x.T >= nomGlobal-1000 && x.T-nomGlobal < 40000 {
				for _, y := range r.Rec[i+1:] {
					if y.T-x.T > 1500 {
						break
					}
					if y.Kind == "down.hdr" && y.Code == 504 && (d < 0 || x.T-nomGlobal < d) {
						d = x.T - nomGlobal
					}
				}
			}
			if d >= 0 && d+3000 > late {
				late = d + 3000
			}
		}
		if late > 150000 {
			late = 150000
		}
	}
	for _, x := range r.Rec {
		switch x.Kind {
		case "ev.start":
			if ignored[x.K] {
				continue
			}
			e := sp.Events[x.K]
			items = append(items, Item{T: x.T, Term: coqEvent(e), Desc: fmt.Sprintf("%s@%d", e.Kind, x.T/1000)})
		case "up.new":
			if x.K == 0 && gms < 5000 {
				items = append(items, Item{T: x.T + int64(gms)*1000, Hi: x.T + int64(gms)*1000 + late, Term: "TEv EvGlobal", Desc: fmt.Sprintf("global@%d", (x.T+int64(gms)*1000)/1000)})
			}
			if tms > 0 && strings.HasPrefix(x.Aux, "ok@") {
				items = append(items, Item{T: x.T + int64(tms)*1000, Hi: x.T + int64(tms)*1000 + late, Term: fmt.Sprintf("TEv (EvPerTry %s)", CoqNat(x.K)), Desc: fmt.Sprintf("pertry%d@%d", x.K, (x.T+int64(tms)*1000)/1000)})
			}
		case "up.check":
			if x.K >= 1 {
				items = append(items, Item{T: x.T, Term: "TEv EvWake", Desc: fmt.Sprintf("wake@%d", x.T/1000)})
			}
		case "ev.inline":
			items = append(items, Item{T: x.T, Term: fmt.Sprintf("TEv (EvUpReset %s %s)", CoqNat(x.K), coqReason[x.Aux]), Desc: fmt.Sprintf("latereset@%d", x.T/1000)})
		case "filter.wake", "pool.wake":
			items = append(items, Item{T: x.T, Term: "TEv EvWake", Desc: fmt.Sprintf("fwake@%d", x.T/1000)})
		}
	}
	for i := range items {
		if items[i].Hi < items[i].T {
			items[i].Hi = items[i].T
		}
	}
	sortItems(items)
	// drop timer items that lie after the end of the observation (the worker is long done; they are no-ops in the model too,
	// but keeping the timeline short keeps the exploration cheap)
	end := int64(r.WaitedMs) * 1000
	var kept []Item
	for _, it := range items {
		if it.T <= end {
			kept = append(kept, it)
		}
	}
	return kept
}

func rounds(items []Item) [][]Item {
	var out [][]Item
	hi := int64(0) // latest time of the current round
	for i, it := range items {
		// (a round of more than 5 items is cut: the exploration of all interleavings grows factorially)
		if i > 0 && it.T < hi+clusterUs && len(out[len(out)-1]) < 5 {
			out[len(out)-1] = append(out[len(out)-1], it)
			if it.Hi > hi {
				hi = it.Hi
			}
		} else {
			out = append(out, []Item{it})
			hi = it.Hi
		}
	}
	return out
}

func coqRounds(rs [][]Item) string {
	var xs []string
	for _, r := range rs {
		var ys []string
		for _, it := range r {
			ys = append(ys, it.Term)
		}
		xs = append(xs, CoqList(ys))
	}
	return CoqList(xs)
}

func coqObs(r *Result) string {
	sp := r.Spec
	o := observe(r)
	var down, up, fl []string
	for _, x := range o.Down {
		switch x.Kind {
		case "down.hdr":
			k := map[string]string{"up": "KUp", "hijack": "KHijack", "direct": "KDirect"}[x.Aux]
			down = append(down, fmt.Sprintf("ODownHdr %s %s %s", CoqBool(x.End), k, CoqZ(int64(x.Code))))
		case "down.data":
			w, known := map[string]string{"up": "KUp", "hijack": "KHijack", "direct": "KDirect"}[x.Aux]
			if !known {
				w = "KUp"
			}
			down = append(down, "ODownData "+CoqBool(x.End)+" "+w)
		case "down.trl":
			down = append(down, "ODownTrl")
		case "down.reset":
			down = append(down, "ODownReset")
		}
	}
	for _, x := range o.Up {
		switch x.Kind {
		case "up.new":
			res := x.Aux[:strings.Index(x.Aux, "@")]
			if x.Code > 0 && x.K > 0 {
				up = append(up, fmt.Sprintf("OLeak %s", CoqNat(x.K-1))) // an earlier attempt's stream was still open
			}
			up = append(up, fmt.Sprintf("OUpNew %s %s", CoqNat(x.K), coqPool[res]))
		case "up.hdr":
			n := 1 // without a route action to observe, the headers are taken to be finalised once
			if sp.RouteHeaderActions {
				n = x.Code
			}
			up = append(up, fmt.Sprintf("OUpHdr %s %s %s", CoqNat(x.K), CoqBool(x.End), CoqNat(n)))
		case "up.data":
			up = append(up, fmt.Sprintf("OUpData %s %s", CoqNat(x.K), CoqBool(x.End)))
		case "up.trl":
			up = append(up, "OUpTrl "+CoqNat(x.K))
		case "up.reset":
			up = append(up, "OUpReset "+CoqNat(x.K))
		}
	}
	for _, x := range o.Filters {
		if x.Kind == "filter.recv" {
			fl = append(fl, fmt.Sprintf("OFilterRecv %s %s %s", CoqNat(sp.filterIndex(x.K)), CoqNat(x.Code), coqVerdict[x.Aux]))
		} else {
			fl = append(fl, "OFilterSend "+CoqNat(sp.filterIndex(x.K))+" "+coqVerdict[sp.sendVerdict(x.Aux)])
		}
	}
	return fmt.Sprintf("{| o_down := %s; o_up := %s; o_filters := %s; o_done := %s; o_gauge := %s; o_res := %s; o_destroyed := %s |}",
		CoqList(down), CoqList(up), CoqList(fl), CoqBool(o.Done), CoqZ(o.Gauge), CoqZ(o.Res), CoqBool(o.Destroyed))
}

func coqCase(r *Result) string {
	return fmt.Sprintf("{| pc_cfg := %s;\n    pc_rounds := %s;\n    pc_obs := %s |}", coqCfg(r.Spec), coqRounds(rounds(timeline(r))), coqObs(r))
}
