package main

// Histories in which the downstream sender (the stream layer) FAILS: AppendHeaders / AppendData / AppendTrailers return an error
// (the xprotocol server stream refuses a header map that is not a response frame, http refuses a missing status, ...).
// The proxy's own obligations do not change: once it has handed over (or tried to hand over) the reply, the stream is cleaned
// exactly once - cleanStream, every filter's OnDestroy once, gauges back - and the worker does not hang.
// Finder clauses (evaluated on the recorded trace at quiescence, independent of the model):
//   C03:stream-never-cleaned-after-sender-error   a sender call failed and the stream is still active / the gauge is still up
//   C14:filter-never-destroyed                    the exchange is over, yet a configured filter never saw OnDestroy
//   C14:filter-destroyed-twice                    OnDestroy twice on one filter instance

import (
	"fmt"

	. "vh/vhlib"
)

func destroyCounts(r *Result) []int {
	n := make([]int, len(r.Spec.Filters))
	for _, x := range r.Rec {
		if x.Kind == "filter.destroy" && x.K < len(n) {
			n[x.K]++
		}
	}
	return n
}

func senderErrSeen(r *Result) (string, bool) {
	for _, x := range r.Rec {
		if x.Err {
			return x.Kind, true
		}
	}
	return "", false
}

// clauses that hold for every history: OnDestroy at most once per filter; a cleaned stream has destroyed all its filters
func destroyFinder(run *Run, j *histJob, replay map[string]interface{}) bool {
	r := j.res
	failed := false
	for i, n := range destroyCounts(r) {
		switch {
		case n > 1:
			run.Fail("C14:filter-destroyed-twice", fmt.Sprintf("OnDestroy was called %d times on filter #%d of one stream", n, i), replay)
			failed = true
		case n == 0 && r.Done && r.Gauge == 0 && r.Active == 0 && replyOf(r).Complete:
			run.Fail("C14:filter-never-destroyed", fmt.Sprintf("the reply is complete and the stream is gone, yet filter #%d never saw OnDestroy", i), replay)
			failed = true
		}
	}
	return failed
}

// clauses for histories with a failing sender; true when a failure was reported
func senderErrFinder(run *Run, j *histJob, replay map[string]interface{}) bool {
	r, sp := j.res, j.spec
	if len(sp.SenderErr) == 0 {
		return false
	}
	call, seen := senderErrSeen(r)
	if !seen {
		return false
	}
	failed := false
	if r.Gauge != 0 || r.Active != 0 {
		state := "the worker has returned"
		if !r.Done {
			state = "the worker is still parked"
		}
		run.Fail("C03:stream-never-cleaned-after-sender-error", fmt.Sprintf("the downstream sender returned an error from %s; %s, yet the stream was never cleaned: active gauge %+d, active streams %d", call, state, r.Gauge, r.Active), replay)
		failed = true
	}
	for i, n := range destroyCounts(r) {
		if n == 0 {
			run.Fail("C14:filter-never-destroyed", fmt.Sprintf("the downstream sender returned an error from %s and the exchange is over, yet filter #%d never saw OnDestroy", call, i), replay)
			failed = true
			break
		}
	}
	return failed
}

// every reply kind x every sender call that occurs in it, with a receive and a send filter (OnDestroy is observed) or none
func genSenderErr() []*Spec {
	var out []*Spec
	n := 0
	add := func(sp Spec, calls ...string) {
		for _, c := range calls {
			cp := sp
			cp.SenderErr = []string{c}
			cp.Events = append([]Event(nil), sp.Events...)
			cp.Filters = append([]FilterSpec(nil), sp.Filters...)
			if n%3 != 2 && len(cp.Filters) == 0 {
				cp.Filters = []FilterSpec{{Phase: n % 3}, {Send: true}}
			}
			n++
			out = append(out, &cp)
		}
		if len(calls) > 1 {
			cp := sp
			cp.SenderErr = append([]string(nil), calls...)
			cp.Events = append([]Event(nil), sp.Events...)
			cp.Filters = append([]FilterSpec(nil), sp.Filters...)
			out = append(out, &cp)
		}
	}
	base := Spec{Route: "forward", NHosts: 2, RouteGlobalMs: 3 * slot}
	up := func(status int, data, trailers bool) Spec {
		sp := base
		sp.Events = []Event{{AtMs: slot, Kind: "upresp", K: 0, Status: status, Data: data, Trailers: trailers}}
		return sp
	}
	// the upstream's reply: headers only / with body / with body and trailers
	add(up(200, false, false), "hdr")
	add(up(200, true, false), "hdr", "data")
	add(up(404, true, true), "hdr", "data", "trl")
	{
		sp := up(200, false, false)
		sp.HasData = true
		add(sp, "hdr")
	}
	// a receive filter answers: hijack (headers only) in each phase, direct response (with body)
	for p := 0; p < 3; p++ {
		sp := base
		sp.Filters = []FilterSpec{{Phase: p, Code: 403, Verdicts: []string{"hijack"}}, {Send: true}}
		add(sp, "hdr")
	}
	{
		sp := base
		sp.Filters = []FilterSpec{{Phase: 0, Code: 403, Verdicts: []string{"hijackc"}}, {Phase: 1}, {Send: true}}
		add(sp, "hdr")
		sp = base
		sp.Filters = []FilterSpec{{Phase: 1, Code: 299, Verdicts: []string{"direct"}}, {Send: true}}
		add(sp, "hdr", "data")
	}
	// the route answers: direct response without / with body; no route; no healthy host
	{
		sp := base
		sp.Route, sp.DirectCode = "direct", 418
		add(sp, "hdr")
		sp.Route = "directbody"
		add(sp, "hdr", "data")
		sp = base
		sp.NoMatch = true
		add(sp, "hdr")
		sp = base
		sp.NHosts = 0
		add(sp, "hdr")
	}
	// the proxy's error replies: upstream reset, pool overflow, global time-out, per-try time-out
	{
		sp := base
		sp.Events = []Event{{AtMs: slot, Kind: "upreset", K: 0, Reason: "remotereset"}}
		add(sp, "hdr")
		sp = base
		sp.Pool = []string{"overflow"}
		add(sp, "hdr")
		sp = base
		sp.RouteGlobalMs = 60
		add(sp, "hdr")
		sp = base
		sp.RouteTryMs = 50
		sp.HasData = true
		add(sp, "hdr")
	}
	// TerminateStream (hijack through the receive handler)
	{
		sp := base
		sp.Filters = []FilterSpec{{Phase: 0}, {Send: true}}
		sp.Events = []Event{{AtMs: slot, Kind: "terminate", Code: 403}}
		add(sp, "hdr")
	}
	// a send filter answers in place of the upstream's reply (which had a body); a retried 503, then the reply
	{
		sp := up(200, true, false)
		sp.Filters = []FilterSpec{{Phase: 0}, {Send: true, Code: 470, Verdicts: []string{"hijack"}}}
		add(sp, "hdr")
		sp = up(200, true, false)
		sp.Filters = []FilterSpec{{Phase: 0}, {Send: true, Code: 471, Verdicts: []string{"direct"}}}
		add(sp, "hdr", "data")
		sp = base
		sp.RetryOn, sp.NumRetries = true, 1
		sp.Events = []Event{{AtMs: slot, Kind: "upresp", K: 0, Status: 503}, {AtMs: 2 * slot, Kind: "upresp", K: 1, Status: 200, Data: true}}
		add(sp, "hdr", "data")
	}
	// the client disconnects after the reply was handed over (refused or not)
	{
		sp := up(200, true, false)
		sp.Events = append(sp.Events, Event{AtMs: 2 * slot, Kind: "downreset", Reason: "termination"})
		add(sp, "hdr", "data")
	}
	return out
}
