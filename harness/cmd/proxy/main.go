package main

import (
	"encoding/json"
	"fmt"
	"os"

	. "vh/vhlib"
)

func main() {
	Main(map[string]CmdFn{
		"gen":   func(a []string) int { return RunGen(gens, a) },
		"probe": probe,
		"one":   one,
		"c03":   c03,
		"c14":   c14,
		"c10":   c10,
		"c17":   c17,
		"c02":   c02,
	})
}

// probe: run one history given as JSON on the command line and print what was recorded (development aid)
func probe(args []string) int {
	sp := &Spec{Route: "forward", NHosts: 2, RouteGlobalMs: 200}
	if len(args) > 0 {
		if err := json.Unmarshal([]byte(args[0]), sp); err != nil {
			fmt.Println(err)
			return 2
		}
	}
	r := runHistory(1, sp)
	b, _ := json.Marshal(r)
	fmt.Println(string(b))
	if r.Err != "" {
		return 1
	}
	_ = os.Stdout
	return 0
}

// one: run the history given as JSON (first non-flag argument) `--n` times and write the model-comparison shard (development /
// replay aid):  vh-proxy one --out DIR --n 20 '<spec json>'
func one(args []string) int {
	var rest []string
	n := 10
	for i := 0; i < len(args); i++ {
		if args[i] == "--n" && i+1 < len(args) {
			fmt.Sscan(args[i+1], &n)
			i++
			continue
		}
		rest = append(rest, args[i])
	}
	specJSON := rest[len(rest)-1]
	run := NewRun("ONE", rest[:len(rest)-1])
	sp := &Spec{}
	if err := json.Unmarshal([]byte(specJSON), sp); err != nil {
		fmt.Println(err)
		return 2
	}
	var jobs []*histJob
	for i := 0; i < n; i++ {
		jobs = append(jobs, &histJob{id: 900000 + i, spec: sp})
	}
	runAll(jobs, 50)
	return finishProxy(run, jobs, c03Finder, plainSpec)
}
