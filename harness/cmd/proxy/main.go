package main

import (
	"encoding/json"
	"fmt"
	"os"

	. "vh/vhlib"
)

func main() {
	Main(map[string]CmdFn{
		"gen":   func(a []string) int { return RunGen(gens, a) },
		"probe": probe,
		"c03":   c03,
		"c14":   c14,
		"c10":   c10,
		"c17":   c17,
	})
}

// probe: run one history given as JSON on the command line and print what was recorded (development aid)
func probe(args []string) int {
	sp := &Spec{Route: "forward", NHosts: 2, RouteGlobalMs: 200}
	if len(args) > 0 {
		if err := json.Unmarshal([]byte(args[0]), sp); err != nil {
			fmt.Println(err)
			return 2
		}
	}
	r := runHistory(1, sp)
	b, _ := json.Marshal(r)
	fmt.Println(string(b))
	if r.Err != "" {
		return 1
	}
	_ = os.Stdout
	return 0
}
