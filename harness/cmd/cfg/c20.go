package main

// C20 - the admin config dump never leaks TLS private keys and never alters the live / persisted configuration.
//
// FINDER (property itself on the implementation): after a generated history of the real effective-config setters
// (markers at every TLS position the type graph has, incl. extension configs of registered TLS-bearing parsers),
// every query variant of the real admin handler is called through httptest; the bodies are searched for the
// markers; the live configuration (deep print with storage addresses), the persisted-form serialisation
// (transferConfig) and the files of the config directory are compared before/after; reflect checks that the
// redacted snapshot shares no written storage with the live configuration.
// CORRESPONDENCE: the same live configuration printed as a Coq value; the model must predict the leaked markers of
// every endpoint, the markers of the unredacted marshal (validates taint / hooks / visibility) and whether a
// write reached live storage.

import (
	"bytes"
	"crypto/sha256"
	"encoding/json"
	"fmt"
	"io/ioutil"
	"net/http"
	"net/http/httptest"
	"os"
	"path/filepath"
	"reflect"
	"sort"
	"strings"

	admin "mosn.io/mosn/pkg/admin/server"
	v2 "mosn.io/mosn/pkg/config/v2"
	"mosn.io/mosn/pkg/configmanager"
	"mosn.io/mosn/pkg/filter/network/tunnel"
	"mosn.io/mosn/pkg/log"

	. "vh/vhlib"
)

func confValue() reflect.Value { return reflect.ValueOf(configmanager.VerifConf()).Elem() }

func confField(name string) reflect.Value { return confValue().FieldByName(name) }

type epCall struct {
	Kind  string // full mosnconfig allrouters allclusters alllisteners router cluster listener bad multi post
	Query string
	Coq   string
}

func adminGet(method, query string) (int, string) {
	r := httptest.NewRequest(method, "http://127.0.0.1/api/v1/config_dump"+query, nil)
	w := httptest.NewRecorder()
	admin.ConfigDump(w, r)
	return w.Code, w.Body.String()
}

func dirHash(dir string) string {
	h := sha256.New()
	filepath.Walk(dir, func(p string, fi os.FileInfo, err error) error {
		if err != nil || fi.IsDir() {
			return nil
		}
		b, _ := ioutil.ReadFile(p)
		rel, _ := filepath.Rel(dir, p)
		fmt.Fprintf(h, "%s:%d:%x\n", rel, len(b), sha256.Sum256(b))
		return nil
	})
	return fmt.Sprintf("%x", h.Sum(nil)[:8])
}

// firstDiff: first differing position class between two deep prints (coarse: token index -> surrounding text)
func firstDiff(a, b string) string {
	n := len(a)
	if len(b) < n {
		n = len(b)
	}
	i := 0
	for i < n && a[i] == b[i] {
		i++
	}
	lo := i - 60
	if lo < 0 {
		lo = 0
	}
	hi := i + 60
	if hi > len(b) {
		hi = len(b)
	}
	return b[lo:hi]
}

// jsonPrivateKeys: independent JSON-level walk - every string found under an object key "private_key".
func jsonPrivateKeys(doc []byte) []string {
	var root interface{}
	if json.Unmarshal(doc, &root) != nil {
		return nil
	}
	var out []string
	var walk func(x interface{})
	walk = func(x interface{}) {
		switch t := x.(type) {
		case map[string]interface{}:
			for k, e := range t {
				if s, ok := e.(string); ok && strings.EqualFold(k, "private_key") {
					out = append(out, s)
				}
				walk(e)
			}
		case []interface{}:
			for _, e := range t {
				walk(e)
			}
		}
	}
	walk(root)
	sort.Strings(out)
	return out
}

// sharedWrittenStorage: does the redacted snapshot share, with the live config, storage at a path the redactor writes?
// (filter-chain arrays, TLS context arrays, TLS context pointers, listener / cluster maps, server and listener arrays,
// extension arrays whose raw config holds a key)
func sharedWrittenStorage(live, red reflect.Value, path string, out *[]string) {
	if live.Type() != red.Type() {
		return
	}
	t := live.Type()
	switch t.Kind() {
	case reflect.Struct:
		for i := 0; i < t.NumField(); i++ {
			sharedWrittenStorage(live.Field(i), red.Field(i), path+"."+t.Field(i).Name, out)
		}
	case reflect.Ptr, reflect.Map, reflect.Slice:
		if live.IsNil() || red.IsNil() {
			return
		}
		if !containsTLS(t) {
			return
		}
		if t.Kind() == reflect.Slice && live.Len() == 0 {
			return
		}
		same := live.Pointer() == red.Pointer()
		if same && holdsKey(live) {
			*out = append(*out, path)
			return
		}
		switch t.Kind() {
		case reflect.Ptr:
			sharedWrittenStorage(live.Elem(), red.Elem(), path, out)
		case reflect.Slice:
			for i := 0; i < live.Len() && i < red.Len(); i++ {
				sharedWrittenStorage(live.Index(i), red.Index(i), path+"[]", out)
			}
		case reflect.Map:
			for _, k := range live.MapKeys() {
				rv := red.MapIndex(k)
				if rv.IsValid() {
					sharedWrittenStorage(live.MapIndex(k), rv, path+"[]", out)
				}
			}
		}
	}
}

var tlsMemo = map[reflect.Type]bool{}

func containsTLS(t reflect.Type) bool {
	if v, ok := tlsMemo[t]; ok {
		return v
	}
	tlsMemo[t] = false
	r := false
	switch t.Kind() {
	case reflect.Struct:
		if t == tlsConfigT {
			r = true
		} else if t == reflect.TypeOf(v2.ExtendConfig{}) {
			r = true
		} else {
			for i := 0; i < t.NumField(); i++ {
				if containsTLS(t.Field(i).Type) {
					r = true
				}
			}
		}
	case reflect.Ptr, reflect.Slice, reflect.Map, reflect.Array:
		r = containsTLS(t.Elem())
	}
	tlsMemo[t] = r
	return r
}

// holdsKey: is there a non-empty private key somewhere below (so that the redactor writes below this storage)?
func holdsKey(v reflect.Value) bool {
	t := v.Type()
	switch t.Kind() {
	case reflect.Struct:
		if t == tlsConfigT {
			return v.FieldByName("PrivateKey").String() != ""
		}
		if t == reflect.TypeOf(v2.ExtendConfig{}) {
			return len(jsonPrivateKeys(v.FieldByName("Config").Bytes())) > 0
		}
		for i := 0; i < t.NumField(); i++ {
			if containsTLS(t.Field(i).Type) && holdsKey(v.Field(i)) {
				return true
			}
		}
	case reflect.Ptr:
		return !v.IsNil() && holdsKey(v.Elem())
	case reflect.Slice:
		for i := 0; i < v.Len(); i++ {
			if holdsKey(v.Index(i)) {
				return true
			}
		}
	case reflect.Map:
		for _, k := range v.MapKeys() {
			if holdsKey(v.MapIndex(k)) {
				return true
			}
		}
	}
	return false
}

// extDoc: an extension config document with 0..4 TLS contexts, each with its own marker: at the top, as sibling members,
// inside arrays (a list of agents each with its own tls_context), deep below other members, and nested inside each other;
// the key is spelled in the three cases encoding/json accepts; now and then private_key is not a string.
//
// escMode: 0 - the member name is written plainly; 1 - now and then with JSON escapes in the TEXT (private\u005fkey,
// \u0050rivate_key ...: the same member to every JSON decoder); 2 - every occurrence in the document is written with escapes, so
// that the text of the document does not contain the name at all.  Key material is now and then written with escapes too.
func (f *filler) extDoc(typ string) []byte { return f.extDocMode(typ, 0) }

const escTag = "escaped-member-name:"

// escapeSpelling: a JSON string literal body for the ASCII string s with some characters written as \uXXXX
func escapeSpelling(r *Rng, s string, force bool) string {
	var b strings.Builder
	forced := -1
	if force {
		forced = r.Intn(len(s))
	}
	for i := 0; i < len(s); i++ {
		if i == forced || r.Pct(25) {
			if r.Bool() {
				fmt.Fprintf(&b, "\\u%04x", s[i])
			} else {
				fmt.Fprintf(&b, "\\u%04X", s[i])
			}
		} else {
			b.WriteByte(s[i])
		}
	}
	return b.String()
}

func (f *filler) extDocMode(typ string, escMode int) []byte {
	r := f.r
	base := "ExtendConfigs[" + typ + "].Config:json:"
	if strings.HasPrefix(typ, "raw:") { // a raw part of MosnConfig (node, static_resources, dynamic_resources)
		base = "MosnConfig." + strings.TrimPrefix(typ, "raw:") + ":json:"
	}
	sentinels := map[string]string{} // sentinel member name -> literal body it is replaced with in the text
	firstMarker := len(f.markers)
	keyName := func() (string, string) {
		name := []string{"private_key", "private_key", "private_key", "Private_Key", "PRIVATE_KEY"}[r.Intn(5)]
		if escMode == 2 || escMode == 1 && r.Pct(40) {
			s := fmt.Sprintf("@@ESCKEY%d@@", len(sentinels))
			sentinels[s] = escapeSpelling(r, name, true)
			if escMode == 2 { // no stretch of the name long enough to be found by a textual search for it either
				sentinels[s] = strings.Replace(sentinels[s], "_", "\\u005f", 1)
				sentinels[s] = strings.Replace(sentinels[s], "_", "\\u005F", 1)
			}
			return s, escTag
		}
		return name, ""
	}
	var ctx func(where string, depth int) map[string]interface{}
	ctx = func(where string, depth int) map[string]interface{} {
		m := map[string]interface{}{"status": true, "server_name": f.uniq("sn")}
		c := r.Intn(10)
		if c == 1 && escMode == 2 {
			c = 2
		}
		switch c {
		case 0:
			k, _ := keyName()
			m[k] = ""
		case 1: // not a string: the walk goes on below it
			m["private_key"] = map[string]interface{}{"private_key": f.newMarker(base + where + ".under-non-string-key")}
		default:
			k, tag := keyName()
			m[k] = f.newMarker(base + tag + where)
		}
		if depth < 2 && r.Pct(25) {
			m["inner"] = map[string]interface{}{"tls_context": ctx(where+".nested", depth+1)}
		}
		return m
	}
	doc := map[string]interface{}{"enable": false, f.uniq("k"): f.anyJSON(0), "n": json.Number("12345678901234567")}
	n := r.Intn(5)
	var agents []interface{}
	for i := 0; i < n; i++ {
		switch r.Intn(5) {
		case 0:
			doc["tls_context"] = ctx("top", 0)
		case 1:
			agents = append(agents, map[string]interface{}{"name": f.uniq("agent"), "tls_context": ctx("array-element", 0)})
		case 2:
			doc[fmt.Sprintf("ctx_%c", 'a'+i)] = ctx("sibling-member", 0)
		case 3:
			doc[fmt.Sprintf("level1_%d", i)] = map[string]interface{}{"level2": []interface{}{f.anyJSON(1), map[string]interface{}{"tls_context": ctx("deep", 0)}}}
		default:
			agents = append(agents, []interface{}{ctx("array-in-array", 0), f.anyJSON(1)})
		}
	}
	if agents != nil {
		doc["agents"] = agents
	}
	b, _ := json.Marshal(doc)
	text := string(b)
	for sent, lit := range sentinels {
		text = strings.ReplaceAll(text, `"`+sent+`"`, `"`+lit+`"`)
	}
	if escMode > 0 { // key material written with escapes
		for _, m := range f.markers[firstMarker:] {
			if r.Pct(30) {
				text = strings.ReplaceAll(text, `"`+m.Secret+`"`, `"`+escapeSpelling(r, m.Secret, true)+`"`)
			}
		}
	}
	return []byte(text)
}

// decodedStrings: every string of the JSON documents in text (member names and values), decoded, joined by NUL.  A secret
// is looked for in the text AND in here: a response may spell it with escapes.
func decodedStrings(text string) string {
	var b strings.Builder
	dec := json.NewDecoder(strings.NewReader(text))
	dec.UseNumber()
	for {
		t, err := dec.Token()
		if err != nil {
			break
		}
		if s, ok := t.(string); ok {
			b.WriteString(s)
			b.WriteByte(0)
		}
	}
	return b.String()
}

func leakSignature(ep, class string) string {
	if strings.Contains(class, escTag) {
		// (one class per endpoint and part: the position inside the document is in the message)
		return "private-key-leaked:escaped-member-name:" + ep + ":" + strings.SplitN(class, ":json:", 2)[0]
	}
	return "leak:" + ep + ":" + class
}

// spelledToCoq: a JSON text as a term of Model/Redact.v's sjson - member names and strings as SPELLED in the text (the
// literal bodies, escapes included); object members sorted by their decoded names (what a re-marshal through a Go map gives)
func spelledToCoq(raw []byte) (string, error) {
	i := 0
	ws := func() {
		for i < len(raw) && (raw[i] == ' ' || raw[i] == '\t' || raw[i] == '\n' || raw[i] == '\r') {
			i++
		}
	}
	lit := func() (string, string, error) { // (literal body, decoded)
		if i >= len(raw) || raw[i] != '"' {
			return "", "", fmt.Errorf("string expected at %d", i)
		}
		j := i + 1
		for j < len(raw) && raw[j] != '"' {
			if raw[j] == '\\' {
				j++
			}
			j++
		}
		if j >= len(raw) {
			return "", "", fmt.Errorf("unterminated string")
		}
		body := string(raw[i+1 : j])
		var dec string
		if err := json.Unmarshal(raw[i:j+1], &dec); err != nil {
			return "", "", err
		}
		i = j + 1
		return body, dec, nil
	}
	var val func() (string, error)
	val = func() (string, error) {
		ws()
		if i >= len(raw) {
			return "", fmt.Errorf("unexpected end")
		}
		switch c := raw[i]; {
		case c == '{':
			i++
			type mem struct{ dec, term string }
			var ms []mem
			ws()
			if i < len(raw) && raw[i] == '}' {
				i++
				return "(SObj [])", nil
			}
			for {
				ws()
				body, dec, err := lit()
				if err != nil {
					return "", err
				}
				ws()
				if i >= len(raw) || raw[i] != ':' {
					return "", fmt.Errorf("colon expected")
				}
				i++
				v, err := val()
				if err != nil {
					return "", err
				}
				ms = append(ms, mem{dec, "(" + coqStr(body) + ", " + v + ")"})
				ws()
				if i < len(raw) && raw[i] == ',' {
					i++
					continue
				}
				if i < len(raw) && raw[i] == '}' {
					i++
					break
				}
				return "", fmt.Errorf("bad object")
			}
			sort.SliceStable(ms, func(a, b int) bool { return ms[a].dec < ms[b].dec })
			var ts []string
			for k, m := range ms {
				if k > 0 && ms[k-1].dec == m.dec {
					return "", fmt.Errorf("duplicate member")
				}
				ts = append(ts, m.term)
			}
			return "(SObj [" + strings.Join(ts, "; ") + "])", nil
		case c == '[':
			i++
			var ts []string
			ws()
			if i < len(raw) && raw[i] == ']' {
				i++
				return "(SArr [])", nil
			}
			for {
				v, err := val()
				if err != nil {
					return "", err
				}
				ts = append(ts, v)
				ws()
				if i < len(raw) && raw[i] == ',' {
					i++
					continue
				}
				if i < len(raw) && raw[i] == ']' {
					i++
					break
				}
				return "", fmt.Errorf("bad array")
			}
			return "(SArr [" + strings.Join(ts, "; ") + "])", nil
		case c == '"':
			body, _, err := lit()
			if err != nil {
				return "", err
			}
			return "(SStr " + coqStr(body) + ")", nil
		case c == 't' && strings.HasPrefix(string(raw[i:]), "true"):
			i += 4
			return "(SBool true)", nil
		case c == 'f' && strings.HasPrefix(string(raw[i:]), "false"):
			i += 5
			return "(SBool false)", nil
		case c == 'n' && strings.HasPrefix(string(raw[i:]), "null"):
			i += 4
			return "SNull", nil
		default:
			j := i
			for j < len(raw) && strings.IndexByte("+-0123456789.eE", raw[j]) >= 0 {
				j++
			}
			if j == i {
				return "", fmt.Errorf("unexpected character %q", c)
			}
			n := string(raw[i:j])
			i = j
			return "(SNum " + coqStr(n) + ")", nil
		}
	}
	t, err := val()
	if err != nil {
		return "", err
	}
	ws()
	if i != len(raw) {
		return "", fmt.Errorf("trailing text")
	}
	return t, nil
}

// canonDoc: the document with object members in sorted order (what a re-marshal through map[string]interface{} gives)
func canonDoc(b []byte) []byte {
	var v interface{}
	dec := json.NewDecoder(strings.NewReader(string(b)))
	dec.UseNumber()
	if dec.Decode(&v) != nil {
		return b
	}
	o, err := json.Marshal(v)
	if err != nil {
		return b
	}
	return o
}

type history struct {
	Ops []string `json:"ops"`
}

func c20(args []string) int {
	run := NewRun("C20", args)
	// vhlib's splitmix state for seed s+1 is the state for seed s advanced by one draw; decorrelate the seeds
	seedMix := NewRng(run.Seed)
	r := NewRng(seedMix.U64() ^ (seedMix.U64() << 1) ^ 0xC20)
	log.DefaultLogger.SetLogLevel(log.FATAL)
	run.Sum.Rule = "configurations: reflect-random values of the real config types (nil/empty/1-2 element slices and maps, nil/non-nil pointers, both TLS shapes of a filter chain, cluster and cluster-manager TLS, tunnel_agent/unknown extension configs, extension JSON documents with 0-4 TLS contexts at the top / as sibling members / in arrays / deep / nested in each other with the key in three spellings and now and then a non-string private_key; member names and key material now and then - or for every occurrence in the response - written with JSON escapes in the text), a distinct marker secret at EVERY v2.TLSConfig the types contain (85% non-empty), and in the opaque positions (interface{} / map[string]interface{} / json.RawMessage: filter, per-filter, health-check, extend-verify, tracing, codec configs, raw resources) now and then a tls_context.private_key / Private_Key / array-nested private_key marker or a direct private_key member of the map; histories: 3-14 real setter calls (SetMosnConfig/SetListenerConfig/SetClusterConfig/SetRemoveClusterConfig/SetHosts/SetRouter/SetExtend/SetClusterManagerTLS) interleaved with transferConfig and file dumps; then EVERY query variant of admin ConfigDump (the full dump six times: the JSON redactor ranges over Go maps) incl. one name per router/cluster/listener, a missing name, an unknown key, two keys and POST. Besides: states with typed TLS contexts only, where the bytes returned by DumpJSON / transferConfig / InheritMosnconfig are retained by reference while the other serializers run and the handler is read in 48-byte pieces with the persist path running in between. A case (= one endpoint call) is non-trivial when the live config holds at least one marker reachable from that endpoint; distinct by (history shape, endpoint kind, marker classes)."
	placeholder := configmanager.VerifPlaceholder()
	tmpRoot := filepath.Join(run.Out, "cfgdir")
	os.MkdirAll(tmpRoot, 0o755)
	configmanager.VerifSetConfigPath(filepath.Join(tmpRoot, "mosn_config.json"))

	header := "From Coq Require Import List String Bool ZArith NArith Ascii.\nFrom MV Require Import Lib.GoJson Gen.CfgTypes Model.Redact.\nImport ListNotations.\nOpen Scope string_scope.\nOpen Scope N_scope.\n"
	var sh *Shard
	newShard := func() { sh = run.NewShard(header, "c20_case", "c20_mismatches") }
	newShard()
	extSh := run.NewShard(header, "ext_json_case", "ext_json_mismatches")
	spSh := run.NewShard(header, "spelled_case", "spelled_mismatches")

	nHist := run.N(36, 400)
	for h := 0; h < nHist; h++ {
		configmanager.Reset()
		configmanager.VerifSetAutoWrite(r.Pct(50))
		f := &filler{r: r, maxDepth: 7, tmp: tmpRoot, blobKeys: true}
		var ops []string
		names := map[string][]string{}
		setMosn := func() {
			cfg := &v2.MOSNConfig{}
			f.fill(reflect.ValueOf(cfg).Elem(), 0, "SetMosnConfig")
			// keep the start-up file out of directory mode at random paths
			cfg.ClusterManager.ClusterConfigPath = ""
			for i := range cfg.Servers {
				for j := range cfg.Servers[i].Routers {
					if cfg.Servers[i].Routers[j] != nil {
						cfg.Servers[i].Routers[j].RouterConfigPath = ""
					}
				}
			}
			configmanager.SetMosnConfig(cfg)
			ops = append(ops, "SetMosnConfig")
		}
		nOps := 3 + r.Intn(run.N(9, 12))
		if r.Pct(90) {
			setMosn()
		}
		for i := 0; i < nOps; i++ {
			switch k := r.Intn(11); k {
			case 0:
				if r.Pct(20) {
					setMosn()
				}
			case 1, 2:
				l := v2.Listener{}
				f.fill(reflect.ValueOf(&l).Elem(), 1, "Listener")
				l.Name = fmt.Sprintf("l%d", r.Intn(3))
				if len(l.FilterChains) == 0 && r.Pct(70) {
					fc := v2.FilterChain{}
					f.fill(reflect.ValueOf(&fc).Elem(), 3, "Listener.FilterChains[0]")
					l.FilterChains = []v2.FilterChain{fc}
				}
				if l.FilterChains != nil && len(l.FilterChains) == 0 {
					// an empty non-nil slice is re-allocated at the same (zero-size) address by make(): the write the redactor
					// performs there is not observable from outside; keep every write observable
					l.FilterChains = nil
				}
				configmanager.SetListenerConfig(l)
				names["listener"] = append(names["listener"], l.Name)
				ops = append(ops, "SetListenerConfig")
			case 3, 4:
				c := v2.Cluster{}
				f.fill(reflect.ValueOf(&c).Elem(), 1, "Cluster")
				c.Name = fmt.Sprintf("c%d", r.Intn(3))
				configmanager.SetClusterConfig(c)
				names["cluster"] = append(names["cluster"], c.Name)
				ops = append(ops, "SetClusterConfig")
			case 5:
				configmanager.SetRemoveClusterConfig(fmt.Sprintf("c%d", r.Intn(3)))
				ops = append(ops, "SetRemoveClusterConfig")
			case 6:
				var hs []v2.Host
				f.fill(reflect.ValueOf(&hs).Elem(), 3, "Hosts")
				configmanager.SetHosts(fmt.Sprintf("c%d", r.Intn(3)), hs)
				ops = append(ops, "SetHosts")
			case 7:
				rc := v2.RouterConfiguration{}
				f.fill(reflect.ValueOf(&rc).Elem(), 2, "Router")
				rc.RouterConfigName = fmt.Sprintf("r%d", r.Intn(3))
				rc.RouterConfigPath = ""
				if r.Pct(35) {
					rc.RouterConfigPath = filepath.Join(tmpRoot, fmt.Sprintf("routers_%s", rc.RouterConfigName))
					for vi := range rc.VirtualHosts {
						rc.VirtualHosts[vi].Name = fmt.Sprintf("vh%d", vi)
					}
				}
				configmanager.SetRouter(rc)
				names["router"] = append(names["router"], rc.RouterConfigName)
				ops = append(ops, "SetRouter")
			case 8:
				typ := []string{"tunnel_agent", "tunnel_agent", "other_ext", "holmes"}[r.Intn(4)]
				var raw []byte
				if typ == "tunnel_agent" {
					ab := tunnel.AgentBootstrapConfig{}
					f.fill(reflect.ValueOf(&ab).Elem(), 1, "ExtendConfigs[tunnel_agent].Config")
					if ab.TLSContext == nil && r.Pct(60) {
						ab.TLSContext = &v2.TLSConfig{Status: true, PrivateKey: f.newMarker("ExtendConfigs[tunnel_agent].Config.TLSContext.PrivateKey")}
					}
					raw, _ = json.Marshal(ab)
					if r.Pct(25) { // key spelled in another case: encoding/json still decodes it into PrivateKey
						raw = []byte(strings.Replace(string(raw), `"private_key"`, `"Private_Key"`, 1))
					}
				} else {
					raw, _ = json.Marshal(map[string]interface{}{f.uniq("k"): f.anyJSON(0), "n": 12345678901234567})
				}
				if r.Pct(60) {
					raw = f.extDocMode(typ, []int{0, 1, 1, 2}[r.Intn(4)])
				}
				configmanager.SetExtend(typ, raw)
				ops = append(ops, "SetExtend:"+typ)
			case 9:
				tc := v2.TLSConfig{}
				f.fill(reflect.ValueOf(&tc).Elem(), 1, "ClusterManagerTLS")
				configmanager.SetClusterManagerTLS(tc)
				ops = append(ops, "SetClusterManagerTLS")
			case 10:
				if r.Bool() {
					configmanager.VerifTransferConfig()
					ops = append(ops, "transferConfig")
				} else {
					configmanager.VerifForceDump()
					ops = append(ops, "DumpConfig")
				}
			}
		}

		// ---- the live configuration, its markers and the independent walk
		pr := newVPrinter(false)
		confTerm := pr.val(confValue())
		next0 := pr.next0()
		liveBefore := newVPrinter(true).val(confValue())
		rawDoc, _ := json.Marshal(configmanager.VerifConf()) // unredacted marshal of the live config
		jsonKeys := jsonPrivateKeys(rawDoc)
		// The unredacted marshal may itself write files (directory-mode routers reached through MosnConfig after a transfer);
		// take the file baseline afterwards.
		placed := map[string]marker{}
		for _, m := range f.markers {
			placed[m.Secret] = m
		}
		var rawMarkers []string
		rawDecoded0 := decodedStrings(string(rawDoc))
		for s := range placed {
			if strings.Contains(string(rawDoc), s) || strings.Contains(rawDecoded0, s) {
				rawMarkers = append(rawMarkers, s)
			}
		}
		sort.Strings(rawMarkers)
		// independent walk vs type-graph placement: every private_key the JSON walk sees is a placed marker (or empty/placeholder),
		// and every placed marker that is visible is under a private_key key
		for _, s := range jsonKeys {
			if _, ok := placed[s]; !ok && s != "" && s != placeholder {
				run.Fail("walks-disagree:json-walk-found-unplaced-key", "the JSON-level walk found a private_key value that the type-graph driven fixture did not place: "+s, map[string]interface{}{"ops": ops, "value": s})
			}
		}
		keySet := map[string]bool{}
		for _, s := range jsonKeys {
			keySet[s] = true
		}
		for _, s := range rawMarkers {
			if !keySet[s] {
				run.Fail("walks-disagree:marker-not-under-private_key", "a marker placed at a TLS position is serialised under another key: "+placed[s].Class, map[string]interface{}{"ops": ops, "marker": placed[s]})
			}
		}

		// ---- endpoints
		var eps []epCall
		eps = append(eps, epCall{"full", "", "EFull"}, epCall{"mosnconfig", "?mosnconfig", "EMosn"}, epCall{"allrouters", "?allrouters", "EAllRouters"},
			epCall{"allclusters", "?allclusters", "EAllClusters"}, epCall{"alllisteners", "?alllisteners", "EAllListeners"})
		one := func(kind, ctor string, l []string) {
			seen := map[string]bool{}
			for _, n := range append(l, "missing") {
				if !seen[n] {
					seen[n] = true
					eps = append(eps, epCall{kind, "?" + kind + "=" + n, "(" + ctor + " " + coqStr(n) + ")"})
				}
			}
		}
		one("router", "ERouter", names["router"])
		one("cluster", "ECluster", names["cluster"])
		one("listener", "EListener", names["listener"])
		eps = append(eps, epCall{"bad", "?extend", "EBad"}, epCall{"multi", "?mosnconfig&allrouters", "EBad"}, epCall{"post", "", "EBad"})

		// persisted form (also what a hot upgrade inherits).  Half of the histories take no transferConfig at all before the dumps.
		withPersist := r.Bool()
		var persistBefore []byte
		if withPersist {
			persistBefore, _ = configmanager.VerifTransferConfig()
			ops = append(ops, "transferConfig")
		}
		// transferConfig itself may rewrite conf.MosnConfig.Servers[0] (shared backing array): refresh the baselines after it
		pr = newVPrinter(false)
		confTerm = pr.val(confValue())
		next0 = pr.next0()
		liveBefore = newVPrinter(true).val(confValue())
		rawDoc, _ = json.Marshal(configmanager.VerifConf())
		rawMarkers = rawMarkers[:0]
		rawDecoded := decodedStrings(string(rawDoc))
		for s := range placed {
			if strings.Contains(string(rawDoc), s) || strings.Contains(rawDecoded, s) {
				rawMarkers = append(rawMarkers, s)
			}
		}
		sort.Strings(rawMarkers)
		filesBefore := dirHash(tmpRoot)

		// random order of the calls
		for i := len(eps) - 1; i > 0; i-- {
			j := r.Intn(i + 1)
			eps[i], eps[j] = eps[j], eps[i]
		}
		var epTerms []string
		for _, ep := range eps {
			method := "GET"
			if ep.Kind == "post" {
				method = "POST"
			}
			_, body := adminGet(method, ep.Query)
			if ep.Kind == "full" {
				for rep := 0; rep < 5; rep++ { // the JSON-level redactor ranges over Go maps: another order every call
					_, b2 := adminGet(method, ep.Query)
					body += "\n" + b2
				}
			}
			var found []string
			classes := map[string]bool{}
			bodyDecoded := decodedStrings(body)
			for s, m := range placed {
				if strings.Contains(body, s) || strings.Contains(bodyDecoded, s) {
					found = append(found, s)
					classes[m.Class] = true
				}
			}
			sort.Strings(found)
			liveAfter := newVPrinter(true).val(confValue())
			filesAfter := dirHash(tmpRoot)
			var persistAfter []byte
			if withPersist {
				persistAfter, _ = configmanager.VerifTransferConfig()
			}
			liveChanged := liveAfter != liveBefore
			replay := map[string]interface{}{"ops": ops, "endpoint": ep.Query, "method": method}
			for c := range classes {
				run.Fail(leakSignature(ep.Kind, c), fmt.Sprintf("config_dump%s returns the inline private key placed at %s", ep.Query, c), replay)
			}
			if liveChanged {
				d := firstDiff(liveBefore, liveAfter)
				run.Fail("live-config-altered:"+ep.Kind, fmt.Sprintf("config_dump%s changed the live effective config (after %v) near: %s", ep.Query, ops, d), replay)
			}
			if filesAfter != filesBefore {
				run.Fail("persisted-files-altered:"+ep.Kind, fmt.Sprintf("config_dump%s wrote to the configuration directory", ep.Query), replay)
			}
			if withPersist && string(persistAfter) != string(persistBefore) {
				// tolerate map-order differences of the name-keyed lists
				if canonJSON(persistAfter) != canonJSON(persistBefore) {
					run.Fail("persisted-form-altered:"+ep.Kind, fmt.Sprintf("config_dump%s changed what transferConfig persists", ep.Query), replay)
				}
			}
			// transferConfig (called for the comparison) may itself touch conf.MosnConfig.Servers[0]; re-baseline
			liveBefore = newVPrinter(true).val(confValue())
			filesBefore = dirHash(tmpRoot)
			nontrivial := len(rawMarkers) > 0 && ep.Kind != "bad" && ep.Kind != "multi" && ep.Kind != "post"
			run.Count(fmt.Sprintf("%v|%s|%v", ops, ep.Kind, len(rawMarkers)), nontrivial, "endpoint:"+ep.Kind)
			if ep.Kind != "multi" && ep.Kind != "post" {
				epTerms = append(epTerms, fmt.Sprintf("(%s, %s, %s)", ep.Coq, quoteList(found), CoqBool(liveChanged)))
			}
			if liveChanged {
				// the defect altered the live configuration; further calls on this history would observe the altered state
				// (and writes of identical values are not observable): stop here
				break
			}
		}
		// the JSON-level redactor against its model: stored extension document -> document held by the redacted snapshot
		if exts, ok := confField("ExtendConfigs").Interface().([]v2.ExtendConfig); ok {
			seenOut := map[string]bool{}
			for rep := 0; rep < 4; rep++ {
				red := reflect.ValueOf(configmanager.VerifRedactedCopy()).Elem().FieldByName("ExtendConfigs").Interface().([]v2.ExtendConfig)
				for i := range exts {
					if i >= len(red) || len(exts[i].Config) == 0 {
						continue
					}
					in, out := canonDoc(exts[i].Config), canonDoc(red[i].Config)
					key := string(in) + "\x00" + string(out)
					if seenOut[key] {
						continue
					}
					seenOut[key] = true
					ji, e1 := jsonToCoq(in)
					jo, e2 := jsonToCoq(out)
					if e1 != nil || e2 != nil {
						continue
					}
					nk := len(jsonPrivateKeys(in))
					extSh.Add("("+ji+", "+jo+")", map[string]interface{}{"kind": "ext-json", "type": exts[i].Type, "in": string(in), "out": string(out)})
					run.Sum.Distribution[fmt.Sprintf("ext-json:keys=%d", nk)]++
					if extSh.Len() >= 200 {
						extSh.Close()
						extSh = run.NewShard(header, "ext_json_case", "ext_json_mismatches")
					}
				}
			}
		}
		// storage sharing between the redacted snapshot and the live config at written paths
		var shared []string
		sharedWrittenStorage(confValue(), reflect.ValueOf(configmanager.VerifRedactedCopy()).Elem(), "conf", &shared)
		for _, p := range shared {
			run.Fail("shared-written-storage:"+pathClass(p), "the redacted snapshot shares storage with the live config below which a key is blanked: "+p, map[string]interface{}{"ops": ops})
		}
		for _, o := range ops {
			run.Sum.Distribution["op:"+strings.SplitN(o, ":", 2)[0]]++
		}
		run.Sum.Distribution["markers_total"] += len(f.markers)
		run.Sum.Distribution["markers_visible_unredacted"] += len(rawMarkers)
		if h < 3 {
			run.Sample(map[string]interface{}{"ops": ops, "markers": len(f.markers), "visible_unredacted": len(rawMarkers), "endpoints": len(eps)})
		}
		term := fmt.Sprintf("(mkCase %s %d %s [%s])", confTerm, next0, quoteList(rawMarkers), strings.Join(epTerms, "; "))
		sh.Add(term, map[string]interface{}{"ops": ops})
		if sh.Len() >= 12 {
			sh.Close()
			newShard()
		}
	}
	// ---- the bytes a dump API hands out, RETAINED BY REFERENCE while the other serializers run: typed TLS contexts only (no
	// private_key in any blob, so the JSON-level pass has nothing to change), then the persisted-form serializers, the
	// hand-over, the file dump, further dumps; after each the retained slices must still be what they were at return time
	// and hold no planted secret.  And the handler itself with a reader that takes the response in small pieces while the
	// persist path runs in between.
	for h := 0; h < run.N(10, 120); h++ {
		configmanager.Reset()
		f := &filler{r: r, maxDepth: 5, tmp: tmpRoot}
		var ops []string
		for i, n := 0, 1+r.Intn(3); i < n; i++ {
			l := v2.Listener{}
			f.fill(reflect.ValueOf(&l).Elem(), 2, "Listener")
			l.Name = fmt.Sprintf("l%d", i)
			if len(l.FilterChains) == 0 {
				l.FilterChains = []v2.FilterChain{{}}
			}
			l.FilterChains[0].TLSContexts = []v2.TLSConfig{{Status: true, PrivateKey: f.newMarker("Listener.FilterChains[].TLSContexts[].PrivateKey")}}
			configmanager.SetListenerConfig(l)
			ops = append(ops, "SetListenerConfig")
		}
		c := v2.Cluster{Name: "c0"}
		c.TLS = v2.TLSConfig{Status: true, PrivateKey: f.newMarker("Cluster.TLS.PrivateKey")}
		configmanager.SetClusterConfig(c)
		configmanager.SetClusterManagerTLS(v2.TLSConfig{Status: true, PrivateKey: f.newMarker("ClusterManagerTLS.PrivateKey")})
		ops = append(ops, "SetClusterConfig", "SetClusterManagerTLS")
		aliasCheck(run, f.markers, ops)
	}
	// ---- extension documents on their own: several extensions, only the full dump (the only endpoint that prints them)
	for h := 0; h < run.N(60, 800); h++ {
		configmanager.Reset()
		f := &filler{r: r, maxDepth: 4}
		var ops []string
		// the state holds nothing but extension configs (no listener, no cluster): with escMode 2 NO member of the whole
		// response is spelled private_key in the text
		escMode := []int{0, 1, 1, 2, 2}[h%5]
		for i, n := 0, 1+r.Intn(3); i < n; i++ {
			typ := []string{"tunnel_agent", "other_ext", "holmes", "agents_ext"}[r.Intn(4)]
			configmanager.SetExtend(typ, f.extDocMode(typ, escMode))
			ops = append(ops, fmt.Sprintf("SetExtend:%s:escaped-names=%d", typ, escMode))
		}
		var rawDocs []string
		if h%3 == 0 { // the raw parts of MosnConfig: printed by the full dump and by ?mosnconfig
			cfg := &v2.MOSNConfig{}
			for _, part := range []string{"Node", "RawStaticResources", "RawDynamicResources"} {
				if r.Pct(60) {
					d := f.extDocMode("raw:"+part, escMode)
					reflect.ValueOf(cfg).Elem().FieldByName(part).SetBytes(d)
					rawDocs = append(rawDocs, string(d))
				}
			}
			configmanager.SetMosnConfig(cfg)
			ops = append(ops, fmt.Sprintf("SetMosnConfig:raw-parts:escaped-names=%d", escMode))
		}
		exts, _ := confField("ExtendConfigs").Interface().([]v2.ExtendConfig)
		bodies := map[string]string{}
		for rep := 0; rep < 6; rep++ {
			_, b := adminGet("GET", "")
			bodies["full"] += "\n" + b
		}
		_, bm := adminGet("GET", "?mosnconfig")
		bodies["mosnconfig"] = bm
		body := bodies["full"]
		nMarkers := len(f.markers)
		for _, epk := range []string{"full", "mosnconfig"} {
			bd := bodies[epk]
			bodyDecoded := decodedStrings(bd)
			for _, m := range f.markers {
				if strings.Contains(bd, m.Secret) || strings.Contains(bodyDecoded, m.Secret) {
					docs := append([]string{}, rawDocs...)
					for _, e := range exts {
						docs = append(docs, string(e.Config))
					}
					run.Fail(leakSignature(epk, m.Class), "config_dump (endpoint "+epk+") returns the inline private key placed at "+m.Class+" (member names as spelled in the stored documents: see documents)", map[string]interface{}{"ops": ops, "documents": docs, "marker": m.Secret})
				}
			}
		}
		_ = body
		run.Sum.Distribution[fmt.Sprintf("ext-doc:escaped-names-mode=%d", escMode)]++
		// the text-level pass on its own, on the stored TEXT of every extension document: the model redacts the value the text
		// DECODES to (names and strings unescaped), the real function must produce a text that decodes to the same
		for _, e := range exts {
			sp, err := spelledToCoq(e.Config)
			if err != nil {
				run.Sum.Distribution["spelled-case:unparsed"]++
				continue
			}
			out := canonDoc(configmanager.RedactDumpJSON(e.Config, "", ""))
			jo, err := jsonToCoq(out)
			if err != nil {
				continue
			}
			spSh.Add("("+sp+", "+jo+")", map[string]interface{}{"kind": "spelled-text", "type": e.Type, "in": string(e.Config), "out": string(out)})
			if spSh.Len() >= 60 {
				spSh.Close()
				spSh = run.NewShard(header, "spelled_case", "spelled_mismatches")
			}
		}
		run.Count(fmt.Sprintf("ext|%v|%d", ops, nMarkers), nMarkers > 0, "endpoint:full-extensions")
		run.Sum.Distribution[fmt.Sprintf("ext-doc:markers=%d", nMarkers)]++
		seenOut := map[string]bool{}
		for rep := 0; rep < 3; rep++ {
			red := reflect.ValueOf(configmanager.VerifRedactedCopy()).Elem().FieldByName("ExtendConfigs").Interface().([]v2.ExtendConfig)
			for i := range exts {
				if i >= len(red) {
					continue
				}
				in, out := canonDoc(exts[i].Config), canonDoc(red[i].Config)
				key := string(in) + "\x00" + string(out)
				if seenOut[key] {
					continue
				}
				seenOut[key] = true
				ji, e1 := jsonToCoq(in)
				jo, e2 := jsonToCoq(out)
				if e1 != nil || e2 != nil {
					continue
				}
				extSh.Add("("+ji+", "+jo+")", map[string]interface{}{"kind": "ext-json", "type": exts[i].Type, "in": string(in), "out": string(out)})
				run.Sum.Distribution[fmt.Sprintf("ext-json:keys=%d", len(jsonPrivateKeys(in)))]++
				if extSh.Len() >= 200 {
					extSh.Close()
					extSh = run.NewShard(header, "ext_json_case", "ext_json_mismatches")
				}
			}
		}
	}
	sh.Close()
	extSh.Close()
	spSh.Close()
	return run.Finish()
}

func canonJSON(b []byte) string {
	var x interface{}
	if json.Unmarshal(b, &x) != nil {
		return string(b)
	}
	x = sortNamed(x)
	o, _ := json.Marshal(x)
	return string(o)
}

// sortNamed sorts every array whose elements are all objects with a name-like key by that key (name-keyed lists).
func sortNamed(x interface{}) interface{} {
	switch t := x.(type) {
	case map[string]interface{}:
		for k, e := range t {
			t[k] = sortNamed(e)
		}
		return t
	case []interface{}:
		for i := range t {
			t[i] = sortNamed(t[i])
		}
		key := func(e interface{}) (string, bool) {
			m, ok := e.(map[string]interface{})
			if !ok {
				return "", false
			}
			for _, k := range []string{"name", "router_config_name", "type"} {
				if s, ok := m[k].(string); ok {
					return k + "=" + s, true
				}
			}
			return "", false
		}
		all := len(t) > 0
		for _, e := range t {
			if _, ok := key(e); !ok {
				all = false
			}
		}
		if all {
			sort.SliceStable(t, func(i, j int) bool { a, _ := key(t[i]); b, _ := key(t[j]); return a < b })
		}
		return t
	}
	return x
}

// ---------------------------------------------------------------------------------------------------------------
// retained dump bytes

type slowWriter struct {
	hdr     http.Header
	code    int
	got     bytes.Buffer
	writes  int
	between func()
}

func (w *slowWriter) Header() http.Header { return w.hdr }
func (w *slowWriter) WriteHeader(c int)   { w.code = c }

// Write takes p in pieces of 48 bytes, as a slow reader makes the server do; after the first piece the persist path runs.
// p must stay what it was for the whole call.
func (w *slowWriter) Write(p []byte) (int, error) {
	for off := 0; off < len(p); off += 48 {
		end := off + 48
		if end > len(p) {
			end = len(p)
		}
		w.got.Write(p[off:end])
		if w.writes == 0 && w.between != nil {
			w.between()
		}
		w.writes++
	}
	return len(p), nil
}

func aliasCheck(run *Run, markers []marker, ops []string) {
	leaks := func(b []byte) []string {
		var out []string
		text := string(b)
		dec := decodedStrings(text)
		for _, m := range markers {
			if strings.Contains(text, m.Secret) || strings.Contains(dec, m.Secret) {
				out = append(out, m.Class)
			}
		}
		return out
	}
	type retained struct {
		what    string
		b, snap []byte
		secret  bool // unredacted by design (persisted form): only stability is required
	}
	var kept []*retained
	keep := func(what string, b []byte, secret bool) {
		k := &retained{what, b, append([]byte(nil), b...), secret}
		kept = append(kept, k)
		if !secret {
			for _, c := range leaks(k.snap) {
				run.Fail("leak:"+what+":"+c, what+" returns the inline private key placed at "+c, map[string]interface{}{"ops": ops})
			}
		}
	}
	reported := map[string]bool{}
	recheck := func(after string) {
		for _, k := range kept {
			if bytes.Equal(k.b, k.snap) || reported[k.what] {
				continue
			}
			reported[k.what] = true
			at := 0
			for at < len(k.b) && k.b[at] == k.snap[at] {
				at++
			}
			replay := map[string]interface{}{"ops": ops, "retained": k.what, "changed_after": after, "first_changed_byte": at, "length": len(k.b)}
			run.Fail("dump-bytes-alias-recycled-buffer:"+k.what, fmt.Sprintf("the bytes %s returned (retained by reference, %d bytes) changed from byte %d on after %s ran", k.what, len(k.b), at, after), replay)
			if !k.secret {
				for _, c := range leaks(k.b) {
					run.Fail("private-key-leaked:dump-bytes-changed-after-return:"+k.what, fmt.Sprintf("the bytes %s returned hold the inline private key placed at %s after %s ran (they did not when they were returned)", k.what, c, after), replay)
					break
				}
			}
		}
	}
	b, err := configmanager.DumpJSON()
	if err != nil {
		return
	}
	keep("DumpJSON", b, false)
	steps := []struct {
		name string
		fn   func()
	}{
		{"transferConfig", func() {
			if d, err := configmanager.VerifTransferConfig(); err == nil {
				keep("transferConfig", d, true)
			}
		}},
		{"InheritMosnconfig", func() {
			if d, err := configmanager.InheritMosnconfig(); err == nil {
				keep("InheritMosnconfig", d, true)
			}
		}},
		{"DumpConfig", func() { configmanager.VerifForceDump() }},
		{"DumpJSON", func() {
			if d, err := configmanager.DumpJSON(); err == nil {
				keep("DumpJSON-second", d, false)
			}
		}},
		{"config_dump?mosnconfig", func() { adminGet("GET", "?mosnconfig") }},
		{"config_dump?allclusters", func() { adminGet("GET", "?allclusters") }},
		{"config_dump", func() { adminGet("GET", "") }},
		{"transferConfig", func() { configmanager.VerifTransferConfig() }},
	}
	for _, st := range steps {
		st.fn()
		recheck(st.name)
	}
	run.Count(fmt.Sprintf("alias|%v", ops), len(markers) > 0, "endpoint:retained-bytes")
	// the handler with a slow reader: the reference response first, then the same request answered piecewise with the persist
	// tick (DumpConfig) and the hand-over serialization running after the first piece
	_, ref := adminGet("GET", "")
	for _, tick := range []struct {
		name string
		fn   func()
	}{{"DumpConfig", configmanager.VerifForceDump}, {"InheritMosnconfig", func() { configmanager.InheritMosnconfig() }}} {
		w := &slowWriter{hdr: http.Header{}, between: tick.fn}
		admin.ConfigDump(w, httptest.NewRequest("GET", "http://127.0.0.1/api/v1/config_dump", nil))
		got := w.got.String()
		replay := map[string]interface{}{"ops": ops, "reader": "48-byte pieces", "between_pieces": tick.name}
		for _, c := range leaks(w.got.Bytes()) {
			run.Fail("private-key-leaked:slow-reader:full", fmt.Sprintf("config_dump read in small pieces while %s runs returns the inline private key placed at %s", tick.name, c), replay)
			break
		}
		if canonJSON([]byte(got)) != canonJSON([]byte(ref)) {
			run.Fail("dump-bytes-alias-recycled-buffer:handler-full", fmt.Sprintf("config_dump read in small pieces while %s runs is not the response a fast reader gets", tick.name), replay)
		}
	}
	run.Count(fmt.Sprintf("slow|%v", ops), len(markers) > 0, "endpoint:slow-reader")
}
