package main

// Reflect-driven generation and printing of configuration values.
//
//   filler : fills any Go value of the configuration types at random (unique strings everywhere, so that the
//            JSON-level walk can tell positions apart) and puts a distinct MARKER SECRET into the PrivateKey of
//            every v2.TLSConfig it meets - the positions are whatever the types contain today.
//   vprinter: prints a Go configuration value as a Coq `val` term following the same type rules as the
//            translator (gen.go `ty`), with region ids for pointers / slices / maps so that aliasing is visible.

import (
	"bytes"
	"encoding"
	"encoding/json"
	"fmt"
	"net"
	"reflect"
	"regexp"
	"sort"
	"strconv"
	"strings"
	"time"

	"mosn.io/api"
	v2 "mosn.io/mosn/pkg/config/v2"

	. "vh/vhlib"
)

var (
	tlsConfigT  = reflect.TypeOf(v2.TLSConfig{})
	durationCfT = reflect.TypeOf(api.DurationConfig{})
	durationT   = reflect.TypeOf(time.Duration(0))
	netAddrT    = reflect.TypeOf((*net.Addr)(nil)).Elem()
)

// ---------------------------------------------------------------------------------------------------- filler

type marker struct {
	Secret string `json:"secret"`
	Class  string `json:"class"` // path with indices / keys stripped
	Path   string `json:"path"`
}

type filler struct {
	r        *Rng
	n        int
	markers  []marker
	maxDepth int
	blobKeys bool   // put TLS material (a private_key member with its own marker) into opaque blobs now and then
	tmp      string // directory for directory-mode paths
	dirPct   int    // probability (percent) of a directory-mode router / cluster path
	noTLS    bool
	hostile  bool // free-form strings (string-map values and keys, Value fields, strings inside blobs) from hostileStrings
}

// hostileStrings: what a free-form string of the configuration is drawn from now and then.  Strings that another
// reading would re-type or re-spell (non-canonical numerals, the JSON literals), the empty string, blanks, quotes, escapes,
// what encoding/json escapes on its own (<, >, &, U+2028), multi-byte runes, a long one.  All valid UTF-8.
var hostileStrings = []string{"1.10", "007", "1e3", "+1", "1.", ".5", "0x10", "1_0", "-0", "1.0", "1", "2", "1.1", "1000",
	"true", "false", "null", "TRUE", "NaN", "Inf", "", " ", " lead", "trail ", "two  blanks", "\"quoted\"", "back\\slash", "tab\there",
	"new\nline", "nul\x00byte", "<a&b>", "line\u2028sep", "h\u00e9llo", "\u4e2d\u6587", "\U0001F600", "{\"k\":1}", "[1]", "0s", "1.10.0",
	strings.Repeat("long-", 120),
	// a literal backslash followed by what looks like an escape, lone and doubled backslashes, documents that are already
	// escaped JSON (a direct-response body, a header value, a log format may be exactly that), the characters encoding/json
	// escapes for HTML
	"a\\u003cb", "\\u003e", "x\\u0026y", "q\\u0022q", "\\u005c", "lone\\slash", "two\\\\slashes", "trail\\", "\\n-as-two-characters", "\\<", "\\\\u003c", "{\\\"k\\\":\\\"<v>&\\\"}", "{\"body\":\"\\u003chtml\\u003e ok \\u0026 \\\\\"}", "<html>&amp;</html>", "a<b>c&d"}

func (f *filler) freeString() string {
	if f.hostile && f.r.Pct(55) {
		return hostileStrings[f.r.Intn(len(hostileStrings))]
	}
	return f.uniq("s")
}

func (f *filler) uniq(prefix string) string {
	f.n++
	return fmt.Sprintf("%s%d", prefix, f.n)
}

var idxRe = regexp.MustCompile(`\[[^\]]*\]`)

func pathClass(p string) string { return idxRe.ReplaceAllString(p, "[]") }

func (f *filler) newMarker(path string) string {
	s := f.uniq("SECRETMARK") + "X"
	f.markers = append(f.markers, marker{Secret: s, Class: pathClass(path), Path: path})
	return s
}

// durationValues: what EVERY duration-typed field (api.DurationConfig, time.Duration) is filled from: absent/zero, one
// nanosecond, below / at / just under the millisecond, fractional milliseconds, seconds, hours, more than a day, the maximum
var durationValues = []time.Duration{0, 0, 1, 200 * time.Microsecond, 500 * time.Microsecond, 999 * time.Microsecond, time.Millisecond,
	1500 * time.Microsecond, time.Second, 1500 * time.Millisecond, 90 * time.Second, 90 * time.Minute, 25 * time.Hour, 1<<63 - 1}

func (f *filler) duration() time.Duration { return durationValues[f.r.Intn(len(durationValues))] }

// blobJSON: what an interface{} / RawMessage position at `path` is filled with
func (f *filler) blobJSON(path string, depth int) interface{} {
	if f.blobKeys && depth == 0 && f.r.Pct(30) {
		cls := "blob:" + path
		switch f.r.Intn(3) {
		case 0:
			return map[string]interface{}{"tls_context": map[string]interface{}{"status": true, "private_key": f.newMarker(cls)}, f.uniq("k"): f.anyJSON(1)}
		case 1:
			return map[string]interface{}{"Private_Key": f.newMarker(cls)}
		default:
			return []interface{}{f.anyJSON(1), map[string]interface{}{"upstream": map[string]interface{}{"private_key": f.newMarker(cls)}}}
		}
	}
	return f.anyJSON(depth)
}

func (f *filler) anyJSON(depth int) interface{} {
	switch f.r.Intn(7) {
	case 0:
		return nil
	case 1:
		if f.hostile && f.r.Pct(40) {
			return hostileStrings[f.r.Intn(len(hostileStrings))]
		}
		return f.uniq("a")
	case 2:
		return float64(f.r.Intn(1000))
	case 3:
		return f.r.Bool()
	case 4:
		if depth > 1 {
			return f.uniq("a")
		}
		m := map[string]interface{}{}
		for i := f.r.Intn(3); i > 0; i-- {
			m[f.uniq("k")] = f.anyJSON(depth + 1)
		}
		return m
	case 5:
		if depth > 1 {
			return float64(f.r.Intn(9)) + 0.5
		}
		var l []interface{}
		for i := f.r.Intn(3); i > 0; i-- {
			l = append(l, f.anyJSON(depth+1))
		}
		return l
	}
	return f.uniq("a")
}

func (f *filler) fill(v reflect.Value, depth int, path string) {
	t := v.Type()
	switch {
	case t == tlsConfigT:
		f.fillStruct(v, depth, path)
		if !f.noTLS && f.r.Pct(85) {
			v.FieldByName("PrivateKey").SetString(f.newMarker(path + ".PrivateKey"))
		} else {
			v.FieldByName("PrivateKey").SetString("")
		}
		return
	case t == rawMessageT:
		if f.r.Pct(40) {
			b, _ := json.Marshal(map[string]interface{}{f.uniq("k"): f.blobJSON(path, 0)})
			v.SetBytes(b)
		}
		return
	case t == durationCfT:
		v.Field(0).SetInt(int64(f.duration()))
		return
	case t == durationT:
		v.SetInt(int64(f.duration()))
		return
	}
	switch t.Kind() {
	case reflect.Bool:
		v.SetBool(f.r.Bool())
	case reflect.Int, reflect.Int8, reflect.Int16, reflect.Int32, reflect.Int64:
		v.SetInt(int64([]int{0, 1, 2, 7, 100}[f.r.Intn(5)]))
	case reflect.Uint, reflect.Uint8, reflect.Uint16, reflect.Uint32, reflect.Uint64:
		v.SetUint(uint64([]int{0, 1, 2, 7, 100}[f.r.Intn(5)]))
	case reflect.Float32, reflect.Float64:
		v.SetFloat([]float64{0, 1, 0.5, 2.25}[f.r.Intn(4)])
	case reflect.String:
		if f.hostile && (strings.HasSuffix(path, ".Value") || strings.HasSuffix(path, ".Body") || strings.HasSuffix(path, ".Format") || strings.HasSuffix(path, "]") && strings.Contains(path, "{map}")) {
			v.SetString(f.freeString())
		} else if f.r.Pct(20) {
			v.SetString("")
		} else {
			v.SetString(f.uniq("s"))
		}
	case reflect.Struct:
		f.fillStruct(v, depth, path)
	case reflect.Ptr:
		if t.Elem().Kind() == reflect.Interface || depth >= f.maxDepth || f.r.Pct(40) {
			return
		}
		p := reflect.New(t.Elem())
		f.fill(p.Elem(), depth+1, path)
		v.Set(p)
	case reflect.Slice:
		if t.Elem().Kind() == reflect.Uint8 {
			return
		}
		if f.r.Pct(30) {
			return
		}
		n := f.r.Intn(3)
		if depth >= f.maxDepth {
			n = 0
		}
		s := reflect.MakeSlice(t, n, n)
		for i := 0; i < n; i++ {
			f.fill(s.Index(i), depth+1, fmt.Sprintf("%s[%d]", path, i))
		}
		v.Set(s)
	case reflect.Map:
		if t.Key().Kind() != reflect.String || f.r.Pct(30) {
			return
		}
		n := f.r.Intn(3)
		if depth >= f.maxDepth {
			n = 0
		}
		m := reflect.MakeMap(t)
		if f.hostile && t.Elem().Kind() == reflect.String && depth < f.maxDepth {
			n = f.r.Intn(4)
		}
		for i := 0; i < n; i++ {
			k := f.uniq("k")
			if f.hostile && t.Elem().Kind() == reflect.String && f.r.Pct(20) {
				k = hostileStrings[f.r.Intn(len(hostileStrings))]
			}
			e := reflect.New(t.Elem()).Elem()
			sub := fmt.Sprintf("%s[%s]", path, k)
			if t.Elem().Kind() == reflect.String {
				sub = fmt.Sprintf("%s{map}[%d]", path, i)
			}
			f.fill(e, depth+1, sub)
			m.SetMapIndex(reflect.ValueOf(k).Convert(t.Key()), e)
		}
		// a member named private_key directly in a string-keyed map (filter config {"private_key": ...}, metadata)
		if f.blobKeys && f.r.Pct(12) && (t.Elem().Kind() == reflect.String || (t.Elem().Kind() == reflect.Interface && t.Elem().NumMethod() == 0)) {
			k := []string{"private_key", "PRIVATE_KEY"}[f.r.Intn(2)]
			mk := reflect.ValueOf(f.newMarker("blob:" + path + "[]"))
			if t.Elem().Kind() == reflect.String {
				mk = mk.Convert(t.Elem())
			}
			m.SetMapIndex(reflect.ValueOf(k).Convert(t.Key()), mk)
		}
		v.Set(m)
	case reflect.Interface:
		if t.NumMethod() == 0 {
			if x := f.blobJSON(path, 0); x != nil {
				v.Set(reflect.ValueOf(x))
			}
		} else if t == netAddrT && f.r.Pct(50) {
			v.Set(reflect.ValueOf(&net.TCPAddr{IP: net.IPv4(127, 0, 0, 1), Port: 1000 + f.r.Intn(5000)}))
		}
	}
}

func (f *filler) fillStruct(v reflect.Value, depth int, path string) {
	t := v.Type()
	for i := 0; i < t.NumField(); i++ {
		sf := t.Field(i)
		if sf.PkgPath != "" && !sf.Anonymous {
			continue
		}
		fv := v.Field(i)
		if !fv.CanSet() {
			continue
		}
		f.fill(fv, depth+1, path+"."+sf.Name)
	}
}

// ---------------------------------------------------------------------------------------------------- vprinter

func coqStr(s string) string {
	ok := true
	for i := 0; i < len(s); i++ {
		if s[i] < 32 || s[i] > 126 {
			ok = false
			break
		}
	}
	if ok {
		return "\"" + strings.ReplaceAll(s, "\"", "\"\"") + "\""
	}
	// arbitrary bytes: concatenation of printable chunks and explicit characters
	var parts []string
	var cur strings.Builder
	flush := func() {
		if cur.Len() > 0 {
			parts = append(parts, "\""+strings.ReplaceAll(cur.String(), "\"", "\"\"")+"\"")
			cur.Reset()
		}
	}
	for i := 0; i < len(s); i++ {
		if s[i] < 32 || s[i] > 126 {
			flush()
			parts = append(parts, fmt.Sprintf("(String (Ascii.ascii_of_nat %d) EmptyString)", s[i]))
		} else {
			cur.WriteByte(s[i])
		}
	}
	flush()
	return "(" + strings.Join(parts, " ++ ") + ")"
}

type vprinter struct {
	ids    map[string]int
	raw    bool // print raw addresses instead of normalised ids (for change detection)
	nEmpty int
	custom map[reflect.Type]bool // struct types whose marshaler the model has no rule for: printed as the JSON they marshal to
}

func newVPrinter(raw bool) *vprinter { return &vprinter{ids: map[string]int{}, raw: raw} }

func (p *vprinter) region(kind string, ptr uintptr, empty bool) string {
	if p.raw {
		return fmt.Sprintf("%d", ptr)
	}
	key := fmt.Sprintf("%s:%d", kind, ptr)
	if empty {
		p.nEmpty++
		key = fmt.Sprintf("empty:%d", p.nEmpty)
	}
	id, ok := p.ids[key]
	if !ok {
		id = len(p.ids) + 1
		p.ids[key] = id
	}
	return fmt.Sprintf("%d", id)
}

func (p *vprinter) next0() int { return len(p.ids) + 1 }

func fmtFloat(f float64) string {
	b, _ := json.Marshal(f)
	return string(b)
}

// jsonToCoq parses a JSON document (object member order preserved) into a Coq `json` term.
func jsonToCoq(b []byte) (string, error) {
	dec := json.NewDecoder(bytes.NewReader(b))
	dec.UseNumber()
	var rec func() (string, error)
	rec = func() (string, error) {
		tok, err := dec.Token()
		if err != nil {
			return "", err
		}
		switch x := tok.(type) {
		case json.Delim:
			switch x {
			case '{':
				var items []string
				for dec.More() {
					kt, err := dec.Token()
					if err != nil {
						return "", err
					}
					v, err := rec()
					if err != nil {
						return "", err
					}
					items = append(items, "("+coqStr(kt.(string))+", "+v+")")
				}
				dec.Token()
				return "(JObj [" + strings.Join(items, "; ") + "])", nil
			case '[':
				var items []string
				for dec.More() {
					v, err := rec()
					if err != nil {
						return "", err
					}
					items = append(items, v)
				}
				dec.Token()
				return "(JArr [" + strings.Join(items, "; ") + "])", nil
			}
			return "", fmt.Errorf("unexpected delimiter %v", x)
		case string:
			return "(JStr " + coqStr(x) + ")", nil
		case json.Number:
			return "(JNum " + coqStr(x.String()) + ")", nil
		case bool:
			if x {
				return "(JBool true)", nil
			}
			return "(JBool false)", nil
		case nil:
			return "JNull", nil
		}
		return "", fmt.Errorf("unexpected token %v", tok)
	}
	return rec()
}

func isOpaqueNamed(t reflect.Type) bool {
	if t.Kind() == reflect.Interface || t.Kind() == reflect.Ptr || t.Name() == "" || inMosn(t) {
		return false
	}
	return t.Implements(marshalerT) || reflect.PtrTo(t).Implements(marshalerT) || t.Implements(textMarshalerT) || reflect.PtrTo(t).Implements(textMarshalerT)
}

func (p *vprinter) val(v reflect.Value) string {
	t := v.Type()
	if t == rawMessageT {
		if v.Len() == 0 {
			return "VNil"
		}
		j, err := jsonToCoq(v.Bytes())
		if err != nil {
			return "(VOpaque \"badjson\" \"\")"
		}
		return "(VJson " + j + ")"
	}
	if p.custom != nil && p.custom[t] && v.CanInterface() {
		if b, err := json.Marshal(v.Interface()); err == nil {
			if j, err := jsonToCoq(b); err == nil {
				return "(VJson " + j + ")"
			}
		}
	}
	if isOpaqueNamed(t) {
		if t == durationCfT {
			return fmt.Sprintf("(VOpaque \"api.DurationConfig\" \"%d\")", v.Field(0).Int())
		}
		if v.CanInterface() {
			if tm, ok := v.Interface().(encoding.TextMarshaler); ok {
				if b, err := tm.MarshalText(); err == nil {
					return "(VOpaque " + coqStr(tname(t)) + " " + coqStr(string(b)) + ")"
				}
			}
		}
		switch t.Kind() {
		case reflect.Int, reflect.Int8, reflect.Int16, reflect.Int32, reflect.Int64:
			return "(VInt " + CoqZ(v.Int()) + ")"
		case reflect.Uint, reflect.Uint8, reflect.Uint16, reflect.Uint32, reflect.Uint64:
			return fmt.Sprintf("(VInt %d%%Z)", v.Uint())
		}
		return "(VOpaque " + coqStr(tname(t)) + " \"\")"
	}
	switch t.Kind() {
	case reflect.Bool:
		return "(VBool " + CoqBool(v.Bool()) + ")"
	case reflect.Int, reflect.Int8, reflect.Int16, reflect.Int32, reflect.Int64:
		return "(VInt " + CoqZ(v.Int()) + ")"
	case reflect.Uint, reflect.Uint8, reflect.Uint16, reflect.Uint32, reflect.Uint64, reflect.Uintptr:
		return fmt.Sprintf("(VInt %d%%Z)", v.Uint())
	case reflect.Float32, reflect.Float64:
		return "(VFloat " + coqStr(fmtFloat(v.Float())) + ")"
	case reflect.String:
		return "(VStr " + coqStr(v.String()) + ")"
	case reflect.Ptr:
		if v.IsNil() {
			return "VNil"
		}
		return "(VRef " + p.region("p", v.Pointer(), false) + " [(\"\", " + p.val(v.Elem()) + ")])"
	case reflect.Slice, reflect.Array:
		if t.Elem().Kind() == reflect.Uint8 {
			if t.Kind() == reflect.Slice && v.IsNil() {
				return "VNil"
			}
			return "(VOpaque \"bytes\" \"\")"
		}
		if t.Kind() == reflect.Slice && v.IsNil() {
			return "VNil"
		}
		var items []string
		for i := 0; i < v.Len(); i++ {
			items = append(items, "(\"\", "+p.val(v.Index(i))+")")
		}
		var ptr uintptr
		if t.Kind() == reflect.Slice {
			ptr = v.Pointer()
		}
		return "(VRef " + p.region("s", ptr, v.Len() == 0) + " [" + strings.Join(items, "; ") + "])"
	case reflect.Map:
		if v.IsNil() {
			return "VNil"
		}
		if t.Key().Kind() != reflect.String {
			return "(VOpaque \"map\" \"\")"
		}
		keys := v.MapKeys()
		sort.Slice(keys, func(i, j int) bool { return keys[i].String() < keys[j].String() })
		var items []string
		for _, k := range keys {
			items = append(items, "("+coqStr(k.String())+", "+p.val(v.MapIndex(k))+")")
		}
		return "(VRef " + p.region("m", v.Pointer(), false) + " [" + strings.Join(items, "; ") + "])"
	case reflect.Interface:
		if v.IsNil() {
			return "VNil"
		}
		if t.NumMethod() == 0 {
			if !v.CanInterface() {
				return "(VOpaque \"unexported\" \"\")"
			}
			b, err := json.Marshal(v.Interface())
			if err != nil {
				return "(VOpaque \"unmarshalable\" \"\")"
			}
			j, err := jsonToCoq(b)
			if err != nil {
				return "(VOpaque \"badjson\" \"\")"
			}
			return "(VJson " + j + ")"
		}
		if t == netAddrT && v.CanInterface() {
			return "(VOpaque \"net.Addr\" " + coqStr(v.Interface().(net.Addr).String()) + ")"
		}
		return "(VOpaque " + coqStr("iface:"+tname(t)) + " \"\")"
	case reflect.Struct:
		if t.Name() != "" && !inMosn(t) && t.PkgPath() != "mosn.io/api" {
			return "(VOpaque " + coqStr(tname(t)) + " \"\")"
		}
		var items []string
		for i := 0; i < t.NumField(); i++ {
			items = append(items, p.val(v.Field(i)))
		}
		return "(VStruct [" + strings.Join(items, "; ") + "])"
	}
	return "(VOpaque " + coqStr("kind:"+t.Kind().String()) + " \"\")"
}

func quoteList(l []string) string {
	qs := make([]string, len(l))
	for i, s := range l {
		qs[i] = coqStr(s)
	}
	return "[" + strings.Join(qs, "; ") + "]"
}

var _ = strconv.Itoa
