package main

func c19(args []string) int { return 0 }
