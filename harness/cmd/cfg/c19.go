package main

// C19 - configuration survives dump and reload.
//
// FINDER (property itself on the implementation).  For every loadable sample configuration under /repo/configs and
// /repo/examples and for documents generated from the configuration types (reflect filler over v2.MOSNConfig made
// valid: one filter chain per listener, resolvable addresses, one TLS shape per chain, unique names; every field
// set / absent / zero at random, durations, byte sizes, per-filter config with nested numbers, directory mode for
// routers and clusters), the REAL pipeline is run twice:
//     configmanager.Load(file) -> effective config (the setter calls pkg/mosn's initialisation makes: SetMosnConfig,
//     ParseClusterConfig + SetClusterConfig + SetHosts, ParseListenerConfig + SetListenerConfig, deprecated
//     connection_manager routers + server routers via SetRouter, SetExtend) -> transferConfig (the persisted file)
//     -> Load(that file) -> ... -> transferConfig
//   F1  the second dump equals the first as canonical JSON (name-keyed lists sorted)
//   F3  the two LOADED configurations are compared structurally (every field MOSN uses incl. json:"-" ones, shadow
//       copies that a MarshalJSON overwrites excluded): a change that both dumps hide shows up here
//   F2  load(dump(load j)) is equivalent to load j: both are normalised by the defaults the initialisation applies
//       (cluster defaults, listener name, deprecated routers) and compared as canonical typed JSON - a field that
//       the effective config drops, defaults differently or re-types shows up here
// CORRESPONDENCE: model of encoding/json + hooks (Lib/GoJson.v) against the real Marshal on the loaded values.

import (
	"bytes"
	"context"
	"encoding/json"
	"fmt"
	"io/ioutil"
	"net"
	"net/url"
	"os"
	"path/filepath"
	"reflect"
	"regexp"
	"sort"
	"strconv"
	"strings"
	"time"
	"unicode/utf8"

	"github.com/ghodss/yaml"
	"mosn.io/api"
	v2 "mosn.io/mosn/pkg/config/v2"
	"mosn.io/mosn/pkg/configmanager"
	"mosn.io/mosn/pkg/log"
	"mosn.io/mosn/pkg/types"
	"mosn.io/mosn/pkg/upstream/cluster"

	. "vh/vhlib"
)

// tryParse: would configmanager.Load accept the file?  (DefaultConfigLoad exits the process on an error.)
func tryParse(path string) (*v2.MOSNConfig, string) {
	content, err := ioutil.ReadFile(path)
	if err != nil {
		return nil, "unreadable"
	}
	if ext := filepath.Ext(path); ext == ".yaml" || ext == ".yml" {
		content, err = yaml.YAMLToJSON(content)
		if err != nil {
			return nil, "yaml"
		}
	}
	cfg := &v2.MOSNConfig{}
	if err := json.Unmarshal(content, cfg); err != nil {
		return nil, "unmarshal:" + firstWords(err.Error(), 6)
	}
	return cfg, ""
}

func firstWords(s string, n int) string {
	w := strings.Fields(s)
	if len(w) > n {
		w = w[:n]
	}
	return strings.Join(w, " ")
}

// acceptable: the checks pkg/mosn makes (it exits on a violation)
func acceptable(cfg *v2.MOSNConfig) string {
	mode := cfg.Mode()
	if mode == v2.Xds {
		return "" // mosn installs a default server
	}
	if len(cfg.Servers) != 1 {
		return fmt.Sprintf("servers=%d", len(cfg.Servers))
	}
	for _, l := range cfg.Servers[0].Listeners {
		if len(l.FilterChains) != 1 {
			return "filter_chains!=1"
		}
	}
	for _, c := range cfg.ClusterManager.Clusters {
		if c.Name == "" {
			return "cluster-without-name"
		}
	}
	return ""
}

// initEffective: the setter calls of pkg/mosn's initialisation (initClusterManager, initServer, HandleExtendConfig)
func initEffective(cfg *v2.MOSNConfig) {
	configmanager.SetMosnConfig(cfg)
	if cfg.Mode() != v2.Xds {
		clusters, clusterMap := configmanager.ParseClusterConfig(cfg.ClusterManager.Clusters)
		for _, c := range clusters {
			configmanager.SetClusterConfig(c)
		}
		for _, c := range clusters {
			if hs, ok := clusterMap[c.Name]; ok {
				configmanager.SetHosts(c.Name, hs)
			}
		}
	}
	if cfg.Mode() != v2.Xds && len(cfg.Servers) > 0 {
		sc := &cfg.Servers[0]
		for idx := range sc.Listeners {
			lc := configmanager.ParseListenerConfig(&sc.Listeners[idx], nil, nil)
			if lc.Name == "" {
				lc.Name = lc.Addr.String()
			}
			configmanager.SetListenerConfig(*lc)
			if dr, err := configmanager.ParseRouterConfiguration(&lc.FilterChains[0]); err == nil && dr.RouterConfigName != "" {
				configmanager.SetRouter(*dr)
			}
		}
		for _, rc := range sc.Routers {
			if rc != nil && rc.RouterConfigName != "" {
				configmanager.SetRouter(*rc)
			}
		}
	}
	for _, e := range cfg.Extends {
		configmanager.SetExtend(e.Type, e.Config)
	}
}

// normalised: canonical typed JSON of a loaded config after the defaults of the initialisation
func normalised(cfg *v2.MOSNConfig) string {
	c := normaliseCfg(cfg)
	b, err := json.Marshal(c)
	if err != nil {
		return "marshal-error:" + err.Error()
	}
	return canonJSON(b)
}

// normaliseCfg: a loaded configuration after the defaults of the initialisation, name-keyed lists deduplicated and sorted, inline mode
func normaliseCfg(cfg *v2.MOSNConfig) v2.MOSNConfig {
	c := *cfg
	// compare item by item: path (directory) mode is turned into inline mode, so that every cluster and every
	// virtual host that was loaded from the directory is part of the compared document
	c.ClusterManager.ClusterConfigPath = ""
	if c.Mode() != v2.Xds {
		clusters, _ := configmanager.ParseClusterConfig(c.ClusterManager.Clusters)
		byName := map[string]v2.Cluster{}
		for _, cl := range clusters {
			byName[cl.Name] = cl
		}
		c.ClusterManager.Clusters = nil
		for _, cl := range byName {
			c.ClusterManager.Clusters = append(c.ClusterManager.Clusters, cl)
		}
	}
	if len(c.Servers) > 0 {
		servers := make([]v2.ServerConfig, len(c.Servers))
		copy(servers, c.Servers)
		c.Servers = servers
		sc := &c.Servers[0]
		routers := map[string]*v2.RouterConfiguration{}
		ls := map[string]v2.Listener{}
		for _, l := range sc.Listeners {
			if l.Name == "" && l.Addr != nil {
				l.Name = l.Addr.String()
			}
			if len(l.FilterChains) > 0 {
				if dr, err := configmanager.ParseRouterConfiguration(&l.FilterChains[0]); err == nil && dr.RouterConfigName != "" {
					routers[dr.RouterConfigName] = dr
				}
			}
			ls[l.Name] = l
		}
		for _, rc := range sc.Routers {
			if rc != nil && rc.RouterConfigName != "" {
				routers[rc.RouterConfigName] = rc
			}
		}
		for k, rc := range routers {
			cp := *rc
			cp.RouterConfigPath = ""
			routers[k] = &cp
		}
		sc.Listeners = nil
		for _, l := range ls {
			sc.Listeners = append(sc.Listeners, l)
		}
		sc.Routers = nil
		for _, r := range routers {
			sc.Routers = append(sc.Routers, r)
		}
	}
	sort.Slice(c.ClusterManager.Clusters, func(i, j int) bool { return c.ClusterManager.Clusters[i].Name < c.ClusterManager.Clusters[j].Name })
	if len(c.Servers) > 0 {
		sc := &c.Servers[0]
		sort.Slice(sc.Listeners, func(i, j int) bool { return sc.Listeners[i].Name < sc.Listeners[j].Name })
		sort.Slice(sc.Routers, func(i, j int) bool { return sc.Routers[i].RouterConfigName < sc.Routers[j].RouterConfigName })
		for _, rc := range sc.Routers {
			sort.SliceStable(rc.VirtualHosts, func(i, j int) bool { return rc.VirtualHosts[i].Name < rc.VirtualHosts[j].Name })
		}
	}
	return c
}

type rtResult struct {
	Dump1, Dump2        []byte
	Norm0, Norm1, Norm2 string
	Items0, Items1      []item        // named items of load j and of load (dump (load j))
	Cfg0, Cfg1          v2.MOSNConfig // load j and load (dump (load j)), normalised
	AltWhy              string        // the hand-over / DumpConfig bytes load to another configuration than the first dump
	AdminWhy            string        // an admin config_dump changed what transferConfig persists
}

// item: a cluster, a router or a virtual host of a loaded configuration
type item struct {
	Kind      string // cluster | router | vhost
	Container string // "" | router name (for virtual hosts)
	Name      string
	PathMode  bool // its container is in path (directory) mode
}

func itemsOf(cfg *v2.MOSNConfig) []item {
	var out []item
	cmPath := cfg.ClusterManager.ClusterConfigPath != ""
	seenC := map[string]bool{}
	for _, c := range cfg.ClusterManager.Clusters {
		if !seenC[c.Name] {
			seenC[c.Name] = true
			out = append(out, item{"cluster", "", c.Name, cmPath})
		}
	}
	if len(cfg.Servers) > 0 {
		routers := map[string]*v2.RouterConfiguration{}
		for _, rc := range cfg.Servers[0].Routers {
			if rc != nil && rc.RouterConfigName != "" {
				routers[rc.RouterConfigName] = rc
			}
		}
		for n, rc := range routers {
			out = append(out, item{"router", "", n, false})
			for _, vh := range rc.VirtualHosts {
				out = append(out, item{"vhost", n, vh.Name, rc.RouterConfigPath != ""})
			}
		}
	}
	sort.Slice(out, func(i, j int) bool {
		a, b := out[i], out[j]
		if a.Kind != b.Kind {
			return a.Kind < b.Kind
		}
		if a.Container != b.Container {
			return a.Container < b.Container
		}
		return a.Name < b.Name
	})
	return out
}

// refFileName: the file a named item of a path-mode container is kept in (config/v2 MarshalJSON of
// ClusterManagerConfig / RouterConfiguration): first MaxFilePath bytes of the name, path separators replaced, ".json"
func refFileName(name string) string {
	if len(name) > v2.MaxFilePath {
		name = name[:v2.MaxFilePath]
	}
	return strings.ReplaceAll(name, string(os.PathSeparator), "_") + ".json"
}

func lenBucket(n int) string {
	switch {
	case n == 0:
		return "empty"
	case n <= v2.MaxFilePath-5:
		return "<=123"
	case n <= v2.MaxFilePath:
		return "124..128"
	}
	return ">128"
}

// roundTrip runs load -> effective -> dump -> load -> effective -> dump on the real code, in dir.
func roundTrip(path, dir string) (*rtResult, string) {
	cfg0, why := tryParse(path)
	if cfg0 == nil {
		return nil, why
	}
	if why := acceptable(cfg0); why != "" {
		return nil, "rejected-by-mosn:" + why
	}
	res := &rtResult{}
	res.Norm0 = normalised(cfg0)
	res.Items0 = itemsOf(cfg0)
	res.Cfg0 = normaliseCfg(cfg0)
	configmanager.Reset()
	cfg := configmanager.Load(path)
	initEffective(cfg)
	d1, err := configmanager.VerifTransferConfig()
	if err != nil {
		return nil, "transfer1:" + firstWords(err.Error(), 6)
	}
	res.Dump1 = d1
	p1 := filepath.Join(dir, "dump1.json")
	ioutil.WriteFile(p1, d1, 0o644)
	cfg1, why := tryParse(p1)
	if cfg1 == nil {
		return res, "dump-not-reloadable:transferConfig:" + why
	}
	res.Norm1 = normalised(cfg1)
	res.Items1 = itemsOf(cfg1)
	res.Cfg1 = normaliseCfg(cfg1)
	// the other two ways the same bytes leave the process: the hot-upgrade hand-over and the file DumpConfig writes
	// (JSON and YAML config path).  Each must be loadable and load to the configuration the first dump loads to.
	same := func(what, p string) string {
		c, why := tryParse(p)
		if c == nil {
			return "dump-not-reloadable:" + what + ":" + why
		}
		if n := normalised(c); n != res.Norm1 && res.AltWhy == "" {
			// (reported by the caller unless an item was lost: with two items in one file every dump may keep another one)
			res.AltWhy = "dump-not-reloadable:" + what + ":loads to another configuration at " + jsonDiff(res.Norm1, n)
		}
		return ""
	}
	if ih, err := configmanager.InheritMosnconfig(); err != nil {
		return res, "dump-not-reloadable:InheritMosnconfig:" + firstWords(err.Error(), 6)
	} else {
		ph := filepath.Join(dir, "handover.json")
		ioutil.WriteFile(ph, ih, 0o644)
		if w := same("InheritMosnconfig", ph); w != "" {
			return res, w
		}
	}
	for _, ext := range []string{".json", ".yaml"} {
		pp := filepath.Join(dir, "persisted"+ext)
		os.Remove(pp)
		configmanager.VerifSetConfigPath(pp)
		configmanager.VerifForceDump()
		configmanager.VerifSetConfigPath(path)
		if _, err := os.Stat(pp); err != nil {
			return res, "dump-not-reloadable:DumpConfig" + ext + ":no file written (the previous file would stay)"
		}
		if w := same("DumpConfig"+ext, pp); w != "" {
			return res, w
		}
	}
	// the admin dump must not touch what is persisted: every query variant of /api/v1/config_dump (all names), then the
	// persisted form again - load -> admin dumps -> persisted dump must be load -> persisted dump
	adminRound++
	qs := adminQueries()
	if adminRound%4 != 0 { // every name for one document in four; the un-named variants for all
		qs = qs[:5]
	}
	c1 := ""
	for qi, q := range qs {
		adminGet("GET", q)
		// (the persisted form is compared after every endpoint for one document in four, after the last one otherwise)
		if adminRound%4 != 0 && qi != len(qs)-1 {
			continue
		}
		dA, err := configmanager.VerifTransferConfig()
		if err != nil {
			res.AdminWhy = "admin-dump-changes-persisted-config:" + q + ":transferConfig fails afterwards"
			break
		}
		if c1 == "" {
			c1 = canonJSON(d1)
		}
		if a, b := c1, canonJSON(dA); a != b {
			kind := strings.SplitN(strings.TrimPrefix(q, "?"), "=", 2)[0]
			if kind == "" {
				kind = "full"
			}
			if adminRound%4 != 0 {
				kind = "some-endpoint"
			}
			d := jsonDiff(a, b)
			res.AdminWhy = fmt.Sprintf("admin-dump-changes-persisted-config:%s:%s|after GET /api/v1/config_dump%s the persisted form differs at %s", kind, sigPath(d), q, d)
			break
		}
	}
	configmanager.Reset()
	cfg = configmanager.Load(p1)
	initEffective(cfg)
	d2, err := configmanager.VerifTransferConfig()
	if err != nil {
		return res, "transfer2:" + firstWords(err.Error(), 6)
	}
	res.Dump2 = d2
	p2 := filepath.Join(dir, "dump2.json")
	ioutil.WriteFile(p2, d2, 0o644)
	cfg2, why := tryParse(p2)
	if cfg2 == nil {
		return res, "dump-not-reloadable:transferConfig-second:" + why
	}
	res.Norm2 = normalised(cfg2)
	return res, ""
}

// jsonDiff: first differing path between two canonical JSON documents
func jsonDiff(a, b string) string {
	var x, y interface{}
	json.Unmarshal([]byte(a), &x)
	json.Unmarshal([]byte(b), &y)
	var rec func(p string, x, y interface{}) string
	rec = func(p string, x, y interface{}) string {
		switch xt := x.(type) {
		case map[string]interface{}:
			yt, ok := y.(map[string]interface{})
			if !ok {
				return p
			}
			keys := map[string]bool{}
			for k := range xt {
				keys[k] = true
			}
			for k := range yt {
				keys[k] = true
			}
			var ks []string
			for k := range keys {
				ks = append(ks, k)
			}
			sort.Strings(ks)
			for _, k := range ks {
				xv, xo := xt[k]
				yv, yo := yt[k]
				if xo != yo {
					return p + "." + k
				}
				if d := rec(p+"."+k, xv, yv); d != "" {
					return d
				}
			}
			return ""
		case []interface{}:
			yt, ok := y.([]interface{})
			if !ok || len(xt) != len(yt) {
				return p + "[]"
			}
			for i := range xt {
				if d := rec(p+"[]", xt[i], yt[i]); d != "" {
					return d
				}
			}
			return ""
		}
		if !reflect.DeepEqual(x, y) {
			return p
		}
		return ""
	}
	return rec("", x, y)
}

// itemName: a unique name for an item of a path-mode container, with a length around the file-name limits
func (f *filler) itemName(prefix string) string {
	lengths := []int{1, 8, 30, 122, 123, 124, 127, 128, 129, 200}
	L := lengths[f.r.Intn(len(lengths))]
	s := prefix + f.uniq("n")
	fill := []string{"abcdefghij", "x/y._ ", "\u00e9z"}[f.r.Intn(3)]
	for len(s) < L {
		s += fill
	}
	return s
}

func sampleFiles(repo string) []string {
	var out []string
	for _, root := range []string{"configs", "examples"} {
		filepath.Walk(filepath.Join(repo, root), func(p string, fi os.FileInfo, err error) error {
			if err != nil || fi.IsDir() {
				return nil
			}
			switch filepath.Ext(p) {
			case ".json", ".yaml", ".yml":
				out = append(out, p)
			}
			return nil
		})
	}
	sort.Strings(out)
	return out
}

// genConfig: a valid configuration document generated from the types
func genConfig(f *filler, r *Rng, dir string, n int) []byte {
	cfg := &v2.MOSNConfig{}
	f.fill(reflect.ValueOf(cfg).Elem(), 0, "cfg")
	// validity
	cfg.Servers = cfg.Servers[:0]
	sc := v2.ServerConfig{}
	f.fill(reflect.ValueOf(&sc).Elem(), 1, "server")
	if r.Bool() {
		sc.Processor = float64(1 + r.Intn(4))
	} else if r.Bool() {
		sc.Processor = "auto"
	} else {
		sc.Processor = nil
	}
	for i := range sc.Listeners {
		l := &sc.Listeners[i]
		l.Addr = nil
		l.InheritListener, l.InheritPacketConn = nil, nil
		l.AddrConfig = fmt.Sprintf("127.0.0.1:%d", 20000+r.Intn(2000))
		l.Network = []string{"", "tcp", "udp", "TCP"}[r.Intn(4)]
		if r.Pct(70) {
			l.Name = fmt.Sprintf("listener%d", r.Intn(3))
		} else {
			l.Name = ""
		}
		fc := v2.FilterChain{}
		f.fill(reflect.ValueOf(&fc).Elem(), 3, "chain")
		// one TLS shape per chain (tls_context XOR tls_context_set); MarshalJSON prints TLSContexts when non-empty
		switch r.Intn(5) {
		case 3: // a single tls_context that is switched off but fully populated
			fc.TLSContexts, fc.TLSConfigs = nil, nil
			tc := v2.TLSConfig{}
			f.fill(reflect.ValueOf(&tc).Elem(), 4, "disabled")
			tc.Status = false
			tc.CACert, tc.CertChain, tc.PrivateKey, tc.VerifyClient, tc.MinVersion = f.uniq("ca"), f.uniq("cert"), f.uniq("key"), true, "TLSv1_2"
			fc.TLSConfig = &tc
		case 4: // the same as a one-element tls_context_set (written through the JSON below: TLSConfigs)
			fc.TLSContexts, fc.TLSConfig = nil, nil
			tc := v2.TLSConfig{}
			f.fill(reflect.ValueOf(&tc).Elem(), 4, "disabled")
			tc.Status = false
			tc.CACert, tc.CertChain, tc.PrivateKey, tc.VerifyClient, tc.MinVersion = f.uniq("ca"), f.uniq("cert"), f.uniq("key"), true, "TLSv1_2"
			fc.TLSConfigs = []v2.TLSConfig{tc}
		case 0:
			fc.TLSContexts, fc.TLSConfigs = nil, nil
		case 1:
			fc.TLSConfig, fc.TLSConfigs = nil, nil
			if len(fc.TLSContexts) == 0 {
				fc.TLSContexts = []v2.TLSConfig{{Status: true, ServerName: "a"}}
			}
		default:
			fc.TLSConfig, fc.TLSContexts, fc.TLSConfigs = nil, nil, nil
		}
		if r.Pct(25) { // the deprecated way of giving routes
			fc.Filters = append(fc.Filters, v2.Filter{Type: v2.CONNECTION_MANAGER, Config: map[string]interface{}{
				"router_config_name": fmt.Sprintf("router%d", r.Intn(3)),
				"virtual_hosts":      []interface{}{map[string]interface{}{"name": "dvh", "domains": []interface{}{"*"}}},
			}})
		}
		l.FilterChains = []v2.FilterChain{fc}
	}
	for i := range sc.Routers {
		if sc.Routers[i] == nil {
			sc.Routers[i] = &v2.RouterConfiguration{}
		}
		rc := sc.Routers[i]
		rc.RouterConfigName = fmt.Sprintf("router%d", r.Intn(3))
		rc.RouterConfigPath = ""
		rc.StaticVirtualHosts = nil
		if r.Pct(f.dirPct) && len(rc.VirtualHosts) > 0 {
			rc.RouterConfigPath = filepath.Join(dir, fmt.Sprintf("routers_%d_%d", n, i))
			for vi := range rc.VirtualHosts {
				rc.VirtualHosts[vi].Name = f.itemName(fmt.Sprintf("vh%d-", vi))
			}
		}
	}
	cfg.Servers = append(cfg.Servers, sc)
	cm := &cfg.ClusterManager
	cm.ClustersJson = nil
	cm.ClusterConfigPath = ""
	for i := range cm.Clusters {
		cm.Clusters[i].Name = fmt.Sprintf("cluster%d", r.Intn(4))
	}
	if r.Pct(f.dirPct) && len(cm.Clusters) > 0 {
		cm.ClusterConfigPath = filepath.Join(dir, fmt.Sprintf("clusters_%d", n))
		for i := range cm.Clusters {
			cm.Clusters[i].Name = f.itemName(fmt.Sprintf("c%d-", i))
		}
		seen := map[string]bool{}
		var cs []v2.Cluster
		for _, c := range cm.Clusters {
			if !seen[c.Name] {
				seen[c.Name] = true
				cs = append(cs, c)
			}
		}
		cm.Clusters = cs
	}
	for i := range cfg.Extends {
		cfg.Extends[i].Type = fmt.Sprintf("ext%d", i)
		if len(cfg.Extends[i].Config) == 0 {
			cfg.Extends[i].Config = json.RawMessage(`{}`)
		}
	}
	// xDS resources are outside this property: keep File mode
	cfg.RawDynamicResources, cfg.RawStaticResources = nil, nil
	return writeDoc(cfg)
}

// writeDoc serialises a configuration.  For a container in path (directory) mode the ITEM FILES ARE WRITTEN HERE under
// neutral names (item<i>.json; the loader reads every .json file of the directory), not by the marshaler under test,
// so that load j really holds every item whatever the marshaler's file naming does.
func writeDoc(cfg *v2.MOSNConfig) []byte {
	type pending struct {
		dir   string
		files [][]byte
	}
	var todo []pending
	c := *cfg
	if c.ClusterManager.ClusterConfigPath != "" {
		p := pending{dir: c.ClusterManager.ClusterConfigPath}
		for _, cl := range c.ClusterManager.Clusters {
			b, err := json.Marshal(cl)
			if err != nil {
				return nil
			}
			p.files = append(p.files, b)
		}
		todo = append(todo, p)
		c.ClusterManager.Clusters = nil
	}
	servers := make([]v2.ServerConfig, len(c.Servers))
	copy(servers, c.Servers)
	c.Servers = servers
	for si := range c.Servers {
		routers := make([]*v2.RouterConfiguration, len(c.Servers[si].Routers))
		for ri, rc := range c.Servers[si].Routers {
			routers[ri] = rc
			if rc == nil || rc.RouterConfigPath == "" {
				continue
			}
			p := pending{dir: rc.RouterConfigPath}
			for _, vh := range rc.VirtualHosts {
				b, err := json.Marshal(vh)
				if err != nil {
					return nil
				}
				p.files = append(p.files, b)
			}
			todo = append(todo, p)
			cp := *rc
			cp.VirtualHosts = nil
			routers[ri] = &cp
		}
		c.Servers[si].Routers = routers
	}
	b, err := json.MarshalIndent(c, "", " ") // (a path-mode marshaler with no items only clears its directory)
	if err != nil {
		return nil
	}
	b = respellDurations(b)
	for _, p := range todo {
		os.RemoveAll(p.dir)
		os.MkdirAll(p.dir, 0o755)
		for i, fb := range p.files {
			fb = respellDurations(fb)
			ioutil.WriteFile(filepath.Join(p.dir, fmt.Sprintf("item%d.json", i)), fb, 0o644)
		}
	}
	return b
}

// boundaryDocs: path-mode documents whose item names sit at the file-name limits
func boundaryDocs(dir string) []*v2.MOSNConfig {
	lengths := []int{1, 122, 123, 124, 127, 128, 129, 200}
	mk := func(tag string, names []string, k int) *v2.MOSNConfig {
		cfg := &v2.MOSNConfig{}
		sc := v2.ServerConfig{ServerName: "s"}
		rc := &v2.RouterConfiguration{}
		rc.RouterConfigName = "r1"
		rc.RouterConfigPath = filepath.Join(dir, fmt.Sprintf("b_%s_%d_routers", tag, k))
		for _, n := range names {
			rc.VirtualHosts = append(rc.VirtualHosts, v2.VirtualHost{Name: n, Domains: []string{fmt.Sprintf("d%d.example", len(rc.VirtualHosts))}})
		}
		sc.Routers = []*v2.RouterConfiguration{rc}
		cfg.Servers = []v2.ServerConfig{sc}
		cfg.ClusterManager.ClusterConfigPath = filepath.Join(dir, fmt.Sprintf("b_%s_%d_clusters", tag, k))
		for _, n := range names {
			cfg.ClusterManager.Clusters = append(cfg.ClusterManager.Clusters, v2.Cluster{Name: n, ClusterType: v2.SIMPLE_CLUSTER, LbType: v2.LB_RANDOM})
		}
		return cfg
	}
	pad := func(prefix string, n int, fill string) string {
		s := prefix
		for len(s) < n {
			s += fill
		}
		s = s[:n]
		for !utf8.ValidString(s) { // do not end in half a rune
			s = s[:len(s)-1]
		}
		for len(s) < n {
			s += "~"
		}
		return s
	}
	// a two-byte rune whose bytes sit at offsets at-1, at (so that a cut after `at` bytes splits it)
	straddle := func(at, n int) string {
		if n <= at {
			return pad("s", n, "k")
		}
		return pad(pad("s", at-1, "k")+"\u00e9", n, "w")
	}
	var out []*v2.MOSNConfig
	for k, L := range lengths {
		out = append(out, mk("ascii", []string{pad("n", L, "abcdefghij")}, k))
		out = append(out, mk("chars", []string{pad("a/b.c d", L, "x/y._ ")}, k))
		// a two-byte rune straddling the cut, a name ending in .json, a leading dot
		out = append(out, mk("misc", []string{straddle(128, L), "t" + straddle(122, L-1), pad("\u00e9", L, "\u00e9\u00e9z"), pad(".h", L, "q.json"), pad("J", L, ".json")}, k))
	}
	// pairs that the file naming maps to one file: same first MaxFilePath bytes; '/' against '_'
	long := pad("p", 128, "0123456789")
	out = append(out, mk("collide-prefix", []string{long + "-A", long + "-B"}, 0))
	out = append(out, mk("collide-sep", []string{"a/b", "a_b"}, 0))
	return out
}

func c19(args []string) int {
	run := NewRun("C19", args)
	r := run.R
	log.DefaultLogger.SetLogLevel(log.FATAL)
	log.StartLogger.SetLogLevel(log.FATAL)
	run.Sum.Rule = "documents: (a) every .json/.yaml/.yml under /repo/configs and /repo/examples that configmanager.Load and pkg/mosn's checks accept (the others are counted by reason); (b) path-mode boundary documents: item names of exactly {1,122,123,124,127,128,129,200} bytes (ASCII, with separators/dots/blanks, a rune straddling the cut, names ending in .json) for clusters and virtual hosts, and pairs mapped to one file (same 128-byte prefix; '/' against '_'); (c) documents generated from the configuration types: reflect-random v2.MOSNConfig made valid (one server, one filter chain per listener with one of the TLS shapes (none, tls_context, tls_context_set, and a switched-off but populated single tls_context / one-element tls_context_set), resolvable addresses, tcp/udp/upper-case/absent network, named and unnamed listeners, duplicate names, deprecated connection_manager routes, path (directory) mode routers/clusters in a scratch directory with item names of 1..200 bytes incl. '/', '.', blanks and multi-byte runes (the item files of the INPUT are written by the harness under neutral names), durations, byte sizes, per-filter config with nested numbers, extension configs), marshalled with the real marshalers. Each document goes through load -> effective config -> transferConfig -> load -> effective config -> transferConfig on the real code. A case is non-trivial when the document has at least one listener, cluster or router; distinct by document hash."
	tmp := filepath.Join(run.Out, "c19dir")
	os.MkdirAll(tmp, 0o755)
	configmanager.VerifSetAutoWrite(false)
	g := walkTypes("/repo")
	sv := &semView{g: g}

	check := func(kind, name, path string, replay interface{}) {
		dir := filepath.Join(tmp, fmt.Sprintf("rt%d", run.Sum.Evaluations))
		os.MkdirAll(dir, 0o755)
		res, why := roundTrip(path, dir)
		if res == nil {
			run.Sum.Distribution["skipped:"+kind+":"+strings.SplitN(why, ":", 2)[0]]++
			if kind == "sample" {
				if run.Sum.Extra["not_loadable"] == nil {
					run.Sum.Extra["not_loadable"] = map[string]string{}
				}
				run.Sum.Extra["not_loadable"].(map[string]string)[name] = why
			}
			return
		}
		doc, _ := ioutil.ReadFile(path)
		nontrivial := strings.Contains(string(res.Dump1), `"listeners"`) || strings.Contains(string(res.Dump1), `"clusters"`) || strings.Contains(string(res.Dump1), `"routers"`)
		run.Count(fmt.Sprintf("%x", doc), nontrivial, "doc:"+kind)
		if why != "" {
			if strings.HasPrefix(why, "dump-not-reloadable:") {
				run.Fail(strings.Join(strings.SplitN(why, ":", 3)[:2], ":"), fmt.Sprintf("%s %s: %s", kind, name, why), replay)
				return
			}
			run.Fail("roundtrip-broken:"+strings.SplitN(why, ":", 2)[0], fmt.Sprintf("%s %s: %s", kind, name, why), replay)
			return
		}
		c1, c2 := canonJSON(res.Dump1), canonJSON(res.Dump2)
		if c1 != c2 {
			d := jsonDiff(c1, c2)
			run.Fail("second-dump-differs:"+pathClass(d), fmt.Sprintf("%s %s: dump(load(dump(load j))) differs from dump(load j) at %s", kind, name, d), replay)
		}
		// item by item: every cluster / router / virtual host of load j is there after load (dump (load j))
		have := map[item]bool{}
		for _, it := range res.Items1 {
			it.PathMode = false
			have[it] = true
		}
		lostAny := false
		for _, it := range res.Items0 {
			k := it
			k.PathMode = false
			if have[k] {
				continue
			}
			lostAny = true
			class := "inline"
			if it.PathMode {
				class = "name-len-" + lenBucket(len(it.Name))
				// another item of the same container kept in the same file?
				for _, o := range res.Items0 {
					if o.Kind == it.Kind && o.Container == it.Container && o.Name != it.Name && refFileName(o.Name) == refFileName(it.Name) {
						class = "file-name-collision"
					}
				}
			}
			mode := map[string]string{"cluster": "clusters_configs", "vhost": "router_configs", "router": "routers"}[it.Kind]
			run.Fail("reload-lost-item:"+mode+":"+class,
				fmt.Sprintf("%s %s: the %s %q (name of %d bytes) of load j is missing from load(dump(load j))", kind, name, it.Kind, it.Name, len(it.Name)), replay)
		}
		run.Sum.Distribution["items:checked"] += len(res.Items0)
		for _, it := range res.Items0 {
			if it.PathMode {
				run.Sum.Distribution["items:path-mode:"+it.Kind+":name-len-"+lenBucket(len(it.Name))]++
			}
		}
		if res.AdminWhy != "" {
			parts := strings.SplitN(res.AdminWhy, "|", 2)
			run.Fail(parts[0], fmt.Sprintf("%s %s: %s", kind, name, strings.Join(parts, ": ")), replay)
		}
		if res.AltWhy != "" && !lostAny {
			run.Fail(strings.Join(strings.SplitN(res.AltWhy, ":", 3)[:2], ":"), fmt.Sprintf("%s %s: %s", kind, name, res.AltWhy), replay)
		}
		if res.Norm1 != res.Norm2 && !lostAny {
			d := jsonDiff(res.Norm1, res.Norm2)
			run.Fail("second-reload-differs:"+sigPath(d), fmt.Sprintf("%s %s: load of the second dump differs from load of the first at %s", kind, name, d), replay)
		}
		if res.Norm0 == res.Norm1 && !lostAny {
			// the two loaded configurations themselves (not their re-serialisation, which goes through the same marshalers):
			// every field MOSN uses, shadow copies excluded
			t0 := sv.tree(reflect.ValueOf(res.Cfg0), nil)
			t1 := sv.tree(reflect.ValueOf(res.Cfg1), nil)
			lastDiffX, lastDiffY = nil, nil
			if d := treeDiff("", t0, t1); d != "" {
				run.Fail("reload-changes-loaded-config:"+pathClass(d), fmt.Sprintf("%s %s: the configuration loaded from the dump differs from the loaded configuration at %s: loaded %s, after dump and reload %s (both dumps are identical)", kind, name, d, showDiffValue(lastDiffX), showDiffValue(lastDiffY)), replay)
			}
			run.Sum.Distribution["loaded-configs-compared"]++
		}
		if res.Norm0 != res.Norm1 && lostAny {
			// already reported item by item
		} else if res.Norm0 != res.Norm1 {
			d := jsonDiff(res.Norm0, res.Norm1)
			if cfg0, _ := tryParse(path); cfg0 != nil && cfg0.Mode() == v2.Xds && d == ".servers" {
				d = "xds-mode:.servers"
			}
			run.Fail("reload-not-equivalent:"+pathClass(d), fmt.Sprintf("%s %s: load(dump(load j)) is not equivalent to load j at %s", kind, name, d), replay)
		}
		if run.Sum.Evaluations <= 3 {
			run.Sample(map[string]interface{}{"kind": kind, "name": name, "dump_bytes": len(res.Dump1)})
		}
	}

	for _, p := range sampleFiles("/repo") {
		rel, _ := filepath.Rel("/repo", p)
		// directory-mode samples would write into /repo: run them from a scratch copy of their directory
		check("sample", rel, p, map[string]interface{}{"file": rel})
	}
	for i, cfg := range boundaryDocs(tmp) {
		b := writeDoc(cfg)
		p := filepath.Join(tmp, fmt.Sprintf("boundary%d.json", i))
		ioutil.WriteFile(p, b, 0o644)
		var names []string
		for _, c := range cfg.ClusterManager.Clusters {
			names = append(names, c.Name)
		}
		check("boundary", fmt.Sprintf("boundary%d", i), p, map[string]interface{}{"path_mode": true, "item_names": names, "name_lengths": func() (l []int) {
			for _, n := range names {
				l = append(l, len(n))
			}
			return
		}()})
	}
	nGen := run.N(120, 2500)
	respellRng = r
	defer func() { respellRng = nil }()
	for i := 0; i < nGen; i++ {
		f := &filler{r: r, maxDepth: 9, tmp: tmp, dirPct: 30, noTLS: false, hostile: true, blobKeys: true}
		b := genConfig(f, r, tmp, i)
		if b == nil {
			run.Sum.Distribution["gen:marshal-error"]++
			continue
		}
		p := filepath.Join(tmp, fmt.Sprintf("gen%d.json", i))
		ioutil.WriteFile(p, b, 0o644)
		check("generated", fmt.Sprintf("gen%d", i), p, map[string]interface{}{"seed": run.Seed, "index": i, "document": json.RawMessage(b)})
	}
	respellRng = nil
	for k, v := range respellCount {
		run.Sum.Distribution[k] += v
	}
	// ---------------- correspondence: the model of Marshal / Unmarshal against encoding/json on the real types
	custom := map[reflect.Type]bool{}
	for _, st := range g.structs {
		if st.Hook == "HkCustom" {
			custom[st.T] = true
		}
	}
	header := "From Coq Require Import List String Bool ZArith NArith Ascii.\nFrom MV Require Import Lib.GoJson Gen.CfgTypes Model.ConfigRT.\nImport ListNotations.\nOpen Scope string_scope.\n"
	var sh *Shard
	newShard := func() { sh = run.NewShard(header, "rt_case", "c19_mismatches") }
	newShard()
	add := func(term string, descr interface{}) {
		sh.Add(term, descr)
		if sh.Len() >= 25 {
			sh.Close()
			newShard()
		}
	}
	// (a) Marshal of whole loaded configurations (all hooks on the way)
	encDocs := 0
	encOne := func(name, path string) {
		cfg, why := tryParse(path)
		if cfg == nil || why != "" || acceptable(cfg) != "" {
			return
		}
		// keep directory-mode marshalers from writing next to the samples
		if cfg.ClusterManager.ClusterConfigPath != "" {
			return
		}
		for _, sc := range cfg.Servers {
			for _, rc := range sc.Routers {
				if rc != nil && rc.RouterConfigPath != "" {
					return
				}
			}
		}
		b, err := json.Marshal(cfg)
		if err != nil {
			return
		}
		j, err := jsonToCoq(b)
		if err != nil {
			return
		}
		pr := newVPrinter(false)
		pr.custom = custom
		add(fmt.Sprintf("(EncCase (TNamed \"v2.MOSNConfig\", %s, %s))", pr.val(reflect.ValueOf(cfg).Elem()), j), map[string]interface{}{"kind": "encode", "doc": name})
		encDocs++
		run.Sum.Distribution["model:encode-doc"]++
		// the whole graph on the unmarshal side: the canonical dump b is reloaded by the real Unmarshal; the model's decode
		// (all hooks: shadow pairs, Listener, FilterChain, inline RouterConfiguration / ClusterManagerConfig) must give the
		// same value, that value must satisfy the premise of c19_roundtrip_full, and the model's own round trip must hold on it
		back := &v2.MOSNConfig{}
		if json.Unmarshal(b, back) == nil {
			pr2 := newVPrinter(false)
			pr2.custom = custom
			bv := pr2.val(reflect.ValueOf(back).Elem())
			add(fmt.Sprintf("(DecHCase (TNamed \"v2.MOSNConfig\", %s, %s))", j, bv), map[string]interface{}{"kind": "decode-whole", "doc": name})
			add(fmt.Sprintf("(WfCase (TNamed \"v2.MOSNConfig\", %s))", bv), map[string]interface{}{"kind": "wf-whole", "doc": name})
			add(fmt.Sprintf("(StableCase (TNamed \"v2.MOSNConfig\", %s))", bv), map[string]interface{}{"kind": "stable-whole", "doc": name})
			run.Sum.Distribution["model:decode-whole-doc"]++
		}
	}
	for _, p := range sampleFiles("/repo") {
		rel, _ := filepath.Rel("/repo", p)
		encOne(rel, p)
	}
	for i := 0; i < run.N(30, 300) && i < nGen; i++ {
		encOne(fmt.Sprintf("gen%d", i), filepath.Join(tmp, fmt.Sprintf("gen%d.json", i)))
	}
	// (b) Unmarshal on every struct type of the graph whose closure is hook-free (the fragment of c19_roundtrip)
	pure := map[reflect.Type]bool{}
	allowPairs := false // also accept structs with a shadow-field hook whose unmarshal side is only derivations
	var isPure func(t reflect.Type, seen map[reflect.Type]bool) bool
	isPure = func(t reflect.Type, seen map[reflect.Type]bool) bool {
		switch t.Kind() {
		case reflect.Ptr:
			switch t.Elem().Kind() {
			case reflect.Ptr, reflect.Slice, reflect.Map, reflect.Interface:
				return false
			}
			return isPure(t.Elem(), seen)
		case reflect.Slice, reflect.Array, reflect.Map:
			if t == rawMessageT {
				return true
			}
			if t.Kind() == reflect.Map && t.Key().Kind() != reflect.String {
				return false
			}
			if t.Elem().Kind() == reflect.Uint8 {
				return false
			}
			return isPure(t.Elem(), seen)
		case reflect.Interface:
			return t.NumMethod() == 0
		case reflect.Struct:
			if isOpaqueNamed(t) {
				return true
			}
			st, ok := g.byType[t]
			if !ok {
				return false
			}
			hooked := st.Hook != "HkNone" || st.Unhook != "UkNone"
			if hooked && !(allowPairs && strings.HasPrefix(st.Hook, "(HkShadow") && strings.HasPrefix(st.Unhook, "(UkShadow") && strings.HasSuffix(st.Unhook, " 0)") && !st.MPtrRecv) {
				return false
			}
			if seen[t] {
				return true
			}
			seen[t] = true
			for _, f := range st.Fields {
				if f.Skip {
					if f.T.Kind() == reflect.Interface && f.T.NumMethod() > 0 {
						return false
					}
					continue
				}
				if (f.Embed && !hooked) || !isPure(f.T, seen) {
					return false
				}
			}
			return true
		case reflect.Func, reflect.Chan, reflect.UnsafePointer:
			return false
		}
		return true
	}
	var pureTypes []*gstruct
	for _, st := range g.structs {
		if isPure(st.T, map[reflect.Type]bool{}) && !isOpaqueNamed(st.T) {
			pure[st.T] = true
			pureTypes = append(pureTypes, st)
		}
	}
	run.Sum.Extra["plain_fragment_types"] = len(pureTypes)
	run.Sum.Extra["graph_structs"] = len(g.structs)
	for _, st := range pureTypes {
		for k := 0; k < run.N(2, 12); k++ {
			f := &filler{r: r, maxDepth: 6, noTLS: true, hostile: true}
			v := reflect.New(st.T)
			f.fill(v.Elem(), 0, st.Name)
			b, err := json.Marshal(v.Interface())
			if err != nil {
				continue
			}
			back := reflect.New(st.T)
			if err := json.Unmarshal(b, back.Interface()); err != nil {
				run.Sum.Distribution["model:decode-real-unmarshal-error"]++
				continue
			}
			j, err := jsonToCoq(b)
			if err != nil {
				continue
			}
			pr := newVPrinter(false)
			add(fmt.Sprintf("(DecCase (TNamed %s, %s, %s))", coqStr(st.Name), j, pr.val(back.Elem())), map[string]interface{}{"kind": "decode", "type": st.Name, "doc": string(b)})
			run.Sum.Distribution["model:decode-case"]++
			// the real second dump equals the first (the property on the fragment, on the real encoder)
			b2, _ := json.Marshal(back.Interface())
			if string(b2) != string(b) {
				run.Fail("json-fragment-unstable:"+st.Name, "Marshal(Unmarshal(Marshal(v))) differs from Marshal(v) for a hook-free type", map[string]interface{}{"type": st.Name, "doc": string(b), "second": string(b2)})
			}
		}
	}
	// (b') types whose closure also has shadow-field hooks of the derivation-only shape: the model's Unmarshal with
	// derivations against the real one, and the model's own dump(load(dump v)) = dump v on the real value
	allowPairs = true
	nPairs := 0
	for _, st := range g.structs {
		if pure[st.T] || isOpaqueNamed(st.T) || !isPure(st.T, map[reflect.Type]bool{}) {
			continue
		}
		nPairs++
		for k := 0; k < run.N(3, 15); k++ {
			f := &filler{r: r, maxDepth: 7, noTLS: true, hostile: true}
			v := reflect.New(st.T)
			f.fill(v.Elem(), 0, st.Name)
			b, err := json.Marshal(v.Interface())
			if err != nil {
				continue
			}
			back := reflect.New(st.T)
			if err := json.Unmarshal(b, back.Interface()); err != nil {
				run.Sum.Distribution["model:decode-real-unmarshal-error"]++
				continue
			}
			j, err := jsonToCoq(b)
			if err != nil {
				continue
			}
			pr := newVPrinter(false)
			bv := pr.val(back.Elem())
			add(fmt.Sprintf("(DecHCase (TNamed %s, %s, %s))", coqStr(st.Name), j, bv), map[string]interface{}{"kind": "decode-hooked", "type": st.Name, "doc": string(b)})
			add(fmt.Sprintf("(StableCase (TNamed %s, %s))", coqStr(st.Name), bv), map[string]interface{}{"kind": "stable-hooked", "type": st.Name, "doc": string(b)})
			run.Sum.Distribution["model:decode-hooked-case"]++
			b2, _ := json.Marshal(back.Interface())
			if string(b2) != string(b) {
				run.Fail("json-hooked-unstable:"+st.Name, "Marshal(Unmarshal(Marshal(v))) differs from Marshal(v) for a type with shadow-field hooks", map[string]interface{}{"type": st.Name, "doc": string(b), "second": string(b2)})
			}
		}
	}
	run.Sum.Extra["shadow_hook_closure_types"] = nPairs
	// (b2) subset metadata in the INPUT text: string members that another reading would re-type (non-canonical numerals, the
	// JSON literals as strings), and members that are not strings at all - what the real Unmarshal makes of them, what the
	// real Marshal prints for the result, against the model (decode / encode of the same type)
	metaDocs := []string{
		`{"mosn.lb":{"version":"1.10","zeros":"007","exp":"1e3","plus":"+1","dot":"1.","half":".5","hex":"0x10","neg0":"-0","one0":"1.0","t":"true","f":"false","n":"null","T":"TRUE","e":""," ":" ","q":"\"q\"","u":"h\u00e9"}}`,
		`{"mosn.lb":{"version":"1.1","n":2,"f":1.5,"x":1000,"b":true,"c":false,"z":null,"o":{"a":"b"},"l":["x"],"s":"gray"}}`, // (numbers in canonical spelling: the model keeps number literals, Go re-spells them through float64)
		`{"mosn.lb":{"n":2}}`, `{"mosn.lb":{}}`, `{"mosn.lb":null}`, `{}`,
	}
	for _, st := range g.structs {
		member := map[string]string{"v2.Host": "metadata", "v2.Router": "metadata", "v2.RouteAction": "metadata_match", "v2.ClusterWeight": "metadata_match"}[st.Name]
		if member == "" {
			continue
		}
		for _, md := range metaDocs {
			doc := fmt.Sprintf(`{%q:{"filter_metadata":%s}}`, member, md)
			{ // members in sorted order (the printer lists Go maps sorted by key, the model keeps document order)
				dec := json.NewDecoder(strings.NewReader(doc))
				dec.UseNumber()
				var x interface{}
				if dec.Decode(&x) == nil {
					if b, err := json.Marshal(x); err == nil {
						doc = string(b)
					}
				}
			}
			back := reflect.New(st.T)
			if err := json.Unmarshal([]byte(doc), back.Interface()); err != nil {
				run.Sum.Distribution["model:metadata-doc-unmarshal-error"]++
				continue
			}
			j, err := jsonToCoq([]byte(doc))
			if err != nil {
				continue
			}
			pr := newVPrinter(false)
			bv := pr.val(back.Elem())
			add(fmt.Sprintf("(DecHCase (TNamed %s, %s, %s))", coqStr(st.Name), j, bv), map[string]interface{}{"kind": "decode-metadata-doc", "type": st.Name, "doc": doc})
			if b2, err := json.Marshal(back.Interface()); err == nil {
				if j2, err := jsonToCoq(b2); err == nil {
					add(fmt.Sprintf("(EncCase (TNamed %s, %s, %s))", coqStr(st.Name), bv, j2), map[string]interface{}{"kind": "encode-metadata-doc", "type": st.Name, "doc": doc})
				}
				// the loaded value itself must survive its own dump and reload (not only print the same)
				again := reflect.New(st.T)
				if err := json.Unmarshal(b2, again.Interface()); err == nil {
					sv := &semView{g: g}
					lastDiffX, lastDiffY = nil, nil
					if d := treeDiff("", sv.tree(back.Elem(), nil), sv.tree(again.Elem(), nil)); d != "" {
						run.Fail("reload-changes-loaded-config:"+st.Name+pathClass(d), fmt.Sprintf("%s loaded from %s: after dump and reload %s differs: loaded %s, reloaded %s", st.Name, doc, d, showDiffValue(lastDiffX), showDiffValue(lastDiffY)), map[string]interface{}{"type": st.Name, "doc": doc, "dump": string(b2)})
					}
				}
			}
			run.Sum.Distribution["model:metadata-doc-case"]++
		}
	}
	// (b'') path-mode file naming: the file the real marshalers write for an item name, against the model of the
	// operation order read from the source
	fileCase := func(router bool, name string) {
		if name == "" {
			return
		}
		d := filepath.Join(tmp, fmt.Sprintf("fn%d", run.Sum.Distribution["model:file-name-case"]))
		os.RemoveAll(d)
		var err error
		if router {
			rc := v2.RouterConfiguration{}
			rc.RouterConfigName, rc.RouterConfigPath = "r", d
			rc.VirtualHosts = []v2.VirtualHost{{Name: name}}
			_, err = json.Marshal(rc)
		} else {
			cm := v2.ClusterManagerConfig{}
			cm.ClusterConfigPath = d
			cm.Clusters = []v2.Cluster{{Name: name}}
			_, err = json.Marshal(cm)
		}
		ents, _ := ioutil.ReadDir(d)
		if err != nil || len(ents) != 1 {
			run.Sum.Distribution["model:file-name-unwritable"]++
			return
		}
		add(fmt.Sprintf("(FileCase %v %s %s)", router, coqStr(name), coqStr(ents[0].Name())), map[string]interface{}{"kind": "file-name", "router": router, "name": name, "file": ents[0].Name()})
		run.Sum.Distribution["model:file-name-case"]++
	}
	for _, cfg := range boundaryDocs(tmp) {
		for _, cl := range cfg.ClusterManager.Clusters {
			fileCase(false, cl.Name)
			fileCase(true, cl.Name)
		}
	}
	// (b3) the directory of a path-mode container after the real marshaler ran on it: stale files (json and not), items
	// in order (incl. pairs mapped to one file), against the model's path_write / listing
	dirCase := func(router bool, stale, names []string) {
		d := filepath.Join(tmp, fmt.Sprintf("dc%d", run.Sum.Distribution["model:dir-case"]+run.Sum.Distribution["model:dir-unwritable"]))
		os.RemoveAll(d)
		os.MkdirAll(d, 0755)
		for _, s := range stale {
			ioutil.WriteFile(filepath.Join(d, s), []byte("{}"), 0644)
		}
		var err error
		if router {
			rc := v2.RouterConfiguration{}
			rc.RouterConfigName, rc.RouterConfigPath = "r", d
			for _, n := range names {
				rc.VirtualHosts = append(rc.VirtualHosts, v2.VirtualHost{Name: n})
			}
			_, err = json.Marshal(rc)
		} else {
			cm := v2.ClusterManagerConfig{}
			cm.ClusterConfigPath = d
			for _, n := range names {
				cm.Clusters = append(cm.Clusters, v2.Cluster{Name: n})
			}
			_, err = json.Marshal(cm)
		}
		ents, e2 := ioutil.ReadDir(d)
		if err != nil || e2 != nil {
			run.Sum.Distribution["model:dir-unwritable"]++
			return
		}
		var lst []string
		for _, e := range ents {
			lst = append(lst, e.Name())
		}
		strs := func(l []string) string {
			var q []string
			for _, x := range l {
				q = append(q, coqStr(x))
			}
			return "[" + strings.Join(q, "; ") + "]"
		}
		add(fmt.Sprintf("(DirCase %v %s %s %s)", router, strs(stale), strs(names), strs(lst)), map[string]interface{}{"kind": "dir", "router": router, "stale": stale, "names": names, "listing": lst})
		run.Sum.Distribution["model:dir-case"]++
	}
	{
		long := strings.Repeat("p", 128)
		pool := []string{"a", "b", "a/b", "a_b", "z.json", ".hidden", "with blank", "x/y/z", long + "-A", long + "-B", strings.Repeat("q", 124), strings.Repeat("m", 200), "B", "0", "é"}
		stalePool := []string{"old.json", "a.json", "note.txt", "a_b.json", "zz", "B.json", strings.Repeat("q", 124) + ".json"}
		for i := 0; i < run.N(24, 300); i++ {
			var names, stale []string
			for k := r.Intn(5); k >= 0; k-- {
				names = append(names, pool[r.Intn(len(pool))])
			}
			seen := map[string]bool{}
			for k := r.Intn(4); k > 0; k-- {
				s := stalePool[r.Intn(len(stalePool))]
				if !seen[s] {
					seen[s] = true
					stale = append(stale, s)
				}
			}
			dirCase(i%2 == 0, stale, names)
		}
	}
	// (c) the duration coder law used by the hook pairs: ParseDuration(String(d)) = d
	durs := []time.Duration{0, 1, 999, 1000, 1500, time.Millisecond, 1500 * time.Microsecond, time.Second, 1500 * time.Millisecond, time.Minute, 90 * time.Second, time.Hour, 1<<63 - 1, -1500 * time.Millisecond}
	for i := 0; i < run.N(200, 5000); i++ {
		durs = append(durs, time.Duration(r.U64()>>uint(r.Intn(64))))
	}
	for _, d := range durs {
		back, err := time.ParseDuration(d.String())
		if err != nil || back != d {
			run.Fail("duration-coder-law", fmt.Sprintf("ParseDuration(String(%d)) = %d, %v", int64(d), int64(back), err), map[string]interface{}{"nanos": int64(d)})
		}
	}
	run.Sum.Distribution["coder:duration-checked"] = len(durs)
	// ... and the MODEL of Duration.String / ParseDuration (theorem c19_duration_coder is about these two functions)
	// against the real ones: the printed text of each value, the parse of that text, of other accepted spellings and of
	// texts ParseDuration rejects.  Only texts in the model's domain: no overflowing numbers, at most as many fraction
	// digits as the unit has decimal places below it (the float computation of the fraction is exact there).
	durTexts := map[string]bool{}
	for i, d := range append(append([]time.Duration{}, durationValues...), durs...) {
		if i > 90 && run.Tier != "thorough" {
			break
		}
		add(fmt.Sprintf("(DurFmt (%d)%%Z %s)", int64(d), coqStr(d.String())), map[string]interface{}{"kind": "duration-print", "nanos": int64(d)})
		durTexts[d.String()] = true
		if d >= 0 {
			for _, sp := range durationSpellings(d) {
				durTexts[sp] = true
			}
		}
	}
	for _, t := range []string{"", "0", "-0", "+0", "5", "s", "1x", "--1s", "+5s", ".5s", "1.s", ".s", "1..s", "1.5.5s", "1.5h", "0.25m", "1h0m0.000001s",
		"1us", "1\u00b5s", "1\u03bcs", "1 s", "1S", "10m10", "1h-1m", "0.5ms", "0.000001s", "01s", "1.0s", "1d"} {
		if u, err := strconv.Unquote("\"" + t + "\""); err == nil {
			durTexts[u] = true
		}
	}
	var texts []string
	for t := range durTexts {
		texts = append(texts, t)
	}
	sort.Strings(texts)
	for _, t := range texts {
		res := "None"
		if d, err := time.ParseDuration(t); err == nil {
			res = fmt.Sprintf("(Some (%d)%%Z)", int64(d))
		}
		add(fmt.Sprintf("(DurCase %s %s)", coqStr(t), res), map[string]interface{}{"kind": "duration-parse", "text": t})
	}
	run.Sum.Distribution["model:duration-text-case"] = len(texts)
	// ... and the model of the TEXT of a string (theorem c19_string_text_roundtrip): what json.Marshal writes for it, what
	// json.Unmarshal reads from a literal body
	for _, hs := range hostileStrings {
		b, err := json.Marshal(hs)
		if err != nil || len(b) < 2 {
			continue
		}
		body := string(b[1 : len(b)-1])
		add(fmt.Sprintf("(EscCase %s %s)", coqStr(hs), coqStr(body)), map[string]interface{}{"kind": "string-text", "string": hs})
		add(fmt.Sprintf("(UnescCase %s (Some %s))", coqStr(body), coqStr(hs)), map[string]interface{}{"kind": "string-literal", "literal": body})
		// the string taken AS a literal body (a backslash followed by u003c is then an escape; a lone backslash is invalid)
		var back string
		res := "None"
		if strings.IndexByte(hs, '"') < 0 && json.Unmarshal([]byte(`"`+hs+`"`), &back) == nil && !strings.ContainsRune(back, 0xFFFD) && !strings.Contains(strings.ToLower(hs), "\\ud") {
			res = "(Some " + coqStr(back) + ")"
		} else if json.Unmarshal([]byte(`"`+hs+`"`), &back) == nil {
			continue // (surrogates / replaced bytes: outside the model)
		}
		if strings.IndexByte(hs, '"') < 0 {
			add(fmt.Sprintf("(UnescCase %s %s)", coqStr(hs), res), map[string]interface{}{"kind": "string-literal", "literal": hs})
		}
		run.Sum.Distribution["model:string-text-case"]++
	}
	sh.Close()
	// (d) the effective-config state machine
	effHistories(run, r, tmp, custom)
	return run.Finish()
}

var _ = net.IPv4

// ---------------------------------------------------------------------------------------------------------------
// order-preserving JSON tree (object members keep their order), used to sort the name-keyed lists of a real
// transferConfig output by name without disturbing anything else

type onode struct {
	kind    byte // 'o' object, 'a' array, 's' string, 'n' number, 'b' bool, 'z' null
	keys    []string
	members []*onode
	str     string
	b       bool
}

func parseONode(b []byte) (*onode, error) {
	dec := json.NewDecoder(bytes.NewReader(b))
	dec.UseNumber()
	var rec func() (*onode, error)
	rec = func() (*onode, error) {
		tok, err := dec.Token()
		if err != nil {
			return nil, err
		}
		switch x := tok.(type) {
		case json.Delim:
			if x == '{' {
				n := &onode{kind: 'o'}
				for dec.More() {
					kt, err := dec.Token()
					if err != nil {
						return nil, err
					}
					v, err := rec()
					if err != nil {
						return nil, err
					}
					n.keys = append(n.keys, kt.(string))
					n.members = append(n.members, v)
				}
				dec.Token()
				return n, nil
			}
			n := &onode{kind: 'a'}
			for dec.More() {
				v, err := rec()
				if err != nil {
					return nil, err
				}
				n.members = append(n.members, v)
			}
			dec.Token()
			return n, nil
		case string:
			return &onode{kind: 's', str: x}, nil
		case json.Number:
			return &onode{kind: 'n', str: x.String()}, nil
		case bool:
			return &onode{kind: 'b', b: x}, nil
		}
		return &onode{kind: 'z'}, nil
	}
	return rec()
}

func (n *onode) get(key string) *onode {
	if n == nil || n.kind != 'o' {
		return nil
	}
	for i, k := range n.keys {
		if k == key {
			return n.members[i]
		}
	}
	return nil
}

func (n *onode) sortBy(key string) {
	if n == nil || n.kind != 'a' {
		return
	}
	name := func(m *onode) string {
		if x := m.get(key); x != nil && x.kind == 's' {
			return x.str
		}
		return ""
	}
	sort.SliceStable(n.members, func(i, j int) bool { return name(n.members[i]) < name(n.members[j]) })
}

func (n *onode) coq() string {
	switch n.kind {
	case 'o':
		var items []string
		for i, k := range n.keys {
			items = append(items, "("+coqStr(k)+", "+n.members[i].coq()+")")
		}
		return "(JObj [" + strings.Join(items, "; ") + "])"
	case 'a':
		var items []string
		for _, m := range n.members {
			items = append(items, m.coq())
		}
		return "(JArr [" + strings.Join(items, "; ") + "])"
	case 's':
		return "(JStr " + coqStr(n.str) + ")"
	case 'n':
		return "(JNum " + coqStr(n.str) + ")"
	case 'b':
		if n.b {
			return "(JBool true)"
		}
		return "(JBool false)"
	}
	return "JNull"
}

// sortedTransfer: the real transferConfig output with the three name-keyed lists sorted by name
func sortedTransfer(b []byte) (string, error) {
	root, err := parseONode(b)
	if err != nil {
		return "", err
	}
	if servers := root.get("servers"); servers != nil && servers.kind == 'a' && len(servers.members) > 0 {
		servers.members[0].get("listeners").sortBy("name")
		servers.members[0].get("routers").sortBy("router_config_name")
	}
	root.get("cluster_manager").get("clusters").sortBy("name")
	return root.coq(), nil
}

// effHistories: generated histories of the real effective-config setters against the model's state machine
func effHistories(run *Run, r *Rng, tmp string, custom map[reflect.Type]bool) {
	header := "From Coq Require Import List String Bool ZArith NArith Ascii.\nFrom MV Require Import Lib.GoJson Gen.CfgTypes Model.ConfigRT Model.EffConfig.\nImport ListNotations.\nOpen Scope string_scope.\n"
	sh := run.NewShard(header, "eff_case", "eff_mismatches")
	pv := func(v reflect.Value) string {
		p := newVPrinter(false)
		p.custom = custom
		return p.val(v)
	}
	for h := 0; h < run.N(24, 300); h++ {
		configmanager.SetMosnConfig(&v2.MOSNConfig{}) // Reset() keeps clusterConfigPath: clear it
		configmanager.Reset()
		f := &filler{r: r, maxDepth: 6, tmp: tmp}
		var ops, names []string
		for i, n := 0, 3+r.Intn(7); i < n; i++ {
			switch r.Intn(10) {
			case 0:
				cfg := &v2.MOSNConfig{}
				f.fill(reflect.ValueOf(cfg).Elem(), 2, "cfg")
				cfg.ClusterManager.ClusterConfigPath = ""
				cfg.RawDynamicResources, cfg.RawStaticResources = nil, nil
				ops = append(ops, "OSetMosn "+pv(reflect.ValueOf(cfg).Elem()))
				configmanager.SetMosnConfig(cfg)
				names = append(names, "SetMosnConfig")
			case 1, 2:
				l := v2.Listener{}
				f.fill(reflect.ValueOf(&l).Elem(), 2, "l")
				l.Name = fmt.Sprintf("l%d", r.Intn(3))
				ops = append(ops, "OSetListener "+pv(reflect.ValueOf(&l).Elem()))
				configmanager.SetListenerConfig(l)
				names = append(names, "SetListenerConfig")
			case 3, 4:
				c := v2.Cluster{}
				f.fill(reflect.ValueOf(&c).Elem(), 2, "c")
				c.Name = fmt.Sprintf("c%d", r.Intn(3))
				ops = append(ops, "OSetCluster "+pv(reflect.ValueOf(&c).Elem()))
				configmanager.SetClusterConfig(c)
				names = append(names, "SetClusterConfig")
			case 5:
				n := fmt.Sprintf("c%d", r.Intn(3))
				ops = append(ops, "ORemoveCluster "+coqStr(n))
				configmanager.SetRemoveClusterConfig(n)
				names = append(names, "SetRemoveClusterConfig")
			case 6:
				var hs []v2.Host
				f.fill(reflect.ValueOf(&hs).Elem(), 3, "hs")
				n := fmt.Sprintf("c%d", r.Intn(3))
				ops = append(ops, "OSetHosts "+coqStr(n)+" "+pv(reflect.ValueOf(&hs).Elem()))
				configmanager.SetHosts(n, hs)
				names = append(names, "SetHosts")
			case 7:
				rc := v2.RouterConfiguration{}
				f.fill(reflect.ValueOf(&rc).Elem(), 2, "r")
				rc.RouterConfigName = fmt.Sprintf("r%d", r.Intn(3))
				rc.RouterConfigPath = ""
				rc.StaticVirtualHosts = nil
				ops = append(ops, "OSetRouter "+pv(reflect.ValueOf(&rc).Elem()))
				configmanager.SetRouter(rc)
				names = append(names, "SetRouter")
			case 8:
				typ := fmt.Sprintf("ext%d", r.Intn(3))
				raw, _ := json.Marshal(map[string]interface{}{f.uniq("k"): f.anyJSON(0)})
				rm := json.RawMessage(raw)
				ops = append(ops, "OSetExtend "+coqStr(typ)+" "+pv(reflect.ValueOf(&rm).Elem()))
				configmanager.SetExtend(typ, rm)
				names = append(names, "SetExtend")
			case 9:
				tc := v2.TLSConfig{}
				f.fill(reflect.ValueOf(&tc).Elem(), 2, "tls")
				ops = append(ops, "OSetCMTLS "+pv(reflect.ValueOf(&tc).Elem()))
				configmanager.SetClusterManagerTLS(tc)
				names = append(names, "SetClusterManagerTLS")
			}
		}
		state := pv(confValue())
		dump, err := configmanager.VerifTransferConfig()
		if err != nil {
			run.Sum.Distribution["eff:transfer-error"]++
			continue
		}
		dj, err := sortedTransfer(dump)
		if err != nil {
			continue
		}
		sh.Add(fmt.Sprintf("(mkEffCase [%s] %s %s false)", strings.Join(wrapAll(ops), "; "), state, dj), map[string]interface{}{"kind": "eff-history", "ops": names})
		run.Sum.Distribution["model:eff-history"]++
		for _, n := range names {
			run.Sum.Distribution["eff-op:"+n]++
		}
		if sh.Len() >= 8 {
			sh.Close()
			sh = run.NewShard(header, "eff_case", "eff_mismatches")
		}
	}
	// host updates through the REAL cluster manager (UpdateClusterHosts -> refreshHostsConfig -> SetHosts with the hosts
	// rebuilt by Host.Config(): MetaDataConfig nil, labels in MetaData): a second / third update changes ONE aspect
	// (labels only, weight only, hostname only, tls_disable only, address only, order only, one host more / less, nothing).
	// After every call the effective config must hold the hosts of the live cluster snapshot, field by field; at the
	// end the persisted form is reloaded and compared with the live hosts too; the history is a correspondence case.
	hostVariation(run, r, func() *Shard { return run.NewShard(header, "eff_case", "eff_mismatches") }, pv)
	// the initialisation of loaded configurations, setter by setter (what initEffective does), in inline mode
	for i := 0; i < run.N(14, 200); i++ {
		path := filepath.Join(tmp, fmt.Sprintf("gen%d.json", i))
		cfg, why := tryParse(path)
		if cfg == nil || why != "" || acceptable(cfg) != "" || cfg.Mode() == v2.Xds || cfg.ClusterManager.ClusterConfigPath != "" {
			continue
		}
		pathMode := false
		for _, rc := range cfg.Servers[0].Routers {
			if rc != nil && rc.RouterConfigPath != "" {
				pathMode = true
			}
		}
		if pathMode {
			continue
		}
		configmanager.SetMosnConfig(&v2.MOSNConfig{})
		configmanager.Reset()
		var ops []string
		ops = append(ops, "OSetMosn "+pv(reflect.ValueOf(cfg).Elem()))
		configmanager.SetMosnConfig(cfg)
		clusters, clusterMap := configmanager.ParseClusterConfig(cfg.ClusterManager.Clusters)
		for _, c := range clusters {
			ops = append(ops, "OSetCluster "+pv(reflect.ValueOf(&c).Elem()))
			configmanager.SetClusterConfig(c)
		}
		for _, c := range clusters {
			if hs, ok := clusterMap[c.Name]; ok {
				ops = append(ops, "OSetHosts "+coqStr(c.Name)+" "+pv(reflect.ValueOf(&hs).Elem()))
				configmanager.SetHosts(c.Name, hs)
			}
		}
		sc := &cfg.Servers[0]
		for idx := range sc.Listeners {
			lc := configmanager.ParseListenerConfig(&sc.Listeners[idx], nil, nil)
			if lc.Name == "" {
				lc.Name = lc.Addr.String()
			}
			ops = append(ops, "OSetListener "+pv(reflect.ValueOf(lc).Elem()))
			configmanager.SetListenerConfig(*lc)
			if dr, err := configmanager.ParseRouterConfiguration(&lc.FilterChains[0]); err == nil && dr.RouterConfigName != "" {
				ops = append(ops, "OSetRouter "+pv(reflect.ValueOf(dr).Elem()))
				configmanager.SetRouter(*dr)
			}
		}
		for _, rc := range sc.Routers {
			if rc != nil && rc.RouterConfigName != "" {
				ops = append(ops, "OSetRouter "+pv(reflect.ValueOf(rc).Elem()))
				configmanager.SetRouter(*rc)
			}
		}
		for _, e := range cfg.Extends {
			rm := e.Config
			ops = append(ops, "OSetExtend "+coqStr(e.Type)+" "+pv(reflect.ValueOf(&rm).Elem()))
			configmanager.SetExtend(e.Type, e.Config)
		}
		state := pv(confValue())
		dump, err := configmanager.VerifTransferConfig()
		if err != nil {
			continue
		}
		dj, err := sortedTransfer(dump)
		if err != nil {
			continue
		}
		sh.Add(fmt.Sprintf("(mkEffCase [%s] %s %s true)", strings.Join(wrapAll(ops), "; "), state, dj), map[string]interface{}{"kind": "eff-init-of-loaded", "doc": fmt.Sprintf("gen%d", i)})
		run.Sum.Distribution["model:eff-init-of-loaded"]++
		if sh.Len() >= 4 {
			sh.Close()
			sh = run.NewShard(header, "eff_case", "eff_mismatches")
		}
	}
	sh.Close()
}

func wrapAll(l []string) []string {
	out := make([]string, len(l))
	for i, s := range l {
		out[i] = "(" + s + ")"
	}
	return out
}

// ---------------------------------------------------------------------------------------------------------------
// structural view of a loaded configuration: every exported field (json:"-" ones included), pointers followed,
// nil and empty slices/maps identified, EXCEPT the shadow slots that a MarshalJSON overwrites before marshalling
// (they are copies of the json:"-" fields that MOSN actually uses: FilterChainConfig.TLSConfig/TLSConfigs for
// TLSContexts, ClustersJson for Clusters, the duration texts for the derived durations, ...).  Two loaded
// configurations with the same view are the same configuration for MOSN.
type semView struct {
	g *graph
}

func (sv *semView) tree(v reflect.Value, skip [][]string) interface{} {
	t := v.Type()
	if t == rawMessageT {
		if v.Len() == 0 {
			return nil
		}
		return canonJSON(v.Bytes())
	}
	if t == durationCfT {
		return v.Field(0).Int()
	}
	switch t.Kind() {
	case reflect.Bool:
		return v.Bool()
	case reflect.Int, reflect.Int8, reflect.Int16, reflect.Int32, reflect.Int64:
		return v.Int()
	case reflect.Uint, reflect.Uint8, reflect.Uint16, reflect.Uint32, reflect.Uint64, reflect.Uintptr:
		return v.Uint()
	case reflect.Float32, reflect.Float64:
		return v.Float()
	case reflect.String:
		return v.String()
	case reflect.Ptr:
		if v.IsNil() {
			return nil
		}
		return sv.tree(v.Elem(), skip)
	case reflect.Slice, reflect.Array:
		if t.Elem().Kind() == reflect.Uint8 {
			return fmt.Sprintf("%x", v.Bytes())
		}
		out := []interface{}{}
		for i := 0; i < v.Len(); i++ {
			out = append(out, sv.tree(v.Index(i), nil))
		}
		return out
	case reflect.Map:
		out := map[string]interface{}{}
		for _, k := range v.MapKeys() {
			out["["+fmt.Sprint(k.Interface())+"]"] = sv.tree(v.MapIndex(k), nil) // (bracketed: the signature keeps the position, not the key)
		}
		return out
	case reflect.Interface:
		if v.IsNil() {
			return nil
		}
		if t == netAddrT {
			return v.Interface().(net.Addr).String()
		}
		if t.NumMethod() == 0 {
			b, err := json.Marshal(v.Interface())
			if err != nil {
				return "unmarshalable"
			}
			return canonJSON(b)
		}
		return "iface"
	case reflect.Struct:
		if t.Name() != "" && !inMosn(t) && t.PkgPath() != "mosn.io/api" {
			if v.CanInterface() {
				if tm, ok := v.Interface().(interface{ MarshalText() ([]byte, error) }); ok {
					b, _ := tm.MarshalText()
					return string(b)
				}
			}
			return "foreign"
		}
		// shadow slots of this struct type, plus those inherited from the enclosing hooked struct
		var here [][]string
		here = append(here, skip...)
		if st, ok := sv.g.byType[t]; ok {
			here = append(here, st.Shadow...)
		}
		out := map[string]interface{}{}
		for i := 0; i < t.NumField(); i++ {
			sf := t.Field(i)
			if sf.PkgPath != "" && !sf.Anonymous {
				continue
			}
			var sub [][]string
			skipped := false
			for _, p := range here {
				if len(p) > 0 && p[0] == sf.Name {
					if len(p) == 1 {
						skipped = true
					} else {
						sub = append(sub, p[1:])
					}
				}
			}
			if skipped {
				continue
			}
			fv := v.Field(i)
			// a shadow path may end inside a foreign leaf (DurationConfig.Duration): the leaf is the shadow
			if fv.Type() == durationCfT && len(sub) > 0 {
				continue
			}
			out[sf.Name] = sv.tree(fv, sub)
		}
		return out
	}
	return "kind:" + t.Kind().String()
}

// treeDiff: path of the first difference
func treeDiff(p string, x, y interface{}) string {
	switch xt := x.(type) {
	case map[string]interface{}:
		yt, ok := y.(map[string]interface{})
		if !ok {
			return p
		}
		keys := map[string]bool{}
		for k := range xt {
			keys[k] = true
		}
		for k := range yt {
			keys[k] = true
		}
		var ks []string
		for k := range keys {
			ks = append(ks, k)
		}
		sort.Strings(ks)
		for _, k := range ks {
			xv, xo := xt[k]
			yv, yo := yt[k]
			if xo != yo {
				return p + "." + k
			}
			if d := treeDiff(p+"."+k, xv, yv); d != "" {
				return d
			}
		}
		return ""
	case []interface{}:
		yt, ok := y.([]interface{})
		if !ok || len(xt) != len(yt) {
			return p + "[]"
		}
		for i := range xt {
			if d := treeDiff(p+"[]", xt[i], yt[i]); d != "" {
				return d
			}
		}
		return ""
	}
	if !reflect.DeepEqual(x, y) {
		lastDiffX, lastDiffY = x, y
		return p
	}
	return ""
}

var lastDiffX, lastDiffY interface{}

func showDiffValue(x interface{}) string {
	b, err := json.Marshal(x)
	if err != nil || len(b) > 200 {
		return fmt.Sprintf("%.200v", x)
	}
	return string(b)
}

// ---------------------------------------------------------------------------------------------------------------
// SetHosts as the cluster manager calls it

func cloneHosts(hs []v2.Host) []v2.Host {
	out := make([]v2.Host, len(hs))
	for i, h := range hs {
		out[i] = h
		if h.MetaData != nil {
			m := api.Metadata{}
			for k, v := range h.MetaData {
				m[k] = v
			}
			out[i].MetaData = m
		}
	}
	return out
}

func sameMeta(a, b api.Metadata) bool {
	if len(a) != len(b) {
		return false
	}
	for k, v := range a {
		if w, ok := b[k]; !ok || w != v {
			return false
		}
	}
	return true
}

// hostsDiff: the first aspect in which `got` differs from `want` ("" if none)
func hostsDiff(want, got []v2.Host) string {
	if len(want) != len(got) {
		return "count"
	}
	addrs := func(l []v2.Host) []string {
		var a []string
		for _, h := range l {
			a = append(a, h.Address)
		}
		return a
	}
	wa, ga := addrs(want), addrs(got)
	if strings.Join(wa, ",") != strings.Join(ga, ",") {
		sort.Strings(wa)
		sort.Strings(ga)
		if strings.Join(wa, ",") == strings.Join(ga, ",") {
			return "order"
		}
		return "address"
	}
	for i := range want {
		switch {
		case want[i].Hostname != got[i].Hostname:
			return "hostname"
		case want[i].Weight != got[i].Weight:
			return "weight"
		case want[i].TLSDisable != got[i].TLSDisable:
			return "tls_disable"
		case !sameMeta(want[i].MetaData, got[i].MetaData):
			return "metadata"
		}
	}
	return ""
}

func hostVariation(run *Run, r *Rng, newShard func() *Shard, pv func(reflect.Value) string) {
	sh := newShard()
	defer func() { sh.Close() }()
	kinds := []string{"metadata", "metadata-drop", "metadata-add", "weight", "hostname", "tls_disable", "address", "order", "more", "less", "none"}
	for h := 0; h < run.N(22, 300); h++ {
		configmanager.SetMosnConfig(&v2.MOSNConfig{})
		configmanager.Reset()
		cm := cluster.NewClusterManagerSingleton(nil, nil, nil)
		name := fmt.Sprintf("c%d", r.Intn(3))
		live := func() []v2.Host {
			var out []v2.Host
			if snap := cm.GetClusterSnapshot(context.Background(), name); snap != nil {
				snap.HostSet().Range(func(x types.Host) bool {
					out = append(out, x.Config())
					return true
				})
			}
			if out == nil {
				out = []v2.Host{}
			}
			return out
		}
		effHosts := func() []v2.Host {
			m := confField("Cluster")
			if !m.IsValid() || m.Kind() != reflect.Map {
				return nil
			}
			e := m.MapIndex(reflect.ValueOf(name))
			if !e.IsValid() {
				return nil
			}
			return e.Interface().(v2.Cluster).Hosts
		}
		var ops, names []string
		failed := false
		step := func(what string) {
			lv := live()
			ops = append(ops, "OSetHosts "+coqStr(name)+" "+pv(reflect.ValueOf(&lv).Elem()))
			names = append(names, what)
			if d := hostsDiff(lv, effHosts()); d != "" && !failed {
				failed = true
				run.Fail("eff:sethosts:update-dropped:"+d, "after "+what+" through the cluster manager the effective config does not hold the hosts of the live cluster snapshot: "+d+" differs",
					map[string]interface{}{"history": names, "live": lv, "effective": effHosts()})
			}
		}
		c := v2.Cluster{Name: name, ClusterType: v2.SIMPLE_CLUSTER, LbType: v2.LB_RANDOM}
		ops = append(ops, "OSetCluster "+pv(reflect.ValueOf(&c).Elem()))
		if err := cm.AddOrUpdatePrimaryCluster(c); err != nil {
			cm.(interface{ Destroy() }).Destroy()
			continue
		}
		step("AddOrUpdatePrimaryCluster")
		var hs []v2.Host
		for i, n := 0, 1+r.Intn(3); i < n; i++ {
			hc := v2.Host{HostConfig: v2.HostConfig{Address: fmt.Sprintf("127.0.0.1:%d", 20000+h*10+i), Weight: uint32(1 + r.Intn(100)), TLSDisable: r.Pct(30)}}
			if r.Pct(50) {
				hc.Hostname = fmt.Sprintf("h%d", i)
			}
			if r.Pct(70) {
				hc.MetaData = api.Metadata{"zone": fmt.Sprintf("z%d", r.Intn(3))}
				if r.Pct(40) {
					hc.MetaData["version"] = fmt.Sprintf("v%d", r.Intn(3))
				}
			}
			hs = append(hs, hc)
		}
		cm.UpdateClusterHosts(name, cloneHosts(hs))
		step("UpdateClusterHosts")
		for k, n := 0, 1+r.Intn(2); k < n; k++ {
			kind := kinds[(h+k*5)%len(kinds)]
			hs = cloneHosts(hs)
			i := r.Intn(len(hs))
			switch kind {
			case "metadata":
				if hs[i].MetaData == nil {
					hs[i].MetaData = api.Metadata{}
				}
				hs[i].MetaData["zone"] = fmt.Sprintf("relabelled%d", k)
			case "metadata-drop":
				hs[i].MetaData = nil
			case "metadata-add":
				if hs[i].MetaData == nil {
					hs[i].MetaData = api.Metadata{}
				}
				hs[i].MetaData[fmt.Sprintf("extra%d", k)] = "x"
			case "weight":
				hs[i].Weight = hs[i].Weight%100 + 1
			case "hostname":
				hs[i].Hostname = hs[i].Hostname + "x"
			case "tls_disable":
				hs[i].TLSDisable = !hs[i].TLSDisable
			case "address":
				hs[i].Address = fmt.Sprintf("127.0.0.1:%d", 40000+h*10+k)
			case "order":
				if len(hs) > 1 {
					hs[0], hs[len(hs)-1] = hs[len(hs)-1], hs[0]
				}
			case "more":
				hs = append(hs, v2.Host{HostConfig: v2.HostConfig{Address: fmt.Sprintf("127.0.0.1:%d", 50000+h*10+k), Weight: 1}, MetaData: api.Metadata{"zone": "new"}})
			case "less":
				if len(hs) > 1 {
					hs = hs[:len(hs)-1]
				}
			}
			cm.UpdateClusterHosts(name, cloneHosts(hs))
			step("UpdateClusterHosts:" + kind)
			run.Sum.Distribution["eff-hosts-variation:"+kind]++
		}
		lv := live()
		state := pv(confValue())
		dump, err := configmanager.VerifTransferConfig()
		cm.(interface{ Destroy() }).Destroy()
		if err != nil {
			run.Sum.Distribution["eff:transfer-error"]++
			continue
		}
		// the persisted form, reloaded: the hosts a restart would start from
		back := &v2.MOSNConfig{}
		if err := json.Unmarshal(dump, back); err == nil && !failed {
			for _, cl := range back.ClusterManager.Clusters {
				if cl.Name == name {
					if d := hostsDiff(lv, cl.Hosts); d != "" {
						run.Fail("eff:sethosts:reload-differs-from-live:"+d, "the persisted configuration, reloaded, does not hold the hosts of the live cluster snapshot: "+d+" differs",
							map[string]interface{}{"history": names, "live": lv, "reloaded": cl.Hosts})
					}
				}
			}
		}
		dj, err := sortedTransfer(dump)
		if err != nil {
			continue
		}
		sh.Add(fmt.Sprintf("(mkEffCase [%s] %s %s false)", strings.Join(wrapAll(ops), "; "), state, dj), map[string]interface{}{"kind": "eff-hosts-variation", "ops": names})
		run.Sum.Distribution["model:eff-hosts-variation"]++
		if sh.Len() >= 8 {
			sh.Close()
			sh = newShard()
		}
	}
}

// ---------------------------------------------------------------------------------------------------------------
// duration values of the INPUT documents.  The documents are produced with the real marshalers, so whatever those do to a
// duration would already be in the input; the values are therefore set in the JSON text afterwards: every string member
// that is a printed duration (every duration-typed field of the graph prints one, "0s" when unset) is now and then
// replaced by one of durationValues, in the spelling of Duration.String or in another spelling ParseDuration accepts.

var respellRng *Rng
var respellCount = map[string]int{}

var durationTextRe = regexp.MustCompile(`^([0-9]+(\.[0-9]+)?(ns|us|µs|ms|s|m|h))+$`)

func durationSpellings(d time.Duration) []string {
	out := []string{d.String()}
	if d > 0 && d < time.Second && d%time.Microsecond == 0 {
		out = append(out, strconv.FormatFloat(float64(d)/1e6, 'f', -1, 64)+"ms") // 0.5ms, 0.2ms, 0.999ms, 1.5ms
		out = append(out, strconv.FormatInt(int64(d/time.Microsecond), 10)+"us")
	}
	if d >= time.Second && d%time.Millisecond == 0 && d < 1000*time.Hour {
		out = append(out, strconv.FormatInt(int64(d/time.Millisecond), 10)+"ms")
	}
	if d > 0 && d < time.Hour {
		out = append(out, "0h0m"+strconv.FormatFloat(float64(d)/1e9, 'f', 9, 64)+"s") // 0h0m0.000200000s
	}
	if d >= time.Hour && d%time.Minute == 0 && d < 1000*time.Hour {
		out = append(out, strconv.FormatInt(int64(d/time.Minute), 10)+"m")
	}
	var ok []string
	for _, s := range out {
		if back, err := time.ParseDuration(s); err == nil && back == d {
			ok = append(ok, s)
		}
	}
	return ok
}

func respellDurations(doc []byte) []byte {
	r := respellRng
	if r == nil {
		return doc
	}
	dec := json.NewDecoder(bytes.NewReader(doc))
	dec.UseNumber()
	var x interface{}
	if dec.Decode(&x) != nil {
		return doc
	}
	changed := false
	var walk func(x interface{}) interface{}
	walk = func(x interface{}) interface{} {
		switch t := x.(type) {
		case map[string]interface{}:
			for k, e := range t {
				t[k] = walk(e)
			}
			// subset metadata given as numbers / booleans / null / nested values in the INPUT (api.Metadata holds strings):
			// pins what a load does with them
			if lb, ok := t["mosn.lb"].(map[string]interface{}); ok && r.Pct(40) {
				extra := []struct {
					k string
					v interface{}
				}{{"n-int", json.Number("2")}, {"n-noncanon", json.Number("1.10")}, {"n-exp", json.Number("1e3")}, {"b-true", true}, {"b-false", false},
					{"null", nil}, {"obj", map[string]interface{}{"a": "b"}}, {"arr", []interface{}{"x"}}, {"s-noncanon", "1.10"}, {"s-true", "true"}, {"s-zeros", "007"}}
				for i, n := 0, 1+r.Intn(4); i < n; i++ {
					e := extra[r.Intn(len(extra))]
					lb[e.k] = e.v
				}
				changed = true
				respellCount["metadata-input:non-string-or-numeral-members"]++
			}
		case []interface{}:
			for i, e := range t {
				t[i] = walk(e)
			}
		case string:
			if durationTextRe.MatchString(t) && r.Pct(45) {
				sp := durationSpellings(append(durationValues, time.Hour+time.Microsecond)[r.Intn(len(durationValues)+1)])
				if len(sp) > 0 {
					changed = true
					pick := sp[r.Intn(len(sp))]
					d, _ := time.ParseDuration(pick)
					cls := "duration-input:>=1ms"
					switch {
					case d == 0:
						cls = "duration-input:0"
					case d < 500*time.Microsecond:
						cls = "duration-input:<500us"
					case d < time.Millisecond:
						cls = "duration-input:500us..1ms"
					}
					respellCount[cls]++
					if pick != d.String() {
						respellCount["duration-input:other-spelling"]++
					}
					return pick
				}
			}
		}
		return x
	}
	x = walk(x)
	if !changed {
		return doc
	}
	out, err := json.MarshalIndent(x, "", " ")
	if err != nil {
		return doc
	}
	return out
}

// adminQueries: every query variant of the admin config dump for the names the effective config holds
func adminQueries() []string {
	qs := []string{"", "?mosnconfig", "?allrouters", "?allclusters", "?alllisteners"}
	for _, fk := range [][2]string{{"Listener", "listener"}, {"Cluster", "cluster"}, {"Routers", "router"}} {
		m := confField(fk[0])
		if !m.IsValid() || m.Kind() != reflect.Map {
			continue
		}
		var names []string
		for _, k := range m.MapKeys() {
			names = append(names, k.String())
		}
		sort.Strings(names)
		for _, n := range names {
			qs = append(qs, "?"+fk[1]+"="+url.QueryEscape(n))
		}
	}
	return qs
}

var adminRound int

var genKeyRe = regexp.MustCompile(`\.k[0-9]+`)

// sigPath: a document path as part of a signature - indices stripped, generated member names (k<n>) replaced
func sigPath(d string) string { return genKeyRe.ReplaceAllString(pathClass(d), ".{key}") }
