package main

// Translators of the group `cfg` (C19, C20): Gen/CfgTypes.v
//
//  1. reflect walk from configmanager.effectiveConfig (and v2.MOSNConfig, and the extension config types the
//     AST scan attributes to registered parsers) -> the configuration TYPE GRAPH as a Coq table `cfg_structs`
//     (struct tags, embedded structs, json:"-", omitempty, pointer/slice/map/interface kinds, custom marshalers)
//  2. go/ast extraction of the shadow-field assignments inside each custom MarshalJSON / UnmarshalJSON of a
//     struct in the graph -> `s_hook` / `s_unhook`
//  3. go/ast scan of every non-test file under /repo/pkg for json-tagged struct types that (transitively) contain a
//     v2.TLSConfig, attributed to the extension / filter registrations of their package -> `cfg_ext_tls`, ...
//  4. go/ast switches at the defect sites of redact.go / dump_action.go -> `src_*`

import (
	"bytes"
	"encoding"
	"encoding/json"
	"fmt"
	"go/ast"
	"go/parser"
	"go/printer"
	"go/token"
	"os"
	"path/filepath"
	"reflect"
	"regexp"
	"sort"
	"strconv"
	"strings"

	v2 "mosn.io/mosn/pkg/config/v2"
	"mosn.io/mosn/pkg/configmanager"
	"mosn.io/mosn/pkg/filter/network/tunnel"

	. "vh/vhlib"
)

var gens = map[string]GenFn{"CfgTypes": genCfgTypes}

// Types outside the effective-config closure that the harness can reflect on.  The AST scan (3) finds the
// TLS-bearing config types of the whole tree by itself; a type it finds that is NOT in this table is emitted
// into cfg_unknown_tls and c20_covers fails naming it.
var knownExtTypes = map[string]reflect.Type{
	"tunnel.AgentBootstrapConfig": reflect.TypeOf(tunnel.AgentBootstrapConfig{}),
	"tunnel.ConnectionConfig":     reflect.TypeOf(tunnel.ConnectionConfig{}),
}

// config/v2 types with custom (un)marshalers that sit in interface{} filter-config positions and are therefore not
// reached by the reflect walk from the effective config; they are walked too so that their hooks are in the graph
// (C19 hook laws).  The translator fails if config/v2 declares a MarshalJSON for a type that is in neither set.
var extraHookedTypes = []reflect.Type{
	reflect.TypeOf(v2.HealthCheckFilter{}),
	reflect.TypeOf(v2.FaultInject{}),
	reflect.TypeOf(v2.StreamFaultInject{}),
	reflect.TypeOf(v2.GRPC{}),
}

var (
	marshalerT     = reflect.TypeOf((*json.Marshaler)(nil)).Elem()
	unmarshalerT   = reflect.TypeOf((*json.Unmarshaler)(nil)).Elem()
	textMarshalerT = reflect.TypeOf((*encoding.TextMarshaler)(nil)).Elem()
	rawMessageT    = reflect.TypeOf(json.RawMessage{})
)

type gfield struct {
	Go, JSON          string
	Omit, Skip, Embed bool
	Ty                string // Coq term
	T                 reflect.Type
	Index             int
	UnknownTagOptions []string
}

type gstruct struct {
	Name     string
	T        reflect.Type
	Fields   []gfield
	HasM     bool // implements json.Marshaler (value or pointer receiver)
	HasU     bool
	MPtrRecv bool // MarshalJSON only on the pointer receiver
	Hook     string
	Unhook   string
	Shadow   [][]string // selector paths (explicit about embedded fields) written by MarshalJSON before marshalling: shadow copies
}

type graph struct {
	repo    string
	structs []*gstruct
	byName  map[string]*gstruct
	byType  map[reflect.Type]*gstruct
	warn    []string
	ok      bool
	pkgAST  map[string]map[string]*ast.FuncDecl // pkgpath -> "Recv.Method" -> decl
}

func shortPkg(p string) string {
	if i := strings.LastIndex(p, "/"); i >= 0 {
		return p[i+1:]
	}
	return p
}

func tname(t reflect.Type) string {
	if t.Name() == "" {
		return ""
	}
	if t.PkgPath() == "" {
		return t.Name()
	}
	return shortPkg(t.PkgPath()) + "." + t.Name()
}

func inMosn(t reflect.Type) bool {
	return strings.HasPrefix(t.PkgPath(), "mosn.io/mosn/") || t.PkgPath() == "mosn.io/mosn"
}

func q(s string) string { return "\"" + strings.ReplaceAll(s, "\"", "\"\"") + "\"" }

func (g *graph) ty(t reflect.Type, ctx string) string {
	if t == rawMessageT {
		return "TRaw"
	}
	if t.Kind() != reflect.Interface && t.Kind() != reflect.Ptr && t.Name() != "" && !inMosn(t) {
		if t.Implements(marshalerT) || reflect.PtrTo(t).Implements(marshalerT) || t.Implements(textMarshalerT) || reflect.PtrTo(t).Implements(textMarshalerT) {
			return "(TOpaque " + q(tname(t)) + ")"
		}
	}
	switch t.Kind() {
	case reflect.Bool:
		return "TBool"
	case reflect.Int, reflect.Int8, reflect.Int16, reflect.Int32, reflect.Int64,
		reflect.Uint, reflect.Uint8, reflect.Uint16, reflect.Uint32, reflect.Uint64, reflect.Uintptr:
		return "TInt"
	case reflect.Float32, reflect.Float64:
		return "TFloat"
	case reflect.String:
		return "TStr"
	case reflect.Ptr:
		return "(TPtr " + g.ty(t.Elem(), ctx) + ")"
	case reflect.Slice, reflect.Array:
		if t.Elem().Kind() == reflect.Uint8 {
			return "(TOpaque \"bytes\")"
		}
		return "(TSlice " + g.ty(t.Elem(), ctx) + ")"
	case reflect.Map:
		if t.Key().Kind() != reflect.String {
			return "(TOpaque " + q("map["+t.Key().String()+"]") + ")"
		}
		return "(TMap " + g.ty(t.Elem(), ctx) + ")"
	case reflect.Interface:
		if t.NumMethod() == 0 {
			return "TAny"
		}
		return "(TOpaque " + q("iface:"+tname(t)) + ")"
	case reflect.Struct:
		if t.Name() != "" && !inMosn(t) && t.PkgPath() != "mosn.io/api" {
			return "(TOpaque " + q(tname(t)) + ")"
		}
		s := g.structOf(t, ctx)
		return "(TNamed " + q(s.Name) + ")"
	}
	return "(TOpaque " + q("kind:"+t.Kind().String()) + ")"
}

func (g *graph) structOf(t reflect.Type, ctx string) *gstruct {
	if s, ok := g.byType[t]; ok {
		return s
	}
	name := tname(t)
	if name == "" {
		name = "anon." + ctx
	}
	if o, dup := g.byName[name]; dup && o.T != t {
		name = t.PkgPath() + "." + t.Name()
	}
	s := &gstruct{Name: name, T: t}
	g.byType[t] = s
	g.byName[name] = s
	g.structs = append(g.structs, s)
	s.HasM = t.Implements(marshalerT) || reflect.PtrTo(t).Implements(marshalerT)
	s.MPtrRecv = s.HasM && !t.Implements(marshalerT)
	s.HasU = reflect.PtrTo(t).Implements(unmarshalerT)
	for i := 0; i < t.NumField(); i++ {
		f := t.Field(i)
		gf := gfield{Go: f.Name, JSON: f.Name, T: f.Type, Index: i, Embed: f.Anonymous}
		tag, has := f.Tag.Lookup("json")
		if f.PkgPath != "" && !f.Anonymous {
			gf.Skip = true
		}
		if has {
			parts := strings.Split(tag, ",")
			if parts[0] == "-" && len(parts) == 1 {
				gf.Skip = true
			} else if parts[0] != "" {
				gf.JSON = parts[0]
				if f.Anonymous {
					gf.Embed = false // a tagged embedded struct is an ordinary named member
				}
			}
			for _, o := range parts[1:] {
				if o == "omitempty" {
					gf.Omit = true
				} else {
					gf.UnknownTagOptions = append(gf.UnknownTagOptions, o)
					g.warn = append(g.warn, fmt.Sprintf("%s.%s: json tag option %q not modelled", name, f.Name, o))
					g.ok = false
				}
			}
		}
		gf.Ty = g.ty(f.Type, name+"."+f.Name)
		s.Fields = append(s.Fields, gf)
	}
	return s
}

// ---------------------------------------------------------------------------------------------------------------
// (2) hooks

func (g *graph) methods(pkgPath string) map[string]*ast.FuncDecl {
	if m, ok := g.pkgAST[pkgPath]; ok {
		return m
	}
	m := map[string]*ast.FuncDecl{}
	g.pkgAST[pkgPath] = m
	dir := ""
	switch {
	case strings.HasPrefix(pkgPath, "mosn.io/mosn/"):
		dir = filepath.Join(g.repo, strings.TrimPrefix(pkgPath, "mosn.io/mosn/"))
	default:
		return m
	}
	fset := token.NewFileSet()
	pkgs, err := parser.ParseDir(fset, dir, func(fi os.FileInfo) bool { return !strings.HasSuffix(fi.Name(), "_test.go") }, 0)
	if err != nil {
		g.warn = append(g.warn, "parse "+dir+": "+err.Error())
		return m
	}
	for _, p := range pkgs {
		for _, f := range p.Files {
			for _, d := range f.Decls {
				fd, ok := d.(*ast.FuncDecl)
				if !ok || fd.Recv == nil || len(fd.Recv.List) != 1 {
					continue
				}
				rt := fd.Recv.List[0].Type
				if st, ok := rt.(*ast.StarExpr); ok {
					rt = st.X
				}
				if id, ok := rt.(*ast.Ident); ok {
					m[id.Name+"."+fd.Name.Name] = fd
				}
			}
		}
	}
	return m
}

func exprStr(e ast.Expr) string {
	var b bytes.Buffer
	printer.Fprint(&b, token.NewFileSet(), e)
	return b.String()
}

// selPath: recv.A.B.C -> [A B C]; ok=false if not a pure selector chain rooted at recv.
func selPath(e ast.Expr, recv string) ([]string, bool) {
	var rev []string
	for {
		switch x := e.(type) {
		case *ast.SelectorExpr:
			rev = append(rev, x.Sel.Name)
			e = x.X
		case *ast.Ident:
			if x.Name != recv {
				return nil, false
			}
			out := make([]string, len(rev))
			for i := range rev {
				out[i] = rev[len(rev)-1-i]
			}
			return out, true
		case *ast.ParenExpr:
			e = x.X
		default:
			return nil, false
		}
	}
}

// curStruct: the struct whose hook is being translated; selector paths are made explicit about embedded
// fields (fc.TLSConfig -> FilterChainConfig.TLSConfig) with reflect's FieldByName index sequence.
var curStruct reflect.Type

func qualify(t reflect.Type, p []string) []string {
	var out []string
	for _, name := range p {
		for t != nil && t.Kind() == reflect.Ptr {
			t = t.Elem()
		}
		if t == nil || t.Kind() != reflect.Struct {
			out = append(out, name)
			t = nil
			continue
		}
		sf, ok := t.FieldByName(name)
		if !ok {
			out = append(out, name)
			t = nil
			continue
		}
		cur := t
		for _, ix := range sf.Index {
			for cur.Kind() == reflect.Ptr {
				cur = cur.Elem()
			}
			f := cur.Field(ix)
			out = append(out, f.Name)
			cur = f.Type
		}
		t = sf.Type
	}
	return out
}

func coqPath(p []string) string {
	if curStruct != nil {
		p = qualify(curStruct, p)
	}
	qs := make([]string, len(p))
	for i, s := range p {
		qs[i] = q(s)
	}
	return "[" + strings.Join(qs, "; ") + "]"
}

func hexpr(e ast.Expr, recv string) (string, bool) {
	if id, ok := e.(*ast.Ident); ok && id.Name == "nil" {
		return "HNilE", true
	}
	if p, ok := selPath(e, recv); ok && len(p) > 0 {
		return "(HPath " + coqPath(p) + ")", true
	}
	if c, ok := e.(*ast.CallExpr); ok {
		// f(x) / pkg.F(x) / recv.P.Method()
		if len(c.Args) == 1 {
			if a, ok := hexpr(c.Args[0], recv); ok {
				return "(HCall " + q(exprStr(c.Fun)) + " " + a + ")", true
			}
		}
		if len(c.Args) == 0 {
			if se, ok := c.Fun.(*ast.SelectorExpr); ok {
				if p, ok := selPath(se.X, recv); ok && len(p) > 0 {
					return "(HCall " + q("."+se.Sel.Name) + " (HPath " + coqPath(p) + "))", true
				}
			}
		}
	}
	return "", false
}

func hassign2(s ast.Stmt, recv string) (string, string, bool) {
	as, ok := s.(*ast.AssignStmt)
	if !ok || as.Tok != token.ASSIGN || len(as.Lhs) != 1 || len(as.Rhs) != 1 {
		return "", "", false
	}
	lp, ok := selPath(as.Lhs[0], recv)
	if !ok || len(lp) == 0 {
		return "", "", false
	}
	r, ok := hexpr(as.Rhs[0], recv)
	if !ok {
		return "", "", false
	}
	return coqPath(lp), r, true
}

func hassign(s ast.Stmt, recv string) (string, bool) {
	l, r, ok := hassign2(s, recv)
	return "(" + l + ", " + r + ")", ok
}

func hassigns(l []ast.Stmt, recv string) (string, bool) {
	var out []string
	for _, s := range l {
		a, ok := hassign(s, recv)
		if !ok {
			return "", false
		}
		out = append(out, a)
	}
	return "[" + strings.Join(out, "; ") + "]", true
}

// marshalTarget: `return json.Marshal(recv.P)` -> P
func marshalTarget(s ast.Stmt, recv string) ([]string, bool) {
	rs, ok := s.(*ast.ReturnStmt)
	if !ok || len(rs.Results) != 1 {
		return nil, false
	}
	c, ok := rs.Results[0].(*ast.CallExpr)
	if !ok || exprStr(c.Fun) != "json.Marshal" || len(c.Args) != 1 {
		return nil, false
	}
	return selPath(c.Args[0], recv)
}

func hstmts(l []ast.Stmt, recv string) (string, bool) {
	var out []string
	for _, s := range l {
		if l, r, ok := hassign2(s, recv); ok {
			out = append(out, "HAssign "+l+" "+r)
			continue
		}
		is, ok := s.(*ast.IfStmt)
		if !ok || is.Init != nil || is.Else != nil {
			return "", false
		}
		be, ok := is.Cond.(*ast.BinaryExpr)
		if !ok {
			return "", false
		}
		body, ok := hassigns(is.Body.List, recv)
		if !ok {
			return "", false
		}
		// len(recv.P) > 0
		if c, ok := be.X.(*ast.CallExpr); ok && exprStr(c.Fun) == "len" && be.Op == token.GTR && exprStr(be.Y) == "0" {
			if p, ok := selPath(c.Args[0], recv); ok {
				out = append(out, "HIfLenPos "+coqPath(p)+" "+body)
				continue
			}
		}
		if p, ok := selPath(be.X, recv); ok && be.Op == token.NEQ && exprStr(be.Y) == "nil" {
			out = append(out, "HIfNotNil "+coqPath(p)+" "+body)
			continue
		}
		return "", false
	}
	for i := range out {
		out[i] = "(" + out[i] + ")"
	}
	return "[" + strings.Join(out, "; ") + "]", true
}

func recvName(fd *ast.FuncDecl) string {
	if len(fd.Recv.List[0].Names) == 1 {
		return fd.Recv.List[0].Names[0].Name
	}
	return "_"
}

// marshal hook shapes:
//
//	stmts...; return json.Marshal(recv.T)                                          -> HkShadow stmts T
//	if recv.P == "" { assigns; return json.Marshal(recv.T) }; <file i/o>; return json.Marshal(recv.T)  -> HkDirMode P assigns T
func (g *graph) marshalHook(s *gstruct) string {
	fd := g.methods(s.T.PkgPath())[s.T.Name()+".MarshalJSON"]
	if fd == nil {
		// promoted from an embedded field?
		for _, f := range s.Fields {
			if f.Embed && (f.T.Implements(marshalerT) || reflect.PtrTo(f.T).Implements(marshalerT)) {
				return "(HkPromoted " + q(f.Go) + ")"
			}
		}
		return "HkCustom"
	}
	recv := recvName(fd)
	l := fd.Body.List
	if len(l) == 0 {
		return "HkCustom"
	}
	if tgt, ok := marshalTarget(l[len(l)-1], recv); ok {
		if pre, ok := hstmts(l[:len(l)-1], recv); ok {
			return "(HkShadow " + pre + " " + coqPath(tgt) + ")"
		}
		// directory mode
		if is, ok := l[0].(*ast.IfStmt); ok && is.Init == nil && is.Else == nil {
			if be, ok := is.Cond.(*ast.BinaryExpr); ok && be.Op == token.EQL && exprStr(be.Y) == `""` {
				if p, ok := selPath(be.X, recv); ok && len(is.Body.List) >= 1 {
					bl := is.Body.List
					if t2, ok := marshalTarget(bl[len(bl)-1], recv); ok && strings.Join(t2, ".") == strings.Join(tgt, ".") {
						if pre, ok := hstmts(bl[:len(bl)-1], recv); ok {
							return "(HkDirMode " + coqPath(p) + " " + pre + " " + coqPath(tgt) + ")"
						}
					}
				}
			}
		}
	}
	return "HkCustom"
}

// unmarshal hook shapes:
//
//	if err := json.Unmarshal(b, &recv.T); err != nil { return err }; stmts...; return nil   -> UkShadow T stmts-as-text
//
// Derivations are more varied than on the marshal side (validation, defaults, file i/o); the statements that are
// plain assignments are extracted, the others are counted (u_other) and named.
func (g *graph) unmarshalHook(s *gstruct) string {
	fd := g.methods(s.T.PkgPath())[s.T.Name()+".UnmarshalJSON"]
	if fd == nil {
		for _, f := range s.Fields {
			if f.Embed && reflect.PtrTo(f.T).Implements(unmarshalerT) {
				return "(UkPromoted " + q(f.Go) + ")"
			}
		}
		return "UkCustom"
	}
	recv := recvName(fd)
	l := fd.Body.List
	if len(l) == 0 {
		return "UkCustom"
	}
	// first statement: if err := json.Unmarshal(b, &recv.T); err != nil { return err }   or   return json.Unmarshal(b, &recv.T)
	var tgt []string
	found := false
	ast.Inspect(l[0], func(n ast.Node) bool {
		c, ok := n.(*ast.CallExpr)
		if !ok || exprStr(c.Fun) != "json.Unmarshal" || len(c.Args) != 2 {
			return true
		}
		if ue, ok := c.Args[1].(*ast.UnaryExpr); ok && ue.Op == token.AND {
			if p, ok := selPath(ue.X, recv); ok {
				tgt, found = p, true
			}
		}
		return false
	})
	if !found {
		return "UkCustom"
	}
	var assigns []string
	other := 0
	var walk func(l []ast.Stmt)
	walk = func(l []ast.Stmt) {
		for _, st := range l {
			if a, ok := hassign(st, recv); ok {
				assigns = append(assigns, a)
				continue
			}
			switch x := st.(type) {
			case *ast.ReturnStmt:
			case *ast.IfStmt:
				other++
				walk(x.Body.List)
				if eb, ok := x.Else.(*ast.BlockStmt); ok {
					walk(eb.List)
				}
			default:
				other++
			}
		}
	}
	walk(l[1:])
	return fmt.Sprintf("(UkShadow %s [%s] %d)", coqPath(tgt), strings.Join(assigns, "; "), other)
}

// ---------------------------------------------------------------------------------------------------------------
// (3) AST scan for TLS-bearing config types in the whole tree

type scanType struct {
	Pkg, Dir, Name string
	Fields         []scanField
	HasJSONTag     bool
}
type scanField struct {
	Name     string
	Exported bool
	Refs     []string // "pkgdir#Type" candidates mentioned by the field's type expression
	JSONName string   // name part of the json tag ("" if none)
	TypeStr  string   // printed type expression (simple forms)
}

type reg struct {
	Name string
	Fn   ast.Expr // the registered parser / factory (nil if not given positionally)
}

type pkgScan struct {
	Dir      string
	Name     string
	Types    map[string]*scanType
	Funcs    map[string]*ast.FuncDecl
	ExtRegs  []reg
	FiltRegs []reg
}

// mentioned: the TLS-bearing struct types of the package named in the body of the registered function
// (following calls to functions of the same package, depth <= 3).  resolved=false if the function is not
// a literal or a function of the package (then the caller attributes every bearing type of the package).
func (ps *pkgScan) mentioned(fn ast.Expr, isBearing func(string) bool) (out []string, resolved bool) {
	var body ast.Node
	switch x := fn.(type) {
	case *ast.FuncLit:
		body = x.Body
	case *ast.Ident:
		if fd := ps.Funcs[x.Name]; fd != nil && fd.Body != nil {
			body = fd.Body
		}
	}
	if body == nil {
		return nil, false
	}
	seen := map[string]bool{}
	seenFn := map[string]bool{}
	var walk func(n ast.Node, depth int)
	walk = func(n ast.Node, depth int) {
		ast.Inspect(n, func(m ast.Node) bool {
			id, ok := m.(*ast.Ident)
			if !ok {
				return true
			}
			if isBearing(id.Name) && !seen[id.Name] {
				seen[id.Name] = true
				out = append(out, id.Name)
			}
			if fd := ps.Funcs[id.Name]; fd != nil && fd.Body != nil && !seenFn[id.Name] && depth < 3 {
				seenFn[id.Name] = true
				walk(fd.Body, depth+1)
			}
			return true
		})
	}
	walk(body, 0)
	sort.Strings(out)
	return out, true
}

const v2Path = "mosn.io/mosn/pkg/config/v2"

func scanRepo(repo string) (map[string]*pkgScan, error) {
	pkgs := map[string]*pkgScan{}
	for _, root := range []string{"pkg", "cmd", "istio/istio1106"} {
		err := filepath.Walk(filepath.Join(repo, root), func(p string, fi os.FileInfo, err error) error {
			if err != nil {
				return nil
			}
			if fi.IsDir() {
				if fi.Name() == "testdata" || fi.Name() == "vendor" || strings.HasPrefix(fi.Name(), ".") {
					return filepath.SkipDir
				}
				return nil
			}
			if !strings.HasSuffix(p, ".go") || strings.HasSuffix(p, "_test.go") {
				return nil
			}
			fset := token.NewFileSet()
			f, err := parser.ParseFile(fset, p, nil, 0)
			if err != nil {
				return nil
			}
			// build tags: skip files that are verif hooks
			if strings.HasPrefix(filepath.Base(p), "verif_hooks") {
				return nil
			}
			dir, _ := filepath.Rel(repo, filepath.Dir(p))
			ps := pkgs[dir]
			if ps == nil {
				ps = &pkgScan{Dir: dir, Name: f.Name.Name, Types: map[string]*scanType{}, Funcs: map[string]*ast.FuncDecl{}}
				pkgs[dir] = ps
			}
			imports := map[string]string{} // alias -> repo-relative dir
			for _, im := range f.Imports {
				path, _ := strconv.Unquote(im.Path.Value)
				if !strings.HasPrefix(path, "mosn.io/mosn/") {
					continue
				}
				alias := shortPkg(path)
				if im.Name != nil {
					alias = im.Name.Name
				}
				imports[alias] = strings.TrimPrefix(path, "mosn.io/mosn/")
			}
			var refsOf func(e ast.Expr, out *[]string, anon *[]*ast.StructType)
			refsOf = func(e ast.Expr, out *[]string, anon *[]*ast.StructType) {
				ast.Inspect(e, func(n ast.Node) bool {
					switch x := n.(type) {
					case *ast.SelectorExpr:
						if id, ok := x.X.(*ast.Ident); ok {
							if d, ok := imports[id.Name]; ok {
								*out = append(*out, d+"#"+x.Sel.Name)
							}
						}
						return false
					case *ast.Ident:
						*out = append(*out, dir+"#"+x.Name)
					case *ast.StructType:
						*anon = append(*anon, x)
						return false
					}
					return true
				})
			}
			var addStruct func(name string, st *ast.StructType)
			addStruct = func(name string, st *ast.StructType) {
				t := &scanType{Pkg: f.Name.Name, Dir: dir, Name: name}
				for _, fl := range st.Fields.List {
					var refs []string
					var anon []*ast.StructType
					refsOf(fl.Type, &refs, &anon)
					for k, a := range anon {
						an := fmt.Sprintf("%s.anon%d", name, len(ps.Types)+k)
						if len(fl.Names) > 0 && len(anon) == 1 {
							an = name + "." + fl.Names[0].Name
						}
						addStruct(an, a)
						refs = append(refs, dir+"#"+an)
					}
					if fl.Tag != nil && strings.Contains(fl.Tag.Value, "json:") {
						t.HasJSONTag = true
					}
					if len(fl.Names) == 0 {
						t.Fields = append(t.Fields, scanField{Name: exprStr(fl.Type), Exported: true, Refs: refs})
					}
					jn := ""
					if fl.Tag != nil {
						if tv, err := strconv.Unquote(fl.Tag.Value); err == nil {
							jn = strings.Split(reflect.StructTag(tv).Get("json"), ",")[0]
						}
					}
					for _, n := range fl.Names {
						t.Fields = append(t.Fields, scanField{Name: n.Name, Exported: ast.IsExported(n.Name), Refs: refs, JSONName: jn, TypeStr: typeStr(fl.Type)})
					}
				}
				ps.Types[name] = t
			}
			ast.Inspect(f, func(n ast.Node) bool {
				switch x := n.(type) {
				case *ast.FuncDecl:
					if x.Recv == nil {
						ps.Funcs[x.Name.Name] = x
					}
				case *ast.TypeSpec:
					if st, ok := x.Type.(*ast.StructType); ok {
						addStruct(x.Name.Name, st)
					}
				case *ast.CallExpr:
					fn := exprStr(x.Fun)
					arg0 := ""
					if len(x.Args) > 0 {
						arg0 = exprStr(x.Args[0])
						if s, err := strconv.Unquote(arg0); err == nil {
							arg0 = s
						}
					}
					var fnArg ast.Expr
					if len(x.Args) > 1 {
						fnArg = x.Args[1]
					}
					switch {
					case strings.HasSuffix(fn, "RegisterParseExtendConfig"):
						ps.ExtRegs = append(ps.ExtRegs, reg{arg0, fnArg})
					case fn == "api.RegisterNetwork" || fn == "api.RegisterStream" || fn == "api.RegisterListener":
						ps.FiltRegs = append(ps.FiltRegs, reg{arg0, fnArg})
					}
				}
				return true
			})
			return nil
		})
		if err != nil {
			return nil, err
		}
	}
	return pkgs, nil
}

func typeStr(e ast.Expr) string {
	switch x := e.(type) {
	case *ast.Ident:
		return x.Name
	case *ast.StarExpr:
		return "*" + typeStr(x.X)
	case *ast.ArrayType:
		return "[]" + typeStr(x.Elt)
	case *ast.SelectorExpr:
		return exprStr(x)
	}
	return "?"
}

var keyLikeRe = regexp.MustCompile(`(?i)private|secret|passw|credential|(^|_)key($|_)|pem`)

// keyLikeFields: every config-struct field (json-tagged, string or bytes) of the scanned packages whose JSON name
// suggests key material or another secret.  The model lists the ones that were looked at (Model/Redact.v,
// reviewed_keylike); a new one makes c20_covers false until it is reviewed.
func keyLikeFields(pkgs map[string]*pkgScan) [][2]string {
	var out [][2]string
	for _, ps := range pkgs {
		for _, t := range ps.Types {
			for _, f := range t.Fields {
				if f.JSONName == "" || f.JSONName == "-" || !keyLikeRe.MatchString(f.JSONName) {
					continue
				}
				switch f.TypeStr {
				case "string", "[]byte", "*string", "[]string", "json.RawMessage":
					out = append(out, [2]string{t.Dir + "#" + t.Name, f.JSONName})
				}
			}
		}
	}
	sort.Slice(out, func(i, j int) bool { return out[i][0]+out[i][1] < out[j][0]+out[j][1] })
	return out
}

// tlsBearing: fixpoint over the scanned struct types.
func tlsBearing(pkgs map[string]*pkgScan) map[string]bool {
	bearing := map[string]bool{"pkg/config/v2#TLSConfig": true}
	for changed := true; changed; {
		changed = false
		for _, ps := range pkgs {
			for _, t := range ps.Types {
				key := ps.Dir + "#" + t.Name
				if bearing[key] {
					continue
				}
				for _, f := range t.Fields {
					if !f.Exported {
						continue
					}
					for _, r := range f.Refs {
						if bearing[r] {
							bearing[key] = true
							changed = true
						}
					}
				}
			}
		}
	}
	return bearing
}

// ---------------------------------------------------------------------------------------------------------------
// (4) source switches at the defect sites

func assignsTo(fd *ast.FuncDecl, lhs string) bool {
	found := false
	ast.Inspect(fd.Body, func(n ast.Node) bool {
		if as, ok := n.(*ast.AssignStmt); ok {
			for _, l := range as.Lhs {
				if exprStr(l) == lhs {
					found = true
				}
			}
		}
		return true
	})
	return found
}

func callsWithArg(fd *ast.FuncDecl, fn string, argIdx int, arg string) bool {
	found := false
	ast.Inspect(fd.Body, func(n ast.Node) bool {
		if c, ok := n.(*ast.CallExpr); ok && exprStr(c.Fun) == fn && len(c.Args) > argIdx && exprStr(c.Args[argIdx]) == arg {
			found = true
		}
		return true
	})
	return found
}

func rangesOver(fd *ast.FuncDecl, x string) bool {
	found := false
	ast.Inspect(fd.Body, func(n ast.Node) bool {
		if r, ok := n.(*ast.RangeStmt); ok && exprStr(r.X) == x {
			found = true
		}
		return true
	})
	return found
}

func srcSwitches(repo string, b *strings.Builder) bool {
	ok := true
	_, f, err := ParseGoFile(repo, "pkg/configmanager/redact.go")
	if err != nil {
		fmt.Fprintf(b, "(* redact.go: %v *)\n", err)
		return false
	}
	rm := FindFunc(f, "", "redactedMosnConfig")
	rc := FindFunc(f, "", "redactedCopy")
	copiesServers, copiesListeners, handlesExt := false, false, false
	if rm == nil || rc == nil {
		ok = false
	} else {
		// defective shape: `for i := range dst.Servers { for j := range dst.Servers[i].Listeners { redactListener(&dst.Servers[i].Listeners[j]) } }`
		// with no prior re-allocation; repaired shape: dst.Servers and dst.Servers[i].Listeners are assigned fresh copies first.
		if !rangesOver(rm, "dst.Servers") {
			ok = false
		}
		copiesServers = assignsTo(rm, "dst.Servers") && callsWithArg(rm, "copy", 1, "src.Servers")
		copiesListeners = assignsTo(rm, "dst.Servers[i].Listeners") && callsWithArg(rm, "copy", 1, "src.Servers[i].Listeners")
		if copiesServers != copiesListeners {
			ok = false // a shape the model has no variant for
		}
		handlesExt = assignsTo(rc, "dst.ExtendConfigs")
		if !assignsTo(rc, "dst.MosnConfig") || !assignsTo(rc, "dst.Listener") || !assignsTo(rc, "dst.Cluster") {
			ok = false
		}
	}
	_, f2, err := ParseGoFile(repo, "pkg/configmanager/dump_action.go")
	transferCopies := false
	if err != nil {
		ok = false
	} else if tc := FindFunc(f2, "", "transferConfig"); tc == nil {
		ok = false
	} else {
		if !assignsTo(tc, "wait2dump.Servers[0].Listeners") || !assignsTo(tc, "wait2dump.Servers[0].Routers") {
			ok = false
		}
		transferCopies = callsWithArg(tc, "copy", 1, "conf.MosnConfig.Servers") || callsWithArg(tc, "copy", 1, "wait2dump.Servers")
	}
	// SetHosts stores its argument: after taking the lock, the body is `if cluster, ok := conf.Cluster[name]; ok {
	// cluster.Hosts = <2nd parameter>; conf.Cluster[name] = cluster; tryDump() }` - no other branch, no return
	setHostsExact := false
	if _, f3, err := ParseGoFile(repo, "pkg/configmanager/effectiveconfig.go"); err != nil {
		ok = false
	} else if sh := FindFunc(f3, "", "SetHosts"); sh == nil || sh.Type.Params == nil || sh.Type.Params.NumFields() != 2 {
		ok = false
	} else {
		var pnames []string
		for _, fl := range sh.Type.Params.List {
			for _, n := range fl.Names {
				pnames = append(pnames, n.Name)
			}
		}
		var rest []ast.Stmt
		for _, st := range sh.Body.List {
			switch x := st.(type) {
			case *ast.ExprStmt:
				if exprStr(x.X) == "configLock.Lock()" {
					continue
				}
			case *ast.DeferStmt:
				if exprStr(x.Call) == "configLock.Unlock()" {
					continue
				}
			}
			rest = append(rest, st)
		}
		if len(rest) == 1 && len(pnames) == 2 {
			if is, isIf := rest[0].(*ast.IfStmt); isIf && is.Else == nil && exprStr(is.Cond) == "ok" && len(is.Body.List) == 3 {
				var got []string
				for _, st := range is.Body.List {
					switch x := st.(type) {
					case *ast.AssignStmt:
						if len(x.Lhs) == 1 && len(x.Rhs) == 1 && x.Tok == token.ASSIGN {
							got = append(got, exprStr(x.Lhs[0])+" = "+exprStr(x.Rhs[0]))
						}
					case *ast.ExprStmt:
						got = append(got, exprStr(x.X))
					}
				}
				init := ""
				if as, isAs := is.Init.(*ast.AssignStmt); isAs && len(as.Lhs) == 2 && len(as.Rhs) == 1 {
					init = exprStr(as.Lhs[0]) + ", " + exprStr(as.Lhs[1]) + " := " + exprStr(as.Rhs[0])
				}
				want := []string{"cluster.Hosts = " + pnames[1], "conf.Cluster[" + pnames[0] + "] = cluster", "tryDump()"}
				setHostsExact = init == "cluster, ok := conf.Cluster["+pnames[0]+"]" && strings.Join(got, ";") == strings.Join(want, ";")
			}
		}
	}
	// metadataToConfig copies every value as it is (`m[k] = v` with k, v the range variables) and configToMetadata takes
	// string members only (one type assertion to string, no type switch)
	metaStrings := false
	if _, f4, err := ParseGoFile(repo, "pkg/config/v2/common.go"); err != nil {
		ok = false
	} else if m2c, c2m := FindFunc(f4, "", "metadataToConfig"), FindFunc(f4, "", "configToMetadata"); m2c == nil || c2m == nil {
		ok = false
	} else {
		copies, otherWrites := false, 0
		ast.Inspect(m2c.Body, func(n ast.Node) bool {
			if rs, isR := n.(*ast.RangeStmt); isR && rs.Key != nil && rs.Value != nil {
				for _, st := range rs.Body.List {
					as, isAs := st.(*ast.AssignStmt)
					if isAs && len(as.Lhs) == 1 && len(as.Rhs) == 1 && exprStr(as.Lhs[0]) == "m["+exprStr(rs.Key)+"]" && exprStr(as.Rhs[0]) == exprStr(rs.Value) {
						copies = true
					} else {
						otherWrites++
					}
				}
			}
			return true
		})
		asserts, switches, calls := 0, 0, 0
		ast.Inspect(c2m.Body, func(n ast.Node) bool {
			switch x := n.(type) {
			case *ast.TypeAssertExpr:
				if x.Type != nil && exprStr(x.Type) == "string" {
					asserts++
				} else {
					switches++
				}
			case *ast.TypeSwitchStmt:
				switches++
			case *ast.CallExpr:
				calls++
			}
			return true
		})
		metaStrings = copies && otherWrites == 0 && asserts == 1 && switches == 0 && calls == 0
	}
	fmt.Fprintf(b, "(* the metadata coder copies strings: metadataToConfig stores every value unchanged, configToMetadata takes string members only *)\nDefinition src_metadata_strings_only := %v.\n", metaStrings)
	fmt.Fprintf(b, "(* SetHosts stores its argument for a known cluster: no other branch, no early return *)\nDefinition src_sethosts_stores_argument := %v.\n", setHostsExact)
	// transferConfig hands out the marshal output as it is: its last statement is `return json.MarshalIndent(...)` (or
	// json.Marshal) and there is no other return of bytes
	transferPlain := false
	if f2 != nil {
		if tc := FindFunc(f2, "", "transferConfig"); tc != nil && len(tc.Body.List) > 0 {
			if rs, isRet := tc.Body.List[len(tc.Body.List)-1].(*ast.ReturnStmt); isRet && len(rs.Results) == 1 {
				if c, isCall := rs.Results[0].(*ast.CallExpr); isCall {
					fn := exprStr(c.Fun)
					transferPlain = fn == "json.MarshalIndent" || fn == "json.Marshal"
				}
			}
			if transferPlain { // any other return must be an error return (nil bytes)
				ast.Inspect(tc.Body, func(n ast.Node) bool {
					if rs, isRet := n.(*ast.ReturnStmt); isRet && len(rs.Results) == 2 && exprStr(rs.Results[0]) != "nil" {
						transferPlain = false
					}
					return true
				})
			}
		}
	}
	// DumpJSON hands out freshly marshalled bytes: the only calls in it are the lock pair, redactedCopy, json.Marshal and
	// RedactDumpJSON (whose result may BE its argument), and the only deferred call is the unlock - no buffer of a pool, no
	// release of anything the result may alias
	dumpFresh := false
	if _, f5, err := ParseGoFile(repo, "pkg/configmanager/effectiveconfig.go"); err == nil {
		if dj := FindFunc(f5, "", "DumpJSON"); dj != nil {
			allowed := map[string]bool{"configLock.RLock": true, "configLock.RUnlock": true, "redactedCopy": true, "json.Marshal": true, "RedactDumpJSON": true}
			dumpFresh = true
			marshals := 0
			ast.Inspect(dj.Body, func(n ast.Node) bool {
				switch x := n.(type) {
				case *ast.CallExpr:
					fn := exprStr(x.Fun)
					if !allowed[fn] {
						dumpFresh = false
					}
					if fn == "json.Marshal" {
						marshals++
					}
				case *ast.DeferStmt:
					if exprStr(x.Call.Fun) != "configLock.RUnlock" {
						dumpFresh = false
					}
				case *ast.GoStmt:
					dumpFresh = false
				}
				return true
			})
			dumpFresh = dumpFresh && marshals == 1
		}
	}
	// redactTLSConfig (run on a COPY of the struct, whose maps and slices are still the live ones) only assigns the
	// PrivateKey field: no call (no in-place redactor on anything reachable from its argument), no loop, no other assignment
	tlsShallow := false
	if _, f6, err := ParseGoFile(repo, "pkg/configmanager/effectiveconfig.go"); err == nil {
		if rt := FindFunc(f6, "", "redactTLSConfig"); rt != nil && rt.Type.Params != nil && len(rt.Type.Params.List) == 1 && len(rt.Type.Params.List[0].Names) == 1 {
			p := rt.Type.Params.List[0].Names[0].Name
			tlsShallow = true
			ast.Inspect(rt.Body, func(n ast.Node) bool {
				switch x := n.(type) {
				case *ast.CallExpr, *ast.RangeStmt, *ast.ForStmt, *ast.GoStmt, *ast.DeferStmt:
					tlsShallow = false
				case *ast.AssignStmt:
					for _, l := range x.Lhs {
						if exprStr(l) != p+".PrivateKey" {
							tlsShallow = false
						}
					}
				case *ast.IncDecStmt:
					tlsShallow = false
				}
				return true
			})
		}
	}
	fmt.Fprintf(b, "(* redactTLSConfig only assigns the PrivateKey field of its argument: nothing reachable through the argument's maps / slices is written *)\nDefinition src_redact_tls_shallow := %v.\n", tlsShallow)
	fmt.Fprintf(b, "(* DumpJSON returns freshly marshalled bytes (no pooled buffer, nothing released that the result may alias) *)\nDefinition src_dump_fresh_bytes := %v.\n", dumpFresh)
	fmt.Fprintf(b, "(* transferConfig returns the output of json.MarshalIndent as it is (no processing of the text) *)\nDefinition src_transfer_returns_marshal := %v.\n", transferPlain)
	fmt.Fprintf(b, "Definition src_redact_copies_servers := %v.\n", copiesServers && copiesListeners)
	fmt.Fprintf(b, "Definition src_redact_handles_extends := %v.\n", handlesExt)
	fmt.Fprintf(b, "Definition src_transfer_copies_servers := %v.\n", transferCopies)
	return ok
}

// ---------------------------------------------------------------------------------------------------------------

// walkTypes: the reflect part of the translator alone (type graph + hooks), for the harness commands
func walkTypes(repo string) *graph {
	g := &graph{repo: repo, byName: map[string]*gstruct{}, byType: map[reflect.Type]*gstruct{}, ok: true, pkgAST: map[string]map[string]*ast.FuncDecl{}}
	g.structOf(configmanager.VerifConfType(), "root")
	for _, n := range sortedTypeNames(knownExtTypes) {
		g.structOf(knownExtTypes[n], n)
	}
	for _, t := range extraHookedTypes {
		g.structOf(t, tname(t))
	}
	g.hooks()
	return g
}

// shadowPaths: every selector path rooted at the receiver that MarshalJSON assigns to
func (g *graph) shadowPaths(s *gstruct) [][]string {
	fd := g.methods(s.T.PkgPath())[s.T.Name()+".MarshalJSON"]
	if fd == nil || fd.Body == nil {
		return nil
	}
	recv := recvName(fd)
	var out [][]string
	ast.Inspect(fd.Body, func(n ast.Node) bool {
		as, ok := n.(*ast.AssignStmt)
		if !ok || as.Tok != token.ASSIGN {
			return true
		}
		for _, l := range as.Lhs {
			if p, ok := selPath(l, recv); ok && len(p) > 0 {
				out = append(out, qualify(s.T, p))
			}
		}
		return true
	})
	return out
}

func (g *graph) hooks() {
	for _, s := range g.structs {
		s.Hook, s.Unhook = "HkNone", "UkNone"
		if s.HasM && inMosn(s.T) {
			s.Shadow = g.shadowPaths(s)
		}
		curStruct = s.T
		if s.HasM && inMosn(s.T) {
			s.Hook = g.marshalHook(s)
		} else if s.HasM {
			s.Hook = "HkCustom"
		}
		if s.HasU && inMosn(s.T) {
			s.Unhook = g.unmarshalHook(s)
		} else if s.HasU {
			s.Unhook = "UkCustom"
		}
		curStruct = nil
	}
}

// ---------------------------------------------------------------------------------------------------------------
// (5) the file-name function of path (directory) mode: the ORDER of truncation / separator replacement / extension
// in ClusterManagerConfig.MarshalJSON and RouterConfiguration.MarshalJSON (events in evaluation order, calls to
// functions of the package followed)

func fileNameOps(repo string, recv string) ([]string, error) {
	dir := filepath.Join(repo, "pkg/config/v2")
	fset := token.NewFileSet()
	pkgs, err := parser.ParseDir(fset, dir, func(fi os.FileInfo) bool { return !strings.HasSuffix(fi.Name(), "_test.go") }, 0)
	if err != nil {
		return nil, err
	}
	funcs := map[string]*ast.FuncDecl{}
	jsonConsts := map[string]bool{}
	var marshal *ast.FuncDecl
	for _, p := range pkgs {
		for _, f := range p.Files {
			for _, d := range f.Decls {
				switch x := d.(type) {
				case *ast.FuncDecl:
					if x.Recv == nil {
						funcs[x.Name.Name] = x
					} else if x.Name.Name == "MarshalJSON" && len(x.Recv.List) == 1 && exprStr(x.Recv.List[0].Type) == recv {
						marshal = x
					}
				case *ast.GenDecl:
					if x.Tok != token.CONST {
						continue
					}
					for _, sp := range x.Specs {
						vs := sp.(*ast.ValueSpec)
						for i, n := range vs.Names {
							if i < len(vs.Values) {
								if bl, ok := vs.Values[i].(*ast.BasicLit); ok && bl.Value == `".json"` {
									jsonConsts[n.Name] = true
								}
							}
						}
					}
				}
			}
		}
	}
	if marshal == nil {
		return nil, fmt.Errorf("%s.MarshalJSON not found", recv)
	}
	var ops []string
	var walk func(n ast.Node, depth int)
	walk = func(n ast.Node, depth int) {
		if n == nil {
			return
		}
		// post-order: operands before the operation
		var children []ast.Node
		first := true
		ast.Inspect(n, func(c ast.Node) bool {
			if first {
				first = false
				return true
			}
			if c != nil {
				children = append(children, c)
			}
			return false
		})
		for _, c := range children {
			walk(c, depth)
		}
		switch x := n.(type) {
		case *ast.SliceExpr:
			if x.Low == nil && x.High != nil && exprStr(x.High) == "MaxFilePath" {
				ops = append(ops, "FTrunc")
			}
		case *ast.CallExpr:
			fn := exprStr(x.Fun)
			if fn == "strings.ReplaceAll" && len(x.Args) == 3 && exprStr(x.Args[1]) == "sep" && exprStr(x.Args[2]) == `"_"` {
				ops = append(ops, "FReplaceSep")
			} else if fd, ok := funcs[fn]; ok && depth < 2 && fd.Body != nil {
				walk(fd.Body, depth+1)
			}
		case *ast.BinaryExpr:
			if x.Op == token.ADD {
				if bl, ok := x.Y.(*ast.BasicLit); ok && bl.Value == `".json"` {
					ops = append(ops, "FAppendJson")
				} else if id, ok := x.Y.(*ast.Ident); ok && jsonConsts[id.Name] {
					ops = append(ops, "FAppendJson")
				}
			}
		}
	}
	walk(marshal.Body, 0)
	return ops, nil
}

// ---------------------------------------------------------------------------------------------------------------
// (6) every position of the effective-config graph that is dumped as an opaque blob (interface{}, map[string]interface{},
// json.RawMessage): type-level paths from the root

func blobPositions(root reflect.Type) [][2]string {
	var out [][2]string
	var walk func(t reflect.Type, path string, seen map[reflect.Type]bool)
	walk = func(t reflect.Type, path string, seen map[reflect.Type]bool) {
		if t == rawMessageT {
			out = append(out, [2]string{path, "json.RawMessage"})
			return
		}
		switch t.Kind() {
		case reflect.Interface:
			if t.NumMethod() == 0 {
				out = append(out, [2]string{path, "interface{}"})
			}
		case reflect.Ptr:
			walk(t.Elem(), path, seen)
		case reflect.Slice, reflect.Array:
			if t.Elem().Kind() != reflect.Uint8 {
				walk(t.Elem(), path+"[]", seen)
			}
		case reflect.Map:
			if t.Elem().Kind() == reflect.Interface && t.Elem().NumMethod() == 0 {
				out = append(out, [2]string{path, "map[string]interface{}"})
				return
			}
			walk(t.Elem(), path+"[]", seen)
		case reflect.Struct:
			if t.Name() != "" && !inMosn(t) && t.PkgPath() != "mosn.io/api" {
				return
			}
			if seen[t] {
				return
			}
			seen2 := map[reflect.Type]bool{t: true}
			for k := range seen {
				seen2[k] = true
			}
			for i := 0; i < t.NumField(); i++ {
				f := t.Field(i)
				if f.PkgPath != "" && !f.Anonymous {
					continue
				}
				walk(f.Type, path+"."+f.Name, seen2)
			}
		}
	}
	walk(root, "conf", map[reflect.Type]bool{})
	return out
}

// scrubSwitch: do DumpJSON and the admin handler pass the serialized dump through the JSON-level redaction?
func scrubSwitch(repo string) (bool, bool) {
	ok := true
	dump, handler := false, false
	if _, f, err := ParseGoFile(repo, "pkg/configmanager/effectiveconfig.go"); err == nil {
		if fd := FindFunc(f, "", "DumpJSON"); fd != nil {
			ast.Inspect(fd.Body, func(n ast.Node) bool {
				if c, ok := n.(*ast.CallExpr); ok && exprStr(c.Fun) == "RedactDumpJSON" {
					dump = true
				}
				return true
			})
		} else {
			ok = false
		}
	} else {
		ok = false
	}
	if _, f, err := ParseGoFile(repo, "pkg/admin/server/apis.go"); err == nil {
		if fd := FindFunc(f, "", "ConfigDump"); fd != nil {
			marshals, scrubs := 0, 0
			ast.Inspect(fd.Body, func(n ast.Node) bool {
				if c, ok := n.(*ast.CallExpr); ok {
					switch exprStr(c.Fun) {
					case "json.MarshalIndent", "json.Marshal":
						marshals++
					case "configmanager.RedactDumpJSON":
						scrubs++
					}
				}
				return true
			})
			handler = marshals > 0 && scrubs >= marshals
		} else {
			ok = false
		}
	} else {
		ok = false
	}
	return dump && handler && scrubUnconditional(repo), ok
}

// scrubUnconditional: RedactDumpJSON decodes whatever it is given - before the Decode call the only way out is the empty
// input (`if len(raw) == 0`), and nothing but len / the decoder's reader looks at the text
func scrubUnconditional(repo string) bool {
	_, f, err := ParseGoFile(repo, "pkg/configmanager/redact.go")
	if err != nil {
		return false
	}
	fd := FindFunc(f, "", "RedactDumpJSON")
	if fd == nil || fd.Type.Params == nil || len(fd.Type.Params.List) == 0 || len(fd.Type.Params.List[0].Names) == 0 {
		return false
	}
	raw := fd.Type.Params.List[0].Names[0].Name
	decoded := false
	for _, st := range fd.Body.List {
		hasDecode := false
		ast.Inspect(st, func(n ast.Node) bool {
			if c, ok := n.(*ast.CallExpr); ok && strings.HasSuffix(exprStr(c.Fun), ".Decode") {
				hasDecode = true
			}
			return true
		})
		if hasDecode {
			decoded = true
			break
		}
		switch x := st.(type) {
		case *ast.IfStmt:
			if exprStr(x.Cond) != "len("+raw+") == 0" {
				return false
			}
		default:
			// declarations / the decoder set-up: the text may only be handed to a reader
			bad := false
			ast.Inspect(st, func(n ast.Node) bool {
				if c, ok := n.(*ast.CallExpr); ok {
					fn := exprStr(c.Fun)
					for _, a := range c.Args {
						if exprStr(a) == raw && fn != "bytes.NewReader" && fn != "len" {
							bad = true
						}
					}
				}
				if _, ok := n.(*ast.ReturnStmt); ok {
					bad = true
				}
				return true
			})
			if bad {
				return false
			}
		}
	}
	return decoded
}

func genCfgTypes(repo string) (string, error) {
	g := &graph{repo: repo, byName: map[string]*gstruct{}, byType: map[reflect.Type]*gstruct{}, ok: true, pkgAST: map[string]map[string]*ast.FuncDecl{}}
	root := g.structOf(configmanager.VerifConfType(), "root")
	// (3) first, so that the extension types it attributes are walked too
	pkgs, err := scanRepo(repo)
	if err != nil {
		return "", err
	}
	bearing := tlsBearing(pkgs)
	var extTLS, filtTLS, unknown, unattributed, bearingNames [][2]string
	var keys []string
	for k := range bearing {
		keys = append(keys, k)
	}
	sort.Strings(keys)
	for _, k := range keys {
		parts := strings.SplitN(k, "#", 2)
		dir, tn := parts[0], parts[1]
		ps := pkgs[dir]
		if ps == nil {
			continue
		}
		st := ps.Types[tn]
		full := ps.Name + "." + tn
		bearingNames = append(bearingNames, [2]string{full, dir})
		if dir == "pkg/config/v2" || dir == "pkg/configmanager" {
			continue
		}
		if st == nil || !st.HasJSONTag {
			continue // not a JSON configuration type
		}
		if _, known := knownExtTypes[full]; !known {
			unknown = append(unknown, [2]string{full, dir})
		}
		isB := func(n string) bool { return bearing[dir+"#"+n] && ps.Types[n] != nil && ps.Types[n].HasJSONTag }
		att := false
		attribute := func(regs []reg, out *[][2]string) {
			for _, e := range regs {
				names, resolved := ps.mentioned(e.Fn, isB)
				hit := !resolved
				for _, n := range names {
					if n == tn {
						hit = true
					}
				}
				if hit {
					*out = append(*out, [2]string{e.Name, full})
					att = true
				}
			}
		}
		attribute(ps.ExtRegs, &extTLS)
		attribute(ps.FiltRegs, &filtTLS)
		if !att {
			unattributed = append(unattributed, [2]string{full, dir})
		}
	}
	for _, n := range sortedTypeNames(knownExtTypes) {
		g.structOf(knownExtTypes[n], n)
	}
	for _, t := range extraHookedTypes {
		g.structOf(t, tname(t))
	}
	// every type of config/v2 with a MarshalJSON / UnmarshalJSON method is in the graph
	var v2Methods []string
	for k := range g.methods(v2Path) {
		v2Methods = append(v2Methods, k)
	}
	sort.Strings(v2Methods)
	for _, k := range v2Methods {
		if strings.HasSuffix(k, ".MarshalJSON") || strings.HasSuffix(k, ".UnmarshalJSON") {
			tn := "v2." + strings.SplitN(k, ".", 2)[0]
			if _, ok := g.byName[tn]; !ok {
				g.warn = append(g.warn, "config/v2 type with a custom (un)marshaler is not in the graph: "+tn)
				g.ok = false
			}
		}
	}
	g.hooks()

	var b strings.Builder
	b.WriteString("From Coq Require Import List String Bool ZArith.\nFrom MV Require Import Lib.GoJson.\nImport ListNotations.\nOpen Scope string_scope.\n\n")
	b.WriteString("Definition cfg_structs : list sdesc := [\n")
	for i, s := range g.structs {
		if i > 0 {
			b.WriteString(";\n")
		}
		fmt.Fprintf(&b, " mkS %s [\n", q(s.Name))
		for j, f := range s.Fields {
			if j > 0 {
				b.WriteString(";\n")
			}
			fmt.Fprintf(&b, "   mkF %s %s %v %v %v %s", q(f.Go), q(f.JSON), f.Omit, f.Skip, f.Embed, f.Ty)
		}
		fmt.Fprintf(&b, "]\n   %s\n   %s %v", s.Hook, s.Unhook, s.MPtrRecv)
	}
	b.WriteString("\n].\n\n")
	fmt.Fprintf(&b, "Definition cfg_root := %s.\n", q(root.Name))
	pairs := func(name string, l [][2]string) {
		var it []string
		for _, p := range l {
			it = append(it, "("+q(p[0])+", "+q(p[1])+")")
		}
		fmt.Fprintf(&b, "Definition %s : list (string * string) := [%s].\n", name, strings.Join(it, "; "))
	}
	b.WriteString("(* registered extension parsers / filter factories whose package declares a TLS-bearing JSON config type: (registration name, type) *)\n")
	pairs("cfg_ext_tls", extTLS)
	pairs("cfg_filter_tls", filtTLS)
	b.WriteString("(* TLS-bearing JSON config types the harness has no reflect type for / that no registration explains: (type, dir) *)\n")
	pairs("cfg_unknown_tls", unknown)
	pairs("cfg_unattributed_tls", unattributed)
	b.WriteString("(* every struct type of the tree that transitively contains a v2.TLSConfig (go/ast scan): (type, dir) *)\n")
	pairs("cfg_tls_bearing_ast", bearingNames)
	ok := srcSwitches(repo, &b) && g.ok
	b.WriteString("(* positions of the effective config that are dumped as opaque blobs: (type-level path, kind) *)\n")
	pairs("cfg_blob_positions", blobPositions(configmanager.VerifConfType()))
	b.WriteString("(* json-tagged string/bytes fields of any struct under pkg/, cmd/, istio/istio1106 whose JSON name suggests a secret: (type, json name) *)\n")
	pairs("cfg_keylike_fields", keyLikeFields(pkgs))
	scrub, sok := scrubSwitch(repo)
	ok = ok && sok
	fmt.Fprintf(&b, "(* every serialisation of the dump (DumpJSON and each json.Marshal* of admin ConfigDump) is passed through RedactDumpJSON, which decodes whatever it is given (no look at the text before the Decode other than the empty-input exit) *)\nDefinition src_dump_scrubs_output := %v.\n", scrub)
	b.WriteString("(* path-mode file naming: operations on the item name, in evaluation order *)\n")
	fmt.Fprintf(&b, "Definition src_max_file_path : nat := %d.\n", v2.MaxFilePath)
	for _, rn := range [][2]string{{"ClusterManagerConfig", "src_fname_ops_cluster"}, {"RouterConfiguration", "src_fname_ops_router"}} {
		ops, err := fileNameOps(repo, rn[0])
		if err != nil {
			ok = false
			fmt.Fprintf(&b, "(* %v *)\n", err)
		}
		fmt.Fprintf(&b, "Definition %s : list fop := [%s].\n", rn[1], strings.Join(ops, "; "))
	}
	for _, w := range g.warn {
		fmt.Fprintf(&b, "(* warning: %s *)\n", strings.ReplaceAll(w, "*)", "* )"))
	}
	fmt.Fprintf(&b, "Definition CfgTypes_translator_ok := %v.\n", ok)
	return b.String(), nil
}

func sortedTypeNames(m map[string]reflect.Type) []string {
	var l []string
	for k := range m {
		l = append(l, k)
	}
	sort.Strings(l)
	return l
}
