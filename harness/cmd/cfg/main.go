package main

import . "vh/vhlib"

func main() {
	Main(map[string]CmdFn{
		"gen": func(a []string) int { return RunGen(gens, a) },
		"c20": c20,
		"c19": c19,
	})
}
