package main

import (
	"encoding/binary"
	"fmt"
	"strings"

	. "vh/vhlib"
)

// chunks as slices of the stream `b`
func coqChunksRel(chunks [][]byte) string {
	var it []string
	pos := 0
	for _, c := range chunks {
		it = append(it, fmt.Sprintf("sub b %d %d", pos, pos+len(c)))
		pos += len(c)
	}
	return "[" + strings.Join(it, "; ") + "]"
}

func coqChunks(chunks [][]byte) string {
	var it []string
	for _, c := range chunks {
		it = append(it, CoqBytes(c))
	}
	return "[" + strings.Join(it, "; ") + "]"
}

func boltValid(r *Rng, v2 bool, big bool) validFrame {
	f := genBoltFrame(r, v2, big)
	b := f.bytes()
	cl, hl, ctl, fixed := f.lenOff()
	vf := validFrame{Bytes: b, Fixed: fixed, Desc: f, Fields: []lenField{{"class", cl, 2}, {"header", hl, 2}, {"content", ctl, 4}}, Extra: map[string][]byte{}}
	// header block corruptions (the frame length fields stay consistent with the corrupted block)
	mk := func(name string, hdr []byte) {
		g := *f
		g.Hdr = hdr
		vf.Extra["hdrblock:"+name] = g.bytes()
	}
	base := f.Hdr
	for d := 1; d <= 3; d++ {
		mk(fmt.Sprintf("dangling%d", d), append(append([]byte{}, base...), r.Bytes(d)...))
	}
	mk("only2bytes", []byte{0, 1})
	mk("keylen=ffffffff", append(append([]byte{}, base...), cat(be32(0xffffffff), kv("k", "v"))...))
	mk("vallen=ffffffff", append(append([]byte{}, base...), cat(be32(1), []byte("k"), be32(0xffffffff), kv("a", "b"))...))
	mk("keylen-over", append(append([]byte{}, base...), cat(be32(500), []byte("short"))...))
	mk("vallen-over", append(append([]byte{}, base...), cat(be32(1), []byte("k"), be32(7), []byte("abc"))...))
	mk("key-without-value", append(append([]byte{}, base...), cat(be32(3), []byte("key"))...))
	mk("keylen=7fffffff", append(append([]byte{}, base...), cat(be32(0x7fffffff), []byte("x"))...))
	// every key / value LENGTH PREFIX inside the (otherwise consistent) header block set to the values around the
	// 32-bit boundaries: 2^32-1-k for k around 0..16 and around index..index+5 (where index+4+length wraps in uint32),
	// 2^31-1, 2^31, 2^31+1.  Frame length fields stay consistent: only the 4 prefix bytes change.
	type pos struct{ off int }
	var prefixes []int
	off := 0
	for _, p := range f.KVs {
		prefixes = append(prefixes, off)
		off += 4 + len(p[0])
		prefixes = append(prefixes, off)
		off += 4 + len(p[1])
	}
	sel := prefixes
	if len(sel) > 8 {
		sel = []int{prefixes[0], prefixes[1], prefixes[2], prefixes[len(prefixes)/2], prefixes[len(prefixes)-2], prefixes[len(prefixes)-1]}
	}
	for _, po := range sel {
		ks := []uint64{0, 1, 2, 3, 4, 5, 8, 16}
		for d := uint64(0); d <= 6; d++ {
			ks = append(ks, uint64(po)+d)
		}
		ks = append(ks, uint64(po)+16)
		vals := []uint32{0x7fffffff, 0x80000000, 0x80000001}
		for _, k := range ks {
			vals = append(vals, uint32(0xffffffff-k))
		}
		for _, v := range vals {
			h := append([]byte{}, base...)
			binary.BigEndian.PutUint32(h[po:], v)
			mk(fmt.Sprintf("pairlen@%d=%x", po, v), h)
		}
	}
	return vf
}

func codecDefs() []*codecDef {
	var defs []*codecDef
	for _, v2 := range []bool{false, true} {
		v2 := v2
		name := "bolt"
		if v2 {
			name = "boltv2"
		}
		cd := &codecDef{Name: name, Proto: proto(name), Sum: boltSum, Header: boltShardHeader,
			CaseType: "decode_case", Eval: "decode_mismatches", SegType: "seg_case", SegEval: "seg_mismatches"}
		cd.Gen = func(r *Rng, big bool) validFrame {
			// the other member of the family in 20% of the cases (cross dispatch on the first byte)
			if r.Pct(20) {
				return boltValid(r, !v2, big)
			}
			return boltValid(r, v2, big)
		}
		cd.CaseTerm = func(in []byte, o decObs) string {
			return letB(in, fmt.Sprintf("(%s, b, %s)", CoqBool(v2), o.coqDobs()))
		}
		cd.SegTerm = func(chunks [][]byte, so streamObs) string {
			var all []byte
			for _, c := range chunks {
				all = append(all, c...)
			}
			return letB(all, fmt.Sprintf("(%s, %s, %s, %d, %s)", CoqBool(v2), coqChunksRel(chunks), so.coqEvents(), so.Left, CoqBool(so.Closed)))
		}
		cd.RandHead = func(r *Rng, b []byte) {
			if len(b) > 0 {
				b[0] = byte(r.Pick([]int{1, 2, 1, 2, 3}))
			}
			for i := 1; i < 3 && i < len(b); i++ {
				if r.Pct(70) {
					b[i] = byte(r.Intn(3))
				}
			}
			// small length fields so that random input sometimes forms complete frames
			for i := 12; i < 24 && i < len(b); i++ {
				if r.Pct(75) {
					b[i] = byte(r.Pick([]int{0, 0, 0, 1, 4, 9}))
				}
			}
		}
		defs = append(defs, cd)
	}
	return append(defs, xDefs()...)
}
