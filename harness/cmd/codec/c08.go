package main

// C08 - malformed input is contained: every decoder on valid frames, single-field corruptions, truncations and
// random bytes, under recover() and a watchdog; outcome compared with the Coq model; the finder is the property
// itself (no panic, no hang, NeedMore consumes nothing, nothing read beyond the received bytes, nothing allocated
// for bytes that have not arrived).

import (
	"crypto/sha256"
	"fmt"

	"mosn.io/api"

	. "vh/vhlib"
)

type lenField struct {
	Name  string
	Off   int
	Width int
}

type validFrame struct {
	Bytes  []byte
	Fields []lenField
	Fixed  int // length of the fixed header (bytes flipped one by one)
	Desc   interface{}
	Extra  map[string][]byte // codec specific corrupted variants (name -> bytes)
}

type codecDef struct {
	Name     string
	Proto    api.XProtocol
	Sum      sumFn
	Gen      func(r *Rng, big bool) validFrame
	Header   string
	CaseType string
	Eval     string
	CaseTerm func(in []byte, o decObs) string
	// stream (C07) cases
	SegType  string
	SegEval  string
	SegTerm  func(chunks [][]byte, so streamObs) string
	RandHead func(r *Rng, b []byte) // bias the first bytes of random input towards this codec
}

func getBE(b []byte, off, w int) uint64 {
	var v uint64
	for i := 0; i < w; i++ {
		v = v<<8 | uint64(b[off+i])
	}
	return v
}
func putBE(b []byte, off, w int, v uint64) {
	for i := w - 1; i >= 0; i-- {
		b[off+i] = byte(v)
		v >>= 8
	}
}

type c08ctx struct {
	run   *Run
	cd    *codecDef
	sh    *Shard
	seen  map[[32]byte]bool
	bytes int // size of the terms in the open shard
	// valid frames of the victim connections (victim.go)
	victims [][]byte
	nvict   int
	live    *liveState
}

// toCoq: which cases are also evaluated by the Coq model (the finder runs on ALL cases).  Quick tier: every
// valid frame, every length-field corruption and every codec-specific corruption of frames below 20 kB, a third of
// the flips / truncations / random inputs; thorough tier: see below.
func (c *c08ctx) toCoq(in []byte, kind string, h [32]byte) bool {
	cls := kindClass(kind)
	if cls == "hdrblock:pairlen" && !c.run.Thorough() && h[1]%3 != 0 {
		return false // the finder runs on all of them; the Coq model evaluates a third in the quick tier
	}
	structural := cls == "valid" || cls == "valid+garbage" || (len(cls) > 3 && cls[:4] == "len:") || (cls != "flip" && cls != "trunc" && cls != "random")
	if c.run.Thorough() {
		// thorough: everything below 1.5 kB, half of the rest below 20 kB, a sixth of the structural cases above
		switch {
		case len(in) <= 1500:
			return true
		case len(in) <= 20000:
			return structural || h[0]%2 == 0
		}
		return structural && h[0]%6 == 0
	}
	// quick: the byte budget of the Coq shards is about 1.2 MB per check (Coq parses ~25 kB of numerals per second)
	if len(in) > 20000 {
		return structural && h[0]%16 == 0
	}
	if len(in) > 1500 {
		return structural && h[0]%8 == 0
	}
	if len(in) > 300 {
		return (structural && h[0]%2 == 0) || h[0]%10 == 0
	}
	return structural || h[0]%4 == 0
}

func (c *c08ctx) eval(in []byte, kind string, desc interface{}) {
	run, cd := c.run, c.cd
	r1 := decodeOnce(cd.Proto, cd.Sum, in, 0xAA, true)
	r2 := decodeOnce(cd.Proto, cd.Sum, in, 0x55, false)
	rep := map[string]interface{}{"codec": cd.Name, "kind": kind, "len": len(in), "input_hex": Hex(clip(in, 4096)), "frame": desc, "outcome": r1.Kind}
	cls := kindClass(kind)
	switch {
	case r1.Kind == "panic":
		rep["panic"] = r1.Panic
		run.Fail(cd.Name+":decode-panic:"+cls, fmt.Sprintf("%s Decode panicked (%s) on input kind %s", cd.Name, r1.Panic, kind), rep)
	case r1.Kind == "hang":
		run.Fail(cd.Name+":decode-hang:"+cls, fmt.Sprintf("%s Decode did not return within 3s on input kind %s", cd.Name, kind), rep)
	}
	if r1.key() != r2.key() {
		run.Fail(cd.Name+":reads-beyond-received-bytes:"+cls, fmt.Sprintf("%s Decode result depends on the bytes in the spare capacity of the read buffer (input kind %s): %s vs %s", cd.Name, kind, clipS(r1.key(), 200), clipS(r2.key(), 200)), rep)
	}
	if (r1.Kind == "needmore") && r1.Left != len(in) {
		run.Fail(cd.Name+":needmore-consumed:"+cls, fmt.Sprintf("%s Decode asked for more data but drained %d bytes", cd.Name, len(in)-r1.Left), rep)
	}
	if (r1.Kind == "needmore" || r1.Kind == "err") && r1.Alloc > 1<<20+16*uint64(len(in)) {
		rep["alloc"] = r1.Alloc
		run.Fail(cd.Name+":allocates-for-announced-length:"+cls, fmt.Sprintf("%s Decode allocated %d bytes for a %d-byte input it did not accept", cd.Name, r1.Alloc, len(in)), rep)
	}
	if (r1.Kind == "frame" || r1.Kind == "errframe") && (r1.Consumed <= 0 || r1.Consumed > len(in)) {
		run.Fail(cd.Name+":bad-consumed-length:"+cls, fmt.Sprintf("%s Decode returned a frame but consumed %d of %d bytes", cd.Name, r1.Consumed, len(in)), rep)
	}
	h := sha256.Sum256(in)
	nontrivial := kind != "valid" && len(in) > 0
	run.Count(cd.Name+"|"+Hex(h[:8])+"|"+r1.Kind, nontrivial, cd.Name+":"+cls, cd.Name+":outcome="+r1.Kind)
	if c.seen[h] {
		return
	}
	c.seen[h] = true
	if r1.Kind != "hang" && len(c.victims) >= 2 {
		c.victim(in, kind, cls, r1.Kind, rep)
	}
	if kind != "valid" && r1.Kind != "frame" {
		run.Sample(map[string]interface{}{"codec": cd.Name, "kind": kind, "len": len(in), "outcome": r1.Kind})
	}
	if !c.toCoq(in, kind, h) {
		return
	}
	term := cd.CaseTerm(in, r1.decObs)
	c.sh.Add(term, rep)
	c.bytes += len(term)
	if c.sh.Len() >= 300 || c.bytes > 110000 {
		c.sh.Close()
		c.sh = run.NewShard(cd.Header, cd.CaseType, cd.Eval)
		c.bytes = 0
	}
}

// victim: the interleaving of victim.go after this input; B and C rotate over the prepared valid frames
func (c *c08ctx) victim(in []byte, kind, cls, outcome string, rep map[string]interface{}) {
	vb, vc := c.victims[c.nvict%len(c.victims)], c.victims[(c.nvict+1+c.nvict/len(c.victims))%len(c.victims)]
	c.nvict++
	pre := "malformed-input"
	if kind == "valid" {
		pre = "valid-input"
	}
	c.run.Count(c.cd.Name+"|victim|"+fmt.Sprint(c.nvict), kind != "valid", c.cd.Name+":victim-interleaving:outcome="+outcome)
	var fs []victimFinding
	round := func() { fs = victimRound(c.cd, in, vb, vc) }
	if done, _ := within(liveCap, round); !done {
		if d2, _ := within(liveCap, round); !d2 {
			c.run.Fail(c.cd.Name+":decode-hangs-after-hostile-input", fmt.Sprintf("%s: after the input [kind %s] the decode / forward of valid frames of two other connections did not complete within %v (tried twice)", c.cd.Name, kind, liveCap), rep)
		}
	}
	if c.cd.Name == "dubbo" {
		c.dubboLiveness(in, kind, cls, rep)
	}
	for _, f := range fs {
		rp := map[string]interface{}{"victim_B_hex": Hex(clip(vb, 512)), "victim_C_hex": Hex(clip(vc, 512)),
			"schedule": "A: Decode(input) in its stream context; B: Decode(victim_B); A: stream context released; C: Decode(victim_C); Encode(B), Encode(C) compared with what B and C sent"}
		for k, v := range rep {
			rp[k] = v
		}
		for k, v := range f.Detail {
			rp[k] = v
		}
		sig := f.Sig
		if sig == "malformed-input-corrupts-other-connection" {
			sig = pre + "-corrupts-other-connection"
		}
		c.run.Fail(c.cd.Name+":"+sig, f.What+" [input kind "+kind+"]", rp)
	}
}

func kindClass(kind string) string {
	for i := 0; i < len(kind); i++ {
		if kind[i] == '=' || kind[i] == '@' {
			return kind[:i]
		}
	}
	return kind
}

func clip(b []byte, n int) []byte {
	if len(b) > n {
		return b[:n]
	}
	return b
}
func clipS(s string, n int) string {
	if len(s) > n {
		return s[:n] + "..."
	}
	return s
}

func c08Codec(run *Run, cd *codecDef) {
	r := run.R
	c := &c08ctx{run: run, cd: cd, sh: run.NewShard(cd.Header, cd.CaseType, cd.Eval), seen: map[[32]byte]bool{}}
	for len(c.victims) < 6 {
		if vf := cd.Gen(r, false); len(vf.Bytes) <= 4096 {
			if f, _, err, pan := decodeFresh(cd.Proto, vf.Bytes); f != nil && err == nil && pan == nil {
				c.victims = append(c.victims, vf.Bytes)
			}
		}
	}
	nbase := run.N(5, 40)
	for i := 0; i < nbase; i++ {
		big := i%4 == 3
		vf := cd.Gen(r, big)
		b := vf.Bytes
		c.eval(b, "valid", vf.Desc)
		// every length field: 0,1,2,3, truth-1, truth+1, half range, max
		for _, lf := range vf.Fields {
			truth := getBE(b, lf.Off, lf.Width)
			max := uint64(1)<<(8*uint(lf.Width)) - 1
			vals := []uint64{0, 1, 2, 3, truth - 1, truth + 1, max >> 1, max>>1 + 1}
			for k := uint64(0); k <= 15; k++ { // the top 16 values: header length + field wraps around
				vals = append(vals, max-k)
			}
			for _, v := range vals {
				v &= max
				if v == truth {
					continue
				}
				m := append([]byte{}, b...)
				putBE(m, lf.Off, lf.Width, v)
				name := "other"
				switch {
				case v <= 3:
					name = fmt.Sprint(v)
				case v == (truth-1)&max:
					name = "truth-1"
				case v == (truth+1)&max:
					name = "truth+1"
				case v == max>>1:
					name = "2^(w-1)-1"
				case v == max>>1+1:
					name = "2^(w-1)"
				case v == max:
					name = "max"
				case v >= max-15:
					name = "max-1..15"
				}
				c.eval(m, "len:"+lf.Name+"="+name, vf.Desc)
			}
		}
		// every byte of the fixed header replaced
		for off := 0; off < vf.Fixed && off < len(b); off++ {
			if len(b) > 4096 && off%5 != i%5 {
				continue // long frames: a fifth of the positions
			}
			m := append([]byte{}, b...)
			nv := byte(r.U64())
			if nv == m[off] {
				nv++
			}
			m[off] = nv
			c.eval(m, fmt.Sprintf("flip@%d", off), vf.Desc)
		}
		// truncation at every offset (sampled for long frames)
		if len(b) <= run.N(120, 400) {
			for n := 0; n < len(b); n++ {
				c.eval(b[:n], fmt.Sprintf("trunc@%d", n), vf.Desc)
			}
		} else {
			offs := []int{0, 1, 2, 3, 4, 5, 6, 7, 8, vf.Fixed - 1, vf.Fixed, vf.Fixed + 1, len(b) - 5, len(b) - 4, len(b) - 3, len(b) - 2, len(b) - 1}
			for k := 0; k < 6; k++ {
				offs = append(offs, r.Intn(len(b)))
			}
			if len(b) > 4096 {
				offs = []int{3, vf.Fixed - 1, vf.Fixed, len(b) - 4, len(b) - 1, r.Intn(len(b))}
			}
			for _, n := range offs {
				if n >= 0 && n < len(b) {
					c.eval(b[:n], fmt.Sprintf("trunc@%d", n), vf.Desc)
				}
			}
		}
		// followed by garbage / by the start of another frame
		c.eval(append(append([]byte{}, b...), r.Bytes(1+r.Intn(9))...), "valid+garbage", vf.Desc)
		for name, m := range vf.Extra {
			c.eval(m, name, vf.Desc)
		}
	}
	// random bytes
	nrand := run.N(100, 3000)
	for i := 0; i < nrand; i++ {
		b := r.Bytes(r.Intn(90))
		if cd.RandHead != nil && r.Pct(70) {
			cd.RandHead(r, b)
		}
		c.eval(b, "random", nil)
	}
	c.sh.Close()
}

func c08(args []string) int {
	run := NewRun("C08", args)
	dubboOdd = true
	run.Sum.Rule = "per codec (bolt, boltv2, dubbo, dubbo-thrift, tars): structured valid frames (field values over their width, lengths from {0..5,7,8,254..257,65534,65535,65536+,random}, 0..40 header pairs) and for each: every length field set to 0,1,2,3,truth-1,truth+1,half-range,max; every byte of the fixed header replaced; truncation at every offset (sampled above 160 bytes); trailing garbage; codec-specific block corruptions (dangling bytes, 0xFFFFFFFF string length, over-long string); plus random byte strings biased to the codec's magic. Each input goes to the REAL Decode under recover()+3s watchdog twice (different contents of the read buffer's spare capacity). After every distinct input the victim interleaving (victim.go): A decodes the input in its own stream context, B decodes a valid frame, A's context is released, C decodes a valid frame, B and C are encoded and compared byte for byte with what they sent; reference counts of the pooled frame copies read after Decode and after the release. Non-trivial = not the unmodified valid frame; distinct by (codec, input hash, outcome)."
	for _, cd := range codecDefs() {
		c08Codec(run, cd)
	}
	poolPremises(run)
	dispatchProbe(run)
	c08Contain(run)
	return run.Finish()
}
