package main

// Translators of the group `codec`.
//
//	Gen/ProtoConsts.v : protocol constants of the five xprotocol codecs (compiled-in values of the exported
//	                    constants + the literal slice offsets of the bolt/boltv2 decoders read with go/ast)
//	Gen/CodecSrc.v    : shape of the places that were repaired by `fix:` commits (bounds check in the header
//	                    block decoder, length check of the bolt slow path, dubbo-thrift length test and frame copy,
//	                    dubbo SetData, tars reader), read with go/ast so the model follows the tree

import (
	"bytes"
	"fmt"
	"go/ast"
	"go/printer"
	"go/token"
	"sort"
	"strconv"
	"strings"

	mhttp2 "mosn.io/mosn/pkg/module/http2"
	"mosn.io/mosn/pkg/protocol/xprotocol/bolt"
	"mosn.io/mosn/pkg/protocol/xprotocol/boltv2"
	"mosn.io/mosn/pkg/protocol/xprotocol/dubbo"
	"mosn.io/mosn/pkg/protocol/xprotocol/dubbothrift"
	"mosn.io/mosn/pkg/protocol/xprotocol/tars"

	. "vh/vhlib"
)

var gens = map[string]GenFn{"ProtoConsts": genProtoConsts, "CodecSrc": genCodecSrc}

func coqByteList(b []byte) string {
	var it []string
	for _, x := range b {
		it = append(it, fmt.Sprint(x))
	}
	return "[" + strings.Join(it, ";") + "]%N"
}

func src(fset *token.FileSet, n ast.Node) string {
	var b bytes.Buffer
	printer.Fprint(&b, fset, n)
	return strings.Join(strings.Fields(b.String()), " ")
}

// bytesRange finds the innermost bytes[lo:hi] / bytes[i] inside e (over the identifier named `over`).
func bytesRange(e ast.Expr, over string) (lo, hi int, ok bool) {
	ast.Inspect(e, func(n ast.Node) bool {
		switch x := n.(type) {
		case *ast.SliceExpr:
			if id, is := x.X.(*ast.Ident); is && id.Name == over && x.Low != nil && x.High != nil {
				l, ok1 := x.Low.(*ast.BasicLit)
				h, ok2 := x.High.(*ast.BasicLit)
				if ok1 && ok2 {
					lo, _ = strconv.Atoi(l.Value)
					hi, _ = strconv.Atoi(h.Value)
					ok = true
				}
			}
		case *ast.IndexExpr:
			if id, is := x.X.(*ast.Ident); is && id.Name == over {
				if l, ok1 := x.Index.(*ast.BasicLit); ok1 {
					lo, _ = strconv.Atoi(l.Value)
					hi = lo + 1
					ok = true
				}
			}
		}
		return true
	})
	return
}

// fieldOffsets: name -> [lo,hi) for every `name := f(bytes[..])` and every `Name: f(bytes[..])` of the function.
func fieldOffsets(fd *ast.FuncDecl) map[string][2]int {
	m := map[string][2]int{}
	ast.Inspect(fd.Body, func(n ast.Node) bool {
		switch x := n.(type) {
		case *ast.AssignStmt:
			if len(x.Lhs) == 1 && len(x.Rhs) == 1 {
				if id, ok := x.Lhs[0].(*ast.Ident); ok {
					if _, isLit := x.Rhs[0].(*ast.CompositeLit); isLit {
						return true
					}
					if lo, hi, ok := bytesRange(x.Rhs[0], "bytes"); ok {
						m[id.Name] = [2]int{lo, hi}
					}
				}
			}
		case *ast.KeyValueExpr:
			if id, ok := x.Key.(*ast.Ident); ok {
				if _, isLit := x.Value.(*ast.CompositeLit); isLit {
					return true
				}
				if lo, hi, ok := bytesRange(x.Value, "bytes"); ok {
					m[id.Name] = [2]int{lo, hi}
				}
			}
		}
		return true
	})
	return m
}

func genProtoConsts(repo string) (string, error) {
	var b strings.Builder
	b.WriteString("From Coq Require Import NArith.\nOpen Scope N_scope.\n")
	var allNames []string
	d := func(name string, v interface{}) {
		fmt.Fprintf(&b, "Definition %s : N := %v.\n", name, v)
		allNames = append(allNames, name)
	}
	// compiled-in constants
	d("bolt_ProtocolCode", bolt.ProtocolCode)
	d("bolt_RequestHeaderLen", bolt.RequestHeaderLen)
	d("bolt_ResponseHeaderLen", bolt.ResponseHeaderLen)
	d("bolt_LessLen", bolt.LessLen)
	d("bolt_RequestIdIndex", bolt.RequestIdIndex)
	d("bolt_CmdTypeResponse", bolt.CmdTypeResponse)
	d("bolt_CmdTypeRequest", bolt.CmdTypeRequest)
	d("bolt_CmdTypeRequestOneway", bolt.CmdTypeRequestOneway)
	d("bolt_CmdCodeHeartbeat", bolt.CmdCodeHeartbeat)
	d("boltv2_ProtocolCode", boltv2.ProtocolCode)
	d("boltv2_RequestHeaderLen", boltv2.RequestHeaderLen)
	d("boltv2_ResponseHeaderLen", boltv2.ResponseHeaderLen)
	d("boltv2_LessLen", boltv2.LessLen)
	d("boltv2_RequestIdIndex", boltv2.RequestIdIndex)
	d("dubbo_HeaderLen", dubbo.HeaderLen)
	d("dubbo_IdLen", dubbo.IdLen)
	d("dubbo_MagicIdx", dubbo.MagicIdx)
	d("dubbo_FlagIdx", dubbo.FlagIdx)
	d("dubbo_StatusIdx", dubbo.StatusIdx)
	d("dubbo_IdIdx", dubbo.IdIdx)
	d("dubbo_DataLenIdx", dubbo.DataLenIdx)
	d("dubbo_DataLenSize", dubbo.DataLenSize)
	d("dubbo_Magic0", dubbo.MagicTag[0])
	d("dubbo_Magic1", dubbo.MagicTag[1])
	d("dubbo_EventRequest", dubbo.EventRequest)
	d("dubbo_EventResponse", dubbo.EventResponse)
	d("thrift_MessageLenSize", dubbothrift.MessageLenSize)
	d("thrift_MagicLen", dubbothrift.MagicLen)
	d("thrift_MessageLenIdx", dubbothrift.MessageLenIdx)
	d("thrift_MessageHeaderLenIdx", dubbothrift.MessageHeaderLenIdx)
	d("thrift_MessageHeaderLenSize", dubbothrift.MessageHeaderLenSize)
	d("thrift_HeaderIdx", dubbothrift.HeaderIdx)
	d("thrift_HeaderLen", dubbothrift.HeaderLen)
	d("thrift_IdLen", dubbothrift.IdLen)
	d("thrift_Magic0", dubbothrift.MagicTag[0])
	d("thrift_Magic1", dubbothrift.MagicTag[1])
	d("tars_MessageSizeLen", tars.MessageSizeLen)
	d("tars_IVersionLen", tars.IVersionLen)
	d("tars_IVersionHeaderIdx", tars.IVersionHeaderIdx)
	d("tars_MaxPackageLength", 10485760)

	ok := true
	// literal offsets of the bolt / boltv2 decoders
	type want struct {
		pkg, fn, pre string
		names       []string
	}
	wants := []want{
		{"bolt", "decodeRequest", "bolt_req", []string{"classLen", "headerLen", "contentLen", "CmdCode", "Version", "RequestId", "Codec", "Timeout"}},
		{"bolt", "decodeResponse", "bolt_resp", []string{"classLen", "headerLen", "contentLen", "CmdCode", "Version", "RequestId", "Codec", "ResponseStatus"}},
		{"boltv2", "decodeRequest", "boltv2_req", []string{"classLen", "headerLen", "contentLen", "CmdCode", "Version", "RequestId", "Codec", "Timeout", "Version1", "SwitchCode"}},
		{"boltv2", "decodeResponse", "boltv2_resp", []string{"classLen", "headerLen", "contentLen", "CmdCode", "Version", "RequestId", "Codec", "ResponseStatus", "Version1", "SwitchCode"}},
	}
	for _, w := range wants {
		_, f, err := ParseGoFile(repo, "pkg/protocol/xprotocol/"+w.pkg+"/decoder.go")
		if err != nil {
			return "", err
		}
		fd := FindFunc(f, "", w.fn)
		if fd == nil {
			return "", fmt.Errorf("%s.%s not found", w.pkg, w.fn)
		}
		offs := fieldOffsets(fd)
		for _, n := range w.names {
			o, found := offs[n]
			if !found {
				ok = false
				o = [2]int{0, 0}
			}
			d(w.pre+"_"+n+"_lo", o[0])
			d(w.pre+"_"+n+"_hi", o[1])
		}
	}
	// index of the cmd type byte in Decode
	for _, pk := range []string{"bolt", "boltv2"} {
		fset, f, err := ParseGoFile(repo, "pkg/protocol/xprotocol/"+pk+"/protocol.go")
		if err != nil {
			return "", err
		}
		fd := FindFunc(f, pk+"Protocol", "Decode")
		idx := -1
		if fd != nil {
			ast.Inspect(fd.Body, func(n ast.Node) bool {
				if as, is := n.(*ast.AssignStmt); is && len(as.Lhs) == 1 {
					if id, is := as.Lhs[0].(*ast.Ident); is && id.Name == "cmdType" {
						s := src(fset, as.Rhs[0])
						for _, pre := range []string{"data.Bytes()[", "bytes["} {
							if strings.HasPrefix(s, pre) && strings.HasSuffix(s, "]") {
								idx, _ = strconv.Atoi(s[len(pre) : len(s)-1])
							}
						}
					}
				}
				return true
			})
		}
		if idx < 0 {
			ok = false
			idx = 0
		}
		d(pk+"_cmdtype_idx", idx)
	}
	// protocol matchers: HTTP/1 method set (map literal in stream/http/stream.go) and the HTTP/2 client preface
	{
		_, f, err := ParseGoFile(repo, "pkg/stream/http/stream.go")
		if err != nil {
			return "", err
		}
		var methods []string
		ast.Inspect(f, func(n ast.Node) bool {
			vs, is := n.(*ast.ValueSpec)
			if !is || len(vs.Names) != 1 || vs.Names[0].Name != "httpMethod" || len(vs.Values) != 1 {
				return true
			}
			if cl, isLit := vs.Values[0].(*ast.CompositeLit); isLit {
				for _, e := range cl.Elts {
					if kv, isKV := e.(*ast.KeyValueExpr); isKV {
						if bl, isBL := kv.Key.(*ast.BasicLit); isBL {
							if m, err := strconv.Unquote(bl.Value); err == nil {
								methods = append(methods, m)
							}
						}
					}
				}
			}
			return false
		})
		sort.Strings(methods)
		if len(methods) == 0 {
			ok = false
		}
		var ms []string
		for _, m := range methods {
			ms = append(ms, coqByteList([]byte(m)))
		}
		fmt.Fprintf(&b, "From Coq Require Import List.\nImport ListNotations.\nDefinition http_methods : list (list N) := [%s].\n", strings.Join(ms, "; "))
		fmt.Fprintf(&b, "Definition http_min_method : N := %d.\nDefinition http_max_method : N := %d.\n", len("GET"), len("CONNECT"))
		fmt.Fprintf(&b, "Definition h2_preface : list N := %s.\n", coqByteList([]byte(mhttp2.ClientPreface)))
	}
	// everything above in one value: Props compares it by conversion with the constants the model was proved about
	// (Model/CodecParams.v), so nothing under Model/ or Proofs/ depends on this generated file
	fmt.Fprintf(&b, "Definition ProtoConsts_all : list N * list (list N) * list N := ([%s], http_methods, h2_preface).\n", strings.Join(allNames, "; "))
	fmt.Fprintf(&b, "Definition ProtoConsts_translator_ok := %v.\n", ok)
	return b.String(), nil
}

// ---------------------------------------------------------------------------------------------

func genCodecSrc(repo string) (string, error) {
	var b strings.Builder
	b.WriteString("(* source-driven switches: true = the repaired shape is present in the tree *)\nFrom Coq Require Import List.\nImport ListNotations.\n")
	ok := true
	sw := map[string]bool{}
	unknown := func(what, got string) {
		ok = false
		fmt.Fprintf(&b, "(* unrecognised source at %s: %s *)\n", what, strings.ReplaceAll(got, "*)", "* )"))
	}

	// 1. header block decoder: bounds check in front of the length read; bolt and boltv2 call xprotocol.DecodeHeader
	{
		fset, f, err := ParseGoFile(repo, "pkg/protocol/xprotocol/header.go")
		if err != nil {
			return "", err
		}
		checked := false
		if fd := FindFunc(f, "", "decodeStr"); fd != nil && len(fd.Body.List) > 0 {
			if is, isIf := fd.Body.List[0].(*ast.IfStmt); isIf {
				c := src(fset, is.Cond)
				_, ret := is.Body.List[len(is.Body.List)-1].(*ast.ReturnStmt)
				if c == "totalLen-index < 4" && ret {
					checked = true
				} else {
					unknown("xprotocol/header.go decodeStr", c)
				}
			}
			// the loop must be the one modelled: it is compared by the correspondence check; here only the guard
		} else if FindFunc(f, "", "DecodeHeader") != nil {
			unknown("xprotocol/header.go", "DecodeHeader without decodeStr")
		}
		users := 0
		for _, pk := range []string{"bolt", "boltv2"} {
			fset2, f2, err := ParseGoFile(repo, "pkg/protocol/xprotocol/"+pk+"/decoder.go")
			if err != nil {
				return "", err
			}
			for _, fn := range []string{"decodeRequest", "decodeResponse"} {
				fd := FindFunc(f2, "", fn)
				if fd == nil {
					unknown(pk+"/decoder.go", fn+" missing")
					continue
				}
				s := src(fset2, fd.Body)
				if strings.Contains(s, "xprotocol.DecodeHeader(") && !strings.Contains(s, "header.DecodeHeader(") {
					users++
				}
			}
		}
		sw["xp_hdr_checked"] = checked && users == 4
	}

	// 2. bolt / boltv2 slow path: CheckEncodeLength before the length fields are computed
	{
		n := 0
		for _, pk := range []string{"bolt", "boltv2"} {
			fset, f, err := ParseGoFile(repo, "pkg/protocol/xprotocol/"+pk+"/encoder.go")
			if err != nil {
				return "", err
			}
			for _, fn := range []string{"encodeRequest", "encodeResponse"} {
				fd := FindFunc(f, "", fn)
				if fd == nil {
					unknown(pk+"/encoder.go", fn+" missing")
					continue
				}
				// statement list: [if rawData != nil {...}] [if err := CheckEncodeLength(...); err != nil { return nil, err }] ...
				if len(fd.Body.List) >= 2 {
					if is, isIf := fd.Body.List[1].(*ast.IfStmt); isIf && is.Init != nil {
						s := src(fset, is.Init)
						if strings.Contains(s, "CheckEncodeLength(len(") && strings.Contains(s, ".Class)") && strings.Contains(s, "GetHeaderEncodeLength(") && strings.Contains(s, ".Content)") && src(fset, is.Cond) == "err != nil" {
							if rs, isRet := is.Body.List[0].(*ast.ReturnStmt); isRet && src(fset, rs) == "return nil, err" {
								n++
							}
						}
					}
				}
			}
		}
		fset, f, err := ParseGoFile(repo, "pkg/protocol/xprotocol/bolt/encoder.go")
		if err != nil {
			return "", err
		}
		condOK := false
		if fd := FindFunc(f, "", "CheckEncodeLength"); fd != nil {
			ast.Inspect(fd.Body, func(nd ast.Node) bool {
				if is, isIf := nd.(*ast.IfStmt); isIf {
					c := src(fset, is.Cond)
					if c == "classLen > math.MaxUint16 || headerLen > math.MaxUint16 || uint64(contentLen) > math.MaxUint32" {
						condOK = true
					}
				}
				return true
			})
		}
		if n != 0 && n != 4 {
			unknown("bolt/boltv2 encoder.go", fmt.Sprintf("CheckEncodeLength guards %d of 4 encoders", n))
		}
		sw["bolt_enc_checked"] = n == 4 && condOK
	}

	// 3. dubbo-thrift: length test and frame copy
	{
		fset, f, err := ParseGoFile(repo, "pkg/protocol/xprotocol/dubbothrift/protocol.go")
		if err != nil {
			return "", err
		}
		conds := []string{}
		if fd := FindFunc(f, "thriftProtocol", "Decode"); fd != nil {
			ast.Inspect(fd.Body, func(nd ast.Node) bool {
				if is, isIf := nd.(*ast.IfStmt); isIf {
					conds = append(conds, src(fset, is.Cond))
				}
				return true
			})
		}
		switch {
		case len(conds) >= 2 && conds[0] == "data.Len() >= MessageLenSize+MagicLen" && conds[1] == "data.Len() >= MessageLenSize+int(frameLen)":
			sw["thrift_len_has_prefix"] = true
		case len(conds) >= 2 && conds[0] == "data.Len() >= MessageLenSize+MagicLen" && conds[1] == "data.Len() >= int(frameLen)":
			sw["thrift_len_has_prefix"] = false
		default:
			unknown("dubbothrift Decode", strings.Join(conds, " ; "))
		}
		fset, f, err = ParseGoFile(repo, "pkg/protocol/xprotocol/dubbothrift/decoder.go")
		if err != nil {
			return "", err
		}
		cp := false
		if fd := FindFunc(f, "", "decodeFrame"); fd != nil {
			s := src(fset, fd.Body)
			if strings.Contains(s, "dataBytes := make([]byte, frameLen) copy(dataBytes, data.Bytes()[:frameLen])") &&
				strings.Contains(s, "frameLen := MessageLenSize + int(binary.BigEndian.Uint32(data.Bytes()[:MessageLenSize]))") {
				cp = true
			} else if !strings.Contains(s, "dataBytes := data.Bytes()") {
				unknown("dubbothrift decodeFrame", "dataBytes")
			}
		}
		sw["thrift_copies_frame"] = cp
		// encoder slow path: every slice of the scratch buffer that a length field is written through (PutUint16/32(x[...]))
		// is taken (x := bufferBytes.Bytes()) AFTER the last write to the scratch buffer - a slice taken earlier is stale
		// once Write had to grow the buffer
		fset, f, err = ParseGoFile(repo, "pkg/protocol/xprotocol/dubbothrift/encoder.go")
		if err != nil {
			return "", err
		}
		late, seen := true, 0
		if fd := FindFunc(f, "", "encodeFrame"); fd != nil {
			var lastWrite token.Pos
			taken := map[string]token.Pos{} // slice variable -> where it was taken from the scratch buffer
			ast.Inspect(fd.Body, func(nd ast.Node) bool {
				switch x := nd.(type) {
				case *ast.CallExpr:
					if c := src(fset, x.Fun); (c == "bufferBytes.Write" || strings.HasPrefix(c, "protocol.Write") || c == "transport.Write" || c == "protocol.Flush") && x.Pos() > lastWrite {
						lastWrite = x.Pos()
					}
				case *ast.AssignStmt:
					if len(x.Lhs) == 1 && len(x.Rhs) == 1 && src(fset, x.Rhs[0]) == "bufferBytes.Bytes()" {
						taken[src(fset, x.Lhs[0])] = x.Pos()
					}
				}
				return true
			})
			ast.Inspect(fd.Body, func(nd ast.Node) bool {
				ce, isCall := nd.(*ast.CallExpr)
				if !isCall || len(ce.Args) == 0 {
					return true
				}
				if c := src(fset, ce.Fun); c != "binary.BigEndian.PutUint16" && c != "binary.BigEndian.PutUint32" {
					return true
				}
				base := ce.Args[0]
				if se, isSlice := base.(*ast.SliceExpr); isSlice {
					base = se.X
				}
				name := src(fset, base)
				switch pos, fromScratch := taken[name]; {
				case fromScratch:
					seen++
					if pos < lastWrite {
						late = false
					}
				case name == "data": // the output array, allocated with its final size
					seen++
				default:
					if strings.Contains(name, "bufferBytes") {
						late = false
					} else {
						unknown("dubbothrift encodeFrame length field target", name)
					}
				}
				return true
			})
		}
		if seen < 3 {
			unknown("dubbothrift encodeFrame", fmt.Sprintf("%d length field writes recognised, 3 expected", seen))
		}
		sw["thrift_enc_fields_after_body"] = late
	}

	// 4. dubbo SetData drops the raw frame
	{
		fset, f, err := ParseGoFile(repo, "pkg/protocol/xprotocol/dubbo/command.go")
		if err != nil {
			return "", err
		}
		v := false
		if fd := FindFunc(f, "Frame", "SetData"); fd != nil {
			s := src(fset, fd.Body)
			v = (strings.Contains(s, "if r.content != data {") || strings.Contains(s, "if r.content != data || payloadRewritten(r.payload, data) {")) && strings.Contains(s, "r.rawData = nil") && strings.Contains(s, "r.DataLen = uint32(data.Len())") && strings.Contains(s, "r.payload = data.Bytes()")
			if !v && s != "{ r.content = data r.payload = data.Bytes() r.DataLen = uint32(data.Len()) }" {
				unknown("dubbo SetData", s)
			}
		}
		sw["dubbo_setdata_resets_raw"] = v
	}

	// 5. tars reader over the frame body
	{
		fset, f, err := ParseGoFile(repo, "pkg/protocol/xprotocol/tars/decoder.go")
		if err != nil {
			return "", err
		}
		n := 0
		for _, fn := range []string{"decodeRequest", "decodeResponse"} {
			if fd := FindFunc(f, "", fn); fd != nil {
				s := src(fset, fd.Body)
				if strings.Contains(s, "is := codec.NewReader(rawData[MessageSizeLen:])") && strings.Contains(s, "rawData := make([]byte, frameLen) copy(rawData, data.Bytes()[:frameLen])") {
					n++
				} else if !strings.Contains(s, "is := codec.NewReader(data.Bytes())") {
					unknown("tars "+fn, "reader")
				}
			}
		}
		sw["tars_reader_in_frame"] = n == 2
	}

	// 6. dubbo Decode: the "whole frame buffered" test in int arithmetic
	{
		fset, f, err := ParseGoFile(repo, "pkg/protocol/xprotocol/dubbo/protocol.go")
		if err != nil {
			return "", err
		}
		conds := []string{}
		body := ""
		if fd := FindFunc(f, "dubboProtocol", "Decode"); fd != nil {
			body = src(fset, fd.Body)
			ast.Inspect(fd.Body, func(nd ast.Node) bool {
				if is, isIf := nd.(*ast.IfStmt); isIf {
					conds = append(conds, src(fset, is.Cond))
				}
				return true
			})
		}
		switch {
		case len(conds) == 3 && conds[0] == "data.Len() >= HeaderLen" && conds[1] == "data.Len() >= (HeaderLen + int(payLoadLen))" && conds[2] == "err != nil" &&
			strings.Contains(body, "payLoadLen := binary.BigEndian.Uint32(data.Bytes()[DataLenIdx:(DataLenIdx + DataLenSize)])"):
			sw["dubbo_cmp_int"] = true
		case len(conds) == 3 && conds[0] == "data.Len() < HeaderLen" && conds[1] == "uint32(data.Len()) < frameLen" &&
			strings.Contains(body, "frameLen := HeaderLen + binary.BigEndian.Uint32(data.Bytes()[DataLenIdx:(DataLenIdx+DataLenSize)])"):
			sw["dubbo_cmp_int"] = false
		default:
			sw["dubbo_cmp_int"] = false
			unknown("dubbo Decode", strings.Join(conds, " ; "))
		}
		// decodeFrame: uint32 frame length, copy, payload slice
		fset, f, err = ParseGoFile(repo, "pkg/protocol/xprotocol/dubbo/decoder.go")
		if err != nil {
			return "", err
		}
		if fd := FindFunc(f, "", "decodeFrame"); fd != nil {
			b := src(fset, fd.Body)
			for _, want := range []string{"frameLen := HeaderLen + frame.DataLen", "body := make([]byte, frameLen) copy(body, dataBytes[:frameLen])", "frame.Magic = body[MagicIdx:FlagIdx] frame.payload = body[HeaderLen:]", "data.Drain(int(frameLen))"} {
				if !strings.Contains(b, want) {
					unknown("dubbo decodeFrame", want)
				}
			}
		}
	}

	// 7. tars Decode: stream type scan confined to the frame
	{
		fset, f, err := ParseGoFile(repo, "pkg/protocol/xprotocol/tars/protocol.go")
		if err != nil {
			return "", err
		}
		v := false
		if fd := FindFunc(f, "tarsProtocol", "Decode"); fd != nil {
			b := src(fset, fd.Body)
			if strings.Contains(b, "frameLen, status := tarsprotocol.TarsRequest(data.Bytes())") && strings.Contains(b, "getStreamType(data.Bytes()[:frameLen])") && strings.Contains(b, "if status == tarsprotocol.PACKAGE_FULL {") {
				v = true
			} else if !strings.Contains(b, "getStreamType(data.Bytes())") {
				unknown("tars Decode", "getStreamType")
			}
		}
		sw["tars_stype_in_frame"] = v
	}

	// 8. tars getStreamType: which Jce types of tag 5 mean response / request
	{
		fset, f, err := ParseGoFile(repo, "pkg/protocol/xprotocol/tars/protocol.go")
		if err != nil {
			return "", err
		}
		jce := map[string]int{"codec.BYTE": 0, "codec.SHORT": 1, "codec.INT": 2, "codec.LONG": 3, "codec.FLOAT": 4, "codec.DOUBLE": 5, "codec.STRING1": 6, "codec.STRING4": 7,
			"codec.MAP": 8, "codec.LIST": 9, "codec.STRUCT_BEGIN": 10, "codec.STRUCT_END": 11, "codec.ZERO_TAG": 12, "codec.SIMPLE_LIST": 13}
		var resp, req []string
		if fd := FindFunc(f, "", "getStreamType"); fd != nil {
			if !strings.Contains(src(fset, fd.Body), "b.SkipToNoCheck(5, true)") {
				unknown("tars getStreamType", "SkipToNoCheck")
			}
			ast.Inspect(fd.Body, func(nd ast.Node) bool {
				cc, is := nd.(*ast.CaseClause)
				if !is || len(cc.Body) == 0 {
					return true
				}
				ret := src(fset, cc.Body[len(cc.Body)-1])
				for _, e := range cc.List {
					v, known := jce[src(fset, e)]
					if !known {
						unknown("tars getStreamType case", src(fset, e))
						continue
					}
					switch ret {
					case "return CmdTypeResponse, nil":
						resp = append(resp, fmt.Sprint(v))
					case "return CmdTypeRequest, nil":
						req = append(req, fmt.Sprint(v))
					default:
						unknown("tars getStreamType return", ret)
					}
				}
				return true
			})
		} else {
			unknown("tars", "getStreamType missing")
		}
		sort.Strings(resp)
		sort.Strings(req)
		fmt.Fprintf(&b, "From Coq Require Import NArith List.\nDefinition tars_resp_types : list N := [%s]%%N.\nDefinition tars_req_types : list N := [%s]%%N.\n", strings.Join(resp, ";"), strings.Join(req, ";"))
	}

	// 9. protocol/api.go SelectStreamFactoryProtocol: first accepting factory wins, else EAGAIN iff some matcher said EAGAIN,
	//    else FAILED - the shape modelled by Model/Matchers.v select (c07_select_prefix_stable, c07_select_order_independent)
	{
		fset, f, err := ParseGoFile(repo, "pkg/protocol/api.go")
		if err != nil {
			return "", err
		}
		shape := false
		if fd := FindFunc(f, "", "SelectStreamFactoryProtocol"); fd != nil {
			n := len(fd.Body.List)
			loops := 0
			ast.Inspect(fd.Body, func(nd ast.Node) bool {
				if rs, is := nd.(*ast.RangeStmt); is {
					b := src(fset, rs.Body)
					if strings.Contains(b, "err = factory.ProtocolMatch(ctx, prot, peek) if err == nil { return p, nil } if err == EAGAIN { again = true }") {
						loops++
					}
				}
				return true
			})
			tail := ""
			if n >= 2 {
				tail = src(fset, fd.Body.List[n-2]) + " " + src(fset, fd.Body.List[n-1])
			}
			if loops == 2 && tail == `if again { return "", EAGAIN } return "", FAILED` {
				shape = true
			} else {
				unknown("protocol/api.go SelectStreamFactoryProtocol", fmt.Sprintf("loops=%d tail=%s", loops, tail))
			}
		} else {
			unknown("protocol/api.go", "SelectStreamFactoryProtocol missing")
		}
		sw["select_shape_ok"] = shape
	}

	// 10. stream/xprotocol/conn.go Dispatch: after handleError answered a request (connection not closed) the loop continues
	//     in a new stream context (Lib/Seg.v drain, PErrReply case)
	{
		fset, f, err := ParseGoFile(repo, "pkg/stream/xprotocol/conn.go")
		if err != nil {
			return "", err
		}
		v := false
		if fd := FindFunc(f, "streamConn", "Dispatch"); fd != nil {
			b := src(fset, fd.Body)
			guard := false
			switch {
			case strings.Contains(b, "if closed := sc.handleError(streamCtx, frame, err); closed { return } if buf.Len() >= before { sc.ctxManager.Next() return } sc.ctxManager.Next() continue }") &&
				strings.Contains(b, "before := buf.Len() frame, err := sc.protocol.Decode(streamCtx, buf)"):
				v, guard = true, true
			case strings.Contains(b, "if closed := sc.handleError(streamCtx, frame, err); closed { return } sc.ctxManager.Next() continue }"):
				v = true
			case strings.Contains(b, "sc.handleError(streamCtx, frame, err) return }"):
				v = false
			default:
				unknown("conn.go Dispatch", "error branch")
			}
			sw["dispatch_progress_guard"] = guard
			for _, want := range []string{"if buf.Len() == 0 {", "frame, err := sc.protocol.Decode(streamCtx, buf)", "if frame == nil && err == nil {", "sc.handleFrame(streamCtx, xframe)", "sc.ctxManager.Next()"} {
				if !strings.Contains(b, want) {
					unknown("conn.go Dispatch", want)
				}
			}
		} else {
			unknown("conn.go", "Dispatch missing")
		}
		if fd := FindFunc(f, "streamConn", "handleError"); fd != nil {
			b := src(fset, fd.Body)
			if !strings.Contains(b, "xframe.GetStreamType() == api.Request) && sc.serverCallbacks != nil {") || !strings.Contains(b, "OnDecodeError(stream.ctx, err, xframe.GetHeader())") || !strings.Contains(b, "sc.netConn.Close(api.NoFlush, api.LocalClose)") {
				unknown("conn.go handleError", "decision table")
			}
		} else {
			unknown("conn.go", "handleError missing")
		}
		sw["dispatch_continues_after_reply"] = v
	}

	// 11. dubbo-thrift matcher: first byte of the length prefix must be zero (exclusive with the other matchers)
	{
		fset, f, err := ParseGoFile(repo, "pkg/protocol/xprotocol/dubbothrift/matcher.go")
		if err != nil {
			return "", err
		}
		v := false
		if fd := FindFunc(f, "", "thriftMatcher"); fd != nil {
			b := src(fset, fd.Body)
			switch b {
			case "{ if len(data) < MessageLenSize+MagicLen { return api.MatchAgain } if data[0] != 0 { return api.MatchFailed } if bytes.Compare(data[MessageLenSize:MessageLenSize+MagicLen], MagicTag) != 0 { return api.MatchFailed } return api.MatchSuccess }":
				v = true
			case "{ if len(data) < MessageLenSize+MagicLen { return api.MatchAgain } if bytes.Compare(data[MessageLenSize:MessageLenSize+MagicLen], MagicTag) != 0 { return api.MatchFailed } return api.MatchSuccess }":
				v = false
			default:
				unknown("dubbothrift thriftMatcher", b)
			}
		} else {
			unknown("dubbothrift", "thriftMatcher missing")
		}
		sw["thrift_match_first_zero"] = v
	}

	// 12. SetData of bolt / boltv2 / dubbo / dubbo-thrift notices a body buffer rewritten in place; Clone keeps nil rawData
	{
		n := 0
		for _, pk := range []string{"bolt", "boltv2"} {
			fset, f, err := ParseGoFile(repo, "pkg/protocol/xprotocol/"+pk+"/command.go")
			if err != nil {
				return "", err
			}
			for _, recv := range []string{"Request", "Response"} {
				if fd := FindFunc(f, recv, "SetData"); fd != nil {
					b := src(fset, fd.Body)
					if b == "{ if r.Content != data || (r.rawData != nil && contentRewritten(r.rawContent, data)) { r.ContentChanged = true r.Content = data } }" {
						n++
					} else if b != "{ if r.Content != data { r.ContentChanged = true r.Content = data } }" {
						unknown(pk+" "+recv+".SetData", b)
					}
				}
			}
			if fd := FindFunc(f, "", "contentRewritten"); fd != nil {
				if !strings.Contains(src(fset, fd.Body), "return len(b) != len(rawContent) || (len(b) > 0 && &b[0] != &rawContent[0])") {
					unknown(pk+" contentRewritten", "body")
				}
			}
		}
		m := 0
		for _, pk := range []string{"dubbo", "dubbothrift"} {
			fset, f, err := ParseGoFile(repo, "pkg/protocol/xprotocol/"+pk+"/command.go")
			if err != nil {
				return "", err
			}
			if fd := FindFunc(f, "Frame", "SetData"); fd != nil {
				if strings.Contains(src(fset, fd.Body), "if r.content != data || payloadRewritten(r.payload, data) {") {
					m++
				}
			}
			if fd := FindFunc(f, "Frame", "Clone"); fd != nil {
				if strings.Contains(src(fset, fd.Body), "if r.rawData != nil { clone.rawData = make([]byte, len(r.rawData))") {
					m++
				}
			}
		}
		sw["setdata_sees_inplace_rewrite"] = n == 4 && m == 4
	}

	// 13. width of the "string ends inside the block" test of decodeStr; position of the LessLen gate in bolt / boltv2 Decode
	{
		fset, f, err := ParseGoFile(repo, "pkg/protocol/xprotocol/header.go")
		if err != nil {
			return "", err
		}
		if fd := FindFunc(f, "", "decodeStr"); fd != nil {
			b := src(fset, fd.Body)
			switch {
			case strings.Contains(b, "end := index + 4 + int(length) if end > totalLen {") && strings.Contains(b, "return bytes[index+4 : end : end], end, nil"):
				sw["hdr_end_u32"] = false
			case strings.Contains(b, "end := uint32(index) + 4 + length if end > uint32(totalLen) {"):
				sw["hdr_end_u32"] = true
			default:
				sw["hdr_end_u32"] = true
				unknown("xprotocol/header.go decodeStr end test", b)
			}
			if !strings.Contains(b, "if length == math.MaxUint32 { return nil, index + 4, errInvalidLength }") {
				unknown("xprotocol/header.go decodeStr", "invalid length path")
			}
		} else {
			sw["hdr_end_u32"] = true
			unknown("xprotocol/header.go", "decodeStr missing")
		}
		gate := map[string]int{}
		for _, pk := range []string{"bolt", "boltv2"} {
			fset, f, err := ParseGoFile(repo, "pkg/protocol/xprotocol/"+pk+"/protocol.go")
			if err != nil {
				return "", err
			}
			fd := FindFunc(f, pk+"Protocol", "Decode")
			if fd == nil || len(fd.Body.List) == 0 {
				unknown(pk+" Decode", "missing")
				continue
			}
			first := src(fset, fd.Body.List[0])
			switch {
			case strings.HasPrefix(first, "if data.Len() > 0 { code := data.Bytes()[0] if code == "):
				gate[pk] = 0 // version switch first, LessLen afterwards
				if len(fd.Body.List) < 2 || !strings.HasPrefix(src(fset, fd.Body.List[1]), "if data.Len() >= LessLen {") {
					unknown(pk+" Decode", "second statement")
				}
			case first == "if data.Len() < LessLen { return nil, nil }":
				gate[pk] = 1
			default:
				gate[pk] = 2
				unknown(pk+" Decode", first)
			}
		}
		sw["bolt_gate_first"] = !(gate["bolt"] == 0 && gate["boltv2"] == 0)
	}

	// ownership of the pooled frame copies: (1) nothing on a decode path gives a buffer back to the pools (decoder.go and the
	// Decode method of every codec contain no PutIoBuffer / PutBytes call) - the copy belongs to the stream's buffer context
	// from the take on; (2) the buffer contexts of bolt and boltv2 put request.Data and response.Data once each, nil-guarded,
	// and clear the record
	{
		keeps := true
		for _, pk := range []string{"bolt", "boltv2", "dubbo", "dubbothrift", "tars"} {
			for _, file := range []string{"decoder.go", "protocol.go"} {
				fset, f, err := ParseGoFile(repo, "pkg/protocol/xprotocol/"+pk+"/"+file)
				if err != nil {
					return "", err
				}
				for _, d := range f.Decls {
					fd, isFn := d.(*ast.FuncDecl)
					if !isFn || fd.Body == nil || (file == "protocol.go" && fd.Name.Name != "Decode") {
						continue
					}
					ast.Inspect(fd.Body, func(nd ast.Node) bool {
						if ce, isCall := nd.(*ast.CallExpr); isCall {
							if c := src(fset, ce.Fun); c == "buffer.PutIoBuffer" || c == "buffer.PutBytes" || strings.HasSuffix(c, ".PutIoBuffer") || strings.HasSuffix(c, ".Free") {
								keeps = false
							}
						}
						return true
					})
				}
			}
		}
		sw["decode_keeps_frame_copy"] = keeps
		once := true
		for _, pk := range []string{"bolt", "boltv2"} {
			fset, f, err := ParseGoFile(repo, "pkg/protocol/xprotocol/"+pk+"/buffer.go")
			if err != nil {
				return "", err
			}
			fd := FindFunc(f, pk+"BufferCtx", "Reset")
			if fd == nil {
				unknown(pk+" buffer.go", "no Reset")
				once = false
				continue
			}
			puts := map[string]int{}
			ast.Inspect(fd.Body, func(nd ast.Node) bool {
				is, isIf := nd.(*ast.IfStmt)
				if !isIf {
					return true
				}
				c := src(fset, is.Cond)
				for _, what := range []string{"buf.request.Data", "buf.response.Data"} {
					if c == what+" != nil" {
						ast.Inspect(is.Body, func(n2 ast.Node) bool {
							if ce, isCall := n2.(*ast.CallExpr); isCall && src(fset, ce.Fun) == "buffer.PutIoBuffer" && len(ce.Args) == 1 && src(fset, ce.Args[0]) == what {
								puts[what]++
							}
							return true
						})
					}
				}
				return true
			})
			total := 0
			ast.Inspect(fd.Body, func(nd ast.Node) bool {
				if ce, isCall := nd.(*ast.CallExpr); isCall && src(fset, ce.Fun) == "buffer.PutIoBuffer" {
					total++
				}
				return true
			})
			last := ""
			if n := len(fd.Body.List); n > 0 {
				last = src(fset, fd.Body.List[n-1])
			}
			if puts["buf.request.Data"] != 1 || puts["buf.response.Data"] != 1 || total != 2 || last != "*buf = "+pk+"Buffer{}" {
				once = false
				unknown(pk+" buffer.go Reset", fmt.Sprintf("puts=%v total=%d last=%s", puts, total, last))
			}
		}
		sw["ctx_reset_puts_once"] = once
	}

	// lock discipline of the process-wide dubbo service metadata (Find / Contains are on the decode path of ingress_dubbo /
	// egress_dubbo listeners, with peer-supplied path and version): every exit after the acquire releases what was acquired -
	// a deferred unlock, or the matching unlock as the statement right in front of every return (and as the last statement of
	// a function without results)
	{
		fset, f, err := ParseGoFile(repo, "pkg/protocol/xprotocol/dubbo/metadata.go")
		if err != nil {
			return "", err
		}
		all := true
		for _, fn := range []string{"Find", "Contains", "Register", "Clear"} {
			fd := FindFunc(f, "Metadata", fn)
			if fd == nil {
				unknown("dubbo metadata.go", "no method "+fn)
				all = false
				continue
			}
			var acq token.Pos
			unlock, deferred, acquires := "", false, 0
			ast.Inspect(fd.Body, func(nd ast.Node) bool {
				switch x := nd.(type) {
				case *ast.DeferStmt:
					if c := src(fset, x.Call); c == "m.mu.RLocker().Unlock()" || c == "m.mu.RUnlock()" || c == "m.mu.Unlock()" {
						deferred = true
					}
				case *ast.ExprStmt:
					switch src(fset, x.X) {
					case "m.mu.RLocker().Lock()", "m.mu.RLock()":
						acq, unlock = x.Pos(), "m.mu.RLocker().Unlock()"
						acquires++
					case "m.mu.Lock()":
						acq, unlock = x.Pos(), "m.mu.Unlock()"
						acquires++
					}
				}
				return true
			})
			if acquires != 1 {
				unknown("dubbo metadata.go "+fn, fmt.Sprintf("%d lock acquisitions", acquires))
				all = false
				continue
			}
			if deferred {
				continue
			}
			isUnlock := func(st ast.Stmt) bool {
				es, isE := st.(*ast.ExprStmt)
				if !isE {
					return false
				}
				c := src(fset, es.X)
				return c == unlock || (unlock == "m.mu.RLocker().Unlock()" && c == "m.mu.RUnlock()")
			}
			ast.Inspect(fd.Body, func(nd ast.Node) bool {
				blk, isBlk := nd.(*ast.BlockStmt)
				if !isBlk {
					return true
				}
				for i, st := range blk.List {
					if _, isRet := st.(*ast.ReturnStmt); isRet && st.Pos() > acq {
						if i == 0 || !isUnlock(blk.List[i-1]) {
							all = false
						}
					}
				}
				return true
			})
			if fd.Type.Results == nil {
				if n := len(fd.Body.List); n == 0 || !isUnlock(fd.Body.List[n-1]) {
					all = false
				}
			}
		}
		sw["dubbo_meta_unlock_every_exit"] = all
	}

	names := make([]string, 0, len(sw))
	for k := range sw {
		names = append(names, k)
	}
	sort.Strings(names)
	for _, k := range names {
		fmt.Fprintf(&b, "Definition %s : bool := %v.\n", k, sw[k])
	}
	fmt.Fprintf(&b, "Definition CodecSrc_all : list bool * list N * list N := ([%s], tars_resp_types, tars_req_types).\n", strings.Join(names, "; "))
	fmt.Fprintf(&b, "Definition CodecSrc_translator_ok := %v.\n", ok)
	return b.String(), nil
}
