package main

// C08 - malformed input is contained to its own connection ALSO THROUGH SHARED POOL STATE.  The decoders keep the copy of a
// frame in a pooled IoBuffer that the per-stream buffer context gives back when the stream ends; the pools are shared by all
// connections of the process.  After every C08 input (connection A) victim traffic of two other connections is interleaved
// as take-between-the-two-puts:
//
//	A: Decode(input) in its own stream context      (real Decode, real buffer context)
//	B: Decode(valid frame) in its own context       (takes pool buffers; the proxy holds the frame while it waits)
//	A: the stream ends: its buffer context is released (PoolContext(ctxA).Give())
//	C: Decode(valid frame) in its own context       (takes pool buffers)
//	B, C: Encode for forwarding - must be byte for byte what B and C sent
//
// all on one locked OS thread without blocking in between, so that the per-P caches of sync.Pool re-issue the object that
// was put last.  Independent of the re-issue, the reference counts of the pooled frame copies are read (IoBuffer.Count(0)):
// a frame copy whose context is alive must be referenced; a count of 0 there means it was already released and will be
// released a second time when the context is reset.

import (
	"bytes"
	"context"
	"fmt"
	"reflect"
	"runtime"

	"mosn.io/api"
	"mosn.io/pkg/buffer"
	"mosn.io/pkg/variable"

	. "vh/vhlib"
)

func streamCtx() context.Context {
	return buffer.NewBufferPoolContext(variable.NewVariableContext(context.Background()))
}

// frameCopy: the pooled buffer that holds the copy of a decoded frame (bolt, boltv2: exported field Data), nil if none
func frameCopy(f interface{}) (b api.IoBuffer) {
	defer func() {
		if recover() != nil {
			b = nil
		}
	}()
	v := reflect.ValueOf(f)
	if v.Kind() != reflect.Ptr || v.IsNil() || v.Elem().Kind() != reflect.Struct {
		return nil
	}
	fv := v.Elem().FieldByName("Data")
	if !fv.IsValid() || !fv.CanInterface() || fv.IsNil() {
		return nil
	}
	b, _ = fv.Interface().(api.IoBuffer)
	return b
}

func ctxDecode(p api.XProtocol, ctx context.Context, in []byte) (f interface{}, err error, pan interface{}) {
	defer func() {
		if r := recover(); r != nil {
			pan = r
		}
	}()
	f, err = p.Decode(ctx, buffer.NewIoBufferBytes(append(make([]byte, 0, len(in)+16), in...)))
	return
}

func ctxEncode(p api.XProtocol, ctx context.Context, f interface{}) (out []byte, err error, pan interface{}) {
	defer func() {
		if r := recover(); r != nil {
			pan = r
		}
	}()
	b, e := p.Encode(ctx, f)
	if e != nil {
		return nil, e, nil
	}
	return append([]byte{}, b.Bytes()...), nil, nil
}

type victimFinding struct {
	Sig, What string
	Detail    map[string]interface{}
}

// sameForwarded: what the victim sent, forwarded unchanged (tars: the same packet; it is re-serialised by TarsGo)
func sameForwarded(codec string, sent, out []byte) bool {
	if codec == "tars" {
		return tarsSamePacket(sent, out)
	}
	return bytes.Equal(sent, out)
}

// victimRound: one interleaving; vb, vc are valid frames of the victims
func victimRound(cd *codecDef, in, vb, vc []byte) (fs []victimFinding) {
	runtime.LockOSThread()
	defer runtime.UnlockOSThread()
	p := cd.Proto
	add := func(sig, what string, d map[string]interface{}) { fs = append(fs, victimFinding{sig, what, d}) }

	ctxA := streamCtx()
	fA, errA, panA := ctxDecode(p, ctxA, in)
	outcome := fmt.Sprintf("frame=%v err=%v panic=%v", fA != nil, errA != nil, panA != nil)
	if dA := frameCopy(fA); dA != nil {
		if c := dA.Count(0); c <= 0 {
			add("buffer-released-twice", fmt.Sprintf("%s Decode (%s) returned a frame whose pooled copy was already released (reference count %d) while the stream's buffer context still refers to it: the context releases it a second time when the stream ends", cd.Name, outcome, c),
				map[string]interface{}{"where": "after Decode of the input", "refcount": c})
		}
	}
	ctxB := streamCtx()
	fB, errB, panB := ctxDecode(p, ctxB, vb)
	if fB == nil || errB != nil || panB != nil {
		add("malformed-input-corrupts-other-connection", fmt.Sprintf("%s: after Decode of the input (%s) on connection A, a valid frame of connection B is not decoded: err=%v panic=%v", cd.Name, outcome, errB, panB), nil)
		buffer.PoolContext(ctxA).Give()
		return
	}
	idB := fB.(api.XFrame).GetRequestId()
	dB := frameCopy(fB)
	sameObj := dB != nil && frameCopy(fA) != nil && reflect.ValueOf(dB).Pointer() == reflect.ValueOf(frameCopy(fA)).Pointer()

	buffer.PoolContext(ctxA).Give() // the stream of the input is finished
	if dB != nil {
		if c := dB.Count(0); c <= 0 {
			add("buffer-released-twice", fmt.Sprintf("%s: when the stream of the input (%s) ended, the frame copy of ANOTHER connection's request lost its reference (count %d): the buffer was released a second time after it had been taken again", cd.Name, outcome, c),
				map[string]interface{}{"where": "after the release of the input's stream context", "refcount": c, "victim_got_the_same_buffer_object": sameObj})
		}
	}
	ctxC := streamCtx()
	fC, errC, panC := ctxDecode(p, ctxC, vc)
	if fC == nil || errC != nil || panC != nil {
		add("malformed-input-corrupts-other-connection", fmt.Sprintf("%s: after the input (%s) on connection A, a valid frame of connection C is not decoded: err=%v panic=%v", cd.Name, outcome, errC, panC), nil)
		buffer.PoolContext(ctxB).Give()
		return
	}
	idC := fC.(api.XFrame).GetRequestId()
	// forward B, then C
	fB.(api.XFrame).SetRequestId(idB)
	outB, eB, pB := ctxEncode(p, ctxB, fB)
	fC.(api.XFrame).SetRequestId(idC)
	outC, eC, pC := ctxEncode(p, ctxC, fC)
	for _, v := range []struct {
		who       string
		sent, out []byte
		e         error
		pn        interface{}
	}{{"B", vb, outB, eB, pB}, {"C", vc, outC, eC, pC}} {
		if v.e != nil || v.pn != nil || !sameForwarded(cd.Name, v.sent, v.out) {
			other := vc
			if v.who == "C" {
				other = vb
			}
			carries := len(v.out) >= 24 && len(other) >= 24 && bytes.Contains(other, v.out[len(v.out)-12:])
			add("malformed-input-corrupts-other-connection",
				fmt.Sprintf("%s: connection A decoded the input (%s) and its stream ended; the request that connection %s sent meanwhile is forwarded with other bytes than it sent (%d bytes instead of %d, err=%v panic=%v, tail taken from the other victim's frame: %v)", cd.Name, outcome, v.who, len(v.out), len(v.sent), v.e, v.pn, carries),
				map[string]interface{}{"victim": v.who, "sent_hex": Hex(clip(v.sent, 512)), "forwarded_hex": Hex(clip(v.out, 512)), "carries_other_victims_bytes": carries})
			break
		}
	}
	buffer.PoolContext(ctxB).Give()
	buffer.PoolContext(ctxC).Give()
	if len(fs) > 0 {
		// the pool holds a buffer that is referenced twice: take the cached objects out so that later cases start clean
		for i := 0; i < 256; i++ {
			buffer.GetIoBuffer(1)
		}
	}
	return
}

// poolPremises: the semantics of the IoBuffer pool that Model/BufOwn.v is written with, observed on the real library
// (mosn.io/pkg/buffer): a taken buffer has reference count 1; PutIoBuffer brings it to 0 and the object can be re-issued;
// a second put without a taker in between is refused as a duplicate (count -1); a put after another taker got the object
// is NOT refused and empties the buffer that taker is using.
func poolPremises(run *Run) {
	runtime.LockOSThread()
	defer runtime.UnlockOSThread()
	id := func(b api.IoBuffer) uintptr { return reflect.ValueOf(b).Pointer() }
	for i := 0; i < run.N(20, 200); i++ {
		n := 16 + run.R.Intn(3000)
		run.Count(fmt.Sprintf("premise|pool|%d", i), true, "premise:iobuffer-pool")
		bad := func(what string, d map[string]interface{}) {
			run.Fail("premise:iobuffer-pool-semantics", "the IoBuffer pool of mosn.io/pkg/buffer does not behave as Model/BufOwn.v assumes: "+what, d)
		}
		x := buffer.GetIoBuffer(n)
		x.Write(bytes.Repeat([]byte{0x41}, n))
		if c := x.Count(0); c != 1 {
			bad("a taken buffer has reference count 1", map[string]interface{}{"count": c})
			continue
		}
		if err := buffer.PutIoBuffer(x); err != nil || x.Count(0) != 0 || x.Len() != 0 {
			bad("PutIoBuffer of the only reference gives the buffer back (count 0, emptied)", map[string]interface{}{"err": fmt.Sprint(err), "count": x.Count(0), "len": x.Len()})
			continue
		}
		if i%2 == 0 {
			// immediate duplicate: refused
			if err := buffer.PutIoBuffer(x); err == nil || x.Count(0) != -1 {
				bad("a second put without a taker in between is refused", map[string]interface{}{"err": fmt.Sprint(err), "count": x.Count(0)})
			}
			x.Count(1) // back to 0; the object stays in the pool once
			for k := 0; k < 8; k++ {
				buffer.GetIoBuffer(1) // take it out for good
			}
			continue
		}
		y := buffer.GetIoBuffer(n)
		if id(y) != id(x) {
			continue // another P's cache: nothing to observe in this round
		}
		y.Write(bytes.Repeat([]byte{0x42}, n))
		if c := y.Count(0); c != 1 {
			bad("a re-issued buffer has reference count 1", map[string]interface{}{"count": c})
		}
		// the stale holder puts again: not refused, the taker's buffer is emptied
		if err := buffer.PutIoBuffer(x); err != nil || y.Count(0) != 0 || y.Len() != 0 {
			bad("a put by a stale holder after a re-issue is accepted and frees the taker's buffer", map[string]interface{}{"err": fmt.Sprint(err), "count": y.Count(0), "len": y.Len()})
		}
		for k := 0; k < 8; k++ {
			buffer.GetIoBuffer(1)
		}
	}
}
