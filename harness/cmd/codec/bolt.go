package main

// bolt / boltv2: structured frame generator, observation of the real decoder, Coq printers.

import (
	"fmt"
	"strings"

	"mosn.io/api"
	"mosn.io/mosn/pkg/protocol/xprotocol/bolt"
	"mosn.io/mosn/pkg/protocol/xprotocol/boltv2"
	"mosn.io/pkg/header"

	. "vh/vhlib"
)

type boltFrame struct {
	V2      bool      `json:"v2"`
	Kind    byte      `json:"kind"` // 0 response 1 request 2 oneway
	First   byte      `json:"first"`
	Ver1    byte      `json:"ver1"`
	CmdCode uint16    `json:"cmdcode"`
	Ver2    byte      `json:"ver2"`
	ReqID   uint32    `json:"reqid"`
	Codec   byte      `json:"codec"`
	Switch  byte      `json:"switch"`
	Tail    uint32    `json:"tail"` // timeout (request) / status (response)
	Class   []byte    `json:"-"`
	KVs     [][2]string `json:"-"`
	Hdr     []byte    `json:"-"` // raw header block (normally the encoding of KVs)
	Content []byte    `json:"-"`
	Lens    [3]int    `json:"lens"` // class, header, content length (for reports)
}

func encKVs(kvs [][2]string) []byte {
	var o []byte
	for _, p := range kvs {
		o = append(o, kv(p[0], p[1])...)
	}
	return o
}

// offsets of the three length fields
func (f *boltFrame) lenOff() (cl, hl, ctl, hdrLen int) {
	d := 0
	if f.V2 {
		d = 2
	}
	if f.Kind == 0 {
		return 12 + d, 14 + d, 16 + d, 20 + d
	}
	return 14 + d, 16 + d, 18 + d, 22 + d
}

func (f *boltFrame) bytes() []byte {
	var b []byte
	b = append(b, f.First)
	if f.V2 {
		b = append(b, f.Ver1)
	}
	b = append(b, f.Kind)
	b = append(b, be16(f.CmdCode)...)
	b = append(b, f.Ver2)
	b = append(b, be32(f.ReqID)...)
	b = append(b, f.Codec)
	if f.V2 {
		b = append(b, f.Switch)
	}
	if f.Kind == 0 {
		b = append(b, be16(uint16(f.Tail))...)
	} else {
		b = append(b, be32(f.Tail)...)
	}
	b = append(b, be16(uint16(len(f.Class)))...)
	b = append(b, be16(uint16(len(f.Hdr)))...)
	b = append(b, be32(uint32(len(f.Content)))...)
	b = append(b, f.Class...)
	b = append(b, f.Hdr...)
	b = append(b, f.Content...)
	return b
}

var lenClasses = []int{0, 1, 2, 3, 4, 5, 7, 8, 254, 255, 256, 257}

func pickLen(r *Rng, big bool) int {
	switch r.Intn(10) {
	case 0, 1, 2, 3:
		return r.Pick(lenClasses)
	case 4:
		if big {
			return r.Pick([]int{65534, 65535})
		}
		return r.Intn(300)
	default:
		return r.Intn(40)
	}
}

func randName(r *Rng, n int) string {
	const al = "abcdefghijklmnopqrstuvwxyz._-ABC019"
	b := make([]byte, n)
	if n > 512 {
		// long strings: a few runs (printed run-length compressed in the Coq shards)
		copy(b, runBytes(r, n, true))
		return string(b)
	}
	for i := range b {
		b[i] = al[r.Intn(len(al))]
	}
	return string(b)
}

// runBytes: n bytes made of a few constant runs separated by short random pieces
func runBytes(r *Rng, n int, printable bool) []byte {
	b := make([]byte, 0, n)
	for len(b) < n {
		v := byte(r.U64())
		if printable {
			v = byte('a' + r.Intn(26))
		}
		l := 16 + r.Intn(n/3+1)
		for i := 0; i < l && len(b) < n; i++ {
			b = append(b, v)
		}
		for i := 0; i < r.Intn(4) && len(b) < n; i++ {
			if printable {
				b = append(b, byte('0'+r.Intn(10)))
			} else {
				b = append(b, byte(r.U64()))
			}
		}
	}
	return b
}

// genBoltFrame: a well-formed frame; `big` allows class/header near 65535 and content over 65536.
func genBoltFrame(r *Rng, v2 bool, big bool) *boltFrame {
	f := &boltFrame{V2: v2, Kind: byte(r.Intn(3)), First: 1, Ver1: 1, Ver2: 1, Codec: 1}
	if v2 {
		f.First = 2
		f.Ver1 = byte(r.Pick([]int{1, 1, 1, 2, 0, 255}))
		f.Switch = byte(r.Pick([]int{0, 0, 1, 255}))
	}
	f.CmdCode = uint16(r.Pick([]int{1, 1, 1, 2, 0, 0, 100, 65535, r.Intn(65536)}))
	if f.Kind == 0 && f.CmdCode == 1 {
		f.CmdCode = 2
	}
	f.Ver2 = byte(r.Pick([]int{1, 1, 0, 255, r.Intn(256)}))
	f.ReqID = uint32(r.U64())
	if r.Pct(20) {
		f.ReqID = uint32(r.Pick([]int{0, 1, 255, 256, 65535, 65536, 0x7fffffff, 0xffffffff}))
	}
	f.Codec = byte(r.Pick([]int{1, 1, 0, 11, 12, 255}))
	f.Tail = uint32(r.U64())
	if r.Pct(50) {
		f.Tail = uint32(r.Pick([]int{0, 1, 3000, 0x7fffffff, 0xffffffff, 0x80000000}))
	}
	if f.Kind == 0 {
		f.Tail &= 0xffff
	}
	f.Class = []byte(randName(r, pickLen(r, big)))
	// header pairs
	npairs := r.Pick([]int{0, 0, 1, 2, 3, 5, 8, 40})
	budget := 65535
	if !big {
		budget = 4000
	}
	for i := 0; i < npairs; i++ {
		kl, vl := pickLen(r, false), pickLen(r, false)
		if big && i == 0 && r.Pct(25) {
			vl = r.Pick([]int{65535 - 8 - kl, 65534 - 8 - kl, 60000})
		}
		if 8+kl+vl > budget {
			break
		}
		budget -= 8 + kl + vl
		f.KVs = append(f.KVs, [2]string{randName(r, kl), randName(r, vl)})
	}
	f.Hdr = encKVs(f.KVs)
	cl := pickLen(r, false)
	if big && r.Pct(30) {
		cl = r.Pick([]int{65535, 65536, 65537, 70000})
	}
	if cl > 1024 {
		f.Content = runBytes(r, cl, false)
	} else {
		f.Content = r.Bytes(cl)
	}
	f.Lens = [3]int{len(f.Class), len(f.Hdr), len(f.Content)}
	return f
}

// ---- observation ---------------------------------------------------------------------------------

type decObs struct {
	Kind     string // needmore | err | panic | frame | errframe | hang
	Consumed int
	Sum      string // Coq term of the frame summary (fsum); also the canonical comparison key
	Panic    string
	ReqType  bool // two-way request (GetStreamType()==Request)
}

func (o decObs) key() string { return fmt.Sprintf("%s/%d/%s", o.Kind, o.Consumed, o.Sum) }

func coqKVs(kvs []header.BytesKV, rp *relPrinter) string {
	var it []string
	for _, p := range kvs {
		it = append(it, "("+rp.B(p.Key)+", "+rp.B(p.Value)+")")
	}
	if len(it) == 0 {
		return "(@nil (list N * list N))"
	}
	return "[" + strings.Join(it, "; ") + "]"
}

func ioBytes(b api.IoBuffer) []byte {
	if b == nil {
		return nil
	}
	return b.Bytes()
}

func coqNums(v ...uint64) string {
	var it []string
	for _, x := range v {
		it = append(it, fmt.Sprintf("%d", x))
	}
	return "[" + strings.Join(it, ";") + "]%N"
}

// boltSum: the fsum term of Model/BoltCheck.v for a decoded command
func boltSum(f interface{}, rp *relPrinter) (string, bool) {
	switch x := f.(type) {
	case *bolt.Request:
		h := x.RequestHeader
		return fmt.Sprintf("(%s, %s, %s, %s)", coqNums(0, 0, uint64(h.Protocol), uint64(h.CmdType), uint64(h.CmdCode), uint64(h.Version), uint64(h.RequestId), uint64(h.Codec), uint64(uint32(h.Timeout)), 0, 0, uint64(h.ClassLen), uint64(h.HeaderLen), uint64(h.ContentLen)),
			rp.B([]byte(h.Class)), coqKVs(h.Kvs, rp), rp.B(ioBytes(x.Content))), true
	case *bolt.Response:
		h := x.ResponseHeader
		return fmt.Sprintf("(%s, %s, %s, %s)", coqNums(0, 1, uint64(h.Protocol), uint64(h.CmdType), uint64(h.CmdCode), uint64(h.Version), uint64(h.RequestId), uint64(h.Codec), uint64(h.ResponseStatus), 0, 0, uint64(h.ClassLen), uint64(h.HeaderLen), uint64(h.ContentLen)),
			rp.B([]byte(h.Class)), coqKVs(h.Kvs, rp), rp.B(ioBytes(x.Content))), true
	case *boltv2.Request:
		h := x.RequestHeader.RequestHeader
		return fmt.Sprintf("(%s, %s, %s, %s)", coqNums(1, 0, uint64(h.Protocol), uint64(h.CmdType), uint64(h.CmdCode), uint64(h.Version), uint64(h.RequestId), uint64(h.Codec), uint64(uint32(h.Timeout)), uint64(x.Version1), uint64(x.SwitchCode), uint64(h.ClassLen), uint64(h.HeaderLen), uint64(h.ContentLen)),
			rp.B([]byte(h.Class)), coqKVs(h.Kvs, rp), rp.B(ioBytes(x.Content))), true
	case *boltv2.Response:
		h := x.ResponseHeader.ResponseHeader
		return fmt.Sprintf("(%s, %s, %s, %s)", coqNums(1, 1, uint64(h.Protocol), uint64(h.CmdType), uint64(h.CmdCode), uint64(h.Version), uint64(h.RequestId), uint64(h.Codec), uint64(h.ResponseStatus), uint64(x.Version1), uint64(x.SwitchCode), uint64(h.ClassLen), uint64(h.HeaderLen), uint64(h.ContentLen)),
			rp.B([]byte(h.Class)), coqKVs(h.Kvs, rp), rp.B(ioBytes(x.Content))), true
	}
	return "", false
}

func (o decObs) coqDobs() string {
	switch o.Kind {
	case "needmore":
		return "ObNeedMore"
	case "err":
		return "ObErr"
	case "panic", "hang":
		return "ObPanic"
	case "frame":
		return fmt.Sprintf("(ObFrame false %d %s)", o.Consumed, o.Sum)
	case "errframe":
		return fmt.Sprintf("(ObFrame true %d %s)", o.Consumed, o.Sum)
	}
	return "ObPanic"
}

const boltShardHeader = "From MV Require Import Lib.Bytes Lib.Dec Model.HeaderKV Model.Bolt Model.BoltCheck.\nFrom Coq Require Import List NArith.\nImport ListNotations.\nOpen Scope N_scope.\n"
