package main

// C08 - "the process and all other connections keep serving", the LIVENESS side for process-wide state the decoders touch.
// Package-level state with a lock on the decode paths of the five codecs (grep sync.*Mutex / sync.Map over pkg/protocol):
// only dubbo's DubboPubMetadata / DubboSubMetadata (RWMutex; Find is called with the PEER-SUPPLIED service path and version
// when the listener is ingress_dubbo / egress_dubbo).  The other shared structures are sync.Pools (covered by victim.go) and
// maps written only in init() (matchers, mappings).
//
// After every distinct dubbo input: Decode in a listener context (ingress / egress alternating) with populated registries,
// then a registry WRITE (what the next pub/sub event does), then valid requests of two other connections are decoded in
// listener contexts - each step under a watchdog (verdict by completion, 5 s, one re-run before reporting).
// For every codec the victim interleaving of victim.go runs under the same watchdog.

import (
	"context"
	"fmt"
	"time"

	hessian "github.com/apache/dubbo-go-hessian2"
	"mosn.io/api"
	"mosn.io/mosn/pkg/protocol/xprotocol/dubbo"
	"mosn.io/mosn/pkg/types"
	"mosn.io/pkg/variable"

	. "vh/vhlib"
)

var liveCap = 5 * time.Second // lowered after the first wedge of a run (it is proven by then; keeps a broken tree's run short)

func within(d time.Duration, f func()) (done bool, pan interface{}) {
	ch := make(chan interface{}, 1)
	go func() {
		defer func() { ch <- recover() }()
		f()
	}()
	select {
	case p := <-ch:
		return true, p
	case <-time.After(d):
		return false, nil
	}
}

// dubboOdd: genDubbo adds the odd well-formed requests to its extra cases (set by C08 only: they cost 30 hessian encodings)
var dubboOdd bool

// registered service paths: one node / two versions / several versions and groups
var dubboRegPaths = []string{"com.reg.One", "com.reg.Two", "com.reg.Many"}

func dubboPopulate() {
	dubbo.DubboPubMetadata, dubbo.DubboSubMetadata = &dubbo.Metadata{}, &dubbo.Metadata{}
	for _, m := range []*dubbo.Metadata{dubbo.DubboPubMetadata, dubbo.DubboSubMetadata} {
		m.Register("com.reg.One", &dubbo.Node{Service: "com.reg.One", Version: "1.0.0", Group: "g"})
		m.Register("com.reg.Two", &dubbo.Node{Service: "com.reg.Two", Version: "1.0.0", Group: "g"})
		m.Register("com.reg.Two", &dubbo.Node{Service: "com.reg.Two", Version: "2.0.0", Group: "g"})
		for _, v := range []string{"1.0.0", "2.0.0", "", "3.0.0"} {
			for _, g := range []string{"g", "h"} {
				m.Register("com.reg.Many", &dubbo.Node{Service: "com.reg.Many", Version: v, Group: g})
			}
		}
	}
}

// dubboFullReq: a complete request body: framework version, path, version (nil = hessian null), method, parameter types,
// arguments, attachments
func dubboFullReq(path string, sver interface{}, attach map[interface{}]interface{}) []byte {
	e := hessian.NewEncoder()
	for _, v := range []interface{}{"2.0.2", path, sver, "sayHello", "Ljava/lang/String;", "arg"} {
		e.Encode(v)
	}
	e.Encode(attach)
	return e.Buffer()
}

// dubboOddRequests: well-formed requests with null / empty / huge / unknown version, registered and unknown paths, group
// attachments present / absent / not strings
func dubboOddRequests(r *Rng, id uint64) map[string][]byte {
	ex := map[string][]byte{}
	vers := map[string]interface{}{"null": nil, "empty": "", "known": "1.0.0", "unknown": "9.9.9", "huge": string(runBytes(r, 70000, true)), "int": int32(7)}
	for _, p := range append([]string{"com.unknown." + randName(r, 4), ""}, dubboRegPaths...) {
		for vn, v := range vers {
			if vn == "huge" && !r.Pct(20) {
				continue
			}
			att := map[interface{}]interface{}{"interface": p, "group": r.PickS([]string{"g", "h", "", "zz"}), "path": p}
			switch r.Intn(5) {
			case 0:
				att = map[interface{}]interface{}{}
			case 1:
				att = map[interface{}]interface{}{"interface": int32(1), "group": nil}
			}
			ex[fmt.Sprintf("dubbo:odd-request:path=%s:version=%s", p, vn)] = dubboFrame(0xc2, 0, id, dubboFullReq(p, v, att))
		}
	}
	return ex
}

func listenerCtx(name string) context.Context {
	ctx := variable.NewVariableContext(context.Background())
	_ = variable.Set(ctx, types.VariableListenerName, name)
	return ctx
}

type liveState struct {
	n       int
	victims [][]byte
}

// dubboLiveness: see the head of the file
func (c *c08ctx) dubboLiveness(in []byte, kind, cls string, rep map[string]interface{}) {
	run := c.run
	ls := c.live
	if ls == nil {
		ls = &liveState{}
		c.live = ls
		dubboPopulate()
		for i, p := range dubboRegPaths {
			ls.victims = append(ls.victims, dubboFrame(0xc2, 0, uint64(1000+i), dubboFullReq(p, "1.0.0", map[interface{}]interface{}{"interface": p, "group": "g"})))
		}
	}
	ls.n++
	lname, reg := dubbo.IngressDubbo, dubbo.DubboPubMetadata
	if ls.n%2 == 0 {
		lname, reg = dubbo.EgressDubbo, dubbo.DubboSubMetadata
	}
	rp := map[string]interface{}{"listener": lname, "registries": "com.reg.One: 1 node; com.reg.Two: versions 1.0.0, 2.0.0; com.reg.Many: 4 versions x 2 groups",
		"schedule": "A: Decode(input) in a context of this listener; registry write (Register of an existing node = what a pub/sub event does); B, C: Decode of valid requests for registered paths in listener contexts; every step under a 5 s watchdog, re-run once"}
	for k, v := range rep {
		rp[k] = v
	}
	run.Count(fmt.Sprintf("dubbo|live|%d", ls.n), kind != "valid", "dubbo:liveness:"+lname)
	wedged := func(what string) {
		run.Fail("dubbo:input-wedges-other-connections:metadata-lock", fmt.Sprintf("dubbo (%s listener): after Decode of the input [kind %s] %s - the process-wide service metadata registry stays locked: later pub/sub updates and every later dubbo Decode on these listeners hang", lname, kind, what), rp)
		liveCap = 300 * time.Millisecond
		dubboPopulate() // fresh registries: the old ones can not be used any more
	}
	// A
	done, pan := within(liveCap, func() { ctxDecode(c.cd.Proto, listenerCtx(lname), in) })
	if !done {
		if d2, _ := within(liveCap, func() { ctxDecode(c.cd.Proto, listenerCtx(lname), in) }); !d2 {
			run.Fail("dubbo:decode-hang:listener:"+cls, fmt.Sprintf("dubbo Decode in a %s listener context did not return within %v (twice) on input kind %s", lname, liveCap, kind), rp)
			dubboPopulate()
			return
		}
	}
	if pan != nil {
		rp["panic"] = fmt.Sprint(pan)
		run.Fail("dubbo:decode-panic:listener:"+cls, fmt.Sprintf("dubbo Decode in a %s listener context panicked (%v) on input kind %s", lname, pan, kind), rp)
	}
	// the next pub/sub event
	write := func() { reg.Register("com.reg.Two", &dubbo.Node{Service: "com.reg.Two", Version: "2.0.0", Group: "g"}) }
	if ls.n%50 == 0 {
		write = func() {
			reg.Clear()
			for _, p := range dubboRegPaths {
				for _, v := range []string{"1.0.0", "2.0.0"} {
					reg.Register(p, &dubbo.Node{Service: p, Version: v, Group: "g"})
					if p == "com.reg.One" {
						break
					}
				}
			}
		}
	}
	if done, _ := within(liveCap, write); !done {
		if d2, _ := within(liveCap, write); !d2 {
			wedged(fmt.Sprintf("a registry write (Register / Clear) did not complete within %v (tried twice)", liveCap))
			return
		}
	}
	// two other connections
	for i := 0; i < 2; i++ {
		vb := ls.victims[(ls.n+i)%len(ls.victims)]
		var f interface{}
		var err error
		dec := func() { f, err, _ = ctxDecode(c.cd.Proto, listenerCtx(lname), vb) }
		if done, _ := within(liveCap, dec); !done {
			if d2, _ := within(liveCap, dec); !d2 {
				wedged(fmt.Sprintf("a valid request of another connection was not decoded within %v (tried twice)", liveCap))
				return
			}
		}
		if f == nil || err != nil {
			run.Fail("dubbo:input-corrupts-other-connection:metadata", fmt.Sprintf("dubbo (%s listener): after the input [kind %s] a valid request for a registered path on another connection is not decoded: %v", lname, kind, err), rp)
		} else if svc, _ := f.(api.XFrame).GetHeader().Get("service"); svc == "" {
			run.Fail("dubbo:input-corrupts-other-connection:metadata", fmt.Sprintf("dubbo (%s listener): after the input [kind %s] a valid request for a registered path decodes without its service name", lname, kind), rp)
		}
	}
}
