package main

// The REAL streamConn.Dispatch driven over a fake connection (no sockets): what a decode error leads to on a
// server connection, on a bi-directional connection, and with a codec (an extension point: Go plugins, wasm) that returns
// (request frame, error) WITHOUT draining its input.

import (
	"context"
	"errors"
	"fmt"
	"net"
	"time"

	"mosn.io/api"
	"mosn.io/mosn/pkg/protocol/xprotocol/bolt"
	xstream "mosn.io/mosn/pkg/stream/xprotocol"
	"mosn.io/mosn/pkg/types"
	"mosn.io/pkg/buffer"

	. "vh/vhlib"
)

type fakeConn struct {
	api.Connection // nil: any method not overridden below panics (and shows up as a harness error)
	closed  int
	written int
}

func (c *fakeConn) ID() uint64                                     { return 4242 }
func (c *fakeConn) LocalAddr() net.Addr                            { return &net.TCPAddr{IP: net.IPv4(127, 0, 0, 1), Port: 1} }
func (c *fakeConn) RemoteAddr() net.Addr                           { return &net.TCPAddr{IP: net.IPv4(127, 0, 0, 1), Port: 2} }
func (c *fakeConn) SetTransferEventListener(func() bool)           {}
func (c *fakeConn) Close(api.ConnectionCloseType, api.ConnectionEvent) error {
	c.closed++
	return nil
}
func (c *fakeConn) Write(...buffer.IoBuffer) error { c.written++; return nil }
func (c *fakeConn) Connect() error                 { return nil }
func (c *fakeConn) SetMark(uint32)                 {}
func (c *fakeConn) State() api.ConnState           { return api.ConnActive }

type probeCallbacks struct {
	decodeErrors, received int
	ctxs                   []context.Context // the stream context of every NewStreamDetect call
}

func (p *probeCallbacks) OnGoAway() {}
func (p *probeCallbacks) NewStreamDetect(ctx context.Context, sender types.StreamSender, span api.Span) types.StreamReceiveListener {
	p.ctxs = append(p.ctxs, ctx)
	return p
}
func (p *probeCallbacks) OnReceive(ctx context.Context, headers api.HeaderMap, data buffer.IoBuffer, trailers api.HeaderMap) {
	p.received++
}
func (p *probeCallbacks) OnDecodeError(ctx context.Context, err error, headers api.HeaderMap) {
	p.decodeErrors++
	if p.decodeErrors > 40 {
		panic("vh: Dispatch keeps answering the same undrained frame")
	}
}

// a codec that reports a request frame together with an error and does not drain
type stuckCodec struct{ bolt.XCodec }
type stuckProto struct{ api.XProtocol }

// errors without draining on the first call only, then decodes like bolt
type stuckOnceCodec struct {
	bolt.XCodec
	calls *int
}
type stuckOnceProto struct {
	api.XProtocol
	calls *int
}

func (c *stuckOnceCodec) ProtocolName() api.ProtocolName { return "vh-stuck-once" }
func (c *stuckOnceCodec) NewXProtocol(ctx context.Context) api.XProtocol {
	return stuckOnceProto{c.XCodec.NewXProtocol(ctx), c.calls}
}
func (p stuckOnceProto) Decode(ctx context.Context, data api.IoBuffer) (interface{}, error) {
	*p.calls++
	if *p.calls == 1 {
		return bolt.NewRpcRequest(7, nil, nil), errors.New("vh: undecodable, nothing drained")
	}
	return p.XProtocol.Decode(ctx, data)
}

func (c *stuckCodec) ProtocolName() api.ProtocolName                { return "vh-stuck" }
func (c *stuckCodec) NewXProtocol(ctx context.Context) api.XProtocol { return stuckProto{c.XCodec.NewXProtocol(ctx)} }
func (p stuckProto) Decode(ctx context.Context, data api.IoBuffer) (interface{}, error) {
	return bolt.NewRpcRequest(7, nil, nil), errors.New("vh: undecodable, nothing drained")
}

func dispatchProbe(run *Run) {
	badHdr := boltReq("c", []byte{0, 1}, []byte("xyz")) // two-way request, header block ends inside a length prefix
	good := boltRequestBytes(9, "good", 100, []byte("b"))
	type res struct {
		decodeErrors, received, closed int
		spun, hung                     bool
		pan                            string
	}
	drive := func(codec api.XProtocolCodec, bidi bool, input []byte) (r res) {
		conn := &fakeConn{}
		cb := &probeCallbacks{}
		done := make(chan struct{})
		go func() {
			defer close(done)
			defer func() {
				if rec := recover(); rec != nil {
					r.pan = fmt.Sprint(rec)
					r.spun = r.pan == "vh: Dispatch keeps answering the same undrained frame"
				}
			}()
			f := xstream.NewStreamFactory(codec)
			var sc types.StreamConnection
			if bidi {
				sc = f.CreateBiDirectStream(context.Background(), conn, cb, cb)
			} else {
				sc = f.CreateServerStream(context.Background(), conn, cb)
			}
			sc.Dispatch(buffer.NewIoBufferBytes(append([]byte{}, input...)))
		}()
		select {
		case <-done:
		case <-time.After(3 * time.Second):
			r.hung = true
		}
		r.decodeErrors, r.received, r.closed = cb.decodeErrors, cb.received, conn.closed
		return
	}
	// 1. server connection: error reply, then the next frame is served in the same Dispatch call
	r1 := drive(&bolt.XCodec{}, false, append(append([]byte{}, badHdr...), good...))
	run.Count("dispatch|server", true, "dispatch:server")
	if r1.pan != "" || r1.hung || r1.decodeErrors != 1 || r1.received != 1 || r1.closed != 0 {
		run.Fail("dispatch:server-error-reply", fmt.Sprintf("server connection, [request with undecodable header block][valid request] in one read: OnDecodeError=%d OnReceive=%d Close=%d panic=%q hung=%v (expected 1,1,0)", r1.decodeErrors, r1.received, r1.closed, r1.pan, r1.hung), map[string]interface{}{"input_hex": Hex(append(append([]byte{}, badHdr...), good...))})
	}
	// 2. bi-directional connection (both callbacks set): the request must get its exception reply as well
	r2 := drive(&bolt.XCodec{}, true, badHdr)
	run.Count("dispatch|bidi", true, "dispatch:bidirectional")
	if r2.pan != "" || r2.hung || r2.decodeErrors != 1 || r2.closed != 0 {
		run.Fail("dispatch:bidirectional-connection-closed-instead-of-reply", fmt.Sprintf("bi-directional connection, request with undecodable header block: OnDecodeError=%d Close=%d panic=%q (expected an exception reply, no close)", r2.decodeErrors, r2.closed, r2.pan), map[string]interface{}{"input_hex": Hex(badHdr)})
	}
	// 3. a codec that returns (request, err) without draining: Dispatch must not spin
	r3 := drive(&stuckCodec{}, false, good)
	run.Count("dispatch|stuck", true, "dispatch:undrained-error")
	if r3.spun || r3.hung || r3.decodeErrors > 1 {
		run.Fail("dispatch:spins-on-undrained-error", fmt.Sprintf("a codec returned (request frame, error) without draining: Dispatch answered it %d times in one call (spun=%v hung=%v); the read goroutine would spin forever", r3.decodeErrors, r3.spun, r3.hung), map[string]interface{}{"input_hex": Hex(good)})
	}
	// 4. after an answered error that consumed nothing, the NEXT Dispatch call must not run in the stream context of the
	//    answered stream (its buffers, decoded command and reply state)
	{
		calls := 0
		conn := &fakeConn{}
		cb := &probeCallbacks{}
		same, pan := false, ""
		func() {
			defer func() {
				if rec := recover(); rec != nil {
					pan = fmt.Sprint(rec)
				}
			}()
			sc := xstream.NewStreamFactory(&stuckOnceCodec{calls: &calls}).CreateServerStream(context.Background(), conn, cb)
			buf := buffer.NewIoBufferBytes(append(make([]byte, 0, 256), good...))
			sc.Dispatch(buf) // first Decode: (request, error), nothing drained -> answered, Dispatch returns
			sc.Dispatch(buf) // the read loop calls Dispatch again: the valid frame is decoded now
			if len(cb.ctxs) >= 2 {
				same = cb.ctxs[0] == cb.ctxs[len(cb.ctxs)-1]
			}
		}()
		run.Count("dispatch|ctx", true, "dispatch:context-after-undrained-error")
		if pan != "" || len(cb.ctxs) != 2 || same || cb.decodeErrors != 1 || cb.received != 1 {
			run.Fail("dispatch:stream-context-shared-after-undrained-error", fmt.Sprintf("after an answered decode error that consumed nothing, the next Dispatch decoded the following frame in the SAME stream context as the answered stream (streams=%d same=%v errors=%d received=%d panic=%q)", len(cb.ctxs), same, cb.decodeErrors, cb.received, pan), map[string]interface{}{"input_hex": Hex(good)})
		}
	}
	run.Sum.Extra["dispatch_probe"] = fmt.Sprintf("server: errors=%d received=%d closed=%d; bidirectional: errors=%d closed=%d; undrained-error codec: errors=%d spun=%v", r1.decodeErrors, r1.received, r1.closed, r2.decodeErrors, r2.closed, r3.decodeErrors, r3.spun)
}
