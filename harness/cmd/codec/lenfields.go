package main

// C01 - every length field of an EMITTED frame evaluated on its own, by a field parser that shares nothing with the codecs
// (offsets written out here, not taken from the tree), plus the sizes around the internal scratch / pool buffer boundaries
// and the "emitted bytes stay what they were" check after later pool allocations.

import (
	"bytes"
	"context"
	"encoding/binary"
	"fmt"

	"mosn.io/api"
	"mosn.io/mosn/pkg/protocol"
	"mosn.io/mosn/pkg/protocol/xprotocol/bolt"
	"mosn.io/mosn/pkg/protocol/xprotocol/boltv2"
	"mosn.io/pkg/buffer"

	. "vh/vhlib"
)

type lenFault struct {
	Field string `json:"field"`
	Got   uint64 `json:"got"`
	Want  uint64 `json:"want"`
}

// boltFixed: fixed header length and the offset of classLen, from the first bytes only
func boltFixed(out []byte) (fixed, lenOff int, ok bool) {
	if len(out) < 3 {
		return 0, 0, false
	}
	switch out[0] {
	case 1: // bolt v1: proto type cmdcode(2) ver2 reqid(4) codec [timeout(4) | status(2)] classLen(2) headerLen(2) contentLen(4)
		if out[1] == 0 {
			return 20, 12, true
		}
		return 22, 14, true
	case 2: // boltv2: proto ver1 type cmdcode(2) ver2 reqid(4) codec switch [timeout(4) | status(2)] ...
		if out[2] == 0 {
			return 22, 14, true
		}
		return 24, 16, true
	}
	return 0, 0, false
}

// lenFieldFaults: want (optional, bolt only) = intended class / header block / content lengths
func lenFieldFaults(codec string, out []byte, want *[3]int) (fs []lenFault) {
	n := uint64(len(out))
	chk := func(field string, got, w uint64) {
		if got != w {
			fs = append(fs, lenFault{field, got, w})
		}
	}
	switch codec {
	case "bolt", "boltv2":
		fixed, off, ok := boltFixed(out)
		if !ok || len(out) < fixed {
			return []lenFault{{"fixed-header", n, uint64(fixed)}}
		}
		cl := uint64(binary.BigEndian.Uint16(out[off:]))
		hl := uint64(binary.BigEndian.Uint16(out[off+2:]))
		ctl := uint64(binary.BigEndian.Uint32(out[off+4:]))
		if want != nil {
			chk("classLen", cl, uint64(want[0]))
			chk("headerLen", hl, uint64(want[1]))
			chk("contentLen", ctl, uint64(want[2]))
		}
		chk("classLen+headerLen+contentLen", uint64(fixed)+cl+hl+ctl, n)
		// the header block: 4-byte length prefixed strings that end exactly at headerLen
		if uint64(fixed)+cl+hl <= n {
			blk := out[uint64(fixed)+cl : uint64(fixed)+cl+hl]
			p := uint64(0)
			for p < hl {
				if p+4 > hl {
					break
				}
				p += 4 + uint64(binary.BigEndian.Uint32(blk[p:]))
			}
			chk("headerLen(pairs end)", p, hl)
		}
	case "dubbo":
		if len(out) < 16 {
			return []lenFault{{"fixed-header", n, 16}}
		}
		chk("dataLen", uint64(binary.BigEndian.Uint32(out[12:])), n-16)
	case "dubbo-thrift":
		if len(out) < 25 {
			return []lenFault{{"fixed-header", n, 25}}
		}
		chk("frameLength", uint64(binary.BigEndian.Uint32(out[0:])), n-4)
		chk("messageLength", uint64(binary.BigEndian.Uint32(out[6:])), n-4)
		svc := uint64(binary.BigEndian.Uint32(out[13:]))
		chk("headerLength", uint64(binary.BigEndian.Uint16(out[10:])), 2+4+2+1+4+svc+8)
	case "tars":
		if len(out) < 4 {
			return []lenFault{{"fixed-header", n, 4}}
		}
		chk("packageLength", uint64(binary.BigEndian.Uint32(out[0:])), n)
	}
	return fs
}

// checkEmitted: the finder on one emitted frame
func checkEmitted(run *Run, codec string, out []byte, want *[3]int, rep map[string]interface{}, how string) {
	fs := lenFieldFaults(codec, out, want)
	if len(fs) == 0 {
		return
	}
	rp := map[string]interface{}{}
	for k, v := range rep {
		rp[k] = v
	}
	rp["how"], rp["faults"], rp["emitted_len"], rp["emitted_head_hex"] = how, fs, len(out), Hex(clip(out, 96))
	run.Fail(codec+":reencoded-frame-length-field-inconsistent:"+fs[0].Field,
		fmt.Sprintf("%s: Encode (%s) emitted a %d-byte frame whose length field %s is %d but describes %d bytes", codec, how, len(out), fs[0].Field, fs[0].Got, fs[0].Want), rp)
}

// boundaryTotal: sizes on both sides of the scratch / pool buffer boundaries used inside the encoders
func boundaryTotal(r *Rng) int {
	switch r.Intn(10) {
	case 0, 1:
		return r.Pick([]int{1023, 1024, 1025})
	case 2, 3:
		return 1000 + r.Intn(101)
	case 4:
		return r.Pick([]int{4095, 4096, 4097})
	case 5:
		return 4000 + r.Intn(201)
	case 6:
		return r.Pick([]int{2047, 2048, 2049, 8191, 8192, 8193, 16384, 32769})
	case 7:
		return r.Pick([]int{65535, 65536, 65537})
	case 8:
		return 65000 + r.Intn(1000)
	}
	return 1100 + r.Intn(3000)
}

// boundaryBody: a body such that overhead+len(body) is a boundary total (compressible for the Coq text)
func boundaryBody(r *Rng, overhead int) []byte {
	n := boundaryTotal(r)
	if r.Pct(70) {
		n -= overhead
	}
	if n < 0 {
		n = 0
	}
	return runBytes(r, n, false)
}

// encodeChurn: Encode, then make the pools hand out and overwrite buffers of the neighbouring size classes; the emitted
// buffer must still hold what Encode returned
func encodeChurn(p api.XProtocol, f interface{}) (out []byte, moved bool, err error, pan interface{}) {
	defer func() {
		if r := recover(); r != nil {
			pan = r
		}
	}()
	b, e := p.Encode(context.Background(), f)
	if e != nil {
		return nil, false, e, nil
	}
	out = append([]byte{}, b.Bytes()...)
	var held []buffer.IoBuffer
	var heldB []*[]byte
	for _, sz := range []int{64, 512, 1024, 2048, 4096, len(out), len(out) + 1, 2 * len(out)} {
		for k := 0; k < 3; k++ {
			x := buffer.GetIoBuffer(sz)
			x.Write(bytes.Repeat([]byte{0xEE}, sz))
			held = append(held, x)
			y := buffer.GetBytes(sz)
			for i := range (*y)[:cap(*y)] {
				(*y)[:cap(*y)][i] = 0xDD
			}
			heldB = append(heldB, y)
		}
	}
	moved = !bytes.Equal(out, b.Bytes())
	for _, x := range held {
		buffer.PutIoBuffer(x)
	}
	for _, y := range heldB {
		buffer.PutBytes(y)
	}
	return
}

// c01Local: frames built locally (hijack replies, heartbeat triggers / replies, NewRpcRequest / NewRpcResponse), with and
// without a body / header block that puts the encoded frame around the buffer boundaries: every length field of the emitted
// bytes is the length it describes, the frame decodes completely to the id, and to the body that was set
func c01Local(run *Run, cd *codecDef) {
	r := run.R
	ctx := context.Background()
	for i := 0; i < run.N(6, 60); i++ {
		vf := cd.Gen(r, false)
		reqF, _, err, pan := decodeFresh(cd.Proto, vf.Bytes)
		if reqF == nil || err != nil || pan != nil {
			continue
		}
		req := reqF.(api.XFrame)
		type built struct {
			how string
			f   api.XFrame
		}
		var bs []built
		// heartbeats as the stream layer uses them: Trigger builds the request, Reply answers a received heartbeat request
		func() {
			defer func() { recover() }()
			if x := cd.Proto.Trigger(ctx, r.U64()); x != nil {
				bs = append(bs, built{"heartbeat-trigger", x})
				if o, e, p := safeEncode(cd.Proto, cd.Proto.Trigger(ctx, r.U64())); e == nil && p == nil {
					if hb, _, _, _ := decodeFresh(cd.Proto, o); hb != nil && hb.(api.XFrame).IsHeartbeatFrame() {
						if y := cd.Proto.Reply(ctx, hb.(api.XFrame)); y != nil {
							bs = append(bs, built{"heartbeat-reply", y})
						}
					}
				}
			}
		}()
		func() {
			defer func() { recover() }()
			if !req.IsHeartbeatFrame() {
				return
			}
			if x := cd.Proto.Reply(ctx, req); x != nil {
				bs = append(bs, built{"heartbeat-reply", x})
			}
		}()
		for _, code := range []uint32{uint32(r.Pick([]int{200, 404, 500, 502, 503, 504})), uint32(r.Pick([]int{api.RouterUnavailableCode, api.NoHealthUpstreamCode, api.UpstreamOverFlowCode, api.CodecExceptionCode, api.TimeoutExceptionCode}))} {
			func() {
				defer func() { recover() }()
				if x := cd.Proto.Hijack(ctx, req, cd.Proto.Mapping(code)); x != nil {
					bs = append(bs, built{"hijack", x})
					if y := cd.Proto.Hijack(ctx, req, cd.Proto.Mapping(code)); y != nil {
						bs = append(bs, built{"hijack+setdata", y})
					}
				}
			}()
		}
		switch cd.Name {
		case "bolt", "boltv2":
			hs := map[string]string{}
			for k := r.Intn(4); k > 0; k-- {
				hs["h"+randName(r, r.Intn(8))] = randName(r, r.Intn(40))
			}
			if r.Pct(50) {
				hs["big"] = string(runBytes(r, boundaryTotal(r)%60000, true))
			}
			body := buffer.NewIoBufferBytes(boundaryBody(r, 22))
			bs = append(bs, built{"new-rpc-request", newRpc(cd.Name, true, uint32(r.U64()), hs, body)})
			body2 := buffer.NewIoBufferBytes(boundaryBody(r, 20))
			bs = append(bs, built{"new-rpc-response", newRpc(cd.Name, false, uint32(r.U64()), hs, body2)})
		}
		for _, b := range bs {
			id := r.U64()
			if cd.Name == "tars" {
				id &= 0x7fffffff
			}
			b.f.SetRequestId(id)
			var nb []byte
			if b.how == "hijack+setdata" {
				nb = newBodyFor(r, cd.Name, vf.Bytes)
				if cd.Name == "dubbo" {
					nb = boundaryBody(r, 16) // a response body is opaque
				}
				b.f.SetData(buffer.NewIoBufferBytes(nb))
			}
			rep := map[string]interface{}{"codec": cd.Name, "script": "locally built frame: " + b.how, "request_frame": vf.Desc, "new_body_len": len(nb)}
			run.Count(fmt.Sprintf("%s|local|%d|%s", cd.Name, i, b.how), true, cd.Name+":local:"+b.how)
			out, moved, eerr, epan := encodeChurn(cd.Proto, b.f)
			if epan != nil || eerr != nil {
				run.Fail(cd.Name+":local-frame-encode-failed:"+b.how, fmt.Sprintf("%s: Encode of a locally built frame (%s) failed: err=%v panic=%v", cd.Name, b.how, eerr, epan), rep)
				continue
			}
			if moved {
				run.Fail(cd.Name+":emitted-bytes-change-after-pool-allocation", cd.Name+": the buffer returned by Encode changed when later buffers were taken from the pools and written", rep)
			}
			checkEmitted(run, cd.Name, out, nil, rep, b.how)
			g, _, derr, dpan := decodeFresh(cd.Proto, out)
			switch {
			case g == nil || derr != nil || dpan != nil:
				rep["got_hex"] = Hex(clip(out, 512))
				run.Fail(cd.Name+":local-frame-not-decodable:"+b.how, fmt.Sprintf("%s: the encoded locally built frame (%s) does not decode: err=%v panic=%v", cd.Name, b.how, derr, dpan), rep)
			case uint32(g.(api.XFrame).GetRequestId()) != uint32(id) || (cd.Name != "bolt" && cd.Name != "boltv2" && g.(api.XFrame).GetRequestId() != id):
				run.Fail(cd.Name+":local-frame-id-wrong:"+b.how, cd.Name+": the encoded locally built frame carries another request id", rep)
			case nb != nil && !bytes.Equal(ioBytes(g.(api.XFrame).GetData()), nb):
				run.Fail(cd.Name+":local-frame-body-wrong:"+b.how, cd.Name+": the encoded locally built frame does not carry the body that was set", rep)
			}
		}
	}
}

func newRpc(codec string, request bool, id uint32, hs map[string]string, body api.IoBuffer) api.XFrame {
	h := protocol.CommonHeader(hs)
	switch {
	case codec == "bolt" && request:
		return bolt.NewRpcRequest(id, h, body)
	case codec == "bolt":
		return bolt.NewRpcResponse(id, 0, h, body)
	case request:
		return boltv2.NewRpcRequest(id, h, body)
	}
	return boltv2.NewRpcResponse(id, 0, h, body)
}
