package main

// Running the REAL codecs: one Decode call under recover()/watchdog, and the decode loop of
// streamConn.Dispatch over an accumulating IoBuffer.

import (
	"bytes"
	"context"
	"fmt"
	"runtime"
	"time"

	"mosn.io/api"
	"mosn.io/pkg/buffer"

	. "vh/vhlib"
)

type sumFn func(f interface{}, p *relPrinter) (string, bool)

// relPrinter prints a byte string as a slice `sub b i j` of the case input `b` when it occurs there (the shard binds
// `b` once per case: `let b := ... in ...`); this is only a compression of the printed term.
type relPrinter struct{ in []byte }

func (p *relPrinter) B(x []byte) string {
	if p != nil && len(x) >= 12 {
		if i := bytes.Index(p.in, x); i >= 0 {
			return fmt.Sprintf("(sub b %d %d)", i, i+len(x))
		}
	}
	return CoqBytes(x)
}

func letB(in []byte, body string) string { return "(let b := " + CoqBytes(in) + " in " + body + ")" }

type decRun struct {
	decObs
	Alloc uint64 // bytes allocated during the call (TotalAlloc delta)
	Left  int    // bytes left in the buffer
}

// decodeOnce runs p.Decode on a read buffer holding `in`, whose spare capacity (64 bytes + 1/4) is filled with `fill`.
func decodeOnce(p api.XProtocol, sum sumFn, in []byte, fill byte, measure bool) decRun {
	backing := make([]byte, len(in)+64+len(in)/4)
	copy(backing, in)
	for i := len(in); i < len(backing); i++ {
		backing[i] = fill
	}
	buf := buffer.NewIoBufferBytes(backing[:len(in)])
	done := make(chan decRun, 1)
	go func() {
		var r decRun
		defer func() {
			if rec := recover(); rec != nil {
				r.Kind = "panic"
				r.Panic = fmt.Sprint(rec)
				r.Left = buf.Len()
			}
			done <- r
		}()
		var m0, m1 runtime.MemStats
		if measure {
			runtime.ReadMemStats(&m0)
		}
		f, err := p.Decode(context.Background(), buf)
		if measure {
			runtime.ReadMemStats(&m1)
			r.Alloc = m1.TotalAlloc - m0.TotalAlloc
		}
		r.Left = buf.Len()
		r.Consumed = len(in) - buf.Len()
		switch {
		case f == nil && err == nil:
			r.Kind = "needmore"
		case f == nil:
			r.Kind = "err"
		default:
			s, ok := sum(f, &relPrinter{in})
			if !ok {
				r.Kind = "panic"
				r.Panic = fmt.Sprintf("unexpected frame type %T", f)
				return
			}
			r.Sum = s
			if xf, isX := f.(api.XFrame); isX {
				r.ReqType = xf.GetStreamType() == api.Request
			}
			if err != nil {
				r.Kind = "errframe"
			} else {
				r.Kind = "frame"
			}
		}
	}()
	select {
	case r := <-done:
		return r
	case <-time.After(3 * time.Second):
		return decRun{decObs: decObs{Kind: "hang"}}
	}
}

// streamObs: what a connection produced for a sequence of reads
type streamObs struct {
	Events []string // "F:<sum>" frame, "R:<sum>" error reply for a request, "C" close, "P:<panic>" panic (recovered by the read loop -> close)
	Left   int
	Closed bool
}

func (s streamObs) key() string { return fmt.Sprintf("%v|%d|%v", s.Events, s.Left, s.Closed) }

// decodeLoop: the loop of streamConn.Dispatch around the real Decode, fed chunk by chunk like connection.doRead
// (bytes are appended to one read buffer, Dispatch runs on the whole buffer after every read).
func decodeLoop(p api.XProtocol, sum sumFn, chunks [][]byte) (so streamObs) {
	var whole []byte
	for _, c := range chunks {
		whole = append(whole, c...)
	}
	rp := &relPrinter{whole}
	buf := buffer.NewIoBuffer(16)
	ctx := context.Background()
	// The extracted frames are RETAINED and summarised only after all reads (and one more reuse of the read buffer):
	// the stream layer hands a frame to the proxy, which uses it later (worker pool), while the connection goes on reading
	// into the same read buffer.  A frame that aliases the read buffer shows up as changed content here.
	type ev struct {
		kind byte // 'F' frame, 'R' error reply, 'C' close, 'H' hang
		f    interface{}
	}
	var evs []ev
	for _, c := range chunks {
		if so.Closed {
			break
		}
		// connection.doRead uses IoBuffer.ReadOnce, which RESETS an empty buffer and reads to its start (Write would append
		// behind the drained bytes while capacity lasts)
		if buf.Len() == 0 {
			buf.Reset()
		}
		buf.Write(c)
		func() {
			defer func() {
				if rec := recover(); rec != nil {
					evs = append(evs, ev{kind: 'C'})
					so.Closed = true
				}
			}()
			for iter := 0; ; iter++ {
				if buf.Len() == 0 {
					return
				}
				if iter > 1<<20 {
					evs = append(evs, ev{kind: 'H'})
					so.Closed = true
					return
				}
				f, err := p.Decode(ctx, buf)
				if f == nil && err == nil {
					return
				}
				if err != nil {
					if f != nil {
						if xf, ok := f.(api.XFrame); ok && xf.GetStreamType() == api.Request {
							// handleError answers the request, the connection stays open, Dispatch goes on with the buffer
							evs = append(evs, ev{'R', f})
							continue
						}
					}
					evs = append(evs, ev{kind: 'C'})
					so.Closed = true
					return
				}
				if _, ok := sum(f, rp); !ok {
					evs = append(evs, ev{kind: 'C'})
					so.Closed = true
					return
				}
				evs = append(evs, ev{'F', f})
			}
		}()
	}
	so.Left = buf.Len()
	// the connection reads again into its read buffer (only when nothing is pending: the residue must stay intact)
	if !so.Closed && buf.Len() == 0 {
		junk := make([]byte, 96)
		for i := range junk {
			junk[i] = 0x5a
		}
		buf.Reset()
		buf.Write(junk)
		buf.Drain(len(junk))
	}
	for _, e := range evs {
		switch e.kind {
		case 'C':
			so.Events = append(so.Events, "C")
		case 'H':
			so.Events = append(so.Events, "HANG")
		default:
			s, _ := sum(e.f, rp)
			so.Events = append(so.Events, string(e.kind)+":"+s)
		}
	}
	return
}

// frameAlone: the summary of one frame decoded from a private copy of its bytes (reference for "what was sent"),
// printed relative to the same stream
func frameAlone(p api.XProtocol, sum sumFn, fb []byte, stream []byte) (string, bool) {
	f, err := p.Decode(context.Background(), buffer.NewIoBufferBytes(append([]byte{}, fb...)))
	if f == nil || err != nil {
		return "", false
	}
	s, ok := sum(f, &relPrinter{stream})
	return "F:" + s, ok
}

func (s streamObs) coqEvents() string {
	if len(s.Events) == 0 {
		return "(@nil sobs)"
	}
	o := "["
	for i, e := range s.Events {
		if i > 0 {
			o += "; "
		}
		switch {
		case e == "C" || e == "HANG":
			o += "SClose"
		case e[0] == 'F':
			o += "SFrame " + e[2:]
		case e[0] == 'R':
			o += "SReply " + e[2:]
		}
	}
	return o + "]"
}

// cuts -> chunks
func cutAt(b []byte, cuts []int) [][]byte {
	var out [][]byte
	prev := 0
	for _, c := range cuts {
		if c <= prev || c >= len(b) {
			continue
		}
		out = append(out, b[prev:c])
		prev = c
	}
	return append(out, b[prev:])
}
