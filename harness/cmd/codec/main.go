package main

import . "vh/vhlib"

func main() {
	Main(map[string]CmdFn{
		"gen":   func(a []string) int { return RunGen(gens, a) },
		"probe": probe,
	})
}
