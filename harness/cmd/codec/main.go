package main

import . "vh/vhlib"

func main() {
	Main(map[string]CmdFn{
		"gen":   func(a []string) int { return RunGen(gens, a) },
		"probe": probe,
		"c01":   c01,
		"c07":   c07,
		"c08":   c08,
		"c08child": containChild,
	})
}
