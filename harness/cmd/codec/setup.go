package main

import (
	"context"

	"mosn.io/api"
	"mosn.io/mosn/pkg/protocol/xprotocol"
	"mosn.io/mosn/pkg/protocol/xprotocol/bolt"
	"mosn.io/mosn/pkg/protocol/xprotocol/boltv2"
	"mosn.io/mosn/pkg/protocol/xprotocol/dubbo"
	"mosn.io/mosn/pkg/protocol/xprotocol/dubbothrift"
	"mosn.io/mosn/pkg/protocol/xprotocol/tars"
	xstream "mosn.io/mosn/pkg/stream/xprotocol"
)

var codecs = map[string]api.XProtocolCodec{}

func init() {
	xprotocol.RegisterXProtocolAction(xstream.NewConnPool, xstream.NewStreamFactory, nil)
	for _, c := range []api.XProtocolCodec{&bolt.XCodec{}, &boltv2.XCodec{}, &dubbo.XCodec{}, &dubbothrift.XCodec{}, &tars.XCodec{}} {
		if err := xprotocol.RegisterXProtocolCodec(c); err != nil {
			panic(err)
		}
		codecs[string(c.ProtocolName())] = c
	}
}

func proto(name string) api.XProtocol { return codecs[name].NewXProtocol(context.Background()) }
