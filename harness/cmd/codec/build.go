package main

// Structured frame builders (wire format written here independently of the mosn encoders).

import (
	"encoding/binary"

	"github.com/TarsCloud/TarsGo/tars/protocol/codec"
	"github.com/TarsCloud/TarsGo/tars/protocol/res/requestf"
	hessian "github.com/apache/dubbo-go-hessian2"
)

func be16(v uint16) []byte { b := make([]byte, 2); binary.BigEndian.PutUint16(b, v); return b }
func be32(v uint32) []byte { b := make([]byte, 4); binary.BigEndian.PutUint32(b, v); return b }
func be64(v uint64) []byte { b := make([]byte, 8); binary.BigEndian.PutUint64(b, v); return b }

func cat(parts ...[]byte) []byte {
	var o []byte
	for _, p := range parts {
		o = append(o, p...)
	}
	return o
}

// thriftFrame: len4 | 0xdabc | msglen4 | hdrlen2 | version1 | service string | id i64 | TBinary message begin (strict) | body
func thriftFrame(service string, id uint64, method string, mtype byte, seq uint32, body []byte) []byte {
	hdr := cat([]byte{0xda, 0xbc}, be32(0), be16(0), []byte{1}, be32(uint32(len(service))), []byte(service), be64(id))
	hl := len(hdr)
	msg := cat(hdr, []byte{0x80, 0x01, 0x00, mtype}, be32(uint32(len(method))), []byte(method), be32(seq), body)
	binary.BigEndian.PutUint32(msg[2:], uint32(len(msg)))
	binary.BigEndian.PutUint16(msg[6:], uint16(hl))
	return cat(be32(uint32(len(msg))), msg)
}

// dubboFrame: magic dabb | flag | status | id8 | len4 | payload
func dubboFrame(flag, status byte, id uint64, payload []byte) []byte {
	return cat([]byte{0xda, 0xbb, flag, status}, be64(id), be32(uint32(len(payload))), payload)
}

// dubboReqPayload: hessian2-serialised dubbo version, service path, version, method, then opaque rest
func dubboReqPayload(ver, path, sver, method string, rest []byte) []byte {
	e := hessian.NewEncoder()
	e.Encode(ver)
	e.Encode(path)
	e.Encode(sver)
	e.Encode(method)
	return cat(e.Buffer(), rest)
}

func tarsReq(id int32, servant, fn string, buf []byte, ctx map[string]string) []byte {
	p := &requestf.RequestPacket{IVersion: 1, CPacketType: 0, IMessageType: 0, IRequestId: id, SServantName: servant, SFuncName: fn, ITimeout: 3000, Context: ctx, Status: map[string]string{}}
	p.SBuffer = make([]int8, len(buf))
	for i, b := range buf {
		p.SBuffer[i] = int8(b)
	}
	os := codec.NewBuffer()
	p.WriteTo(os)
	body := os.ToBytes()
	return cat(be32(uint32(len(body)+4)), body)
}

func tarsResp(id int32, ret int32, buf []byte, desc string) []byte {
	p := &requestf.ResponsePacket{IVersion: 1, IRequestId: id, IRet: ret, SResultDesc: desc, Status: map[string]string{}, Context: map[string]string{}}
	p.SBuffer = make([]int8, len(buf))
	for i, b := range buf {
		p.SBuffer[i] = int8(b)
	}
	os := codec.NewBuffer()
	p.WriteTo(os)
	body := os.ToBytes()
	return cat(be32(uint32(len(body)+4)), body)
}
