package main

// C08, second sentence: "a failure affects only that connection (error reply or close) while the process and all other
// connections keep serving".  A REAL MOSN (listeners with the real proxy network filter for bolt, dubbo, tars and Auto,
// scripted upstreams) runs in a CHILD process of the harness; PROBE clients send valid requests continuously on their
// own connections while attacker connections replay the malformed streams of the C08 generators (downstream side) and
// a scripted upstream answers with malformed frames (upstream side).
//   finder: the probes never lose a reply; the process does not exit (child exit status) or dead-lock (watchdog);
//   goroutine count and heap return to a bound after the attackers disconnect; every attacker connection is closed or
//   answered within a deadline exactly as the Dispatch decision table says (close / reply-and-continue / keep waiting).
//   correspondence: per connection (input, closed?, error reply seen?) against the Coq dispatch model.

import (
	"bytes"
	"runtime/pprof"
	"strconv"
	"encoding/binary"
	"encoding/json"
	"fmt"
	"io"
	"net"
	"os"
	"os/exec"
	"path/filepath"
	"runtime"
	"sort"
	"strings"
	"sync"
	"sync/atomic"
	"time"

	"github.com/TarsCloud/TarsGo/tars/protocol/codec"
	"github.com/TarsCloud/TarsGo/tars/protocol/res/requestf"
	v2 "mosn.io/mosn/pkg/config/v2"
	_ "mosn.io/mosn/pkg/filter/network/proxy"
	"mosn.io/mosn/pkg/mosn"
	"mosn.io/mosn/pkg/types"
	_ "mosn.io/mosn/pkg/upstream/cluster"

	. "vh/vhlib"
)

// ---- tiny wire helpers (client side; independent of the mosn codecs) ---------------------------------------------

func boltRequestBytes(id uint32, service string, timeoutMs uint32, body []byte) []byte {
	f := &boltFrame{Kind: 1, First: 1, CmdCode: 1, Ver2: 1, ReqID: id, Codec: 1, Tail: timeoutMs, Class: []byte("c")}
	f.KVs = [][2]string{{"service", service}}
	f.Hdr = encKVs(f.KVs)
	f.Content = body
	return f.bytes()
}

func boltResponseBytes(cmdcode uint16, id uint32, status uint16, body []byte) []byte {
	f := &boltFrame{Kind: 0, First: 1, CmdCode: cmdcode, Ver2: 1, ReqID: id, Codec: 1, Tail: uint32(status), Content: body}
	return f.bytes()
}

// readFrame: one frame of the given protocol from a socket (length framing only). kind: for bolt 0 response / 1,2 request.
func readFrame(c net.Conn, proto string) (raw []byte, err error) {
	rd := func(n int) ([]byte, error) {
		b := make([]byte, n)
		_, e := io.ReadFull(c, b)
		return b, e
	}
	switch proto {
	case "bolt":
		h, e := rd(3)
		if e != nil {
			return nil, e
		}
		d := 0
		typ := h[1]
		if h[0] == 2 {
			d = 2
			typ = h[2]
		}
		hl := 22 + d
		if typ == 0 {
			hl = 20 + d
		}
		rest, e := rd(hl - 3)
		if e != nil {
			return nil, e
		}
		h = append(h, rest...)
		cl := int(binary.BigEndian.Uint16(h[hl-8:]))
		hdl := int(binary.BigEndian.Uint16(h[hl-6:]))
		ctl := int(binary.BigEndian.Uint32(h[hl-4:]))
		if ctl > 1<<24 {
			return nil, fmt.Errorf("absurd content length")
		}
		body, e := rd(cl + hdl + ctl)
		return append(h, body...), e
	case "dubbo":
		h, e := rd(16)
		if e != nil {
			return nil, e
		}
		n := int(binary.BigEndian.Uint32(h[12:]))
		if n > 1<<24 {
			return nil, fmt.Errorf("absurd length")
		}
		body, e := rd(n)
		return append(h, body...), e
	default: // tars
		h, e := rd(4)
		if e != nil {
			return nil, e
		}
		n := int(binary.BigEndian.Uint32(h))
		if n < 4 || n > 1<<24 {
			return nil, fmt.Errorf("absurd length")
		}
		body, e := rd(n - 4)
		return append(h, body...), e
	}
}

func boltID(fr []byte) (typ byte, cmdcode uint16, id uint32, status uint16) {
	d := 0
	if fr[0] == 2 {
		d = 1
	}
	typ = fr[1+d]
	cmdcode = binary.BigEndian.Uint16(fr[2+d:])
	id = binary.BigEndian.Uint32(fr[5+d:])
	if typ == 0 {
		off := 10
		if d == 1 {
			off = 12
		}
		status = binary.BigEndian.Uint16(fr[off:])
	}
	return
}

// ---- scripted upstreams -----------------------------------------------------------------------------------------------

type upstream struct {
	ln    net.Listener
	proto string
	evil  [][]byte // malformed answers (bolt only); nil: answer correctly
	next  int32
	conns sync.Map
	sent  sync.Map // request id -> hex of the malformed answer that was written for it
}

func startUp(proto string, evil [][]byte) *upstream {
	ln, err := net.Listen("tcp", "127.0.0.1:0")
	if err != nil {
		panic(err)
	}
	u := &upstream{ln: ln, proto: proto, evil: evil}
	go func() {
		for {
			c, err := ln.Accept()
			if err != nil {
				return
			}
			u.conns.Store(c, true)
			go u.serve(c)
		}
	}()
	return u
}

func (u *upstream) addr() string { return u.ln.Addr().String() }
func (u *upstream) close() {
	u.ln.Close()
	u.conns.Range(func(k, _ interface{}) bool { k.(net.Conn).Close(); return true })
}

func (u *upstream) serve(c net.Conn) {
	defer c.Close()
	defer u.conns.Delete(c)
	for {
		fr, err := readFrame(c, u.proto)
		if err != nil {
			return
		}
		switch u.proto {
		case "bolt":
			typ, cmdcode, id, _ := boltID(fr)
			if typ == 0 {
				continue
			}
			if cmdcode == 0 { // heartbeat
				c.Write(boltResponseBytes(0, id, 0, nil))
				continue
			}
			if typ == 2 {
				continue // oneway
			}
			if u.evil != nil {
				k := int(atomic.AddInt32(&u.next, 1)-1) % len(u.evil)
				ans := append([]byte{}, u.evil[k]...)
				// put the awaited request id into the answer when it is long enough (some corruptions keep it decodable)
				if len(ans) >= 9 && ans[0] == 1 {
					binary.BigEndian.PutUint32(ans[5:], id)
				}
				u.sent.Store(id, Hex(clip(ans, 600)))
				c.Write(ans)
				continue
			}
			c.Write(boltResponseBytes(2, id, 0, []byte("ok")))
		case "dubbo":
			id := binary.BigEndian.Uint64(fr[4:])
			if fr[2]&0x80 == 0 {
				continue
			}
			flag := byte(2)
			if fr[2]&0x20 != 0 {
				flag |= 0x20
			}
			if fr[2]&0x40 == 0 {
				continue
			}
			c.Write(dubboFrame(flag, 20, id, []byte{0x91, 'o', 'k'}))
		default:
			p := &requestf.RequestPacket{}
			if err := p.ReadFrom(codec.NewReader(fr[4:])); err != nil {
				return
			}
			c.Write(tarsResp(p.IRequestId, 0, []byte("ok"), ""))
		}
	}
}

// ---- child process -------------------------------------------------------------------------------------------------------

type atkInput struct {
	Listener string `json:"listener"` // bolt | dubbo | tars | auto | bolt-evil-upstream
	Kind     string `json:"kind"`
	Bytes    []byte `json:"-"`
	Hex      string `json:"hex"`
	Len      int    `json:"len"`
	// expectation from the Dispatch decision table around the real Decode (offline run on the same bytes)
	WantClosed bool   `json:"want_closed"`
	WantReply  bool   `json:"want_reply"`
	Residue    int    `json:"residue"`
	ReplyID    uint32 `json:"reply_id"`
}

type atkResult struct {
	atkInput
	Closed    bool   `json:"closed"`
	Reply     bool   `json:"reply"`      // an answer for the bad two-way request arrived
	FollowOK  bool   `json:"follow_ok"`  // a valid request sent afterwards on the same connection was answered
	Followed  bool   `json:"followed"`
	Problem   string `json:"problem,omitempty"`
	ElapsedMs int    `json:"elapsed_ms"`
	// evil-upstream cases: what the upstream answered, and (on a hang) where the goroutines of the process wait
	SilentAttempts int    `json:"silent_attempts,omitempty"`
	EvilAnswers    []int  `json:"evil_answers_so_far,omitempty"`
	Dump           string `json:"goroutines,omitempty"`
}

type childReport struct {
	Probes      map[string][2]int `json:"probes"` // proto -> [requests, failures]
	ProbeErrs   []string          `json:"probe_errs"`
	Results     []atkResult       `json:"results"`
	Goroutines  [3]int            `json:"goroutines"` // baseline, after round 1, after round 2
	HeapMB      [3]float64        `json:"heap_mb"`
	Watchdog    string            `json:"watchdog,omitempty"`
	EvilAnswers int               `json:"evil_answers"`
}

func toMapJ(v interface{}) map[string]interface{} {
	m := map[string]interface{}{}
	b, _ := json.Marshal(v)
	json.Unmarshal(b, &m)
	return m
}

// corruptionInputs: the malformed streams of the C08 generators for one codec
func corruptionInputs(r *Rng, cd *codecDef, n int) (out []atkInput) {
	for len(out) < n {
		vf := cd.Gen(r, false)
		b := vf.Bytes
		if len(b) > 3000 {
			continue
		}
		var cands []atkInput
		add := func(kind string, x []byte) { cands = append(cands, atkInput{Kind: kind, Bytes: x}) }
		add("valid", b)
		for _, lf := range vf.Fields {
			truth := getBE(b, lf.Off, lf.Width)
			max := uint64(1)<<(8*uint(lf.Width)) - 1
			for _, v := range []uint64{0, 1, 3, truth - 1, truth + 1, max >> 1, max>>1 + 1, max - 15, max - 1, max} {
				m := append([]byte{}, b...)
				putBE(m, lf.Off, lf.Width, v&max)
				add("len:"+lf.Name, m)
			}
		}
		for k := 0; k < 4 && vf.Fixed > 0; k++ {
			m := append([]byte{}, b...)
			off := r.Intn(vf.Fixed)
			m[off] ^= byte(1 + r.Intn(255))
			add("flip", m)
		}
		for k := 0; k < 3; k++ {
			add("trunc", b[:r.Intn(len(b))])
		}
		add("valid+garbage", append(append([]byte{}, b...), r.Bytes(1+r.Intn(9))...))
		add("two-frames", append(append([]byte{}, b...), cd.Gen(r, false).Bytes...))
		for name, m := range vf.Extra {
			add(name, m)
		}
		rb := r.Bytes(r.Intn(60))
		if cd.RandHead != nil {
			cd.RandHead(r, rb)
		}
		add("random", rb)
		// a sample of the candidates of this frame
		for _, c := range cands {
			if r.Pct(35) && len(c.Bytes) > 0 && len(out) < n {
				out = append(out, c)
			}
		}
	}
	return
}

func containChild(args []string) int {
	run := NewRun("C08child", args)
	r := run.R
	dir := run.Out
	journal, _ := os.Create(filepath.Join(dir, "journal.txt"))
	var jmu sync.Mutex
	logj := func(s string) {
		jmu.Lock()
		fmt.Fprintln(journal, s)
		jmu.Unlock()
	}
	defs := map[string]*codecDef{}
	for _, cd := range codecDefs() {
		defs[cd.Name] = cd
	}
	// evil answers: corrupted bolt RESPONSES
	var evil [][]byte
	for len(evil) < 60 {
		for _, in := range corruptionInputs(r, defs["bolt"], 30) {
			// corrupted responses, and corrupted REQUEST frames sent by the upstream (a request with an undecodable header block
			// on a client-side connection must not be answered through the nil server callbacks)
			if len(in.Bytes) > 2 && in.Bytes[0] == 1 && (in.Bytes[1] == 0 || strings.HasPrefix(in.Kind, "hdrblock")) && in.Kind != "valid" && in.Kind != "two-frames" {
				if os.Getenv("VH_EVIL_CLOSE") != "" {
					// reproduction aid: only answers on which Decode reports an error (the upstream connection is closed at once)
					if k := decodeOnce(defs["bolt"].Proto, defs["bolt"].Sum, in.Bytes, 0, false).Kind; k != "err" && k != "errframe" {
						continue
					}
				}
				evil = append(evil, in.Bytes)
			}
		}
	}
	ups := map[string]*upstream{"bolt": startUp("bolt", nil), "bolt-evil": startUp("bolt", evil), "dubbo": startUp("dubbo", nil), "tars": startUp("tars", nil)}
	defer func() {
		for _, u := range ups {
			u.close()
		}
	}()
	// ---- the MOSN under test
	lis := map[string]string{}
	var listeners []v2.Listener
	var rcs []*v2.RouterConfiguration
	var clusters []v2.Cluster
	cluster := func(name, addr string) {
		clusters = append(clusters, v2.Cluster{Name: name, ClusterType: v2.SIMPLE_CLUSTER, LbType: v2.LB_ROUNDROBIN,
			MaxRequestPerConn: 1 << 20, ConnBufferLimitBytes: 16 * 1024, Hosts: []v2.Host{{HostConfig: v2.HostConfig{Address: addr}}}})
	}
	cluster("c-bolt", ups["bolt"].addr())
	cluster("c-bolt-evil", ups["bolt-evil"].addr())
	cluster("c-dubbo", ups["dubbo"].addr())
	cluster("c-tars", ups["tars"].addr())
	route := func(val, cl string) v2.Router {
		return v2.Router{RouterConfig: v2.RouterConfig{Match: v2.RouterMatch{Headers: []v2.HeaderMatcher{{Name: "service", Value: val, Regex: true}}},
			Route: v2.RouteAction{RouterActionConfig: v2.RouterActionConfig{ClusterName: cl}}}}
	}
	addL := func(name, down, up string, routers []v2.Router) {
		addr := fmt.Sprintf("127.0.0.1:%d", freePortC())
		lis[name] = addr
		rn := "r-" + name
		rcs = append(rcs, &v2.RouterConfiguration{RouterConfigurationConfig: v2.RouterConfigurationConfig{RouterConfigName: rn},
			VirtualHosts: []v2.VirtualHost{{Name: "vh", Domains: []string{"*"}, Routers: routers}}})
		proxy := &v2.Proxy{DownstreamProtocol: down, UpstreamProtocol: up, RouterConfigName: rn}
		listeners = append(listeners, v2.Listener{ListenerConfig: v2.ListenerConfig{Name: "l-" + name, AddrConfig: addr, BindToPort: true, Network: "tcp",
			FilterChains: []v2.FilterChain{{FilterChainConfig: v2.FilterChainConfig{Filters: []v2.Filter{{Type: "proxy", Config: toMapJ(proxy)}}}}}}})
	}
	boltRoutes := []v2.Router{route("evil", "c-bolt-evil"), route(".*", "c-bolt")}
	addL("bolt", "bolt", "bolt", boltRoutes)
	addL("dubbo", "dubbo", "dubbo", []v2.Router{route(".*", "c-dubbo")})
	addL("tars", "tars", "tars", []v2.Router{route(".*", "c-tars")})
	addL("auto", "Auto", "Auto", boltRoutes)
	logPath, logLevel := "/dev/null", "FATAL"
	if os.Getenv("VH_LOG") != "" {
		logPath, logLevel = "stdout", "DEBUG"
	}
	cfg := &v2.MOSNConfig{Servers: []v2.ServerConfig{{DefaultLogPath: logPath, DefaultLogLevel: logLevel, Listeners: listeners, Routers: rcs}},
		ClusterManager: v2.ClusterManagerConfig{Clusters: clusters}}
	cfg.DisableUpgrade = true
	cfg.UDSDir = dir
	mosn.DefaultInitStage(cfg)
	types.MosnBasePath, types.MosnConfigPath, types.MosnUDSPath, types.MosnLogBasePath = dir, dir, dir, dir
	types.MosnLogDefaultPath, types.MosnPidDefaultFileName = dir+"/mosn.log", dir+"/mosn.pid"
	types.ReconfigureDomainSocket, types.TransferConnDomainSocket = dir+"/reconfig.sock", dir+"/conn.sock"
	types.TransferStatsDomainSocket, types.TransferListenDomainSocket = dir+"/stats.sock", dir+"/listen.sock"
	types.TransferMosnconfigDomainSocket = dir + "/mosnconfig.sock"
	m := mosn.NewMosn()
	m.Init(cfg)
	mosn.DefaultPreStartStage(m)
	go m.Start()
	for _, a := range lis {
		ok := false
		for w := 0; w < 300 && !ok; w++ {
			if c, err := net.DialTimeout("tcp", a, 100*time.Millisecond); err == nil {
				c.Close()
				ok = true
			} else {
				time.Sleep(20 * time.Millisecond)
			}
		}
		if !ok {
			fmt.Println("in-process MOSN did not start listening on", a)
			return 2
		}
	}

	rep := &childReport{Probes: map[string][2]int{}}
	var rmu sync.Mutex
	// ---- probes
	stop := make(chan struct{})
	var pwg sync.WaitGroup
	probe := func(name, listener, proto string) {
		defer pwg.Done()
		fail := func(s string) {
			rmu.Lock()
			p := rep.Probes[name]
			p[1]++
			rep.Probes[name] = p
			if len(rep.ProbeErrs) < 20 {
				rep.ProbeErrs = append(rep.ProbeErrs, name+": "+s)
			}
			rmu.Unlock()
		}
		c, err := net.DialTimeout("tcp", lis[listener], time.Second)
		if err != nil {
			fail("dial: " + err.Error())
			return
		}
		defer c.Close()
		for k := uint32(1); ; k++ {
			select {
			case <-stop:
				return
			default:
			}
			var req []byte
			switch proto {
			case "bolt":
				req = boltRequestBytes(k, "good", 3000, []byte("probe"))
			case "dubbo":
				req = dubboFrame(0xc2, 0, uint64(k), dubboReqPayload("2.0.2", "com.probe.Svc", "1.0.0", "hello", []byte("x")))
			default:
				req = tarsReq(int32(k), "probe.obj", "fn", []byte("probe"), map[string]string{})
			}
			c.SetDeadline(time.Now().Add(3 * time.Second))
			if _, err := c.Write(req); err != nil {
				fail("write: " + err.Error())
				return
			}
			fr, err := readFrame(c, proto)
			rmu.Lock()
			p := rep.Probes[name]
			p[0]++
			rep.Probes[name] = p
			rmu.Unlock()
			if err != nil {
				fail(fmt.Sprintf("request %d: no reply: %v", k, err))
				return
			}
			switch proto {
			case "bolt":
				typ, _, id, status := boltID(fr)
				if typ != 0 || id != k || status != 0 {
					fail(fmt.Sprintf("request %d: reply type=%d id=%d status=%d", k, typ, id, status))
				}
			case "dubbo":
				if binary.BigEndian.Uint64(fr[4:]) != uint64(k) || fr[3] != 20 {
					fail(fmt.Sprintf("request %d: reply id=%d status=%d", k, binary.BigEndian.Uint64(fr[4:]), fr[3]))
				}
			default:
				p := &requestf.ResponsePacket{}
				if e := p.ReadFrom(codec.NewReader(fr[4:])); e != nil || p.IRequestId != int32(k) || p.IRet != 0 {
					fail(fmt.Sprintf("request %d: reply err=%v id=%d ret=%d", k, e, p.IRequestId, p.IRet))
				}
			}
			time.Sleep(2 * time.Millisecond)
		}
	}
	for _, p := range [][3]string{{"bolt", "bolt", "bolt"}, {"dubbo", "dubbo", "dubbo"}, {"tars", "tars", "tars"}, {"auto-bolt", "auto", "bolt"}} {
		pwg.Add(1)
		go probe(p[0], p[1], p[2])
	}
	time.Sleep(300 * time.Millisecond) // warm-up: upstream connections established
	measure := func(i int) {
		time.Sleep(600 * time.Millisecond)
		runtime.GC()
		time.Sleep(100 * time.Millisecond)
		runtime.GC()
		var ms runtime.MemStats
		runtime.ReadMemStats(&ms)
		rep.Goroutines[i] = runtime.NumGoroutine()
		rep.HeapMB[i] = float64(ms.HeapAlloc) / (1 << 20)
	}
	measure(0)

	// ---- attackers
	nper := run.N(28, 400)
	wait := time.Duration(run.N(220, 350)) * time.Millisecond
	evilSeq := 0
	mkInputs := func() []atkInput {
		var ins []atkInput
		if h := os.Getenv("VH_ONLY"); h != "" { // debugging: one input on the bolt listener
			b := hexBytes(h)
			so := decodeLoop(defs["bolt"].Proto, defs["bolt"].Sum, [][]byte{b})
			in := atkInput{Listener: "bolt", Kind: "only", Bytes: b, WantClosed: so.Closed, Residue: so.Left, Hex: h, Len: len(b)}
			for _, e := range so.Events {
				if e[0] == 'R' {
					in.WantReply = true
				}
			}
			return []atkInput{in}
		}
		for _, name := range []string{"bolt", "dubbo", "tars"} {
			cd := defs[name]
			for _, in := range corruptionInputs(r, cd, nper) {
				in.Listener = name
				so := decodeLoop(cd.Proto, cd.Sum, [][]byte{in.Bytes})
				in.WantClosed, in.Residue = so.Closed, so.Left
				for _, e := range so.Events {
					if e[0] == 'R' {
						in.WantReply = true
					}
				}
				ins = append(ins, in)
			}
		}
		// Auto listener: garbage and foreign magics
		for i := 0; i < nper/2; i++ {
			b := r.Bytes(1 + r.Intn(40))
			if r.Pct(50) {
				b[0] = byte(r.Pick([]int{0, 3, 9, 'X', 0xda, 'P', 'G'}))
			}
			v, _ := selVerdict(b)
			if v >= 10 {
				// detected as one of the protocols: what happens next is that protocol's business (covered on its own listener)
				b[0] = 0xfe
				v, _ = selVerdict(b)
			}
			if v >= 10 {
				continue
			}
			ins = append(ins, atkInput{Listener: "auto", Kind: "auto-garbage", Bytes: b, WantClosed: v == 1, Residue: len(b)})
		}
		// upstream side: valid requests routed to the upstream that answers with malformed frames
		nevil := run.N(6, 80)
		if v, _ := strconv.Atoi(os.Getenv("VH_EVIL_LOOP")); v > 0 {
			ins, nevil = nil, v // reproduction aid: only the evil-upstream scenario, v times per round
		}
		for i := 0; i < nevil; i++ {
			evilSeq++
			ins = append(ins, atkInput{Listener: "bolt-evil-upstream", Kind: "evil-upstream", Bytes: boltRequestBytes(uint32(7000+evilSeq), "evil", 600, []byte("x"))})
		}
		for i := range ins {
			ins[i].Hex = Hex(clip(ins[i].Bytes, 1500))
			ins[i].Len = len(ins[i].Bytes)
		}
		return ins
	}
	dumps := int32(0)
	attack := func(in atkInput) (res atkResult) {
		res.atkInput = in
		t0 := time.Now()
		defer func() { res.ElapsedMs = int(time.Since(t0) / time.Millisecond) }()
		lname, proto := in.Listener, in.Listener
		if lname == "bolt-evil-upstream" {
			lname, proto = "bolt", "bolt"
		}
		if lname == "auto" {
			proto = "bolt"
		}
		logj(fmt.Sprintf("%s %s %s", in.Listener, in.Kind, Hex(clip(in.Bytes, 4096))))
		c, err := net.DialTimeout("tcp", lis[lname], time.Second)
		if err != nil {
			res.Problem = "dial: " + err.Error()
			return
		}
		defer c.Close()
		// random segmentation of the malformed stream
		b := in.Bytes
		for len(b) > 0 {
			n := len(b)
			if r.Pct(40) {
				n = 1 + r.Intn(len(b))
			}
			c.Write(b[:n])
			b = b[n:]
			if len(b) > 0 {
				time.Sleep(time.Millisecond)
			}
		}
		if in.Listener == "bolt-evil-upstream" {
			// the client must get an error reply or a close within the request time-out + slack, never hang.  The verdict is by
			// what arrives on the client's socket (a reply frame / a close) with a generous cap; a case that stays silent is
			// tried again on FRESH connections (new request id) up to two more times and is only reported when all three
			// attempts stay silent; every silent attempt is kept as an observation with a goroutine dump of the process
			wait1 := func(cc net.Conn, cap time.Duration) (reply, ok, closed, silent bool) {
				cc.SetReadDeadline(time.Now().Add(cap))
				fr, err := readFrame(cc, "bolt")
				switch {
				case err == nil:
					_, _, _, status := boltID(fr)
					return true, status == 0, false, false
				case isTimeout(err):
					return false, false, false, true
				}
				return false, false, true, false
			}
			var silent bool
			res.Reply, res.FollowOK, res.Closed, silent = wait1(c, 8*time.Second) // request time-out 600 ms; generous because the box may be loaded
			for attempt := 1; silent; attempt++ {
				res.SilentAttempts++
				var gb bytes.Buffer
				pprof.Lookup("goroutine").WriteTo(&gb, 2)
				k := atomic.AddInt32(&dumps, 1)
				res.Dump = filepath.Join(dir, fmt.Sprintf("goroutines-%d.txt", k))
				os.WriteFile(res.Dump, gb.Bytes(), 0o644)
				res.EvilAnswers = append(res.EvilAnswers, int(atomic.LoadInt32(&ups["bolt-evil"].next)))
				if attempt > 2 {
					res.Problem = "no reply and no close after the upstream answered with a malformed frame (request time-out 600 ms): three attempts on fresh connections stayed silent (8 s, 12 s, 12 s)"
					break
				}
				_, _, id, _ := boltID(in.Bytes)
				c2, err := net.DialTimeout("tcp", lis["bolt"], time.Second)
				if err != nil {
					res.Problem = "dial (retry): " + err.Error()
					break
				}
				c2.Write(boltRequestBytes(id+uint32(100000*attempt), "evil", 600, []byte("x")))
				res.Reply, res.FollowOK, res.Closed, silent = wait1(c2, 12*time.Second)
				c2.Close()
			}
			return
		}
		// read until close / deadline, note replies
		deadline := time.Now().Add(wait)
		if in.WantClosed {
			deadline = time.Now().Add(1500 * time.Millisecond)
		}
		for {
			c.SetReadDeadline(deadline)
			fr, err := readFrame(c, proto)
			if err != nil {
				if !isTimeout(err) {
					res.Closed = true
				}
				break
			}
			if proto == "bolt" && lname != "auto" {
				if typ, _, _, status := boltID(fr); typ == 0 && status != 0 {
					res.Reply = true
				}
			}
		}
		if !res.Closed && in.Residue == 0 && !in.WantClosed && lname != "auto" {
			// the connection must still serve: a valid request now gets its reply
			res.Followed = true
			var req []byte
			switch proto {
			case "bolt":
				req = boltRequestBytes(999999, "good", 3000, []byte("after"))
			case "dubbo":
				req = dubboFrame(0xc2, 0, 999999, dubboReqPayload("2.0.2", "com.after.Svc", "1.0.0", "hello", nil))
			default:
				req = tarsReq(999999, "after.obj", "fn", nil, map[string]string{})
			}
			c.Write(req)
			c.SetReadDeadline(time.Now().Add(2 * time.Second))
			for {
				fr, err := readFrame(c, proto)
				if err != nil {
					break
				}
				ok := false
				switch proto {
				case "bolt":
					typ, _, id, status := boltID(fr)
					ok = typ == 0 && id == 999999 && status == 0
				case "dubbo":
					ok = binary.BigEndian.Uint64(fr[4:]) == 999999
				default:
					p := &requestf.ResponsePacket{}
					ok = p.ReadFrom(codec.NewReader(fr[4:])) == nil && p.IRequestId == 999999
				}
				if ok {
					res.FollowOK = true
					break
				}
			}
		}
		return
	}
	done := make(chan struct{})
	go func() {
		for round := 1; round <= 2; round++ {
			ins := mkInputs()
			ch := make(chan atkInput)
			var wg sync.WaitGroup
			for w := 0; w < 8; w++ {
				wg.Add(1)
				go func() {
					defer wg.Done()
					for in := range ch {
						res := attack(in)
						rmu.Lock()
						rep.Results = append(rep.Results, res)
						rmu.Unlock()
					}
				}()
			}
			for _, in := range ins {
				ch <- in
			}
			close(ch)
			wg.Wait()
			measure(round)
		}
		close(done)
	}()
	select {
	case <-done:
	case <-time.After(time.Duration(run.N(60, 900)) * time.Second):
		rep.Watchdog = "the containment run did not finish within its watchdog time (dead-lock or wedge)"
	}
	close(stop)
	pwg.Wait()
	rep.EvilAnswers = int(atomic.LoadInt32(&ups["bolt-evil"].next))
	b, _ := json.Marshal(rep)
	os.WriteFile(filepath.Join(dir, "child.json"), b, 0o644)
	return 0
}

func isTimeout(err error) bool {
	ne, ok := err.(net.Error)
	return ok && ne.Timeout()
}

var portSeqC = int(time.Now().UnixNano() % 9000)

func freePortC() int {
	for try := 0; try < 2000; try++ {
		portSeqC += 41
		p := 21000 + (portSeqC % 11000)
		ln, err := net.Listen("tcp", fmt.Sprintf("127.0.0.1:%d", p))
		if err != nil {
			continue
		}
		ln.Close()
		return p
	}
	return 0
}

// ---- parent: run the child, turn its report into finder results and Coq cases --------------------------------------------

func c08Contain(run *Run) {
	dir := filepath.Join(run.Out, "contain")
	os.MkdirAll(dir, 0o755)
	cmd := exec.Command(os.Args[0], "c08child", "--tier", run.Tier, "--seed", fmt.Sprint(run.Seed), "--out", dir)
	outb, err := cmd.CombinedOutput()
	tail := func() []string {
		j, _ := os.ReadFile(filepath.Join(dir, "journal.txt"))
		ls := strings.Split(strings.TrimSpace(string(j)), "\n")
		if len(ls) > 12 {
			ls = ls[len(ls)-12:]
		}
		return ls
	}
	if err != nil {
		o := string(outb)
		if len(o) > 3000 {
			o = o[len(o)-3000:]
		}
		run.Fail("contain:process-exited", "the MOSN process under malformed traffic exited: "+err.Error(), map[string]interface{}{"last_inputs": tail(), "output_tail": o})
		return
	}
	var rep childReport
	b, err := os.ReadFile(filepath.Join(dir, "child.json"))
	if err != nil || json.Unmarshal(b, &rep) != nil {
		run.Fail("contain:no-report", "the containment child wrote no report", map[string]interface{}{"last_inputs": tail()})
		return
	}
	if rep.Watchdog != "" {
		run.Fail("contain:watchdog", rep.Watchdog, map[string]interface{}{"last_inputs": tail()})
	}
	names := make([]string, 0, len(rep.Probes))
	for n := range rep.Probes {
		names = append(names, n)
	}
	sort.Strings(names)
	for _, n := range names {
		p := rep.Probes[n]
		run.Sum.Extra["probe_"+n+"_requests"] = p[0]
		if p[1] > 0 || p[0] < 5 {
			run.Fail("contain:probe-lost-reply:"+n, fmt.Sprintf("the %s probe connection sent %d valid requests and %d failed while other connections carried malformed traffic", n, p[0], p[1]), map[string]interface{}{"errors": rep.ProbeErrs, "last_inputs": tail()})
		}
	}
	run.Sum.Extra["contain_goroutines"] = rep.Goroutines
	run.Sum.Extra["contain_heap_mb"] = rep.HeapMB
	run.Sum.Extra["contain_evil_upstream_answers"] = rep.EvilAnswers
	silentObs := 0
	defer func() { run.Sum.Extra["contain_evil_upstream_silent_attempts"] = silentObs }()
	if rep.Goroutines[2] > rep.Goroutines[1]+12 || rep.Goroutines[2] > rep.Goroutines[0]+40 {
		run.Fail("contain:goroutine-leak", fmt.Sprintf("goroutines: baseline %d, after round 1 %d, after round 2 %d (attackers disconnected)", rep.Goroutines[0], rep.Goroutines[1], rep.Goroutines[2]), map[string]interface{}{"goroutines": rep.Goroutines})
	}
	if rep.HeapMB[2] > rep.HeapMB[1]+48 || rep.HeapMB[2] > rep.HeapMB[0]+160 {
		run.Fail("contain:heap-growth", fmt.Sprintf("heap MB: baseline %.1f, after round 1 %.1f, after round 2 %.1f", rep.HeapMB[0], rep.HeapMB[1], rep.HeapMB[2]), map[string]interface{}{"heap_mb": rep.HeapMB})
	}
	// per connection
	bsh := run.NewShard(boltShardHeader, "conn_case", "conn_mismatches")
	xsh := run.NewShard(xShardHeader, "xconn_case", "xconn_mismatches")
	for _, res := range rep.Results {
		bts := hexBytes(res.Hex)
		kcls := kindClass(res.Kind)
		run.Count("contain|"+res.Listener+"|"+res.Hex, res.Kind != "valid", "contain:"+res.Listener, "contain:"+res.Listener+":"+outcomeName(res))
		r := map[string]interface{}{"listener": res.Listener, "kind": res.Kind, "input_hex": res.Hex, "closed": res.Closed, "reply": res.Reply, "follow_ok": res.FollowOK,
			"want_closed": res.WantClosed, "want_reply": res.WantReply, "elapsed_ms": res.ElapsedMs}
		if res.SilentAttempts > 0 {
			// kept in the evidence whether or not it is reported: where the process waited is in the goroutine dump
			r["silent_attempts"], r["goroutine_dump"] = res.SilentAttempts, res.Dump
			silentObs++
			if res.Problem == "" {
				run.Sample(map[string]interface{}{"part": "containment", "observation": "an evil-upstream request stayed silent for 8 s on one attempt and was answered on a fresh connection", "silent_attempts": res.SilentAttempts, "input_hex": res.Hex, "goroutine_dump": res.Dump})
			}
		}
		switch {
		case res.Problem != "":
			if res.Dump != "" {
				if d, err := os.ReadFile(res.Dump); err == nil {
					r["goroutines"] = string(clip(d, 60000))
				}
			}
			run.Fail("contain:"+res.Listener+":wedged", res.Listener+": "+res.Problem, r)
		case res.Listener == "bolt-evil-upstream":
		case res.WantClosed && !res.Closed:
			run.Fail("contain:"+res.Listener+":not-closed:"+kcls, fmt.Sprintf("%s: the decoder refuses this input (Dispatch closes the connection) but the connection was still open after 1.5 s", res.Listener), r)
		case !res.WantClosed && res.Closed:
			run.Fail("contain:"+res.Listener+":closed-unexpectedly:"+kcls, fmt.Sprintf("%s: the connection was closed although the decoder only extracts frames / waits for more data on this input", res.Listener), r)
		case res.WantReply && !res.WantClosed && !res.Reply: // (a reply followed by a close may be cut off by the close: the connection is closed, which is an allowed outcome)
			run.Fail("contain:"+res.Listener+":no-error-reply:"+kcls, res.Listener+": a two-way request with an undecodable header block was not answered with an error reply", r)
		case res.Followed && !res.FollowOK:
			run.Fail("contain:"+res.Listener+":connection-stopped-serving:"+kcls, res.Listener+": after this input (no error, nothing left in the buffer) a valid request on the same connection got no reply", r)
		}
		if len(bts) != res.Len {
			continue
		}
		switch res.Listener {
		case "bolt":
			bsh.Add(fmt.Sprintf("(false, %s, %s, %s)", CoqBytes(bts), CoqBool(res.Closed), CoqBool(res.Reply)), r)
		case "dubbo", "tars":
			xsh.Add(letB(bts, fmt.Sprintf("(%s, b, %s)", xcodecTerm(res.Listener, bts), CoqBool(res.Closed))), r)
		}
	}
	bsh.Close()
	xsh.Close()
	if len(rep.Results) > 0 {
		run.Sample(map[string]interface{}{"part": "containment", "connections": len(rep.Results), "probes": rep.Probes, "goroutines": rep.Goroutines, "heap_mb": rep.HeapMB, "evil_upstream_answers": rep.EvilAnswers})
	}
}

func outcomeName(r atkResult) string {
	switch {
	case r.Closed:
		return "closed"
	case r.Reply:
		return "error-reply"
	case r.Followed && r.FollowOK:
		return "still-serving"
	}
	return "waiting"
}

func hexBytes(h string) []byte {
	b := make([]byte, len(h)/2)
	for i := range b {
		fmt.Sscanf(h[2*i:2*i+2], "%02x", &b[i])
	}
	return b
}
