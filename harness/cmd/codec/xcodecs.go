package main

// dubbo / dubbo-thrift / tars: valid frame generators, observation, and the ORACLE TABLES for the body parsers
// that the Coq models treat as opaque (computed here by calling the same libraries directly on the bytes the
// model will hand to them).

import (
	"encoding/binary"
	"fmt"
	"strings"

	"github.com/TarsCloud/TarsGo/tars/protocol/codec"
	"github.com/TarsCloud/TarsGo/tars/protocol/res/requestf"
	hessian "github.com/apache/dubbo-go-hessian2"
	"github.com/apache/thrift/lib/go/thrift"
	"mosn.io/api"
	"mosn.io/mosn/pkg/protocol/xprotocol/dubbo"
	"mosn.io/mosn/pkg/protocol/xprotocol/dubbothrift"
	"mosn.io/mosn/pkg/protocol/xprotocol/tars"
	"mosn.io/pkg/buffer"

	. "vh/vhlib"
)

const xShardHeader = "From MV Require Import Lib.Bytes Lib.Dec Model.Xcodecs Model.BoltCheck Model.XCheck.\nFrom Coq Require Import List NArith.\nImport ListNotations.\nOpen Scope N_scope.\n"

// ---- oracles ---------------------------------------------------------------------------------------

// hessOK: getServiceAwareMeta succeeds on the payload (listener neither ingress nor egress: cheap decoder, four fields)
func hessOK(payload []byte) (ok bool) {
	defer func() {
		if recover() != nil {
			ok = false
		}
	}()
	d := hessian.NewCheapDecoderWithSkip([]byte{})
	d.Reset(payload)
	f, err := d.Decode()
	if err != nil {
		return false
	}
	if _, is := f.(string); !is {
		return false
	}
	f, err = d.Decode()
	if err != nil {
		return false
	}
	if _, is := f.(string); !is {
		return false
	}
	f, err = d.Decode()
	if err != nil {
		return false
	}
	if f != nil {
		if _, is := f.(string); !is {
			return false
		}
	}
	f, err = d.Decode()
	if err != nil {
		return false
	}
	if _, is := f.(string); !is {
		return false
	}
	return true
}

// thriftParse: the calls of dubbothrift decodeHeader + decodeMessage over body[9:]
func thriftParse(tbody []byte) (id uint64, mtype int32, ok bool) {
	defer func() {
		if recover() != nil {
			ok = false
		}
	}()
	t := thrift.NewStreamTransportR(buffer.NewIoBufferBytes(tbody))
	defer t.Close()
	p := thrift.NewTBinaryProtocolTransport(t)
	if _, err := p.ReadString(); err != nil {
		return 0, 0, false
	}
	i, err := p.ReadI64()
	if err != nil {
		return 0, 0, false
	}
	_, mt, _, err := p.ReadMessageBegin()
	if err != nil {
		return 0, 0, false
	}
	if err := p.ReadMessageEnd(); err != nil {
		return 0, 0, false
	}
	return uint64(i), int32(mt), true
}

// tarsStype: TarsGo's Reader.SkipToNoCheck(5, true) over frame[4:]: the Jce type of tag 5, or 255 when there is none / an error
func tarsStype(fr []byte) (ty int) {
	defer func() {
		if recover() != nil {
			ty = 255
		}
	}()
	b := codec.NewReader(fr[4:])
	err, have, t := b.SkipToNoCheck(5, true)
	if err != nil || !have {
		return 255
	}
	return int(t)
}

func tarsRparse(resp bool, body []byte) (id uint64, ok bool) {
	defer func() {
		if recover() != nil {
			ok = false
		}
	}()
	if resp {
		p := &requestf.ResponsePacket{}
		if err := p.ReadFrom(codec.NewReader(body)); err != nil {
			return 0, false
		}
		return uint64(p.IRequestId), true
	}
	p := &requestf.RequestPacket{}
	if err := p.ReadFrom(codec.NewReader(body)); err != nil {
		return 0, false
	}
	return uint64(p.IRequestId), true
}

// oracle tables for every frame the framing logic will isolate in `stream` (walks the stream frame by frame)
type oracle struct {
	rp    *relPrinter
	seen  map[string]bool
	items []string // Coq table entries
	items2 []string
}

func newOracle(in []byte) *oracle { return &oracle{seen: map[string]bool{}, rp: &relPrinter{in}} }

func (o *oracle) dubbo(stream []byte) {
	for len(stream) >= 16 {
		pl := int(binary.BigEndian.Uint32(stream[12:16]))
		if 16+pl > len(stream) {
			return
		}
		p := stream[16 : 16+pl]
		if !o.seen[string(p)] {
			o.seen[string(p)] = true
			o.items = append(o.items, fmt.Sprintf("(%s, %s)", o.rp.B(p), CoqBool(hessOK(p))))
		}
		stream = stream[16+pl:]
	}
}
func (o *oracle) thrift(stream []byte) {
	for len(stream) >= 6 {
		fl := int(binary.BigEndian.Uint32(stream[0:4]))
		if 4+fl > len(stream) {
			return
		}
		body := stream[4 : 4+fl]
		if len(body) >= 9 {
			tb := body[9:]
			if !o.seen[string(tb)] {
				o.seen[string(tb)] = true
				id, mt, ok := thriftParse(tb)
				v := "None"
				if ok {
					v = fmt.Sprintf("(Some (%d, %d))", id, uint32(mt))
				}
				o.items = append(o.items, fmt.Sprintf("(%s, %s)", o.rp.B(tb), v))
			}
		}
		stream = stream[4+fl:]
	}
}
func (o *oracle) tars(stream []byte) {
	for len(stream) >= 4 {
		n := int(binary.BigEndian.Uint32(stream[0:4]))
		if n < 4 || n > 10485760 || n > len(stream) {
			return
		}
		fr := stream[:n]
		if !o.seen[string(fr)] {
			o.seen[string(fr)] = true
			st := tarsStype(fr)
			o.items = append(o.items, fmt.Sprintf("(%s, %d)", o.rp.B(fr), st))
			for _, resp := range []bool{false, true} {
				id, ok := tarsRparse(resp, fr[4:])
				v := "None"
				if ok {
					v = fmt.Sprintf("(Some %d)", id)
				}
				o.items2 = append(o.items2, fmt.Sprintf("(%s, %s, %s)", CoqBool(resp), o.rp.B(fr[4:]), v))
			}
		}
		stream = stream[n:]
	}
}

func coqTable(items []string, typ string) string {
	if len(items) == 0 {
		return "(@nil (" + typ + "))"
	}
	return "[" + strings.Join(items, "; ") + "]"
}

func xcodecTerm(name string, stream []byte) string {
	o := newOracle(stream)
	switch name {
	case "dubbo":
		o.dubbo(stream)
		return "(XDubbo " + coqTable(o.items, "list N * bool") + ")"
	case "dubbo-thrift":
		o.thrift(stream)
		return "(XThrift " + coqTable(o.items, "list N * option (N * N)") + ")"
	default:
		o.tars(stream)
		return "(XTars " + coqTable(o.items, "list N * N") + " " + coqTable(o.items2, "bool * list N * option N") + ")"
	}
}

// ---- observation -------------------------------------------------------------------------------------

func b2u(b bool) uint64 {
	if b {
		return 1
	}
	return 0
}

// xSum: "nums payload" of Model/XCheck.v
func xSum(f interface{}, rp *relPrinter) (string, bool) {
	switch x := f.(type) {
	case *dubbo.Frame:
		h := x.Header
		return fmt.Sprintf("%s %s", coqNums(uint64(h.Flag), uint64(h.Status), h.Id, uint64(h.DataLen), b2u(h.IsEvent), b2u(h.IsTwoWay), uint64(h.Direction), uint64(h.SerializationId)), rp.B(ioBytes(x.GetData()))), true
	case *dubbothrift.Frame:
		h := x.Header
		return fmt.Sprintf("%s %s", coqNums(uint64(h.FrameLength), uint64(h.MessageLength), uint64(h.HeaderLength), h.Id, uint64(h.Direction)), rp.B(ioBytes(x.GetData()))), true
	case *tars.Request:
		return fmt.Sprintf("%s %s", coqNums(0, x.GetRequestId()), rp.B(ioBytes(x.GetData()))), true
	case *tars.Response:
		return fmt.Sprintf("%s %s", coqNums(1, x.GetRequestId()), rp.B(ioBytes(x.GetData()))), true
	}
	return "", false
}

func (o decObs) coqXobs() string {
	switch o.Kind {
	case "needmore":
		return "XNeedMore"
	case "err":
		return "XErr"
	case "frame", "errframe":
		return fmt.Sprintf("(XFrame %d %s)", o.Consumed, o.Sum)
	}
	return "XPanic"
}

func (s streamObs) coqXEvents() string {
	if len(s.Events) == 0 {
		return "(@nil xsobs)"
	}
	var it []string
	for _, e := range s.Events {
		switch {
		case e == "C" || e == "HANG":
			it = append(it, "XSClose")
		default:
			it = append(it, "XSFrame "+e[2:])
		}
	}
	return "[" + strings.Join(it, "; ") + "]"
}

// ---- generators ----------------------------------------------------------------------------------------

func genDubbo(r *Rng, big bool) validFrame {
	req := r.Pct(60)
	flag := byte(2) // hessian
	var payload []byte
	desc := map[string]interface{}{}
	if req {
		flag |= 0x80
		if r.Pct(80) {
			flag |= 0x40
		}
		if r.Pct(15) {
			flag |= 0x20 // event (heartbeat): payload not parsed
			payload = []byte{'N'}
		} else {
			rest := r.Bytes(pickLen(r, false))
			if big && r.Pct(50) {
				rest = runBytes(r, r.Pick([]int{65535, 65536, 70000}), false)
			}
			payload = dubboReqPayload(r.PickS([]string{"2.0.2", "2.7.8", ""}), "com.x."+randName(r, 1+r.Intn(20)), r.PickS([]string{"0.0.0", "1.0.0", ""}), randName(r, 1+r.Intn(12)), rest)
		}
		desc["kind"] = "request"
	} else {
		payload = r.Bytes(pickLen(r, false))
		if big && r.Pct(50) {
			payload = runBytes(r, r.Pick([]int{65535, 65536, 70000}), false)
		}
		if r.Pct(10) {
			flag = byte(r.Intn(32)) // other serialisations are fine for responses
		}
		desc["kind"] = "response"
	}
	status := byte(r.Pick([]int{0, 20, 20, 30, 40, 100, 255}))
	id := r.U64()
	if r.Pct(30) {
		id = uint64(r.Pick([]int{0, 1, 255, 256, 65535, 65536})) + uint64(r.Intn(2))<<63
	}
	b := dubboFrame(flag, status, id, payload)
	desc["flag"] = flag
	desc["len"] = len(b)
	ex := map[string][]byte{}
	if dubboOdd {
		ex = dubboOddRequests(r, id)
	}
	ex["dubbo:request-not-hessian"] = dubboFrame(0xc0|3, 0, id, payload)
	ex["dubbo:request-bad-hessian"] = dubboFrame(0xc2, 0, id, r.Bytes(1+r.Intn(20)))
	return validFrame{Bytes: b, Fixed: 16, Desc: desc, Fields: []lenField{{"datalen", 12, 4}}, Extra: ex}
}

func genThrift(r *Rng, big bool) validFrame {
	body := r.Bytes(pickLen(r, false))
	if big && r.Pct(50) {
		body = runBytes(r, r.Pick([]int{65535, 65536, 70000}), false)
	}
	svc := "com." + randName(r, r.Pick([]int{0, 1, 5, 20, 250, 256}))
	id := r.U64()
	mtype := byte(r.Pick([]int{1, 1, 2, 3, 4}))
	b := thriftFrame(svc, id, randName(r, r.Pick([]int{0, 1, 10, 255, 256})), mtype, uint32(r.U64()), body)
	hl := int(binary.BigEndian.Uint16(b[10:12]))
	ex := map[string][]byte{}
	// non-strict message begin / bad version / negative string size
	m := append([]byte{}, b...)
	m[4+hl] = 0x00
	ex["thrift:nonstrict-begin"] = m
	m2 := append([]byte{}, b...)
	m2[4+hl] = 0x81
	m2[4+hl+1] = 0x02
	ex["thrift:bad-version"] = m2
	m3 := append([]byte{}, b...)
	m3[13] = 0xff // service string size negative
	ex["thrift:negative-string-size"] = m3
	// a 4- or 5-byte frame followed by another frame (message shorter than its own header)
	ex["thrift:message-shorter-than-header"] = cat(be32(1), []byte{0xda}, b)
	ex["thrift:message-8-bytes"] = cat(be32(8), b[4:12], b)
	return validFrame{Bytes: b, Fixed: 13, Desc: map[string]interface{}{"service_len": len(svc), "len": len(b), "mtype": mtype}, Extra: ex,
		Fields: []lenField{{"framelen", 0, 4}, {"msglen", 6, 4}, {"hdrlen", 10, 2}, {"svclen", 13, 4}}}
}

func genTars(r *Rng, big bool) validFrame {
	n := pickLen(r, false)
	if big && r.Pct(60) {
		n = r.Pick([]int{200, 254, 255, 256, 300, 65535, 65536, 70000})
	}
	var buf []byte
	if n > 1024 {
		buf = runBytes(r, n, false)
	} else {
		buf = r.Bytes(n)
	}
	id := int32(r.U64())
	if r.Pct(30) {
		id = int32(r.Pick([]int{0, 1, -1, 127, 128, 32767, 32768, 0x7fffffff, -0x80000000}))
	}
	var b []byte
	kind := "request"
	if r.Pct(60) {
		ctx := map[string]string{}
		for i := 0; i < r.Intn(3); i++ {
			ctx[randName(r, 1+r.Intn(8))] = randName(r, r.Intn(20))
		}
		b = tarsReq(id, randName(r, 1+r.Intn(30)), randName(r, 1+r.Intn(12)), buf, ctx)
	} else {
		kind = "response"
		b = tarsResp(id, int32(r.Intn(3))-1, buf, randName(r, r.Intn(10)))
	}
	ex := map[string][]byte{
		"tars:len=3":       cat(be32(3), b[4:]),
		"tars:len=10MiB+1": cat(be32(10485761), b[4:]),
		"tars:body-garbage": cat(be32(uint32(4+len(buf)%50+2)), r.Bytes(len(buf)%50+2)),
	}
	return validFrame{Bytes: b, Fixed: 6, Desc: map[string]interface{}{"kind": kind, "len": len(b), "buf": n}, Extra: ex, Fields: []lenField{{"pkglen", 0, 4}}}
}

func xDefs() []*codecDef {
	var defs []*codecDef
	for _, it := range []struct {
		name string
		gen  func(*Rng, bool) validFrame
		head func(*Rng, []byte)
	}{
		{"dubbo", genDubbo, func(r *Rng, b []byte) {
			if len(b) > 1 {
				b[0], b[1] = 0xda, 0xbb
			}
			for i := 12; i < 15 && i < len(b); i++ {
				b[i] = 0
			}
		}},
		{"dubbo-thrift", genThrift, func(r *Rng, b []byte) {
			for i := 0; i < 3 && i < len(b); i++ {
				b[i] = 0
			}
			if len(b) > 5 {
				b[4], b[5] = 0xda, 0xbc
			}
		}},
		{"tars", genTars, func(r *Rng, b []byte) {
			for i := 0; i < 3 && i < len(b); i++ {
				b[i] = 0
			}
			if len(b) > 5 {
				b[4], b[5] = 0x10, byte(r.Pick([]int{1, 3}))
			}
		}},
	} {
		name := it.name
		cd := &codecDef{Name: name, Proto: proto(name), Sum: xSum, Gen: it.gen, RandHead: it.head, Header: xShardHeader,
			CaseType: "xdecode_case", Eval: "xdecode_mismatches", SegType: "xseg_case", SegEval: "xseg_mismatches"}
		cd.CaseTerm = func(in []byte, o decObs) string {
			return letB(in, fmt.Sprintf("(%s, b, %s)", xcodecTerm(name, in), o.coqXobs()))
		}
		cd.SegTerm = func(chunks [][]byte, so streamObs) string {
			var all []byte
			for _, c := range chunks {
				all = append(all, c...)
			}
			return letB(all, fmt.Sprintf("(%s, %s, %s, %d, %s)", xcodecTerm(name, all), coqChunksRel(chunks), so.coqXEvents(), so.Left, CoqBool(so.Closed)))
		}
		defs = append(defs, cd)
	}
	return defs
}

var _ api.XFrame
