package main

import (
	"context"
	"encoding/binary"
	"fmt"
	"strings"

	"mosn.io/api"
	"mosn.io/pkg/buffer"
)

func boltReq(class string, hdr []byte, content []byte) []byte {
	b := make([]byte, 22)
	b[0] = 1
	b[1] = 1
	binary.BigEndian.PutUint16(b[2:], 1)
	b[4] = 1
	binary.BigEndian.PutUint32(b[5:], 77)
	b[9] = 1
	binary.BigEndian.PutUint32(b[10:], 3000)
	binary.BigEndian.PutUint16(b[14:], uint16(len(class)))
	binary.BigEndian.PutUint16(b[16:], uint16(len(hdr)))
	binary.BigEndian.PutUint32(b[18:], uint32(len(content)))
	b = append(b, class...)
	b = append(b, hdr...)
	b = append(b, content...)
	return b
}

func kv(k, v string) []byte {
	b := make([]byte, 4)
	binary.BigEndian.PutUint32(b, uint32(len(k)))
	b = append(b, k...)
	l := make([]byte, 4)
	binary.BigEndian.PutUint32(l, uint32(len(v)))
	b = append(b, l...)
	b = append(b, v...)
	return b
}

func safeDecode(p api.XProtocol, buf api.IoBuffer) (f interface{}, err error, pan interface{}) {
	defer func() {
		if r := recover(); r != nil {
			pan = r
		}
	}()
	f, err = p.Decode(context.Background(), buf)
	return
}

func probe(args []string) int {
	ctx := context.Background()
	_ = ctx
	// S1
	p := proto("bolt")
	for _, h := range [][]byte{{1, 2}, append(kv("a", "b"), 0, 0, 0), kv("a", "b")[:5]} {
		f, err, pan := safeDecode(p, buffer.NewIoBufferBytes(boltReq("cls", h, []byte("xyz"))))
		fmt.Printf("S1 hdr=%v frame=%v err=%v panic=%v\n", h, f != nil, err, pan)
	}
	// S5
	f, err, pan := safeDecode(p, buffer.NewIoBufferBytes(boltReq("cls", kv("a", "b"), []byte("xyz"))))
	fmt.Println("decode", f != nil, err, pan)
	xf := f.(api.XFrame)
	xf.GetHeader().Set("big", strings.Repeat("x", 70000))
	out, err := p.Encode(ctx, xf)
	fmt.Println("S5 encode err", err)
	if err == nil {
		fmt.Println("len", out.Len(), "hdrlen field", binary.BigEndian.Uint16(out.Bytes()[16:18]))
		f2, err2, pan2 := safeDecode(p, buffer.NewIoBufferBytes(append([]byte{}, out.Bytes()...)))
		fmt.Println("S5 redecode", f2 != nil, err2, pan2)
	}
	// S6 dubbo SetData ignored
	dp := proto("dubbo")
	df := dubboFrame(0xc2, 0, 9, dubboReqPayload("2.0.2", "com.x.Svc", "0.0.0", "hello", []byte("ARGS")))
	f, err, pan = safeDecode(dp, buffer.NewIoBufferBytes(append([]byte{}, df...)))
	fmt.Println("dubbo decode", f != nil, err, pan)
	if f != nil {
		xf := f.(api.XFrame)
		xf.SetData(buffer.NewIoBufferString("NEWBODY"))
		out, err := dp.Encode(ctx, xf)
		fmt.Println("S6 encode", err, "same-as-original", string(out.Bytes()) == string(df), "contains NEWBODY", strings.Contains(string(out.Bytes()), "NEWBODY"))
	}
	// S3 / S4 dubbothrift
	tp := proto("dubbo-thrift")
	tf := thriftFrame("com.pkg.test.TestService", 1, "testMethod", 1, 1, []byte("BODYBODY"))
	for cut := len(tf) - 5; cut <= len(tf); cut++ {
		// a read buffer whose spare capacity holds stale bytes
		backing := make([]byte, len(tf)+64)
		for i := range backing {
			backing[i] = 0xEE
		}
		copy(backing, tf[:cut])
		b := buffer.NewIoBufferBytes(backing[:cut])
		f, err, pan := safeDecode(tp, b)
		s := ""
		if f != nil {
			s = fmt.Sprintf("payload-tail=%x remaining=%d", f.(api.XFrame).GetData().Bytes()[f.(api.XFrame).GetData().Len()-4:], b.Len())
		}
		fmt.Printf("S3 cut=%d/%d frame=%v err=%v panic=%v %s\n", cut, len(tf), f != nil, err != nil, pan, s)
	}
	{
		backing := append([]byte{}, tf...)
		b := buffer.NewIoBufferBytes(backing)
		f, _, _ := safeDecode(tp, b)
		xf := f.(api.XFrame)
		for i := range backing {
			backing[i] = 0x55 // the connection reuses its read buffer
		}
		out, _ := tp.Encode(ctx, xf)
		fmt.Println("S4 encode after buffer reuse equals original:", string(out.Bytes()) == string(tf), "first bytes", out.Bytes()[:8])
	}
	// S2 tars
	rp := proto("tars")
	for _, n := range []int{10, 150, 200, 240, 300} {
		fr := tarsReq(5, "svc.obj", "fn", make([]byte, n), map[string]string{"k": "v"})
		f, err, pan := safeDecode(rp, buffer.NewIoBufferBytes(append([]byte{}, fr...)))
		fmt.Printf("S2 tars framelen=%d frame=%v err=%v panic=%v\n", len(fr), f != nil, err, pan)
	}
	return 0
}
