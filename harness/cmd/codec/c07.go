package main

// C07 - message extraction independent of TCP segmentation: streams of valid frames (and streams with a bad
// frame inside) cut at every single position, every pair of positions (short streams), into 1-byte reads and at
// random, through the decode loop of streamConn.Dispatch around the REAL Decode over one accumulating read
// buffer.  Finder: chunked delivery vs delivery in one read.  Correspondence: the Coq dispatch model.

import (
	"fmt"

	. "vh/vhlib"
)

func c07Codec(run *Run, cd *codecDef) {
	r := run.R
	sh := run.NewShard(cd.Header, cd.SegType, cd.SegEval)
	shBytes := 0
	perStream := 0
	// the Coq model evaluates a sample of the segmentations (quick: at most 7 per stream, streams above 20 kB only
	// in one read); the finder compares EVERY segmentation with one-read delivery on the real code
	add := func(chunks [][]byte, so streamObs, rep interface{}) {
		n := 0
		for _, c := range chunks {
			n += len(c)
		}
		if !run.Thorough() && (perStream >= 5 || (n > 3000 && perStream >= 2) || (n > 20000 && len(chunks) > 1)) {
			return
		}
		if run.Thorough() && (perStream >= 25 || (n > 20000 && perStream >= 3)) {
			return
		}
		perStream++
		term := cd.SegTerm(chunks, so)
		sh.Add(term, rep)
		shBytes += len(term)
		if sh.Len() >= 150 || shBytes > 110000 {
			sh.Close()
			sh = run.NewShard(cd.Header, cd.SegType, cd.SegEval)
			shBytes = 0
		}
	}
	nstreams := run.N(7, 60)
	for i := 0; i < nstreams; i++ {
		nfr := 1 + r.Intn(4)
		var stream []byte
		var descs []interface{}
		var bounds []int
		small := i%3 != 2
		for k := 0; k < nfr; k++ {
			vf := cd.Gen(r, !small && k == 0)
			b := vf.Bytes
			if small && len(b) > 400 {
				vf = cd.Gen(r, false)
				b = vf.Bytes
			}
			stream = append(stream, b...)
			bounds = append(bounds, len(stream))
			descs = append(descs, vf.Desc)
		}
		kind := "valid-stream"
		if i%5 == 4 {
			// a stream with an incomplete last frame
			cut := 1 + r.Intn(8)
			if cut < len(stream) {
				stream = stream[:len(stream)-cut]
				kind = "valid-stream+incomplete-tail"
			}
		}
		perStream = 0
		whole := decodeLoop(cd.Proto, cd.Sum, [][]byte{stream})
		rep0 := map[string]interface{}{"codec": cd.Name, "stream_len": len(stream), "frames": len(bounds), "frame_ends": bounds, "kind": kind, "stream_hex": Hex(clip(stream, 2048))}
		if kind == "valid-stream" && (len(whole.Events) != nfr || whole.Left != 0 || whole.Closed) {
			run.Fail(cd.Name+":valid-stream-not-extracted", fmt.Sprintf("%s: a stream of %d valid frames delivered in one read produced %d events, %d bytes left, closed=%v", cd.Name, nfr, len(whole.Events), whole.Left, whole.Closed), rep0)
		}
		// the frames extracted must be the frames sent (each decoded alone from a private copy is the reference)
		if kind == "valid-stream" && len(whole.Events) == nfr {
			prev := 0
			for k, bd := range bounds {
				want, ok := frameAlone(cd.Proto, cd.Sum, stream[prev:bd], stream)
				if ok && whole.Events[k] != want {
					run.Fail(cd.Name+":extracted-frame-differs-from-sent", fmt.Sprintf("%s: frame %d of a valid stream, as held by the stream layer after the connection went on reading into its read buffer, is not the frame that was sent (it shares memory with the read buffer?)", cd.Name, k), rep0)
				}
				prev = bd
			}
		}
		add([][]byte{stream}, whole, rep0)
		check := func(cuts []int, how string, toCoq bool) {
			chunks := cutAt(stream, cuts)
			so := decodeLoop(cd.Proto, cd.Sum, chunks)
			run.Count(fmt.Sprintf("%s|%d|%v", cd.Name, i, cuts), len(chunks) > 1, cd.Name+":"+how, fmt.Sprintf("%s:frames=%d", cd.Name, nfr))
			if so.key() != whole.key() {
				rep := map[string]interface{}{"codec": cd.Name, "cuts": cuts, "how": how, "stream_hex": Hex(clip(stream, 4096)), "frame_ends": bounds,
					"whole": clipS(whole.key(), 600), "chunked": clipS(so.key(), 600)}
				run.Fail(cd.Name+":segmentation-dependent:"+kind, fmt.Sprintf("%s: cutting the stream at %v changes the extracted frames / residue / close (%s)", cd.Name, cuts, kind), rep)
			}
			if toCoq {
				add(chunks, so, map[string]interface{}{"codec": cd.Name, "cuts": cuts, "how": how, "stream_len": len(stream)})
			}
		}
		n := len(stream)
		// every single cut position
		step := 1
		if n > run.N(400, 3000) {
			step = n / run.N(150, 1500)
		}
		for c := 1; c < n; c += step {
			check([]int{c}, "single-cut", c%17 == 0 || c == n-1)
		}
		// cuts around every frame boundary
		for _, bd := range bounds {
			for d := -4; d <= 4; d++ {
				check([]int{bd + d}, "boundary-cut", d == -1 || d == 1)
			}
		}
		// every pair of positions for short streams
		if n <= run.N(70, 120) {
			for a := 1; a < n; a++ {
				for b := a + 1; b < n; b++ {
					check([]int{a, b}, "pair-cut", (a*131+b)%211 == 0)
				}
			}
		}
		// 1-byte reads
		if n <= 3000 {
			cuts := make([]int, 0, n)
			for c := 1; c < n; c++ {
				cuts = append(cuts, c)
			}
			check(cuts, "one-byte-reads", n <= 300)
		}
		// random segmentations
		for k := 0; k < run.N(6, 30); k++ {
			var cuts []int
			pos := 0
			for pos < n {
				pos += 1 + r.Intn(1+r.Pick([]int{3, 20, 200, n}))
				if pos < n {
					cuts = append(cuts, pos)
				}
			}
			check(cuts, "random-cuts", k < 2)
		}
		if len(run.Sum.Samples) < 4 {
			run.Sample(map[string]interface{}{"codec": cd.Name, "stream_len": n, "frames": nfr, "frame_ends": bounds, "kind": kind, "events": len(whole.Events)})
		}
	}
	sh.Close()
}

func c07(args []string) int {
	run := NewRun("C07", args)
	run.Sum.Rule = "per codec: streams of 1-4 structured valid frames (generator of C08; every third stream may hold a 64KiB+ frame; every fifth ends in an incomplete frame) cut at EVERY single position (sampled above 600 bytes), +-4 around every frame boundary, every PAIR of positions (streams <= 90 bytes), into 1-byte reads, and at random; each segmentation is fed read by read into one accumulating IoBuffer with the Dispatch loop around the REAL Decode. Non-trivial = more than one chunk; distinct by (codec, stream, cut set). mixed: bolt-family streams mixing v1/v2 requests, one-way requests, responses, heartbeats and heartbeat acks (incl. the minimal 20-byte v1 response, also as the last frame) through BOTH entry codecs, received up to every frame end and one byte more. matchers: the seven real protocol matchers on every prefix (0..40 bytes and the whole) of generated frames of every codec, HTTP/1 request lines, the HTTP/2 preface, a crafted bolt frame carrying the dubbo-thrift magic at offset 4, and random bytes; the real SelectStreamFactoryProtocol is called 400 times when two matchers accept. selection: the REAL SelectStreamFactoryProtocol (all seven registered factories, Go map order) on EVERY prefix of valid first frames of every protocol (tars packages of 30..300 bytes included): the verdict must be the one-read verdict or EAGAIN."
	for _, cd := range codecDefs() {
		c07Codec(run, cd)
	}
	c07BoltMixed(run)
	c07Matchers(run)
	c07Select(run)
	return run.Finish()
}

// c07BoltMixed: MIXED-version streams (bolt v1 and v2 requests, one-way requests, responses, heartbeats, heartbeat acks incl.
// the minimal 20-byte v1 response) through BOTH entry codecs, cut at every frame end and one byte after it, the short v1 frame
// also as the LAST frame.  Finder: every COMPLETE frame in the received bytes is extracted (`<entry>:complete-frame-not-extracted`).
func c07BoltMixed(run *Run) {
	r := run.R
	mk := func(v2 bool, kind byte, cmdcode uint16, small bool) []byte {
		f := &boltFrame{V2: v2, Kind: kind, First: 1, Ver1: 1, CmdCode: cmdcode, Ver2: 1, ReqID: uint32(r.U64()), Codec: 1, Tail: uint32(r.Intn(3000))}
		if v2 {
			f.First = 2
		}
		if kind == 0 {
			f.Tail &= 0xffff
		}
		if !small {
			f.Class = []byte(randName(r, r.Intn(12)))
			if r.Pct(60) {
				f.KVs = [][2]string{{"service", randName(r, 1+r.Intn(8))}}
				f.Hdr = encKVs(f.KVs)
			}
			f.Content = r.Bytes(r.Intn(20))
		}
		return f.bytes()
	}
	minimalV1Resp := func() []byte { return mk(false, 0, 0, true) } // 20 bytes: the v1 heartbeat ack
	pool := []func() []byte{
		func() []byte { return mk(false, 1, 1, false) }, func() []byte { return mk(true, 1, 1, false) },
		func() []byte { return mk(false, 2, 1, false) }, func() []byte { return mk(true, 2, 1, false) },
		func() []byte { return mk(false, 0, 2, false) }, func() []byte { return mk(true, 0, 2, false) },
		func() []byte { return mk(false, 1, 0, true) }, func() []byte { return mk(true, 1, 0, true) }, // heartbeats
		minimalV1Resp, func() []byte { return mk(true, 0, 0, true) }, // heartbeat acks (20 and 22 bytes)
		func() []byte { return mk(false, 0, 2, true) }, // empty v1 response
	}
	defs := codecDefs()
	for _, cd := range defs[:2] { // bolt and boltv2 entry
		sh := run.NewShard(cd.Header, cd.SegType, cd.SegEval)
		for i := 0; i < run.N(12, 150); i++ {
			nfr := 2 + r.Intn(4)
			var stream []byte
			var ends []int
			for k := 0; k < nfr; k++ {
				fr := pool[r.Intn(len(pool))]()
				if k == nfr-1 && i%2 == 0 {
					fr = minimalV1Resp()
				}
				stream = append(stream, fr...)
				ends = append(ends, len(stream))
			}
			rep0 := map[string]interface{}{"entry": cd.Name, "stream_hex": Hex(stream), "frame_ends": ends}
			for k, e := range ends {
				for _, cut := range []int{e, e + 1} {
					if cut > len(stream) {
						continue
					}
					so := decodeLoop(cd.Proto, cd.Sum, [][]byte{stream[:cut]})
					run.Count(fmt.Sprintf("%s|mixed|%d|%d", cd.Name, i, cut), true, cd.Name+":mixed-version-stream")
					if so.Closed || len(so.Events) < k+1 {
						rep := map[string]interface{}{"entry": cd.Name, "stream_hex": Hex(stream), "frame_ends": ends, "received": cut, "complete_frames": k + 1, "extracted": len(so.Events), "closed": so.Closed}
						run.Fail(cd.Name+":complete-frame-not-extracted", fmt.Sprintf("%s entry: %d bytes received hold %d complete bolt-family frames but only %d were extracted (closed=%v): a complete frame waits for bytes that may never come", cd.Name, cut, k+1, len(so.Events), so.Closed), rep)
					}
					// chunked = whole (finder) and the Coq model
					two := decodeLoop(cd.Proto, cd.Sum, cutAt(stream, []int{cut}))
					whole := decodeLoop(cd.Proto, cd.Sum, [][]byte{stream})
					if two.key() != whole.key() {
						run.Fail(cd.Name+":segmentation-dependent:mixed-version-stream", fmt.Sprintf("%s entry: cutting the mixed-version stream at %d changes the extracted frames", cd.Name, cut), rep0)
					}
					if k == len(ends)-1 || (i+k)%3 == 0 {
						sh.Add(cd.SegTerm([][]byte{stream[:cut]}, so), map[string]interface{}{"entry": cd.Name, "received": cut, "frame_ends": ends})
					}
				}
			}
		}
		sh.Close()
	}
}
