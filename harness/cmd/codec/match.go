package main

// Protocol matchers and automatic protocol detection (part of C07): the seven REAL matchers on every prefix of generated
// valid frames / HTTP request lines / the HTTP/2 preface, compared with Model/Matchers.v; finder: Success and
// Failed are final along the prefixes, at most one matcher accepts a prefix, and the REAL
// SelectStreamFactoryProtocol (factory map iterated in Go map order) gives one answer for one byte string.

import (
	"context"
	"fmt"
	"sort"
	"strings"

	"mosn.io/mosn/pkg/protocol"
	str "mosn.io/mosn/pkg/stream"
	shttp "mosn.io/mosn/pkg/stream/http"
	shttp2 "mosn.io/mosn/pkg/stream/http2"

	. "vh/vhlib"
)

var matchNames = []string{"bolt", "boltv2", "dubbo", "dubbo-thrift", "tars", "http1", "http2"}

// realMatch: 0 again, 1 success, 2 failed, for the matchers in the order of Model/Matchers.v all_protos
func realMatch(b []byte) [7]int {
	var out [7]int
	ctx := context.Background()
	for i, n := range matchNames[:5] {
		switch codecs[n].ProtocolMatch()(b) {
		case 0: // api.MatchFailed
			out[i] = 2
		case 1: // api.MatchSuccess
			out[i] = 1
		default:
			out[i] = 0
		}
	}
	conv := func(err error) int {
		switch err {
		case nil:
			return 1
		case str.EAGAIN:
			return 0
		}
		return 2
	}
	out[5] = conv((&shttp.StreamConnFactory{}).ProtocolMatch(ctx, "", b))
	out[6] = conv((&shttp2.StreamConnFactory{}).ProtocolMatch(ctx, "", b))
	return out
}

func c07Matchers(run *Run) {
	r := run.R
	sh := run.NewShard("From MV Require Import Lib.Bytes Model.Matchers.\nFrom Coq Require Import List NArith.\nImport ListNotations.\nOpen Scope N_scope.\n", "match_case", "match_mismatches")
	var inputs [][]byte
	var kinds []string
	for _, cd := range codecDefs() {
		for i := 0; i < run.N(6, 60); i++ {
			b := cd.Gen(r, false).Bytes
			if len(b) > 300 {
				b = b[:300]
			}
			inputs = append(inputs, b)
			kinds = append(kinds, cd.Name)
		}
	}
	for _, m := range []string{"GET", "POST", "PUT", "HEAD", "DELETE", "OPTIONS", "TRACE", "CONNECT", "PATCH", "LINK", "UNLINK", "GETX", "PRI", "BREW", "get"} {
		inputs = append(inputs, []byte(m+" /a/b?c=d HTTP/1.1\r\nHost: x\r\n\r\n"))
		kinds = append(kinds, "http1")
	}
	inputs = append(inputs, []byte("PRI * HTTP/2.0\r\n\r\nSM\r\n\r\n\x00\x00\x00\x04\x00\x00\x00\x00\x00"), []byte("PRI * HTTP/2.0\r\n\r\nSX\r\n\r\n"), []byte("PRI * HTTP/1.1\r\n\r\n"))
	kinds = append(kinds, "http2", "http2", "http2")
	// the crafted collision: a bolt request whose version byte is 0xda and whose request id starts with 0xbc
	col := boltReq("c", nil, nil)
	col[4] = 0xda
	col[5] = 0xbc
	inputs = append(inputs, col)
	kinds = append(kinds, "bolt-collides-with-dubbo-thrift")
	for i := 0; i < run.N(40, 400); i++ {
		b := r.Bytes(r.Intn(30))
		inputs = append(inputs, b)
		kinds = append(kinds, "random")
	}
	ctx := context.Background()
	for idx, in := range inputs {
		kind := kinds[idx]
		maxp := len(in)
		if maxp > 40 {
			maxp = 40
		}
		var prev [7]int
		plens := []int{}
		for n := 0; n <= maxp; n++ {
			plens = append(plens, n)
		}
		if len(in) > 40 {
			plens = append(plens, len(in))
		}
		for pi, n := range plens {
			p := in[:n]
			res := realMatch(p)
			var succ []string
			for i, v := range res {
				if v == 1 {
					succ = append(succ, matchNames[i])
				}
				if pi > 0 && prev[i] != 0 && prev[i] != v {
					run.Fail("automatch:matcher-not-monotone:"+matchNames[i], fmt.Sprintf("matcher %s changed its final answer %d to %d when more bytes arrived", matchNames[i], prev[i], v), map[string]interface{}{"kind": kind, "prefix_hex": Hex(p)})
				}
			}
			prev = res
			rep := map[string]interface{}{"kind": kind, "prefix_len": n, "prefix_hex": Hex(p), "accepting": succ}
			run.Count(fmt.Sprintf("match|%d|%d", idx, n), n > 0, "matchers:"+kind)
			if len(succ) > 1 {
				sort.Strings(succ)
				run.Fail("automatch:two-matchers-accept:"+strings.Join(succ, "+"), fmt.Sprintf("the matchers %v all accept the same bytes (%s); SelectStreamFactoryProtocol iterates a Go map, so the detected protocol is not a function of the bytes", succ, kind), rep)
				// reproduce on the real selection
				seen := map[string]bool{}
				for k := 0; k < 400; k++ {
					pn, err := protocol.SelectStreamFactoryProtocol(ctx, "", p, nil)
					seen[fmt.Sprint(pn, err)] = true
				}
				if len(seen) > 1 {
					var ks []string
					for k := range seen {
						ks = append(ks, k)
					}
					sort.Strings(ks)
					rep["select_results"] = ks
					run.Fail("automatch:selection-depends-on-map-order:"+strings.Join(succ, "+"), fmt.Sprintf("SelectStreamFactoryProtocol returned %v for the same bytes", ks), rep)
				}
			}
			var it []string
			for _, v := range res {
				it = append(it, fmt.Sprint(v))
			}
			sh.Add(fmt.Sprintf("(%s, [%s]%%N)", CoqBytes(p), strings.Join(it, ";")), rep)
			if sh.Len() >= 400 {
				sh.Close()
				sh = run.NewShard(sh.Header, sh.Typ, sh.Eval)
			}
		}
	}
	sh.Close()
}
