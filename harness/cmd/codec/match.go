package main

// Protocol matchers and automatic protocol detection (part of C07): the seven REAL matchers on every prefix of generated
// valid frames / HTTP request lines / the HTTP/2 preface, compared with Model/Matchers.v; finder: Success and
// Failed are final along the prefixes, at most one matcher accepts a prefix, and the REAL
// SelectStreamFactoryProtocol (factory map iterated in Go map order) gives one answer for one byte string.

import (
	"context"
	"fmt"
	"sort"
	"strings"

	"mosn.io/mosn/pkg/protocol"
	str "mosn.io/mosn/pkg/stream"
	shttp "mosn.io/mosn/pkg/stream/http"
	shttp2 "mosn.io/mosn/pkg/stream/http2"

	. "vh/vhlib"
)

var matchNames = []string{"bolt", "boltv2", "dubbo", "dubbo-thrift", "tars", "http1", "http2"}

// realMatch: 0 again, 1 success, 2 failed, for the matchers in the order of Model/Matchers.v all_protos
func realMatch(b []byte) [7]int {
	var out [7]int
	ctx := context.Background()
	for i, n := range matchNames[:5] {
		switch codecs[n].ProtocolMatch()(b) {
		case 0: // api.MatchFailed
			out[i] = 2
		case 1: // api.MatchSuccess
			out[i] = 1
		default:
			out[i] = 0
		}
	}
	conv := func(err error) int {
		switch err {
		case nil:
			return 1
		case str.EAGAIN:
			return 0
		}
		return 2
	}
	out[5] = conv((&shttp.StreamConnFactory{}).ProtocolMatch(ctx, "", b))
	out[6] = conv((&shttp2.StreamConnFactory{}).ProtocolMatch(ctx, "", b))
	return out
}

func c07Matchers(run *Run) {
	r := run.R
	sh := run.NewShard("From MV Require Import Lib.Bytes Model.Matchers.\nFrom Coq Require Import List NArith.\nImport ListNotations.\nOpen Scope N_scope.\n", "match_case", "match_mismatches")
	var inputs [][]byte
	var kinds []string
	for _, cd := range codecDefs() {
		for i := 0; i < run.N(4, 60); i++ {
			b := cd.Gen(r, false).Bytes
			if len(b) > 300 {
				b = b[:300]
			}
			inputs = append(inputs, b)
			kinds = append(kinds, cd.Name)
		}
	}
	for _, m := range []string{"GET", "POST", "PUT", "HEAD", "DELETE", "OPTIONS", "TRACE", "CONNECT", "PATCH", "LINK", "UNLINK", "GETX", "PRI", "BREW", "get"} {
		inputs = append(inputs, []byte(m+" /a/b?c=d HTTP/1.1\r\nHost: x\r\n\r\n"))
		kinds = append(kinds, "http1")
	}
	inputs = append(inputs, []byte("PRI * HTTP/2.0\r\n\r\nSM\r\n\r\n\x00\x00\x00\x04\x00\x00\x00\x00\x00"), []byte("PRI * HTTP/2.0\r\n\r\nSX\r\n\r\n"), []byte("PRI * HTTP/1.1\r\n\r\n"))
	kinds = append(kinds, "http2", "http2", "http2")
	// the crafted collision: a bolt request whose version byte is 0xda and whose request id starts with 0xbc
	col := boltReq("c", nil, nil)
	col[4] = 0xda
	col[5] = 0xbc
	inputs = append(inputs, col)
	kinds = append(kinds, "bolt-collides-with-dubbo-thrift")
	// other frames carrying a foreign magic where their own format has free fields
	for _, first := range [][]byte{{1, 1}, {2, 1}, {0xda, 0xbb}, {0, 0}, []byte("GE"), []byte("PR"), {0, 1}} {
		for _, at4 := range [][]byte{{0xda, 0xbc}, {0x10, 0x01}, {0x10, 0x03}} {
			b := r.Bytes(40)
			copy(b, first)
			copy(b[4:], at4)
			if r.Pct(50) {
				b[2], b[3] = 0, 40
			}
			inputs = append(inputs, b)
			kinds = append(kinds, "crafted-magic-overlap")
		}
	}
	for i := 0; i < run.N(25, 400); i++ {
		b := r.Bytes(r.Intn(30))
		inputs = append(inputs, b)
		kinds = append(kinds, "random")
	}
	ctx := context.Background()
	for idx, in := range inputs {
		kind := kinds[idx]
		maxp := len(in)
		if maxp > 40 {
			maxp = 40
		}
		var prev [7]int
		plens := []int{}
		for n := 0; n <= maxp; n++ {
			plens = append(plens, n)
		}
		if len(in) > 40 {
			plens = append(plens, len(in))
		}
		for pi, n := range plens {
			p := in[:n]
			res := realMatch(p)
			var succ []string
			for i, v := range res {
				if v == 1 {
					succ = append(succ, matchNames[i])
				}
				if pi > 0 && prev[i] != 0 && prev[i] != v {
					run.Fail("automatch:matcher-not-monotone:"+matchNames[i], fmt.Sprintf("matcher %s changed its final answer %d to %d when more bytes arrived", matchNames[i], prev[i], v), map[string]interface{}{"kind": kind, "prefix_hex": Hex(p)})
				}
			}
			prev = res
			rep := map[string]interface{}{"kind": kind, "prefix_len": n, "prefix_hex": Hex(p), "accepting": succ}
			run.Count(fmt.Sprintf("match|%d|%d", idx, n), n > 0, "matchers:"+kind)
			if len(succ) > 1 {
				sort.Strings(succ)
				run.Fail("automatch:two-matchers-accept:"+strings.Join(succ, "+"), fmt.Sprintf("the matchers %v all accept the same bytes (%s); SelectStreamFactoryProtocol iterates a Go map, so the detected protocol is not a function of the bytes", succ, kind), rep)
				// reproduce on the real selection
				seen := map[string]bool{}
				for k := 0; k < 400; k++ {
					pn, err := protocol.SelectStreamFactoryProtocol(ctx, "", p, nil)
					seen[fmt.Sprint(pn, err)] = true
				}
				if len(seen) > 1 {
					var ks []string
					for k := range seen {
						ks = append(ks, k)
					}
					sort.Strings(ks)
					rep["select_results"] = ks
					run.Fail("automatch:selection-depends-on-map-order:"+strings.Join(succ, "+"), fmt.Sprintf("SelectStreamFactoryProtocol returned %v for the same bytes", ks), rep)
				}
			}
			var it []string
			for _, v := range res {
				it = append(it, fmt.Sprint(v))
			}
			sh.Add(fmt.Sprintf("(%s, [%s]%%N)", CoqBytes(p), strings.Join(it, ";")), rep)
			if sh.Len() >= 400 {
				sh.Close()
				sh = run.NewShard(sh.Header, sh.Typ, sh.Eval)
			}
		}
	}
	sh.Close()
}

// ---- the REAL SelectStreamFactoryProtocol on every prefix of a valid first frame of every protocol -------------

var selNames = []string{"bolt", "boltv2", "dubbo", "dubbo-thrift", "tars", "Http1", "Http2"}

// selVerdict: 0 EAGAIN, 1 FAILED, 10+i protocol i (index in selNames / Model all_protos), 98 unknown protocol name
func selVerdict(p []byte) (int, string) {
	pn, err := protocol.SelectStreamFactoryProtocol(context.Background(), "", p, nil)
	switch err {
	case nil:
		for i, n := range selNames {
			if string(pn) == n {
				return 10 + i, n
			}
		}
		return 98, string(pn)
	case protocol.EAGAIN:
		return 0, "EAGAIN"
	}
	return 1, "FAILED"
}

func c07Select(run *Run) {
	r := run.R
	sh := run.NewShard("From MV Require Import Lib.Bytes Model.Matchers.\nFrom Coq Require Import List NArith.\nImport ListNotations.\nOpen Scope N_scope.\n", "sel_case", "sel_mismatches")
	shBytes := 0
	type first struct {
		proto string
		b     []byte
	}
	var firsts []first
	defs := codecDefs()
	for _, cd := range defs {
		want := cd.Name
		for i := 0; i < run.N(4, 40); i++ {
			var b []byte
			for tries := 0; tries < 50; tries++ {
				b = cd.Gen(r, false).Bytes
				// the frame must start with the codec's own protocol code (the bolt generators mix the two bolt versions)
				if (want == "bolt" && b[0] != 1) || (want == "boltv2" && b[0] != 2) {
					continue
				}
				if len(b) <= 400 && (want != "tars" || len(b) >= 30) {
					break
				}
			}
			firsts = append(firsts, first{want, b})
		}
	}
	// tars packages of 30..300 bytes explicitly (the matcher answers Again until the whole package is buffered)
	for _, n := range []int{0, 10, 40, 100, 200, 250} {
		firsts = append(firsts, first{"tars", tarsReq(int32(r.U64()), "svc."+randName(r, 5), "fn", r.Bytes(n), map[string]string{"k": "v"})})
		firsts = append(firsts, first{"tars", tarsResp(int32(r.U64()), int32(r.Intn(3))-1, r.Bytes(n), "d")})
	}
	for _, m := range []string{"GET", "POST", "DELETE", "OPTIONS", "CONNECT", "PATCH"} {
		firsts = append(firsts, first{"Http1", []byte(m + " /a/b?c=d HTTP/1.1\r\nHost: x\r\nContent-Length: 0\r\n\r\n")})
	}
	firsts = append(firsts, first{"Http2", []byte("PRI * HTTP/2.0\r\n\r\nSM\r\n\r\n\x00\x00\x00\x04\x00\x00\x00\x00\x00")})
	for fi, f := range firsts {
		whole, wname := selVerdict(f.b)
		acc := 0
		for _, v := range realMatch(f.b) {
			if v == 1 {
				acc++
			}
		}
		rep0 := map[string]interface{}{"protocol": f.proto, "frame_len": len(f.b), "frame_hex": Hex(clip(f.b, 1024)), "one_read_verdict": wname}
		if acc > 1 {
			continue // two matchers accept the whole frame: the listed collision, reported by c07Matchers
		}
		if wname != f.proto {
			run.Fail("automatch:valid-first-frame-not-detected:"+f.proto, fmt.Sprintf("a valid first %s frame delivered in one read is detected as %s", f.proto, wname), rep0)
		}
		for k := 0; k <= len(f.b); k++ {
			v, name := selVerdict(f.b[:k])
			run.Count(fmt.Sprintf("sel|%d|%d", fi, k), k > 0 && k < len(f.b), "select:"+f.proto)
			// a verdict on a prefix must be the one-read verdict or EAGAIN; FAILED / another protocol on a prefix means that
			// the detected protocol depends on where the first read ends
			if v != 0 && v != whole {
				rep := map[string]interface{}{"protocol": f.proto, "frame_len": len(f.b), "frame_hex": Hex(clip(f.b, 1024)), "cut": k, "prefix_verdict": name, "one_read_verdict": wname}
				run.Fail("automatch:verdict-depends-on-segmentation:"+f.proto, fmt.Sprintf("a first %s frame of %d bytes is detected as %s in one read, but a first read of %d bytes gets %s", f.proto, len(f.b), wname, k, name), rep)
			}
			if !run.Thorough() && k != len(f.b) && ((len(f.b) > 120 && k%9 != 0) || (len(f.b) > 45 && k > 30 && k%3 != 0)) {
				continue
			}
			term := fmt.Sprintf("(%s, %d)", CoqBytes(f.b[:k]), v)
			sh.Add(term, map[string]interface{}{"protocol": f.proto, "cut": k, "verdict": name})
			shBytes += len(term)
			if sh.Len() >= 400 || shBytes > 90000 {
				sh.Close()
				sh = run.NewShard(sh.Header, sh.Typ, sh.Eval)
				shBytes = 0
			}
		}
	}
	sh.Close()
}
