package main

// C01 (xprotocol codecs) - forwarding fidelity.  Every generated frame goes through the REAL Decode, a script of
// setter calls, and the REAL Encode.
//   finder (the property itself): (a) with only SetRequestId the output is the input with the id bytes replaced, also
//   when the connection's read buffer is overwritten after Decode and when Encode is called twice; (b) after header
//   Set/Del and SetData the output either is refused (only when unrepresentable) or decodes - completely, as one frame,
//   without error - to exactly the intended content (reference list semantics kept here), incl. the Del(k)+Set(longer
//   new key) scripts; correspondence: the Coq encoder models on the same scripts.

import (
	"bytes"
	"context"
	"encoding/binary"
	"fmt"
	"reflect"
	"strings"

	"github.com/TarsCloud/TarsGo/tars/protocol/codec"
	"github.com/TarsCloud/TarsGo/tars/protocol/res/requestf"
	"github.com/apache/thrift/lib/go/thrift"
	"mosn.io/api"
	"mosn.io/mosn/pkg/protocol/xprotocol/bolt"
	"mosn.io/mosn/pkg/protocol/xprotocol/boltv2"
	"mosn.io/pkg/buffer"
	"mosn.io/pkg/header"

	. "vh/vhlib"
)

type opRec struct {
	Kind string `json:"op"` // id | set | del | data
	K    string `json:"k,omitempty"`
	V    string `json:"v,omitempty"`
	N    int    `json:"n,omitempty"`
	ID   uint64 `json:"id,omitempty"`
	data []byte
}

func (o opRec) coq() string {
	switch o.Kind {
	case "id":
		return fmt.Sprintf("OpSetId %d", o.ID)
	case "set":
		return fmt.Sprintf("OpSetHeader %s %s", CoqBytes([]byte(o.K)), CoqBytes([]byte(o.V)))
	case "del":
		return fmt.Sprintf("OpDelHeader %s", CoqBytes([]byte(o.K)))
	}
	if o.Kind == "inplace" {
		return fmt.Sprintf("OpRewriteInPlace %s", CoqBytes(o.data))
	}
	return fmt.Sprintf("OpSetData %s", CoqBytes(o.data))
}

func boltParts(f interface{}) (class []byte, kvs []header.BytesKV, content []byte, reqid uint32, ok bool) {
	switch x := f.(type) {
	case *bolt.Request:
		return []byte(x.Class), x.Kvs, ioBytes(x.Content), x.RequestId, true
	case *bolt.Response:
		return []byte(x.Class), x.Kvs, ioBytes(x.Content), x.RequestId, true
	case *boltv2.Request:
		return []byte(x.Class), x.Kvs, ioBytes(x.Content), x.RequestId, true
	case *boltv2.Response:
		return []byte(x.Class), x.Kvs, ioBytes(x.Content), x.RequestId, true
	}
	return nil, nil, nil, 0, false
}

// decodeFresh: real Decode of `in` from its own backing array (returned so that the caller can overwrite it)
func decodeFresh(p api.XProtocol, in []byte) (f interface{}, backing []byte, err error, pan interface{}) {
	backing = append(make([]byte, 0, len(in)+32), in...)
	buf := buffer.NewIoBufferBytes(backing)
	f, err, pan = safeDecode(p, buf)
	return
}

func safeEncode(p api.XProtocol, f interface{}) (out []byte, err error, pan interface{}) {
	defer func() {
		if r := recover(); r != nil {
			pan = r
		}
	}()
	b, e := p.Encode(context.Background(), f)
	if e != nil {
		return nil, e, nil
	}
	return append([]byte{}, b.Bytes()...), nil, nil
}

func c01Bolt(run *Run, cd *codecDef, v2engine bool) {
	r := run.R
	sh := run.NewShard(boltShardHeader, "enc_case", "enc_mismatches")
	shBytes := 0
	add := func(in []byte, ops []opRec, out []byte, encErr bool, rep interface{}) {
		if (len(in)+len(out) > 30000 && r.Pct(run.N(85, 50))) || (!run.Thorough() && len(in)+len(out) > 3000 && r.Pct(50)) {
			return
		}
		var it []string
		for _, o := range ops {
			it = append(it, o.coq())
		}
		opsT := "(@nil bolt_op)"
		if len(it) > 0 {
			opsT = "[" + strings.Join(it, "; ") + "]"
		}
		ob := "EoErr"
		if !encErr {
			rp := &relPrinter{in}
			ob = "(EoBytes " + rp.B(out) + ")"
			if len(out) > 64 && !bytes.Contains(in, out) {
				ob = "(EoBytes " + CoqBytes(out) + ")"
			}
		}
		term := letB(in, fmt.Sprintf("(%s, b, %s, %s)", CoqBool(v2engine), opsT, ob))
		sh.Add(term, rep)
		shBytes += len(term)
		if sh.Len() >= 200 || shBytes > 110000 {
			sh.Close()
			sh = run.NewShard(boltShardHeader, "enc_case", "enc_mismatches")
			shBytes = 0
		}
	}
	nframes := run.N(16, 250)
	for i := 0; i < nframes; i++ {
		vf := cd.Gen(r, i%8 == 7)
		in := vf.Bytes
		bf := vf.Desc.(*boltFrame)
		idOff := 5
		if bf.V2 {
			idOff = 6
		}
		// ---- (a) id only, three variants
		for variant := 0; variant < 3; variant++ {
			f, backing, err, pan := decodeFresh(cd.Proto, in)
			rep := map[string]interface{}{"codec": cd.Name, "script": "id-only", "variant": variant, "frame": vf.Desc, "input_hex": Hex(clip(in, 2048))}
			if f == nil || err != nil || pan != nil {
				run.Fail(cd.Name+":valid-frame-not-decoded", fmt.Sprintf("%s: generated valid frame not decoded: err=%v panic=%v", cd.Name, err, pan), rep)
				break
			}
			id := r.U64()
			if r.Pct(30) {
				id = uint64(r.Pick([]int{0, 1, 255, 256, 65535, 65536, 0x7fffffff})) + uint64(r.Intn(2))<<32
			}
			f.(api.XFrame).SetRequestId(id)
			how := "plain"
			if variant == 1 {
				how = "read-buffer-overwritten-after-decode"
				for k := range backing[:cap(backing)] {
					backing[:cap(backing)][k] = 0x55
				}
			}
			out, eerr, epan := safeEncode(cd.Proto, f)
			if variant == 2 {
				how = "encode-twice"
				out2, _, _ := safeEncode(cd.Proto, f)
				if !bytes.Equal(out, out2) {
					run.Fail(cd.Name+":encode-twice-differs", cd.Name+": two Encode calls on the same frame return different bytes", rep)
				}
			}
			want := append([]byte{}, in...)
			binary.BigEndian.PutUint32(want[idOff:], uint32(id))
			rep["how"] = how
			run.Count(fmt.Sprintf("%s|id|%d|%d", cd.Name, i, variant), true, cd.Name+":id-only:"+how)
			if eerr != nil || epan != nil || !bytes.Equal(out, want) {
				rep["got_hex"] = Hex(clip(out, 2048))
				run.Fail(cd.Name+":forwarded-frame-not-identical:"+how, fmt.Sprintf("%s: Decode, SetRequestId, Encode (%s) does not return the received frame with only the id replaced (err=%v panic=%v)", cd.Name, how, eerr, epan), rep)
			}
			if eerr == nil && epan == nil {
				checkEmitted(run, cd.Name, out, nil, rep, "id-only:"+how)
			}
			if variant != 1 {
				add(in, []opRec{{Kind: "id", ID: id}}, out, eerr != nil, rep)
			}
		}
		inPlaceRewrite(run, cd, in, vf.Desc)
		// ---- (b) modification scripts
		for s := 0; s < run.N(3, 6); s++ {
			f, _, err, pan := decodeFresh(cd.Proto, in)
			if f == nil || err != nil || pan != nil {
				break
			}
			xf := f.(api.XFrame)
			class, kvs0, content0, _, _ := boltParts(f)
			class = append([]byte{}, class...)
			// reference content
			type pair struct{ k, v string }
			var ref []pair
			for _, p := range kvs0 {
				ref = append(ref, pair{string(p.Key), string(p.Value)})
			}
			body := append([]byte{}, content0...)
			refSet := func(k, v string) {
				for i := range ref {
					if ref[i].k == k {
						ref[i].v = v
						return
					}
				}
				ref = append(ref, pair{k, v})
			}
			refDel := func(k string) {
				for i := range ref {
					if ref[i].k == k {
						ref = append(ref[:i:i], ref[i+1:]...)
						return
					}
				}
			}
			var ops []opRec
			changed := false
			inPlaceSame, contentReplaced := false, false
			_ = inPlaceSame
			reqid := uint32(xf.GetRequestId())
			nops := 1 + r.Intn(5)
			scriptKind := r.Intn(9)
			if s == 0 {
				scriptKind = 6 + i%3 // every frame: one script around the scratch / pool buffer boundaries
			}
			overhead := len(in) - len(content0)
			for k := 0; k < nops; k++ {
				choice := r.Intn(8)
				if scriptKind == 0 && k == 0 && len(ref) > 0 {
					choice = 100 // Del(existing) then Set(new, longer key)
				}
				if k == 0 && (scriptKind == 6 || scriptKind == 7) {
					choice = 7 // SetData: the re-encoded frame / its body around 1024, 4096, 65536 ...
				}
				if k == 0 && scriptKind == 8 {
					choice = 3 // header mutation that forces the re-encode, header block around the boundaries
				}
				switch {
				case choice == 100:
					victim := ref[r.Intn(len(ref))].k
					xf.GetHeader().Del(victim)
					refDel(victim)
					ops = append(ops, opRec{Kind: "del", K: victim})
					nk := victim + randName(r, 1+r.Intn(40)) + "X"
					nv := randName(r, r.Intn(30))
					xf.GetHeader().Set(nk, nv)
					refSet(nk, nv)
					ops = append(ops, opRec{Kind: "set", K: nk, V: nv})
					changed = true
				case choice == 0:
					id := r.U64()
					xf.SetRequestId(id)
					reqid = uint32(id)
					ops = append(ops, opRec{Kind: "id", ID: id})
				case choice <= 2 && len(ref) > 0: // set existing key: shorter / equal / longer value
					p := ref[r.Intn(len(ref))]
					nl := []int{len(p.v) / 2, len(p.v), len(p.v) + 1 + r.Intn(20), 0}[r.Intn(4)]
					nv := randName(r, nl)
					xf.GetHeader().Set(p.k, nv)
					refSet(p.k, nv)
					ops = append(ops, opRec{Kind: "set", K: p.k, V: nv})
					changed = true
				case choice == 3: // new key
					nk, nv := "n"+randName(r, r.Intn(12)), randName(r, pickLen(r, false))
					if scriptKind == 1 && k == 0 {
						nv = randName(r, r.Pick([]int{65535, 65536, 70000, 65535 - 8 - len(nk)}))
					}
					if scriptKind == 8 && k == 0 {
						n := boundaryTotal(r) - overhead - 8 - len(nk)
						if n < 0 || n > 60000 {
							n = 1024 - 8 - len(nk) + r.Intn(3) - 1
						}
						nv = string(runBytes(r, n, true))
					}
					xf.GetHeader().Set(nk, nv)
					refSet(nk, nv)
					ops = append(ops, opRec{Kind: "set", K: nk, V: nv})
					changed = true
				case choice == 4 && len(ref) > 0: // delete existing
					victim := ref[r.Intn(len(ref))].k
					xf.GetHeader().Del(victim)
					refDel(victim)
					ops = append(ops, opRec{Kind: "del", K: victim})
					changed = true
				case choice == 5: // delete missing: no change
					xf.GetHeader().Del("missing-" + randName(r, 3))
					ops = append(ops, opRec{Kind: "del", K: "missing-key"})
					xf.GetHeader().Del("missing-key")
				case choice == 6 && xf.GetData() != nil: // body buffer rewritten in place, SetData with the same buffer
					cur := xf.GetData()
					nl := cur.Len()
					if r.Pct(50) {
						nl = r.Pick([]int{0, 1, nl / 2, nl + 1, nl + 7, 300})
					}
					d := r.Bytes(nl)
					sameLen := nl == cur.Len()
					cur.Reset()
					cur.Write(d)
					xf.SetData(cur)
					body = d
					ops = append(ops, opRec{Kind: "inplace", N: nl, data: d})
					if !sameLen || nl > 0 {
						changed = true
					}
					inPlaceSame = inPlaceSame || (sameLen && !contentReplaced)
					if !sameLen {
						contentReplaced = true
					}
				default: // body
					contentReplaced = true
					nl := pickLen(r, false)
					if scriptKind == 2 {
						nl = r.Pick([]int{0, 65535, 65536, 65537})
					}
					var d []byte
					if nl > 1024 {
						d = runBytes(r, nl, false)
					} else {
						d = r.Bytes(nl)
					}
					if (scriptKind == 6 || scriptKind == 7) && k == 0 {
						d = boundaryBody(r, overhead)
						nl = len(d)
					}
					xf.SetData(buffer.NewIoBufferBytes(d))
					body = d
					ops = append(ops, opRec{Kind: "data", N: nl, data: d})
					changed = true
				}
			}
			out, moved, eerr, epan := encodeChurn(cd.Proto, f)
			hdrLen := 0
			for _, p := range ref {
				hdrLen += 8 + len(p.k) + len(p.v)
			}
			representable := len(class) <= 65535 && hdrLen <= 65535 && uint64(len(body)) <= 0xffffffff
			rep := map[string]interface{}{"codec": cd.Name, "script": ops, "frame": vf.Desc, "input_hex": Hex(clip(in, 2048)), "intended_header_len": hdrLen, "intended_body_len": len(body)}
			run.Count(fmt.Sprintf("%s|mod|%d|%d", cd.Name, i, s), changed, cd.Name+":modify", fmt.Sprintf("%s:script=%d", cd.Name, scriptKind))
			if moved {
				run.Fail(cd.Name+":emitted-bytes-change-after-pool-allocation", cd.Name+": the buffer returned by Encode changed when later buffers were taken from the pools and written", rep)
			}
			if eerr == nil && epan == nil {
				var want *[3]int
				if changed && representable {
					want = &[3]int{len(class), hdrLen, len(body)}
				}
				checkEmitted(run, cd.Name, out, want, rep, "modification script")
			}
			switch {
			case epan != nil:
				run.Fail(cd.Name+":encode-panic", fmt.Sprintf("%s Encode panicked: %v", cd.Name, epan), rep)
			case eerr != nil:
				if representable && changed {
					run.Fail(cd.Name+":encode-refused-representable-frame", fmt.Sprintf("%s Encode refused a representable modified frame: %v", cd.Name, eerr), rep)
				}
			case !changed:
				want := append([]byte{}, in...)
				binary.BigEndian.PutUint32(want[idOff:], reqid)
				if !bytes.Equal(out, want) {
					run.Fail(cd.Name+":forwarded-frame-not-identical:unchanged-script", cd.Name+": a script without effective modification does not return the received frame", rep)
				}
			default:
				// Decode(Encode(fr')) must be exactly the intended content
				g, _, derr, dpan := decodeFresh(cd.Proto, out)
				why := ""
				if g == nil || derr != nil || dpan != nil {
					why = fmt.Sprintf("re-decode failed: frame=%v err=%v panic=%v", g != nil, derr, dpan)
				} else {
					c2, kv2, b2, id2, _ := boltParts(g)
					n2 := 22 + len(c2) + len(b2)
					for _, p := range kv2 {
						n2 += 8 + len(p.Key) + len(p.Value)
					}
					switch {
					case !bytes.Equal(c2, class):
						why = "class differs"
					case !bytes.Equal(b2, body):
						why = fmt.Sprintf("body differs (%d vs %d bytes)", len(b2), len(body))
					case id2 != reqid:
						why = "request id differs"
					case len(kv2) != len(ref):
						why = fmt.Sprintf("number of header pairs %d, intended %d", len(kv2), len(ref))
					default:
						for i := range ref {
							if string(kv2[i].Key) != ref[i].k || string(kv2[i].Value) != ref[i].v {
								why = fmt.Sprintf("header pair %d is (%q,%q), intended (%q,%q)", i, clipS(string(kv2[i].Key), 40), clipS(string(kv2[i].Value), 40), clipS(ref[i].k, 40), clipS(ref[i].v, 40))
								break
							}
						}
					}
					if why == "" && !representable {
						why = "unrepresentable frame was encoded"
					}
				}
				if why != "" {
					rep["got_hex"] = Hex(clip(out, 2048))
					run.Fail(cd.Name+":modified-frame-roundtrip", fmt.Sprintf("%s: Decode(Encode(modified frame)) is not the modified content: %s", cd.Name, why), rep)
				}
			}
			if epan == nil {
				add(in, ops, out, eerr != nil, rep)
			}
			if len(run.Sum.Samples) < 3 && changed {
				run.Sample(map[string]interface{}{"codec": cd.Name, "script": ops, "encode_error": eerr != nil, "out_len": len(out)})
			}
		}
	}
	sh.Close()
}

// dubbo / dubbo-thrift / tars: id-only variants (+ SetData for dubbo and dubbo-thrift)
func c01X(run *Run, cd *codecDef) {
	r := run.R
	sh := run.NewShard(xShardHeader, "xenc_case", "xenc_mismatches")
	slowSh := run.NewShard(xShardHeader, "xslow_case", "xslow_mismatches")
	defer slowSh.Close()
	shBytes := 0
	nframes := run.N(12, 200)
	for i := 0; i < nframes; i++ {
		vf := cd.Gen(r, i%8 == 7)
		in := vf.Bytes
		if cd.Name != "tars" {
			c01CloneAndInPlace(run, cd, in, vf.Desc)
		}
		for variant := 0; variant < 4; variant++ {
			f, backing, err, pan := decodeFresh(cd.Proto, in)
			rep := map[string]interface{}{"codec": cd.Name, "variant": variant, "frame": vf.Desc, "input_hex": Hex(clip(in, 2048))}
			if f == nil || err != nil || pan != nil {
				run.Fail(cd.Name+":valid-frame-not-decoded", fmt.Sprintf("%s: generated valid frame not decoded: err=%v panic=%v", cd.Name, err, pan), rep)
				break
			}
			xf := f.(api.XFrame)
			oldID := xf.GetRequestId()
			id := r.U64()
			if cd.Name == "tars" {
				id = uint64(uint32(r.U64()) & 0x7fffffff)
				if variant == 0 {
					id = oldID // unchanged id: byte identity
				}
			}
			xf.SetRequestId(id)
			how := []string{"plain", "read-buffer-overwritten-after-decode", "encode-twice", "set-data"}[variant]
			if variant == 1 {
				for k := range backing[:cap(backing)] {
					backing[:cap(backing)][k] = 0x55
				}
			}
			var newBody []byte
			if variant == 3 {
				if cd.Name == "tars" {
					continue
				}
				newBody = newBodyFor(r, cd.Name, in)
				xf.SetData(buffer.NewIoBufferBytes(newBody))
			}
			out, moved, eerr, epan := encodeChurn(cd.Proto, f)
			if moved {
				run.Fail(cd.Name+":emitted-bytes-change-after-pool-allocation", cd.Name+": the buffer returned by Encode changed when later buffers were taken from the pools and written", rep)
			}
			if variant == 2 {
				out2, _, _ := safeEncode(cd.Proto, f)
				if !bytes.Equal(out, out2) {
					if cd.Name == "tars" && tarsSamePacket(out, out2) {
						run.Fail("tars:reserialised-not-byte-identical", "tars: two Encode calls on the same frame return different bytes for the same packet (TarsGo re-serialisation: map entries in Go map order)", rep)
					} else {
						run.Fail(cd.Name+":encode-twice-differs", cd.Name+": two Encode calls on the same frame return different bytes", rep)
					}
				}
			}
			rep["how"] = how
			run.Count(fmt.Sprintf("%s|x|%d|%d", cd.Name, i, variant), true, cd.Name+":"+how)
			if eerr != nil || epan != nil {
				run.Fail(cd.Name+":encode-failed:"+how, fmt.Sprintf("%s Encode failed on a decoded valid frame: err=%v panic=%v", cd.Name, eerr, epan), rep)
				continue
			}
			// the property on the real code
			checkEmitted(run, cd.Name, out, nil, rep, how)
			g, _, derr, dpan := decodeFresh(cd.Proto, out)
			switch {
			case g == nil || derr != nil || dpan != nil:
				rep["got_hex"] = Hex(clip(out, 2048))
				run.Fail(cd.Name+":forwarded-frame-not-decodable:"+how, fmt.Sprintf("%s: the encoded frame does not decode: err=%v panic=%v", cd.Name, derr, dpan), rep)
			case g.(api.XFrame).GetRequestId() != xf.GetRequestId():
				run.Fail(cd.Name+":forwarded-id-wrong:"+how, cd.Name+": the encoded frame carries another request id", rep)
			case variant == 3:
				if !bytes.Equal(ioBytes(g.(api.XFrame).GetData()), newBody) {
					rep["got_hex"] = Hex(clip(out, 2048))
					run.Fail(cd.Name+":modified-frame-roundtrip", cd.Name+": Decode(Encode(frame after SetData)) does not carry the new body", rep)
				}
			default:
				want := wantIDPatched(cd.Name, in, id, oldID)
				if cd.Name == "tars" {
					// tars frames are re-serialised by TarsGo from the parsed packet
					if !tarsSamePacket(in, out) {
						rep["got_hex"] = Hex(clip(out, 2048))
						run.Fail("tars:forwarded-packet-differs:"+how, "tars: the re-encoded packet differs from the received one in a field other than the request id", rep)
					} else if want != nil && !bytes.Equal(out, want) {
						rep["got_hex"] = Hex(clip(out, 2048))
						run.Fail("tars:reserialised-not-byte-identical", "tars: Decode, SetRequestId(same id), Encode returns a frame that carries the same packet but is not byte-identical to the received frame (TarsGo re-serialisation: map entries in Go map order)", rep)
					}
				} else if want != nil && !bytes.Equal(out, want) {
					rep["got_hex"] = Hex(clip(out, 2048))
					run.Fail(cd.Name+":forwarded-frame-not-identical:"+how, fmt.Sprintf("%s: Decode, SetRequestId, Encode (%s) does not return the received frame with only the id replaced", cd.Name, how), rep)
				}
			}
			// Coq correspondence (dubbo: all variants; dubbo-thrift: id only + the slow path relative to the library writer;
			// tars: the encoder is TarsGo, covered by the library-relative theorem and the premise checks)
			if cd.Name == "dubbo-thrift" && variant == 3 {
				svc, _ := xf.GetHeader().Get("service")
				lib := thriftWhdr(svc, xf.GetRequestId())
				// the FULL emitted bytes against the model's bytes (the new body printed once)
				ob := CoqBytes(out)
				if len(out) >= len(newBody) && bytes.Equal(out[len(out)-len(newBody):], newBody) {
					ob = "(" + CoqBytes(out[:len(out)-len(newBody)]) + " ++ b)"
				}
				if len(newBody) <= 3000 || run.Thorough() || r.Pct(40) {
					slowSh.Add(letB(newBody, fmt.Sprintf("(%s, b, %s)", CoqBytes(lib), ob)), rep)
				}
				continue
			}
			if cd.Name == "tars" {
				continue
			}
			if variant == 1 {
				continue
			}
			if (len(in)+len(newBody) > 20000 && r.Pct(run.N(85, 50))) || (!run.Thorough() && len(in)+len(newBody) > 3000 && r.Pct(50)) {
				continue
			}
			sd := "None"
			rp := &relPrinter{in}
			ob := CoqBytes(out)
			if variant == 3 {
				sd = "(Some nb)"
				if len(out) > len(newBody) && bytes.Equal(out[len(out)-len(newBody):], newBody) {
					ob = "(" + CoqBytes(out[:len(out)-len(newBody)]) + " ++ nb)"
				}
			} else if bytes.Equal(out[16:], in[16:]) {
				ob = "(" + CoqBytes(out[:16]) + " ++ " + rp.B(in[16:]) + ")"
			}
			term := letB(in, fmt.Sprintf("(%s, b, %d, %s, %s)", xcodecTerm(cd.Name, in), id, sd, ob))
			if variant == 3 {
				term = "(let nb := " + CoqBytes(newBody) + " in " + term + ")"
			}
			sh.Add(term, rep)
			shBytes += len(term)
			if sh.Len() >= 200 || shBytes > 110000 {
				sh.Close()
				sh = run.NewShard(xShardHeader, "xenc_case", "xenc_mismatches")
				shBytes = 0
			}
		}
	}
	sh.Close()
}

// wantIDPatched: the received frame with only the id field replaced (nil: no byte-level expectation)
func wantIDPatched(codec string, in []byte, id, oldID uint64) []byte {
	w := append([]byte{}, in...)
	switch codec {
	case "dubbo":
		binary.BigEndian.PutUint64(w[4:], id)
	case "dubbo-thrift":
		hl := int(binary.BigEndian.Uint16(w[10:12]))
		binary.BigEndian.PutUint64(w[4+hl-8:], id)
	case "tars":
		if id != oldID {
			return nil // the Jce integer width of the id may change: compared through re-decoding only
		}
	}
	return w
}

func c01(args []string) int {
	run := NewRun("C01", args)
	run.Sum.Rule = "per codec: structured valid frames (generator of C08: field values over their width, lengths incl. 0, 255/256, 65535/65536, 0..40 header pairs, binary bodies) x scripts: SetRequestId only {plain, read buffer overwritten after Decode, Encode twice}; bolt/boltv2 modification scripts of 1-5 ops {Set existing key with shorter/equal/longer value, Set new key, Del existing, Del missing, Del(k) then Set(longer new key), SetData with 0/65535/65536/65537/random bytes, Set pushing the header block over 65535}; dubbo / dubbo-thrift SetData; replacement bodies / header values that put the re-encoded frame on both sides of 1024, 2048, 4096, 8192, 65536; locally built frames (hijack replies with and without SetData, heartbeats, NewRpcRequest/Response); each through the REAL Decode, setters and Encode, every length field of every emitted frame evaluated by an independent field parser, then re-decoded. Non-trivial = a script that changes the frame or variant other than plain; distinct by (codec, frame, script)."
	defs := codecDefs()
	for _, cd := range defs {
		switch cd.Name {
		case "bolt":
			c01Bolt(run, cd, false)
		case "boltv2":
			c01Bolt(run, cd, true)
		default:
			c01X(run, cd)
		}
		c01Local(run, cd)
	}
	c01Premises(run)
	return run.Finish()
}

// tarsSamePacket: both frames parse (TarsGo) to the same request/response packet up to the request id
func tarsSamePacket(a, b []byte) (same bool) {
	defer func() {
		if recover() != nil {
			same = false
		}
	}()
	if len(a) < 4 || len(b) < 4 {
		return false
	}
	ta, tb := tarsStype(a), tarsStype(b)
	if ta != tb && !((ta == 0 || ta == 1 || ta == 2 || ta == 12) && (tb == 0 || tb == 1 || tb == 2 || tb == 12)) {
		return false
	}
	if ta == 6 || ta == 7 {
		pa, pb := &requestf.RequestPacket{}, &requestf.RequestPacket{}
		if pa.ReadFrom(codec.NewReader(a[4:])) != nil || pb.ReadFrom(codec.NewReader(b[4:])) != nil {
			return false
		}
		pa.IRequestId, pb.IRequestId = 0, 0
		return reflect.DeepEqual(pa, pb)
	}
	pa, pb := &requestf.ResponsePacket{}, &requestf.ResponsePacket{}
	if pa.ReadFrom(codec.NewReader(a[4:])) != nil || pb.ReadFrom(codec.NewReader(b[4:])) != nil {
		return false
	}
	pa.IRequestId, pb.IRequestId = 0, 0
	return reflect.DeepEqual(pa, pb)
}

// ---- premises of the library-relative theorems, validated on the real libraries ------------------------------------

// thriftWhdr: what the dubbo-thrift slow path lets the thrift library write for service name and id
func thriftWhdr(service string, id uint64) []byte {
	b := buffer.NewIoBuffer(64)
	t := thrift.NewStreamTransportW(b)
	p := thrift.NewTBinaryProtocolTransport(t)
	p.WriteString(service)
	p.WriteI64(int64(id))
	p.Flush(nil)
	return append([]byte{}, b.Bytes()...)
}

// thriftMbegin: ReadMessageBegin/End on a payload
func thriftMbegin(payload []byte) (mt int32, ok bool) {
	defer func() {
		if recover() != nil {
			ok = false
		}
	}()
	t := thrift.NewStreamTransportR(buffer.NewIoBufferBytes(append([]byte{}, payload...)))
	defer t.Close()
	p := thrift.NewTBinaryProtocolTransport(t)
	_, m, _, err := p.ReadMessageBegin()
	if err != nil {
		return 0, false
	}
	if err := p.ReadMessageEnd(); err != nil {
		return 0, false
	}
	return int32(m), true
}

func c01Premises(run *Run) {
	r := run.R
	// thrift_law: tparse (whdr svc id ++ pl) = option_map (fun mt => (id, mt)) (mbegin pl)
	for i := 0; i < run.N(60, 600); i++ {
		svc := "com." + randName(r, r.Pick([]int{0, 1, 5, 20, 250, 256}))
		id := r.U64()
		var pl []byte
		switch r.Intn(4) {
		case 0:
			pl = r.Bytes(r.Intn(30)) // mostly not a message begin
		default:
			o := genThrift(r, false).Bytes
			pl = o[4+int(binary.BigEndian.Uint16(o[10:12])):]
		}
		lib := thriftWhdr(svc, id)
		gid, gmt, gok := thriftParse(append(append([]byte{}, lib...), pl...))
		mt, mok := thriftMbegin(pl)
		run.Count(fmt.Sprintf("premise|thrift|%d", i), true, "premise:thrift-library-law")
		if gok != mok || (gok && (gid != id || gmt != mt)) {
			run.Fail("premise:thrift-library-law", "the thrift library does not read back what WriteString/WriteI64 wrote in front of a payload (premise of c01_thrift_slow_roundtrip)",
				map[string]interface{}{"service": svc, "id": id, "payload_hex": Hex(clip(pl, 512)), "read": []interface{}{gid, gmt, gok}, "mbegin": []interface{}{mt, mok}})
		}
	}
	// tars laws: ReadFrom (WriteTo p) = p; tag-5 scan of a written frame
	for i := 0; i < run.N(60, 600); i++ {
		vf := genTars(r, false)
		fr := vf.Bytes
		st := tarsStype(fr)
		isReq := st == 6 || st == 7
		run.Count(fmt.Sprintf("premise|tars|%d", i), true, "premise:tarsgo-laws")
		var again []byte
		okRT := false
		func() {
			defer func() { recover() }()
			os := codec.NewBuffer()
			if isReq {
				p := &requestf.RequestPacket{}
				if p.ReadFrom(codec.NewReader(fr[4:])) != nil {
					return
				}
				p.WriteTo(os)
				q := &requestf.RequestPacket{}
				again = os.ToBytes()
				okRT = q.ReadFrom(codec.NewReader(again)) == nil && reflect.DeepEqual(p, q)
			} else {
				p := &requestf.ResponsePacket{}
				if p.ReadFrom(codec.NewReader(fr[4:])) != nil {
					return
				}
				p.WriteTo(os)
				q := &requestf.ResponsePacket{}
				again = os.ToBytes()
				okRT = q.ReadFrom(codec.NewReader(again)) == nil && reflect.DeepEqual(p, q)
			}
		}()
		if !okRT {
			run.Fail("premise:tarsgo-roundtrip-law", "TarsGo does not read back the packet it wrote (premise of c01_tars_encode_decode)", map[string]interface{}{"frame_hex": Hex(clip(fr, 1024))})
			continue
		}
		st2 := tarsStype(cat(be32(uint32(4+len(again))), again))
		req2 := st2 == 6 || st2 == 7
		resp2 := st2 == 0 || st2 == 1 || st2 == 2 || st2 == 12
		if (isReq && !req2) || (!isReq && !resp2) {
			run.Fail("premise:tarsgo-stype-law", "the tag-5 scan of a frame written by TarsGo does not classify it as it was read (premise of c01_tars_encode_decode)", map[string]interface{}{"frame_hex": Hex(clip(fr, 1024)), "type": st2})
		}
	}
}

// newBodyFor: a replacement body that the codec can decode again; more than half of them make the re-encoded frame land on
// either side of 1024 / 4096 / 65536 ... bytes (scratch and pool buffer sizes inside the encoders)
func newBodyFor(r *Rng, codec string, in []byte) []byte {
	small := r.Pick([]int{0, 1, 3, 255, 256, 1000})
	boundary := r.Pct(60)
	switch codec {
	case "dubbo":
		if in[2]&0x80 != 0 && in[2]&0x20 == 0 {
			pre := dubboReqPayload("2.0.2", "com.y."+randName(r, 5), "1.0.0", randName(r, 6), nil)
			if boundary {
				return cat(pre, boundaryBody(r, 16+len(pre)))
			}
			return cat(pre, r.Bytes(small))
		}
		if boundary {
			return boundaryBody(r, 16)
		}
		return r.Bytes(small)
	case "dubbo-thrift":
		// a payload must start with a TBinary message begin
		if boundary {
			method := randName(r, r.Pick([]int{0, 1, 10}))
			mtype := byte(r.Pick([]int{1, 1, 2, 3, 4}))
			pre := cat([]byte{0x80, 0x01, 0x00, mtype}, be32(uint32(len(method))), []byte(method), be32(uint32(r.U64())))
			hl := int(binary.BigEndian.Uint16(in[10:12]))
			return cat(pre, boundaryBody(r, hl+len(pre)))
		}
		o := genThrift(r, false).Bytes
		return o[4+int(binary.BigEndian.Uint16(o[10:12])):]
	}
	if boundary { // bolt, boltv2: fixed part + class + header block stay
		ov := 0
		if fixed, off, ok := boltFixed(in); ok && len(in) >= fixed {
			ov = fixed + int(binary.BigEndian.Uint16(in[off:])) + int(binary.BigEndian.Uint16(in[off+2:]))
		}
		return boundaryBody(r, ov)
	}
	return r.Bytes(small)
}

// c01CloneAndInPlace (dubbo, dubbo-thrift: Frame.Clone returns a frame):
//  clone scripts: decode, [SetData(new buffer)], Clone, Encode(original) and Encode(clone): no panic, same bytes
//  in-place script: the body buffer returned by GetData is rewritten in place (what proxy SetRequestData/SetResponseData do:
//  Reset + ReadFrom on the SAME buffer object), SetData(same buffer), Encode, Decode again: must carry the new body
func c01CloneAndInPlace(run *Run, cd *codecDef, in []byte, desc interface{}) {
	r := run.R
	for _, withSet := range []bool{false, true} {
		f, _, err, pan := decodeFresh(cd.Proto, in)
		if f == nil || err != nil || pan != nil {
			return
		}
		xf := f.(api.XFrame)
		how := "clone"
		if withSet {
			how = "setdata+clone"
			xf.SetData(buffer.NewIoBufferBytes(newBodyFor(r, cd.Name, in)))
		}
		rep := map[string]interface{}{"codec": cd.Name, "script": how, "frame": desc, "input_hex": Hex(clip(in, 2048))}
		run.Count(fmt.Sprintf("%s|%s|%x", cd.Name, how, in[:8]), true, cd.Name+":"+how)
		cl, ok := xf.GetHeader().Clone().(api.XFrame)
		if !ok {
			return
		}
		o1, e1, p1 := safeEncode(cd.Proto, f)
		o2, e2, p2 := safeEncode(cd.Proto, cl)
		switch {
		case p1 != nil || p2 != nil:
			run.Fail(cd.Name+":clone-encode-panic:"+how, fmt.Sprintf("%s: Encode of a frame / of its Clone() panicked (%v / %v) after %s", cd.Name, p1, p2, how), rep)
		case e1 != nil || e2 != nil:
			run.Fail(cd.Name+":clone-encode-error:"+how, fmt.Sprintf("%s: Encode of a frame / of its Clone() failed (%v / %v)", cd.Name, e1, e2), rep)
		case !bytes.Equal(o1, o2):
			rep["orig_hex"], rep["clone_hex"] = Hex(clip(o1, 1024)), Hex(clip(o2, 1024))
			run.Fail(cd.Name+":clone-encodes-differently:"+how, cd.Name+": a cloned frame does not encode to the bytes of the original", rep)
		}
	}
	inPlaceRewrite(run, cd, in, desc)
	// the read buffer is reused after Decode, THEN the body is replaced: the slow path must not use bytes of the read buffer
	{
		f, backing, err, pan := decodeFresh(cd.Proto, in)
		if f == nil || err != nil || pan != nil {
			return
		}
		for k := range backing[:cap(backing)] {
			backing[:cap(backing)][k] = 0x55
		}
		nb := newBodyFor(r, cd.Name, in)
		f.(api.XFrame).SetData(buffer.NewIoBufferBytes(nb))
		rep := map[string]interface{}{"codec": cd.Name, "script": "read-buffer-overwritten+setdata", "frame": desc, "input_hex": Hex(clip(in, 2048))}
		run.Count(fmt.Sprintf("%s|ovw+set|%x", cd.Name, in[:8]), true, cd.Name+":read-buffer-overwritten+setdata")
		out, eerr, epan := safeEncode(cd.Proto, f)
		g, _, derr, dpan := decodeFresh(cd.Proto, out)
		headOK := true
		if eerr == nil && epan == nil && len(out) >= 6 {
			switch cd.Name {
			case "dubbo":
				headOK = bytes.Equal(out[:4], in[:4]) // magic, flag, status
			case "dubbo-thrift":
				headOK = out[4] == 0xda && out[5] == 0xbc
			}
		}
		if !headOK || eerr != nil || epan != nil || g == nil || derr != nil || dpan != nil || !bytes.Equal(ioBytes(g.(api.XFrame).GetData()), nb) {
			rep["got_hex"] = Hex(clip(out, 256))
			run.Fail(cd.Name+":slow-path-uses-read-buffer", fmt.Sprintf("%s: after the read buffer was reused and the body replaced, the re-encoded frame does not decode to the new body (err=%v/%v panic=%v/%v): the slow path uses bytes that alias the read buffer", cd.Name, eerr, derr, epan, dpan), rep)
		}
	}
}

// inPlaceRewrite: all codecs with a body setter (bolt, boltv2, dubbo, dubbo-thrift)
func inPlaceRewrite(run *Run, cd *codecDef, in []byte, desc interface{}) {
	r := run.R
	f, _, err, pan := decodeFresh(cd.Proto, in)
	if f == nil || err != nil || pan != nil {
		return
	}
	xf := f.(api.XFrame)
	body := xf.GetData()
	if body == nil {
		return
	}
	nb := newBodyFor(r, cd.Name, in)
	body.Reset()
	body.Write(nb)
	xf.SetData(body) // the same buffer object, as the proxy does after a filter called SetRequestData
	rep := map[string]interface{}{"codec": cd.Name, "script": "body-rewritten-in-place", "frame": desc, "input_hex": Hex(clip(in, 2048)), "new_body_len": len(nb)}
	run.Count(fmt.Sprintf("%s|inplace|%x", cd.Name, in[:8]), true, cd.Name+":body-rewritten-in-place")
	out, eerr, epan := safeEncode(cd.Proto, f)
	if epan != nil || eerr != nil {
		run.Fail(cd.Name+":body-rewritten-in-place:encode-failed", fmt.Sprintf("%s Encode failed after the body buffer was rewritten in place: %v %v", cd.Name, eerr, epan), rep)
		return
	}
	g, _, derr, dpan := decodeFresh(cd.Proto, out)
	if g == nil || derr != nil || dpan != nil || !bytes.Equal(ioBytes(g.(api.XFrame).GetData()), nb) {
		rep["got_hex"] = Hex(clip(out, 1024))
		run.Fail(cd.Name+":body-rewritten-in-place-not-encoded", fmt.Sprintf("%s: the body buffer returned by GetData was rewritten in place (Reset+Write on the same buffer, as proxy SetRequestData does) but the encoded frame does not decode to the new body (fast path reuses the raw frame, whose payload bytes the rewrite also overwrote)", cd.Name), rep)
	}
}
