package main

// The "world" of the C09 harness: a REAL mosn connection pool (HTTP/1 or xprotocol ping-pong) built over a
// real cluster/resource manager, talking over loopback TCP to a scripted upstream that records every
// connection and the order of requests on it.  Every operation waits for quiescence (an observable
// event, never a model prediction) before the books are read.

import (
	"path/filepath"
	"runtime"
	"os"
	"bufio"
	"context"
	"encoding/binary"
	"fmt"
	"io"
	"net"
	"strconv"
	"strings"
	"sync"
	"sync/atomic"
	"time"

	"github.com/valyala/fasthttp"
	"mosn.io/api"
	v2 "mosn.io/mosn/pkg/config/v2"
	"mosn.io/mosn/pkg/network"
	mosnhttp "mosn.io/mosn/pkg/protocol/http"
	shttp "mosn.io/mosn/pkg/stream/http"
	sh2 "mosn.io/mosn/pkg/stream/http2"
	sx "mosn.io/mosn/pkg/stream/xprotocol"
	"mosn.io/mosn/pkg/types"
	"mosn.io/mosn/pkg/upstream/cluster"
	"mosn.io/pkg/buffer"
	"mosn.io/pkg/variable"
)

type poolKind int

const (
	kHTTP1 poolKind = iota
	kPingPong
	kH2
)

func (k poolKind) String() string {
	switch k {
	case kHTTP1:
		return "http1"
	case kH2:
		return "h2"
	}
	return "pingpong"
}

// ---------------------------------------------------------------------------------------------
// scripted upstream

type upConn struct {
	u          *upstream
	idx        int
	c          net.Conn
	mu         sync.Mutex
	reqs       []int // tokens in arrival order
	answered   int   // answers written by the script
	peerClosed bool  // mosn closed (or reset) the connection: our read failed
	selfClosed bool  // the script closed it
	overlap    int   // requests that arrived while an earlier request on this connection was unanswered
	hbAcks     int   // ping-pong codec: heartbeat acks received (used as a barrier)
	ids        map[int]uint64 // ping-pong codec: token -> request id seen on the wire
}

func (u *upConn) snapshot() (reqs []int, answered int, peerClosed, selfClosed bool, overlap int) {
	u.mu.Lock()
	defer u.mu.Unlock()
	return append([]int(nil), u.reqs...), u.answered, u.peerClosed, u.selfClosed, u.overlap
}

type upstream struct {
	kind          poolKind
	ln            net.Listener
	mu            sync.Mutex
	conns         []*upConn
	closeOnAccept string // "fin" / "rst": the next accepted connection is closed at once (consumed by the accept)
	auto          bool   // churn family: every request is answered at once (echoing its token)
}

func newUpstream(kind poolKind) (*upstream, error) {
	ln, err := net.Listen("tcp", "127.0.0.1:0")
	if err != nil {
		return nil, err
	}
	u := &upstream{kind: kind, ln: ln}
	go u.acceptLoop()
	return u, nil
}

// Listeners are reused across histories (a fresh listener per history exhausts the ephemeral ports in the thorough
// tier); the connections of a finished history are aborted (SO_LINGER 0: no TIME_WAIT) and forgotten.
var upFree = map[poolKind]chan *upstream{kHTTP1: make(chan *upstream, 64), kPingPong: make(chan *upstream, 64), kH2: make(chan *upstream, 64)}

func getUpstream(kind poolKind) (*upstream, error) {
	select {
	case u := <-upFree[kind]:
		return u, nil
	default:
		return newUpstream(kind)
	}
}

func (u *upstream) recycle() {
	u.mu.Lock()
	for _, c := range u.conns {
		if tc, ok := c.c.(*net.TCPConn); ok {
			tc.SetLinger(0)
		}
		c.c.Close()
	}
	u.conns = nil
	u.auto = false
	u.mu.Unlock()
	select {
	case upFree[u.kind] <- u:
	default:
		u.ln.Close()
	}
}

func (u *upstream) acceptLoop() {
	for {
		c, err := u.ln.Accept()
		if err != nil {
			return
		}
		u.mu.Lock()
		uc := &upConn{u: u, idx: len(u.conns), c: c}
		u.conns = append(u.conns, uc)
		mode := u.closeOnAccept
		u.closeOnAccept = ""
		u.mu.Unlock()
		if mode != "" {
			uc.mu.Lock()
			uc.selfClosed = true
			uc.mu.Unlock()
			if tc, ok := c.(*net.TCPConn); ok && mode == "rst" {
				tc.SetLinger(0)
			}
			c.Close()
			continue
		}
		switch u.kind {
		case kHTTP1:
			go uc.readHTTP()
		case kH2:
			go uc.readH2()
		default:
			go uc.readPP()
		}
	}
}

func (u *upstream) nconns() int {
	u.mu.Lock()
	defer u.mu.Unlock()
	return len(u.conns)
}

func (u *upstream) byRemote(addr string) *upConn {
	u.mu.Lock()
	defer u.mu.Unlock()
	for _, c := range u.conns {
		if c.c.RemoteAddr().String() == addr {
			return c
		}
	}
	return nil
}

func (u *upstream) close() {
	u.ln.Close()
	u.mu.Lock()
	defer u.mu.Unlock()
	for _, c := range u.conns {
		c.c.Close()
	}
}

func (uc *upConn) noteRequest(tok int) {
	uc.mu.Lock()
	if len(uc.reqs) > uc.answered {
		uc.overlap++
	}
	uc.reqs = append(uc.reqs, tok)
	auto := uc.u != nil && uc.u.auto
	var rid uint64
	if auto {
		uc.answered++
		rid = uc.ids[tok]
	}
	uc.mu.Unlock()
	if auto {
		if uc.u.kind == kHTTP1 {
			body := "body-of-" + strconv.Itoa(tok)
			uc.write([]byte("HTTP/1.1 200 OK\r\nX-Tok: " + strconv.Itoa(tok) + "\r\nContent-Length: " + strconv.Itoa(len(body)) + "\r\n\r\n" + body))
		} else {
			uc.write(ppFrameBytes(ppResponse, rid, uint32(tok)))
		}
	}
}

func (uc *upConn) readHTTP() {
	br := bufio.NewReader(uc.c)
	tok := -1
	for {
		line, err := br.ReadString('\n')
		if err != nil {
			uc.mu.Lock()
			uc.peerClosed = true
			uc.mu.Unlock()
			return
		}
		line = strings.TrimRight(line, "\r\n")
		if line == "" { // end of a (body-less) request
			uc.noteRequest(tok)
			tok = -1
			continue
		}
		if i := strings.IndexByte(line, ':'); i > 0 && strings.EqualFold(line[:i], "X-Tok") {
			tok, _ = strconv.Atoi(strings.TrimSpace(line[i+1:]))
		}
	}
}

// minimal HTTP/2 peer: skips the client preface, then reads frames; HEADERS = a request, PING ack = barrier
func (uc *upConn) readH2() {
	fail := func() {
		uc.mu.Lock()
		uc.peerClosed = true
		uc.mu.Unlock()
	}
	pre := make([]byte, 24)
	if _, err := io.ReadFull(uc.c, pre); err != nil {
		fail()
		return
	}
	hdr := make([]byte, 9)
	for {
		if _, err := io.ReadFull(uc.c, hdr); err != nil {
			fail()
			return
		}
		n := int(hdr[0])<<16 | int(hdr[1])<<8 | int(hdr[2])
		pl := make([]byte, n)
		if _, err := io.ReadFull(uc.c, pl); err != nil {
			fail()
			return
		}
		switch hdr[3] {
		case 0x1: // HEADERS
			uc.noteRequest(int(binary.BigEndian.Uint32(hdr[5:]) & 0x7fffffff))
		case 0x6: // PING
			if hdr[4]&1 == 1 {
				uc.mu.Lock()
				uc.hbAcks++
				uc.mu.Unlock()
			}
		}
	}
}

func h2Frame(typ, flags byte, stream uint32, payload []byte) []byte {
	b := []byte{byte(len(payload) >> 16), byte(len(payload) >> 8), byte(len(payload)), typ, flags, 0, 0, 0, 0}
	binary.BigEndian.PutUint32(b[5:], stream)
	return append(b, payload...)
}

// ping-pong test codec frame: magic(1) type(1) id(8) tok(4)
const (
	ppMagic    = 0xA7
	ppLen      = 14
	ppRequest  = 0
	ppResponse = 1
	ppHB       = 2
	ppHBAck    = 3
	ppGoAway   = 4
	ppOneway   = 5
)

func ppFrameBytes(typ byte, id uint64, tok uint32) []byte {
	b := make([]byte, ppLen)
	b[0] = ppMagic
	b[1] = typ
	binary.BigEndian.PutUint64(b[2:], id)
	binary.BigEndian.PutUint32(b[10:], tok)
	return b
}

func (uc *upConn) readPP() {
	b := make([]byte, ppLen)
	for {
		if _, err := io.ReadFull(uc.c, b); err != nil {
			uc.mu.Lock()
			uc.peerClosed = true
			uc.mu.Unlock()
			return
		}
		switch b[1] {
		case ppRequest:
			id := binary.BigEndian.Uint64(b[2:])
			tok := binary.BigEndian.Uint32(b[10:])
			uc.mu.Lock()
			if uc.ids == nil {
				uc.ids = map[int]uint64{}
			}
			uc.ids[int(tok)] = id
			uc.mu.Unlock()
			uc.noteRequest(int(tok))
		case ppHBAck:
			uc.mu.Lock()
			uc.hbAcks++
			uc.mu.Unlock()
		}
	}
}

func (uc *upConn) write(b []byte) error {
	uc.c.SetWriteDeadline(time.Now().Add(2 * time.Second))
	_, err := uc.c.Write(b)
	return err
}

// ---------------------------------------------------------------------------------------------
// host wrapper: records the connections the pool creates and can make the next connect fail

var deadAddr = &net.TCPAddr{IP: net.IPv4(127, 0, 0, 1), Port: 1}

type vhost struct {
	types.Host
	mu      sync.Mutex
	fail    int // 0 dial normally, 1 connection refused (api.ConnectFailed), 2 dial times out (api.ConnectTimeout)
	evs     []*evRec
	lastWindow *hookConn
	closeHook  func(conn types.ClientConnection)
	writeHook  func(c *hookConn)
	windowGauge   int64 // upstream_connection_active sampled inside Connect() after the fresh connection's close event was handled
	windowSampled bool
	hooks      []*hookConn // every connection handed to the pool, in creation order (tail = listener behind the pool's)
	window  bool // the next connection's Connect() returns only after the upstream's immediate close has reached mosn
	created []types.ClientConnection
}

type evRec struct {
	mu  sync.Mutex
	evs []string
}

func (e *evRec) OnEvent(ev api.ConnectionEvent) {
	e.mu.Lock()
	e.evs = append(e.evs, string(ev))
	e.mu.Unlock()
}

// windowConn holds Connect() open until the close of the freshly dialled connection (the scripted upstream closes it on
// accept) has been noticed by the connection's read goroutine, i.e. the close event is delivered (or is waiting for the
// pool's lock) BEFORE the pool's connect path goes on to store / count the client.
// hookConn wraps every connection the pool gets from the host:
//   - window: Connect() returns only after the upstream's close-on-accept has reached mosn (see armWindow)
//   - Close(): if a close hook is armed it runs at the instant the pool calls Close(), before the connection closes
//     (used to fire a concurrent NewStream exactly between "the pool decided to close" and "the close event")
type hookConn struct {
	types.ClientConnection
	h          *vhost
	head, tail *evRec
	window     bool
}

// Write: when a write hook is armed it runs right after the bytes went out, still inside the pool's / stream's Write call
func (c *hookConn) Write(bufs ...buffer.IoBuffer) error {
	err := c.ClientConnection.Write(bufs...)
	c.h.mu.Lock()
	f := c.h.writeHook
	c.h.writeHook = nil
	c.h.mu.Unlock()
	if f != nil {
		f(c)
	}
	return err
}

func (c *hookConn) Close(t api.ConnectionCloseType, ev api.ConnectionEvent) error {
	c.h.mu.Lock()
	f := c.h.closeHook
	c.h.closeHook = nil
	c.h.mu.Unlock()
	if f != nil {
		f(c.ClientConnection)
	}
	return c.ClientConnection.Close(t, ev)
}

func (e *evRec) sawClose() bool {
	e.mu.Lock()
	defer e.mu.Unlock()
	for _, ev := range e.evs {
		if api.ConnectionEvent(ev).IsClose() {
			return true
		}
	}
	return false
}

func (c *hookConn) Connect() error {
	// the pool has registered its listeners by now: a listener added here runs after them
	c.ClientConnection.AddConnectionEventListener(c.tail)
	if !c.window {
		return c.ClientConnection.Connect()
	}
	err := c.ClientConnection.Connect()
	if err == nil {
		// the delivery of the close event has started (first listener) ...
		waitFor(500*time.Millisecond, c.head.sawClose)
		time.Sleep(500 * time.Microsecond) // ... and the pool's handlers run up to the pool's lock, or to the end
		// sample the connection gauge INSIDE the connect path: the close event of the fresh connection has been handled,
		// the pool's connect path has not yet gone on
		if c.tail.sawClose() {
			g := c.h.Host.HostStats().UpstreamConnectionActive.Count()
			c.h.mu.Lock()
			c.h.windowGauge, c.h.windowSampled = g, true
			c.h.mu.Unlock()
		}
	}
	return err
}

const (
	dialOK = iota
	dialRefused
	dialTimeout
)

// timeoutConn replays what network.clientConnection.Connect does when the dial times out (event
// api.ConnectTimeout to every registered listener, error returned) without waiting for a real timer.
type timeoutConn struct {
	types.ClientConnection
	cbs []api.ConnectionEventListener
}

func (t *timeoutConn) AddConnectionEventListener(cb api.ConnectionEventListener) {
	t.cbs = append(t.cbs, cb)
	t.ClientConnection.AddConnectionEventListener(cb)
}
func (t *timeoutConn) Connect() error {
	for _, cb := range t.cbs {
		cb.OnEvent(api.ConnectTimeout)
	}
	return errDialTimeout
}

var errDialTimeout = fmt.Errorf("dial tcp: i/o timeout (scripted)")

func (h *vhost) CreateConnection(ctx context.Context) types.CreateConnectionData {
	h.mu.Lock()
	defer h.mu.Unlock()
	switch h.fail {
	case dialRefused:
		c := network.NewClientConnection(time.Second, nil, deadAddr, nil)
		return types.CreateConnectionData{Connection: c, Host: h}
	case dialTimeout:
		// the REAL connect path with a connect timeout that has always expired: net.DialTimeout fails with an i/o timeout,
		// clientConnection.Connect delivers api.ConnectTimeout to the registered listeners and returns the error
		c := network.NewClientConnection(time.Nanosecond, nil, h.Host.Address(), nil)
		return types.CreateConnectionData{Connection: c, Host: h}
	}
	d := h.Host.CreateConnection(ctx)
	rec := &evRec{}
	d.Connection.AddConnectionEventListener(rec) // first listener: sees every event the connection delivers
	h.evs = append(h.evs, rec)
	h.created = append(h.created, d.Connection)
	d.Host = h
	wc := &hookConn{ClientConnection: d.Connection, h: h, head: rec, tail: &evRec{}, window: h.window}
	h.hooks = append(h.hooks, wc)
	if h.window {
		h.window = false
		h.lastWindow = wc
	}
	d.Connection = wc
	return d
}

// ---------------------------------------------------------------------------------------------
// leases (one per successful NewStream) - receiver and stream event listener of the real stream

type lease struct {
	recvWanted bool // a receiver was passed to NewStream (two-way request)
	connID     uint64 // h2 world: id of the upstream connection the pool put the stream on
	idx    int
	cli    int
	tok    int
	ctx    context.Context
	sender types.StreamSender
	sent   bool

	mu       sync.Mutex
	recv     int
	hdr      api.HeaderMap   // the delivered objects, retained BY REFERENCE (the request's buffer context is never given back,
	data     buffer.IoBuffer // so they must stay what they were whatever happens later on the connection and in the pools)
	snapTok  int
	snapBody string
	foreign  int // answers whose echoed token is not ours
	resets   []types.StreamResetReason
	destroys int
}

func tokOf(headers api.HeaderMap) int {
	got := -2
	if v, ok := headers.Get("X-Tok"); ok {
		got, _ = strconv.Atoi(v)
	} else if f, ok := headers.(*ppFrame); ok {
		got = int(f.tok)
	}
	return got
}

func (l *lease) OnReceive(ctx context.Context, headers api.HeaderMap, data buffer.IoBuffer, trailers api.HeaderMap) {
	got := tokOf(headers)
	l.mu.Lock()
	l.recv++
	if l.recv == 1 {
		l.hdr, l.data, l.snapTok = headers, data, got
		if data != nil {
			l.snapBody = string(data.Bytes())
		}
	}
	if got != l.tok {
		l.foreign++
	}
	l.mu.Unlock()
}
func (l *lease) OnDecodeError(ctx context.Context, err error, headers api.HeaderMap) {}
func (l *lease) OnResetStream(reason types.StreamResetReason) {
	l.mu.Lock()
	l.resets = append(l.resets, reason)
	l.mu.Unlock()
}
func (l *lease) OnDestroyStream() {
	l.mu.Lock()
	l.destroys++
	l.mu.Unlock()
}
func (l *lease) snap() (recv, destroys, foreign int, reset types.StreamResetReason) {
	l.mu.Lock()
	defer l.mu.Unlock()
	if len(l.resets) > 0 {
		reset = l.resets[0]
	}
	return l.recv, l.destroys, l.foreign, reset
}
func (l *lease) live() bool { _, d, _, _ := l.snap(); return d == 0 }

type cliRec struct {
	idx      int
	conn     types.ClientConnection
	up       *upConn
	closeEvs int32 // close events seen by a listener registered AFTER the pool's listeners
	mu       sync.Mutex
	lastEv   api.ConnectionEvent
}

func (c *cliRec) OnEvent(e api.ConnectionEvent) {
	if e.IsClose() {
		c.mu.Lock()
		c.lastEv = e
		c.mu.Unlock()
		atomic.AddInt32(&c.closeEvs, 1)
	}
}
func (c *cliRec) closedMosnSide() bool { return c.conn.State() == api.ConnClosed }

// ---------------------------------------------------------------------------------------------

type world struct {
	kind     poolKind
	maxConn  uint64
	maxReq   uint64
	up       *upstream
	host     *vhost
	pool     types.ConnectionPool
	rm       types.ResourceManager
	clients  []*cliRec
	byConnID map[uint64]*cliRec
	leases   []*lease
	ext      int
	failedDials int
	mu2         sync.Mutex // leases appended by concurrent NewStream calls (h2 pair)
	stuck       []string      // sendCloseRace: streams that never ended
	raceDelay   time.Duration // respRace: the reset is fired this much after the answer was written
	noHeldWait  bool // the caller waits for the streams of a closed connection itself
	noModel     bool
	raced       int
	raceFinding string
	lastCoq  []string // model operations the last harness op stands for (nil: the op's own)
	timeouts []string // waits that expired (reported; a hang is visible as a mismatch or a finder failure)
}

var worldSeq uint64

func newWorld(kind poolKind, maxConn, maxReq uint64) (*world, error) {
	up, err := getUpstream(kind)
	if err != nil {
		return nil, err
	}
	addr := up.ln.Addr().String()
	name := fmt.Sprintf("vh-pool-%d", atomic.AddUint64(&worldSeq, 1))
	cl := v2.Cluster{
		Name:        name,
		ClusterType: v2.SIMPLE_CLUSTER,
		LbType:      v2.LB_ROUNDROBIN,
		Hosts:       []v2.Host{{HostConfig: v2.HostConfig{Address: addr, Hostname: addr}}},
		CirBreThresholds: v2.CircuitBreakers{Thresholds: []v2.Thresholds{{
			MaxConnections: uint32(maxConn), MaxRequests: uint32(maxReq)}}},
	}
	info := cluster.NewCluster(cl).Snapshot().ClusterInfo()
	h := &vhost{Host: cluster.NewSimpleHost(cl.Hosts[0], info)}
	w := &world{kind: kind, maxConn: maxConn, maxReq: maxReq, up: up, host: h, rm: info.ResourceManager(), byConnID: map[uint64]*cliRec{}}
	ctx := context.Background()
	switch kind {
	case kHTTP1:
		w.pool = shttp.NewConnPool(ctx, h)
	case kH2:
		w.pool = sh2.NewConnPool(ctx, h)
	default:
		w.pool = sx.NewConnPool(ctx, ppCodecInst, h)
	}
	return w, nil
}

func (w *world) close() {
	w.up.recycle() // upstream side aborts first: neither side is left in TIME_WAIT
	for _, c := range w.clients {
		waitFor(200*time.Millisecond, func() bool { return c.closedMosnSide() })
		c.conn.Close(api.NoFlush, api.LocalClose)
	}
	// never close while holding the host's lock: a close event may make the pool close another connection (binding pool:
	// the downstream connection's listener), which comes back through hookConn.Close
	w.host.mu.Lock()
	created := append([]types.ClientConnection(nil), w.host.created...)
	w.host.mu.Unlock()
	for _, c := range created {
		c.Close(api.NoFlush, api.LocalClose)
	}
}

var slowWaits = os.Getenv("VH_SLOW") != ""

func waitFor(d time.Duration, cond func() bool) bool {
	if cond() {
		return true
	}
	if slowWaits {
		t0 := time.Now()
		defer func() {
			if el := time.Since(t0); el > time.Second {
				_, f1, l1, _ := runtime.Caller(2)
				_, f2, l2, _ := runtime.Caller(3)
				fmt.Printf("SLOWWAIT %v %s:%d <- %s:%d\n", el, filepath.Base(f1), l1, filepath.Base(f2), l2)
			}
		}()
	}
	dl := time.Now().Add(d)
	for i := 0; ; i++ {
		if i < 50 {
			time.Sleep(20 * time.Microsecond)
		} else {
			time.Sleep(200 * time.Microsecond)
		}
		if cond() {
			return true
		}
		if time.Now().After(dl) {
			return false
		}
	}
}

func (w *world) wait(what string, d time.Duration, cond func() bool) bool {
	if waitFor(d, cond) {
		return true
	}
	w.timeouts = append(w.timeouts, what)
	return false
}

const (
	resNone     = 0
	resLeased   = 1
	resOverflow = 2
	resConnFail = 3
	resOther    = 4
)

// registerNewClients: connections the pool created during the last call become clients in creation order.
func (w *world) registerNewClients() {
	w.host.mu.Lock()
	// a connection whose dial failed (e.g. the upstream's RST-on-accept can reach the dialler before connect() reports
	// success) never existed for the pool: it is a failed dial, not a client
	kept := w.host.created[:0]
	for i, c := range w.host.created {
		if i < len(w.clients) || c.State() != api.ConnInit {
			kept = append(kept, c)
		} else {
			w.failedDials++
		}
	}
	w.host.created = kept
	created := append([]types.ClientConnection(nil), w.host.created...)
	w.host.mu.Unlock()
	for len(w.clients) < len(created) {
		conn := created[len(w.clients)]
		c := &cliRec{idx: len(w.clients), conn: conn}
		if conn.State() == api.ConnActive || conn.State() == api.ConnClosed {
			if la := conn.LocalAddr(); la != nil {
				w.wait("accept", 2*time.Second, func() bool { c.up = w.up.byRemote(la.String()); return c.up != nil })
			}
		}
		conn.AddConnectionEventListener(c) // after the pool's own listeners: called last
		w.clients = append(w.clients, c)
		w.byConnID[conn.ID()] = c
	}
}

// armWindow: the next connection dialled by the pool is closed by the upstream on accept (FIN or RST) and its Connect()
// returns only after mosn has noticed; disarm clears what was not consumed.
// settleWindow waits until every listener of the connection dialled in the window has handled the close event
func (w *world) settleWindow() {
	w.host.mu.Lock()
	wc := w.host.lastWindow
	w.host.lastWindow = nil
	w.host.mu.Unlock()
	if wc != nil && wc.ClientConnection.State() != api.ConnInit {
		w.wait("window-close-handled", time.Second, wc.tail.sawClose)
	}
}

func (w *world) armWindow(mode string) {
	w.up.mu.Lock()
	w.up.closeOnAccept = mode
	w.up.mu.Unlock()
	w.host.mu.Lock()
	w.host.window = mode != ""
	w.host.mu.Unlock()
}

func (w *world) newStream(dial int, send bool) int {
	w.host.mu.Lock()
	w.host.fail = dial
	w.host.mu.Unlock()
	ctx := buffer.NewBufferPoolContext(variable.NewVariableContext(context.Background()))
	l := &lease{idx: len(w.leases), tok: len(w.leases) + 100, ctx: ctx, cli: -1}
	_, sender, reason := w.pool.NewStream(ctx, l)
	w.host.mu.Lock()
	w.host.fail = dialOK
	w.host.mu.Unlock()
	w.registerNewClients()
	switch reason {
	case "":
	case types.Overflow:
		return resOverflow
	case types.ConnectionFailure:
		return resConnFail
	default:
		return resOther
	}
	l.sender = sender
	if v, err := variable.Get(ctx, types.VariableUpstreamConnectionID); err == nil {
		if id, ok := v.(uint64); ok {
			if c := w.byConnID[id]; c != nil {
				l.cli = c.idx
			}
		}
	}
	sender.GetStream().AddEventListener(l)
	w.leases = append(w.leases, l)
	if send {
		w.send(l)
	}
	return resLeased
}

func (w *world) send(l *lease) {
	if l.sent || !l.live() {
		return
	}
	l.sent = true
	if w.kind == kHTTP1 {
		h := mosnhttp.RequestHeader{RequestHeader: &fasthttp.RequestHeader{}}
		h.Set("X-Tok", strconv.Itoa(l.tok))
		l.sender.AppendHeaders(l.ctx, h, true)
	} else {
		l.sender.AppendHeaders(l.ctx, &ppFrame{typ: ppRequest, tok: uint32(l.tok)}, true)
	}
	if l.cli < 0 || w.clients[l.cli].up == nil {
		return
	}
	uc := w.clients[l.cli].up
	w.wait("request-arrival", time.Second, func() bool {
		if !l.live() {
			return true
		}
		uc.mu.Lock()
		defer uc.mu.Unlock()
		for _, t := range uc.reqs {
			if t == l.tok {
				return true
			}
		}
		return false
	})
	if w.kind == kHTTP1 {
		// wait until the client connection's serve() goroutine has picked the request up (it then blocks in the
		// response read).  Without this a connection close racing with the pick-up is resolved by a Go `select`
		// at random: serve() may return without resetting the stream (see notes/pool.md, observation O1).
		w.wait("request-pickup", time.Second, func() bool { return !l.live() || shttp.VerifRequestPickedUp(l.sender) })
	}
}

func (w *world) respond(l *lease, connClose bool) { w.respondX(l, connClose, false) }

// respondX: twice = the answer is followed, in the same write, by a copy of itself (HTTP/1: bytes behind the response - the
// connection cannot carry another request and must not be reused)
func (w *world) respondX(l *lease, connClose, twice bool) {
	uc := w.clients[l.cli].up
	uc.mu.Lock()
	uc.answered++
	uc.mu.Unlock()
	if w.kind == kHTTP1 {
		body := "body-of-" + strconv.Itoa(l.tok)
		s := "HTTP/1.1 200 OK\r\nX-Tok: " + strconv.Itoa(l.tok) + "\r\nContent-Length: " + strconv.Itoa(len(body)) + "\r\n"
		if connClose {
			s += "Connection: close\r\n"
		}
		s += "\r\n" + body
		if twice {
			s += s
		}
		uc.write([]byte(s))
	} else {
		uc.mu.Lock()
		rid := uc.ids[l.tok]
		uc.mu.Unlock()
		uc.write(ppFrameBytes(ppResponse, rid, uint32(l.tok)))
	}
	// the client wrapper destroys the stream first and delivers second: wait for the delivery itself
	w.wait("response-delivery", time.Second, func() bool { r, d, _, rs := l.snap(); return r > 0 || (d > 0 && rs != "") })
}

// dupResponse: the upstream repeats the answer it gave last on this connection (a duplicate / late answer of a finished
// exchange); nothing is outstanding for it.  HTTP/1 has no request ids - data that arrives while a request is outstanding IS
// its response - so there the op is only performed on a connection without an outstanding request (idle, or leased and not
// yet sent), where the client must close the connection (reported: true = modelled as a local close of the connection).
func (w *world) dupResponse(c *cliRec) bool {
	if c.up == nil || c.closedMosnSide() {
		return false
	}
	uc := c.up
	uc.mu.Lock()
	if uc.answered == 0 || uc.answered > len(uc.reqs) {
		uc.mu.Unlock()
		return false
	}
	tok := uc.reqs[uc.answered-1]
	rid := uc.ids[tok]
	before := uc.hbAcks
	uc.mu.Unlock()
	if w.kind == kHTTP1 {
		held := w.liveLeaseOn(c.idx)
		if held != nil && held.sent {
			return false
		}
		body := "body-of-" + strconv.Itoa(tok)
		uc.write([]byte("HTTP/1.1 200 OK\r\nX-Tok: " + strconv.Itoa(tok) + "\r\nContent-Length: " + strconv.Itoa(len(body)) + "\r\n\r\n" + body))
		if !w.wait("close-after-unsolicited-data", 300*time.Millisecond, func() bool { return atomic.LoadInt32(&c.closeEvs) > 0 }) {
			return false // the data was kept: whoever sends the next request on this connection gets it (finder: foreign-response)
		}
		return true
	}
	uc.write(append(ppFrameBytes(ppResponse, rid, uint32(tok)), ppFrameBytes(ppHB, 0, 0)...))
	w.wait("dup-barrier", time.Second, func() bool {
		if c.closedMosnSide() {
			return true
		}
		uc.mu.Lock()
		defer uc.mu.Unlock()
		return uc.hbAcks > before
	})
	return false
}

// respRace: the answer of a sent request and its local reset (the proxy's time-out) at the same instant, from two goroutines.
// Either may win; the stream must end exactly once and the books must be right afterwards (finder only).
func (w *world) respRace(l *lease) {
	if !l.live() || !l.sent || l.cli < 0 || w.clients[l.cli].up == nil {
		return
	}
	uc := w.clients[l.cli].up
	uc.mu.Lock()
	uc.answered++
	rid := uc.ids[l.tok]
	uc.mu.Unlock()
	var b []byte
	if w.kind == kHTTP1 {
		body := "body-of-" + strconv.Itoa(l.tok)
		b = []byte("HTTP/1.1 200 OK\r\nX-Tok: " + strconv.Itoa(l.tok) + "\r\nContent-Length: " + strconv.Itoa(len(body)) + "\r\n\r\n" + body)
	} else {
		b = ppFrameBytes(ppResponse, rid, uint32(l.tok))
	}
	var wg sync.WaitGroup
	var goFlag int32
	wg.Add(2)
	go func() {
		defer wg.Done()
		for atomic.LoadInt32(&goFlag) == 0 {
		}
		uc.write(b)
	}()
	go func() {
		defer wg.Done()
		for atomic.LoadInt32(&goFlag) == 0 {
		}
		if w.raceDelay > 0 {
			time.Sleep(w.raceDelay)
		}
		l.sender.GetStream().ResetStream(types.StreamLocalReset)
	}()
	atomic.StoreInt32(&goFlag, 1)
	wg.Wait()
	w.wait("response-or-reset", time.Second, func() bool { return !l.live() })
	// the connection of a reset exchange is closed by the pool: let the close be handled
	c := w.clients[l.cli]
	waitFor(20*time.Millisecond, func() bool { return atomic.LoadInt32(&c.closeEvs) > 0 })
}

// sendCloseRace: the connection closes exactly between the write of the request and its pick-up by the response reader
// (the close is performed, and its event handled by every listener, inside the Write call of the request)
func (w *world) sendCloseRace(l *lease) bool {
	if l.sent || !l.live() || l.cli < 0 || w.clients[l.cli].closedMosnSide() {
		return false
	}
	w.host.mu.Lock()
	w.host.writeHook = func(c *hookConn) {
		c.ClientConnection.Close(api.NoFlush, api.LocalClose)
		waitFor(2*time.Second, c.tail.sawClose)
	}
	w.host.mu.Unlock()
	l.sent = true
	if w.kind == kHTTP1 {
		h := mosnhttp.RequestHeader{RequestHeader: &fasthttp.RequestHeader{}}
		h.Set("X-Tok", strconv.Itoa(l.tok))
		l.sender.AppendHeaders(l.ctx, h, true)
	} else {
		l.sender.AppendHeaders(l.ctx, &ppFrame{typ: ppRequest, tok: uint32(l.tok)}, true)
	}
	w.host.mu.Lock()
	w.host.writeHook = nil
	w.host.mu.Unlock()
	// the stream must end: its connection is closed and every listener has handled the event
	w.wait("stream-end-after-close-between-write-and-pickup", 5*time.Second, func() bool { return !l.live() })
	return true
}

func (w *world) localReset(l *lease) {
	l.sender.GetStream().ResetStream(types.StreamLocalReset)
}

func (w *world) remoteReset(l *lease) {
	if w.kind == kHTTP1 {
		uc := w.clients[l.cli].up
		uc.mu.Lock()
		uc.answered++
		uc.mu.Unlock()
		uc.write([]byte("garbage that is no http response\r\n\r\n"))
		w.wait("remote-reset", time.Second, func() bool { return !l.live() })
		return
	}
	l.sender.GetStream().ResetStream(types.StreamRemoteReset)
}

// recheckDelivered re-reads every delivered response through the references retained at delivery: later traffic on the same
// connection, other connections and pool churn must not have changed them
func (w *world) recheckDelivered() []finding {
	var out []finding
	for _, l := range w.leases {
		l.mu.Lock()
		hdr, data, tok, body := l.hdr, l.data, l.snapTok, l.snapBody
		l.mu.Unlock()
		if hdr == nil {
			continue
		}
		now, nowBody := tokOf(hdr), ""
		if data != nil {
			nowBody = string(data.Bytes())
		}
		if now != tok || nowBody != body {
			out = append(out, finding{w.kind.String() + ":delivered-response-changed-after-later-traffic", fmt.Sprintf("stream %d: the response object delivered to its receiver read token %d body %q at delivery and reads token %d body %q at the end of the history", l.idx, tok, body, now, nowBody)})
			break
		}
	}
	return out
}

// liveLeaseOn returns the live lease on client c (nil if none); more than one is reported by the finder.
func (w *world) liveLeaseOn(c int) *lease {
	for _, l := range w.leases {
		if l.cli == c && l.live() {
			return l
		}
	}
	return nil
}

// connClose closes the connection of client c so that mosn reports the given close event kind:
//   fin      the upstream closes its socket (FIN)                      -> api.RemoteClose
//   rst      the upstream aborts the connection (SO_LINGER 0: TCP RST)  -> api.OnReadErrClose
//   local    mosn closes: Close(NoFlush, api.LocalClose)
//   readerr / writeerr / writetimeout   mosn closes with the event its io loops use for read errors, write errors and
//            write time-outs: Close(NoFlush, api.OnReadErrClose / OnWriteErrClose / OnWriteTimeout)
func (w *world) connClose(c *cliRec, how string) {
	if c.closedMosnSide() {
		return
	}
	held := w.liveLeaseOn(c.idx)
	switch how {
	case "fin", "rst":
		if c.up == nil {
			return
		}
		c.up.mu.Lock()
		c.up.selfClosed = true
		c.up.mu.Unlock()
		if how == "rst" {
			if tc, ok := c.up.c.(*net.TCPConn); ok {
				tc.SetLinger(0)
			}
		}
		c.up.c.Close()
		w.wait("remote-close-event", 2*time.Second, func() bool { return atomic.LoadInt32(&c.closeEvs) > 0 })
	case "local":
		c.conn.Close(api.NoFlush, api.LocalClose)
	case "readerr":
		c.conn.Close(api.NoFlush, api.OnReadErrClose)
	case "writeerr":
		c.conn.Close(api.NoFlush, api.OnWriteErrClose)
	case "writetimeout":
		c.conn.Close(api.NoFlush, api.OnWriteTimeout)
	}
	if held != nil && !w.noHeldWait && (w.kind == kPingPong || held.sent) {
		w.wait("reset-after-close", time.Second, func() bool { return !held.live() })
	}
}

func (w *world) goAway(c *cliRec) {
	if w.kind != kPingPong || c.up == nil || c.closedMosnSide() {
		return
	}
	c.up.mu.Lock()
	before := c.up.hbAcks
	c.up.mu.Unlock()
	c.up.write(append(ppFrameBytes(ppGoAway, 0, 0), ppFrameBytes(ppHB, 0, 0)...))
	w.wait("goaway-barrier", time.Second, func() bool {
		c.up.mu.Lock()
		defer c.up.mu.Unlock()
		return c.up.hbAcks > before
	})
}

func (w *world) extReq(inc bool) {
	if inc {
		w.rm.Requests().Increase()
		w.ext++
	} else if w.ext > 0 {
		w.rm.Requests().Decrease()
		w.ext--
	}
}

// ---------------------------------------------------------------------------------------------
// observation after an operation (canonical: client numbers, no pointers, no connection ids)

type idleObs struct {
	Cli       int  `json:"cli"`
	CloseConn bool `json:"close_conn"`
	Closed    bool `json:"closed"`
}
type streamObs struct {
	Live     bool `json:"live"`
	Recv     int  `json:"recv"`
	Destroys int  `json:"destroys"`
	Reset    int  `json:"reset"`
}
type obs struct {
	Res     int         `json:"res"`
	ResCli  int         `json:"res_cli"`
	Total   uint64      `json:"total"`
	Idle    []idleObs   `json:"idle"`
	Req     int64       `json:"req"`
	Closed  []bool      `json:"closed"`
	Streams []streamObs `json:"streams"`
}

func resetCode(r types.StreamResetReason) int {
	switch r {
	case "":
		return 0
	case types.StreamLocalReset:
		return 1
	case types.StreamRemoteReset:
		return 2
	case types.StreamConnectionTermination:
		return 3
	case types.StreamConnectionFailed:
		return 4
	case types.UpstreamReset:
		return 5
	}
	return 6
}

func (w *world) observe(res int) obs {
	o := obs{Res: res, ResCli: -1, Req: w.rm.Requests().Cur()}
	if res == resLeased {
		o.ResCli = w.leases[len(w.leases)-1].cli
	}
	add := func(id uint64, closed, cc bool) {
		ci := -1
		if c := w.byConnID[id]; c != nil {
			ci = c.idx
		}
		o.Idle = append(o.Idle, idleObs{Cli: ci, CloseConn: cc, Closed: closed})
	}
	if w.kind == kHTTP1 {
		st, _ := shttp.VerifStats(w.pool)
		o.Total = st.Total
		for _, c := range st.Idle {
			add(c.ConnID, c.Closed, c.CloseConn)
		}
	} else {
		st, _ := sx.VerifStats(w.pool)
		o.Total = st.Total
		for _, c := range st.Idle {
			add(c.ConnID, c.Closed, c.ShouldCloseConn)
		}
	}
	for _, c := range w.clients {
		o.Closed = append(o.Closed, c.closedMosnSide())
	}
	for _, l := range w.leases {
		r, d, _, rs := l.snap()
		o.Streams = append(o.Streams, streamObs{Live: d == 0, Recv: r, Destroys: d, Reset: resetCode(rs)})
	}
	return o
}
