package main

// C09 - upstream connection pools.  Drives the REAL http.NewConnPool / xprotocol ping-pong pool with op histories,
// reads the books after every op through the verif accessors, evaluates the property itself on the observed truth
// (finder) and writes every history + observations as a Coq case for the correspondence with Model/Pool.v.

import (
	"fmt"
	"os"
	"sort"
	"strings"
	"sync"
	"sync/atomic"
	"time"

	"mosn.io/mosn/pkg/types"

	"mosn.io/mosn/pkg/log"

	. "vh/vhlib"
)

type op struct {
	K string `json:"k"`
	A int    `json:"a"`
}

func (o op) String() string {
	switch o.K {
	case "new", "newfail", "newtimeout", "newnosend", "newclosefin", "newcloserst", "shutdown", "extinc", "extdec":
		return o.K
	}
	return fmt.Sprintf("%s(%d)", o.K, o.A)
}

func (o op) coq() string {
	switch o.K {
	case "new":
		return "NewStream DialOk true"
	case "newnosend":
		return "NewStream DialOk false"
	case "newfail":
		return "NewStream DialRefused true"
	case "newtimeout":
		return "NewStream DialTimeout true"
	case "send":
		return fmt.Sprintf("Send %d", o.A)
	case "resp":
		return fmt.Sprintf("Response %d false", o.A)
	case "respclose", "respdup":
		return fmt.Sprintf("Response %d true", o.A)
	case "lreset", "lresetrace":
		return fmt.Sprintf("LocalReset %d", o.A)
	case "rresetrace":
		return fmt.Sprintf("RemoteReset %d", o.A)
	case "respcloserace":
		return fmt.Sprintf("Response %d true", o.A)
	case "rreset":
		return fmt.Sprintf("RemoteReset %d", o.A)
	case "closer":
		return fmt.Sprintf("ConnClose %d EvRemote", o.A)
	case "closel":
		return fmt.Sprintf("ConnClose %d EvLocal", o.A)
	case "closerst", "closereaderr":
		return fmt.Sprintf("ConnClose %d EvReadErr", o.A)
	case "closewerr":
		return fmt.Sprintf("ConnClose %d EvWriteErr", o.A)
	case "closewto":
		return fmt.Sprintf("ConnClose %d EvWriteTimeout", o.A)
	case "goaway":
		return fmt.Sprintf("GoAway %d", o.A)
	case "shutdown":
		return "Shutdown"
	case "extinc":
		return "ExtReq true"
	case "extdec":
		return "ExtReq false"
	case "dup", "resprace", "sendclose":
		return "ExtReq false" // never used: histories with this op are finder-only (noModel)
	}
	panic("op " + o.K)
}

func (o obs) coq() string {
	var res string
	switch o.Res {
	case resNone:
		res = "RN"
	case resLeased:
		if o.ResCli < 0 {
			res = "RX"
		} else {
			res = fmt.Sprintf("RL %d", o.ResCli)
		}
	case resOverflow:
		res = "RO"
	case resConnFail:
		res = "RF"
	default:
		res = "RX"
	}
	var idle, closed, streams []string
	for _, i := range o.Idle {
		c := i.Cli
		if c < 0 || i.Closed {
			c = 9999 // unknown or closed client in the idle list: never equal to a model client id
		}
		idle = append(idle, fmt.Sprintf("(%d,%v)", c, i.CloseConn))
	}
	for _, c := range o.Closed {
		closed = append(closed, CoqBool(c))
	}
	for _, s := range o.Streams {
		streams = append(streams, fmt.Sprintf("(%v,%d,%d,%d)", s.Live, s.Recv, s.Destroys, s.Reset))
	}
	return fmt.Sprintf("(%s, %s, %s, %s, %s, %s)", res, CoqZ(int64(o.Total)), CoqList(idle), CoqZ(o.Req), CoqList(closed), CoqList(streams))
}

// enabled ops in the current world state, from what the harness itself did and observed (never from the model)
func (w *world) enabled(full bool) []op {
	ops := []op{{K: "new"}, {K: "newfail"}}
	if full {
		ops = append(ops, op{K: "newnosend"}, op{K: "newtimeout"}, op{K: "newclosefin"}, op{K: "newcloserst"})
	}
	for i, l := range w.leases {
		if !l.live() {
			// stale resets of the two most recent finished streams (BaseStream CAS: must be no-ops)
			if full && i >= len(w.leases)-2 {
				ops = append(ops, op{"lreset", l.idx})
			}
			continue
		}
		if !l.sent {
			ops = append(ops, op{"send", l.idx}, op{"lreset", l.idx})
			if w.kind == kPingPong {
				ops = append(ops, op{"rreset", l.idx})
			}
			continue
		}
		ops = append(ops, op{"resp", l.idx}, op{"lreset", l.idx}, op{"rreset", l.idx})
		if w.kind == kHTTP1 {
			ops = append(ops, op{"respclose", l.idx})
		}
	}
	for _, c := range w.clients {
		if c.closedMosnSide() || c.up == nil {
			continue
		}
		ops = append(ops, op{"closer", c.idx}, op{"closel", c.idx}, op{"closerst", c.idx})
		if full {
			ops = append(ops, op{"closereaderr", c.idx}, op{"closewerr", c.idx}, op{"closewto", c.idx})
		}
		if w.kind == kPingPong {
			ops = append(ops, op{"goaway", c.idx})
		}
	}
	ops = append(ops, op{K: "shutdown"})
	if w.maxReq != 0 { // (generator choice: an external holder only matters when there is a limit)
		ops = append(ops, op{K: "extinc"})
		if w.ext > 0 {
			ops = append(ops, op{K: "extdec"})
		}
	}
	return ops
}

func (w *world) apply(o op) int {
	// a scripted op whose stream / connection does not exist (an earlier step of the script was refused) is skipped
	switch o.K {
	case "send", "sendclose", "resp", "respclose", "respdup", "resprace", "lreset", "rreset", "lresetrace", "rresetrace", "respcloserace":
		if o.A >= len(w.leases) {
			return resNone
		}
	case "dup", "closer", "closel", "closerst", "closereaderr", "closewerr", "closewto", "goaway":
		if o.A >= len(w.clients) {
			return resNone
		}
	}
	switch o.K {
	case "new":
		return w.newStream(dialOK, true)
	case "newnosend":
		return w.newStream(dialOK, false)
	case "newfail":
		return w.newStream(dialRefused, true)
	case "newtimeout":
		return w.newStream(dialTimeout, true)
	case "newclosefin", "newcloserst":
		// the upstream closes the fresh connection on accept and Connect() returns only after mosn noticed: the close event
		// is delivered inside the pool's connect path (between the dial and the counting / leasing of the client)
		mode, ev := "fin", "EvRemote"
		if o.K == "newcloserst" {
			mode, ev = "rst", "EvReadErr"
		}
		nc, nl, nf := len(w.clients), len(w.leases), w.failedDials
		w.armWindow(mode)
		res := w.newStream(dialOK, true)
		w.armWindow("")
		w.settleWindow()
		switch {
		case w.failedDials > nf:
			w.lastCoq = []string{"NewStream DialRefused true"} // the RST reached the dialler first: a failed dial
		case len(w.clients) > nc && len(w.leases) > nl:
			w.lastCoq = []string{"NewStream DialOk false", fmt.Sprintf("ConnClose %d %s", nc, ev), fmt.Sprintf("Send %d", nl)}
		case len(w.clients) > nc:
			w.lastCoq = []string{"NewStream DialOk false", fmt.Sprintf("ConnClose %d %s", nc, ev)}
		default:
			w.lastCoq = []string{"NewStream DialOk true"} // no dial happened (idle connection reused / refused before)
		}
		return res
	case "lresetrace", "rresetrace", "respcloserace":
		// the stream ends in a way that makes the pool close its connection; at the instant the pool calls Close() a
		// concurrent NewStream is fired from another goroutine and given time to finish before the connection closes
		l := w.leases[o.A]
		target, before := l.cli, len(w.leases)
		done := make(chan struct{})
		var fired int32
		rres := resNone
		w.host.mu.Lock()
		w.host.closeHook = func(conn types.ClientConnection) {
			atomic.StoreInt32(&fired, 1)
			go func() {
				rres = w.newStream(dialOK, true)
				close(done)
			}()
			select {
			case <-done:
			case <-time.After(100 * time.Millisecond):
			}
		}
		w.host.mu.Unlock()
		switch o.K {
		case "lresetrace":
			w.localReset(l)
		case "rresetrace":
			w.remoteReset(l)
		default:
			w.respond(l, true)
		}
		w.host.mu.Lock()
		w.host.closeHook = nil
		w.host.mu.Unlock()
		if atomic.LoadInt32(&fired) == 1 {
			select {
			case <-done:
			case <-time.After(2 * time.Second):
				w.timeouts = append(w.timeouts, "raced-newstream")
			}
			w.raced++
			if rres == resLeased && len(w.leases) > before && w.leases[before].cli == target {
				w.raceFinding = fmt.Sprintf("stream %d was leased connection %d by a NewStream running while the pool was closing that connection (%s of stream %d)", before, target, o.K, l.idx)
			}
		}
		w.noModel = true
	case "dup":
		if w.dupResponse(w.clients[o.A]) {
			w.lastCoq = []string{fmt.Sprintf("ConnClose %d EvLocal", o.A)}
		} else {
			w.noModel = true
		}
	case "sendclose":
		l := w.leases[o.A]
		if w.sendCloseRace(l) {
			w.lastCoq = []string{fmt.Sprintf("Send %d", o.A), fmt.Sprintf("ConnClose %d EvLocal", l.cli)}
			if l.live() {
				w.stuck = append(w.stuck, fmt.Sprintf("stream %d: its request was written, its connection %d closed before the response reader picked the request up (close event handled by every listener), and the stream was never reset", l.idx, l.cli))
			}
		} else {
			w.noModel = true
		}
	case "send":
		w.send(w.leases[o.A])
	case "resp":
		w.respond(w.leases[o.A], false)
	case "respclose":
		w.respond(w.leases[o.A], true)
	case "respdup":
		w.respondX(w.leases[o.A], false, true)
	case "resprace":
		w.respRace(w.leases[o.A])
		w.noModel = true
	case "lreset":
		w.localReset(w.leases[o.A])
	case "rreset":
		w.remoteReset(w.leases[o.A])
	case "closer":
		w.connClose(w.clients[o.A], "fin")
	case "closel":
		w.connClose(w.clients[o.A], "local")
	case "closerst":
		w.connClose(w.clients[o.A], "rst")
	case "closereaderr":
		w.connClose(w.clients[o.A], "readerr")
	case "closewerr":
		w.connClose(w.clients[o.A], "writeerr")
	case "closewto":
		w.connClose(w.clients[o.A], "writetimeout")
	case "goaway":
		w.goAway(w.clients[o.A])
	case "shutdown":
		w.pool.Shutdown()
	case "extinc":
		w.extReq(true)
	case "extdec":
		w.extReq(false)
	}
	return resNone
}

// ---------------------------------------------------------------------------------------------
// finder: the property itself on the observed truth

type finding struct{ sig, what string }

var resNames = map[int]string{resNone: "none", resLeased: "leased", resOverflow: "overflow", resConnFail: "connfail", resOther: "other"}
var resetNames = map[int]string{0: "none", 1: "local-reset", 2: "remote-reset", 3: "connection-termination", 4: "connection-failed", 5: "upstream-reset", 6: "other"}

type finderState struct {
	overlapSeen map[int]int // upstream conn idx -> overlap count already reported
	lostSeen    map[int]bool
	seen        map[string]bool // condition already reported (a broken book is reported at the op that broke it)
}

func (fs *finderState) first(key string) bool {
	if fs.seen[key] {
		return false
	}
	fs.seen[key] = true
	return true
}

func (w *world) check(fs *finderState, o op, ob obs) []finding {
	var out []finding
	k := w.kind.String()
	opClass := o.K
	if ob.Res != resNone {
		opClass += "-" + resNames[ob.Res]
	}
	add := func(sig, what string) { out = append(out, finding{k + ":" + sig, what}) }
	if w.raceFinding != "" {
		add("dirty-connection-leased-during-close", w.raceFinding)
		w.raceFinding = ""
	}
	for _, st := range w.stuck {
		add("stream-never-reset:close-between-write-and-pickup", st)
	}
	w.stuck = nil

	liveOn := map[int]int{}
	nlive := 0
	for _, l := range w.leases {
		recv, destroys, foreign, _ := l.snap()
		if destroys == 0 {
			liveOn[l.cli]++
			nlive++
		}
		if destroys > 1 {
			add("stream-destroyed-twice", fmt.Sprintf("stream %d saw %d OnDestroyStream calls", l.idx, destroys))
		}
		if recv > 1 {
			add("response-delivered-twice", fmt.Sprintf("stream %d received %d responses", l.idx, recv))
		}
		if foreign > 0 {
			add("foreign-response", fmt.Sprintf("stream %d (token %d) received an answer carrying another token", l.idx, l.tok))
		}
	}
	// exclusive lease
	for c, n := range liveOn {
		if n > 1 {
			add("two-leases-on-one-connection", fmt.Sprintf("connection %d is leased to %d live streams", c, n))
		}
	}
	for _, c := range w.clients {
		if c.up == nil {
			continue
		}
		_, _, _, _, ov := c.up.snapshot()
		if ov > fs.overlapSeen[c.idx] {
			fs.overlapSeen[c.idx] = ov
			why := "previous-exchange-unanswered"
			for _, l := range w.leases {
				if l.cli == c.idx {
					if _, _, _, rs := l.snap(); rs != "" {
						why = "after-" + resetNames[resetCode(rs)]
						break
					}
				}
			}
			add("two-inflight-on-one-connection:"+why, fmt.Sprintf("the upstream saw a second request on connection %d while the previous one was unanswered", c.idx))
		}
	}
	// dirty reuse: the lease just granted sits on a connection with a reset exchange in its past
	if ob.Res == resLeased && ob.ResCli >= 0 {
		nl := w.leases[len(w.leases)-1]
		if w.clients[nl.cli].closedMosnSide() && !strings.HasPrefix(o.K, "newclose") {
			add("closed-connection-leased", fmt.Sprintf("stream %d was leased connection %d, which is closed", nl.idx, nl.cli))
		}
		for _, l := range w.leases {
			if l.cli == nl.cli && l != nl {
				if _, _, _, rs := l.snap(); rs != "" {
					add("reset-connection-reused:after-"+resetNames[resetCode(rs)], fmt.Sprintf("stream %d was leased connection %d whose earlier stream %d had been reset (%s)", nl.idx, nl.cli, l.idx, rs))
					break
				}
			}
		}
	}
	if (o.K == "lreset" || o.K == "rreset") && o.A < len(w.leases) {
		l := w.leases[o.A]
		if _, _, _, rs := l.snap(); rs != "" && l.cli >= 0 && !w.clients[l.cli].closedMosnSide() {
			for _, i := range ob.Idle {
				if i.Cli == l.cli {
					add("reset-connection-returned-to-idle:after-"+resetNames[resetCode(rs)], fmt.Sprintf("connection %d is in the idle list and open after its stream %d was reset (%s)", l.cli, l.idx, rs))
				}
			}
		}
	}
	// books
	open := 0
	idleSet := map[int]int{}
	for _, i := range ob.Idle {
		idleSet[i.Cli]++
	}
	for _, c := range w.clients {
		if c.closedMosnSide() {
			if idleSet[c.idx] > 0 && fs.first(fmt.Sprint("closed-idle", c.idx)) {
				evs := ""
				w.host.mu.Lock()
				if c.idx < len(w.host.evs) {
					w.host.evs[c.idx].mu.Lock()
					evs = strings.Join(w.host.evs[c.idx].evs, ",")
					w.host.evs[c.idx].mu.Unlock()
				}
				w.host.mu.Unlock()
				add("closed-connection-in-idle-list:after-"+opClass, fmt.Sprintf("connection %d is closed but still in the idle list (events delivered by the connection: %s)", c.idx, evs))
			}
			continue
		}
		open++
		switch {
		case idleSet[c.idx] > 1 && fs.first(fmt.Sprint("dup-idle", c.idx)):
			add("duplicate-in-idle-list:after-"+opClass, fmt.Sprintf("connection %d appears %d times in the idle list", c.idx, idleSet[c.idx]))
		case idleSet[c.idx] == 1 && liveOn[c.idx] > 0 && fs.first(fmt.Sprint("leased-idle", c.idx)):
			add("leased-connection-in-idle-list:after-"+opClass, fmt.Sprintf("connection %d is leased and in the idle list", c.idx))
		case idleSet[c.idx] == 0 && liveOn[c.idx] == 0:
			if !fs.lostSeen[c.idx] {
				fs.lostSeen[c.idx] = true
				add("connection-neither-leased-idle-nor-closed:after-"+opClass, fmt.Sprintf("connection %d is open, not leased and not in the idle list (total=%d)", c.idx, ob.Total))
			}
		}
	}
	if idleSet[-1] > 0 {
		add("unknown-connection-in-idle-list", "idle list holds a connection the host never created")
	}
	if int(ob.Total) != open && fs.first(fmt.Sprint("total", int(ob.Total)-open)) {
		add("total-count-differs-from-open-connections:after-"+opClass, fmt.Sprintf("totalClientCount=%d but %d connections are open", ob.Total, open))
	}
	// connection gauge (host and cluster upstream_connection_active): the connections of this pool that are open
	if ga, gc := w.host.HostStats().UpstreamConnectionActive.Count(), w.host.ClusterInfo().Stats().UpstreamConnectionActive.Count(); (ga != int64(open) || gc != int64(open)) && fs.first(fmt.Sprint("conn-gauge", ga-int64(open), gc-int64(open))) {
		sig := "connection-active-differs-from-open-connections"
		if ga < 0 || gc < 0 {
			sig = "connection-active-negative"
		}
		add(sig+":after-"+opClass, fmt.Sprintf("upstream_connection_active host=%d cluster=%d but %d connections of the pool are open", ga, gc, open))
	}
	wantReq := int64(nlive + w.ext) // the resource counts for every max_requests, 0 (unlimited) included
	if ob.Req != wantReq && fs.first(fmt.Sprint("req", ob.Req-wantReq)) {
		add("requests-counter-differs:after-"+opClass, fmt.Sprintf("Requests().Cur()=%d but %d streams are live (+%d held externally)", ob.Req, nlive, w.ext))
	}
	return out
}

// capacity probe at the end of a history
func (w *world) capacityProbe(fs *finderState) []finding {
	leased := 0
	nlive := 0
	for _, l := range w.leases {
		if l.live() {
			nlive++
			if l.cli >= 0 && !w.clients[l.cli].closedMosnSide() {
				leased++
			}
		}
	}
	if !((w.maxConn == 0 || uint64(leased) < w.maxConn) && (w.maxReq == 0 || uint64(nlive+w.ext) < w.maxReq)) {
		return nil
	}
	r := w.newStream(dialOK, true)
	if r == resLeased {
		return nil
	}
	why := ""
	if len(fs.lostSeen) > 0 {
		why = ":with-lost-connection"
	}
	return []finding{{w.kind.String() + ":capacity-not-returned" + why, fmt.Sprintf("%d of max %d connections leased, %d of max %d requests in use, yet NewStream answered %s", leased, w.maxConn, nlive+w.ext, w.maxReq, resNames[r])}}
}

// ---------------------------------------------------------------------------------------------

type histResult struct {
	kind     poolKind
	maxConn  uint64
	maxReq   uint64
	ops      []op
	obs      []obs
	coqOps   [][]string // model operations each harness op stands for
	findings []finding
	timeouts []string
	closeEvs []string // close event kinds mosn reported for the connections of this history
	family   string
	noModel  bool // the history contains an operation with concurrency inside it: finder only, no Coq case
	raced    int
}

func (h *histResult) key() string {
	var b strings.Builder
	fmt.Fprintf(&b, "%s|%d|%d", h.kind, h.maxConn, h.maxReq)
	for _, o := range h.ops {
		b.WriteString("|" + o.String())
	}
	return b.String()
}

func (h *histResult) coq() string {
	var steps []string
	for i, o := range h.ops {
		_ = o
		steps = append(steps, fmt.Sprintf("(%s, %s)", CoqList(h.coqOps[i]), h.obs[i].coq()))
	}
	kind := "Http1"
	if h.kind == kPingPong {
		kind = "PingPong"
	}
	return fmt.Sprintf("(%s, %s, %s, [%s])", kind, CoqZ(int64(h.maxConn)), CoqZ(int64(h.maxReq)), strings.Join(steps, ";\n   "))
}

func (h *histResult) descr() map[string]interface{} {
	var ops []string
	for _, o := range h.ops {
		ops = append(ops, o.String())
	}
	return map[string]interface{}{"pool": h.kind.String(), "max_connections": h.maxConn, "max_requests": h.maxReq, "ops": ops, "obs": h.obs, "timeouts": h.timeouts}
}

// runHistory runs one history; pick chooses the next op among the enabled ones (nil = stop).
func runHistory(kind poolKind, maxConn, maxReq uint64, depth int, full bool, probe bool, pick func(step int, en []op) *op) *histResult {
	return runHistoryD(kind, maxConn, maxReq, depth, full, probe, 0, pick)
}

func runHistoryD(kind poolKind, maxConn, maxReq uint64, depth int, full bool, probe bool, raceDelay time.Duration, pick func(step int, en []op) *op) *histResult {
	w, err := newWorld(kind, maxConn, maxReq)
	if err != nil {
		panic(err)
	}
	defer w.close()
	w.raceDelay = raceDelay
	h := &histResult{kind: kind, maxConn: maxConn, maxReq: maxReq}
	fs := &finderState{overlapSeen: map[int]int{}, lostSeen: map[int]bool{}, seen: map[string]bool{}}
	for step := 0; step < depth; step++ {
		o := pick(step, w.enabled(full))
		if o == nil {
			break
		}
		w.lastCoq = nil
		res := w.apply(*o)
		ob := w.observe(res)
		h.ops = append(h.ops, *o)
		h.obs = append(h.obs, ob)
		if w.lastCoq == nil {
			w.lastCoq = []string{o.coq()}
		}
		h.coqOps = append(h.coqOps, w.lastCoq)
		h.findings = append(h.findings, w.check(fs, *o, ob)...)
	}
	if probe {
		h.findings = append(h.findings, w.capacityProbe(fs)...)
	}
	h.findings = append(h.findings, w.recheckDelivered()...)
	h.timeouts = w.timeouts
	h.noModel, h.raced = w.noModel, w.raced
	for _, c := range w.clients {
		c.mu.Lock()
		if c.lastEv != "" {
			h.closeEvs = append(h.closeEvs, string(c.lastEv))
		}
		c.mu.Unlock()
	}
	return h
}

// replay a fixed op list (ops that are not enabled any more are still applied when they are well-formed)
func runOps(kind poolKind, maxConn, maxReq uint64, ops []op, probe bool) *histResult {
	return runHistory(kind, maxConn, maxReq, len(ops), true, probe, func(step int, en []op) *op { return &ops[step] })
}

// stateless DFS over choice indices
type chooser struct {
	fixed int
	stack []int
	width []int
	pos   int
}

func (c *chooser) choose(n int) int {
	if c.pos < len(c.stack) {
		c.width[c.pos] = n
		i := c.stack[c.pos]
		c.pos++
		if i >= n {
			i = n - 1
		}
		return i
	}
	c.stack = append(c.stack, 0)
	c.width = append(c.width, n)
	c.pos++
	return 0
}

func (c *chooser) next() bool {
	c.pos = 0
	for len(c.stack) > c.fixed {
		last := len(c.stack) - 1
		if c.stack[last]+1 < c.width[last] {
			c.stack[last]++
			return true
		}
		c.stack = c.stack[:last]
		c.width = c.width[:last]
	}
	return false
}

type poolCfg struct {
	kind             poolKind
	maxConn, maxReq uint64
}

func c09(args []string) int {
	run := NewRun("C09", args)
	log.DefaultLogger.SetLogLevel(log.FATAL)
	log.Proxy.SetLogLevel(log.FATAL)
	if os.Getenv("VH_LOG") != "" {
		log.DefaultLogger.SetLogLevel(log.ERROR)
	}
	registerProtocols()
	if len(os.Getenv("VH_MX_ONLY")) > 0 {
		c09mx(run)
		return run.Finish()
	}
	if len(os.Getenv("VH_POOL_PROBE")) > 0 {
		return c09probe(run)
	}
	run.Sum.Rule = "histories of pool operations {new stream (connect ok / connection refused / dial time-out / lease without sending), send, response, response with Connection: close, local reset, remote reset, connection close with every close event kind (upstream FIN = RemoteClose, upstream RST = OnReadErrClose, mosn-side LocalClose / OnReadErrClose / OnWriteErrClose / OnWriteTimeout; idle and leased connections), go-away frame, pool Shutdown, external holder of the cluster's Requests resource +/-} against one real pool (HTTP/1 and xprotocol ping-pong) over loopback TCP, max_connections and max_requests in {0,1,2}; exhaustive part: every sequence of ENABLED operations up to the stated depth (stateless DFS), family close-race (finder only, no Coq case): k leases, some answered, then local reset / remote reset / Connection: close of a live stream with a concurrent NewStream fired at the instant the pool calls Close() on the connection; family idle-close: k in 2..4 concurrent leases answered in every order, then the idle connections closed in every order with every close kind, then k new streams (max_connections 0 and k); random part: longer histories, with a bias that lets several connections become idle at once; books read after every op; a history is non-trivial when it leases at least one stream and contains at least one op other than new/response; distinct by (pool kind, limits, op sequence). Multiplex pool (one slot): histories of {CheckAndInit with dial ok / refused (init goroutine run to completion), NewStream, response, local reset, connection close of every kind, go-away frame, Shutdown, external Requests holder}, exhaustive over the enabled ops to depth 5 (7 thorough) for max_requests in {0,1,2} plus random histories of 8-30(40) ops; every op under a 4 s watchdog (a call that never returns is a finding)."

	var cfgs []poolCfg
	for _, k := range []poolKind{kHTTP1, kPingPong} {
		for _, mc := range []uint64{0, 1, 2} {
			for _, mr := range []uint64{0, 1, 2} {
				cfgs = append(cfgs, poolCfg{k, mc, mr})
			}
		}
	}
	// exhaustive depth: quick 4 (5 for max_connections=2/max_requests=1), thorough 5 (6 for three configurations where the limits bind)
	depth := run.N(4, 5)
	var mu sync.Mutex
	var results []*histResult
	collect := func(h *histResult) {
		mu.Lock()
		results = append(results, h)
		mu.Unlock()
	}

	type job func()
	var jobs []job
	addExhaustive := func(c poolCfg, d int) {
		// split on the first choice
		w, _ := newWorld(c.kind, c.maxConn, c.maxReq)
		n0 := len(w.enabled(false))
		w.close()
		for i := 0; i < n0; i++ {
			i := i
			jobs = append(jobs, func() {
				ch := &chooser{fixed: 1, stack: []int{i}, width: []int{n0}}
				for {
					h := runHistory(c.kind, c.maxConn, c.maxReq, d, false, true, func(step int, en []op) *op {
						return &en[ch.choose(len(en))]
					})
					collect(h)
					if !ch.next() {
						break
					}
				}
			})
		}
	}
	for _, c := range cfgs {
		d := depth
		if (c.maxConn == 2 && c.maxReq == 1) || (run.Thorough() && ((c.maxConn == 1 && c.maxReq == 0) || (c.maxConn == 1 && c.maxReq == 2))) {
			d = depth + 1
		}
		addExhaustive(c, d)
	}
	// family "idle-close": k concurrent leases (k connections), all answered in EVERY order (so k connections are idle at
	// once, in every idle-list order), then the idle connections are closed in EVERY order with every close kind, then k
	// new streams; books and the finder run after every op, capacity probe at the end
	closeKinds := []string{"closer", "closerst", "closel", "closereaderr", "closewerr", "closewto"}
	for _, kind := range []poolKind{kHTTP1, kPingPong} {
		for k := 2; k <= 4; k++ {
			perms := permutations(k)
			for ai, ansOrder := range perms {
				for ci, closeOrder := range perms {
					if k == 4 && !run.Thorough() && (ai*len(perms)+ci)%6 != int(run.Seed%6) {
						continue // quick tier: a sixth of the 576 order pairs for k = 4 (chosen by the seed), all of them in thorough
					}
					for _, mc := range []uint64{0, uint64(k)} {
						var ops []op
						for i := 0; i < k; i++ {
							ops = append(ops, op{K: "new"})
						}
						for _, i := range ansOrder {
							ops = append(ops, op{"resp", i})
						}
						nclose := k
						if (ai+ci)%3 == 2 {
							nclose = k - 1 // leave one idle connection alive
						}
						for j, i := range closeOrder[:nclose] {
							ops = append(ops, op{closeKinds[(ai+ci+j+int(mc))%len(closeKinds)], i})
						}
						for i := 0; i < k; i++ {
							ops = append(ops, op{K: "new"})
						}
						kind, mc, ops := kind, mc, ops
						jobs = append(jobs, func() {
							h := runOps(kind, mc, 0, ops, true)
							h.family = "idle-close"
							collect(h)
						})
					}
				}
			}
		}
	}
	// family "close-race" (finder only): k leases, some answered (idle connections), then a stream ends so that the pool
	// closes its connection (local reset / time-out, remote reset, "Connection: close") while a concurrent NewStream is
	// fired at the instant the pool calls Close(); then more streams
	for _, kind := range []poolKind{kHTTP1, kPingPong} {
		raceOps := []string{"lresetrace", "rresetrace"}
		if kind == kHTTP1 {
			raceOps = append(raceOps, "respcloserace")
		}
		for _, mc := range []uint64{0, 1, 2, 3} {
			for k := 1; k <= 3; k++ {
				if mc != 0 && uint64(k) > mc {
					continue
				}
				for idleN := 0; idleN < k; idleN++ {
					for _, ro := range raceOps {
						for rep := 0; rep < run.N(1, 4); rep++ {
							var ops []op
							for i := 0; i < k; i++ {
								ops = append(ops, op{K: "new"})
							}
							for i := 0; i < idleN; i++ {
								ops = append(ops, op{"resp", i})
							}
							ops = append(ops, op{ro, k - 1}, op{K: "new"}, op{K: "new"})
							kind, mc, ops := kind, mc, ops
							jobs = append(jobs, func() {
								h := runOps(kind, mc, 0, ops, true)
								h.family = "close-race"
								collect(h)
							})
						}
					}
				}
			}
		}
	}
	// family "late-response" (finder only): the upstream repeats the answer of a finished exchange (duplicate / late answer) on a
	// connection that is idle or already leased to the next stream: the new lessee must never receive it
	for _, kind := range []poolKind{kHTTP1, kPingPong} {
		for _, mc := range []uint64{0, 1} {
			for _, script := range [][]op{
				{{K: "new"}, {"resp", 0}, {"dup", 0}, {K: "new"}, {"resp", 1}, {K: "new"}, {"resp", 2}},
				{{K: "new"}, {"resp", 0}, {K: "new"}, {"dup", 0}, {"resp", 1}, {K: "new"}, {"resp", 2}},
				{{K: "new"}, {"resp", 0}, {K: "newnosend"}, {"dup", 0}, {"send", 1}, {"resp", 1}},
				{{K: "new"}, {"resp", 0}, {"dup", 0}, {"dup", 0}, {K: "new"}, {"lreset", 1}, {K: "new"}, {"resp", 2}},
				{{K: "new"}, {K: "new"}, {"resp", 1}, {"resp", 0}, {"dup", 0}, {"dup", 1}, {K: "new"}, {K: "new"}, {"resp", 2}, {"resp", 3}},
				{{K: "new"}, {"respdup", 0}, {K: "new"}, {"resp", 1}, {K: "new"}, {"respdup", 2}, {K: "new"}, {"resp", 3}},
			} {
				if kind != kHTTP1 && script[1].K == "respdup" {
					continue
				}
				kind, mc, script := kind, mc, script
				jobs = append(jobs, func() {
					h := runOps(kind, mc, 0, script, true)
					h.family = "late-response"
					collect(h)
				})
			}
		}
	}
	// family "send-close": the connection closes exactly between the write of a request and its pick-up by the response reader
	for _, kind := range []poolKind{kHTTP1, kPingPong} {
		for _, mc := range []uint64{0, 2} {
			for rep := 0; rep < run.N(6, 30); rep++ {
				kind, mc := kind, mc
				jobs = append(jobs, func() {
					h := runOps(kind, mc, 0, []op{{K: "newnosend"}, {"sendclose", 0}, {K: "new"}, {"resp", 1}, {K: "newnosend"}, {K: "newnosend"}, {"sendclose", 3}, {"sendclose", 2}, {K: "new"}, {"resp", 4}}, true)
					h.family = "send-close"
					collect(h)
				})
			}
		}
	}
	// family "response-race" (finder only): the answer of a request and its local reset (time-out) at the same instant, the
	// reset fired 0 / 20 / 60 / 150 us after the answer was written; then more streams on the same pool
	for _, kind := range []poolKind{kHTTP1, kPingPong} {
		for _, mc := range []uint64{0, 2} {
			for rep := 0; rep < run.N(8, 80); rep++ {
				kind, mc, rep := kind, mc, rep
				jobs = append(jobs, func() {
					script := []op{{K: "new"}, {K: "new"}, {"resprace", 0}, {"resprace", 1}, {K: "new"}, {K: "new"}, {"resp", 2}, {"resprace", 3}, {K: "new"}, {"resp", 4}}
					h := runHistoryD(kind, mc, 0, len(script), true, true, time.Duration([]int{0, 20, 60, 150}[rep%4])*time.Microsecond, func(step int, en []op) *op { return &script[step] })
					h.family = "response-race"
					collect(h)
				})
			}
		}
	}
	// random part: longer histories, all op kinds incl. lease-without-send
	nrand := run.N(1500, 20000)
	rlen := run.N(30, 40)
	seeds := make([]uint64, nrand)
	for i := range seeds {
		seeds[i] = run.R.U64()
	}
	for i := 0; i < nrand; i++ {
		i := i
		jobs = append(jobs, func() {
			r := NewRng(seeds[i])
			c := cfgs[r.Intn(len(cfgs))]
			n := 8 + r.Intn(rlen-7)
			burst := r.Pct(35) // burst mode: lease several streams first, then prefer responses and closes of idle connections
			h := runHistory(c.kind, c.maxConn, c.maxReq, n, true, true, func(step int, en []op) *op {
				if burst {
					if step < 2+int(seeds[i]%3) {
						return &en[0]
					}
					var pref []int
					for j, o := range en {
						if o.K == "resp" || (strings.HasPrefix(o.K, "close") && r.Pct(60)) {
							pref = append(pref, j)
						}
					}
					if len(pref) > 0 && r.Pct(70) {
						return &en[pref[r.Intn(len(pref))]]
					}
				}
				// bias towards new streams and responses so that pools fill up and drain
				if r.Pct(25) {
					return &en[0]
				}
				return &en[r.Intn(len(en))]
			})
			collect(h)
		})
	}

	workers := 12
	var wg sync.WaitGroup
	jc := make(chan job)
	for i := 0; i < workers; i++ {
		wg.Add(1)
		go func() {
			defer wg.Done()
			for j := range jc {
				j()
			}
		}()
	}
	for _, j := range jobs {
		jc <- j
	}
	close(jc)
	wg.Wait()

	sort.Slice(results, func(i, j int) bool { return results[i].key() < results[j].key() })
	header := "From MV Require Import Gen.PoolSrc Model.Pool.\nFrom Coq Require Import List ZArith Bool.\nImport ListNotations.\nOpen Scope nat_scope.\n"
	sh := run.NewShard(header, "pool_case", "pool_mismatches pool_src_switches")
	ntimeouts := 0
	for _, h := range results {
		nontrivial := false
		leased := false
		for i, o := range h.ops {
			if h.obs[i].Res == resLeased {
				leased = true
			}
			if o.K != "new" && o.K != "resp" {
				nontrivial = true
			}
			run.Sum.Distribution["op:"+o.K]++
			if h.obs[i].Res != resNone {
				run.Sum.Distribution["result:"+resNames[h.obs[i].Res]]++
			}
		}
		for _, e := range h.closeEvs {
			run.Sum.Distribution["close-event:"+e]++
		}
		fam := h.family
		if fam == "" {
			fam = "exhaustive-or-random"
		}
		run.Count(h.key(), nontrivial && leased, "pool:"+h.kind.String(), fmt.Sprintf("len=%d", len(h.ops)), "family:"+fam)
		if len(h.timeouts) > 0 {
			ntimeouts++
			run.Sum.Distribution["wait-expired"]++
		}
		for _, f := range h.findings {
			run.Fail(f.sig, f.what, h.descr())
		}
		run.Sum.Distribution["concurrent-newstream-fired-at-close"] += h.raced
		if h.noModel {
			run.Sum.Distribution["finder-only-histories"]++
			continue
		}
		sh.Add(h.coq(), h.descr())
		if sh.Len() >= 400 {
			sh.Close()
			sh = run.NewShard(header, sh.Typ, sh.Eval)
		}
		if len(h.ops) >= 4 && leased && nontrivial {
			run.Sample(h.descr())
		}
	}
	sh.Close()
	c09mx(run)
	c09bind(run)
	run.Sum.Exhaustive = false
	run.Sum.Extra["c09_exhaustive_depth"] = depth
	run.Sum.Extra["c09_histories"] = len(results)
	run.Sum.Extra["c09_waits_expired"] = ntimeouts
	return run.Finish()
}
