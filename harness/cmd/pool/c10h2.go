package main

// C10, pool part, HTTP/2 pool (pkg/stream/http2/connpool.go): connection accounting - host and cluster
// upstream_connection_active against the connections the pool really has open, the shared client p.activeClient, GOAWAY
// frames from a real (minimal) HTTP/2 peer, close events, pool.Close(), and PAIRS of concurrent NewStream calls.

import (
	"context"
	"fmt"
	"strings"
	"sync"
	"sync/atomic"
	"time"

	"mosn.io/mosn/pkg/protocol"
	sh2 "mosn.io/mosn/pkg/stream/http2"
	"mosn.io/mosn/pkg/types"
	"mosn.io/pkg/buffer"
	"mosn.io/pkg/variable"

	. "vh/vhlib"
)

type h2obsT struct {
	Active  int64  `json:"connection_active_host"`
	Cluster int64  `json:"connection_active_cluster"`
	Total   int64  `json:"connection_total"`
	Cur     int    `json:"pool_client"` // connection number of p.activeClient, -1 none
	CurGA   bool   `json:"pool_client_goaway"`
	Closed  []bool `json:"closed"`
	ReqHost int64  `json:"request_active_host"`
	ReqClus int64  `json:"request_active_cluster"`
	ReqRes  int64  `json:"requests_resource"`
	Live    int    `json:"live_streams"` // truth: streams handed out and not destroyed
}

func (w *world) h2observe() h2obsT {
	o := h2obsT{Active: w.host.HostStats().UpstreamConnectionActive.Count(), Cluster: w.host.ClusterInfo().Stats().UpstreamConnectionActive.Count(),
		Total: w.host.HostStats().UpstreamConnectionTotal.Count(), Cur: -1}
	if st, ok := sh2.VerifState(w.pool); ok && st.HasClient {
		o.CurGA = st.GoAway
		o.Cur = -2 // a client the host never created
		if c := w.byConnID[st.ConnID]; c != nil {
			o.Cur = c.idx
		}
	}
	for _, c := range w.clients {
		o.Closed = append(o.Closed, c.closedMosnSide())
	}
	o.ReqHost, o.ReqClus = w.host.HostStats().UpstreamRequestActive.Count(), w.host.ClusterInfo().Stats().UpstreamRequestActive.Count()
	o.ReqRes = w.rm.Requests().Cur()
	for _, l := range w.leases {
		if l.live() {
			o.Live++
		}
	}
	return o
}

func (w *world) h2new(send bool) bool {
	ctx := buffer.NewBufferPoolContext(variable.NewVariableContext(context.Background()))
	l := &lease{tok: 1, ctx: ctx, cli: -1, recvWanted: true}
	_, sender, reason := w.pool.NewStream(ctx, l)
	if reason != "" {
		return false
	}
	sender.GetStream().AddEventListener(l)
	if v, err := variable.Get(ctx, types.VariableUpstreamConnectionID); err == nil {
		l.connID, _ = v.(uint64)
	}
	w.mu2.Lock()
	l.idx = len(w.leases)
	l.sender = sender
	w.leases = append(w.leases, l)
	w.mu2.Unlock()
	if send {
		w.h2send(l)
	}
	return true
}

// the request headers go out (end of stream): from here on the stream is in the connection's stream table
func (w *world) h2send(l *lease) {
	l.sent = true
	l.sender.AppendHeaders(l.ctx, protocol.CommonHeader{"x-tok": "1"}, true)
}

// the streams of a closed connection end (reset by the stream layer): wait for it, a stream that stays alive is a finding
func (w *world) h2settleStreams(c int) {
	w.wait("h2-streams-of-closed-connection", 20*time.Second, func() bool {
		for _, l := range w.leases {
			if cr := w.byConnID[l.connID]; cr != nil && cr.idx == c && l.live() && l.sent {
				return false
			}
		}
		return true
	})
}

func (w *world) h2apply(o op) []string {
	switch o.K {
	case "send":
		if l := w.leases[o.A]; l.live() && !l.sent {
			w.h2send(l)
			if cr := w.byConnID[l.connID]; cr != nil && cr.closedMosnSide() {
				// the connection closed between lease and send: the send fails and the stream ends
				w.wait("h2-send-on-closed-connection", 20*time.Second, func() bool { return !l.live() })
			}
		}
		return nil
	case "new", "newfail", "newnosend":
		w.host.mu.Lock()
		w.host.fail = dialOK
		if o.K == "newfail" {
			w.host.fail = dialRefused
		}
		w.host.mu.Unlock()
		w.h2new(o.K != "newnosend")
		w.host.mu.Lock()
		w.host.fail = dialOK
		w.host.mu.Unlock()
		w.registerNewClients()
		if o.K == "newfail" {
			return []string{"HNew DialRefused"}
		}
		return []string{"HNew DialOk"}
	case "new2":
		// two NewStream calls released together by a spin barrier
		var ready, goFlag int32
		var wg sync.WaitGroup
		for i := 0; i < 2; i++ {
			wg.Add(1)
			go func() {
				defer wg.Done()
				atomic.AddInt32(&ready, 1)
				for atomic.LoadInt32(&goFlag) == 0 {
				}
				w.h2new(true)
			}()
		}
		for atomic.LoadInt32(&ready) < 2 {
		}
		atomic.StoreInt32(&goFlag, 1)
		wg.Wait()
		w.registerNewClients()
		// a connection dialled and given up again inside the operation: let its close event be handled
		for _, c := range w.clients {
			if c := c; c.closedMosnSide() {
				waitFor(20*time.Millisecond, func() bool { return atomic.LoadInt32(&c.closeEvs) > 0 })
			}
		}
		return []string{"HNew DialOk", "HNew DialOk"}
	case "goaway":
		c := w.clients[o.A]
		if c.up != nil && !c.closedMosnSide() {
			c.up.mu.Lock()
			before := c.up.hbAcks
			c.up.mu.Unlock()
			b := append(h2Frame(0x4, 0, 0, nil), h2Frame(0x7, 0, 0, []byte{0, 0, 0, 1, 0, 0, 0, 0})...) // SETTINGS, GOAWAY(last stream 1, NO_ERROR)
			b = append(b, h2Frame(0x6, 0, 0, []byte{1, 2, 3, 4, 5, 6, 7, 8})...)                        // PING: its ack is the barrier
			c.up.write(b)
			w.wait("goaway-barrier", 20*time.Second, func() bool {
				if atomic.LoadInt32(&c.closeEvs) > 0 {
					return true
				}
				c.up.mu.Lock()
				defer c.up.mu.Unlock()
				return c.up.hbAcks > before
			})
		}
		return []string{fmt.Sprintf("HGoAway %d", o.A)}
	case "closer", "closel", "closerst":
		w.connClose(w.clients[o.A], map[string]string{"closer": "fin", "closel": "local", "closerst": "rst"}[o.K])
		w.h2settleStreams(o.A)
		return []string{fmt.Sprintf("HClose %d", o.A)}
	case "poolclose":
		w.pool.Close()
		for _, c := range w.clients {
			if c.closedMosnSide() {
				w.h2settleStreams(c.idx)
			}
		}
		return []string{"HPoolClose"}
	case "reset":
		w.localReset(w.leases[o.A])
		return nil
	}
	panic("h2 op " + o.K)
}

func (w *world) h2enabled(full bool) []op {
	ops := []op{{K: "new"}, {K: "new2"}}
	if full {
		ops = append(ops, op{K: "newfail"}, op{K: "poolclose"}, op{K: "newnosend"})
		for i, l := range w.leases {
			if l.live() && i >= len(w.leases)-2 {
				ops = append(ops, op{"reset", l.idx})
				if !l.sent {
					ops = append(ops, op{"send", l.idx})
				}
			}
		}
	}
	for _, c := range w.clients {
		if c.closedMosnSide() || c.up == nil {
			continue
		}
		ops = append(ops, op{"goaway", c.idx}, op{"closer", c.idx})
		if full {
			ops = append(ops, op{"closel", c.idx}, op{"closerst", c.idx})
		}
	}
	return ops
}

type h2hist struct {
	maxReq uint64
	sops   []string // stream-level ops (send, reset) and where they happened
	ops    []op
	coq    [][]string
	obs    []h2obsT
	fnd    []finding
	tout   []string
}

func (h *h2hist) key() string {
	var b strings.Builder
	fmt.Fprintf(&b, "h2/%d", h.maxReq)
	for _, o := range h.ops {
		b.WriteString("|" + o.String())
	}
	return b.String()
}
func (h *h2hist) descr() map[string]interface{} {
	var ops []string
	for _, o := range h.ops {
		ops = append(ops, o.String())
	}
	return map[string]interface{}{"pool": "http2", "max_requests": h.maxReq, "ops": ops, "stream_ops": h.sops, "obs": h.obs, "timeouts": h.tout}
}
func (h *h2hist) coqCase() string {
	var steps []string
	for i := range h.ops {
		var cl []string
		for _, b := range h.obs[i].Closed {
			cl = append(cl, CoqBool(b))
		}
		cur := "None"
		if h.obs[i].Cur >= 0 {
			cur = fmt.Sprintf("(Some %d)", h.obs[i].Cur)
		} else if h.obs[i].Cur == -2 {
			cur = "(Some 9999)"
		}
		steps = append(steps, fmt.Sprintf("(%s, (%s, %s, %s))", CoqList(h.coq[i]), CoqZ(h.obs[i].Active), cur, CoqList(cl)))
	}
	return "[" + strings.Join(steps, ";\n   ") + "]"
}

func (w *world) h2check(o op, ob h2obsT, goaway map[int]bool, seen map[string]bool) []finding {
	var out []finding
	add := func(sig, what string) {
		if !seen[sig] {
			seen[sig] = true
			out = append(out, finding{"h2pool:" + sig, what})
		}
	}
	open := 0
	for _, c := range w.clients {
		if !c.closedMosnSide() {
			open++
			// an open connection that received no GOAWAY must be the pool's shared client
			if !goaway[c.idx] && ob.Cur != c.idx {
				add("active-client-orphaned", fmt.Sprintf("after %s: connection %d is open, has received no GOAWAY and is not the pool's client (pool client: %d)", o, c.idx, ob.Cur))
			}
		}
	}
	if ob.Cur >= 0 && w.clients[ob.Cur].closedMosnSide() && !ob.CurGA {
		add("closed-connection-is-pool-client", fmt.Sprintf("after %s: the pool's client is connection %d, which is closed", o, ob.Cur))
	}
	if ob.Active < 0 || ob.Cluster < 0 {
		add("connection-active-negative", fmt.Sprintf("after %s: upstream_connection_active host=%d cluster=%d", o, ob.Active, ob.Cluster))
	}
	if ob.Active != ob.Cluster {
		add("host-cluster-gauge-differ", fmt.Sprintf("after %s: host %d cluster %d", o, ob.Active, ob.Cluster))
	}
	// request accounting of the same pool: gauge and Requests resource against the streams really alive
	wantRes := int64(ob.Live) // the resource counts for every max_requests, 0 (unlimited) included
	if ob.ReqHost < 0 || ob.ReqClus < 0 || ob.ReqRes < 0 {
		add("request-active-negative", fmt.Sprintf("after %s: upstream_request_active host=%d cluster=%d Requests().Cur()=%d", o, ob.ReqHost, ob.ReqClus, ob.ReqRes))
	} else if ob.ReqHost != int64(ob.Live) || ob.ReqClus != int64(ob.Live) || ob.ReqRes != wantRes {
		sig := "request-active-differs-from-live-streams"
		if ob.Live == 0 {
			sig = "request-active-leaked"
		}
		add(sig, fmt.Sprintf("after %s: upstream_request_active host=%d cluster=%d Requests().Cur()=%d with %d live streams (max_requests %d)", o, ob.ReqHost, ob.ReqClus, ob.ReqRes, ob.Live, w.maxReq))
	}
	if ob.Active >= 0 && ob.Active != int64(open) {
		sig := "connection-active-differs-from-open-connections"
		if open == 0 {
			sig = "connection-active-leaked"
		}
		add(sig, fmt.Sprintf("after %s: upstream_connection_active = %d with %d connections of the pool open", o, ob.Active, open))
	}
	return out
}

func runH2(maxReq uint64, depth int, full bool, pick func(step int, en []op) *op) *h2hist {
	w, err := newWorld(kH2, 0, maxReq)
	if err != nil {
		panic(err)
	}
	defer w.close()
	w.noHeldWait = true
	h := &h2hist{maxReq: maxReq}
	goaway := map[int]bool{}
	seen := map[string]bool{}
	step := func(o op) {
		c := w.h2apply(o)
		if o.K == "goaway" {
			goaway[o.A] = true
		}
		if c == nil {
			// stream-level op: no effect on the connection accounting, not a model step; the finder still looks
			h.fnd = append(h.fnd, w.h2check(o, w.h2observe(), goaway, seen)...)
			h.sops = append(h.sops, fmt.Sprintf("%s after step %d", o, len(h.ops)))
			return
		}
		ob := w.h2observe()
		h.ops = append(h.ops, o)
		h.coq = append(h.coq, c)
		h.obs = append(h.obs, ob)
		h.fnd = append(h.fnd, w.h2check(o, ob, goaway, seen)...)
	}
	for i := 0; i < depth; i++ {
		o := pick(i, w.h2enabled(full))
		if o == nil {
			break
		}
		step(*o)
	}
	// drain: the upstream goes away gracefully - GOAWAY then close on every open connection; the idle pool must be at zero
	for _, c := range w.clients {
		if !c.closedMosnSide() {
			step(op{"goaway", c.idx})
			step(op{"closer", c.idx})
		}
	}
	// every connection is closed: a stream leased and never sent is sent now (the send fails), then no stream may be alive
	for _, l := range w.leases {
		if l.live() && !l.sent {
			step(op{"send", l.idx})
		}
	}
	for _, l := range w.leases {
		if l.live() && !seen["alive"] {
			seen["alive"] = true
			h.fnd = append(h.fnd, finding{"h2pool:stream-alive-after-all-connections-closed", fmt.Sprintf("stream %d (sent: %v) was neither reset nor destroyed although every connection of the pool is closed", l.idx, l.sent)})
		}
	}
	if ob := w.h2observe(); len(h.obs) > 0 {
		h.fnd = append(h.fnd, w.h2check(op{K: "end"}, ob, goaway, seen)...)
	}
	h.tout = w.timeouts
	return h
}

func c10h2(run *Run) {
	var mu sync.Mutex
	var hs []*h2hist
	collect := func(h *h2hist) { mu.Lock(); hs = append(hs, h); mu.Unlock() }
	var jobs []func()
	jobs = append(jobs, func() {
		ch := &chooser{}
		for {
			collect(runH2(0, run.N(4, 5), false, func(step int, en []op) *op { return &en[ch.choose(len(en))] }))
			if !ch.next() {
				break
			}
		}
	})
	// cold pool + concurrent pair, many times (the pair is a race)
	for i := 0; i < run.N(300, 3000); i++ {
		jobs = append(jobs, func() {
			script := []op{{K: "new2"}, {K: "goaway", A: 0}, {K: "closer", A: 0}, {K: "new"}}
			collect(runH2(0, len(script), true, func(step int, en []op) *op {
				o := script[step]
				for _, e := range en {
					if e == o {
						return &o
					}
				}
				return &op{K: "new"}
			}))
		})
	}
	nrand := run.N(300, 5000)
	seeds := make([]uint64, nrand)
	for i := range seeds {
		seeds[i] = run.R.U64()
	}
	for i := 0; i < nrand; i++ {
		i := i
		jobs = append(jobs, func() {
			r := NewRng(seeds[i])
			collect(runH2(uint64(3*(i%2)), 6+r.Intn(15), true, func(step int, en []op) *op { return &en[r.Intn(len(en))] }))
		})
	}
	var wg sync.WaitGroup
	jc := make(chan func())
	for i := 0; i < 12; i++ {
		wg.Add(1)
		go func() {
			defer wg.Done()
			for j := range jc {
				j()
			}
		}()
	}
	for _, j := range jobs {
		jc <- j
	}
	close(jc)
	wg.Wait()
	header := "From MV Require Import Gen.PoolSrc Model.Pool Model.PoolH2.\nFrom Coq Require Import List ZArith Bool.\nImport ListNotations.\nOpen Scope nat_scope.\n"
	sh := run.NewShard(header, "h2_case", "h2_mismatches poolh2_src_switches")
	for _, h := range hs {
		nt := false
		for _, o := range h.ops {
			if o.K == "goaway" || o.K == "new2" {
				nt = true
			}
			run.Sum.Distribution["h2-op:"+o.K]++
		}
		run.Count(h.key(), nt, "acct-pool:http2")
		for _, t := range h.tout {
			run.Sum.Distribution["h2-wait-expired:"+t]++
		}
		for _, f := range h.fnd {
			run.Fail(f.sig, f.what, h.descr())
		}
		sh.Add(h.coqCase(), h.descr())
		if sh.Len() >= 400 {
			sh.Close()
			sh = run.NewShard(header, sh.Typ, sh.Eval)
		}
	}
	sh.Close()
}
