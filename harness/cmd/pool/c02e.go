package main

// C02, every kind of reply of a server stream: a REAL server stream connection and REAL client stream connection(s) of the
// same protocol share the request frame object exactly as the proxy does (the frame the server stream delivered is handed to
// the client stream's AppendHeaders, which overwrites its id with the upstream id).  Reply kinds: upstream response,
// hijack/exception reply before the forward, after one forward, after two forwards (retry), heartbeat ack, one-way.
// Protocols: real bolt, boltv2, dubbo codecs and the harness codecs vhx-u32/s32/u64 (generic stream.go path, Hijack copies
// the request id; s32 uses the real tars id generator - the tars codec itself has no Hijack and needs TarsGo-encoded frames).

import (
	"context"
	"encoding/binary"
	"fmt"
	"sync"

	"mosn.io/api"
	"mosn.io/mosn/pkg/protocol"
	_ "mosn.io/mosn/pkg/proxy" // registers types.VarHeaderStatus, which buildHijackResp reads
	"mosn.io/mosn/pkg/protocol/xprotocol"
	"mosn.io/mosn/pkg/protocol/xprotocol/bolt"
	"mosn.io/mosn/pkg/protocol/xprotocol/boltv2"
	"mosn.io/mosn/pkg/protocol/xprotocol/dubbo"
	"mosn.io/mosn/pkg/stream"
	sx "mosn.io/mosn/pkg/stream/xprotocol"
	"mosn.io/mosn/pkg/types"
	"mosn.io/pkg/buffer"
	"mosn.io/pkg/variable"

	. "vh/vhlib"
)

type replyProto struct {
	name    string
	pname   api.ProtocolName
	hj      string // Coq constant with the codec's hijack policy
	idBits  uint   // ids on the wire
	req     func(d uint64, oneway bool) []byte
	resp    func(u uint64) []byte
	hb      func(d uint64) []byte // nil: no heartbeat request in this codec
	wireID  func(b []byte) (uint64, bool)
}

func hessStr(s string) []byte { return append([]byte{byte(len(s))}, s...) }

func dubboBytes(flag, status byte, id uint64, payload []byte) []byte {
	b := make([]byte, 16)
	b[0], b[1], b[2], b[3] = 0xda, 0xbb, flag, status
	binary.BigEndian.PutUint64(b[4:], id)
	binary.BigEndian.PutUint32(b[12:], uint32(len(payload)))
	return append(b, payload...)
}

var registerReplyOnce sync.Once

func replyProtos() []replyProto {
	registerReplyOnce.Do(func() {
		_ = xprotocol.RegisterXProtocolCodec(&boltv2.XCodec{})
		_ = xprotocol.RegisterXProtocolCodec(&dubbo.XCodec{})
	})
	ctx := context.Background()
	enc := func(p api.XProtocol, m interface{}) []byte {
		b, err := p.Encode(ctx, m)
		if err != nil {
			panic(err)
		}
		return append([]byte(nil), b.Bytes()...)
	}
	dec := func(p api.XProtocol) func([]byte) (uint64, bool) {
		return func(b []byte) (uint64, bool) {
			f, err := p.Decode(ctx, buffer.NewIoBufferBytes(b))
			if err != nil || f == nil {
				return 0, false
			}
			return f.(api.XFrame).GetRequestId(), true
		}
	}
	bp := (&bolt.XCodec{}).NewXProtocol(ctx)
	b2 := (&boltv2.XCodec{}).NewXProtocol(ctx)
	dp := (&dubbo.XCodec{}).NewXProtocol(ctx)
	hdr := func() api.HeaderMap { return &boltHdr{kv: map[string]string{"service": "vh"}} }
	ps := []replyProto{
		{name: "bolt", pname: bolt.ProtocolName, hj: "xsrc_hijack_bolt", idBits: 32,
			req: func(d uint64, ow bool) []byte {
				r := bolt.NewRpcRequest(uint32(d), hdr(), nil)
				if ow {
					r.CmdType = bolt.CmdTypeRequestOneway
				}
				return enc(bp, r)
			},
			resp:   func(u uint64) []byte { return enc(bp, bolt.NewRpcResponse(uint32(u), bolt.ResponseStatusSuccess, hdr(), nil)) },
			hb:     func(d uint64) []byte { return enc(bp, bp.Trigger(ctx, d)) },
			wireID: dec(bp)},
		{name: "boltv2", pname: boltv2.ProtocolName, hj: "xsrc_hijack_boltv2", idBits: 32,
			req: func(d uint64, ow bool) []byte {
				r := boltv2.NewRpcRequest(uint32(d), hdr(), nil)
				if ow {
					r.CmdType = bolt.CmdTypeRequestOneway
				}
				return enc(b2, r)
			},
			resp:   func(u uint64) []byte { return enc(b2, boltv2.NewRpcResponse(uint32(u), bolt.ResponseStatusSuccess, hdr(), nil)) },
			hb:     func(d uint64) []byte { return enc(b2, b2.Trigger(ctx, d)) },
			wireID: dec(b2)},
		{name: "dubbo", pname: dubbo.ProtocolName, hj: "xsrc_hijack_dubbo", idBits: 64,
			req: func(d uint64, ow bool) []byte {
				flag := byte(0xC2) // request, two-way, hessian2
				if ow {
					flag = 0x82
				}
				var pl []byte
				for _, s := range []string{"2.0.2", "vh.Service", "1.0.0", "call"} {
					pl = append(pl, hessStr(s)...)
				}
				return dubboBytes(flag, 0, d, pl)
			},
			resp:   func(u uint64) []byte { return dubboBytes(0x02, 20, u, []byte{0x4e}) },
			hb:     func(d uint64) []byte { return dubboBytes(0xE2, 0, d, []byte{0x4e}) }, // event request = heartbeat
			wireID: dec(dp)},
	}
	for _, g := range []string{"GenU32", "GenS32", "GenU64"} {
		ps = append(ps, replyProto{name: string(genCodecs[g].name), pname: genCodecs[g].name, hj: "HjCopy", idBits: 64,
			req: func(d uint64, ow bool) []byte {
				if ow {
					return ppFrameBytes(ppOneway, d, 5)
				}
				return ppFrameBytes(ppRequest, d, 5)
			},
			resp:   func(u uint64) []byte { return ppFrameBytes(ppResponse, u, 5) },
			hb:     func(d uint64) []byte { return ppFrameBytes(ppHB, d, 0) },
			wireID: func(b []byte) (uint64, bool) { return beU64(b[2:]), len(b) == ppLen }})
	}
	return ps
}

type replySrv struct {
	mu      sync.Mutex
	senders []types.StreamSender
	ctxs    []context.Context
	frames  []api.HeaderMap
}

func (s *replySrv) OnGoAway() {}
func (s *replySrv) NewStreamDetect(ctx context.Context, sender types.StreamSender, span api.Span) types.StreamReceiveListener {
	s.mu.Lock()
	s.senders = append(s.senders, sender)
	s.ctxs = append(s.ctxs, ctx)
	s.mu.Unlock()
	return s
}
func (s *replySrv) OnReceive(ctx context.Context, headers api.HeaderMap, data buffer.IoBuffer, trailers api.HeaderMap) {
	s.mu.Lock()
	s.frames = append(s.frames, headers)
	s.mu.Unlock()
}
func (s *replySrv) OnDecodeError(ctx context.Context, err error, headers api.HeaderMap) {}

type respCatch struct{ hdr api.HeaderMap }

func (r *respCatch) OnReceive(ctx context.Context, headers api.HeaderMap, data buffer.IoBuffer, trailers api.HeaderMap) {
	r.hdr = headers
}
func (r *respCatch) OnDecodeError(ctx context.Context, err error, headers api.HeaderMap) {}

func c02reply(run *Run) {
	r := run.R
	sh := run.NewShard("From MV Require Import Model.XReply Gen.XConnSrc.\nFrom Coq Require Import List NArith.\nImport ListNotations.\nOpen Scope N_scope.\n", "xreply_case", "xreply_mismatches xsrc_restamp")
	kinds := []string{"upstream-response", "hijack-before-forward", "hijack-after-forward", "hijack-after-retry", "upstream-response-after-retry", "heartbeat-ack", "oneway"}
	interesting := []uint64{1, 2, 7, 1<<31 - 1, 1 << 31, 1<<32 - 2}
	for _, p := range replyProtos() {
		factory, ok := protocol.GetProtocolStreamFactory(p.pname)
		if !ok {
			panic("no stream factory for " + p.name)
		}
		mask := uint64(1)<<p.idBits - 1
		if p.idBits == 64 {
			mask = ^uint64(0)
		}
		n := run.N(40, 400)
		for i := 0; i < n*len(kinds); i++ {
			kind := kinds[i%len(kinds)]
			d := interesting[r.Intn(len(interesting))]
			if r.Pct(40) {
				d = r.U64()
			}
			d &= mask
			if d == 0 {
				d = 3
			}
			// ---- server side: the downstream request arrives
			fakeConnID++
			sconn := &fakeConn{id: fakeConnID, fm: &fakeFM{}}
			cb := &replySrv{}
			ssc := factory.CreateServerStream(variable.NewVariableContext(context.Background()), sconn, cb)
			var us []uint64
			got, wrote := uint64(0), false
			fail := func(sig, what string, rep map[string]interface{}) {
				run.Fail("xconn:"+sig+":"+kind+":"+p.name, what, rep)
			}
			rep := map[string]interface{}{"part": "reply-id", "protocol": p.name, "kind": kind, "downstream_id": d}
			switch kind {
			case "heartbeat-ack":
				if p.hb == nil {
					continue
				}
				ssc.Dispatch(buffer.NewIoBufferBytes(p.hb(d)))
			case "oneway":
				if p.name == "dubbo" {
					continue // mosn's dubbo codec has no one-way stream type (GetStreamType is Request for every request)
				}
				ssc.Dispatch(buffer.NewIoBufferBytes(p.req(d, true)))
				if len(cb.senders) != 1 || cb.senders[0] != nil {
					fail("oneway-request-got-a-sender", "a one-way request was given a stream sender", rep)
				}
			default:
				ssc.Dispatch(buffer.NewIoBufferBytes(p.req(d, false)))
				if len(cb.senders) != 1 || cb.senders[0] == nil || len(cb.frames) != 1 {
					fail("request-not-detected", fmt.Sprintf("%d senders, %d frames", len(cb.senders), len(cb.frames)), rep)
					continue
				}
				sender, sctx, reqFrame := cb.senders[0], cb.ctxs[0], cb.frames[0]
				nfwd := map[string]int{"upstream-response": 1, "hijack-before-forward": 0, "hijack-after-forward": 1, "hijack-after-retry": 2, "upstream-response-after-retry": 2}[kind]
				var lastCli stream.Client
				var lastConn *fakeConn
				var catch *respCatch
				for j := 0; j < nfwd; j++ {
					// ---- the proxy forwards the SAME frame object through a client stream of an upstream connection
					fakeConnID++
					cconn := &fakeConn{id: fakeConnID, fm: &fakeFM{}}
					cli := stream.NewStreamClient(variable.NewVariableContext(context.Background()), p.pname, cconn, nil)
					csc := reflectCSC(cli)
					c0 := r.U64()
					sx.VerifSetIDBase(csc, c0)
					catch = &respCatch{}
					cctx := buffer.NewBufferPoolContext(variable.NewVariableContext(context.Background()))
					cs := cli.NewStream(cctx, catch)
					u := cs.GetStream().ID()
					if u == d { // the point is upstream id != downstream id: take the next one
						cs = cli.NewStream(cctx, catch)
						u = cs.GetStream().ID()
					}
					cs.AppendHeaders(cctx, reqFrame, true)
					us = append(us, u)
					ws := cconn.takeWrites()
					if id, ok := p.wireID(bytesJoin(ws)); !ok || id != u {
						fail("forwarded-request-id-differs-from-upstream-stream-id", fmt.Sprintf("upstream stream id %d, request written upstream with id %d", u, id), rep)
					}
					lastCli, lastConn = cli, cconn
				}
				_ = lastCli
				rep["upstream_ids"] = us
				if kind == "upstream-response" || kind == "upstream-response-after-retry" {
					for _, rf := range lastConn.fm.rf {
						rf.OnData(buffer.NewIoBufferBytes(p.resp(us[len(us)-1])))
					}
					if catch.hdr == nil {
						fail("upstream-response-not-delivered", "the client stream did not deliver the upstream response", rep)
						continue
					}
					sender.AppendHeaders(sctx, catch.hdr, true)
				} else {
					// local reply (upstream time-out / reset): the proxy hands the request headers to the server stream
					variable.SetString(sctx, types.VarHeaderStatus, "504")
					sender.AppendHeaders(sctx, reqFrame, true)
				}
			}
			ws := sconn.takeWrites()
			if len(ws) > 0 {
				got, wrote = p.wireID(bytesJoin(ws))
				if !wrote {
					fail("reply-not-decodable", "the reply written downstream could not be decoded", rep)
					continue
				}
			}
			rep["written"] = wrote
			rep["written_id"] = got
			run.Count(fmt.Sprintf("reply|%s|%s|%d|%v", p.name, kind, d, us), len(us) > 0, "family:reply-id", "reply-kind:"+kind)
			if wrote && got != d {
				run.Fail("xconn:reply-carries-foreign-request-id:"+kind+":"+p.name,
					fmt.Sprintf("%s %s: downstream request id %d, upstream ids %v, reply written downstream with id %d", p.name, kind, d, us, got), rep)
			}
			if !wrote && kind != "oneway" {
				fail("reply-not-written", "nothing was written downstream", rep)
			}
			// Coq case
			var cu []string
			for _, u := range us {
				cu = append(cu, CoqN(u))
			}
			ck := map[string]string{"upstream-response": "KUpstream " + CoqN(lastOr(us)), "upstream-response-after-retry": "KUpstream " + CoqN(lastOr(us)),
				"hijack-before-forward": "KHijack", "hijack-after-forward": "KHijack", "hijack-after-retry": "KHijack", "heartbeat-ack": "KHeartbeat", "oneway": "KOneway"}[kind]
			sh.Add(fmt.Sprintf("(%s, %s, %s, %s, %s)", CoqN(d), CoqList(cu), "("+ck+")", p.hj, CoqOption(wrote, CoqN(got))), rep)
			if sh.Len() >= 400 {
				sh.Close()
				sh = run.NewShard(sh.Header, sh.Typ, sh.Eval)
			}
		}
	}
	sh.Close()
}

func lastOr(us []uint64) uint64 {
	if len(us) == 0 {
		return 0
	}
	return us[len(us)-1]
}

func bytesJoin(ws [][]byte) []byte {
	var b []byte
	for _, w := range ws {
		b = append(b, w...)
	}
	return b
}
