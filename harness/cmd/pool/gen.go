package main

// Translators of the group `pool`.
//
// Gen/PoolSrc.v: the four spots of the pool code whose shape decides between the defective and the repaired
// behaviour (see Model/Pool.v) are read from the source with go/ast on every run, so the theorems in
// Props/C09.v are always attempted about the code that is in the tree.

import (
	"bytes"
	"fmt"
	"go/ast"
	"go/printer"
	"go/token"
	"strings"

	. "vh/vhlib"
)

var gens = map[string]GenFn{"PoolSrc": genPoolSrc, "XConnSrc": genXConnSrc}

func exprStr(fset *token.FileSet, e ast.Node) string {
	var b bytes.Buffer
	printer.Fprint(&b, fset, e)
	return strings.Join(strings.Fields(b.String()), "")
}

func containsCall(n ast.Node, sel string) bool {
	found := false
	ast.Inspect(n, func(x ast.Node) bool {
		if ce, ok := x.(*ast.CallExpr); ok {
			switch f := ce.Fun.(type) {
			case *ast.SelectorExpr:
				if f.Sel.Name == sel {
					found = true
				}
			case *ast.Ident:
				if f.Name == sel {
					found = true
				}
			}
		}
		return !found
	})
	return found
}

// flagAssignCond returns the condition (normalised text) of the if statement of fd whose body assigns `recv.flag = true`;
// "" when there is none, "?" when the assignment is not directly under one if at the top level of the function.
func flagAssignCond(fset *token.FileSet, fd *ast.FuncDecl, flag string) string {
	cond := ""
	n := 0
	for _, s := range fd.Body.List {
		is, ok := s.(*ast.IfStmt)
		if !ok {
			if assignsFlag(s, flag) {
				return "?"
			}
			continue
		}
		if assignsFlag(is.Body, flag) {
			n++
			cond = exprStr(fset, is.Cond)
			if is.Else != nil || is.Init != nil {
				return "?"
			}
		} else if is.Else != nil && assignsFlag(is.Else, flag) {
			return "?"
		}
	}
	if n > 1 {
		return "?"
	}
	return cond
}

func assignsFlag(n ast.Node, flag string) bool {
	found := false
	ast.Inspect(n, func(x ast.Node) bool {
		if as, ok := x.(*ast.AssignStmt); ok && len(as.Lhs) == 1 {
			if se, ok := as.Lhs[0].(*ast.SelectorExpr); ok && se.Sel.Name == flag {
				found = true
			}
		}
		return !found
	})
	return found
}

func genPoolSrc(repo string) (string, error) {
	var notes []string
	ok := true
	bad := func(f string, a ...interface{}) { ok = false; notes = append(notes, fmt.Sprintf(f, a...)) }

	// ---- http pool
	fset, f, err := ParseGoFile(repo, "pkg/stream/http/connpool.go")
	if err != nil {
		return "", err
	}
	httpCloseFirst := false
	checkFirst := false
	if fd := FindFunc(f, "connPool", "NewStream"); fd == nil {
		bad("http connPool.NewStream not found")
	} else {
		iGet, iCan := -1, -1
		for i, s := range fd.Body.List {
			if containsCall(s, "getAvailableClient") && iGet < 0 {
				iGet = i
			}
			if is, isIf := s.(*ast.IfStmt); isIf && containsCall(is.Cond, "CanCreate") && iCan < 0 {
				iCan = i
				// the refusal branch must only count and return (anything else is a shape the model does not know)
				for _, b := range is.Body.List {
					switch x := b.(type) {
					case *ast.ReturnStmt:
					case *ast.ExprStmt:
						if !containsCall(x, "Inc") {
							bad("http NewStream: unknown statement in the CanCreate refusal branch: %s", exprStr(fset, x))
						}
					default:
						bad("http NewStream: unknown statement in the CanCreate refusal branch: %s", exprStr(fset, b))
					}
				}
			}
		}
		if iGet < 0 || iCan < 0 {
			bad("http NewStream: getAvailableClient (%d) / CanCreate test (%d) not found at the top level", iGet, iCan)
		}
		checkFirst = iCan >= 0 && iGet >= 0 && iCan < iGet
	}
	httpResetAny := false
	if fd := FindFunc(f, "activeClient", "OnResetStream"); fd == nil {
		bad("http activeClient.OnResetStream not found")
	} else {
		switch c := flagAssignCond(fset, fd, "closeConn"); c {
		case "!ac.closed":
			httpResetAny = true
		case "reason==types.StreamLocalReset&&!ac.closed":
			httpResetAny = false
		default:
			bad("http OnResetStream: unrecognised condition for closeConn = true: %q", c)
		}
	}
	if fd := FindFunc(f, "activeClient", "OnDestroyStream"); fd == nil {
		bad("http activeClient.OnDestroyStream not found")
	} else {
		// expected: if !ac.closed && ac.closeConn { ac.client.Close() } ; ac.pool.onStreamDestroy(ac)   (close first)
		// also recognised (Model/PoolDestroy.v): the two statements in the other order (append first)
		shape := len(fd.Body.List) == 2
		if shape {
			isClose := func(st ast.Stmt) bool {
				is, isIf := st.(*ast.IfStmt)
				return isIf && exprStr(fset, is.Cond) == "!ac.closed&&ac.closeConn" && containsCall(is.Body, "Close") && is.Else == nil
			}
			isPut := func(st ast.Stmt) bool {
				_, isExpr := st.(*ast.ExprStmt)
				return isExpr && containsCall(st, "onStreamDestroy")
			}
			switch {
			case isClose(fd.Body.List[0]) && isPut(fd.Body.List[1]):
				httpCloseFirst = true
			case isPut(fd.Body.List[0]) && isClose(fd.Body.List[1]):
				httpCloseFirst = false
			default:
				shape = false
			}
		}
		if !shape {
			bad("http OnDestroyStream: unrecognised shape")
		}
	}

	// ---- xprotocol ping-pong pool
	fset2, f2, err := ParseGoFile(repo, "pkg/stream/xprotocol/connpool_pingpong.go")
	if err != nil {
		return "", err
	}
	ppResetAny := false
	if fd := FindFunc(f2, "activeClientPingPong", "OnResetStream"); fd == nil {
		bad("ping-pong OnResetStream not found")
	} else {
		switch c := flagAssignCond(fset2, fd, "shouldCloseConn"); c {
		case "!ac.closed":
			ppResetAny = true
		case "reason==types.StreamLocalReset&&!ac.closed":
			ppResetAny = false
		default:
			bad("ping-pong OnResetStream: unrecognised condition for shouldCloseConn = true: %q", c)
		}
	}
	ppClose := false
	if fd := FindFunc(f2, "activeClientPingPong", "OnDestroyStream"); fd == nil {
		bad("ping-pong OnDestroyStream not found")
	} else {
		reads := 0
		for _, s := range fd.Body.List {
			is, isIf := s.(*ast.IfStmt)
			if !isIf {
				if strings.Contains(exprStr(fset2, s), "shouldCloseConn") {
					bad("ping-pong OnDestroyStream: shouldCloseConn used outside an if")
				}
				continue
			}
			c := exprStr(fset2, is.Cond)
			if !strings.Contains(c, "shouldCloseConn") {
				continue
			}
			reads++
			last := is.Body.List[len(is.Body.List)-1]
			_, isRet := last.(*ast.ReturnStmt)
			if (c == "ac.shouldCloseConn&&!ac.closed" || c == "!ac.closed&&ac.shouldCloseConn") && containsCall(is.Body, "Close") && isRet && is.Else == nil {
				ppClose = true
			} else {
				bad("ping-pong OnDestroyStream: unrecognised use of shouldCloseConn: if %s", c)
			}
		}
		if reads > 1 {
			bad("ping-pong OnDestroyStream: shouldCloseConn read %d times", reads)
		}
		if !containsCall(fd.Body, "Decrease") {
			bad("ping-pong OnDestroyStream: Requests().Decrease() not found")
		}
	}
	if fd := FindFunc(f2, "poolPingPong", "GetActiveClient"); fd == nil {
		bad("ping-pong GetActiveClient not found")
	} else if len(fd.Body.List) < 2 {
		bad("ping-pong GetActiveClient: unrecognised shape")
	} else if is, isIf := fd.Body.List[1].(*ast.IfStmt); !isIf || !containsCall(is.Cond, "CanCreate") {
		bad("ping-pong GetActiveClient: the Requests().CanCreate() test is no longer the first step")
	}

	// ---- xprotocol multiplex pool
	fset3, f3, err := ParseGoFile(repo, "pkg/stream/xprotocol/connpool_multiplex.go")
	if err != nil {
		return "", err
	}
	mxFlag, mxOwn := false, false
	if fd := FindFunc(f3, "activeClientMultiplex", "OnDestroyStream"); fd == nil {
		bad("multiplex OnDestroyStream not found")
	} else {
		n := 0
		for _, st := range fd.Body.List {
			is, isIf := st.(*ast.IfStmt)
			if !isIf || !containsCall(is.Body, "Close") {
				continue
			}
			n++
			switch c := exprStr(fset3, is.Cond); c {
			case "atomic.LoadUint32(&ac.goaway)==1&&ac.codecClient.ActiveRequestsNum()==0":
				mxFlag = true
			case "atomic.LoadUint32(&ac.state)==GoAway&&ac.codecClient.ActiveRequestsNum()==0":
				mxFlag = false
			default:
				bad("multiplex OnDestroyStream: unrecognised drain condition %q", c)
			}
		}
		if n != 1 {
			bad("multiplex OnDestroyStream: %d closing branches", n)
		}
	}
	if fd := FindFunc(f3, "activeClientMultiplex", "OnGoAway"); fd == nil {
		bad("multiplex OnGoAway not found")
	} else if mxFlag && !strings.Contains(exprStr(fset3, fd.Body), "atomic.StoreUint32(&ac.goaway,1)") {
		bad("multiplex OnGoAway does not set the goaway flag that OnDestroyStream reads")
	}
	if fd := FindFunc(f3, "poolMultiplex", "onConnectionEvent"); fd == nil {
		bad("multiplex onConnectionEvent not found")
	} else {
		n := 0
		ast.Inspect(fd.Body, func(x ast.Node) bool {
			is, isIf := x.(*ast.IfStmt)
			if !isIf {
				return true
			}
			direct := false
			for _, st := range is.Body.List {
				if es, ok := st.(*ast.ExprStmt); ok && containsCall(es, "Delete") {
					direct = true
				}
			}
			nested := !direct && containsCall(is.Body, "Delete")
			c := exprStr(fset3, is.Cond)
			switch {
			case direct && strings.HasSuffix(c, "ok&&v==ac"):
				n++
				mxOwn = true
			case nested && c == "atomic.LoadUint32(&ac.state)!=GoAway":
				n++
				mxOwn = false
			case direct && c != "atomic.LoadUint32(&ac.state)!=GoAway":
				bad("multiplex onConnectionEvent: unrecognised condition around Delete: %q", c)
			case direct:
				n++
				mxOwn = false
			}
			return true
		})
		if n != 1 {
			bad("multiplex onConnectionEvent: %d recognised Delete sites", n)
		}
	}

	// locking discipline of poolMultiplex.init: is the dial inside the clientMux critical section that stores the client?
	mxDialLocked := false
	if fd := FindFunc(f3, "poolMultiplex", "init"); fd == nil {
		bad("multiplex init not found")
	} else {
		var lit *ast.FuncLit
		ast.Inspect(fd.Body, func(x ast.Node) bool {
			if fl, isLit := x.(*ast.FuncLit); isLit && lit == nil {
				lit = fl
			}
			return lit == nil
		})
		if lit == nil {
			bad("multiplex init: goroutine body not found")
		} else {
			iLock, iDefer, iDial, iStore := -1, -1, -1, -1
			for i, st := range lit.Body.List {
				txt := exprStr(fset3, st)
				switch {
				case txt == "p.clientMux.Lock()" && iLock < 0:
					iLock = i
				case txt == "deferp.clientMux.Unlock()" && iDefer < 0:
					iDefer = i
				}
				if containsCall(st, "newActiveClient") && iDial < 0 {
					iDial = i
				}
				if containsCall(st, "Store") && iStore < 0 {
					iStore = i
				}
			}
			switch {
			case iLock < 0 || iDial < 0 || iStore < 0 || iDefer != iLock+1:
				bad("multiplex init: lock (%d), deferred unlock (%d), dial (%d) or store (%d) not recognised", iLock, iDefer, iDial, iStore)
			case iLock < iDial && iDial < iStore:
				mxDialLocked = true
			case iDial < iLock && iLock < iStore:
				mxDialLocked = false
			default:
				bad("multiplex init: unrecognised order of lock (%d), dial (%d), store (%d)", iLock, iDial, iStore)
			}
		}
	}
	if fd := FindFunc(f3, "poolMultiplex", "onConnectionEvent"); fd != nil {
		txt := exprStr(fset3, fd.Body)
		il, iv := strings.Index(txt, "p.clientMux.Lock()"), strings.Index(txt, "v==ac")
		if il < 0 || iv < 0 || il > iv {
			bad("multiplex onConnectionEvent: the slot test is not under clientMux")
		}
	}

	// ---- request accounting of the xprotocol pools: is the pool a listener of / does it count a one-way stream?
	acct := map[string][2]bool{}
	for _, pf := range []struct{ name, file, recv string }{
		{"multiplex", "pkg/stream/xprotocol/connpool_multiplex.go", "poolMultiplex"},
		{"pingpong", "pkg/stream/xprotocol/connpool_pingpong.go", "poolPingPong"},
		{"binding", "pkg/stream/xprotocol/connpool_binding.go", "poolBinding"}} {
		fs, ff, err := ParseGoFile(repo, pf.file)
		if err != nil {
			return "", err
		}
		fd := FindFunc(ff, pf.recv, "NewStream")
		if fd == nil {
			bad("%s NewStream not found", pf.name)
			continue
		}
		// walk the top level; `if receiver == nil {..} else {..}` splits into one-way / two-way code, a body ending in return
		// makes everything after it two-way only
		var listen, count [2]bool // [one-way, two-way]
		mark := func(n ast.Node, one, two bool) {
			if containsCall(n, "AddEventListener") {
				listen[0], listen[1] = listen[0] || one, listen[1] || two
			}
			if containsCall(n, "Increase") {
				count[0], count[1] = count[0] || one, count[1] || two
			}
		}
		oneAlive := true
		for _, st := range fd.Body.List {
			is, isIf := st.(*ast.IfStmt)
			if isIf && exprStr(fs, is.Cond) == "receiver==nil" {
				mark(is.Body, oneAlive, false)
				if is.Else != nil {
					mark(is.Else, false, true)
				}
				if n := len(is.Body.List); n > 0 {
					if _, ret := is.Body.List[n-1].(*ast.ReturnStmt); ret {
						oneAlive = false
					}
				}
				continue
			}
			if isIf && strings.Contains(exprStr(fs, is.Cond), "receiver") {
				bad("%s NewStream: unrecognised test on receiver: %s", pf.name, exprStr(fs, is.Cond))
			}
			mark(st, oneAlive, true)
		}
		if !listen[1] || !count[1] {
			bad("%s NewStream: a two-way stream is not listened to / counted", pf.name)
		}
		acct[pf.name] = [2]bool{listen[0], count[0]}
		// the listener's OnDestroyStream decrements unconditionally
		recvAC := map[string]string{"multiplex": "activeClientMultiplex", "pingpong": "activeClientPingPong", "binding": "activeClientBinding"}[pf.name]
		if od := FindFunc(ff, recvAC, "OnDestroyStream"); od == nil {
			bad("%s OnDestroyStream not found", pf.name)
		} else {
			// the decrements are plain top-level statements (unconditional)
			dec, res := false, false
			for _, st := range od.Body.List {
				if _, isExpr := st.(*ast.ExprStmt); !isExpr {
					continue
				}
				txt := exprStr(fs, st)
				dec = dec || strings.Contains(txt, "HostStats().UpstreamRequestActive.Dec(1)")
				res = res || strings.Contains(txt, "Requests().Decrease()")
			}
			if !dec || !res {
				bad("%s OnDestroyStream: the decrements are not unconditional top-level statements", pf.name)
			}
		}
	}
	destroyOneway := false
	{
		fs, ff, err := ParseGoFile(repo, "pkg/stream/xprotocol/stream.go")
		if err != nil {
			return "", err
		}
		if fd := FindFunc(ff, "xStream", "endStream"); fd == nil {
			bad("xStream.endStream not found")
		} else {
			ast.Inspect(fd.Body, func(x ast.Node) bool {
				if is, isIf := x.(*ast.IfStmt); isIf && containsCall(is.Body, "DestroyStream") {
					c := exprStr(fs, is.Cond)
					if strings.Contains(c, "s.receiver==nil") {
						destroyOneway = true
					}
				}
				return true
			})
		}
	}

	// ---- resource manager: do Increase / Decrease count while the limit is 0 (unlimited)?
	resCountsUnlimited := false
	{
		fs, ff, err := ParseGoFile(repo, "pkg/upstream/cluster/resource_manager.go")
		if err != nil {
			return "", err
		}
		shape := map[string]string{}
		for _, m := range []string{"Increase", "Decrease"} {
			fd := FindFunc(ff, "resource", m)
			if fd == nil {
				bad("resource.%s not found", m)
				continue
			}
			shape[m] = exprStr(fs, fd.Body)
		}
		inc, dec := shape["Increase"], shape["Decrease"]
		switch {
		case inc == "{atomic.AddInt64(&r.current,1)}" && dec == "{atomic.AddInt64(&r.current,-1)}":
			resCountsUnlimited = true
		case inc == "{ifr.max!=0{atomic.AddInt64(&r.current,1)}}" && dec == "{ifr.max!=0{atomic.AddInt64(&r.current,-1)}}":
			resCountsUnlimited = false
		default:
			bad("resource.Increase / Decrease: unrecognised bodies %q / %q", inc, dec)
		}
		if fd := FindFunc(ff, "resource", "CanCreate"); fd == nil {
			bad("resource.CanCreate not found")
		} else if c := exprStr(fs, fd.Body); !strings.Contains(c, "r.max==0") && !strings.Contains(c, "max==0") {
			bad("resource.CanCreate: no unlimited case recognised: %q", c)
		}
	}

	// ---- ping-pong GetActiveClient, no idle client: is totalClientCount incremented inside the critical section of the
	// max_connections test (Model/PoolInit.v pp_connect_prog, Model/PoolAdmit.v conn_prog)
	ppCountLocked := false
	{
		fs, ff, err := ParseGoFile(repo, "pkg/stream/xprotocol/connpool_pingpong.go")
		if err != nil {
			return "", err
		}
		found := 0
		if fd := FindFunc(ff, "poolPingPong", "GetActiveClient"); fd != nil {
			ast.Inspect(fd.Body, func(x ast.Node) bool {
				is, isIf := x.(*ast.IfStmt)
				if !isIf || exprStr(fs, is.Cond) != "maxConns==0||p.totalClientCount.Load()<maxConns" {
					return true
				}
				found++
				iInc, iUnlock, iDial, iLate := -1, -1, -1, -1
				for i, st := range is.Body.List {
					txt := exprStr(fs, st)
					switch {
					case txt == "p.totalClientCount.Inc()":
						iInc = i
					case txt == "p.clientMux.Unlock()":
						iUnlock = i
					case containsCall(st, "newActiveClient"):
						iDial = i
					case strings.Contains(txt, "p.totalClientCount.Inc()"):
						iLate = i
					}
				}
				switch {
				case iInc >= 0 && iInc < iUnlock && iUnlock < iDial && iLate < 0 && strings.Contains(exprStr(fs, is.Body), "ifc==nil||reason!=\"\"{p.totalClientCount.Dec()}"):
					ppCountLocked = true
				case iInc < 0 && iUnlock >= 0 && iUnlock < iDial && iDial < iLate:
					ppCountLocked = false
				default:
					bad("ping-pong GetActiveClient: unrecognised order of count (%d/%d), unlock (%d), dial (%d)", iInc, iLate, iUnlock, iDial)
				}
				return true
			})
		}
		if found != 1 {
			bad("ping-pong GetActiveClient: %d max connections tests recognised", found)
		}
	}

	// ---- ping-pong Close(nil) (return of a leased client) against removeFromPool (close event of that client): is the
	// client's closed flag tested inside the critical section that appends it to the idle list (Model/PoolPut.v put_prog)
	ppPutLocked := false
	{
		fs, ff, err := ParseGoFile(repo, "pkg/stream/xprotocol/connpool_pingpong.go")
		if err != nil {
			return "", err
		}
		put := FindFunc(ff, "poolPingPong", "putClientToPoolLocked")
		cl := FindFunc(ff, "activeClientPingPong", "Close")
		rm := FindFunc(ff, "activeClientPingPong", "removeFromPool")
		if put == nil || cl == nil || rm == nil {
			bad("ping-pong putClientToPoolLocked / Close / removeFromPool not found")
		} else {
			putTxt, clTxt, rmTxt := exprStr(fs, put.Body), exprStr(fs, cl.Body), exprStr(fs, rm.Body)
			guarded := putTxt == "{if!client.closed{p.idleClients=append(p.idleClients,client)}}"
			bare := putTxt == "{p.idleClients=append(p.idleClients,client)}"
			iLock := strings.Index(clTxt, "ac.pool.clientMux.Lock()")
			iPut := strings.Index(clTxt, "ac.pool.putClientToPoolLocked(ac)")
			iClosed := strings.Index(clTxt, "ac.closed")
			rmOK := strings.HasPrefix(rmTxt, "{p:=ac.pool;p.clientMux.Lock();deferp.clientMux.Unlock()") ||
				strings.HasPrefix(rmTxt, "{p:=ac.pool\np.clientMux.Lock()")
			if !rmOK {
				rmOK = strings.Contains(rmTxt, "p.clientMux.Lock()") && strings.Contains(rmTxt, "deferp.clientMux.Unlock()") &&
					strings.Index(rmTxt, "p.clientMux.Lock()") < strings.Index(rmTxt, "p.idleClients") && strings.Contains(rmTxt, "ac.closed=true")
			}
			switch {
			case !rmOK:
				bad("ping-pong removeFromPool: lock / remove / closed = true not recognised: %q", rmTxt)
			case iLock < 0 || iPut < iLock || !strings.Contains(clTxt, "deferac.pool.clientMux.Unlock()"):
				bad("ping-pong Close: lock / put order not recognised: %q", clTxt)
			case guarded && iClosed < 0:
				ppPutLocked = true
			case bare && iClosed >= 0 && iClosed < iLock:
				ppPutLocked = false
			case guarded && iClosed >= 0:
				ppPutLocked = true // an extra early test on top of the locked one does no harm
			default:
				bad("ping-pong Close / putClientToPoolLocked: closed test not recognised: %q / %q", clTxt, putTxt)
			}
		}
	}

	// ---- HTTP/1 client stream connection: data from the upstream while no request is outstanding closes the connection
	httpIdleDataCloses := false
	{
		fs, ff, err := ParseGoFile(repo, "pkg/stream/http/stream.go")
		if err != nil {
			return "", err
		}
		guard, set1, set0, spare := false, false, false, false
		if fd := FindFunc(ff, "clientStreamConnection", "Dispatch"); fd != nil {
			ast.Inspect(fd.Body, func(x ast.Node) bool {
				if is, isIf := x.(*ast.IfStmt); isIf && exprStr(fs, is.Cond) == "atomic.LoadInt32(&conn.awaiting)==0" && containsCall(is.Body, "Close") && strings.Contains(exprStr(fs, is.Body), "return") {
					guard = true
				}
				return true
			})
		}
		if fd := FindFunc(ff, "clientStream", "doSend"); fd != nil && len(fd.Body.List) > 0 {
			set1 = exprStr(fs, fd.Body.List[0]) == "atomic.StoreInt32(&s.connection.awaiting,1)"
		}
		if fd := FindFunc(ff, "clientStreamConnection", "serve"); fd != nil {
			txt := exprStr(fs, fd.Body)
			iRead, iClr, iHandle := strings.Index(txt, "s.response.Read(conn.br)"), strings.Index(txt, "atomic.StoreInt32(&conn.awaiting,0)"), strings.LastIndex(txt, "s.handleResponse()")
			set0 = iRead >= 0 && iRead < iClr && iClr < iHandle
			spare = strings.Contains(txt, "ifconn.br.Buffered()>0{resetConn=true}")
		} else {
			bad("http clientStreamConnection.serve not found")
		}
		switch {
		case guard && set1 && set0 && spare:
			httpIdleDataCloses = true
		case !guard && !set1 && !set0 && !spare:
			httpIdleDataCloses = false
		default:
			bad("http client stream connection: partial idle-data handling (guard %v, set on send %v, cleared after the response %v, trailing bytes %v)", guard, set1, set0, spare)
		}
	}

	// ---- binding pool GetActiveClient: lookup of the bound client, dial and binding in ONE critical section
	bindDialLocked := false
	{
		fs, ff, err := ParseGoFile(repo, "pkg/stream/xprotocol/connpool_binding.go")
		if err != nil {
			return "", err
		}
		if fd := FindFunc(ff, "poolBinding", "GetActiveClient"); fd == nil {
			bad("binding GetActiveClient not found")
		} else {
			iLock, iDefer, iDial, iUnlock := -1, -1, -1, -1
			for i, st := range fd.Body.List {
				txt := exprStr(fs, st)
				switch {
				case txt == "p.clientMux.Lock()" && iLock < 0:
					iLock = i
				case txt == "deferp.clientMux.Unlock()" && iDefer < 0:
					iDefer = i
				case txt == "p.clientMux.Unlock()" && iUnlock < 0:
					iUnlock = i
				case containsCall(st, "newActiveClient") && iDial < 0:
					iDial = i
				}
			}
			switch {
			case iLock >= 0 && iDefer == iLock+1 && iDial > iDefer && iUnlock < 0:
				bindDialLocked = true
			case iLock >= 0 && iDial >= 0:
				bindDialLocked = false
			default:
				bad("binding GetActiveClient: lock (%d), deferred unlock (%d), dial (%d) not recognised", iLock, iDefer, iDial)
			}
		}
	}

	// ---- HTTP/2 pool: connection accounting (Model/PoolH2.v, Model/PoolH2Race.v)
	h2Identity, h2SkipGoaway, h2DecOnDrop, h2DialLocked := false, false, false, false
	{
		fs, ff, err := ParseGoFile(repo, "pkg/stream/http2/connpool.go")
		if err != nil {
			return "", err
		}
		// deleteActiveClient: decrements both gauges; clears p.activeClient unconditionally or only if it is its argument
		if fd := FindFunc(ff, "connPool", "deleteActiveClient"); fd == nil {
			bad("http2 deleteActiveClient not found")
		} else {
			param := ""
			if fd.Type.Params != nil && len(fd.Type.Params.List) == 1 && len(fd.Type.Params.List[0].Names) == 1 {
				param = fd.Type.Params.List[0].Names[0].Name
			}
			decs, uncond, cond := 0, 0, 0
			for _, st := range fd.Body.List {
				txt := exprStr(fs, st)
				switch {
				case strings.HasSuffix(txt, "UpstreamConnectionActive.Dec(1)"):
					decs++
				case txt == "p.activeClient=nil":
					uncond++
				case param != "" && (txt == "ifp.activeClient=="+param+"{p.activeClient=nil}" || txt == "if"+param+"==p.activeClient{p.activeClient=nil}"):
					cond++
				default:
					bad("http2 deleteActiveClient: unrecognised statement %q", txt)
				}
			}
			switch {
			case decs == 2 && uncond == 1 && cond == 0:
				h2Identity = false
			case decs == 2 && uncond == 0 && cond == 1:
				h2Identity = true
			default:
				bad("http2 deleteActiveClient: %d decrements, %d unconditional and %d guarded clearings of p.activeClient", decs, uncond, cond)
			}
		}
		// onConnectionEvent: the close branch calls deleteActiveClient under p.mux; an early return for GOAWAY'd clients before it?
		if fd := FindFunc(ff, "connPool", "onConnectionEvent"); fd == nil {
			bad("http2 onConnectionEvent not found")
		} else {
			var closeBody *ast.BlockStmt
			for _, st := range fd.Body.List {
				if is, isIf := st.(*ast.IfStmt); isIf && exprStr(fs, is.Cond) == "event.IsClose()" {
					closeBody = is.Body
				}
			}
			if closeBody == nil {
				bad("http2 onConnectionEvent: no `if event.IsClose()` branch")
			} else {
				iLock, iDel, iUnlock, iSkip := -1, -1, -1, -1
				for i, st := range closeBody.List {
					txt := exprStr(fs, st)
					switch {
					case txt == "p.mux.Lock()":
						iLock = i
					case txt == "p.mux.Unlock()":
						iUnlock = i
					case strings.HasPrefix(txt, "p.deleteActiveClient("):
						iDel = i
					case txt == "ifatomic.LoadUint32(&client.goaway)==1{return}":
						iSkip = i
					default:
						if containsCall(st, "deleteActiveClient") || strings.Contains(txt, "return") || strings.Contains(txt, "p.activeClient") {
							bad("http2 onConnectionEvent: unrecognised statement in the close branch: %q", txt)
						}
					}
				}
				if iLock < 0 || iDel != iLock+1 || iUnlock != iDel+1 {
					bad("http2 onConnectionEvent: deleteActiveClient is not called as Lock / delete / Unlock (%d %d %d)", iLock, iDel, iUnlock)
				}
				if iSkip >= 0 && iSkip > iDel {
					bad("http2 onConnectionEvent: GOAWAY test after the release")
				}
				h2SkipGoaway = iSkip >= 0
			}
		}
		// the connect path: the function (method or function literal) whose top level calls newActiveClient
		var connect *ast.BlockStmt
		n := 0
		ast.Inspect(ff, func(x ast.Node) bool {
			var body *ast.BlockStmt
			switch f := x.(type) {
			case *ast.FuncDecl:
				if f.Name.Name == "newActiveClient" {
					return false
				}
				body = f.Body
			case *ast.FuncLit:
				body = f.Body
			}
			if body != nil {
				for _, st := range body.List {
					// a statement that merely contains the connecting function literal is not the connect path itself
					direct := false
					ast.Inspect(st, func(y ast.Node) bool {
						if _, lit := y.(*ast.FuncLit); lit {
							return false
						}
						if ce, isCall := y.(*ast.CallExpr); isCall {
							if id, isId := ce.Fun.(*ast.Ident); isId && id.Name == "newActiveClient" {
								direct = true
							}
						}
						return !direct
					})
					if direct {
						connect = body
						n++
					}
				}
			}
			return true
		})
		if n != 1 || connect == nil {
			bad("http2 pool: %d places call newActiveClient", n)
		} else {
			locked, deferred, seenDial, seenDrop := false, false, false, false
			for _, st := range connect.List {
				txt := exprStr(fs, st)
				switch {
				case txt == "p.mux.Lock()":
					locked = true
					continue
				case txt == "p.mux.Unlock()":
					if deferred {
						bad("http2 connect path: Unlock after a deferred Unlock")
					}
					locked = false
					continue
				case txt == "deferp.mux.Unlock()":
					if !locked {
						bad("http2 connect path: deferred Unlock without Lock")
					}
					deferred = true
					continue
				}
				if is, isIf := st.(*ast.IfStmt); isIf && exprStr(fs, is.Cond) == "p.activeClient!=nil&&atomic.LoadUint32(&p.activeClient.goaway)==1" {
					body := exprStr(fs, is.Body)
					switch {
					case !locked:
						bad("http2 connect path: the GOAWAY test is not under p.mux")
					case body == "{p.deleteActiveClient()}":
						h2DecOnDrop = true
					case body == "{p.activeClient=nil}":
						h2DecOnDrop = false
					default:
						bad("http2 connect path: unrecognised handling of a GOAWAY'd shared client: %q", body)
					}
					seenDrop = true
					continue
				}
				if containsCall(st, "newActiveClient") && !seenDial {
					seenDial = true
					h2DialLocked = locked
				}
			}
			if !seenDial || !seenDrop {
				bad("http2 connect path: dial (%v) or GOAWAY test (%v) not recognised", seenDial, seenDrop)
			}
		}
		switch {
		case h2Identity && !h2SkipGoaway && !h2DecOnDrop, !h2Identity && h2SkipGoaway && h2DecOnDrop, !h2Identity && !h2SkipGoaway && !h2DecOnDrop:
		default:
			notes = append(notes, "http2 pool: unusual combination of release switches")
		}
	}

	var b strings.Builder
	b.WriteString("From MV Require Import Model.Pool Model.PoolMx Model.PoolAcct Model.PoolH2.\n")
	for _, n := range notes {
		b.WriteString("(* " + strings.ReplaceAll(n, "*)", "* )") + " *)\n")
	}
	fmt.Fprintf(&b, "Definition pool_src_switches : switches := mkSw %v %v %v %v.\n", checkFirst, httpResetAny, ppClose, ppResetAny)
	fmt.Fprintf(&b, "Definition poolmx_src_switches : mx_switches := mkMxSw %v %v.\n", mxFlag, mxOwn)
	fmt.Fprintf(&b, "Definition poolinit_src_mx_dial_locked : bool := %v.\n", mxDialLocked)
	fmt.Fprintf(&b, "Definition pooldestroy_src_http_close_first : bool := %v.\n", httpCloseFirst)
	for _, n := range []string{"multiplex", "pingpong", "binding"} {
		fmt.Fprintf(&b, "Definition poolacct_src_%s : apolicy := mkAP %v %v.\n", n, acct[n][0], acct[n][1])
	}
	fmt.Fprintf(&b, "Definition poolacct_src_destroy_oneway : bool := %v.\n", destroyOneway)
	fmt.Fprintf(&b, "Definition poolres_src_counts_unlimited : bool := %v.\n", resCountsUnlimited)
	fmt.Fprintf(&b, "Definition poolinit_src_pp_count_locked : bool := %v.\n", ppCountLocked)
	fmt.Fprintf(&b, "Definition poolput_src_pp_closed_tested_locked : bool := %v.\n", ppPutLocked)
	fmt.Fprintf(&b, "Definition poolhttp_src_idle_data_closes : bool := %v.\n", httpIdleDataCloses)
	fmt.Fprintf(&b, "Definition poolbind_src_dial_locked : bool := %v.\n", bindDialLocked)
	fmt.Fprintf(&b, "Definition poolh2_src_switches : h2sw := mkH2Sw %v %v %v.\n", h2Identity, h2SkipGoaway, h2DecOnDrop)
	fmt.Fprintf(&b, "Definition poolh2_src_dial_locked : bool := %v.\n", h2DialLocked)
	fmt.Fprintf(&b, "Definition PoolSrc_translator_ok := %v.\n", ok)
	return b.String(), nil
}

// genXConnSrc: the shape of GenerateRequestID of the xprotocol codecs (Model/XAlloc.v alloc_prog): a single
// atomic.AddUint64 with a cast (one atomic step), or add-then-reset in two atomic steps, or unknown.
func genXConnSrc(repo string) (string, error) {
	var b strings.Builder
	b.WriteString("From Coq Require Import NArith.\nFrom MV Require Import Model.XConn Model.XAlloc Model.XReply.\nOpen Scope N_scope.\n")
	ok := true
	for _, p := range []struct{ name, dir, recv string }{
		{"bolt", "bolt", "boltProtocol"}, {"boltv2", "boltv2", "boltv2Protocol"}, {"tars", "tars", "tarsProtocol"},
		{"dubbo", "dubbo", "dubboProtocol"}, {"dubbothrift", "dubbothrift", "thriftProtocol"}} {
		fset, f, err := ParseGoFile(repo, "pkg/protocol/xprotocol/"+p.dir+"/protocol.go")
		if err != nil {
			return "", err
		}
		prog := ""
		fd := FindFunc(f, p.recv, "GenerateRequestID")
		if fd != nil && fd.Type.Params != nil && len(fd.Type.Params.List) == 1 && len(fd.Type.Params.List[0].Names) == 1 {
			arg := fd.Type.Params.List[0].Names[0].Name
			var st []string
			for _, x := range fd.Body.List {
				st = append(st, exprStr(fset, x))
			}
			add := "atomic.AddUint64(" + arg + ",1)"
			switch {
			case len(st) == 1 && st[0] == "returnuint64(uint32("+add+"))":
				prog = "AtomicAdd GenU32"
			case len(st) == 1 && st[0] == "returnuint64(int32("+add+"))":
				prog = "AtomicAdd GenS32"
			case len(st) == 1 && st[0] == "return"+add:
				prog = "AtomicAdd GenU64"
			case len(st) == 3 && st[0] == "id:="+add && st[2] == "returnid":
				for lim, v := range map[string]string{"math.MaxInt32": "2147483647", "math.MaxUint32": "4294967295"} {
					if st[1] == "ifid>"+lim+"{atomic.StoreUint64("+arg+",1);id=1}" || st[1] == "ifid>"+lim+"{atomic.StoreUint64("+arg+",1)id=1}" {
						prog = "AddThenReset " + v
					}
				}
			}
		}
		if prog == "" {
			ok = false
			fmt.Fprintf(&b, "(* %s: GenerateRequestID has a shape the translator does not know *)\n", p.name)
			prog = "AddThenReset 0"
		}
		fmt.Fprintf(&b, "Definition xsrc_%s : alloc_prog := %s.\n", p.name, prog)
	}
	// where the server stream stamps its own id on the frame it writes (pkg/stream/xprotocol/stream.go)
	{
		fset, f, err := ParseGoFile(repo, "pkg/stream/xprotocol/stream.go")
		if err != nil {
			return "", err
		}
		rs := ""
		if fd := FindFunc(f, "xStream", "endStream"); fd != nil && strings.Contains(exprStr(fset, fd.Body), "s.frame.SetRequestId(s.id)") {
			rs = "RestampEnd"
		} else if fd := FindFunc(f, "xStream", "AppendHeaders"); fd != nil {
			// stamped in AppendHeaders: only in the branch that does not go through buildHijackResp?
			ast.Inspect(fd.Body, func(x ast.Node) bool {
				is, isIf := x.(*ast.IfStmt)
				if !isIf || !strings.Contains(exprStr(fset, is.Body), "buildHijackResp") || is.Else == nil {
					return true
				}
				if strings.Contains(exprStr(fset, is.Else), "SetRequestId(s.id)") && !strings.Contains(exprStr(fset, is.Body), "SetRequestId(s.id)") {
					rs = "RestampNonHijack"
				}
				return true
			})
		}
		if rs == "" {
			ok = false
			b.WriteString("(* stream.go: the place where the server stream stamps its id was not recognised *)\n")
			rs = "RestampNonHijack"
		}
		fmt.Fprintf(&b, "Definition xsrc_restamp : restamp := %s.\n", rs)
	}
	// which id the codec's Hijack puts into the reply
	for _, p := range []struct{ name, dir, recv string }{
		{"bolt", "bolt", "boltProtocol"}, {"boltv2", "boltv2", "boltv2Protocol"}, {"tars", "tars", "tarsProtocol"}, {"dubbo", "dubbo", "dubboProtocol"}} {
		fset, f, err := ParseGoFile(repo, "pkg/protocol/xprotocol/"+p.dir+"/protocol.go")
		if err != nil {
			return "", err
		}
		hj := ""
		if fd := FindFunc(f, p.recv, "Hijack"); fd != nil {
			txt := exprStr(fset, fd.Body)
			switch {
			case len(fd.Body.List) == 1 && exprStr(fset, fd.Body.List[0]) == "returnnil":
				hj = "HjNone"
			case strings.Contains(txt, "request.GetRequestId()"):
				hj = "HjCopy"
			case strings.Contains(txt, "RequestId:0,"):
				hj = "HjZero"
			}
		}
		if hj == "" {
			ok = false
			fmt.Fprintf(&b, "(* %s: Hijack has a shape the translator does not know *)\n", p.name)
			hj = "HjCopy"
		}
		fmt.Fprintf(&b, "Definition xsrc_hijack_%s : hijack_id := %s.\n", p.name, hj)
	}
	// the client stream table against resets (Model/XConn.v: XReset deletes the id of the stream whatever its state; XNew
	// creates a fresh alive stream): xStream.ResetStream starts with the delete under clientMutex, no return before it;
	// newClientStream starts from a clean stream object (the pooled object of the request context is re-used by retries)
	{
		resetDeletes, freshStream := false, false
		if fs, ff, err := ParseGoFile(repo, "pkg/stream/xprotocol/stream.go"); err != nil {
			return "", err
		} else if fd := FindFunc(ff, "xStream", "ResetStream"); fd != nil && len(fd.Body.List) >= 2 {
			first := exprStr(fs, fd.Body.List[0])
			last := exprStr(fs, fd.Body.List[len(fd.Body.List)-1])
			resetDeletes = first == "ifs.direction==stream.ClientStream&&!s.connReset{s.sc.clientMutex.Lock();delete(s.sc.clientStreams,s.id);s.sc.clientMutex.Unlock()}" ||
				first == "ifs.direction==stream.ClientStream&&!s.connReset{s.sc.clientMutex.Lock()delete(s.sc.clientStreams,s.id)s.sc.clientMutex.Unlock()}"
			if last != "s.BaseStream.ResetStream(reason)" {
				ok = false
				fmt.Fprintf(&b, "(* xStream.ResetStream does not end with BaseStream.ResetStream: %s *)\n", last)
			}
		} else {
			ok = false
			b.WriteString("(* xStream.ResetStream not recognised *)\n")
		}
		if fs, ff, err := ParseGoFile(repo, "pkg/stream/xprotocol/conn.go"); err != nil {
			return "", err
		} else if fd := FindFunc(ff, "streamConn", "newClientStream"); fd != nil {
			iTake, iZero, iID := -1, -1, -1
			for i, st := range fd.Body.List {
				switch txt := exprStr(fs, st); {
				case txt == "clientStream:=&buffers.clientStream":
					iTake = i
				case txt == "*clientStream=xStream{}":
					iZero = i
				case strings.HasPrefix(txt, "clientStream.id=") && iID < 0:
					iID = i
				}
			}
			freshStream = iTake >= 0 && iZero == iTake+1 && iID > iZero
			if iTake < 0 || iID < 0 {
				ok = false
				b.WriteString("(* streamConn.newClientStream not recognised *)\n")
			}
		} else {
			ok = false
			b.WriteString("(* streamConn.newClientStream not found *)\n")
		}
		// handleResponse (Model/XConn.v XResponse is ONE step: lookup by the frame's id, delete that id, then deliver): lookup
		// and delete sit in one clientMutex critical section, the delete is keyed by the id of the frame, nothing is deferred,
		// and the receiver is called after the unlock - so a stream created while the response is being delivered (a retry
		// re-using the stream object of the request context) meets a table that no longer holds the answered id
		respAtomic := false
		if fs, ff, err := ParseGoFile(repo, "pkg/stream/xprotocol/conn.go"); err != nil {
			return "", err
		} else if fd := FindFunc(ff, "streamConn", "handleResponse"); fd != nil {
			txt := exprStr(fs, fd.Body)
			idx := func(sub string) int { return strings.Index(txt, sub) }
			iLock, iLook, iDel, iUnl, iRecv := idx("sc.clientMutex.Lock()"), idx("clientStream,ok:=sc.clientStreams[requestId]"),
				idx("delete(sc.clientStreams,requestId)"), strings.LastIndex(txt, "sc.clientMutex.Unlock()"), idx("clientStream.receiver.OnReceive(")
			respAtomic = strings.HasPrefix(txt, "{requestId:=frame.GetRequestId()") && iLock >= 0 && iLock < iLook && iLook < iDel && iDel < iUnl && iUnl < iRecv &&
				!strings.Contains(txt, "defer") && !strings.Contains(txt, "RLock") && strings.Count(txt, "delete(") == 1 &&
				strings.Count(txt, "sc.clientMutex.Lock()") == 1
			if iLook < 0 || iRecv < 0 {
				ok = false
				b.WriteString("(* streamConn.handleResponse not recognised *)\n")
			}
		} else {
			ok = false
			b.WriteString("(* streamConn.handleResponse not found *)\n")
		}
		fmt.Fprintf(&b, "Definition xsrc_response_delete_atomic_before_deliver : bool := %v.\n", respAtomic)
		fmt.Fprintf(&b, "Definition xsrc_reset_deletes_unconditionally : bool := %v.\n", resetDeletes)
		fmt.Fprintf(&b, "Definition xsrc_client_stream_fresh : bool := %v.\n", freshStream)
	}
	fmt.Fprintf(&b, "Definition XConnSrc_translator_ok := %v.\n", ok)
	return b.String(), nil
}
