package main

// A tiny ping-pong xprotocol ("vhpp") registered through the PUBLIC xprotocol registry, so that the real
// xprotocol.NewConnPool builds the real poolPingPong and the real streamConn dispatches its frames.
// Frame: magic(1) type(1) id(8, big endian) tok(4).

import (
	"context"
	"encoding/binary"
	"fmt"
	"sync"
	"sync/atomic"

	"mosn.io/api"
	"mosn.io/mosn/pkg/protocol/xprotocol"
	"mosn.io/mosn/pkg/protocol/xprotocol/bolt"
	"mosn.io/mosn/pkg/protocol/xprotocol/dubbo"
	"mosn.io/mosn/pkg/protocol/xprotocol/tars"
	sx "mosn.io/mosn/pkg/stream/xprotocol"
	"mosn.io/pkg/buffer"
)

type ppFrame struct {
	typ  byte
	id   uint64
	tok  uint32
	data api.IoBuffer
}

// api.HeaderMap
func (f *ppFrame) Get(key string) (string, bool)       { return "", false }
func (f *ppFrame) Set(key, value string)               {}
func (f *ppFrame) Add(key, value string)               {}
func (f *ppFrame) Del(key string)                      {}
func (f *ppFrame) Range(fn func(k, v string) bool)     {}
func (f *ppFrame) Clone() api.HeaderMap                { c := *f; return &c }
func (f *ppFrame) ByteSize() uint64                    { return ppLen }
func (f *ppFrame) GetRequestId() uint64                { return f.id }
func (f *ppFrame) SetRequestId(id uint64)              { f.id = id }
func (f *ppFrame) IsHeartbeatFrame() bool              { return f.typ == ppHB || f.typ == ppHBAck }
func (f *ppFrame) IsGoAwayFrame() bool                 { return f.typ == ppGoAway }
func (f *ppFrame) GetTimeout() int32                   { return 0 }
func (f *ppFrame) GetHeader() api.HeaderMap            { return f }
func (f *ppFrame) GetData() api.IoBuffer               { return f.data }
func (f *ppFrame) SetData(data api.IoBuffer)           { f.data = data }
func (f *ppFrame) GetStatusCode() uint32               { return 0 }
func (f *ppFrame) GetStreamType() api.StreamType {
	switch f.typ {
	case ppResponse, ppHBAck:
		return api.Response
	case ppOneway:
		return api.RequestOneWay
	}
	return api.Request
}

type ppProto struct {
	mode api.PoolMode
	name api.ProtocolName
	gen  func(*uint64) uint64 // GenerateRequestID of a REAL protocol (bolt / tars / dubbo); nil: bolt's formula
}

func (p *ppProto) Name() api.ProtocolName { return p.name }
func (p *ppProto) Encode(ctx context.Context, model interface{}) (api.IoBuffer, error) {
	f, ok := model.(*ppFrame)
	if !ok {
		return nil, fmt.Errorf("vhpp: unknown model %T", model)
	}
	return buffer.NewIoBufferBytes(ppFrameBytes(f.typ, f.id, f.tok)), nil
}
func (p *ppProto) Decode(ctx context.Context, data api.IoBuffer) (interface{}, error) {
	if data.Len() < ppLen {
		return nil, nil
	}
	b := data.Bytes()
	if b[0] != ppMagic || b[1] > ppOneway {
		return nil, fmt.Errorf("vhpp: bad frame")
	}
	f := &ppFrame{typ: b[1], id: binary.BigEndian.Uint64(b[2:]), tok: binary.BigEndian.Uint32(b[10:])}
	data.Drain(ppLen)
	return f, nil
}
func (p *ppProto) Trigger(ctx context.Context, requestId uint64) api.XFrame { return nil } // no keep-alive timers
func (p *ppProto) Reply(ctx context.Context, request api.XFrame) api.XRespFrame {
	return &ppFrame{typ: ppHBAck, id: request.GetRequestId()}
}
func (p *ppProto) Hijack(ctx context.Context, request api.XFrame, statusCode uint32) api.XRespFrame {
	return &ppFrame{typ: ppResponse, id: request.GetRequestId()}
}
func (p *ppProto) Mapping(httpStatusCode uint32) uint32 { return httpStatusCode }
func (p *ppProto) PoolMode() api.PoolMode               { return p.mode }
func (p *ppProto) EnableWorkerPool() bool               { return false }
func (p *ppProto) GenerateRequestID(streamID *uint64) uint64 {
	if p.gen != nil {
		return p.gen(streamID)
	}
	return uint64(uint32(atomic.AddUint64(streamID, 1)))
}

type ppCodec struct {
	name api.ProtocolName
	mode api.PoolMode
	gen  func(*uint64) uint64
}

func (c *ppCodec) ProtocolName() api.ProtocolName { return c.name }
func (c *ppCodec) NewXProtocol(ctx context.Context) api.XProtocol {
	return &ppProto{mode: c.mode, name: c.name, gen: c.gen}
}
func (c *ppCodec) ProtocolMatch() api.ProtocolMatch { return nil }
func (c *ppCodec) HTTPMapping() api.HTTPMapping     { return nil }

var ppCodecInst = &ppCodec{name: "vhpp", mode: api.PingPong}
var mxCodecInst = &ppCodec{name: "vhmx", mode: api.Multiplex}
var bdCodecInst = &ppCodec{name: "vhbd", mode: api.TCP}

// multiplex test codecs whose id generator IS the real protocol's GenerateRequestID
var genCodecs = map[string]*ppCodec{
	"GenU32": {name: "vhx-u32", mode: api.Multiplex, gen: (&bolt.XCodec{}).NewXProtocol(context.Background()).GenerateRequestID},
	"GenS32": {name: "vhx-s32", mode: api.Multiplex, gen: (&tars.XCodec{}).NewXProtocol(context.Background()).GenerateRequestID},
	"GenU64": {name: "vhx-u64", mode: api.Multiplex, gen: (&dubbo.XCodec{}).NewXProtocol(context.Background()).GenerateRequestID},
}

var registerOnce sync.Once

// registerProtocols registers the harness codecs exactly as cmd/mosn/main/control.go registers the
// production ones: RegisterXProtocolAction(NewConnPool, NewStreamFactory) + RegisterXProtocolCodec.
func registerProtocols() {
	registerOnce.Do(func() {
		xprotocol.RegisterXProtocolAction(sx.NewConnPool, sx.NewStreamFactory, nil)
		if err := xprotocol.RegisterXProtocolCodec(ppCodecInst); err != nil {
			panic(err)
		}
		if err := xprotocol.RegisterXProtocolCodec(mxCodecInst); err != nil {
			panic(err)
		}
		if err := xprotocol.RegisterXProtocolCodec(bdCodecInst); err != nil {
			panic(err)
		}
		for _, c := range genCodecs {
			if err := xprotocol.RegisterXProtocolCodec(c); err != nil {
				panic(err)
			}
		}
		if err := xprotocol.RegisterXProtocolCodec(&bolt.XCodec{}); err != nil {
			panic(err)
		}
	})
}
