package main

// C02 - request/response correlation on one xprotocol client connection.
// A REAL stream client (stream.NewStreamClient -> registered stream factory -> xprotocol streamConn) over a fake
// api.Connection that records writes; frames are fed through the client's read filter exactly as the connection's
// read loop does (OnData -> Dispatch).  Histories of {new stream, one-way stream, response id, stream reset,
// connection reset}; after every op the id counter, the client stream table and the per-stream deliveries/resets
// are compared with Model/XConn.v; the finder checks delivery soundness on the observed deliveries.

import (
	"bytes"
	"context"
	"encoding/binary"
	"fmt"
	"net"
	"reflect"
	"sort"
	"strings"
	"sync"

	"mosn.io/api"
	"mosn.io/mosn/pkg/log"
	"mosn.io/mosn/pkg/protocol/xprotocol/bolt"
	"mosn.io/mosn/pkg/stream"
	sx "mosn.io/mosn/pkg/stream/xprotocol"
	"mosn.io/mosn/pkg/types"
	"mosn.io/pkg/buffer"
	"mosn.io/pkg/variable"

	. "vh/vhlib"
)

// ---------------------------------------------------------------------------------------------
// fake connection

type fakeFM struct{ rf []api.ReadFilter }

func (f *fakeFM) AddReadFilter(rf api.ReadFilter)               { f.rf = append(f.rf, rf) }
func (f *fakeFM) AddWriteFilter(wf api.WriteFilter)             {}
func (f *fakeFM) ListReadFilter() []api.ReadFilter              { return f.rf }
func (f *fakeFM) ListWriteFilters() []api.WriteFilter           { return nil }
func (f *fakeFM) InitializeReadFilters() bool                   { return true }
func (f *fakeFM) OnRead()                                       {}
func (f *fakeFM) OnWrite(b []api.IoBuffer) api.FilterStatus     { return api.Continue }

type fakeConn struct {
	types.ClientConnection // nil: any method not overridden below panics (none is used by the stream layer)
	id                     uint64
	mu                     sync.Mutex
	writes                 [][]byte
	cbs                    []api.ConnectionEventListener
	fm                     *fakeFM
}

var fakeAddr = &net.TCPAddr{IP: net.IPv4(127, 0, 0, 1), Port: 9}

func (c *fakeConn) ID() uint64                                             { return c.id }
func (c *fakeConn) AddConnectionEventListener(cb api.ConnectionEventListener) { c.cbs = append(c.cbs, cb) }
func (c *fakeConn) FilterManager() api.FilterManager                       { return c.fm }
func (c *fakeConn) SetNoDelay(bool)                                        {}
func (c *fakeConn) SetTransferEventListener(func() bool)                   {}
func (c *fakeConn) LocalAddr() net.Addr                                    { return fakeAddr }
func (c *fakeConn) RemoteAddr() net.Addr                                   { return fakeAddr }
func (c *fakeConn) State() api.ConnState                                   { return api.ConnActive }
func (c *fakeConn) Write(bufs ...buffer.IoBuffer) error {
	c.mu.Lock()
	defer c.mu.Unlock()
	for _, b := range bufs {
		c.writes = append(c.writes, append([]byte(nil), b.Bytes()...))
	}
	return nil
}
func (c *fakeConn) Close(ccType api.ConnectionCloseType, ev api.ConnectionEvent) error {
	for _, cb := range c.cbs {
		cb.OnEvent(ev)
	}
	return nil
}
func (c *fakeConn) takeWrites() [][]byte {
	c.mu.Lock()
	defer c.mu.Unlock()
	w := c.writes
	c.writes = nil
	return w
}

// ---------------------------------------------------------------------------------------------

type xstreamRec struct {
	idx      int
	tok      uint32
	id       uint64
	oneway   bool
	sender   types.StreamSender
	ctx      context.Context
	released bool    // pooled mode: the per-request buffer context went back to the pool (the sender must not be touched any more)
	ptr      uintptr // address of the pooled xStream struct behind the sender
	mu       sync.Mutex
	hdr      api.HeaderMap   // the delivered objects retained BY REFERENCE and re-read at the end of the history (only
	data     buffer.IoBuffer // meaningful while the request's buffer context has not been given back: non-pooled worlds)
	snapTok  uint32
	snapData string
	recv     []uint32 // tokens of the answers delivered to this stream's receiver
	resets   int
	destroys int
}

func xtokOf(headers api.HeaderMap) uint32 {
	tok := uint32(0xffffffff)
	switch f := headers.(type) {
	case *ppFrame:
		tok = f.tok
	default:
		if v, ok := headers.Get("tok"); ok {
			fmt.Sscan(v, &tok)
		}
	}
	return tok
}

func (s *xstreamRec) OnReceive(ctx context.Context, headers api.HeaderMap, data buffer.IoBuffer, trailers api.HeaderMap) {
	tok := xtokOf(headers)
	s.mu.Lock()
	if len(s.recv) == 0 {
		s.hdr, s.data, s.snapTok = headers, data, tok
		if data != nil {
			s.snapData = string(data.Bytes())
		}
	}
	s.recv = append(s.recv, tok)
	s.mu.Unlock()
}
func (s *xstreamRec) OnDecodeError(ctx context.Context, err error, headers api.HeaderMap) {}
func (s *xstreamRec) OnResetStream(reason types.StreamResetReason) {
	s.mu.Lock()
	s.resets++
	s.mu.Unlock()
}
func (s *xstreamRec) OnDestroyStream() {
	s.mu.Lock()
	s.destroys++
	s.mu.Unlock()
}

type xworld struct {
	gen      string // GenU32 | GenS32 | GenU64 | bolt (real bolt codec, GenU32)
	conn     *fakeConn
	cli      stream.Client
	csc      types.ClientStreamConnection
	streams  []*xstreamRec
	lastTok  map[uint64]uint32 // id -> token of the last request written with that id (what the upstream would answer)
	inflight map[int]bool      // truth kept by the harness: created with receiver, not yet answered, not reset by its holder
	pooled   bool              // release every request's buffer context to the real pool when the request ends (as the proxy does)
	dead     bool              // pooled mode: the connection was reset/closed; nothing is dispatched on it any more
	reused   int               // pooled mode: how often NewStream handed out a pooled struct that an earlier request had used
	manual   bool              // pooled mode: a request's buffer context is given back only by the op "give" (a request with retries:
	                           // several client streams are created from the SAME context before the request ends)
	rbuf     buffer.IoBuffer   // the connection's read buffer: ONE buffer, refilled for every read as network.connection does
}

var seenStructs sync.Map // address of pooled xStream structs already used by a request of this run

// release gives the request's buffer context back to the pool (proxy: downstream.giveStream at the end of a request)
func (w *xworld) release(rec *xstreamRec) {
	if !w.pooled || rec.released || w.manual {
		return
	}
	rec.released = true
	delete(w.inflight, rec.idx)
	buffer.PoolContext(rec.ctx).Give()
}

// give: the request that owns the context of stream s ends (all its attempts are over): the context goes back to the pool
// superseded: a later attempt of the same request uses the pooled stream object of stream s now (the holder of an earlier
// attempt does not touch it any more)
func (w *xworld) superseded(s int) bool {
	for _, r := range w.streams[s+1:] {
		if r.ctx == w.streams[s].ctx {
			return true
		}
	}
	return false
}

func (w *xworld) give(s int) {
	rec := w.streams[s]
	if rec.released {
		return
	}
	for _, r := range w.streams {
		if r.ctx == rec.ctx {
			r.released = true
			delete(w.inflight, r.idx)
		}
	}
	buffer.PoolContext(rec.ctx).Give()
}

var fakeConnID uint64 = 1 << 40

func reflectCSC(cli stream.Client) types.ClientStreamConnection {
	// exported field of the (unexported) client struct
	return reflect.ValueOf(cli).Elem().FieldByName("ClientStreamConnection").Interface().(types.ClientStreamConnection)
}

func newXWorld(gen string, c0 uint64) *xworld {
	w := &xworld{gen: gen, lastTok: map[uint64]uint32{}, inflight: map[int]bool{}}
	fakeConnID++
	w.conn = &fakeConn{id: fakeConnID, fm: &fakeFM{}}
	var name api.ProtocolName
	if gen == "bolt" {
		name = bolt.ProtocolName
	} else {
		name = genCodecs[gen].name
	}
	ctx := variable.NewVariableContext(context.Background())
	w.cli = stream.NewStreamClient(ctx, name, w.conn, nil)
	if w.cli == nil {
		panic("no stream factory for " + string(name))
	}
	// exported field of the (unexported) client struct
	w.csc = reflect.ValueOf(w.cli).Elem().FieldByName("ClientStreamConnection").Interface().(types.ClientStreamConnection)
	if !sx.VerifSetIDBase(w.csc, c0) {
		panic("not an xprotocol stream connection")
	}
	// the connection is connected (client.ConnectedFlag), as after a successful Connect()
	for _, cb := range w.conn.cbs {
		cb.OnEvent(api.Connected)
	}
	return w
}

func (w *xworld) frameBytes(typ byte, id uint64, tok uint32) []byte {
	if w.gen != "bolt" {
		return ppFrameBytes(typ, id, tok)
	}
	var m interface{}
	h := &boltHdr{kv: map[string]string{"tok": fmt.Sprint(tok)}}
	if typ == ppResponse {
		m = bolt.NewRpcResponse(uint32(id), bolt.ResponseStatusSuccess, h, buffer.NewIoBufferString(fmt.Sprintf("payload-of-%d", tok)))
	} else {
		m = bolt.NewRpcRequest(uint32(id), h, nil)
	}
	b, err := (&bolt.XCodec{}).NewXProtocol(context.Background()).Encode(context.Background(), m)
	if err != nil {
		panic(err)
	}
	return append([]byte(nil), b.Bytes()...)
}

type boltHdr struct{ kv map[string]string }

func (h *boltHdr) Get(k string) (string, bool) { v, ok := h.kv[k]; return v, ok }
func (h *boltHdr) Set(k, v string)             { h.kv[k] = v }
func (h *boltHdr) Add(k, v string)             { h.kv[k] = v }
func (h *boltHdr) Del(k string)                { delete(h.kv, k) }
func (h *boltHdr) Range(f func(k, v string) bool) {
	for k, v := range h.kv {
		if !f(k, v) {
			return
		}
	}
}
func (h *boltHdr) Clone() api.HeaderMap { return h }
func (h *boltHdr) ByteSize() uint64     { return 0 }

// parse a written request frame: (id, token)
func (w *xworld) parseWritten(b []byte) (uint64, uint32, bool) {
	if w.gen != "bolt" {
		if len(b) != ppLen || b[0] != ppMagic {
			return 0, 0, false
		}
		return binary.BigEndian.Uint64(b[2:]), binary.BigEndian.Uint32(b[10:]), true
	}
	f, err := (&bolt.XCodec{}).NewXProtocol(context.Background()).Decode(context.Background(), buffer.NewIoBufferBytes(b))
	if err != nil || f == nil {
		return 0, 0, false
	}
	xf := f.(api.XFrame)
	var tok uint32
	if v, ok := xf.GetHeader().Get("tok"); ok {
		fmt.Sscan(v, &tok)
	}
	return xf.GetRequestId(), tok, true
}

type xop struct {
	K string `json:"k"` // new | oneway | resp | reset | connreset
	S int    `json:"s"` // reset: stream index; resp: stream index whose id is answered (-1: ID is literal)
	ID uint64 `json:"id"`
}

func (o xop) String() string {
	switch o.K {
	case "resp":
		return fmt.Sprintf("resp(%d)", o.ID)
	case "reset":
		return fmt.Sprintf("reset(%d)", o.S)
	case "retry":
		return fmt.Sprintf("retry(%d)", o.S)
	case "give":
		return fmt.Sprintf("give(%d)", o.S)
	}
	return o.K
}

type xobsT struct {
	Out     string   `json:"out"`
	Ctr     uint64   `json:"ctr"`
	Keys    []uint64 `json:"keys"`
	Streams [][3]int `json:"streams"` // alive, recv, resets
	coqOut  string
}

type xfinding struct{ sig, what string }

func (w *xworld) apply(o xop) (xobsT, []xfinding) {
	var fs []xfinding
	out := "ONone"
	coqOut := "ONone"
	wasInflight := o.K == "reset" && o.S < len(w.streams) && w.inflight[o.S]
	before := make([]int, len(w.streams))
	for i, s := range w.streams {
		s.mu.Lock()
		before[i] = len(s.recv)
		s.mu.Unlock()
	}
	switch o.K {
	case "give":
		w.give(o.S)
	case "new", "oneway", "retry":
		ctx := buffer.NewBufferPoolContext(variable.NewVariableContext(context.Background()))
		if o.K == "retry" {
			// the next attempt of the request that owns stream S: the SAME request context (proxy: upstreamRequest of a retry)
			ctx = w.streams[o.S].ctx
		}
		rec := &xstreamRec{idx: len(w.streams), tok: uint32(1000 + len(w.streams)), oneway: o.K == "oneway"}
		var recv types.StreamReceiveListener
		if !rec.oneway {
			recv = rec
		}
		rec.ctx = ctx
		rec.sender = w.cli.NewStream(ctx, recv)
		rec.id = rec.sender.GetStream().ID()
		rec.sender.GetStream().AddEventListener(rec)
		rec.ptr = reflect.ValueOf(rec.sender).Pointer()
		if _, old := seenStructs.LoadOrStore(rec.ptr, true); old {
			w.reused++
		}
		// the id must not be the id of a stream in flight (the harness never keeps a stream across a turn of the id space)
		for i, fl := range w.inflight {
			if fl && w.streams[i].id == rec.id {
				fs = append(fs, xfinding{"xconn:id-collision-with-inflight-stream", fmt.Sprintf("stream %d got id %d which stream %d (in flight) holds", rec.idx, rec.id, i)})
			}
		}
		w.streams = append(w.streams, rec)
		if !rec.oneway {
			w.inflight[rec.idx] = true
		}
		// write the request
		var hdr api.HeaderMap
		if w.gen == "bolt" {
			hdr = bolt.NewRpcRequest(0, &boltHdr{kv: map[string]string{"tok": fmt.Sprint(rec.tok)}}, nil)
		} else {
			hdr = &ppFrame{typ: ppRequest, tok: rec.tok}
		}
		rec.sender.AppendHeaders(ctx, hdr, true)
		ws := w.conn.takeWrites()
		if len(ws) != 1 {
			fs = append(fs, xfinding{"xconn:request-not-written-once", fmt.Sprintf("stream %d: %d writes", rec.idx, len(ws))})
		} else if id, tok, ok := w.parseWritten(ws[0]); !ok || id != rec.id || tok != rec.tok {
			fs = append(fs, xfinding{"xconn:written-id-differs-from-allocated-id", fmt.Sprintf("stream %d allocated id %d, wrote id %d token %d (own token %d)", rec.idx, rec.id, id, tok, rec.tok)})
		}
		w.lastTok[rec.id] = rec.tok
		out = fmt.Sprintf("OId %d", rec.id)
		coqOut = fmt.Sprintf("OId %s", CoqN(rec.id))
		if rec.oneway {
			w.release(rec)
		}
	case "resp":
		tok := w.lastTok[o.ID]
		b := w.frameBytes(ppResponse, o.ID, tok)
		func() {
			// the connection's read loop recovers a panic of the stream layer and closes the connection; here it is a finding:
			// a response must be delivered to the stream its id belongs to or dropped
			defer func() {
				if p := recover(); p != nil {
					fs = append(fs, xfinding{"xconn:dispatch-panicked", fmt.Sprintf("dispatching the response with id %d panicked: %v", o.ID, p)})
					w.dead = true
				}
			}()
			if w.rbuf == nil {
				w.rbuf = buffer.NewIoBuffer(256)
			}
			w.rbuf.Write(b)
			for _, rf := range w.conn.fm.rf {
				rf.OnData(w.rbuf)
			}
			w.rbuf.Drain(w.rbuf.Len()) // what the codec left (nothing for a whole frame) is dropped: the script sends whole frames
			// buffer pool churn: a frame buffer given back too early is re-issued here and overwritten
			for _, n := range []int{len(b), 2 * len(b), 64, 256} {
				jb := buffer.GetIoBuffer(n)
				jb.Write(bytes.Repeat([]byte{0xEE}, n))
				buffer.PutIoBuffer(jb)
			}
		}()
		out, coqOut = "ODrop", "ODrop"
	case "reset":
		if !w.streams[o.S].released && !w.superseded(o.S) {
			w.streams[o.S].sender.GetStream().ResetStream(types.StreamLocalReset)
			delete(w.inflight, o.S)
			w.release(w.streams[o.S])
		}
	case "connreset":
		w.conn.Close(api.NoFlush, api.RemoteClose)
		w.inflight = map[int]bool{} // every stream of the connection is reset by the connection
		if w.pooled {
			w.dead = true
			for _, rec := range w.streams {
				w.release(rec) // every request of the dead connection ends
			}
		}
	}
	// deliveries caused by this op
	for len(before) < len(w.streams) {
		before = append(before, 0)
	}
	ndeliv := 0
	for i, s := range w.streams {
		s.mu.Lock()
		recv := append([]uint32(nil), s.recv...)
		s.mu.Unlock()
		if len(recv) > before[i] {
			ndeliv += len(recv) - before[i]
			out = fmt.Sprintf("ODeliver %d", i)
			coqOut = out
			for _, t := range recv[before[i]:] {
				if t != s.tok {
					fs = append(fs, xfinding{"xconn:foreign-response", fmt.Sprintf("stream %d (token %d) received the answer carrying token %d", i, s.tok, t)})
				}
			}
			if o.K != "resp" || s.id != o.ID {
				fs = append(fs, xfinding{"xconn:delivery-without-matching-response", fmt.Sprintf("stream %d (id %d) received a delivery during %s", i, s.id, o)})
			}
			if !w.inflight[i] && s.resets == 0 {
				fs = append(fs, xfinding{"xconn:delivery-to-completed-stream", fmt.Sprintf("stream %d is not in flight but received a delivery", i)})
			}
			delete(w.inflight, i)
			w.release(s)
		}
		if len(recv) > 1 {
			fs = append(fs, xfinding{"xconn:response-delivered-twice", fmt.Sprintf("stream %d received %d deliveries", i, len(recv))})
		}
		s.mu.Lock()
		if s.destroys > 1 {
			fs = append(fs, xfinding{"xconn:stream-destroyed-twice", fmt.Sprintf("stream %d destroyed %d times", i, s.destroys)})
		}
		s.mu.Unlock()
	}
	if ndeliv > 1 {
		fs = append(fs, xfinding{"xconn:one-response-delivered-to-several-streams", fmt.Sprintf("%s caused %d deliveries", o, ndeliv)})
	}
	// a reply whose id belongs to a stream that is over (reset / answered) reached the receiver of ANOTHER request
	if o.K == "resp" {
		for i, s := range w.streams {
			s.mu.Lock()
			n := len(s.recv)
			s.mu.Unlock()
			if i < len(before) && n > before[i] && s.id != o.ID {
				fs = append(fs, xfinding{"xconn:late-reply-delivered-to-other-request", fmt.Sprintf("the reply with id %d was delivered to stream %d, whose id is %d", o.ID, i, s.id)})
			}
		}
	}
	// a stream reset by its holder has left the stream table and its listeners were told
	if wasInflight && !w.superseded(o.S) && !w.dead {
		rs := w.streams[o.S]
		if !rs.oneway && (!rs.released || w.manual) {
			owners := 0 // another in-flight stream may legitimately hold the same id (id space wrapped)
			for i, fl := range w.inflight {
				if fl && i != o.S && w.streams[i].id == rs.id {
					owners++
				}
			}
			for _, k := range sx.VerifClientStreamIDs(w.csc) {
				if k == rs.id && owners == 0 {
					fs = append(fs, xfinding{"xconn:stale-id-after-reset", fmt.Sprintf("stream %d (id %d) was reset by its holder and its id is still in the client stream table", o.S, rs.id)})
				}
			}
			rs.mu.Lock()
			d := rs.destroys
			rs.mu.Unlock()
			if d == 0 {
				fs = append(fs, xfinding{"xconn:reset-not-signalled-to-listeners", fmt.Sprintf("stream %d (id %d) was reset by its holder while in flight; its listeners saw no OnResetStream / OnDestroyStream", o.S, rs.id)})
			}
		}
	}
	ob := xobsT{Out: out, coqOut: coqOut}
	ob.Ctr, _ = sx.VerifIDBase(w.csc)
	ob.Keys = sx.VerifClientStreamIDs(w.csc)
	sort.Slice(ob.Keys, func(i, j int) bool { return ob.Keys[i] < ob.Keys[j] })
	for _, s := range w.streams {
		s.mu.Lock()
		alive := 0
		if s.destroys == 0 {
			alive = 1
		}
		ob.Streams = append(ob.Streams, [3]int{alive, len(s.recv), s.resets})
		s.mu.Unlock()
	}
	return ob, fs
}

func (o xop) coq() string {
	switch o.K {
	case "new", "retry":
		return "XNew false"
	case "oneway":
		return "XNew true"
	case "resp":
		return "XResponse " + CoqN(o.ID)
	case "reset":
		return fmt.Sprintf("XReset %d", o.S)
	}
	return "XConnReset"
}

func (ob xobsT) coq() string {
	var keys, ss []string
	for _, k := range ob.Keys {
		keys = append(keys, CoqN(k))
	}
	for _, s := range ob.Streams {
		ss = append(ss, fmt.Sprintf("(%v,%d,%d)", s[0] == 1, s[1], s[2]))
	}
	return fmt.Sprintf("(%s, %s, %s, %s)", ob.coqOut, CoqN(ob.Ctr), CoqList(keys), CoqList(ss))
}

type xhist struct {
	gen  string
	c0   uint64
	ops  []xop
	obs  []xobsT
	fnd  []xfinding
	kind string
	gives  []string // retry family: where request contexts were given back to the buffer pool
	reused int
}

func (h *xhist) key() string {
	var b strings.Builder
	fmt.Fprintf(&b, "%s|%d", h.gen, h.c0)
	for _, o := range h.ops {
		b.WriteString("|" + o.String())
	}
	return b.String()
}
func (h *xhist) coq() string {
	g := h.gen
	if g == "bolt" {
		g = "GenU32"
	}
	var steps []string
	for i, o := range h.ops {
		steps = append(steps, fmt.Sprintf("(%s, %s)", o.coq(), h.obs[i].coq()))
	}
	return fmt.Sprintf("(%s, %s, [%s])", g, CoqN(h.c0), strings.Join(steps, ";\n   "))
}
func (h *xhist) descr() map[string]interface{} {
	var ops []string
	for _, o := range h.ops {
		ops = append(ops, o.String())
	}
	return map[string]interface{}{"generator": h.gen, "counter0": h.c0, "ops": ops, "obs": h.obs, "family": h.kind, "gives": h.gives, "pooled_struct_reuses": h.reused}
}

// script: ops given symbolically; "resp" with S>=0 answers the id of stream S (resolved at run time)
func runX(gen string, c0 uint64, kind string, script []xop) *xhist {
	w := newXWorld(gen, c0)
	h := &xhist{gen: gen, c0: c0, kind: kind}
	for _, o := range script {
		if o.K == "resp" && o.S >= 0 {
			if o.S >= len(w.streams) {
				continue
			}
			o.ID = w.streams[o.S].id
		}
		if o.K == "reset" && o.S >= len(w.streams) {
			continue
		}
		ob, fs := w.apply(o)
		h.ops = append(h.ops, o)
		h.obs = append(h.obs, ob)
		h.fnd = append(h.fnd, fs...)
	}
	h.fnd = append(h.fnd, w.recheckDelivered()...)
	return h
}

// recheckDelivered re-reads every delivered response through the references retained at delivery (requests whose buffer
// context was not given back): later frames through the same read buffer, resets and buffer pool churn must not have changed them
func (w *xworld) recheckDelivered() []xfinding {
	for _, s := range w.streams {
		s.mu.Lock()
		hdr, data, tok, snap, released := s.hdr, s.data, s.snapTok, s.snapData, s.released
		s.mu.Unlock()
		if hdr == nil || released {
			continue
		}
		now, nowData := xtokOf(hdr), ""
		if data != nil {
			nowData = string(data.Bytes())
		}
		if now != tok || nowData != snap {
			return []xfinding{{"xconn:delivered-response-changed-after-later-traffic", fmt.Sprintf("stream %d: the response delivered to its receiver read token %d data %q at delivery and reads token %d data %q at the end of the history", s.idx, tok, snap, now, nowData)}}
		}
	}
	return nil
}

// runRetry: pooled world in which a request's buffer context is given back only by "give"; "retry(S)" creates the next
// attempt's client stream from the context of stream S.  "give" is no model step.
func runRetry(gen string, c0 uint64, script []xop) *xhist {
	w := newXWorld(gen, c0)
	w.pooled, w.manual = true, true
	h := &xhist{gen: gen, c0: c0, kind: "retry"}
	for _, o := range script {
		if (o.K == "reset" || o.K == "retry" || o.K == "give" || (o.K == "resp" && o.S >= 0)) && o.S >= len(w.streams) {
			continue
		}
		if o.K == "resp" && o.S >= 0 {
			o.ID = w.streams[o.S].id
		}
		if o.K == "retry" && (w.streams[o.S].released || w.streams[o.S].oneway) {
			continue
		}
		if o.K == "reset" && (w.streams[o.S].released || w.superseded(o.S)) {
			continue
		}
		if w.dead {
			break
		}
		if o.K == "give" {
			w.give(o.S)
			h.gives = append(h.gives, fmt.Sprintf("give(%d) after step %d", o.S, len(h.ops)))
			continue
		}
		ob, fs := w.apply(o)
		h.ops = append(h.ops, o)
		h.obs = append(h.obs, ob)
		h.fnd = append(h.fnd, fs...)
	}
	h.reused = w.reused
	return h
}

func permutations(n int) [][]int {
	if n == 0 {
		return [][]int{{}}
	}
	var out [][]int
	for _, p := range permutations(n - 1) {
		for i := 0; i <= len(p); i++ {
			q := append(append(append([]int{}, p[:i]...), n-1), p[i:]...)
			out = append(out, q)
		}
	}
	return out
}

func c02(args []string) int {
	run := NewRun("C02", args)
	log.DefaultLogger.SetLogLevel(log.FATAL)
	log.Proxy.SetLogLevel(log.FATAL)
	registerProtocols()
	r := run.R
	run.Sum.Rule = "histories on one real xprotocol client stream connection (stream.NewStreamClient over a recording connection; id generators = the real GenerateRequestID of bolt (uint32), tars (int32, sign-extended), dubbo (uint64), and the real bolt codec end to end): families perm (N<=5 streams, responses in EVERY permutation), dup (every response twice / unknown ids), late (response after stream reset), connreset (connection reset at EVERY position of a base history), wrap (counter preset just below 2^31, 2^32, 2^63, 2^64 so the ids wrap inside the history), random (8-40 ops over {new, one-way, response to any stream's id incl. completed ones, unknown id, stream reset incl. stale and repeated, connection reset}); non-trivial: at least 2 streams and one op other than new/response-in-order; distinct by (generator, initial counter, op sequence). Pooled mode (families pooled-late, pooled-random): 2-3 connections in one history, every request with its own buffer-pool context that is given back to the REAL pool when the request ends, so the pooled xStream struct is reused by later requests on the same or another connection; a reset connection is dead afterwards; late replies for reset requests on the healthy connections. Reply ids: real server stream connection + real client stream connection(s) sharing the request frame object as the proxy does (bolt, boltv2, dubbo codecs and the harness codecs), downstream id != upstream id, reply kinds upstream response / hijack before the forward / after one forward / after a retry / heartbeat ack / one-way; the id written downstream must be the downstream request's. Concurrent allocation: 8-16 goroutines allocate 4-128 ids each (half of the rounds start 1-2g below the wrap point) on one counter preset so that it crosses 2^31 / 2^32 / 2^64 while they run, through the real GenerateRequestID of bolt/tars/dubbo (3 of 4 rounds directly, 1 of 4 through streamConn.NewStream), ids must be pairwise distinct, for ~5 s (quick). Concurrent mode: the same operations from concurrent goroutines, delivery soundness only."
	gens := []string{"GenU32", "GenS32", "GenU64", "bolt"}
	wraps := map[string][]uint64{
		"GenU32": {0, 1<<32 - 3, 1<<32 - 1, 1<<31 - 2, 1<<64 - 2, 1<<33 - 2},
		"bolt":   {0, 1<<32 - 3, 1<<64 - 2},
		"GenS32": {0, 1<<31 - 3, 1<<31 - 1, 1<<32 - 2, 1<<64 - 2, 1<<63 - 2},
		"GenU64": {0, 1<<64 - 3, 1<<64 - 1, 1<<32 - 2, 1<<63 - 2},
	}
	var hs []*xhist
	add := func(h *xhist) { hs = append(hs, h) }
	for _, g := range gens {
		maxN := run.N(4, 5)
		if g == "GenU32" {
			maxN = 5
		}
		// perm
		for n := 1; n <= maxN; n++ {
			for _, p := range permutations(n) {
				var sc []xop
				for i := 0; i < n; i++ {
					sc = append(sc, xop{K: "new"})
				}
				for _, s := range p {
					sc = append(sc, xop{K: "resp", S: s})
				}
				c0 := wraps[g][r.Intn(len(wraps[g]))]
				add(runX(g, c0, "perm", sc))
			}
		}
		for _, c0 := range wraps[g] {
			// dup + unknown
			for n := 1; n <= 3; n++ {
				var sc []xop
				for i := 0; i < n; i++ {
					sc = append(sc, xop{K: "new"})
				}
				for i := n - 1; i >= 0; i-- {
					sc = append(sc, xop{K: "resp", S: i}, xop{K: "resp", S: -1, ID: c0 + 1000}, xop{K: "resp", S: i})
				}
				add(runX(g, c0, "dup", sc))
			}
			// late: reset then the response arrives; repeated reset; reset after completion
			// family retry: several client streams from the SAME request context (a request with retries), every attempt
			// reset (per-try time-out) or answered, the context given back only when the request ends and re-used by a
			// later request on the same connection, late replies for every earlier attempt
			nw, rs, rt, gv := xop{K: "new"}, func(s int) xop { return xop{K: "reset", S: s} }, func(s int) xop { return xop{K: "retry", S: s} }, func(s int) xop { return xop{K: "give", S: s} }
			rp := func(s int) xop { return xop{K: "resp", S: s} }
			for _, sc := range [][]xop{
				{nw, rs(0), rt(0), rs(1), gv(0), nw, rp(1), rp(2)},                     // the late reply of try 2 after the buffers moved on
				{nw, rs(0), rt(0), rs(1), gv(0), nw, rp(0), rp(1), rp(2)},              // late replies of both tries
				{nw, rs(0), rt(0), rs(1), rp(1), gv(0), nw, rp(2)},                     // late reply before the re-use
				{nw, rs(0), rt(0), rs(1), gv(0), rp(1), nw, rp(2)},                     // late reply between give and re-use
				{nw, rp(0), rt(0), rs(1), gv(0), nw, rp(1), rp(2)},                     // try 1 answered (retriable status), try 2 times out
				{nw, rs(0), rt(0), rp(1), gv(0), nw, rp(0), rp(2)},                     // try 2 answered, late reply of try 1
				{nw, rs(0), rt(0), rs(1), rt(1), rs(2), gv(0), nw, nw, rp(2), rp(1), rp(4), rp(3)}, // three tries, two later requests
				{nw, nw, rs(0), rt(0), rs(2), rp(1), gv(0), gv(1), nw, nw, rp(2), rp(3), rp(4)}, // another request in flight meanwhile
				{nw, rs(0), rt(0), rs(1), rs(1), gv(0), nw, rs(2), rp(1), nw, rp(3)},  // repeated reset of the retry, re-used request reset too
			} {
				c0 := wraps[g][r.Intn(len(wraps[g]))]
				add(runRetry(g, c0, sc))
			}
			add(runX(g, c0, "late", []xop{{K: "new"}, {K: "new"}, {K: "reset", S: 0}, {K: "resp", S: 0}, {K: "resp", S: 1}, {K: "reset", S: 1}, {K: "reset", S: 0}, {K: "new"}, {K: "resp", S: 2}}))
			// connreset at every position
			base := []xop{{K: "new"}, {K: "new"}, {K: "resp", S: 0}, {K: "new"}, {K: "oneway"}, {K: "reset", S: 1}, {K: "resp", S: 2}, {K: "resp", S: 1}, {K: "new"}, {K: "resp", S: 4}}
			for pos := 0; pos <= len(base); pos++ {
				sc := append(append(append([]xop{}, base[:pos]...), xop{K: "connreset"}), base[pos:]...)
				add(runX(g, c0, "connreset", sc))
			}
			// wrap: enough allocations to cross the boundary, responses in reverse
			var sc []xop
			for i := 0; i < 6; i++ {
				sc = append(sc, xop{K: "new"})
			}
			for i := 5; i >= 0; i-- {
				sc = append(sc, xop{K: "resp", S: i})
			}
			add(runX(g, c0, "wrap", sc))
		}
		// random
		nr := run.N(250, 4000)
		for i := 0; i < nr; i++ {
			c0 := wraps[g][r.Intn(len(wraps[g]))]
			if r.Pct(20) {
				c0 = r.U64()
			}
			n := 8 + r.Intn(run.N(25, 33))
			var sc []xop
			ns := 0
			for j := 0; j < n; j++ {
				switch x := r.Intn(100); {
				case x < 35 || ns == 0:
					sc = append(sc, xop{K: "new"})
					ns++
				case x < 40:
					sc = append(sc, xop{K: "oneway"})
					ns++
				case x < 70:
					sc = append(sc, xop{K: "resp", S: r.Intn(ns)})
				case x < 76:
					sc = append(sc, xop{K: "resp", S: -1, ID: r.U64()})
				case x < 94:
					sc = append(sc, xop{K: "reset", S: r.Intn(ns)})
				default:
					sc = append(sc, xop{K: "connreset"})
				}
			}
			add(runX(g, c0, "random", sc))
		}
	}

	header := "From MV Require Import Model.XConn.\nFrom Coq Require Import List NArith Bool.\nImport ListNotations.\nOpen Scope nat_scope.\n"
	sh := run.NewShard(header, "xconn_case", "xconn_mismatches")
	for _, h := range hs {
		nontrivial := false
		nnew := 0
		for _, o := range h.ops {
			if o.K == "new" || o.K == "oneway" {
				nnew++
			}
			run.Sum.Distribution["op:"+o.K]++
		}
		nontrivial = nnew >= 2 && h.kind != "perm" || (h.kind == "perm" && nnew >= 2)
		run.Count(h.key(), nontrivial, "family:"+h.kind, "generator:"+h.gen)
		for _, f := range h.fnd {
			run.Fail(f.sig, f.what, h.descr())
		}
		sh.Add(h.coq(), h.descr())
		if sh.Len() >= 80 {
			sh.Close()
			sh = run.NewShard(header, sh.Typ, sh.Eval)
		}
		if h.kind == "connreset" || h.kind == "late" {
			run.Sample(h.descr())
		}
	}
	sh.Close()

	c02reply(run)
	c02alloc(run)
	c02pooled(run)
	c02server(run)
	c02concurrent(run)
	c02window(run)
	c02reentrant(run)
	return run.Finish()
}
