package main

func c02(args []string) int { return 2 }
