package main

// C10, pool part: CONNECT FAILURES of every kind on every pool.  Histories of {NewStream with a working dial, with a refused
// dial (api.ConnectFailed), with a dial that times out (api.ConnectTimeout through the real clientConnection.Connect with an
// expired connect timeout), stream end, connection close by the upstream} on the real HTTP/1, ping-pong, multiplex, binding
// and HTTP/2 pools.  After every operation - all of them are synchronous or waited for by events - the connection gauge
// (host and cluster upstream_connection_active) must equal the connections really open; at the end everything is closed
// and every gauge / resource must be at zero.  Finder only.

import (
	"context"
	"fmt"
	"sync"
	"time"

	"mosn.io/api"
	sx "mosn.io/mosn/pkg/stream/xprotocol"
	"mosn.io/mosn/pkg/types"
	"mosn.io/pkg/buffer"
	"mosn.io/pkg/variable"

	. "vh/vhlib"
)

type cfRes struct {
	pool     string
	script   []string
	findings []finding
	trace    []string
	capped   bool
}

func (w *world) cfSettle() bool {
	// every closed connection has delivered its close event behind the pool's own listeners
	w.host.mu.Lock()
	hooks := append([]*hookConn(nil), w.host.hooks...)
	w.host.mu.Unlock()
	return waitFor(20*time.Second, func() bool {
		for _, hc := range hooks {
			if hc.ClientConnection.State() == api.ConnClosed && !hc.tail.sawClose() {
				return false
			}
		}
		return true
	})
}

func (w *world) cfOpen() int {
	n := 0
	w.host.mu.Lock()
	for _, hc := range w.host.hooks {
		if hc.ClientConnection.State() == api.ConnActive {
			n++
		}
	}
	w.host.mu.Unlock()
	return n
}

func runConnFail(pool string, script []string) *cfRes {
	var w *world
	var down *fakeConn
	switch pool {
	case "binding":
		aw := newAWorld("binding", 0)
		w, down = aw.world, aw.down
	default:
		w = admitWorldCold(pool)
	}
	defer w.close()
	r := &cfRes{pool: pool, script: script}
	seen := map[string]bool{}
	add := func(sig, what string) {
		if !seen[sig] {
			seen[sig] = true
			r.findings = append(r.findings, finding{pool + ":" + sig, what})
		}
	}
	var leases []*lease
	newStream := func(dial int) {
		w.host.mu.Lock()
		w.host.fail = dial
		w.host.mu.Unlock()
		ctx := buffer.NewBufferPoolContext(variable.NewVariableContext(context.Background()))
		if down != nil {
			_ = variable.Set(ctx, types.VariableConnection, api.Connection(down))
		}
		if pool == "multiplex" {
			// the multiplex pool connects from CheckAndInit's goroutine: wait until it has finished (state leaves Connecting)
			w.pool.CheckAndInit(ctx)
			waitFor(20*time.Second, func() bool { st, _, _ := sx.VerifMultiplexState(w.pool, 0); return st != 1 })
		}
		l := &lease{tok: 100 + len(leases), ctx: ctx, cli: -1, recvWanted: true}
		_, sender, reason := w.pool.NewStream(ctx, l)
		w.host.mu.Lock()
		w.host.fail = dialOK
		w.host.mu.Unlock()
		if reason == "" && sender != nil {
			sender.GetStream().AddEventListener(l)
			l.sender = sender
			leases = append(leases, l)
		}
	}
	for i, o := range script {
		switch o {
		case "new":
			newStream(dialOK)
		case "newfail":
			newStream(dialRefused)
		case "newtimeout":
			newStream(dialTimeout)
		case "newclose":
			// the upstream closes the fresh connection on accept; Connect() returns only after the close event was handled by
			// every listener; the gauge is sampled at that instant, inside the pool's connect path (vhost.windowGauge)
			w.armWindow("fin")
			newStream(dialOK)
			w.armWindow("")
			w.settleWindow()
			w.host.mu.Lock()
			wg, ws := w.host.windowGauge, w.host.windowSampled
			w.host.windowSampled = false
			w.host.mu.Unlock()
			if ws && wg < 0 {
				add("connection-active-negative:close-inside-connect", fmt.Sprintf("step %d: the upstream closed the fresh connection at once; after its close event was handled and before the connect path went on, upstream_connection_active = %d", i, wg))
				seen["first"] = true
			}
		case "end":
			for _, l := range leases {
				if l.live() {
					l.sender.GetStream().ResetStream(types.StreamLocalReset)
				}
			}
		case "closeall":
			w.host.mu.Lock()
			hooks := append([]*hookConn(nil), w.host.hooks...)
			w.host.mu.Unlock()
			for _, hc := range hooks {
				if hc.ClientConnection.State() == api.ConnActive {
					if la := hc.ClientConnection.LocalAddr(); la != nil {
						var uc *upConn
						// the upstream's accept loop may not have got to this connection yet
						waitFor(20*time.Second, func() bool { uc = w.up.byRemote(la.String()); return uc != nil })
						if uc != nil {
							uc.c.Close()
						}
					}
				}
			}
			// the upstream's FIN reaches mosn: every connection leaves the active state
			waitFor(20*time.Second, func() bool { return w.cfOpen() == 0 })
		}
		if !w.cfSettle() {
			r.capped = true
			return r
		}
		open := w.cfOpen()
		gh, gc := w.host.HostStats().UpstreamConnectionActive.Count(), w.host.ClusterInfo().Stats().UpstreamConnectionActive.Count()
		r.trace = append(r.trace, fmt.Sprintf("%s: open=%d gauge host=%d cluster=%d", o, open, gh, gc))
		if len(r.findings) > 0 && !seen["first"] || len(r.findings) > 1 {
			continue // only the first step at which the books are wrong is reported (what follows is its consequence)
		}
		if gh < 0 || gc < 0 {
			add("connection-active-negative:after-"+o, fmt.Sprintf("step %d (%s): upstream_connection_active host=%d cluster=%d", i, o, gh, gc))
		} else if gh != int64(open) || gc != int64(open) {
			add("connection-active-differs-from-open-connections:after-"+o, fmt.Sprintf("step %d (%s): upstream_connection_active host=%d cluster=%d with %d connections of the pool open", i, o, gh, gc, open))
		}
	}
	// everything has ended
	live := 0
	for _, l := range leases {
		if l.live() {
			live++
		}
	}
	if q, cur := w.host.HostStats().UpstreamRequestActive.Count(), w.rm.Requests().Cur(); q != int64(live) || cur != int64(live) {
		add("request-books-differ-after-connect-failures", fmt.Sprintf("%d streams alive, upstream_request_active = %d, Requests().Cur() = %d", live, q, cur))
	}
	return r
}

// admitWorldCold: like admitWorld but the multiplex pool is NOT initialised (the first NewStream / CheckAndInit dials)
func admitWorldCold(pool string) *world {
	if pool != "multiplex" {
		return admitWorld(pool, 0, 0)
	}
	w, err := newWorld(kPingPong, 0, 0)
	if err != nil {
		panic(err)
	}
	w.pool = sx.NewConnPool(context.Background(), mxCodecInst, w.host)
	w.noHeldWait = true
	return w
}

func c10connfail(run *Run) {
	scripts := [][]string{
		{"newtimeout", "new", "end", "closeall"},
		{"newfail", "new", "end", "closeall"},
		{"new", "end", "closeall", "newtimeout", "newtimeout", "newfail", "new", "end", "closeall"},
		{"newtimeout", "newfail", "newtimeout"},
		{"new", "newtimeout", "end", "closeall", "newfail"},
		{"newclose", "new", "end", "closeall"},
		{"new", "end", "closeall", "newclose", "newtimeout", "newclose"},
	}
	var mu sync.Mutex
	var res []*cfRes
	var wg sync.WaitGroup
	for _, pool := range []string{"http1", "pingpong", "multiplex", "binding", "http2"} {
		for _, sc := range scripts {
			for rep := 0; rep < run.N(1, 5); rep++ {
				pool, sc := pool, sc
				wg.Add(1)
				go func() {
					defer wg.Done()
					r := runConnFail(pool, sc)
					if r.capped {
						r = runConnFail(pool, sc) // a world that did not settle within the cap is repeated once
					}
					mu.Lock()
					res = append(res, r)
					mu.Unlock()
				}()
			}
		}
	}
	wg.Wait()
	seen := map[string]bool{}
	for _, r := range res {
		run.Count(fmt.Sprintf("connfail/%s/%v", r.pool, r.script), true, "connect-failures:"+r.pool)
		replay := map[string]interface{}{"pool": r.pool, "ops": r.script, "after_each_op": r.trace}
		if r.capped {
			run.Sum.Distribution["connfail-did-not-settle-twice"]++
			continue
		}
		for _, f := range r.findings {
			if !seen[f.sig] {
				seen[f.sig] = true
				run.Fail(f.sig, f.what, replay)
			} else {
				run.Sum.Distribution["finder:"+f.sig]++
			}
		}
	}
}
