package main

// C02, a stream created INSIDE the delivery of a response: the receiver of attempt 1 starts attempt 2 of the same request
// (same request context, so the same pooled stream object) on the same multiplexed connection while handleResponse is
// still inside OnReceive.  Afterwards a duplicate of reply 1 must reach nobody, reply 2 must reach attempt 2, and the
// client stream table must be empty.  (Model/XConn.v: XResponse is one step - the answered id has left the table when
// the delivery happens: c02_answered_id_is_gone_at_delivery.)

import (
	"context"
	"fmt"

	"mosn.io/api"
	sx "mosn.io/mosn/pkg/stream/xprotocol"
	"mosn.io/pkg/buffer"
	"mosn.io/pkg/variable"

	. "vh/vhlib"
)

type reentRecv struct {
	got     []string
	onReply func()
}

func (r *reentRecv) OnReceive(ctx context.Context, headers api.HeaderMap, data buffer.IoBuffer, trailers api.HeaderMap) {
	s := ""
	if data != nil {
		s = data.String()
	}
	r.got = append(r.got, s)
	if r.onReply != nil {
		f := r.onReply
		r.onReply = nil
		f()
	}
}
func (r *reentRecv) OnDecodeError(ctx context.Context, err error, headers api.HeaderMap) {}

func c02reentrant(run *Run) {
	r := NewRng(run.Seed*7919 + 17)
	n := 40
	for i := 0; i < n; i++ {
		base := uint64(r.Intn(1 << 20))
		if i%5 == 4 {
			base = (1 << 32) - uint64(1+r.Intn(3)) // across the 32-bit wrap of the bolt ids
		}
		extra := r.Intn(3) // unrelated streams in flight on the connection
		w := newXWorld("bolt", base)
		feed := func(id uint64, tok uint32) (panicked interface{}) {
			defer func() { panicked = recover() }()
			rb := buffer.NewIoBuffer(256)
			rb.Write(w.frameBytes(ppResponse, id, tok))
			for _, rf := range w.conn.fm.rf {
				rf.OnData(rb)
			}
			return nil
		}
		for k := 0; k < extra; k++ {
			ctx := buffer.NewBufferPoolContext(variable.NewVariableContext(context.Background()))
			w.cli.NewStream(ctx, &reentRecv{})
		}
		reqCtx := buffer.NewBufferPoolContext(variable.NewVariableContext(context.Background()))
		first, second := &reentRecv{}, &reentRecv{}
		var id2 uint64
		started := false // id 0 is a legitimate id (the 32-bit wrap)
		first.onReply = func() { id2, started = w.cli.NewStream(reqCtx, second).GetStream().ID(), true }
		id1 := w.cli.NewStream(reqCtx, first).GetStream().ID()
		replay := map[string]interface{}{"part": "retry-inside-delivery", "counter0": base, "other_streams_in_flight": extra, "id1": id1}
		fail := func(sig, what string) {
			replay["id2"] = id2
			run.Fail("xconn:"+sig, what+fmt.Sprintf(" (attempt 1 id %d, attempt 2 id %d created inside the delivery of reply 1, counter base %d)", id1, id2, base), replay)
		}
		if p := feed(id1, 1); p != nil {
			fail("dispatch-panicked", fmt.Sprintf("reply 1 panicked: %v", p))
			continue
		}
		if len(first.got) != 1 || !started {
			fail("reentrant-retry:first-reply-not-delivered", fmt.Sprintf("attempt 1 received %d messages", len(first.got)))
			continue
		}
		if p := feed(id1, 1); p != nil {
			fail("dispatch-panicked", fmt.Sprintf("duplicate of reply 1 panicked: %v", p))
			continue
		}
		if len(first.got) != 1 || len(second.got) != 0 {
			fail("reentrant-retry:answered-id-delivered-again", fmt.Sprintf("a duplicate of reply 1 was delivered: attempt 1 has %d messages, attempt 2 has %d", len(first.got), len(second.got)))
		}
		before := len(second.got)
		if p := feed(id2, 2); p != nil {
			fail("dispatch-panicked", fmt.Sprintf("reply 2 panicked: %v", p))
			continue
		}
		if len(second.got) != before+1 {
			fail("reentrant-retry:reply-of-retry-lost", "the reply carrying the id of attempt 2 did not reach attempt 2")
		}
		if ids := sx.VerifClientStreamIDs(w.csc); len(ids) != extra {
			fail("reentrant-retry:stale-table-entry", fmt.Sprintf("%d entries in the client stream table, %d streams are in flight", len(ids), extra))
		}
		run.Sum.Distribution["reentrant-retry-histories"]++
	}
	run.Count(fmt.Sprintf("reentrant|%d", run.Seed), true, "family:retry-inside-delivery")
}
