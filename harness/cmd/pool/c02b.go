package main

// C02, supporting parts: server-side id restore on a real server stream connection, the concurrent mode
// (delivery soundness only), and the replay of the "window" witness (same id handed out twice when the counter
// comes round while the first stream is still in the table).

import (
	"context"
	"fmt"
	"sync"

	"mosn.io/api"
	"mosn.io/mosn/pkg/protocol"
	sx "mosn.io/mosn/pkg/stream/xprotocol"
	"mosn.io/mosn/pkg/types"
	"mosn.io/pkg/buffer"
	"mosn.io/pkg/variable"

	. "vh/vhlib"
)

type srvCallbacks struct {
	mu      sync.Mutex
	senders []types.StreamSender
	toks    []uint32
}

func (s *srvCallbacks) OnGoAway() {}
func (s *srvCallbacks) NewStreamDetect(ctx context.Context, sender types.StreamSender, span api.Span) types.StreamReceiveListener {
	s.mu.Lock()
	s.senders = append(s.senders, sender)
	s.mu.Unlock()
	return s
}
func (s *srvCallbacks) OnReceive(ctx context.Context, headers api.HeaderMap, data buffer.IoBuffer, trailers api.HeaderMap) {
	if f, ok := headers.(*ppFrame); ok {
		s.mu.Lock()
		s.toks = append(s.toks, f.tok)
		s.mu.Unlock()
	}
}
func (s *srvCallbacks) OnDecodeError(ctx context.Context, err error, headers api.HeaderMap) {}

// c02server: a downstream request with id d arrives on a REAL server stream connection; the reply that the proxy
// hands to the server stream is the upstream's response frame, which carries the upstream id u; the bytes written
// downstream must carry d again - for every pairing (d, u), several requests outstanding, replies in any order.
func c02server(run *Run) {
	r := run.R
	factory, ok := protocol.GetProtocolStreamFactory(genCodecs["GenU64"].name)
	if !ok {
		panic("no factory")
	}
	sh := run.NewShard("From MV Require Import Model.XConn.\nFrom Coq Require Import List NArith.\nImport ListNotations.\nOpen Scope N_scope.\n", "xserver_case", "xserver_mismatches")
	interesting := []uint64{0, 1, 2, 1<<31 - 1, 1 << 31, 1<<32 - 1, 1 << 32, 1<<63 - 1, 1 << 63, 1<<64 - 1}
	n := run.N(300, 3000)
	for i := 0; i < n; i++ {
		fakeConnID++
		conn := &fakeConn{id: fakeConnID, fm: &fakeFM{}}
		cb := &srvCallbacks{}
		ssc := factory.CreateServerStream(variable.NewVariableContext(context.Background()), conn, cb)
		k := 1 + r.Intn(4)
		ds := make([]uint64, k)
		us := make([]uint64, k)
		for j := range ds {
			pick := func() uint64 {
				if r.Pct(50) {
					return interesting[r.Intn(len(interesting))]
				}
				return r.U64()
			}
			ds[j], us[j] = pick(), pick()
			ssc.Dispatch(buffer.NewIoBufferBytes(ppFrameBytes(ppRequest, ds[j], uint32(j))))
		}
		if len(cb.senders) != k {
			run.Fail("xserver:request-not-detected", fmt.Sprintf("%d requests dispatched, %d streams detected", k, len(cb.senders)), map[string]interface{}{"part": "server", "downstream_ids": ds})
			continue
		}
		order := r.Intn(2)
		for jj := 0; jj < k; jj++ {
			j := jj
			if order == 1 {
				j = k - 1 - jj
			}
			ctx := context.Background()
			cb.senders[j].AppendHeaders(ctx, &ppFrame{typ: ppResponse, id: us[j], tok: uint32(j)}, true)
			ws := conn.takeWrites()
			got := uint64(0)
			gotTok := uint32(0xffffffff)
			if len(ws) == 1 && len(ws[0]) == ppLen {
				got = beU64(ws[0][2:])
				gotTok = beU32(ws[0][10:])
			}
			rep := map[string]interface{}{"part": "server", "downstream_id": ds[j], "upstream_id": us[j], "written_id": got, "written_token": gotTok, "outstanding": k}
			run.Count(fmt.Sprintf("srv|%d|%d", ds[j], us[j]), ds[j] != us[j], "family:server-id-restore")
			if len(ws) != 1 || got != ds[j] || gotTok != uint32(j) {
				run.Fail("xserver:reply-id-differs-from-downstream-id", fmt.Sprintf("request id %d, upstream id %d, reply written with id %d token %d (writes=%d)", ds[j], us[j], got, gotTok, len(ws)), rep)
			}
			sh.Add(fmt.Sprintf("(%s, %s, %s)", CoqN(ds[j]), CoqN(us[j]), CoqN(got)), rep)
			if sh.Len() >= 400 {
				sh.Close()
				sh = run.NewShard(sh.Header, sh.Typ, sh.Eval)
			}
		}
	}
	sh.Close()
}

func beU64(b []byte) uint64 {
	var v uint64
	for i := 0; i < 8; i++ {
		v = v<<8 | uint64(b[i])
	}
	return v
}
func beU32(b []byte) uint32 {
	var v uint32
	for i := 0; i < 4; i++ {
		v = v<<8 | uint32(b[i])
	}
	return v
}

// c02concurrent: NewStream/send from several goroutines, one dispatcher goroutine feeding the answers in random
// order (duplicates and unknown ids mixed in), resetters resetting random streams, a connection reset at the end.
// Checked: every receiver gets at most one delivery and only the answer carrying its own token.
func c02concurrent(run *Run) {
	rounds := run.N(40, 400)
	bad := 0
	for round := 0; round < rounds; round++ {
		seed := run.R.U64()
		gen := []string{"GenU32", "GenS32", "GenU64"}[round%3]
		c0s := []uint64{0, 1<<32 - 40, 1<<31 - 40, 1<<64 - 40}
		w := newXWorld(gen, c0s[int(seed%4)])
		const workers, per = 6, 12
		recs := make([]*xstreamRec, workers*per)
		var wg sync.WaitGroup
		var mu sync.Mutex // protects w.conn.writes parsing only
		ids := make(chan [2]uint64, workers*per)
		for g := 0; g < workers; g++ {
			wg.Add(1)
			go func(g int) {
				defer wg.Done()
				for i := 0; i < per; i++ {
					idx := g*per + i
					ctx := buffer.NewBufferPoolContext(variable.NewVariableContext(context.Background()))
					rec := &xstreamRec{idx: idx, tok: uint32(5000 + idx)}
					rec.sender = w.cli.NewStream(ctx, rec)
					rec.id = rec.sender.GetStream().ID()
					rec.sender.GetStream().AddEventListener(rec)
					recs[idx] = rec
					rec.sender.AppendHeaders(ctx, &ppFrame{typ: ppRequest, tok: rec.tok}, true)
					ids <- [2]uint64{rec.id, uint64(rec.tok)}
				}
			}(g)
		}
		// resetter
		stop := make(chan struct{})
		var wg2 sync.WaitGroup
		wg2.Add(1)
		go func() {
			defer wg2.Done()
			rr := NewRng(seed ^ 77)
			for {
				select {
				case <-stop:
					return
				default:
				}
				if rec := recs[rr.Intn(len(recs))]; rec != nil && rr.Pct(30) {
					rec.sender.GetStream().ResetStream(types.StreamLocalReset)
				}
			}
		}()
		// dispatcher: answers what the upstream saw on the wire (id, token), shuffled, with duplicates and unknown ids
		wg2.Add(1)
		go func() {
			defer wg2.Done()
			rr := NewRng(seed ^ 99)
			var pending [][2]uint64
			got := 0
			for got < workers*per || len(pending) > 0 {
				if got < workers*per && (len(pending) < 4 || rr.Pct(50)) {
					pending = append(pending, <-ids)
					got++
					continue
				}
				i := rr.Intn(len(pending))
				p := pending[i]
				pending = append(pending[:i], pending[i+1:]...)
				b := ppFrameBytes(ppResponse, p[0], uint32(p[1]))
				if rr.Pct(20) {
					b = append(b, ppFrameBytes(ppResponse, p[0], uint32(p[1]))...) // duplicate in the same read
				}
				if rr.Pct(10) {
					b = append(ppFrameBytes(ppResponse, rr.U64(), 1), b...) // unknown id
				}
				for _, rf := range w.conn.fm.rf {
					rf.OnData(buffer.NewIoBufferBytes(b))
				}
			}
		}()
		wg.Wait()
		close(stop)
		wg2.Wait()
		w.conn.Close(api.NoFlush, api.RemoteClose)
		mu.Lock()
		mu.Unlock()
		delivered := 0
		for _, rec := range recs {
			rec.mu.Lock()
			recv := append([]uint32(nil), rec.recv...)
			rec.mu.Unlock()
			delivered += len(recv)
			if len(recv) > 1 {
				bad++
				run.Fail("xconn:concurrent:response-delivered-twice", fmt.Sprintf("stream with token %d received %d deliveries", rec.tok, len(recv)), map[string]interface{}{"part": "concurrent", "seed": seed, "generator": gen})
			}
			rec.mu.Lock()
			destroys, resets := rec.destroys, rec.resets
			rec.mu.Unlock()
			if destroys != 1 || resets > 1 {
				// answered, reset by its holder, or reset by the closing connection - whichever came first, exactly once
				bad++
				run.Fail("xconn:concurrent:stream-end-not-exactly-once", fmt.Sprintf("stream with token %d: %d OnDestroyStream and %d OnResetStream calls after the connection closed (deliveries: %d)", rec.tok, destroys, resets, len(recv)), map[string]interface{}{"part": "concurrent", "seed": seed, "generator": gen})
			}
			for _, t := range recv {
				if t != rec.tok {
					bad++
					run.Fail("xconn:concurrent:foreign-response", fmt.Sprintf("stream with token %d received the answer carrying token %d", rec.tok, t), map[string]interface{}{"part": "concurrent", "seed": seed, "generator": gen})
				}
			}
		}
		run.Count(fmt.Sprintf("conc|%d", seed), true, "family:concurrent")
		run.Sum.Distribution["concurrent-deliveries"] += delivered
		run.Sum.Distribution["concurrent-streams"] += len(recs)
	}
	run.Sum.Extra["c02_concurrent_rounds"] = rounds
	run.Sum.Extra["c02_concurrent_bad"] = bad
	_ = sx.VerifIDBase
}

// c02window: the model says an id is handed out again when the counter has gone once round the id space while the
// first holder is still in the table (Props/C02.v c02_window_needed).  Going round takes 2^32 allocations, so the
// harness turns the counter back through the verif setter and shows that the real code behaves like the model: the
// second stream displaces the first in the table and gets the first one's answer.  This is NOT reported as a
// finding: it documents why the no-collision theorem is stated with the allocation window.
func c02window(run *Run) {
	w := newXWorld("GenU32", 41)
	w.apply(xop{K: "new"})
	a := w.streams[0]
	base, _ := sx.VerifIDBase(w.csc)
	sx.VerifSetIDBase(w.csc, base-1) // as if 2^32 further allocations had happened: counter = base - 1 (mod 2^32)
	ctx := buffer.NewBufferPoolContext(variable.NewVariableContext(context.Background()))
	b := &xstreamRec{idx: 1, tok: 7777}
	b.sender = w.cli.NewStream(ctx, b)
	b.id = b.sender.GetStream().ID()
	same := b.id == a.id
	for _, rf := range w.conn.fm.rf {
		rf.OnData(buffer.NewIoBufferBytes(ppFrameBytes(ppResponse, a.id, a.tok)))
	}
	run.Sum.Extra["c02_window_witness"] = map[string]interface{}{"same_id_after_full_turn": same, "first_holder_deliveries": len(a.recv), "second_holder_deliveries": len(b.recv),
		"note": "counter turned back through VerifSetIDBase to stand for 2^32 allocations; not a finding"}
}
