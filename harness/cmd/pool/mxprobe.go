package main

import (
	"context"
	"fmt"
	"time"

	"mosn.io/mosn/pkg/types"
	sx "mosn.io/mosn/pkg/stream/xprotocol"
	"mosn.io/pkg/buffer"
	"mosn.io/pkg/variable"
)

// mxProbe: scripted scenario on the REAL multiplex pool (go-away, re-init, drain, close).
func mxProbe() int {
	w, err := newWorld(kPingPong, 0, 0) // upstream speaks the vh frame format
	if err != nil {
		panic(err)
	}
	pool := sx.NewConnPool(context.Background(), mxCodecInst, w.host)
	show := func(what string) {
		st, id, _ := sx.VerifMultiplexState(pool, 0)
		open := 0
		for _, c := range w.host.created {
			if !(c.State() == 2) {
				open++
			}
		}
		fmt.Printf("%-40s slot state=%d conn=%d  created=%d open=%d upstream-conns=%d\n", what, st, id, len(w.host.created), open, w.up.nconns())
	}
	ready := func() {
		ctx := variable.NewVariableContext(context.Background())
		waitFor(2*time.Second, func() bool { return pool.CheckAndInit(ctx) })
	}
	ready()
	show("after CheckAndInit")
	ctx := buffer.NewBufferPoolContext(variable.NewVariableContext(context.Background()))
	l := &lease{tok: 1}
	_, sender, reason := pool.NewStream(ctx, l)
	fmt.Println("NewStream:", reason)
	sender.GetStream().AddEventListener(l)
	sender.AppendHeaders(ctx, &ppFrame{typ: ppRequest, tok: 1}, true)
	waitFor(time.Second, func() bool { return w.up.nconns() > 0 && len(w.up.conns[0].reqs) > 0 })
	show("stream 1 in flight on conn0")
	uc0 := w.up.conns[0]
	uc0.write(append(ppFrameBytes(ppGoAway, 0, 0), ppFrameBytes(ppHB, 0, 0)...))
	waitFor(time.Second, func() bool { uc0.mu.Lock(); defer uc0.mu.Unlock(); return uc0.hbAcks > 0 })
	show("go-away received on conn0")
	ready()
	show("CheckAndInit again (re-init)")
	uc0.mu.Lock()
	id := uc0.ids[1]
	uc0.mu.Unlock()
	uc0.write(ppFrameBytes(ppResponse, id, 1))
	waitFor(time.Second, func() bool { r, _, _, _ := l.snap(); return r > 0 })
	time.Sleep(20 * time.Millisecond)
	show("stream 1 answered (conn0 drained)")
	fmt.Println("   conn0 closed by mosn:", w.host.created[0].State() == 2, "(go-away connection should be closed once drained)")
	uc0.c.Close()
	waitFor(time.Second, func() bool { return w.host.created[0].State() == 2 })
	time.Sleep(20 * time.Millisecond)
	show("upstream closed conn0")
	ready()
	show("CheckAndInit again")
	_ = types.Overflow
	return 0
}
