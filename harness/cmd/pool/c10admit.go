package main

// C10 / C09, pool part: CHECK-THEN-ACT on the limits.  N goroutines call pool.NewStream at the same instant (spin barrier) on a
// pool whose cluster has max_requests = 1 (resp. max_connections = 1); the streams are kept alive, so at most ONE admission
// (resp. one connection) is within the limit.  Finder only (the sequential models take admissions one at a time; the
// interleaving is Model/PoolAdmit.v).

import (
	"context"
	"fmt"
	"sync"
	"sync/atomic"

	sx "mosn.io/mosn/pkg/stream/xprotocol"
	"mosn.io/mosn/pkg/types"
	"mosn.io/pkg/buffer"
	"mosn.io/pkg/variable"

	. "vh/vhlib"
)

type admitRes struct {
	pool            string
	limit           string // requests | connections
	n               int
	admitted, conns int
	reqCur          int64
	reqGauge        int64
	drainedReq      int64
	drainedGauge    int64
}

func admitWorld(pool string, maxConn, maxReq uint64) *world {
	var w *world
	var err error
	switch pool {
	case "http1":
		w, err = newWorld(kHTTP1, maxConn, maxReq)
	case "http2":
		w, err = newWorld(kH2, maxConn, maxReq)
	case "pingpong":
		w, err = newWorld(kPingPong, maxConn, maxReq)
	case "multiplex":
		w, err = newWorld(kPingPong, maxConn, maxReq)
		if err == nil {
			w.pool = sx.NewConnPool(context.Background(), mxCodecInst, w.host)
			ctx := variable.NewVariableContext(context.Background())
			waitFor(20e9, func() bool { return w.pool.CheckAndInit(ctx) })
		}
	}
	if err != nil {
		panic(err)
	}
	w.noHeldWait = true
	return w
}

func runAdmit(pool, limit string, n int) admitRes {
	var maxConn, maxReq uint64
	if limit == "requests" {
		maxReq = 1
	} else {
		maxConn = 1
	}
	w := admitWorld(pool, maxConn, maxReq)
	defer w.close()
	var ready, goFlag, admitted int32
	var wg sync.WaitGroup
	var mu sync.Mutex
	var leases []*lease
	for i := 0; i < n; i++ {
		wg.Add(1)
		go func(i int) {
			defer wg.Done()
			ctx := buffer.NewBufferPoolContext(variable.NewVariableContext(context.Background()))
			l := &lease{tok: 100 + i, ctx: ctx, cli: -1, recvWanted: true}
			atomic.AddInt32(&ready, 1)
			for atomic.LoadInt32(&goFlag) == 0 {
			}
			_, sender, reason := w.pool.NewStream(ctx, l)
			if reason != "" || sender == nil {
				return
			}
			sender.GetStream().AddEventListener(l)
			l.sender = sender
			atomic.AddInt32(&admitted, 1)
			mu.Lock()
			leases = append(leases, l)
			mu.Unlock()
		}(i)
	}
	for atomic.LoadInt32(&ready) < int32(n) {
	}
	atomic.StoreInt32(&goFlag, 1)
	wg.Wait()
	w.registerNewClients()
	r := admitRes{pool: pool, limit: limit, n: n, admitted: int(admitted)}
	for _, c := range w.clients {
		if !c.closedMosnSide() {
			r.conns++
		}
	}
	r.reqCur, r.reqGauge = w.rm.Requests().Cur(), w.host.HostStats().UpstreamRequestActive.Count()
	// every admitted stream ends: the books must be back at zero whatever was admitted
	for _, l := range leases {
		l.sender.GetStream().ResetStream(types.StreamLocalReset)
	}
	waitFor(20e9, func() bool {
		return w.rm.Requests().Cur() == 0 && w.host.HostStats().UpstreamRequestActive.Count() == 0
	})
	r.drainedReq, r.drainedGauge = w.rm.Requests().Cur(), w.host.HostStats().UpstreamRequestActive.Count()
	return r
}

func c10admit(run *Run) {
	rounds := run.N(12, 150)
	type cfg struct{ pool, limit string }
	cfgs := []cfg{{"http1", "requests"}, {"pingpong", "requests"}, {"multiplex", "requests"}, {"http2", "requests"},
		{"http1", "connections"}, {"pingpong", "connections"}}
	var mu sync.Mutex
	var res []admitRes
	var wg sync.WaitGroup
	sem := make(chan struct{}, 4)
	for _, c := range cfgs {
		for i := 0; i < rounds; i++ {
			c, n := c, 2+i%7
			wg.Add(1)
			sem <- struct{}{}
			go func() {
				defer func() { <-sem; wg.Done() }()
				r := runAdmit(c.pool, c.limit, n)
				mu.Lock()
				res = append(res, r)
				mu.Unlock()
			}()
		}
	}
	wg.Wait()
	seen := map[string]bool{}
	for _, r := range res {
		key := fmt.Sprintf("admit/%s/%s/%d", r.pool, r.limit, r.n)
		run.Count(key, true, "admit:"+r.pool+":"+r.limit)
		replay := map[string]interface{}{"pool": r.pool, "limit": r.limit + " = 1", "concurrent_newstream": r.n, "admitted": r.admitted,
			"open_connections": r.conns, "requests_cur": r.reqCur, "request_active": r.reqGauge, "after_drain_requests_cur": r.drainedReq, "after_drain_request_active": r.drainedGauge}
		fail := func(sig, what string) {
			if !seen[sig] {
				seen[sig] = true
				run.Fail(sig, what, replay)
			} else {
				run.Sum.Distribution["finder:"+sig]++
			}
		}
		if r.limit == "requests" && r.admitted > 1 {
			fail("xpool:max-requests-exceeded:concurrent-newstream:"+r.pool, fmt.Sprintf("max_requests = 1: %d of %d simultaneous NewStream calls were admitted (Requests().Cur() = %d)", r.admitted, r.n, r.reqCur))
		}
		if r.limit == "connections" && r.conns > 1 {
			fail("xpool:max-connections-exceeded:concurrent-newstream:"+r.pool, fmt.Sprintf("max_connections = 1: %d simultaneous NewStream calls left %d connections open", r.n, r.conns))
		}
		if r.reqCur != int64(r.admitted) && r.limit == "requests" || r.reqGauge != int64(r.admitted) {
			fail("xpool:request-books-differ-after-concurrent-admission:"+r.pool, fmt.Sprintf("%d streams admitted and alive, Requests().Cur() = %d, upstream_request_active = %d", r.admitted, r.reqCur, r.reqGauge))
		}
		if r.drainedReq != 0 || r.drainedGauge != 0 {
			fail("xpool:request-active-leaked:concurrent-admission:"+r.pool, fmt.Sprintf("all %d admitted streams were reset: Requests().Cur() = %d, upstream_request_active = %d", r.admitted, r.drainedReq, r.drainedGauge))
		}
	}
}
