package main

// C09, binding pool (connpool_binding.go: ONE upstream connection bound to each downstream connection): the first streams of
// one downstream connection arrive CONCURRENTLY on a pool that has no client bound yet (goroutines + spin barrier), then
// every open upstream connection that carries none of the streams is closed by the upstream, then one more stream of the
// same downstream connection.  Truth kept by the harness: the connections the host created, which of them are open, which
// connection every stream was put on.  Finder only.

import (
	"fmt"
	"sync"
	"sync/atomic"
	"time"

	"mosn.io/mosn/pkg/types"

	. "vh/vhlib"
)

type bindRes struct {
	n        int
	dialled  int
	findings []finding
	replay   map[string]interface{}
}

var bindTok int32 = 7000

// bindNew: one stream of THE downstream connection; its request is sent, the upstream connection it arrives on is the truth
// about where the pool put the stream (l.cli is filled in by whereIs once the connections are registered)
func (w *aworld) bindNew() *lease {
	ctx := w.reqCtx()
	l := &lease{tok: int(atomic.AddInt32(&bindTok, 1)), ctx: ctx, cli: -1, recvWanted: true}
	_, sender, reason := w.pool.NewStream(ctx, l)
	if reason != "" || sender == nil {
		return nil
	}
	sender.GetStream().AddEventListener(l)
	l.sender = sender
	l.sent = true
	sender.AppendHeaders(ctx, &ppFrame{typ: ppRequest, tok: uint32(l.tok)}, true)
	return l
}

// whereIs: the connection (index in w.clients) whose upstream end received the request of l
func (w *aworld) whereIs(l *lease) int {
	found := -1
	waitFor(20*time.Second, func() bool {
		for _, c := range w.clients {
			if c.up == nil {
				continue
			}
			c.up.mu.Lock()
			for _, t := range c.up.reqs {
				if t == l.tok {
					found = c.idx
				}
			}
			c.up.mu.Unlock()
		}
		return found >= 0
	})
	return found
}

func runBind(n int) *bindRes {
	w := newAWorld("binding", 0)
	defer w.close()
	r := &bindRes{n: n}
	var fs []finding
	add := func(sig, what string) { fs = append(fs, finding{"binding:" + sig, what}) }
	var ready, goFlag int32
	var wg sync.WaitGroup
	var mu sync.Mutex
	var leases []*lease
	for i := 0; i < n; i++ {
		wg.Add(1)
		go func() {
			defer wg.Done()
			atomic.AddInt32(&ready, 1)
			for atomic.LoadInt32(&goFlag) == 0 {
			}
			if l := w.bindNew(); l != nil {
				mu.Lock()
				leases = append(leases, l)
				mu.Unlock()
			}
		}()
	}
	for atomic.LoadInt32(&ready) < int32(n) {
	}
	atomic.StoreInt32(&goFlag, 1)
	wg.Wait()
	w.registerNewClients()
	carries := map[int]int{}
	for _, l := range leases {
		if l.cli = w.whereIs(l); l.cli >= 0 {
			carries[l.cli]++
		} else {
			add("request-never-reached-the-upstream", fmt.Sprintf("the request with token %d was written on a stream of the pool and arrived on none of its connections", l.tok))
		}
	}
	describe := func() []string {
		var out []string
		for _, c := range w.clients {
			out = append(out, fmt.Sprintf("connection %d: open=%v streams=%d", c.idx, !c.closedMosnSide(), carries[c.idx]))
		}
		return out
	}
	var open, losers []*cliRec
	for _, c := range w.clients {
		if !c.closedMosnSide() {
			open = append(open, c)
			if carries[c.idx] == 0 {
				losers = append(losers, c)
			}
		}
	}
	after1 := describe()
	r.dialled = len(w.clients)
	if len(carries) > 1 {
		add("streams-of-one-downstream-connection-on-several-upstream-connections", fmt.Sprintf("%d concurrent first streams of one downstream connection were put on %d different upstream connections", n, len(carries)))
	}
	if len(losers) > 0 {
		add("connection-leaked-unbound", fmt.Sprintf("%d concurrent first streams of one downstream connection: %d upstream connections are open, %d of them carry no stream and are not the bound one", n, len(open), len(losers)))
	}
	if g := w.host.HostStats().UpstreamConnectionActive.Count(); g != int64(len(open)) {
		add("connection-active-differs-from-open-connections", fmt.Sprintf("upstream_connection_active = %d with %d connections open", g, len(open)))
	}
	// the upstream closes every connection that carries no stream; the binding of the downstream connection must survive
	for _, c := range losers {
		w.connClose(c, "fin")
	}
	time.Sleep(200 * time.Microsecond)
	var winner *cliRec
	for _, c := range w.clients {
		if !c.closedMosnSide() && carries[c.idx] > 0 {
			winner = c
		}
	}
	nc := len(w.clients)
	if l := w.bindNew(); l != nil {
		w.registerNewClients()
		leases = append(leases, l)
		if ci := w.whereIs(l); winner != nil && len(carries) == 1 && ci != winner.idx {
			where := "no connection (its request never arrived)"
			if ci >= 0 {
				where = fmt.Sprintf("connection %d (new: %v)", ci, ci >= nc)
			}
			add("winner-unbound-by-loser-close", fmt.Sprintf("connection %d carries the streams of the downstream connection and is open, but after the close of the unused connection(s) the next stream of the same downstream connection was put on %s", winner.idx, where))
		}
	}
	r.replay = map[string]interface{}{"pool": "binding", "concurrent_first_streams": n, "after_the_concurrent_streams": after1, "after_closing_unused_connections_and_one_more_stream": describe()}
	// drain: every stream ends, every connection closes: gauges at zero
	for _, l := range leases {
		l.sender.GetStream().ResetStream(types.StreamLocalReset)
	}
	for _, c := range w.clients {
		if !c.closedMosnSide() {
			w.connClose(c, "fin")
		}
	}
	waitFor(20*time.Second, func() bool {
		return w.host.HostStats().UpstreamConnectionActive.Count() == 0 && w.host.HostStats().UpstreamRequestActive.Count() == 0
	})
	if g, q := w.host.HostStats().UpstreamConnectionActive.Count(), w.host.HostStats().UpstreamRequestActive.Count(); g != 0 || q != 0 {
		add("gauges-not-zero-after-drain", fmt.Sprintf("every stream was reset and every connection closed: upstream_connection_active = %d, upstream_request_active = %d", g, q))
	}
	r.findings = fs
	return r
}

func c09bind(run *Run) {
	rounds := run.N(60, 600)
	var mu sync.Mutex
	var res []*bindRes
	var wg sync.WaitGroup
	sem := make(chan struct{}, 6)
	for i := 0; i < rounds; i++ {
		n := 2 + i%3
		wg.Add(1)
		sem <- struct{}{}
		go func() {
			defer func() { <-sem; wg.Done() }()
			r := runBind(n)
			mu.Lock()
			res = append(res, r)
			mu.Unlock()
		}()
	}
	wg.Wait()
	seen := map[string]bool{}
	for _, r := range res {
		run.Count(fmt.Sprintf("bind/%d", r.n), true, "family:binding-concurrent-first-streams")
		run.Sum.Distribution[fmt.Sprintf("binding-connections-dialled-by-%d-concurrent-first-streams:%d", r.n, r.dialled)]++
		for _, f := range r.findings {
			if !seen[f.sig] {
				seen[f.sig] = true
				run.Fail(f.sig, f.what, r.replay)
			} else {
				run.Sum.Distribution["finder:"+f.sig]++
			}
		}
	}
}
